import GrolProofs.RenVal
import GrolProofs.EvalSafeEnv
/-
C10 (two-run simulation), part 2: the environment operations (lean/Grol/Eval/Env.lean) run in
lockstep in the two runs.
-/
namespace Grol.R
open Grol.E

/-- renamed results -/
abbrev QO (σ : Sh) : Obj → Obj → Prop := fun a b => a = ren σ b
abbrev QOpt (σ : Sh) : Option Obj → Option Obj → Prop := fun a b => a = b.map (ren σ)

/-! ### frames of the two runs -/

def FrameDec (i : Nat) (f : Frame) : Prop :=
  (∀ o, f.outer = some o → o < i) ∧ (∀ k e n, (k, Obj.ref e n) ∈ f.store → e < i)

theorem StR.none {σ : Sh} {s t : St} (hR : StR σ s t) {e : Nat} (h : t.frames[e]? = none) :
    s.frames[sh σ e]? = none := by
  have h1 : t.frames.size ≤ e := by
    rcases Nat.lt_or_ge e t.frames.size with h2 | h2
    · rw [Array.getElem?_eq_getElem h2] at h; cases h
    · exact h2
  apply Array.getElem?_eq_none
  rw [hR.size, sh_of_ge σ (Nat.le_trans hR.n0 h1)]
  omega

theorem runM_getFrame_none {st : St} {e : Nat} (h : st.frames[e]? = none) :
    runM (getFrame e) st = (.error (.goPanic "nil environment"), st) := by
  unfold getFrame
  rw [runM_bind, runM_get]
  simp only [h]
  rfl

/-- `getFrame` on both sides: either both panic, or both continue with related frames -/
theorem sim_getFrame_bind {σ : Sh} {s t : St} (hR : StR σ s t) (e : Nat) {f : Frame → M α} {g : Frame → M β}
    {Q : α → β → Prop}
    (h : ∀ fs ft, t.frames[e]? = some ft → s.frames[sh σ e]? = some fs → FrameR σ e fs ft →
      SimAt σ (f fs) (g ft) s t Q) :
    SimAt σ (getFrame (sh σ e) >>= f) (getFrame e >>= g) s t Q := by
  cases hte : t.frames[e]? with
  | none =>
    unfold SimAt
    rw [runM_bind, runM_bind, runM_getFrame_none hte, runM_getFrame_none (hR.none hte)]
    exact ⟨rfl, hR⟩
  | some ft =>
    obtain ⟨fs, hfs, hfr⟩ := hR.frames e ft hte
    exact SimAt.bind_read (runM_getFrame hfs) (runM_getFrame hte) (h fs ft hte hfs hfr)

/-- replacing related frames by related frames -/
theorem StR.setFrame {σ : Sh} {s t : St} (hR : StR σ s t) {e : Nat} {ft : Frame} (hte : t.frames[e]? = some ft)
    {fs' ft' : Frame} (hfr : FrameR σ e fs' ft') (hdec : FrameDec e ft') :
    StR σ { s with frames := s.frames.setIfInBounds (sh σ e) fs' }
      { t with frames := t.frames.setIfInBounds e ft' } := by
  have hlt := lt_of_frame hte
  obtain ⟨fs, hfs, _⟩ := hR.frames e ft hte
  have hlts := lt_of_frame hfs
  refine { hR with size := ?_, n0 := ?_, frames := ?_, dec := ?_ }
  · simp only [Array.size_setIfInBounds]; exact hR.size
  · simp only [Array.size_setIfInBounds]; exact hR.n0
  · intro i fi hi
    simp only [Array.getElem?_setIfInBounds] at hi ⊢
    by_cases hei : e = i
    · subst hei
      simp only [hlt, if_true] at hi
      cases hi
      exact ⟨fs', by simp [hlts], hfr⟩
    · simp only [hei, if_false] at hi
      obtain ⟨fsi, hfsi, hfri⟩ := hR.frames i fi hi
      refine ⟨fsi, ?_, hfri⟩
      have : sh σ e ≠ sh σ i := fun h => hei (sh_inj σ h)
      simp only [this, if_false]
      exact hfsi
  · intro i fi hi
    simp only [Array.getElem?_setIfInBounds] at hi
    by_cases hei : e = i
    · subst hei
      simp only [hlt, if_true] at hi
      cases hi
      exact hdec
    · simp only [hei, if_false] at hi
      exact hR.dec i fi hi

theorem runM_modifyFrame {st : St} {e : Nat} {f : Frame} (h : st.frames[e]? = some f) (g : Frame → Frame) :
    runM (modifyFrame e g) st = (.ok (), { st with frames := st.frames.setIfInBounds e (g f) }) := by
  unfold modifyFrame
  rw [runM_bind, runM_getFrame h]
  rfl

theorem sim_modifyFrame {σ : Sh} {s t : St} (hR : StR σ s t) (e : Nat) {g' g : Frame → Frame}
    (hg : ∀ fs ft, t.frames[e]? = some ft → FrameR σ e fs ft → FrameR σ e (g' fs) (g ft) ∧ FrameDec e (g ft)) :
    SimAt σ (modifyFrame (sh σ e) g') (modifyFrame e g) s t (fun _ _ => True) := by
  cases hte : t.frames[e]? with
  | none =>
    unfold SimAt modifyFrame
    rw [runM_bind, runM_bind, runM_getFrame_none hte, runM_getFrame_none (hR.none hte)]
    exact ⟨rfl, hR⟩
  | some ft =>
    obtain ⟨fs, hfs, hfr⟩ := hR.frames e ft hte
    obtain ⟨h1, h2⟩ := hg fs ft hte hfr
    unfold SimAt
    rw [runM_modifyFrame hfs, runM_modifyFrame hte]
    exact ⟨hR.setFrame hte h1 h2, trivial⟩

/-- counters and flags only -/
theorem sim_bump {σ : Sh} {s t : St} (hR : StR σ s t) (e : Nat) {g : Frame → Frame}
    (hg : ∀ f, (g f).store = f.store ∧ (g f).outer = f.outer ∧ (g f).depth = f.depth ∧
      (g f).cacheKey = f.cacheKey ∧ (g f).function = f.function)
    (hc : ∀ fs ft : Frame, fs.getMiss = ft.getMiss ∧ fs.cantCache = ft.cantCache ∧ fs.numSet = ft.numSet →
      (g fs).getMiss = (g ft).getMiss ∧ (g fs).cantCache = (g ft).cantCache ∧ (g fs).numSet = (g ft).numSet)
    (hl : ∀ f, (g f).localFunc = f.localFunc := by intro f; rfl) :
    SimAt σ (modifyFrame (sh σ e) g) (modifyFrame e g) s t (fun _ _ => True) := by
  refine sim_modifyFrame hR e ?_
  intro fs ft hte hfr
  obtain ⟨a1, a2, a3, a4, a5⟩ := hg fs
  obtain ⟨b1, b2, b3, b4, b5⟩ := hg ft
  refine ⟨⟨by rw [a1, b1]; exact hfr.store, by rw [a2, b2]; exact hfr.outer, by rw [a3, b3]; exact hfr.depth,
    by rw [a4, b4]; exact hfr.cacheKey, by rw [a5, b5]; exact hfr.function, fun h => hc fs ft (hfr.counters h),
    by rw [hl fs, hl ft]; exact hfr.localFunc⟩, ?_⟩
  have := hR.dec e ft hte
  exact ⟨by rw [b2]; exact this.1, by rw [b1]; exact this.2⟩

theorem sim_triggerNoCache {σ : Sh} {s t : St} (hR : StR σ s t) (e : Nat) :
    SimAt σ (triggerNoCache (sh σ e)) (triggerNoCache e) s t (fun _ _ => True) := by
  unfold triggerNoCache
  refine sim_bump hR e (fun f => ⟨rfl, rfl, rfl, rfl, rfl⟩) ?_
  intro fs ft h
  exact ⟨by simp [h.1], rfl, h.2.2⟩

/-! ### references -/

def notRef : Obj → Bool
  | .ref .. => false
  | _ => true

theorem ren_notRef (σ : Sh) {o : Obj} (h : notRef o = true) : notRef (ren σ o) = true := by
  cases o <;> first | rfl | (simp [notRef] at h)

/-- `refValue`: related results; a reference found in frame `env` points below `env` -/
theorem sim_refValue {σ : Sh} {s t : St} (hR : StR σ s t) (env : Nat) (name : String) :
    SimAt σ (refValue (sh σ env) name) (refValue env name) s t
      (fun a b => a = ren σ b ∧ ∀ e' n', b = Obj.ref e' n' → e' < env) := by
  unfold refValue
  refine sim_getFrame_bind hR env ?_
  intro fs ft hte hfs hfr
  rw [hfr.store, lookupStore_ren]
  cases hl : lookupStore ft.store name with
  | none => exact SimAt.pure hR ⟨rfl, fun _ _ h => by cases h⟩
  | some v =>
    obtain ⟨k, hk⟩ := lookupStore_mem hl
    cases v with
    | ref e n =>
      have hlt : e < env := (hR.dec env ft hte).2 k e n hk
      simp only [Option.map, ren]
      have h1 : (e == env && n == name) = false := by
        have : (e == env) = false := by simp; omega
        simp [this]
      have h2 : (sh σ e == sh σ env && n == name) = false := by
        have : (sh σ e == sh σ env) = false := by
          have := sh_lt σ hlt
          simp; omega
        simp [this]
      simp only [h1, h2]
      exact SimAt.pure hR ⟨rfl, fun e' n' h => by cases h; exact hlt⟩
    | _ => exact SimAt.pure hR ⟨rfl, fun _ _ h => by cases h⟩

theorem sim_refAlive {σ : Sh} {s t : St} (hR : StR σ s t) (env : Nat) (name : String) :
    SimAt σ (refAlive (sh σ env) name) (refAlive env name) s t (fun a b => a = b) := by
  unfold refAlive
  refine sim_getFrame_bind hR env ?_
  intro fs ft hte hfs hfr
  rw [hfr.store, lookupStore_ren]
  refine SimAt.pure hR ?_
  cases lookupStore ft.store name <;> rfl

theorem go_notRef {o : Obj} (h : notRef o = true) (n : Nat) : valueOf.go n o = pure o := by
  cases o <;> cases n <;> first | rfl | (simp [notRef] at h)

/-- dereferencing, with any fuels that cover the chain -/
theorem sim_valueOf_go {σ : Sh} :
    ∀ (n m : Nat) (o : Obj) (s t : St), StR σ s t → (∀ e nm, o = Obj.ref e nm → e < n ∧ sh σ e < m) →
      SimAt σ (valueOf.go m (ren σ o)) (valueOf.go n o) s t (fun a b => a = ren σ b ∧ notRef b = true) := by
  intro n
  induction n with
  | zero =>
    intro m o s t hR ho
    cases ho' : notRef o with
    | false =>
      cases o with
      | ref e nm => exact absurd (ho e nm rfl).1 (Nat.not_lt_zero _)
      | _ => simp [notRef] at ho'
    | true =>
      rw [go_notRef ho', go_notRef (ren_notRef σ ho')]
      exact SimAt.pure hR ⟨rfl, ho'⟩
  | succ n ih =>
    intro m o s t hR ho
    cases ho' : notRef o with
    | true =>
      rw [go_notRef ho', go_notRef (ren_notRef σ ho')]
      exact SimAt.pure hR ⟨rfl, ho'⟩
    | false =>
      cases o with
      | ref e nm =>
        obtain ⟨hen, hem⟩ := ho e nm rfl
        obtain ⟨m', rfl⟩ : ∃ m', m = m' + 1 := ⟨m - 1, by omega⟩
        simp only [ren]
        unfold valueOf.go
        refine SimAt.bind (sim_refValue hR e nm) ?_
        rintro a b s' t' hR' ⟨hab, hb⟩
        subst hab
        have hnext : ∀ s2 t2, StR σ s2 t2 →
            SimAt σ (valueOf.go m' (ren σ b)) (valueOf.go n b) s2 t2 (fun a b => a = ren σ b ∧ notRef b = true) := by
          intro s2 t2 hR2
          refine ih m' b s2 t2 hR2 ?_
          intro e' n' hbe
          have := hb e' n' hbe
          have h2 := sh_lt σ this
          exact ⟨by omega, by omega⟩
        dsimp only
        cases b with
        | ref e' n' =>
          simp only [ren]
          refine sim_getFrame_bind hR' e' ?_
          intro fs1 ft1 _ _ hfr1
          refine sim_getFrame_bind hR' e ?_
          intro fs2 ft2 _ _ hfr2
          rw [hfr1.depth, hfr2.depth]
          exact SimAt.ite (fun _ => SimAt.stop_bind hR') (fun _ => hnext _ _ hR')
        | _ => all_goals exact hnext _ _ hR'
      | _ => simp [notRef] at ho'

theorem sim_valueOf {σ : Sh} {s t : St} (hR : StR σ s t) (o : Obj) :
    SimAt σ (valueOf (ren σ o)) (valueOf o) s t (fun a b => a = ren σ b ∧ notRef b = true) := by
  unfold valueOf
  refine SimAt.bind_read (runM_get s) (runM_get t) ?_
  cases o with
  | ref e nm =>
    by_cases he : e < t.frames.size
    · refine sim_valueOf_go _ _ _ s t hR ?_
      intro e' nm' h
      cases h
      have h1 := sh_lt σ he
      have h2 : sh σ t.frames.size = t.frames.size + σ.d := sh_of_ge σ hR.n0
      rw [hR.size]
      exact ⟨by omega, by omega⟩
    · -- out of range in both runs: `refValue` panics
      simp only [ren]
      unfold valueOf.go
      have hte : t.frames[e]? = none := Array.getElem?_eq_none (by omega)
      unfold SimAt refValue
      rw [runM_bind, runM_bind, runM_bind, runM_bind, runM_getFrame_none hte, runM_getFrame_none (hR.none hte)]
      exact ⟨rfl, hR⟩
  | _ =>
    all_goals
      refine sim_valueOf_go _ _ _ s t hR ?_
      intro e nm h; cases h

/-! ### makeRef -/

theorem refTo_ren (σ : Sh) (o : Nat) (name : String) (obj : Obj) :
    refTo (sh σ o) name (ren σ obj) = ren σ (refTo o name obj) := by
  cases obj <;> rfl

theorem isFuncObj_ren (σ : Sh) (o : Obj) : isFuncObj (ren σ o) = isFuncObj o := by
  cases o <;> rfl

/-- storing `r` under `name` in related frames -/
theorem frameR_setStore {σ : Sh} {i : Nat} {fs ft : Frame} (h : FrameR σ i fs ft) (name : String) (v : Obj) :
    FrameR σ i { fs with store := setStore fs.store name (ren σ v) } { ft with store := setStore ft.store name v } :=
  ⟨by simp only; rw [h.store, setStore_ren], h.outer, h.depth, h.cacheKey, h.function, h.counters, h.localFunc⟩

theorem frameDec_setStore {i : Nat} {ft : Frame} (h : FrameDec i ft) (name : String) {v : Obj}
    (hv : ∀ e n, v = Obj.ref e n → e < i) : FrameDec i { ft with store := setStore ft.store name v } := by
  refine ⟨h.1, ?_⟩
  intro k e n hm
  rcases mem_setStore hm with h1 | h1
  · exact h.2 k e n h1
  · exact hv e n h1.symm

theorem sim_makeRef_go {σ : Sh} (orig : Nat) (name : String) :
    ∀ (n m e : Nat) (s t : St), StR σ s t → e < t.frames.size → e < n → sh σ e < m → e ≤ orig →
      orig < t.frames.size →
      SimAt σ (makeRef.go (sh σ orig) name m (sh σ e)) (makeRef.go orig name n e) s t (QOpt σ) := by
  intro n
  induction n with
  | zero => intro m e s t _ _ h; exact absurd h (Nat.not_lt_zero _)
  | succ n ih =>
    intro m e s t hR het hen hem heo hot
    obtain ⟨m', rfl⟩ : ∃ m', m = m' + 1 := ⟨m - 1, by omega⟩
    unfold makeRef.go
    refine sim_getFrame_bind hR e ?_
    intro fs ft hte hfs hfr
    rw [hfr.outer]
    cases hout : ft.outer with
    | none => exact SimAt.pure hR rfl
    | some o =>
      have hoe : o < e := (hR.dec e ft hte).1 o hout
      simp only [Option.map]
      refine sim_getFrame_bind hR o ?_
      intro fso fto hto hfso hfro
      rw [hfro.store, lookupStore_ren]
      cases hl : lookupStore fto.store name with
      | none =>
        simp only [Option.map]
        have := sh_lt σ hoe
        exact ih m' o s t hR (by omega) (by omega) (by omega) (by omega) hot
      | some obj =>
        simp only [Option.map]
        obtain ⟨k, hk⟩ := lookupStore_mem hl
        try dsimp only
        rw [refTo_ren, isFuncObj_ren]
        -- where the stored reference points
        have hr : ∀ e' n', refTo o name obj = Obj.ref e' n' → e' < orig := by
          intro e' n' h
          cases obj with
          | ref e2 n2 =>
            have := (hR.dec o fto hto).2 k e2 n2 hk
            cases h; omega
          | _ => all_goals (cases h; omega)
        generalize refTo o name obj = r at hr
        refine SimAt.bind (Q := fun _ _ => True) ?_ ?_
        · refine sim_modifyFrame hR orig ?_
          intro fs1 ft1 hte1 hfr1
          exact ⟨frameR_setStore hfr1 name r, frameDec_setStore (hR.dec orig ft1 hte1) name hr⟩
        · intro _ _ s1 t1 hR1 _
          have hjp : ∀ (rd rd' : Nat), rd = rd' → SimAt σ
              (if (!(isConstant name && rd == 0) && !(isFuncObj obj && rd == 0)) = true then do
                  let __r ← modifyFrame (sh σ orig) fun f => { f with getMiss := f.getMiss + 1 }
                  (fun _ => pure (some (ren σ r)) : Unit → M (Option Obj)) __r
                else pure (some (ren σ r)))
              (if (!(isConstant name && rd' == 0) && !(isFuncObj obj && rd' == 0)) = true then do
                  let __r ← modifyFrame orig fun f => { f with getMiss := f.getMiss + 1 }
                  (fun _ => pure (some r) : Unit → M (Option Obj)) __r
                else pure (some r)) s1 t1 (QOpt σ) := by
            intro rd rd' hrd
            subst hrd
            refine SimAt.ite (fun _ => ?_) (fun _ => SimAt.pure hR1 rfl)
            refine SimAt.bind (Q := fun _ _ => True) ?_ (fun _ _ s2 t2 hR2 _ => SimAt.pure hR2 rfl)
            refine sim_bump hR1 orig (fun f => ⟨rfl, rfl, rfl, rfl, rfl⟩) ?_
            intro fs2 ft2 h
            exact ⟨by simp [h.1], h.2.1, h.2.2⟩
          cases r with
          | ref e' n' =>
            simp only [ren]
            refine sim_getFrame_bind hR1 e' ?_
            intro fs3 ft3 _ _ hfr3
            refine SimAt.bind_read (runM_pure _ s1) (runM_pure _ t1) ?_
            exact hjp _ _ hfr3.depth
          | _ =>
            all_goals
              simp only [ren]
              refine SimAt.bind_read (runM_pure _ s1) (runM_pure _ t1) ?_
              exact hjp _ _ rfl

theorem sim_makeRef {σ : Sh} {s t : St} (hR : StR σ s t) (orig : Nat) (name : String) :
    SimAt σ (makeRef (sh σ orig) name) (makeRef orig name) s t (QOpt σ) := by
  unfold makeRef
  refine SimAt.bind_read (runM_get s) (runM_get t) ?_
  have h2 : sh σ t.frames.size = t.frames.size + σ.d := sh_of_ge σ hR.n0
  by_cases ho : orig < t.frames.size
  · have h1 := sh_lt σ ho
    exact sim_makeRef_go orig name _ _ orig s t hR ho ho (by rw [hR.size]; omega) (Nat.le_refl _) ho
  · -- out of range in both runs (there is at least the root frame, so the fuel is not 0)
    have hpos := hR.pos
    have hn0 := hR.n0
    obtain ⟨k, hk⟩ : ∃ k, t.frames.size = k + 1 := ⟨t.frames.size - 1, by omega⟩
    obtain ⟨k', hk'⟩ : ∃ k', s.frames.size = k' + 1 := ⟨s.frames.size - 1, by rw [hR.size]; omega⟩
    rw [hk, hk']
    unfold makeRef.go
    have hte : t.frames[orig]? = none := Array.getElem?_eq_none (by omega)
    unfold SimAt
    rw [runM_bind, runM_bind, runM_getFrame_none hte, runM_getFrame_none (hR.none hte)]
    exact ⟨rfl, hR⟩

/-! ### envGet -/

theorem frameR_delStore {σ : Sh} {i : Nat} {fs ft : Frame} (h : FrameR σ i fs ft) (name : String) :
    FrameR σ i { fs with store := delStore fs.store name } { ft with store := delStore ft.store name } :=
  ⟨by simp only; rw [h.store, delStore_ren], h.outer, h.depth, h.cacheKey, h.function, h.counters, h.localFunc⟩

theorem frameDec_delStore {i : Nat} {ft : Frame} (h : FrameDec i ft) (name : String) :
    FrameDec i { ft with store := delStore ft.store name } :=
  ⟨h.1, fun k e n hm => h.2 k e n (mem_delStore hm)⟩

theorem sim_envGet {σ : Sh} {s t : St} (hR : StR σ s t) (e : Nat) (name : String) :
    SimAt σ (envGet (sh σ e) name) (envGet e name) s t (QOpt σ) := by
  unfold envGet
  dsimp only
  refine SimAt.ite (fun _ => SimAt.stop_bind hR) (fun _ => ?_)
  refine sim_getFrame_bind hR e ?_
  intro fs ft hte hfs hfr
  have het := lt_of_frame hte
  -- the part after the `self` / function-name tests
  have hrest : SimAt σ (match lookupStore fs.store name with
      | some (Obj.ref re rn) => do
        let __do_lift ← refAlive re rn
        if (!__do_lift) = true then do
            modifyFrame (sh σ e) fun f => { f with store := delStore f.store name }
            match fs.outer with
              | none => pure none
              | some _ => makeRef (sh σ e) name
          else do
            let tgt ← refValue re rn
            let __do_lift ← getFrame re
            if (!(isConstant rn && __do_lift.depth == 0) && !(isFuncObj tgt && __do_lift.depth == 0)) = true then do
                modifyFrame (sh σ e) fun f => { f with getMiss := f.getMiss + 1 }
                pure (some (Obj.ref re rn))
              else pure (some (Obj.ref re rn))
      | some obj => pure (some obj)
      | none =>
        match fs.outer with
        | none => pure none
        | some _ => makeRef (sh σ e) name)
      (match lookupStore ft.store name with
      | some (Obj.ref re rn) => do
        let __do_lift ← refAlive re rn
        if (!__do_lift) = true then do
            modifyFrame e fun f => { f with store := delStore f.store name }
            match ft.outer with
              | none => pure none
              | some _ => makeRef e name
          else do
            let tgt ← refValue re rn
            let __do_lift ← getFrame re
            if (!(isConstant rn && __do_lift.depth == 0) && !(isFuncObj tgt && __do_lift.depth == 0)) = true then do
                modifyFrame e fun f => { f with getMiss := f.getMiss + 1 }
                pure (some (Obj.ref re rn))
              else pure (some (Obj.ref re rn))
      | some obj => pure (some obj)
      | none =>
        match ft.outer with
        | none => pure none
        | some _ => makeRef e name) s t (QOpt σ) := by
    rw [hfr.store, lookupStore_ren, hfr.outer]
    cases hl : lookupStore ft.store name with
    | none =>
      simp only [Option.map]
      cases ft.outer with
      | none => exact SimAt.pure hR rfl
      | some o => exact sim_makeRef hR e name
    | some obj =>
      cases obj with
      | ref re rn =>
        simp only [Option.map, ren]
        refine SimAt.bind (sim_refAlive hR re rn) ?_
        rintro a b s1 t1 hR1 rfl
        refine SimAt.ite (fun _ => ?_) (fun _ => ?_)
        · refine SimAt.bind (Q := fun _ _ => True) ?_ ?_
          · refine sim_modifyFrame hR1 e ?_
            intro fs1 ft1 hte1 hfr1
            exact ⟨frameR_delStore hfr1 name, frameDec_delStore (hR1.dec e ft1 hte1) name⟩
          · intro _ _ s2 t2 hR2 _
            cases ft.outer with
            | none => exact SimAt.pure hR2 rfl
            | some o =>
              exact sim_makeRef hR2 e name
        · refine SimAt.bind (sim_refValue hR1 re rn) ?_
          rintro tgs tgt s2 t2 hR2 ⟨rfl, _⟩
          refine sim_getFrame_bind hR2 re ?_
          intro fs3 ft3 _ _ hfr3
          rw [hfr3.depth, isFuncObj_ren]
          refine SimAt.ite (fun _ => ?_) (fun _ => SimAt.pure hR2 rfl)
          refine SimAt.bind (Q := fun _ _ => True) ?_ (fun _ _ s3 t3 hR3 _ => SimAt.pure hR3 rfl)
          refine sim_bump hR2 e (fun f => ⟨rfl, rfl, rfl, rfl, rfl⟩) ?_
          intro fs4 ft4 h
          exact ⟨by simp [h.1], h.2.1, h.2.2⟩
      | _ => all_goals exact SimAt.pure hR rfl
  refine SimAt.ite (fun _ => ?_) (fun _ => ?_)
  · rw [hfr.function]
    cases ft.function with
    | none => exact SimAt.pure hR rfl
    | some fn => exact SimAt.pure hR rfl
  · rw [hfr.function]
    cases ft.function with
    | none => exact hrest
    | some fn =>
      simp only [Option.map]
      refine SimAt.ite' (by simp [renFn]) (fun _ => SimAt.pure hR rfl) (fun _ => hrest)

/-! ### writes -/

theorem StR.clearCache {σ : Sh} {s t : St} (hR : StR σ s t) :
    StR σ { s with cache := [] } { t with cache := [] } :=
  { hR with cache := CacheR.nil }

theorem sim_functionChanged {σ : Sh} {s t : St} (hR : StR σ s t) (w : Nat) (old : Option Obj) :
    SimAt σ (functionChanged (sh σ w) (old.map (ren σ))) (functionChanged w old) s t (fun _ _ => True) := by
  unfold functionChanged
  cases old with
  | none => exact SimAt.pure hR trivial
  | some o =>
    simp only [Option.map, isFuncObj_ren]
    refine SimAt.ite (fun _ => ?_) (fun _ => SimAt.pure hR trivial)
    refine SimAt.bind (Q := fun _ _ => True) ?_ ?_
    · refine sim_bump hR w (fun f => ⟨rfl, rfl, rfl, rfl, rfl⟩) ?_
      intro fs ft h
      exact ⟨by simp [h.1], h.2.1, h.2.2⟩
    · intro _ _ s1 t1 hR1 _
      unfold SimAt
      rw [runM_modify, runM_modify]
      exact ⟨hR1.clearCache, trivial⟩

/-- the frame update of `create`, `update` and the reference path of `SetNoChecks` -/
theorem sim_storeSet {σ : Sh} {s t : St} (hR : StR σ s t) (e : Nat) (name : String) {v : Obj}
    (hnr : notRef v = true) (g' g : Frame → Frame)
    (hg' : ∀ f, (g' f).store = setStore f.store name (ren σ v) ∧ (g' f).outer = f.outer ∧ (g' f).depth = f.depth ∧
      (g' f).cacheKey = f.cacheKey ∧ (g' f).function = f.function ∧ (g' f).getMiss = f.getMiss ∧
      (g' f).cantCache = f.cantCache)
    (hg : ∀ f, (g f).store = setStore f.store name v ∧ (g f).outer = f.outer ∧ (g f).depth = f.depth ∧
      (g f).cacheKey = f.cacheKey ∧ (g f).function = f.function ∧ (g f).getMiss = f.getMiss ∧
      (g f).cantCache = f.cantCache)
    (hn : ∀ fs ft : Frame, fs.depth = ft.depth → fs.numSet = ft.numSet → (g' fs).numSet = (g ft).numSet)
    (hl : ∀ fs ft : Frame, fs.depth = ft.depth → fs.localFunc = ft.localFunc → (g' fs).localFunc = (g ft).localFunc := by
      intro fs ft h1 h2; simp only [noteLocal, h1, h2, isFuncObj_ren]) :
    SimAt σ (modifyFrame (sh σ e) g') (modifyFrame e g) s t (fun _ _ => True) := by
  refine sim_modifyFrame hR e ?_
  intro fs ft hte hfr
  obtain ⟨a1, a2, a3, a4, a5, a6, a7⟩ := hg' fs
  obtain ⟨b1, b2, b3, b4, b5, b6, b7⟩ := hg ft
  refine ⟨⟨by rw [a1, b1, hfr.store, setStore_ren], by rw [a2, b2]; exact hfr.outer, by rw [a3, b3]; exact hfr.depth,
    by rw [a4, b4]; exact hfr.cacheKey, by rw [a5, b5]; exact hfr.function, ?_, hl fs ft hfr.depth hfr.localFunc⟩, ?_⟩
  · intro h
    obtain ⟨h1, h2, h3⟩ := hfr.counters h
    exact ⟨by rw [a6, b6]; exact h1, by rw [a7, b7]; exact h2, hn fs ft hfr.depth h3⟩
  · have := hR.dec e ft hte
    refine ⟨by rw [b2]; exact this.1, ?_⟩
    rw [b1]
    intro k e' n' hm
    rcases mem_setStore hm with h1 | h1
    · exact this.2 k e' n' h1
    · subst h1; simp [notRef] at hnr

/-- both runs see the same answer to "the top level frame binds `name` to a function" -/
theorem rootFnOf_ren {σ : Sh} {s t : St} (hR : StR σ s t) (name : String) : rootFnOf s name = rootFnOf t name := by
  unfold rootFnOf
  rw [hR.root]
  cases hte : t.frames[t.root]? with
  | none => rw [hR.none hte]
  | some ft =>
    obtain ⟨fs, hfs, hfr⟩ := hR.frames t.root ft hte
    rw [hfs]
    dsimp only
    rw [hfr.store, lookupStore_ren, hfr.depth]
    cases lookupStore ft.store name with
    | none => rfl
    | some o => simp only [Option.map, isFuncObj_ren]

theorem sim_rootBindsFunc_bind {σ : Sh} {s t : St} (hR : StR σ s t) (name : String) {f g : Bool → M α} {Q : α → α → Prop}
    (h : SimAt σ (f (rootFnOf t name)) (g (rootFnOf t name)) s t Q) :
    SimAt σ (rootBindsFunc name >>= f) (rootBindsFunc name >>= g) s t Q := by
  refine SimAt.bind_read (runM_rootBindsFunc name s) (runM_rootBindsFunc name t) ?_
  rw [rootFnOf_ren hR]; exact h

theorem sim_envCreate {σ : Sh} {s t : St} (hR : StR σ s t) (e : Nat) (name : String) (val : Obj) :
    SimAt σ (envCreate (sh σ e) name (ren σ val)) (envCreate e name val) s t (QO σ) := by
  unfold envCreate
  refine SimAt.bind (sim_valueOf hR val) ?_
  rintro a v s1 t1 hR1 ⟨rfl, hnr⟩
  refine sim_rootBindsFunc_bind hR1 name ?_
  refine SimAt.bind (Q := fun _ _ => True) ?_ (fun _ _ s2 t2 hR2 _ => SimAt.pure hR2 rfl)
  exact sim_storeSet hR1 e name hnr _ _ (fun f => ⟨rfl, rfl, rfl, rfl, rfl, rfl, rfl⟩)
    (fun f => ⟨rfl, rfl, rfl, rfl, rfl, rfl, rfl⟩) (fun fs ft h1 h2 => by simp only [h1, h2])

theorem sim_envStoreAt {σ : Sh} {s t : St} (hR : StR σ s t) (w e : Nat) (name : String) {v : Obj}
    (hnr : notRef v = true) :
    SimAt σ (envStoreAt (sh σ w) (sh σ e) name (ren σ v)) (envStoreAt w e name v) s t (QO σ) := by
  unfold envStoreAt
  refine sim_getFrame_bind hR e ?_
  intro fs ft hte hfs hfr
  have : lookupStore fs.store name = (lookupStore ft.store name).map (ren σ) := by
    rw [hfr.store, lookupStore_ren]
  rw [this]
  refine SimAt.bind (sim_functionChanged hR w _) ?_
  intro _ _ s1 t1 hR1 _
  refine sim_rootBindsFunc_bind hR1 name ?_
  refine SimAt.bind (Q := fun _ _ => True) ?_ (fun _ _ s2 t2 hR2 _ => SimAt.pure hR2 rfl)
  exact sim_storeSet hR1 e name hnr _ _ (fun f => ⟨rfl, rfl, rfl, rfl, rfl, rfl, rfl⟩)
    (fun f => ⟨rfl, rfl, rfl, rfl, rfl, rfl, rfl⟩) (fun fs ft h1 h2 => by simp only [h1, h2])

theorem updTarget_ren (σ : Sh) (e : Nat) (name : String) (found : Obj) :
    updTarget (sh σ e) name (ren σ found) = (sh σ (updTarget e name found).1, (updTarget e name found).2) := by
  cases found <;> rfl

theorem sim_envUpdate {σ : Sh} {s t : St} (hR : StR σ s t) (e : Nat) (name : String) (found val : Obj) :
    SimAt σ (envUpdate (sh σ e) name (ren σ found) (ren σ val)) (envUpdate e name found val) s t (QO σ) := by
  unfold envUpdate
  rw [updTarget_ren]
  have hrest : ∀ (a v : Obj) s1 t1, StR σ s1 t1 → a = ren σ v → notRef v = true →
      SimAt σ (envStoreAt (sh σ e) (sh σ (updTarget e name found).1) (updTarget e name found).2 a)
        (envStoreAt e (updTarget e name found).1 (updTarget e name found).2 v) s1 t1 (QO σ) := by
    intro a v s1 t1 hR1 ha hnr
    subst ha
    exact sim_envStoreAt hR1 e _ _ hnr
  cases val with
  | ref re rn =>
    simp only [ren]
    have := sim_valueOf hR (.ref re rn)
    simp only [ren] at this
    refine SimAt.bind this ?_
    rintro a v s1 t1 hR1 ⟨rfl, hnr⟩
    exact hrest _ v s1 t1 hR1 rfl hnr
  | _ =>
    all_goals
      simp only [ren]
      refine SimAt.bind_read (runM_pure _ s) (runM_pure _ t) ?_
      exact hrest _ _ s t hR (by simp only [ren]) rfl

theorem sim_setNoChecks {σ : Sh} {s t : St} (hR : StR σ s t) (e : Nat) (name : String) (val : Obj) (create : Bool) :
    SimAt σ (setNoChecks (sh σ e) name (ren σ val) create) (setNoChecks e name val create) s t (QO σ) := by
  unfold setNoChecks
  refine SimAt.ite (fun _ => sim_envCreate hR e name val) (fun _ => ?_)
  refine sim_getFrame_bind hR e ?_
  intro fs ft hte hfs hfr
  rw [hfr.store, lookupStore_ren]
  cases hl : lookupStore ft.store name with
  | some r =>
    simp only [Option.map]
    exact sim_envUpdate hR e name r val
  | none =>
    simp only [Option.map]
    refine SimAt.bind (sim_makeRef hR e name) ?_
    rintro a b s1 t1 hR1 rfl
    cases b with
    | none => exact sim_envCreate hR1 e name val
    | some r =>
      cases r with
      | ref re rn =>
        simp only [Option.map, ren]
        refine SimAt.bind (sim_valueOf hR1 val) ?_
        rintro a v s2 t2 hR2 ⟨rfl, hnr⟩
        refine sim_getFrame_bind hR2 re ?_
        intro fs3 ft3 _ _ hfr3
        have : lookupStore fs3.store rn = (lookupStore ft3.store rn).map (ren σ) := by
          rw [hfr3.store, lookupStore_ren]
        rw [this]
        refine SimAt.bind (sim_functionChanged hR2 e _) ?_
        intro _ _ s3 t3 hR3 _
        refine sim_rootBindsFunc_bind hR3 rn ?_
        refine SimAt.bind (Q := fun _ _ => True) ?_ (fun _ _ s4 t4 hR4 _ => SimAt.pure hR4 rfl)
        exact sim_storeSet hR3 re rn hnr _ _ (fun f => ⟨rfl, rfl, rfl, rfl, rfl, rfl, rfl⟩)
          (fun f => ⟨rfl, rfl, rfl, rfl, rfl, rfl, rfl⟩) (fun fs ft _ h2 => h2)
      | _ => all_goals exact sim_envCreate hR1 e name val

theorem sim_createOrSet {σ : Sh} {s t : St} (hR : StR σ s t) (e : Nat) (name : String) (val : Obj) (create : Bool) :
    SimAt σ (createOrSet (sh σ e) name (ren σ val) create) (createOrSet e name val create) s t (QO σ) := by
  unfold createOrSet
  dsimp only
  have hrest : ∀ s1 t1, StR σ s1 t1 →
      SimAt σ (do
          let st ← get
          if st.extNames.contains name = true then pure (Obj.error ("attempt to change internal function " ++ name))
            else setNoChecks (sh σ e) name (ren σ val) create)
        (do
          let st ← get
          if st.extNames.contains name = true then pure (Obj.error ("attempt to change internal function " ++ name))
            else setNoChecks e name val create) s1 t1 (QO σ) := by
    intro s1 t1 hR1
    refine SimAt.bind_read (runM_get s1) (runM_get t1) ?_
    rw [hR1.extNames]
    exact SimAt.ite (fun _ => SimAt.pure hR1 rfl) (fun _ => sim_setNoChecks hR1 e name val create)
  refine SimAt.ite (fun _ => ?_) (fun _ => hrest s t hR)
  refine SimAt.bind (sim_envGet hR e name) ?_
  rintro a b s1 t1 hR1 rfl
  cases b with
  | none => exact hrest s1 t1 hR1
  | some old =>
    simp only [Option.map, ren_typeNum]
    have hfin : ∀ (same : Bool) s2 t2, StR σ s2 t2 →
        SimAt σ (if (!same) = true then pure (Obj.error ("attempt to change constant " ++ name)) else do
            let st ← get
            if st.extNames.contains name = true then pure (Obj.error ("attempt to change internal function " ++ name))
              else setNoChecks (sh σ e) name (ren σ val) create)
          (if (!same) = true then pure (Obj.error ("attempt to change constant " ++ name)) else do
            let st ← get
            if st.extNames.contains name = true then pure (Obj.error ("attempt to change internal function " ++ name))
              else setNoChecks e name val create) s2 t2 (QO σ) :=
      fun same s2 t2 hR2 => SimAt.ite (fun _ => SimAt.pure hR2 rfl) (fun _ => hrest s2 t2 hR2)
    refine SimAt.ite (fun _ => ?_) (fun _ => ?_)
    · refine SimAt.bind_read (runM_pure _ s1) (runM_pure _ t1) ?_
      exact hfin false s1 t1 hR1
    · refine SimAt.bind (sim_valueOf hR1 old) ?_
      rintro a o s2 t2 hR2 ⟨rfl, _⟩
      refine SimAt.bind (sim_valueOf hR2 val) ?_
      rintro a v s3 t3 hR3 ⟨rfl, _⟩
      rw [cmp_ren, sameTypes_ren]
      refine SimAt.bind (Q := fun a b => a = b) (SimAt.liftR hR3 (RelR.of_eq (f := id) (by cases cmp o v <;> rfl) (fun _ => rfl))) ?_
      rintro c _ s4 t4 hR4 rfl
      refine SimAt.bind_read (runM_pure _ s4) (runM_pure _ t4) ?_
      exact hfin _ s4 t4 hR4

theorem sim_envSet {σ : Sh} {s t : St} (hR : StR σ s t) (e : Nat) (name : String) (val : Obj) :
    SimAt σ (envSet (sh σ e) name (ren σ val)) (envSet e name val) s t (QO σ) :=
  sim_createOrSet hR e name val false

/-! ### envDelete -/

theorem sim_setFrame {σ : Sh} {s t : St} (hR : StR σ s t) {e : Nat} {ft : Frame} (hte : t.frames[e]? = some ft)
    {fs' ft' : Frame} (hfr : FrameR σ e fs' ft') (hdec : FrameDec e ft') :
    SimAt σ (setFrame (sh σ e) fs') (setFrame e ft') s t (fun _ _ => True) := by
  unfold SimAt setFrame
  rw [runM_modify, runM_modify]
  exact ⟨hR.setFrame hte hfr hdec, trivial⟩

theorem sim_envDelete_go {σ : Sh} (name : String) :
    ∀ (n m e : Nat) (s t : St), StR σ s t → e < n → sh σ e < m →
      SimAt σ (envDelete.go name m (sh σ e)) (envDelete.go name n e) s t (QO σ) := by
  intro n
  induction n with
  | zero => intro m e s t _ h; exact absurd h (Nat.not_lt_zero _)
  | succ n ih =>
    intro m e s t hR hen hem
    obtain ⟨m', rfl⟩ : ∃ m', m = m' + 1 := ⟨m - 1, by omega⟩
    unfold envDelete.go
    refine sim_getFrame_bind hR e ?_
    intro fs ft hte hfs hfr
    dsimp only
    -- the frames with the set counter bumped
    have hfr2 : FrameR σ e (if (fs.depth == 0) = true then { fs with numSet := fs.numSet + 1 } else fs)
        (if (ft.depth == 0) = true then { ft with numSet := ft.numSet + 1 } else ft) := by
      have hd : (fs.depth == 0) = (ft.depth == 0) := by rw [hfr.depth]
      rw [hd]
      split
      · exact ⟨hfr.store, hfr.outer, hfr.depth, hfr.cacheKey, hfr.function,
          fun h => ⟨(hfr.counters h).1, (hfr.counters h).2.1, by simp [(hfr.counters h).2.2]⟩, hfr.localFunc⟩
      · exact hfr
    have hdec2 : FrameDec e (if (ft.depth == 0) = true then { ft with numSet := ft.numSet + 1 } else ft) := by
      have := hR.dec e ft hte
      split
      · exact ⟨this.1, this.2⟩
      · exact this
    generalize (if (fs.depth == 0) = true then { fs with numSet := fs.numSet + 1 } else fs) = fs2 at hfr2
    generalize (if (ft.depth == 0) = true then { ft with numSet := ft.numSet + 1 } else ft) = ft2 at hfr2 hdec2
    rw [hfr2.store, lookupStore_ren]
    cases hl : lookupStore ft2.store name with
    | some old =>
      simp only [Option.map]
      refine SimAt.bind (Q := fun _ _ => True) ?_ ?_
      · refine sim_setFrame hR hte ?_ (frameDec_delStore hdec2 name)
        have := frameR_delStore hfr2 name
        rw [hfr2.store] at this
        exact this
      · intro _ _ s1 t1 hR1 _
        refine SimAt.bind (Q := fun _ _ => True) ?_ (fun _ _ s2 t2 hR2 _ => SimAt.pure hR2 rfl)
        exact sim_functionChanged hR1 e (some old)
    | none =>
      simp only [Option.map]
      refine SimAt.bind (Q := fun _ _ => True) (sim_setFrame hR hte hfr2 hdec2) ?_
      intro _ _ s1 t1 hR1 _
      rw [hfr2.outer]
      cases hout : ft2.outer with
      | none => exact SimAt.pure hR1 rfl
      | some o =>
        simp only [Option.map]
        have hoe : o < e := hdec2.1 o hout
        have := sh_lt σ hoe
        exact ih m' o s1 t1 hR1 (by omega) (by omega)

theorem sim_envDelete {σ : Sh} {s t : St} (hR : StR σ s t) (e : Nat) (name : String) :
    SimAt σ (envDelete (sh σ e) name) (envDelete e name) s t (QO σ) := by
  unfold envDelete
  refine SimAt.bind_read (runM_get s) (runM_get t) ?_
  have h2 : sh σ t.frames.size = t.frames.size + σ.d := sh_of_ge σ hR.n0
  by_cases ho : e < t.frames.size
  · have h1 := sh_lt σ ho
    exact sim_envDelete_go name _ _ e s t hR ho (by rw [hR.size]; omega)
  · have hpos := hR.pos
    have hn0 := hR.n0
    obtain ⟨k, hk⟩ : ∃ k, t.frames.size = k + 1 := ⟨t.frames.size - 1, by omega⟩
    obtain ⟨k', hk'⟩ : ∃ k', s.frames.size = k' + 1 := ⟨s.frames.size - 1, by rw [hR.size]; omega⟩
    rw [hk, hk']
    unfold envDelete.go
    have hte : t.frames[e]? = none := Array.getElem?_eq_none (by omega)
    unfold SimAt
    rw [runM_bind, runM_bind, runM_getFrame_none hte, runM_getFrame_none (hR.none hte)]
    exact ⟨rfl, hR⟩

end Grol.R

import Grol.Printer
import Grol.Parser
/-
C08, printer half: printing a tree with no missing children never panics, in any mode
(any compact / allParens flags, any starting state), provided every operator token stored in a
postfix / infix / index node has an entry in `ast.Precedences` (`precOK`; the parser only stores
tokens for which the generated tables guarantee it: `infix_tokens_have_precedence` etc. below).
-/
namespace Grol.Printer
open Grol.Generated

mutual
/-- every token on which `needParen` is called has a precedence -/
def precOK : Node → Bool
  | .ident _ | .intLit _ | .floatLit _ | .strLit _ | .boolean _ | .control _ | .comment .. => true
  | .post t _ => (lookupPrec t.type).isSome
  | .ret _ v => precOKO v
  | .pre _ r => precOKO r
  | .infix t l r => (lookupPrec t.type).isSome && precOKO l && precOKO r
  | .forE _ c b => precOKO c && precOKS b
  | .ifE _ c a b => precOKO c && precOKS a && precOKS b
  | .builtin _ ps => precOKL ps
  | .func _ _ ps b _ _ => precOKL ps && precOKS b
  | .call _ f as => precOKO f && precOKL as
  | .array _ es => precOKL es
  | .index t l i => (lookupPrec t.type).isSome && precOKO l && precOKO i
  | .mapLit _ kvs => precOKL kvs
  | .macroLit _ ps b => precOKL ps && precOKS b
def precOKO : Option Node → Bool
  | none => true
  | some n => precOK n
def precOKL : List (Option Node) → Bool
  | [] => true
  | x :: xs => precOKO x && precOKL xs
def precOKS : Option (List (Option Node)) → Bool
  | none => true
  | some l => precOKL l
end

theorem needParen_ok (ps : PrintState) (t : Tk) (h : (lookupPrec t.type).isSome = true) (e : PrintPanic) :
    needParen ps t ≠ .error e := by
  unfold needParen
  cases hl : lookupPrec t.type with
  | none => simp [hl] at h
  | some p => simp

end Grol.Printer

namespace Grol.Printer
open Grol.Generated

macro "okne" : tactic => `(tactic| (intro h; cases h))

theorem elseKind_nilFirst {l : NList} (h : elseKind l = .nilFirst) : noNilL l = false := by
  unfold elseKind at h
  split at h
  · simp [noNilL, noNilO]
  · split at h <;> cases h
  · cases h

theorem noNilL_filter (p : Option Node → Bool) : ∀ l : NList, noNilL l = true → noNilL (l.filter p) = true
  | [], _ => by simp [noNilL]
  | x :: xs, h => by
    simp only [noNilL, Bool.and_eq_true] at h
    unfold List.filter
    split
    · simp only [noNilL, Bool.and_eq_true]; exact ⟨h.1, noNilL_filter p xs h.2⟩
    · exact noNilL_filter p xs h.2

theorem noNilL_elseStmts (c : Bool) (l : NList) (h : noNilL l = true) : noNilL (elseStmts c l) = true := by
  unfold elseStmts; split
  · exact noNilL_filter _ l h
  · exact h

mutual

theorem printNode_ok (tbl : Nat → Bool) : ∀ (n : Node), n.noNil = true → precOK n = true →
    ∀ ps e, printNode tbl n ps ≠ .error e
  | .ident _, _, _, _, _ => by unfold printNode; okne
  | .intLit _, _, _, _, _ => by unfold printNode; okne
  | .floatLit _, _, _, _, _ => by unfold printNode; okne
  | .boolean _, _, _, _, _ => by unfold printNode; okne
  | .control _, _, _, _, _ => by unfold printNode; okne
  | .comment _ _ _, _, _, _, _ => by unfold printNode; okne
  | .strLit _, _, _, _, _ => by unfold printNode; okne
  | .ret _ none, _, _, _, _ => by unfold printNode; okne
  | .ret _ (some v), hn, hp, ps, e => by
    unfold printNode
    exact printNode_ok tbl v (by simpa [Node.noNil] using hn) (by simpa [precOK, precOKO] using hp) _ _
  | .pre _ r, hn, hp, ps, e => by
    unfold printNode
    dsimp only
    split
    · next e' heq => exact fun _ => absurd heq (printO_ok tbl r (by simpa [Node.noNil] using hn) (by simpa [precOK] using hp) _ _)
    · okne
  | .post t _, _, hp, ps, e => by
    unfold printNode
    split
    · next e' heq => exact fun _ => absurd heq (needParen_ok _ _ (by simpa [precOK] using hp) _)
    · okne
  | .infix t l none, hn, hp, ps, e => by
    simp only [Node.noNil, Bool.and_eq_true] at hn
    simp only [precOK, Bool.and_eq_true] at hp
    unfold printNode
    split
    · next e' heq => exact fun _ => absurd heq (needParen_ok _ _ hp.1.1 _)
    · dsimp only
      split
      · next e' heq => exact fun _ => absurd heq (printO_ok tbl l hn.1 hp.1.2 _ _)
      · okne
  | .infix t l (some r), hn, hp, ps, e => by
    simp only [Node.noNil, Bool.and_eq_true] at hn
    simp only [precOK, precOKO, Bool.and_eq_true] at hp
    unfold printNode
    split
    · next e' heq => exact fun _ => absurd heq (needParen_ok _ _ hp.1.1 _)
    · dsimp only
      split
      · next e' heq => exact fun _ => absurd heq (printO_ok tbl l hn.1 hp.1.2 _ _)
      · split
        · next e' heq => exact fun _ => absurd heq (printNode_ok tbl r hn.2 hp.2 _ _)
        · okne
  | .forE _ c b, hn, hp, ps, e => by
    simp only [Node.noNil, Bool.and_eq_true] at hn
    simp only [precOK, Bool.and_eq_true] at hp
    unfold printNode
    split
    · next e' heq => exact fun _ => absurd heq (printO_ok tbl c hn.1 hp.1 _ _)
    · exact printStmts_ok tbl b hn.2 hp.2 _ _
  | .ifE _ c a none, hn, hp, ps, e => by
    simp only [Node.noNil, Bool.and_eq_true] at hn
    simp only [precOK, Bool.and_eq_true] at hp
    unfold printNode
    split
    · next e' heq => exact fun _ => absurd heq (printO_ok tbl c hn.1.1 hp.1.1 _ _)
    · split
      · next e' heq => exact fun _ => absurd heq (printStmts_ok tbl a hn.1.2 hp.1.2 _ _)
      · okne
  | .ifE _ c a (some l), hn, hp, ps, e => by
    simp only [Node.noNil, Bool.and_eq_true] at hn
    simp only [precOK, precOKS, Bool.and_eq_true] at hp
    unfold printNode
    split
    · next e' heq => exact fun _ => absurd heq (printO_ok tbl c hn.1.1 hp.1.1 _ _)
    · split
      · next e' heq => exact fun _ => absurd heq (printStmts_ok tbl a hn.1.2 hp.1.2 _ _)
      · dsimp only
        split
        · next hk => have := elseKind_nilFirst hk; rw [noNilL_elseStmts _ l hn.2] at this; cases this
        · exact printHead_ok tbl _ l hn.2 hp.2 _ _
        · exact printBlock_ok tbl l hn.2 hp.2 _ _
  | .builtin _ params, hn, hp, ps, e => by
    unfold printNode
    split
    · next e' heq => exact fun _ => absurd heq (printList_ok tbl params (by simpa [Node.noNil] using hn) (by simpa [precOK] using hp) _ _ _)
    · okne
  | .func _ name params body _ isLambda, hn, hp, ps, e => by
    simp only [Node.noNil, Bool.and_eq_true] at hn
    simp only [precOK, Bool.and_eq_true] at hp
    unfold printNode
    split
    · dsimp only
      split
      · next e' heq => exact fun _ => absurd heq (printList_ok tbl params hn.1 hp.1 _ _ _)
      · split
        · next e' heq => exact fun _ => absurd heq (printStmts_ok tbl body hn.2 hp.2 _ _)
        · okne
    · dsimp only
      split
      · next e' heq => exact fun _ => absurd heq (printList_ok tbl params hn.1 hp.1 _ _ _)
      · exact printStmts_ok tbl body hn.2 hp.2 _ _
  | .call _ f args, hn, hp, ps, e => by
    simp only [Node.noNil, Bool.and_eq_true] at hn
    simp only [precOK, Bool.and_eq_true] at hp
    unfold printNode
    dsimp only
    split
    · next e' heq => exact fun _ => absurd heq (printO_ok tbl f hn.1 hp.1 _ _)
    · split
      · next e' heq => exact fun _ => absurd heq (printList_ok tbl args hn.2 hp.2 _ _ _)
      · okne
  | .array _ es, hn, hp, ps, e => by
    unfold printNode
    split
    · next e' heq => exact fun _ => absurd heq (printList_ok tbl es (by simpa [Node.noNil] using hn) (by simpa [precOK] using hp) _ _ _)
    · okne
  | .index t l i, hn, hp, ps, e => by
    simp only [Node.noNil, Bool.and_eq_true] at hn
    simp only [precOK, Bool.and_eq_true] at hp
    unfold printNode
    split
    · next e' heq => exact fun _ => absurd heq (needParen_ok _ _ hp.1.1 _)
    · dsimp only
      split
      · next e' heq => exact fun _ => absurd heq (printO_ok tbl l hn.1 hp.1.2 _ _)
      · split
        · next e' heq => exact fun _ => absurd heq (printO_ok tbl i hn.2 hp.2 _ _)
        · okne
  | .mapLit _ kvs, hn, hp, ps, e => by
    unfold printNode
    dsimp only
    split
    · next e' heq => exact fun _ => absurd heq (printPairs_ok tbl kvs (by simpa [Node.noNil] using hn) (by simpa [precOK] using hp) _ _ _)
    · okne
  | .macroLit _ params body, hn, hp, ps, e => by
    simp only [Node.noNil, Bool.and_eq_true] at hn
    simp only [precOK, Bool.and_eq_true] at hp
    unfold printNode
    split
    · next e' heq => exact fun _ => absurd heq (printList_ok tbl params hn.1 hp.1 _ _ _)
    · exact printStmts_ok tbl body hn.2 hp.2 _ _

theorem printO_ok (tbl : Nat → Bool) : ∀ (o : Option Node), noNilO o = true → precOKO o = true →
    ∀ ps e, printO tbl o ps ≠ .error e
  | none, hn, _, _, _ => by simp [noNilO] at hn
  | some n, hn, hp, ps, e => by
    unfold printO
    exact printNode_ok tbl n (by simpa [noNilO] using hn) (by simpa [precOKO] using hp) ps e

theorem printHead_ok (tbl : Nat → Bool) (sk : Bool) : ∀ (l : List (Option Node)), noNilL l = true → precOKL l = true →
    ∀ ps e, printHead tbl sk l ps ≠ .error e
  | [], _, _, _, _ => by unfold printHead; okne
  | x :: xs, hn, hp, ps, e => by
    simp only [noNilL, Bool.and_eq_true] at hn
    simp only [precOKL, Bool.and_eq_true] at hp
    unfold printHead
    split
    · exact printHead_ok tbl sk xs hn.2 hp.2 _ _
    · exact printO_ok tbl x hn.1 hp.1 _ _

theorem printList_ok (tbl : Nat → Bool) : ∀ (l : List (Option Node)), noNilL l = true → precOKL l = true →
    ∀ ps i e, printList tbl l ps i ≠ .error e
  | [], _, _, _, _, _ => by unfold printList; okne
  | x :: xs, hn, hp, ps, i, e => by
    simp only [noNilL, Bool.and_eq_true] at hn
    simp only [precOKL, Bool.and_eq_true] at hp
    unfold printList
    dsimp only
    split
    · next e' heq => exact fun _ => absurd heq (printO_ok tbl x hn.1 hp.1 _ _)
    · exact printList_ok tbl xs hn.2 hp.2 _ _ _

theorem printPairs_ok (tbl : Nat → Bool) : ∀ (l : List (Option Node)), noNilL l = true → precOKL l = true →
    ∀ ps i e, printPairs tbl l ps i ≠ .error e
  | [], _, _, _, _, _ => by unfold printPairs; okne
  | [_], _, _, _, _, _ => by unfold printPairs; okne
  | k :: v :: rest, hn, hp, ps, i, e => by
    simp only [noNilL, Bool.and_eq_true] at hn
    simp only [precOKL, Bool.and_eq_true] at hp
    unfold printPairs
    dsimp only
    split
    · next e' heq => exact fun _ => absurd heq (printO_ok tbl k hn.1 hp.1 _ _)
    · split
      · next e' heq => exact fun _ => absurd heq (printO_ok tbl v hn.2.1 hp.2.1 _ _)
      · exact printPairs_ok tbl rest hn.2.2 hp.2.2 _ _ _

theorem printStmts_ok (tbl : Nat → Bool) : ∀ (s : Option (List (Option Node))), noNilS s = true → precOKS s = true →
    ∀ ps e, printStmts tbl s ps ≠ .error e
  | none, hn, _, _, _ => by simp [noNilS] at hn
  | some l, hn, hp, ps, e => by
    unfold printStmts
    exact printBlock_ok tbl l (by simpa [noNilS] using hn) (by simpa [precOKS] using hp) _ _

theorem printBlock_ok (tbl : Nat → Bool) : ∀ (l : List (Option Node)), noNilL l = true → precOKL l = true →
    ∀ ps e, printBlock tbl l ps ≠ .error e
  | l, hn, hp, ps, e => by
    unfold printBlock
    dsimp only
    split
    · next e' heq => exact fun _ => absurd heq (printStmtLoop_ok tbl l hn hp _ _ _)
    · okne

theorem printStmtLoop_ok (tbl : Nat → Bool) : ∀ (l : List (Option Node)), noNilL l = true → precOKL l = true →
    ∀ ps i e, printStmtLoop tbl l ps i ≠ .error e
  | [], _, _, _, _, _ => by unfold printStmtLoop; okne
  | x :: xs, hn, hp, ps, i, e => by
    simp only [noNilL, Bool.and_eq_true] at hn
    simp only [precOKL, Bool.and_eq_true] at hp
    unfold printStmtLoop
    split
    · exact printStmtLoop_ok tbl xs hn.2 hp.2 _ _ _
    · dsimp only
      split
      · next e' heq => exact fun _ => absurd heq (printO_ok tbl x hn.1 hp.1 _ _)
      · exact printStmtLoop_ok tbl xs hn.2 hp.2 _ _ _

end

end Grol.Printer

namespace Grol.Printer
open Grol.Generated Grol.Parser

/-- **C08 (printer)**: a program without missing children prints without panic in every mode. -/
theorem printProgram_no_panic (tbl : Nat → Bool) (prog : NList) (compact allParens : Bool)
    (hn : noNilL prog = true) (hp : precOKL prog = true) (e : PrintPanic) :
    printProgram tbl prog compact allParens ≠ .error e := by
  unfold printProgram
  split
  · next e' heq => exact fun _ => absurd heq (printStmts_ok tbl (some prog) (by simpa [noNilS] using hn) (by simpa [precOKS] using hp) _ _)
  · okne

/-! Facts about the generated tables (re-checked against the source on every run): every token the
parser can store in an infix, index or postfix node has a precedence, so `needParen` cannot panic. -/

theorem infix_tokens_have_precedence :
    ∀ t : TokType, Parser.lookup infixRegs t = some .parseInfixExpression → (lookupPrec t).isSome = true := by
  intro t; cases t <;> decide

theorem index_tokens_have_precedence :
    ∀ t : TokType, Parser.lookup infixRegs t = some .parseIndexExpression → (lookupPrec t).isSome = true := by
  intro t; cases t <;> decide

theorem postfix_tokens_have_precedence :
    ∀ t : TokType, (Parser.lookup postfixRegs t).isSome = true → (lookupPrec t).isSome = true := by
  intro t; cases t <;> decide

/-- every token `peekError` is called with is a constant token (`token.ByType` is not nil) -/
theorem expected_tokens_are_constant :
    ∀ t ∈ [TokType.LPAREN, .RPAREN, .LBRACE, .RBRACE, .RBRACKET, .COMMA, .COLON, .LAMBDA], (constLiteral t).isSome = true := by
  decide

end Grol.Printer

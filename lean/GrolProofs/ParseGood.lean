import GrolProofs.ParseWP
/-
C08 part 2: every parse function's result is `Good` (no missing child, every operator token has a
precedence) unless the state is dirty (an error was recorded or continuation requested) or the
`… =>` look-ahead is pending (`L`), in which case the caller turns it into an error.
-/
set_option linter.unusedVariables false
set_option linter.unusedSimpArgs false
namespace Grol.Parser
open Grol.Generated Grol.Printer

variable {s : TokStream}

macro "vc" : tactic => `(tactic| try simp only [wp_bind, wp_getSt, wp_ite, wp_nextToken, wp_pure, wp_setCont, wp_pushErr,
  wp_outOfFuel, wp_goPanic, D_advance, D_setCont, D_pushErr, advance_cur, advance_prev])

def M (st st' : PState) : Prop := D st → D st'

/-- general result of an expression-level parse function: good, or dirty, or a pending `=>` with a
result that cannot be a lambda parameter -/
def R (st : PState) (r : ONode) (st' : PState) : Prop :=
  M st st' ∧ (D st' ∨ GoodO r ∨ (PBO r ∧ L st')) ∧ OC r st'

/-- result of a parse function that never leaves a `=>` pending -/
def RG (st : PState) (r : ONode) (st' : PState) : Prop :=
  M st st' ∧ (D st' ∨ GoodO r) ∧ OC r st'

theorem RG.toR {st r st'} (h : RG st r st') : R st r st' := ⟨h.1, h.2.1.elim Or.inl (fun g => Or.inr (Or.inl g)), h.2.2⟩

def PostE (P : Nat) (st : PState) (r : ONode) (st' : PState) : Prop :=
  M st st' ∧ (D st' ∨ GoodO r ∨ (L st' ∧ (r = none ∨ (5 ≤ P ∧ PBO r)))) ∧ OC r st' ∧
  (lookup prefixRegs st.cur.type = none → st.cur.type ≠ .EOL → r = none ∧ (D st' ∨ L st'))

def PostLoop (P : Nat) (st : PState) (r : ONode) (st' : PState) : Prop :=
  M st st' ∧ (D st' ∨ GoodO r ∨ (L st' ∧ 5 ≤ P ∧ PBO r)) ∧ OC r st'

def PostS (st : PState) (r : ONode) (st' : PState) : Prop :=
  M st st' ∧ (D st' ∨ GoodO r ∨ (L st' ∧ r = none)) ∧ (st.cur.type = .LAMBDA → D st' ∨ L st')

def PostB (st : PState) (r : Stmts) (st' : PState) : Prop := M st st' ∧ (D st' ∨ GoodS r)

/-! ### leaves -/

theorem expectPeek_spec (t : TokType) (st : PState) :
    wp (expectPeek s t) (fun b st' => (b = true ∧ st.peek.type = t ∧ st' = advance s st) ∨ (b = false ∧ st.peek.type ≠ t ∧ D st')) st := by
  unfold expectPeek peekError
  vc
  split
  · simp_all
  · split
    · simp_all
    · apply errorLine_wp
      split
      · simp [wp_goPanic]
      · simp_all [wp_pushErr, wp_pure]

theorem peekError_spec (t : TokType) (st : PState) : wp (peekError s t) (fun _ st' => D st') st := by
  unfold peekError
  vc
  apply errorLine_wp
  split
  · simp [wp_goPanic]
  · simp [wp_pushErr]

theorem noPrefix_spec (st : PState) : wp (noPrefixParseFnError s) (fun _ st' => D st') st := by
  unfold noPrefixParseFnError
  vc
  apply errorLine_wp
  simp [wp_pushErr]

theorem mapPairError_spec (st : PState) : wp (mapPairError s) (fun r st' => r = none ∧ D st') st := by
  unfold mapPairError
  vc
  split
  · simp
  · refine wp_conseq (peekError_spec _ st) ?_
    intro _ st' h; simpa using h

theorem OC_of_not_infix {r : ONode} {st : PState} (h : ∀ t l, r ≠ some (.infix t l none)) : OC r st :=
  fun t l e => absurd e (h t l)

theorem parseIdentifier_spec (st : PState) : wp (parseIdentifier s) (RG st) st := by
  unfold parseIdentifier parsePostfixExpression
  vc
  cases hl : lookup postfixRegs st.peek.type with
  | none =>
    simp only [wp_pure]
    exact ⟨id, Or.inr (by simp), OC_of_not_infix (by simp)⟩
  | some fn =>
    cases fn
    vc
    have hp := postfix_tokens_have_precedence st.peek.type (by simp [hl])
    try simp only [wp_pure, wp_goPanic]
    exact ⟨id, Or.inr (by simpa [Tok.tk] using hp), OC_of_not_infix (by simp)⟩

theorem parseFloatLiteral_spec (st : PState) : wp (parseFloatLiteral s) (RG st) st := by
  unfold parseFloatLiteral
  vc
  split
  · exact ⟨id, Or.inr (by simp), OC_of_not_infix (by simp)⟩
  · apply errorLine_wp
    vc
    exact ⟨fun _ => by simp [D], Or.inl (by simp [D]), OC_of_not_infix (by simp)⟩

theorem parseIntegerLiteral_spec (st : PState) : wp (parseIntegerLiteral s) (RG st) st := by
  unfold parseIntegerLiteral
  vc
  split
  · exact ⟨id, Or.inr (by simp), OC_of_not_infix (by simp)⟩
  · exact parseFloatLiteral_spec st

theorem parseBoolean_spec (st : PState) : wp parseBoolean (RG st) st := by
  unfold parseBoolean; vc; exact ⟨id, Or.inr (by simp), OC_of_not_infix (by simp)⟩
theorem parseStringLiteral_spec (st : PState) : wp parseStringLiteral (RG st) st := by
  unfold parseStringLiteral; vc; exact ⟨id, Or.inr (by simp), OC_of_not_infix (by simp)⟩
theorem parseControlExpression_spec (st : PState) : wp parseControlExpression (RG st) st := by
  unfold parseControlExpression; vc; exact ⟨id, Or.inr (by simp), OC_of_not_infix (by simp)⟩

theorem parseComment_spec (st : PState) : wp parseComment (RG st) st := by
  unfold parseComment
  vc
  split
  · split
    · vc; exact ⟨fun _ => by simp [D], Or.inl (by simp [D]), OC_of_not_infix (by simp)⟩
    · exact ⟨id, Or.inr (by simp), OC_of_not_infix (by simp)⟩
  · split
    · simp [wp_goPanic]
    · exact ⟨id, Or.inr (by simp), OC_of_not_infix (by simp)⟩

theorem parameter_spec (st : PState) : wp (parameter s) (fun r st' => M st st' ∧ GoodO r) st := by
  unfold parameter
  vc
  exact ⟨id, by simp⟩

theorem parseFunctionParametersLoop_spec : ∀ (fuel : Nat) (acc : NList) (st : PState), GoodL acc →
    wp (parseFunctionParametersLoop s fuel acc) (fun r st' => M st st' ∧ GoodL r) st
  | 0, _, _, _ => by unfold parseFunctionParametersLoop; simp [wp_outOfFuel]
  | n + 1, acc, st, h => by
    unfold parseFunctionParametersLoop
    vc
    split
    · refine wp_conseq (parameter_spec _) ?_
      intro id st0 h0
      refine wp_conseq (parseFunctionParametersLoop_spec n _ _ (by simp [h, h0.2])) ?_
      intro r st' h'
      exact ⟨fun d => h'.1 (h0.1 (by simpa using d)), h'.2⟩
    · exact ⟨id, h⟩

theorem parseFunctionParameters_spec (fuel : Nat) (st : PState) :
    wp (parseFunctionParameters s fuel) (fun r st' => M st st' ∧ GoodL r.1) st := by
  unfold parseFunctionParameters
  vc
  split
  · exact ⟨by simp [M], by simp⟩
  · refine wp_conseq (parameter_spec _) ?_
    intro id st0 h0
    refine wp_conseq (parseFunctionParametersLoop_spec fuel _ _ (by simp [h0.2])) ?_
    intro ids st1 h1
    vc
    refine wp_conseq (expectPeek_spec _ st1) ?_
    intro b st2 h2
    rcases h2 with ⟨rfl, _, rfl⟩ | ⟨rfl, _, d⟩
    · vc
      simp only [Bool.not_true, Bool.false_eq_true, if_false]
      split
      · vc
        exact ⟨fun d => by simpa using h1.1 (h0.1 (by simpa using d)), h1.2⟩
      · vc
        apply errorLine_wp
        vc
        exact ⟨fun _ => by simp [D], by simp⟩
    · simp only [Bool.not_false, if_true, wp_pure]
      exact ⟨fun _ => d, by simp⟩

end Grol.Parser

namespace Grol.Parser
open Grol.Generated Grol.Printer
variable {s : TokStream}

/-! ### facts about the generated tables -/

theorem tbl_prefix_LAMBDA : lookup prefixRegs .LAMBDA = none := by decide
theorem tbl_infix_LAMBDA : lookup infixRegs .LAMBDA = some .parseLambdaExpression := by decide
theorem tbl_precOf_LAMBDA : precOf .LAMBDA = 5 := by decide
theorem tbl_prioLAMBDA : prioLAMBDA = 5 := rfl
theorem tbl_precOf_RBRACKET : precOf .RBRACKET = 1 := by decide
theorem tbl_infixExpr : ∀ t : TokType, lookup infixRegs t = some .parseInfixExpression →
    t ≠ .IDENT ∧ t ≠ .DOTDOT ∧ t ≠ .LAMBDA ∧ (lookupPrec t).isSome = true := by
  intro t; cases t <;> decide
theorem tbl_prefixExpr : ∀ t : TokType, lookup prefixRegs t = some .parsePrefixExpression → t ≠ .IDENT ∧ t ≠ .DOTDOT := by
  intro t; cases t <;> decide
theorem tbl_indexExpr : ∀ t : TokType, lookup infixRegs t = some .parseIndexExpression →
    (t = .LBRACKET ∨ t = .DOT) ∧ (lookupPrec t).isSome = true ∧ t ≠ .LAMBDA := by
  intro t; cases t <;> decide
theorem tbl_callExpr : ∀ t : TokType, lookup infixRegs t = some .parseCallExpression → t = .LPAREN := by
  intro t; cases t <;> decide
theorem tbl_lambdaExpr : ∀ t : TokType, lookup infixRegs t = some .parseLambdaExpression → t = .LAMBDA := by
  intro t; cases t <;> decide

theorem okParamList_PB {left : ONode} (more : NList) (h : PBO left) : ∃ t, okParamList (left :: more) = some (t, false) := by
  cases left with
  | none => exact absurd h (by simp)
  | some n =>
    obtain ⟨h1, h2⟩ := h
    unfold okParamList
    simp [h1, h2]

/-- the specifications of the 23 mutually recursive functions at one fuel -/
structure AllSpec (s : TokStream) (n : Nat) : Prop where
  pE : ∀ P st, wp (parseExpression s n P) (PostE P st) st
  pLoop : ∀ P left st, (D st ∨ GoodO left ∨ (PBO left ∧ L st)) → OC left st →
    wp (parseExpressionLoop s n P left) (PostLoop P st) st
  pPre : ∀ fn st, lookup prefixRegs st.cur.type = some fn → wp (prefixDispatch s n fn) (R st) st
  pInf : ∀ fn left st, lookup infixRegs st.cur.type = some fn →
    (D st ∨ GoodO left ∨ (PBO left ∧ st.cur.type = .LAMBDA)) → wp (infixDispatch s n fn left) (R st) st
  pStmt : ∀ st, wp (parseStatement s n) (PostS st) st
  pRet : ∀ st, wp (parseReturnStatement s n) (RG st) st
  pArr : ∀ st, wp (parseArrayLiteral s n) (RG st) st
  pGrp : ∀ st, wp (parseGroupedExpression s n) (R st) st
  pPfx : ∀ st, lookup prefixRegs st.cur.type = some .parsePrefixExpression → wp (parsePrefixExpression s n) (R st) st
  pLam : ∀ left more st, st.cur.type = .LAMBDA → (D st ∨ (GoodL more ∧ (left = none ∨ GoodO left ∨ PBO left))) →
    wp (parseLambdaMulti s n left more) (R st) st
  pInfix : ∀ left st, lookup infixRegs st.cur.type = some .parseInfixExpression → (D st ∨ GoodO left) →
    wp (parseInfixExpression s n left) (R st) st
  pFor : ∀ st, wp (parseForExpression s n) (RG st) st
  pIf : ∀ st, wp (parseIfExpression s n) (RG st) st
  pBlk : ∀ st, wp (parseBlockStatement s n) (PostB st) st
  pBlkLoop : ∀ acc st, (D st ∨ GoodL acc ∨ st.cur.type = .LAMBDA) → wp (parseBlockLoop s n acc) (PostB st) st
  pFn : ∀ st, wp (parseFunctionLiteral s n) (RG st) st
  pBi : ∀ st, wp (parseBuiltin s n) (RG st) st
  pCall : ∀ f st, (D st ∨ GoodO f) → wp (parseCallExpression s n f) (RG st) st
  pList : ∀ e st, e ≠ .LAMBDA → wp (parseExpressionList s n e) (fun r st' => M st st' ∧ (D st' ∨ ∃ l, r = some l ∧ GoodL l)) st
  pListLoop : ∀ args st, (D st ∨ GoodL args ∨ L st) →
    wp (parseExpressionListLoop s n args) (fun r st' => M st st' ∧ (D st' ∨ GoodL r ∨ L st')) st
  pIdx : ∀ left st, (st.cur.type = .LBRACKET ∨ st.cur.type = .DOT) → (D st ∨ GoodO left) →
    wp (parseIndexExpression s n left) (R st) st
  pMap : ∀ st, wp (parseMapLiteral s n) (RG st) st
  pMapLoop : ∀ tok kvs st, (D st ∨ GoodL kvs) → wp (parseMapLoop s n tok kvs) (RG st) st
  pMac : ∀ st, wp (parseMacroLiteral s n) (RG st) st

end Grol.Parser

namespace Grol.Parser
open Grol.Generated Grol.Printer
variable {s : TokStream}

theorem tbl_prios : prioLOWEST = 1 ∧ prioPREFIX = 11 ∧ prioDOTINDEX = 14 ∧ prioCALL = 12 := ⟨rfl, rfl, rfl, rfl⟩

macro "fin" : tactic => `(tactic| (simp only [PostE, PostLoop, PostS, PostB, R, RG, M, OC, L, D_advance, advance_cur] at *; grind [tbl_prefix_LAMBDA, tbl_infix_LAMBDA, tbl_precOf_LAMBDA, tbl_prioLAMBDA, tbl_precOf_RBRACKET, tbl_prios]))

theorem step_pE {n : Nat} (ih : AllSpec s n) (P : Nat) (st : PState) : wp (parseExpression s (n + 1) P) (PostE P st) st := by
  unfold parseExpression
  vc
  split
  · simp only [PostE, M, OC, D_setCont]; simp_all
  · cases hl : lookup prefixRegs st.cur.type with
    | none =>
      dsimp only
      vc
      split
      · split
        · vc; simp only [PostE, M, OC, D_setCont]; simp_all
        · refine wp_conseq (noPrefix_spec st) ?_
          intro _ st' h
          vc
          simp only [PostE, M, OC]; simp_all
      · simp only [wp_pure, PostE, M, OC, L]; simp_all
    | some fn =>
      dsimp only
      vc
      refine wp_conseq (ih.pPre fn st hl) ?_
      intro r1 st1 h1
      vc
      split
      · rename_i hc
        simp only [Bool.and_eq_true, decide_eq_true_eq] at hc
        refine wp_conseq (ih.pLam r1 [] (advance s st1) (by simpa using hc.1) ?_) ?_
        · simp only [R, M, L] at h1; simp only [D_advance, GoodL_nil, true_and]
          rcases h1.2.1 with d | g | ⟨p, _⟩
          · exact Or.inl d
          · exact Or.inr (Or.inr (Or.inl g))
          · exact Or.inr (Or.inr (Or.inr p))
        · intro r2 st2 h2
          fin
      · rename_i hc
        refine wp_conseq (ih.pLoop P r1 st1 (by simp only [R] at h1; exact h1.2.1) h1.2.2) ?_
        intro r2 st2 h2
        fin

theorem step_pLoop {n : Nat} (ih : AllSpec s n) (P : Nat) (left : ONode) (st : PState)
    (hl : D st ∨ GoodO left ∨ (PBO left ∧ L st)) (hoc : OC left st) :
    wp (parseExpressionLoop s (n + 1) P left) (PostLoop P st) st := by
  unfold parseExpressionLoop
  vc
  split
  · rename_i hc
    simp only [Bool.and_eq_true, bne_iff_ne, ne_eq, decide_eq_true_eq] at hc
    cases hi : lookup infixRegs st.peek.type with
    | none => dsimp only; vc; fin
    | some fn =>
      dsimp only
      split
      · vc; fin
      · split
        · vc; fin
        · vc
          refine wp_conseq (ih.pInf fn left (advance s st) (by simpa using hi) ?_) ?_
          · simp only [D_advance, advance_cur]; simp only [L] at hl; grind
          · intro r1 st1 h1
            refine wp_conseq (ih.pLoop P r1 st1 (by simp only [R] at h1; exact h1.2.1) h1.2.2) ?_
            intro r2 st2 h2
            fin
  · rename_i hc
    simp only [Bool.and_eq_true, bne_iff_ne, ne_eq, decide_eq_true_eq, not_and, Nat.not_lt] at hc
    vc
    fin

theorem step_pPre {n : Nat} (ih : AllSpec s n) (fn : PrefixFn) (st : PState) (hl : lookup prefixRegs st.cur.type = some fn) :
    wp (prefixDispatch s (n + 1) fn) (R st) st := by
  unfold prefixDispatch
  cases fn with
  | parseIdentifier => exact wp_conseq (parseIdentifier_spec st) fun _ _ h => h.toR
  | parseIntegerLiteral => exact wp_conseq (parseIntegerLiteral_spec st) fun _ _ h => h.toR
  | parseFloatLiteral => exact wp_conseq (parseFloatLiteral_spec st) fun _ _ h => h.toR
  | parsePrefixExpression => exact ih.pPfx st hl
  | parseBoolean => exact wp_conseq (parseBoolean_spec st) fun _ _ h => h.toR
  | parseGroupedExpression => exact ih.pGrp st
  | parseIfExpression => exact wp_conseq (ih.pIf st) fun _ _ h => h.toR
  | parseForExpression => exact wp_conseq (ih.pFor st) fun _ _ h => h.toR
  | parseControlExpression => exact wp_conseq (parseControlExpression_spec st) fun _ _ h => h.toR
  | parseFunctionLiteral => exact wp_conseq (ih.pFn st) fun _ _ h => h.toR
  | parseStringLiteral => exact wp_conseq (parseStringLiteral_spec st) fun _ _ h => h.toR
  | parseBuiltin => exact wp_conseq (ih.pBi st) fun _ _ h => h.toR
  | parseArrayLiteral => exact wp_conseq (ih.pArr st) fun _ _ h => h.toR
  | parseMapLiteral => exact wp_conseq (ih.pMap st) fun _ _ h => h.toR
  | parseComment => exact wp_conseq (parseComment_spec st) fun _ _ h => h.toR
  | parseMacroLiteral => exact wp_conseq (ih.pMac st) fun _ _ h => h.toR

theorem step_pInf {n : Nat} (ih : AllSpec s n) (fn : InfixFn) (left : ONode) (st : PState)
    (hl : lookup infixRegs st.cur.type = some fn) (hleft : D st ∨ GoodO left ∨ (PBO left ∧ st.cur.type = .LAMBDA)) :
    wp (infixDispatch s (n + 1) fn left) (R st) st := by
  unfold infixDispatch
  cases fn with
  | parseInfixExpression =>
    have := tbl_infixExpr _ hl
    exact ih.pInfix left st hl (by grind)
  | parseCallExpression =>
    have := tbl_callExpr _ hl
    exact wp_conseq (ih.pCall left st (by grind)) fun _ _ h => h.toR
  | parseIndexExpression =>
    have := tbl_indexExpr _ hl
    exact ih.pIdx left st this.1 (by grind)
  | parseLambdaExpression =>
    have := tbl_lambdaExpr _ hl
    exact ih.pLam left [] st this (by simp only [GoodL_nil, true_and]; grind)

theorem step_pStmt {n : Nat} (ih : AllSpec s n) (st : PState) : wp (parseStatement s (n + 1)) (PostS st) st := by
  unfold parseStatement
  vc
  split
  · refine wp_conseq (ih.pRet st) ?_
    intro r st' h
    fin
  · refine wp_conseq (ih.pE _ st) ?_
    intro r st' h
    vc
    split
    · vc; fin
    · vc; fin

theorem step_pRet {n : Nat} (ih : AllSpec s n) (st : PState) : wp (parseReturnStatement s (n + 1)) (RG st) st := by
  unfold parseReturnStatement
  vc
  split
  · vc; simp only [RG, M, OC]; simp
  · vc
    refine wp_conseq (ih.pE _ (advance s st)) ?_
    intro v st1 h1
    vc
    have hg : D st1 ∨ GoodO (some (.ret st.cur.tk v)) := by
      simp only [PostE] at h1
      rcases h1.2.1 with d | g | ⟨_, rfl | ⟨hp, _⟩⟩
      · exact Or.inl d
      · cases v with
        | none => simp at g
        | some n => exact Or.inr (by simpa using g)
      · exact Or.inr (by simp)
      · exact absurd hp (by decide)
    split
    · vc; simp only [RG, M, OC, PostE, D_advance] at *; grind
    · vc; simp only [RG, M, OC, PostE, D_advance] at *; grind


theorem step_pList {n : Nat} (ih : AllSpec s n) (e : TokType) (st : PState) (he : e ≠ .LAMBDA) :
    wp (parseExpressionList s (n + 1) e) (fun r st' => M st st' ∧ (D st' ∨ ∃ l, r = some l ∧ GoodL l)) st := by
  unfold parseExpressionList
  vc
  split
  · vc; simp [M]
  · vc
    refine wp_conseq (ih.pE _ (advance s st)) ?_
    intro x st1 h1
    refine wp_conseq (ih.pListLoop [x] st1 ?_) ?_
    · simp only [PostE, M, L] at h1; simp only [GoodL_cons, GoodL_nil, and_true, L]; grind [tbl_prios]
    · intro args st2 h2
      refine wp_conseq (expectPeek_spec e st2) ?_
      intro b st3 h3
      rcases h3 with ⟨rfl, hp, rfl⟩ | ⟨rfl, hp, d⟩
      · simp only [Bool.not_true, Bool.false_eq_true, if_false, wp_pure]
        simp only [PostE, M, L, D_advance] at *; grind
      · simp only [Bool.not_false, if_true, wp_pure]
        simp only [PostE, M, L, D_advance] at *; grind

theorem step_pListLoop {n : Nat} (ih : AllSpec s n) (args : NList) (st : PState) (h : D st ∨ GoodL args ∨ L st) :
    wp (parseExpressionListLoop s (n + 1) args) (fun r st' => M st st' ∧ (D st' ∨ GoodL r ∨ L st')) st := by
  unfold parseExpressionListLoop
  vc
  split
  · rename_i hc
    refine wp_conseq (ih.pE _ (advance s (advance s st))) ?_
    intro x st1 h1
    refine wp_conseq (ih.pListLoop (args ++ [x]) st1 ?_) ?_
    · simp only [PostE, M, L, D_advance] at *; simp only [GoodL_snoc]; grind
    · intro r st2 h2
      simp only [PostE, M, L, D_advance] at *; grind
  · vc; simp only [M]; grind

theorem step_pArr {n : Nat} (ih : AllSpec s n) (st : PState) : wp (parseArrayLiteral s (n + 1)) (RG st) st := by
  unfold parseArrayLiteral
  vc
  refine wp_conseq (ih.pList .RBRACKET st (by decide)) ?_
  intro el st1 h1
  vc
  simp only [RG, M, OC] at *
  refine ⟨h1.1, ?_, by simp⟩
  rcases h1.2 with d | ⟨l, rfl, g⟩
  · exact Or.inl d
  · exact Or.inr (by simpa using g)

theorem step_pBi {n : Nat} (ih : AllSpec s n) (st : PState) : wp (parseBuiltin s (n + 1)) (RG st) st := by
  unfold parseBuiltin
  vc
  refine wp_conseq (expectPeek_spec .LPAREN st) ?_
  intro b st1 h1
  rcases h1 with ⟨rfl, hp, rfl⟩ | ⟨rfl, hp, d⟩
  · simp only [Bool.not_true, Bool.false_eq_true, if_false]
    vc
    refine wp_conseq (ih.pList .RPAREN _ (by decide)) ?_
    intro el st2 h2
    vc
    simp only [RG, M, OC, D_advance] at *
    refine ⟨h2.1, ?_, by simp⟩
    rcases h2.2 with d | ⟨l, rfl, g⟩
    · exact Or.inl d
    · exact Or.inr (by simpa using g)
  · simp only [Bool.not_false, if_true, wp_pure]
    exact ⟨fun _ => d, Or.inl d, by simp [OC]⟩

theorem step_pCall {n : Nat} (ih : AllSpec s n) (f : ONode) (st : PState) (hf : D st ∨ GoodO f) :
    wp (parseCallExpression s (n + 1) f) (RG st) st := by
  unfold parseCallExpression
  vc
  refine wp_conseq (ih.pList .RPAREN st (by decide)) ?_
  intro el st1 h1
  vc
  simp only [RG, M, OC] at *
  refine ⟨h1.1, ?_, by simp⟩
  rcases h1.2 with d | ⟨l, rfl, g⟩
  · exact Or.inl d
  · rcases hf with d | gf
    · exact Or.inl (h1.1 d)
    · exact Or.inr (by simpa using ⟨gf, g⟩)

theorem step_pBlk {n : Nat} (ih : AllSpec s n) (st : PState) : wp (parseBlockStatement s (n + 1)) (PostB st) st := by
  unfold parseBlockStatement
  vc
  refine wp_conseq (ih.pBlkLoop [] (advance s st) (Or.inr (Or.inl (by simp)))) ?_
  intro r st1 h1
  simp only [PostB, M, D_advance] at *; exact h1

theorem step_pBlkLoop {n : Nat} (ih : AllSpec s n) (acc : NList) (st : PState)
    (h : D st ∨ GoodL acc ∨ st.cur.type = .LAMBDA) : wp (parseBlockLoop s (n + 1) acc) (PostB st) st := by
  unfold parseBlockLoop
  vc
  split
  · rename_i hc
    split
    · vc; simp [PostB, M]
    · refine wp_conseq (ih.pStmt st) ?_
      intro stmt st1 h1
      vc
      refine wp_conseq (ih.pBlkLoop (acc ++ [stmt]) (advance s st1) ?_) ?_
      · simp only [PostS, M, L, D_advance, advance_cur, GoodL_snoc] at *; grind
      · intro r st2 h2
        simp only [PostS, PostB, M, D_advance] at *; grind
  · rename_i hc
    simp only [Bool.and_eq_true, bne_iff_ne, ne_eq, not_and, Decidable.not_not] at hc
    vc
    simp only [PostB, M, GoodS_some]
    grind


theorem step_pPfx {n : Nat} (ih : AllSpec s n) (st : PState) (hl : lookup prefixRegs st.cur.type = some .parsePrefixExpression) :
    wp (parsePrefixExpression s (n + 1)) (R st) st := by
  unfold parsePrefixExpression
  vc
  refine wp_conseq (ih.pE _ (advance s st)) ?_
  intro right st1 h1
  vc
  have ht := tbl_prefixExpr _ hl
  simp only [PostE, R, M, OC, L, D_advance] at *
  refine ⟨h1.1, ?_, by simp⟩
  rcases h1.2.1 with d | g | ⟨hl', _⟩
  · exact Or.inl d
  · exact Or.inr (Or.inl (by simpa using g))
  · exact Or.inr (Or.inr ⟨by simpa [PBO, Node.tok, Tok.tk] using ht, hl'⟩)

theorem step_pInfix {n : Nat} (ih : AllSpec s n) (left : ONode) (st : PState)
    (hl : lookup infixRegs st.cur.type = some .parseInfixExpression) (hleft : D st ∨ GoodO left) :
    wp (parseInfixExpression s (n + 1) left) (R st) st := by
  unfold parseInfixExpression
  vc
  have ht := tbl_infixExpr _ hl
  split
  · rename_i hc
    simp only [Bool.and_eq_true, decide_eq_true_eq] at hc
    vc
    simp only [R, M, OC, L]
    refine ⟨id, ?_, fun _ _ _ => Or.inr (Or.inl (by simpa using hc.2))⟩
    rcases hleft with d | g
    · exact Or.inl d
    · exact Or.inr (Or.inl (by rw [GoodO_infix_none]; exact ⟨by simpa [Tok.tk] using ht.2.2.2, g, by simpa [Tok.tk] using hc.1⟩))
  · vc
    refine wp_conseq (ih.pE _ (advance s st)) ?_
    intro right st1 h1
    vc
    simp only [PostE, R, M, OC, L, D_advance] at *
    refine ⟨h1.1, ?_, ?_⟩
    · rcases h1.2.1 with d | g | ⟨hl', _⟩
      · exact Or.inl d
      · rcases hleft with d | gl
        · exact Or.inl (h1.1 d)
        · cases right with
          | none => simp at g
          | some r => exact Or.inr (Or.inl (by rw [GoodO_infix_some]; exact ⟨by simpa [Tok.tk] using ht.2.2.2, gl, g⟩))
      · exact Or.inr (Or.inr ⟨by simpa [PBO, Node.tok, Tok.tk] using ⟨ht.1, ht.2.1⟩, hl'⟩)
    · intro t l e
      simp only [Option.some.injEq, Node.infix.injEq] at e
      obtain ⟨_, _, rfl⟩ := e
      rcases h1.2.1 with d | g | ⟨hl', _⟩
      · exact Or.inl d
      · simp at g
      · exact Or.inr (Or.inr hl')

theorem step_pIdx {n : Nat} (ih : AllSpec s n) (left : ONode) (st : PState)
    (hc : st.cur.type = .LBRACKET ∨ st.cur.type = .DOT) (hleft : D st ∨ GoodO left) :
    wp (parseIndexExpression s (n + 1) left) (R st) st := by
  unfold parseIndexExpression
  vc
  have hp : (lookupPrec st.cur.type).isSome = true := by rcases hc with h | h <;> rw [h] <;> decide
  refine wp_conseq (ih.pE _ (advance s st)) ?_
  intro idx st1 h1
  split
  · rename_i hd
    try simp only [decide_eq_true_eq] at hd
    vc
    simp only [PostE, R, M, OC, L, D_advance] at *
    refine ⟨h1.1, ?_, by simp⟩
    rcases h1.2.1 with d | g | ⟨hl', _⟩
    · exact Or.inl d
    · rcases hleft with d | gl
      · exact Or.inl (h1.1 d)
      · exact Or.inr (Or.inl (by simpa [Tok.tk] using ⟨hp, gl, g⟩))
    · exact Or.inr (Or.inr ⟨by simp [PBO, Node.tok, Tok.tk, hd], hl'⟩)
  · rename_i hd
    try simp only [decide_eq_true_eq] at hd
    have hb : st.cur.type = .LBRACKET := by rcases hc with h | h; exact h; exact absurd h hd
    refine wp_conseq (expectPeek_spec .RBRACKET st1) ?_
    intro b st2 h2
    rcases h2 with ⟨rfl, hpk, rfl⟩ | ⟨rfl, hpk, d⟩
    · simp only [Bool.not_true, Bool.false_eq_true, if_false, wp_pure]
      simp only [PostE, R, M, OC, L, D_advance] at *
      refine ⟨h1.1, ?_, by simp⟩
      rcases h1.2.1 with d | g | ⟨hl', _⟩
      · exact Or.inl d
      · rcases hleft with d | gl
        · exact Or.inl (h1.1 d)
        · exact Or.inr (Or.inl (by simpa [Tok.tk] using ⟨hp, gl, g⟩))
      · rw [hl'] at hpk; cases hpk
    · simp only [Bool.not_false, if_true, wp_pure]
      simp only [PostE, R, M, OC, L, D_advance] at *
      exact ⟨fun _ => d, Or.inl d, by simp⟩


theorem okParamList_ok_none {params : NList} : ¬ (okParamList params = none) := okParamList_ne_none params

set_option hygiene false in
macro "lam_tail" : tactic => `(tactic| (
  split
  · next h => exact absurd h (okParamList_ne_none _)
  · next t h =>
      vc
      apply errorLine_wp
      vc
      simp only [R, M, OC]; simp [D]
  · next t h =>
      vc
      have hg := hg _ h
      split
      · vc
        refine wp_conseq (ih.pBlk (advance s st)) ?_
        intro body st1 h1
        vc
        split
        · vc; simp only [R, M, OC, PostB, D_advance] at *; simp_all [D]
        · vc
          simp only [R, M, OC, PostB, D_advance] at *
          refine ⟨h1.1, ?_, by simp⟩
          rcases h1.2 with d | gb
          · exact Or.inl d
          · rcases hg with d | gp
            · exact Or.inl (h1.1 d)
            · exact Or.inr (Or.inl (by rw [GoodO_func]; exact ⟨gp, gb⟩))
      · vc
        refine wp_conseq (ih.pE _ (advance s st)) ?_
        intro body st1 h1
        vc
        simp only [R, M, OC, PostE, L, D_advance] at *
        refine ⟨h1.1, ?_, by simp⟩
        rcases h1.2.1 with d | gb | ⟨hl', _⟩
        · exact Or.inl d
        · rcases hg with d | gp
          · exact Or.inl (h1.1 d)
          · exact Or.inr (Or.inl (by rw [GoodO_func]; exact ⟨gp, by simpa using gb⟩))
        · exact Or.inr (Or.inr ⟨by simp [PBO, Node.tok, Tok.tk, hc], hl'⟩)))

theorem step_pLam {n : Nat} (ih : AllSpec s n) (left : ONode) (more : NList) (st : PState) (hc : st.cur.type = .LAMBDA)
    (hp : D st ∨ (GoodL more ∧ (left = none ∨ GoodO left ∨ PBO left))) :
    wp (parseLambdaMulti s (n + 1) left more) (R st) st := by
  unfold parseLambdaMulti
  vc
  cases left with
  | none =>
    dsimp only
    have hparams : D st ∨ GoodL more ∨ ∃ t, okParamList more = some (t, false) := by
      rcases hp with d | ⟨gm, _⟩
      · exact Or.inl d
      · exact Or.inr (Or.inl gm)
    have hg : ∀ t, okParamList more = some (t, true) → D st ∨ GoodL more := by
      intro t h
      rcases hparams with d | g | ⟨t', ht'⟩
      · exact Or.inl d
      · exact Or.inr g
      · rw [ht'] at h; cases h
    lam_tail
  | some l =>
    dsimp only
    have hparams : D st ∨ GoodL (some l :: more) ∨ ∃ t, okParamList (some l :: more) = some (t, false) := by
      rcases hp with d | ⟨gm, e | gl | pb⟩
      · exact Or.inl d
      · cases e
      · exact Or.inr (Or.inl (by simpa using ⟨gl, gm⟩))
      · exact Or.inr (Or.inr (okParamList_PB more pb))
    have hg : ∀ t, okParamList (some l :: more) = some (t, true) → D st ∨ GoodL (some l :: more) := by
      intro t h
      rcases hparams with d | g | ⟨t', ht'⟩
      · exact Or.inl d
      · exact Or.inr g
      · rw [ht'] at h; cases h
    lam_tail

theorem step_pGrp {n : Nat} (ih : AllSpec s n) (st : PState) : wp (parseGroupedExpression s (n + 1)) (R st) st := by
  unfold parseGroupedExpression
  vc
  refine wp_conseq (ih.pE _ (advance s st)) ?_
  intro exp st1 h1
  vc
  have hexp : D st1 ∨ exp = none ∨ GoodO exp ∨ PBO exp := by
    simp only [PostE] at h1; grind
  split
  · rename_i hl
    refine wp_conseq (ih.pLam exp [] (advance s st1) (by simpa using hl) ?_) ?_
    · simp only [D_advance, GoodL_nil, true_and]; exact hexp
    · intro r st2 h2
      simp only [R, PostE, M, D_advance] at *; grind
  · split
    · rename_i hl hcm
      refine wp_conseq (ih.pList .RPAREN (advance s st1) (by decide)) ?_
      intro el st2 h2
      cases el with
      | none =>
        dsimp only; vc
        simp only [R, PostE, M, OC, D_advance] at *; grind
      | some el =>
        dsimp only
        vc
        refine wp_conseq (expectPeek_spec .LAMBDA st2) ?_
        intro b st3 h3
        rcases h3 with ⟨rfl, hpk, rfl⟩ | ⟨rfl, hpk, d⟩
        · simp only [Bool.not_true, Bool.false_eq_true, if_false]
          refine wp_conseq (ih.pLam exp el (advance s st2) (by simpa using hpk) ?_) ?_
          · simp only [R, PostE, M, OC, D_advance, L] at *
            rcases h2.2 with d | ⟨l, e, g⟩
            · exact Or.inl d
            · cases e; grind
          · intro r st4 h4
            simp only [R, PostE, M, D_advance] at *; grind
        · simp only [Bool.not_false, if_true, wp_pure]
          simp only [R, PostE, M, OC, D_advance] at *; grind
    · rename_i hl hcm
      refine wp_conseq (expectPeek_spec .RPAREN st1) ?_
      intro b st2 h2
      rcases h2 with ⟨rfl, hpk, rfl⟩ | ⟨rfl, hpk, d⟩
      · simp only [Bool.not_true, Bool.false_eq_true, if_false, wp_pure]
        simp only [R, PostE, M, OC, D_advance, L] at *
        refine ⟨h1.1, ?_, ?_⟩
        · grind
        · intro t l e
          have := h1.2.2.1 t l e
          grind
      · simp only [Bool.not_false, if_true, wp_pure]
        simp only [R, PostE, M, OC, D_advance] at *; grind


/-- `cond`, then `expectPeek {`, then a block: the shape shared by `for` and the two branches of `if` -/
theorem cond_not_pending {P : Nat} {st0 st1 : PState} {c : ONode} (h1 : PostE P st0 c st1) (hP : P < 5)
    (hpk : st1.peek.type = .LBRACE) : D st1 ∨ GoodO c := by
  simp only [PostE, L] at h1
  rcases h1.2.1 with d | g | ⟨hl, _⟩
  · exact Or.inl d
  · exact Or.inr g
  · rw [hl] at hpk; cases hpk

theorem step_pFor {n : Nat} (ih : AllSpec s n) (st : PState) : wp (parseForExpression s (n + 1)) (RG st) st := by
  unfold parseForExpression
  vc
  refine wp_conseq (ih.pE _ (advance s st)) ?_
  intro c st1 h1
  refine wp_conseq (expectPeek_spec .LBRACE st1) ?_
  intro b st2 h2
  rcases h2 with ⟨rfl, hpk, rfl⟩ | ⟨rfl, hpk, d⟩
  · simp only [Bool.not_true, Bool.false_eq_true, if_false]
    have hc := cond_not_pending h1 (by decide) hpk
    refine wp_conseq (ih.pBlk (advance s st1)) ?_
    intro body st3 h3
    vc
    split
    · vc; simp only [RG, M, OC]; simp_all [D]
    · vc
      simp only [RG, PostE, PostB, M, OC, D_advance] at *
      refine ⟨fun d => h3.1 (h1.1 d), ?_, by simp⟩
      grind [GoodO_forE]
  · simp only [Bool.not_false, if_true, wp_pure]
    simp only [RG, PostE, M, OC, D_advance] at *
    exact ⟨fun _ => d, Or.inl d, by simp⟩

theorem step_pIf {n : Nat} (ih : AllSpec s n) (st : PState) : wp (parseIfExpression s (n + 1)) (RG st) st := by
  unfold parseIfExpression
  vc
  refine wp_conseq (ih.pE _ (advance s st)) ?_
  intro c st1 h1
  refine wp_conseq (expectPeek_spec .LBRACE st1) ?_
  intro b st2 h2
  rcases h2 with ⟨rfl, hpk, rfl⟩ | ⟨rfl, hpk, d⟩
  · simp only [Bool.not_true, Bool.false_eq_true, if_false]
    have hc := cond_not_pending h1 (by decide) hpk
    refine wp_conseq (ih.pBlk (advance s st1)) ?_
    intro cons st3 h3
    vc
    have hm3 : D st → D st3 := fun d => h3.1 (by simpa using h1.1 (by simpa using d))
    split
    · vc; simp only [RG, M, OC]; simp_all [D]
    · split
      · vc
        split
        · -- else if
          vc
          refine wp_conseq (ih.pIf (advance s (advance s st3))) ?_
          intro alt st4 h4
          vc
          simp only [RG, PostE, PostB, M, OC, D_advance] at *
          refine ⟨fun d => h4.1 (hm3 d), ?_, by simp⟩
          rcases h4.2.1 with d | ga
          · exact Or.inl d
          · rcases hc with d | gc
            · exact Or.inl (h4.1 (h3.1 d))
            · rcases h3.2 with d | gcons
              · exact Or.inl (h4.1 d)
              · exact Or.inr (by rw [GoodO_ifE_some]; exact ⟨gc, gcons, by simpa using ga⟩)
        · refine wp_conseq (expectPeek_spec .LBRACE (advance s st3)) ?_
          intro b st4 h4
          rcases h4 with ⟨rfl, hpk4, rfl⟩ | ⟨rfl, hpk4, d⟩
          · simp only [Bool.not_true, Bool.false_eq_true, if_false]
            refine wp_conseq (ih.pBlk _) ?_
            intro alt st5 h5
            vc
            split
            · vc; simp only [RG, M, OC]; simp_all [D]
            · vc
              simp only [RG, PostE, PostB, M, OC, D_advance] at *
              refine ⟨fun d => h5.1 (hm3 d), ?_, by simp⟩
              rcases h5.2 with d | ga
              · exact Or.inl d
              · rcases hc with d | gc
                · exact Or.inl (h5.1 (h3.1 d))
                · rcases h3.2 with d | gcons
                  · exact Or.inl (h5.1 d)
                  · cases alt with
                    | none => simp at ga
                    | some l => exact Or.inr (by rw [GoodO_ifE_some]; exact ⟨gc, gcons, by simpa using ga⟩)
          · simp only [Bool.not_false, if_true, wp_pure]
            simp only [RG, M, OC] at *
            exact ⟨fun _ => d, Or.inl d, by simp⟩
      · vc
        simp only [RG, PostE, PostB, M, OC, D_advance] at *
        refine ⟨hm3, ?_, by simp⟩
        rcases hc with d | gc
        · exact Or.inl (h3.1 d)
        · rcases h3.2 with d | gcons
          · exact Or.inl d
          · exact Or.inr (by rw [GoodO_ifE_none]; exact ⟨gc, gcons⟩)
  · simp only [Bool.not_false, if_true, wp_pure]
    simp only [RG, PostE, M, OC, D_advance] at *
    exact ⟨fun _ => d, Or.inl d, by simp⟩


set_option hygiene false in
/-- after the optional name: `(` parameters `)` `{` block `}` (shared by func and macro literals) -/
macro "fn_tail" : tactic => `(tactic| (
    refine wp_conseq (expectPeek_spec .LPAREN _) ?_
    intro b st1 h1
    rcases h1 with ⟨rfl, _, rfl⟩ | ⟨rfl, _, d⟩
    · simp only [Bool.not_true, Bool.false_eq_true, if_false]
      refine wp_conseq (parseFunctionParameters_spec n _) ?_
      intro pv st2 h2
      obtain ⟨params, variadic⟩ := pv
      try dsimp only
      vc
      refine wp_conseq (expectPeek_spec .LBRACE st2) ?_
      intro b st3 h3
      rcases h3 with ⟨rfl, _, rfl⟩ | ⟨rfl, _, d⟩
      · simp only [Bool.not_true, Bool.false_eq_true, if_false]
        refine wp_conseq (ih.pBlk _) ?_
        intro body st4 h4
        vc
        simp only [RG, M, OC, PostB, D_advance] at *
        split
        · vc; simp_all [D]
        · vc
          refine ⟨fun d => h4.1 (h2.1 d), ?_, by simp⟩
          rcases h4.2 with d | gb
          · exact Or.inl d
          · exact Or.inr (by first | (rw [GoodO_func]; exact ⟨h2.2, gb⟩) | (rw [GoodO_macroLit]; exact ⟨h2.2, gb⟩))
      · simp only [Bool.not_false, if_true, wp_pure]
        simp only [RG, M, OC]
        exact ⟨fun _ => d, Or.inl d, by simp⟩
    · simp only [Bool.not_false, if_true, wp_pure]
      simp only [RG, M, OC]
      exact ⟨fun _ => d, Or.inl d, by simp⟩))

theorem step_pFn {n : Nat} (ih : AllSpec s n) (st : PState) : wp (parseFunctionLiteral s (n + 1)) (RG st) st := by
  unfold parseFunctionLiteral
  vc
  split
  · fn_tail
  · fn_tail

theorem step_pMac {n : Nat} (ih : AllSpec s n) (st : PState) : wp (parseMacroLiteral s (n + 1)) (RG st) st := by
  unfold parseMacroLiteral
  vc
  fn_tail


theorem GoodL_mapInsert (kvs : NList) (k v : ONode) (hk : GoodL kvs) (gk : GoodO k) (gv : GoodO v) : GoodL (mapInsert kvs k v) := by
  unfold mapInsert
  cases k with
  | none => simp at gk
  | some n => simp [GoodL_append, hk, gk, gv]

theorem step_pMap {n : Nat} (ih : AllSpec s n) (st : PState) : wp (parseMapLiteral s (n + 1)) (RG st) st := by
  unfold parseMapLiteral
  vc
  exact ih.pMapLoop _ [] st (Or.inr (by simp))

theorem step_pMapLoop {n : Nat} (ih : AllSpec s n) (tok : Tk) (kvs : NList) (st : PState) (hk : D st ∨ GoodL kvs) :
    wp (parseMapLoop s (n + 1) tok kvs) (RG st) st := by
  unfold parseMapLoop
  vc
  split
  · split
    · rename_i hcnt
      have hcnt' : st.cont = true := hcnt
      vc; simp only [RG, M, OC, D_advance]; simp_all [D]
    · refine wp_conseq (ih.pE _ (advance s st)) ?_
      intro kv st1 h1
      have hfail : wp (mapPairError s) (RG st) st1 := by
        refine wp_conseq (mapPairError_spec st1) ?_
        intro r st2 h2
        simp only [RG, M, OC]
        exact ⟨fun _ => h2.2, Or.inl h2.2, by simp [h2.1]⟩
      split
      · next t key value =>
        split
        · rename_i hcol
          vc
          -- the value is missing only right before `]` or with `=>` pending: then the `,` is not there
          have hkv : D st1 ∨ (GoodO key ∧ (value = none → st1.peek.type = .RBRACKET ∨ st1.peek.type = .LAMBDA) ∧ (∀ v, value = some v → GoodO (some v))) := by
            simp only [PostE, OC, L] at h1
            rcases h1.2.1 with d | g | ⟨hl, e | ⟨h5, _⟩⟩
            · exact Or.inl d
            · cases value with
              | none =>
                rw [GoodO_infix_none] at g
                have := h1.2.2.1 t key rfl
                grind
              | some v =>
                rw [GoodO_infix_some] at g
                exact Or.inr ⟨g.2.1, by simp, fun v' e => by cases e; exact g.2.2⟩
            · cases e
            · exact absurd h5 (by decide)
          split
          · rename_i hnb
            refine wp_conseq (expectPeek_spec .COMMA st1) ?_
            intro b st2 h2
            rcases h2 with ⟨rfl, hpk, rfl⟩ | ⟨rfl, hpk, d⟩
            · simp only [Bool.not_true, Bool.false_eq_true, if_false]
              refine wp_conseq (ih.pMapLoop tok _ (advance s st1) ?_) ?_
              · simp only [D_advance]
                rcases hkv with d | ⟨gk, hv, gv⟩
                · exact Or.inl d
                · rcases hk with d | gkvs
                  · exact Or.inl (by simp only [PostE, M, D_advance] at h1; exact h1.1 d)
                  · cases value with
                    | none => rcases hv rfl with h | h <;> (rw [h] at hpk; cases hpk)
                    | some v => exact Or.inr (GoodL_mapInsert _ _ _ gkvs gk (gv v rfl))
              · intro r st3 h3
                simp only [RG, PostE, M, OC, D_advance] at *
                exact ⟨fun d => h3.1 (h1.1 d), h3.2.1, h3.2.2⟩
            · simp only [Bool.not_false, if_true, wp_pure]
              simp only [RG, M, OC]
              exact ⟨fun _ => d, Or.inl d, by simp⟩
          · rename_i hnb
            simp only [bne_iff_ne, ne_eq, Decidable.not_not] at hnb
            refine wp_conseq (ih.pMapLoop tok _ st1 ?_) ?_
            · rcases hkv with d | ⟨gk, hv, gv⟩
              · exact Or.inl d
              · rcases hk with d | gkvs
                · exact Or.inl (by simp only [PostE, M, D_advance] at h1; exact h1.1 d)
                · cases value with
                  | none => rcases hv rfl with h | h <;> (rw [h] at hnb; cases hnb)
                  | some v => exact Or.inr (GoodL_mapInsert _ _ _ gkvs gk (gv v rfl))
            · intro r st3 h3
              simp only [RG, PostE, M, OC, D_advance] at *
              exact ⟨fun d => h3.1 (h1.1 d), h3.2.1, h3.2.2⟩
        · exact hfail
      · exact hfail
  · refine wp_conseq (expectPeek_spec .RBRACE st) ?_
    intro b st1 h1
    rcases h1 with ⟨rfl, hpk, rfl⟩ | ⟨rfl, hpk, d⟩
    · simp only [Bool.not_true, Bool.false_eq_true, if_false, wp_pure]
      simp only [RG, M, OC, D_advance]
      refine ⟨id, ?_, by simp⟩
      rcases hk with d | g
      · exact Or.inl d
      · exact Or.inr (by simpa using g)
    · simp only [Bool.not_false, if_true, wp_pure]
      simp only [RG, M, OC]
      exact ⟨fun _ => d, Or.inl d, by simp⟩


theorem allSpec_zero : AllSpec s 0 := by
  constructor <;> intros <;> first
    | (unfold parseExpression; exact trivial)
    | (unfold parseExpressionLoop; exact trivial)
    | (unfold prefixDispatch; exact trivial)
    | (unfold infixDispatch; exact trivial)
    | (unfold parseStatement; exact trivial)
    | (unfold parseReturnStatement; exact trivial)
    | (unfold parseArrayLiteral; exact trivial)
    | (unfold parseGroupedExpression; exact trivial)
    | (unfold parsePrefixExpression; exact trivial)
    | (unfold parseLambdaMulti; exact trivial)
    | (unfold parseInfixExpression; exact trivial)
    | (unfold parseForExpression; exact trivial)
    | (unfold parseIfExpression; exact trivial)
    | (unfold parseBlockStatement; exact trivial)
    | (unfold parseBlockLoop; exact trivial)
    | (unfold parseFunctionLiteral; exact trivial)
    | (unfold parseBuiltin; exact trivial)
    | (unfold parseCallExpression; exact trivial)
    | (unfold parseExpressionList; exact trivial)
    | (unfold parseExpressionListLoop; exact trivial)
    | (unfold parseIndexExpression; exact trivial)
    | (unfold parseMapLiteral; exact trivial)
    | (unfold parseMapLoop; exact trivial)
    | (unfold parseMacroLiteral; exact trivial)

theorem allSpec_succ {n : Nat} (ih : AllSpec s n) : AllSpec s (n + 1) where
  pE := step_pE ih
  pLoop := step_pLoop ih
  pPre := step_pPre ih
  pInf := step_pInf ih
  pStmt := step_pStmt ih
  pRet := step_pRet ih
  pArr := step_pArr ih
  pGrp := step_pGrp ih
  pPfx := step_pPfx ih
  pLam := step_pLam ih
  pInfix := step_pInfix ih
  pFor := step_pFor ih
  pIf := step_pIf ih
  pBlk := step_pBlk ih
  pBlkLoop := step_pBlkLoop ih
  pFn := step_pFn ih
  pBi := step_pBi ih
  pCall := step_pCall ih
  pList := step_pList ih
  pListLoop := step_pListLoop ih
  pIdx := step_pIdx ih
  pMap := step_pMap ih
  pMapLoop := step_pMapLoop ih
  pMac := step_pMac ih

theorem allSpec (s : TokStream) : ∀ n, AllSpec s n
  | 0 => allSpec_zero
  | n + 1 => allSpec_succ (allSpec s n)

theorem parseProgramLoop_spec (s : TokStream) : ∀ (fuel : Nat) (acc : NList) (st : PState), (D st ∨ GoodL acc) →
    wp (parseProgramLoop s fuel acc) (fun r st' => M st st' ∧ (D st' ∨ GoodL r)) st
  | 0, _, _, _ => by unfold parseProgramLoop; exact trivial
  | n + 1, acc, st, h => by
    unfold parseProgramLoop
    vc
    split
    · refine wp_conseq ((allSpec s n).pStmt st) ?_
      intro stmt st1 h1
      cases stmt with
      | none =>
        dsimp only; vc
        simp only [PostS, M] at *; grind
      | some x =>
        dsimp only; vc
        refine wp_conseq (parseProgramLoop_spec s n _ (advance s st1) ?_) ?_
        · simp only [PostS, M, D_advance, GoodL_snoc] at *; grind
        · intro r st2 h2
          simp only [PostS, M, D_advance] at *; grind
    · vc; exact ⟨id, h⟩

/-- **C08 part 2**: a parse without errors and without continuation request returns a tree with no missing
child in which every operator token has a precedence — for EVERY token stream and fuel. -/
theorem parseProgram_good (s : TokStream) (fuel : Nat) (r : ParseResult) (h : parseProgram s fuel = .ok r)
    (he : r.errors = 0) (hc : r.cont = false) : noNilL r.program = true ∧ precOKL r.program = true := by
  have hs := parseProgramLoop_spec s fuel [] (init s) (Or.inr (by simp))
  unfold parseProgram at h
  unfold wp at hs
  cases hp : parseProgramLoop s fuel [] (init s) with
  | goPanic p => rw [hp] at h; cases h
  | outOfFuel => rw [hp] at h; cases h
  | ok res =>
    obtain ⟨prog, st⟩ := res
    rw [hp] at h hs
    simp only [Res.ok.injEq] at h
    subst h
    simp only at he hc
    rcases hs.2 with d | g
    · rcases d with d | d
      · exact absurd (List.length_eq_zero_iff.mp he) d
      · rw [hc] at d; cases d
    · exact g

end Grol.Parser


import GrolProofs.ConstInvBase
/-
C07, part 1: the pure value operations (lean/Grol/Eval/Values.lean) never panic and keep values
well scoped.
-/
namespace Grol.K
open Grol.E

mutual
theorem cmp_npr : ∀ (a b : Obj), NPR (cmp a b)
  | a, b => by
    unfold cmp
    split
    all_goals first
      | exact NPR.pure _
      | exact NPR.throw_unmodelled _
      | skip
    · next a b =>
      split
      · exact NPR.pure _
      · split
        · exact NPR.pure _
        · exact cmpList_npr a b
    · next a _ b =>
      split
      · exact NPR.pure _
      · split
        · exact NPR.pure _
        · exact cmpPairs_npr a b
    · next a _ b _ => exact cmp_npr a b
theorem cmpList_npr : ∀ (a b : List Obj), NPR (cmpList a b)
  | a, b => by
    unfold cmpList
    split
    · next a as b bs =>
      refine NPR.bind (cmp_npr a b) ?_
      intro c _
      split
      · exact NPR.pure _
      · exact cmpList_npr as bs
    · exact NPR.pure _
theorem cmpPairs_npr : ∀ (a b : List (Obj × Obj)), NPR (cmpPairs a b)
  | a, b => by
    unfold cmpPairs
    split
    · next ka va as kb vb bs =>
      refine NPR.bind (cmp_npr ka kb) ?_
      intro c _
      split
      · exact NPR.pure _
      · refine NPR.bind (cmp_npr va vb) ?_
        intro c _
        split
        · exact NPR.pure _
        · exact cmpPairs_npr as bs
    · exact NPR.pure _
end

theorem quoteByte_npr (b : UInt8) : NPR (quoteByte b) := by
  unfold quoteByte
  repeat' split
  all_goals first | exact NPR.pure _ | exact NPR.throw_unmodelled _

theorem quoteBody_npr : ∀ (s : List UInt8), NPR (quoteBody s)
  | [] => NPR.pure _
  | b :: rest => by
    unfold quoteBody
    refine NPR.bind (quoteByte_npr b) (fun _ _ => ?_)
    exact NPR.bind (quoteBody_npr rest) (fun _ _ => NPR.pure _)

theorem quoteBytes_npr (s : List UInt8) : NPR (quoteBytes s) := by
  unfold quoteBytes
  exact NPR.bind (quoteBody_npr s) (fun _ _ => NPR.pure _)

theorem floatStr_npr (b : UInt64) : NPR (floatStr b) := by
  unfold floatStr
  dsimp only
  repeat' split
  all_goals first | exact NPR.pure _ | exact NPR.throw_unmodelled _

mutual
theorem inspect_npr : ∀ (o : Obj), NPR (inspect o)
  | o => by
    unfold inspect
    split
    all_goals first
      | exact NPR.pure _
      | exact NPR.throw_unmodelled _
      | skip
    · next b => exact NPR.bind (floatStr_npr b) (fun _ _ => NPR.pure _)
    · next s => exact quoteBytes_npr s
    · next els => exact NPR.bind (inspectList_npr els) (fun _ _ => NPR.pure _)
    · next kvs => exact NPR.bind (inspectPairs_npr kvs) (fun _ _ => NPR.pure _)
    · split
      · exact NPR.pure _
      · exact NPR.throw_unmodelled _
    · next v _ => exact inspect_npr v
theorem inspectList_npr : ∀ (l : List Obj), NPR (inspectList l)
  | l => by
    unfold inspectList
    split
    · exact NPR.pure _
    · next x => exact inspect_npr x
    · next x xs _ =>
      refine NPR.bind (inspect_npr x) (fun _ _ => ?_)
      exact NPR.bind (inspectList_npr xs) (fun _ _ => NPR.pure _)
theorem inspectPairs_npr : ∀ (l : List (Obj × Obj)), NPR (inspectPairs l)
  | l => by
    unfold inspectPairs
    split
    · exact NPR.pure _
    · next k v =>
      refine NPR.bind (inspect_npr k) (fun _ _ => ?_)
      exact NPR.bind (inspect_npr v) (fun _ _ => NPR.pure _)
    · next k v xs _ =>
      refine NPR.bind (inspect_npr k) (fun _ _ => ?_)
      refine NPR.bind (inspect_npr v) (fun _ _ => ?_)
      exact NPR.bind (inspectPairs_npr xs) (fun _ _ => NPR.pure _)
end

/-! ### maps -/

theorem okPairs_iff {n : Nat} {l : List (Obj × Obj)} :
    okPairs n l = true ↔ ∀ kv ∈ l, okObj n kv.1 = true ∧ okObj n kv.2 = true := by
  rw [okPairs_eq, List.all_eq_true]
  simp only [Bool.and_eq_true]

theorem okList_iff {n : Nat} {l : List Obj} : okList n l = true ↔ ∀ x ∈ l, okObj n x = true := by
  rw [okList_eq, List.all_eq_true]

theorem mapFind_go_npr (key : Obj) : ∀ (kvs : List (Obj × Obj)) (i : Nat), NPR (mapFind.go key kvs i)
  | [], i => NPR.pure _
  | (k, v) :: rest, i => by
    unfold mapFind.go
    refine NPR.bind (cmp_npr k key) (fun c _ => ?_)
    split
    · exact NPR.pure _
    · split
      · exact NPR.pure _
      · exact mapFind_go_npr key rest (i + 1)

/-- what `mapFind` finds is an element of the map -/
theorem mapFind_go_mem (key : Obj) : ∀ (kvs : List (Obj × Obj)) (i : Nat) (v : Obj) (j : Nat),
    mapFind.go key kvs i = .ok (some v, j) → ∃ k, (k, v) ∈ kvs
  | [], i, v, j, h => by simp [mapFind.go, pure, Except.pure] at h
  | (k, w) :: rest, i, v, j, h => by
    unfold mapFind.go at h
    cases hc : cmp k key with
    | error e => rw [hc] at h; cases h
    | ok c =>
      rw [hc] at h
      simp only [bind, Except.bind] at h
      split at h
      · cases h
      · split at h
        · cases h; exact ⟨k, List.mem_cons_self⟩
        · obtain ⟨k', hk'⟩ := mapFind_go_mem key rest (i + 1) v j h
          exact ⟨k', List.mem_cons_of_mem _ hk'⟩

theorem mapGet_npr (kvs : List (Obj × Obj)) (key : Obj) : NPR (mapGet kvs key) := by
  unfold mapGet mapFind
  exact NPR.bind (mapFind_go_npr key kvs 0) (fun _ _ => NPR.pure _)

theorem mapGet_ok {n : Nat} {kvs : List (Obj × Obj)} {key v : Obj} (hk : okPairs n kvs = true)
    (h : mapGet kvs key = .ok (some v)) : okObj n v = true := by
  unfold mapGet mapFind at h
  cases hf : mapFind.go key kvs 0 with
  | error e => rw [hf] at h; cases h
  | ok r =>
    rw [hf] at h
    obtain ⟨r1, j⟩ := r
    simp only [bind, Except.bind, pure, Except.pure] at h
    cases h
    obtain ⟨k, hk'⟩ := mapFind_go_mem key kvs 0 v j hf
    exact ((okPairs_iff.1 hk) _ hk').2

theorem mapSet_npr (cfg : Cfg) (big : Bool) (kvs : List (Obj × Obj)) (key val : Obj) :
    NPR (mapSet cfg big kvs key val) := by
  unfold mapSet mapFind
  refine NPR.bind (mapFind_go_npr key kvs 0) (fun r _ => ?_)
  obtain ⟨found, i⟩ := r
  dsimp only
  split <;> exact NPR.pure _

theorem oldKey_ok {n : Nat} {kvs : List (Obj × Obj)} {i : Nat} {key : Obj} (hk : okPairs n kvs = true)
    (hkey : okObj n key = true) : okObj n (mapSet.oldKey kvs i key) = true := by
  unfold mapSet.oldKey
  split
  · next k _ h => exact ((okPairs_iff.1 hk) _ (List.mem_of_getElem? h)).1
  · exact hkey

theorem mapSet_ok {n : Nat} {cfg : Cfg} {big : Bool} {kvs : List (Obj × Obj)} {key val : Obj}
    {r : Bool × List (Obj × Obj)} (hk : okPairs n kvs = true) (hkey : okObj n key = true)
    (hval : okObj n val = true) (h : mapSet cfg big kvs key val = .ok r) : okPairs n r.2 = true := by
  unfold mapSet at h
  cases hf : mapFind kvs key with
  | error e => rw [hf] at h; cases h
  | ok fr =>
    rw [hf] at h
    obtain ⟨found, i⟩ := fr
    simp only [bind, Except.bind] at h
    have hmem := okPairs_iff.1 hk
    split at h
    · cases h
      rw [okPairs_iff]
      intro kv hkv
      rcases List.mem_or_eq_of_mem_set hkv with h1 | h1
      · exact hmem kv h1
      · subst h1; exact ⟨oldKey_ok hk hkey, hval⟩
    · cases h
      rw [okPairs_iff]
      intro kv hkv
      simp only [List.mem_append, List.mem_singleton] at hkv
      rcases hkv with (h1 | h1) | h1
      · exact hmem kv (List.mem_of_mem_take h1)
      · subst h1; exact ⟨hkey, hval⟩
      · exact hmem kv (List.mem_of_mem_drop h1)

theorem mapDelete_npr (kvs : List (Obj × Obj)) (key : Obj) : NPR (mapDelete kvs key) := by
  unfold mapDelete mapFind
  refine NPR.bind (mapFind_go_npr key kvs 0) (fun r _ => ?_)
  obtain ⟨found, i⟩ := r
  dsimp only
  split <;> exact NPR.pure _

theorem mapDelete_ok {n : Nat} {kvs kvs' : List (Obj × Obj)} {key : Obj} (hk : okPairs n kvs = true)
    (h : mapDelete kvs key = .ok (some kvs')) : okPairs n kvs' = true := by
  unfold mapDelete at h
  cases hf : mapFind kvs key with
  | error e => rw [hf] at h; cases h
  | ok fr =>
    rw [hf] at h
    obtain ⟨found, i⟩ := fr
    simp only [bind, Except.bind] at h
    split at h
    · cases h
      rw [okPairs_iff]
      intro kv hkv
      exact (okPairs_iff.1 hk) kv (List.mem_of_mem_eraseIdx hkv)
    · cases h

theorem mapAppend_go_npr (cfg : Cfg) : ∀ (r : List (Obj × Obj)) (acc : Bool × List (Obj × Obj)),
    NPR (mapAppend.go cfg acc r)
  | [], acc => NPR.pure _
  | (k, v) :: rest, acc => by
    unfold mapAppend.go
    exact NPR.bind (mapSet_npr cfg _ _ k v) (fun acc' _ => mapAppend_go_npr cfg rest acc')

theorem mapAppend_go_ok {n : Nat} (cfg : Cfg) : ∀ (r : List (Obj × Obj)) (acc res : Bool × List (Obj × Obj)),
    okPairs n r = true → okPairs n acc.2 = true → mapAppend.go cfg acc r = .ok res → okPairs n res.2 = true
  | [], acc, res, _, ha, h => by
    simp only [mapAppend.go, pure, Except.pure] at h; cases h; exact ha
  | (k, v) :: rest, acc, res, hr, ha, h => by
    unfold mapAppend.go at h
    have hr' := okPairs_iff.1 hr
    cases hs : mapSet cfg acc.1 acc.2 k v with
    | error e => rw [hs] at h; cases h
    | ok acc' =>
      rw [hs] at h
      simp only [bind, Except.bind] at h
      have h1 := hr' (k, v) List.mem_cons_self
      have hacc' := mapSet_ok ha h1.1 h1.2 hs
      exact mapAppend_go_ok cfg rest acc' res
        (okPairs_iff.2 (fun kv hkv => hr' kv (List.mem_cons_of_mem _ hkv))) hacc' h

theorem mapAppend_npr (cfg : Cfg) (lbig : Bool) (l r : List (Obj × Obj)) : NPR (mapAppend cfg lbig l r) := by
  unfold mapAppend
  exact mapAppend_go_npr cfg r _

theorem mapAppend_ok {n : Nat} {cfg : Cfg} {lbig : Bool} {l r : List (Obj × Obj)} {res : Bool × List (Obj × Obj)}
    (hl : okPairs n l = true) (hr : okPairs n r = true) (h : mapAppend cfg lbig l r = .ok res) :
    okPairs n res.2 = true := by
  unfold mapAppend at h
  exact mapAppend_go_ok cfg r _ res hr hl h

end Grol.K

import GrolProofs.LexNext
/-
C16 lemmas, part 4: the line bookkeeping of the lexer (`lastNewLine`, `lineNumber`, `hadNewline`,
`hadWhitespace`) as invariants of `next`.
-/
namespace Grol.Lexer
open Grol.Token Grol.Token.TType

/-- number of newline bytes in `input[0:p)` -/
def countNL (input : Array UInt8) (p : Nat) : Nat :=
  ((List.range p).filter fun i => peekAt input i == 10).length

theorem countNL_succ (input : Array UInt8) (p : Nat) :
    countNL input (p + 1) = countNL input p + (if peekAt input p == 10 then 1 else 0) := by
  unfold countNL
  rw [List.range_succ, List.filter_append, List.length_append]
  congr 1
  simp only [List.filter_cons, List.filter_nil]
  split <;> rfl

theorem countNL_mono (input : Array UInt8) {p q : Nat} (h : p ≤ q) : countNL input p ≤ countNL input q := by
  induction q with
  | zero => have : p = 0 := by omega
            subst this; exact Nat.le_refl _
  | succ q ih =>
    by_cases hp : p = q + 1
    · subst hp; exact Nat.le_refl _
    · have := ih (by omega)
      rw [countNL_succ]; omega

/-- the line bookkeeping is consistent with the position -/
structure LineInv (s : State) : Prop where
  /-- `lastNewLine` never runs ahead of the position … -/
  le_pos : s.lastNewLine ≤ s.pos
  /-- … nor past the end of the input (so `CurrentLine`'s slice is in range) -/
  le_size : s.lastNewLine ≤ s.input.size
  /-- it is 0 or the position just after a newline byte -/
  after_nl : s.lastNewLine = 0 ∨ peekAt s.input (s.lastNewLine - 1) = 10
  line_ge : 1 ≤ s.lineNumber
  /-- only newlines skipped as whitespace are counted (those inside strings and block comments are not) -/
  line_le : s.lineNumber ≤ 1 + countNL s.input s.pos

theorem LineInv.new (input : Array UInt8) (lineMode : Bool) : LineInv (State.new input lineMode) :=
  ⟨Nat.le_refl _, Nat.zero_le _, Or.inl rfl, Nat.le_refl _, by simp [State.new]⟩

/-- moving the position forward keeps the invariant -/
theorem LineInv.advance {s : State} (h : LineInv s) {p : Nat} (hp : s.pos ≤ p) : LineInv { s with pos := p } :=
  ⟨Nat.le_trans h.le_pos hp, h.le_size, h.after_nl, h.line_ge,
    Nat.le_trans h.line_le (Nat.add_le_add_left (countNL_mono s.input hp) 1)⟩

/-- what whitespace skipping does to the flags and the line bookkeeping -/
structure SkipFlags (s r : State) : Prop where
  input : r.input = s.input
  ge : s.pos ≤ r.pos
  inv : LineInv s → LineInv r
  ws : r.hadWhitespace = true ↔ (s.hadWhitespace = true ∨ s.pos < r.pos)
  nl : r.hadNewline = true ↔ (s.hadNewline = true ∨ ∃ i, s.pos ≤ i ∧ i < r.pos ∧ peekAt s.input i = 10)

theorem SkipFlags.refl (s : State) : SkipFlags s s :=
  ⟨rfl, Nat.le_refl _, id, by simp, by simp; intro i h1 h2; omega⟩

theorem SkipFlags.trans {s m r : State} (a : SkipFlags s m) (b : SkipFlags m r) : SkipFlags s r := by
  have hge := a.ge
  have hge2 := b.ge
  refine ⟨b.input.trans a.input, Nat.le_trans a.ge b.ge, fun h => b.inv (a.inv h), ?_, ?_⟩
  · rw [b.ws, a.ws]
    constructor
    · rintro ((h | h) | h)
      · exact Or.inl h
      · exact Or.inr (by omega)
      · exact Or.inr (by omega)
    · rintro (h | h)
      · exact Or.inl (Or.inl h)
      · by_cases h' : s.pos < m.pos
        · exact Or.inl (Or.inr h')
        · exact Or.inr (by omega)
  · rw [b.nl, a.nl, a.input]
    constructor
    · rintro ((h | ⟨i, h1, h2, h3⟩) | ⟨i, h1, h2, h3⟩)
      · exact Or.inl h
      · exact Or.inr ⟨i, h1, by omega, h3⟩
      · exact Or.inr ⟨i, by omega, h2, h3⟩
    · rintro (h | ⟨i, h1, h2, h3⟩)
      · exact Or.inl (Or.inl h)
      · by_cases h' : i < m.pos
        · exact Or.inl (Or.inr ⟨i, h1, h', h3⟩)
        · exact Or.inr ⟨i, by omega, h2, h3⟩

/-- one iteration of the loop of `skipWhitespace` on a whitespace byte -/
def stepWs (s : State) : State :=
  let s' := if s.peekChar == 10 then
      { s with hadNewline := true, lastNewLine := s.pos + 1, lineNumber := s.lineNumber + 1 }
    else s
  { s' with hadWhitespace := true, pos := s'.pos + 1 }

theorem skipWsLoop_succ (f : Nat) (s : State) (h : isWhiteSpace s.peekChar = true) :
    skipWsLoop (f + 1) s = skipWsLoop f (stepWs s) := by
  conv => lhs; unfold skipWsLoop
  simp only [h, Bool.not_true, Bool.false_eq_true, ↓reduceIte]
  rfl

theorem stepWs_flags (s : State) (h : isWhiteSpace s.peekChar = true) : SkipFlags s (stepWs s) := by
  have hws : isWhiteSpace (peekAt s.input s.pos) = true := h
  have hlt : s.pos < s.input.size :=
    lt_size_of_peekAt_ne_zero (fun h0 => by rw [h0] at hws; revert hws; decide)
  by_cases hn : (s.peekChar == 10) = true
  · have h10 : peekAt s.input s.pos = 10 := by simpa [State.peekChar] using hn
    have e : stepWs s =
        { s with pos := s.pos + 1, hadWhitespace := true, hadNewline := true, lastNewLine := s.pos + 1, lineNumber := s.lineNumber + 1 } := by
      unfold stepWs; simp only [hn, ↓reduceIte]
    rw [e]
    refine ⟨rfl, by simp, fun hi => ⟨Nat.le_refl _, by simp; omega, Or.inr (by simpa using h10), by simp, ?_⟩,
      by simp, ?_⟩
    · have := hi.line_le
      simp only [countNL_succ, h10]
      simp; omega
    · simp only [true_iff]
      exact Or.inr ⟨s.pos, Nat.le_refl _, by simp, h10⟩
  · have h10 : ¬ peekAt s.input s.pos = 10 := by simpa [State.peekChar] using hn
    have e : stepWs s = { s with pos := s.pos + 1, hadWhitespace := true } := by
      unfold stepWs; simp only [hn, Bool.false_eq_true, ↓reduceIte]
    rw [e]
    refine ⟨rfl, by simp, fun hi => ⟨by have := hi.le_pos; simp; omega, hi.le_size, hi.after_nl, hi.line_ge, ?_⟩,
      by simp, ?_⟩
    · have := hi.line_le
      have := countNL_mono s.input (Nat.le_succ s.pos)
      simp at *; omega
    · simp only
      constructor
      · exact Or.inl
      · rintro (h | ⟨i, h1, h2, h3⟩)
        · exact h
        · have : i = s.pos := by omega
          subst this; exact absurd h3 h10

theorem skipWsLoop_flags : ∀ fuel (s : State), SkipFlags s (skipWsLoop fuel s) := by
  intro fuel
  induction fuel with
  | zero => intro s; unfold skipWsLoop; exact SkipFlags.refl s
  | succ f ih =>
    intro s
    by_cases h : isWhiteSpace s.peekChar = true
    · rw [skipWsLoop_succ f s h]
      exact (stepWs_flags s h).trans (ih _)
    · have : skipWsLoop (f + 1) s = s := by
        conv => lhs; unfold skipWsLoop
        simp only [h, Bool.not_false, ↓reduceIte]
      rw [this]; exact SkipFlags.refl s

/-- `skipWhitespace`: the flags say exactly whether bytes / a newline byte were skipped -/
theorem skipWhitespace_flags (s : State) :
    (LineInv s → LineInv (skipWhitespace s))
    ∧ ((skipWhitespace s).hadWhitespace = true ↔ s.pos < (skipWhitespace s).pos)
    ∧ ((skipWhitespace s).hadNewline = true ↔
        ∃ i, s.pos ≤ i ∧ i < (skipWhitespace s).pos ∧ peekAt s.input i = 10) := by
  unfold skipWhitespace
  have r := skipWsLoop_flags (s.input.size - s.pos) { s with hadWhitespace := false, hadNewline := false }
  refine ⟨fun h => r.inv ⟨h.le_pos, h.le_size, h.after_nl, h.line_ge, h.line_le⟩, ?_, ?_⟩
  · rw [r.ws]; simp
  · rw [r.nl]; simp

end Grol.Lexer

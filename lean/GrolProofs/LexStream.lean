import GrolProofs.ParseSafe
import GrolProofs.ParseEnd
import GrolProofs.Props.C16
/-
Bridge lexer model → parser model: the token stream the parser model consumes (`Grol.TokStream`,
built by the parse harness from the REAL lexer) is here built from the lexer MODEL, and the
parser's hypothesis `Parser.StreamWF` is proved for it, for every input and both modes.

The stream has the shape the harness produces (`harness/cmd/harness/parse.go lexAll`): every
`NextToken()` result up to and including the first end marker, then the end marker returned by
the following call (which every later call returns again: `C16.sticky`).
-/
namespace Grol.LexStream
open Grol.Lexer Grol.Generated

/-- the model's token type as the generated enumeration (same `iota` value) -/
def genType (t : Grol.Token.TType) : TokType := (TokType.ofNat? t.toNat).getD .ILLEGAL

theorem genType_linecomment (t : Grol.Token.TType) : genType t = .LINECOMMENT → t = .LINECOMMENT := by
  cases t <;> decide

theorem genType_EOF : genType .EOF = .EOF := by decide
theorem genType_EOL : genType .EOL = .EOL := by decide

/-- everything the parser can observe about one call; `nc` classifies number literals
(`strconv.ParseInt/ParseFloat`, external to the lexer) -/
def toTok (nc : Grol.Token.Tok → NumClass) (before : State) (t : Grol.Token.Tok) (after : State) : Grol.Tok :=
  { type := genType t.type, lit := t.lit, posBefore := before.pos, posAfter := after.pos,
    hadWs := after.hadWhitespace, hadNl := after.hadNewline, lastNl := after.lastNewLine, num := nc t }

/-- the `i`-th `NextToken()` call from `s0` -/
def entry (nc : Grol.Token.Tok → NumClass) (s0 : State) (i : Nat) : Grol.Tok :=
  toTok nc (iter i s0) (next (iter i s0)).1 (next (iter i s0)).2

/-- index of the first call that returns the end marker (searching at most `fuel` calls) -/
def markerIdx : Nat → State → Nat
  | 0, _ => 0
  | f + 1, s => if (next s).1.src = .eoleof then 0 else markerIdx f (next s).2 + 1

/-- the stream of the model lexer on `input` -/
def tokStream (nc : Grol.Token.Tok → NumClass) (input : Array UInt8) (lineMode : Bool) : TokStream :=
  let s0 := State.new input lineMode
  let k := markerIdx (input.size + 1) s0
  { toks := (List.range (k + 1)).map (entry nc s0), eof := entry nc s0 (k + 1), inputLen := input.size }

theorem markerIdx_spec : ∀ (m : Nat) (s : State), s.pos ≤ s.input.size → s.input.size - s.pos ≤ m →
    isMarker (next (iter (markerIdx (m + 1) s) s)).1 := by
  intro m
  induction m with
  | zero =>
    intro s h1 h2
    have hm : isMarker (next s).1 := by
      apply Classical.byContradiction
      intro hm
      have p := C16.progress s hm
      have t := C16.tiling s
      omega
    have hm' : (next s).1.src = .eoleof := hm
    unfold markerIdx
    rw [if_pos hm']
    exact hm
  | succ m ih =>
    intro s h1 h2
    unfold markerIdx
    by_cases hm : (next s).1.src = .eoleof
    · rw [if_pos hm]; exact hm
    · rw [if_neg hm]
      have p := C16.progress s hm
      have t := C16.tiling s
      have r := ih (next s).2 (by rw [t.2.2.2.2.1]; exact p.2) (by rw [t.2.2.2.2.1]; omega)
      generalize markerIdx (m + 1) (next s).2 = j at r ⊢
      exact r

theorem get_le (nc : Grol.Token.Tok → NumClass) (input : Array UInt8) (lineMode : Bool) (i : Nat)
    (h : i ≤ markerIdx (input.size + 1) (State.new input lineMode)) :
    (tokStream nc input lineMode).get i = entry nc (State.new input lineMode) i := by
  have hr : (List.range (markerIdx (input.size + 1) (State.new input lineMode) + 1))[i]? = some i :=
    List.getElem?_range (by omega)
  unfold TokStream.get tokStream
  simp only [List.getElem?_map, hr]
  rfl

theorem get_gt (nc : Grol.Token.Tok → NumClass) (input : Array UInt8) (lineMode : Bool) (i : Nat)
    (h : markerIdx (input.size + 1) (State.new input lineMode) < i) :
    (tokStream nc input lineMode).get i
      = entry nc (State.new input lineMode) (markerIdx (input.size + 1) (State.new input lineMode) + 1) := by
  unfold TokStream.get tokStream
  simp only []
  rw [List.getElem?_eq_none (by simp; omega)]
  rfl

/-- **bridge**: the token stream of the lexer model satisfies the parser's `StreamWF`, for every
input, both modes (and any classification of number literals) -/
theorem lexer_streamWF (nc : Grol.Token.Tok → NumClass) (input : Array UInt8) (lineMode : Bool) :
    Parser.StreamWF (tokStream nc input lineMode) := by
  intro i
  have hk := markerIdx_spec input.size (State.new input lineMode) (Nat.zero_le _) (by simp [State.new])
  obtain ⟨k, hkdef⟩ : ∃ k, markerIdx (input.size + 1) (State.new input lineMode) = k := ⟨_, rfl⟩
  rw [hkdef] at hk
  -- the entry after the first marker is the marker again
  have hk1 : (next (iter (k + 1) (State.new input lineMode))).1 = Grol.Token.eolEof lineMode := by
    have st := C16.sticky (iter k (State.new input lineMode)) hk 1
    have e : iter 1 (iter k (State.new input lineMode)) = iter (k + 1) (State.new input lineMode) :=
      (iter_succ' k (State.new input lineMode)).symm
    rw [e] at st
    rw [st.1]
    cases C16.cases (iter k (State.new input lineMode)) with
    | inl m =>
      rw [m.1]
      have : ∀ k, (iter k (State.new input lineMode)).lineMode = lineMode := by
        intro k
        induction k with
        | zero => rfl
        | succ k ih => rw [iter_succ', (C16.tiling _).2.2.2.2.2]; exact ih
      rw [this k]
    | inr ok => exact absurd hk ok.notMarker
  have hlen : (tokStream nc input lineMode).inputLen = input.size := rfl
  unfold Parser.TokWF
  rw [hlen]
  by_cases hi : i ≤ k
  · rw [get_le nc input lineMode i (by omega)]
    have e1 : (tokStream nc input lineMode).get (i + 1) = entry nc (State.new input lineMode) (i + 1) := by
      by_cases hi' : i + 1 ≤ k
      · exact get_le nc input lineMode (i + 1) (by omega)
      · have : i + 1 = k + 1 := by omega
        rw [get_gt nc input lineMode (i + 1) (by omega), hkdef, this]
    rw [e1]
    refine ⟨C16.lastNewLine_le input lineMode i, ?_⟩
    intro hty
    have hty' := genType_linecomment _ hty
    have al := C16.after_linecomment (iter i (State.new input lineMode)) hty'
    have e2 : iter (i + 1) (State.new input lineMode) = (next (iter i (State.new input lineMode))).2 := iter_succ' _ _
    rcases al with h | h
    · left
      show (next (iter (i + 1) (State.new input lineMode))).2.hadNewline = true
      rw [e2]; exact h
    · right
      have hm : isMarker (next (iter (i + 1) (State.new input lineMode))).1 := by rw [e2]; exact h
      cases C16.cases (iter (i + 1) (State.new input lineMode)) with
      | inr ok => exact absurd hm ok.notMarker
      | inl m =>
        show genType (next (iter (i + 1) (State.new input lineMode))).1.type = .EOF
          ∨ genType (next (iter (i + 1) (State.new input lineMode))).1.type = .EOL
        rw [m.1]
        unfold Grol.Token.eolEof
        cases (iter (i + 1) (State.new input lineMode)).lineMode
        · left; exact genType_EOF
        · right; exact genType_EOL
  · rw [get_gt nc input lineMode i (by omega), hkdef]
    refine ⟨C16.lastNewLine_le input lineMode (k + 1), ?_⟩
    intro hty
    have hty' : (next (iter (k + 1) (State.new input lineMode))).1.type = .LINECOMMENT := genType_linecomment _ hty
    rw [hk1] at hty'
    unfold Grol.Token.eolEof at hty'
    cases lineMode <;> cases hty'

/-! ### the literal fact behind C03 ("exactly one newline at the end") -/

/-- one call: a token of a kind that a node can print last has a non-empty literal that does not end
in a newline -/
theorem next_litOK (s : State) (h : Parser.lastKind (genType (next s).1.type) = true) :
    (next s).1.lit ≠ [] ∧ (next s).1.lit.getLast? ≠ some 10 := by
  have wf := C16.next_wf s
  apply C16.literal_ends_line
  unfold Grol.Token.Tok.WF at wf
  split at wf
  · exfalso
    rcases wf.1 with e | e <;> (rw [e] at h; revert h; decide)
  · rename_i hs; exact Or.inl hs
  · rename_i hs; exact Or.inr (Or.inl hs)
  · rename_i hs
    refine Or.inr (Or.inr (Or.inr ⟨hs, ?_⟩))
    rcases wf with e | e | e | e | e | e
    · exfalso; rw [e] at h; revert h; decide
    · exact Or.inl e
    · exact Or.inr (Or.inl e)
    · exfalso; rw [e] at h; revert h; decide
    · exact Or.inr (Or.inr e)
    · exfalso; rw [e] at h; revert h; decide
  · rename_i hs; exact Or.inr (Or.inr (Or.inl hs))
  · exact wf.elim
  · exact wf.elim

theorem entry_litOK (nc : Grol.Token.Tok → NumClass) (s0 : State) (j : Nat)
    (h : Parser.lastKind (entry nc s0 j).type = true) : Printer.litOK (entry nc s0 j).tk = true := by
  have := next_litOK (iter j s0) h
  show (!(next (iter j s0)).1.lit.isEmpty && (next (iter j s0)).1.lit.getLast? != some 10) = true
  obtain ⟨h1, h2⟩ := this
  simp only [Bool.and_eq_true, Bool.not_eq_eq_eq_not, Bool.not_true, bne_iff_ne, ne_eq]
  exact ⟨by simpa using h1, h2⟩

/-- **the lexer fact of C03**, for every input and both modes: every token of the model's stream
whose kind can end a printed line has a non-empty literal that does not end in a newline -/
theorem lexer_litFact (nc : Grol.Token.Tok → NumClass) (input : Array UInt8) (lineMode : Bool) :
    Parser.LitFact (tokStream nc input lineMode) := by
  intro i h
  by_cases hi : i ≤ markerIdx (input.size + 1) (State.new input lineMode)
  · rw [get_le nc input lineMode i hi] at h ⊢
    exact entry_litOK nc _ _ h
  · rw [get_gt nc input lineMode i (by omega)] at h ⊢
    exact entry_litOK nc _ _ h

end Grol.LexStream

namespace Grol.LexStream
open Grol.Lexer Grol.Generated

/-- non-vacuity: `// c⏎x` in file mode: LINECOMMENT, IDENT (with `hadNl`), EOF, then the repeated EOF -/
example : ((tokStream (fun _ => .na) #[47, 47, 32, 99, 10, 120] false).toks.map fun t => (t.type, t.hadNl, t.lastNl, t.posAfter))
    = [(.LINECOMMENT, false, 0, 4), (.IDENT, true, 5, 6), (.EOF, false, 5, 6)]
    ∧ (tokStream (fun _ => .na) #[47, 47, 32, 99, 10, 120] false).eof.type = .EOF := by
  decide +kernel

end Grol.LexStream

import GrolProofs.MapSpec
/-
The two Go representations refine the reference finite map: on a sorted list both `SmallMap.get`
(linear scan) and `BigMap.get` (`slices.BinarySearchFunc`) return `specGet` (value if present, and
the lower bound index), and updating / inserting / deleting at that index is `Spec.insert` /
`Spec.erase`.
-/
namespace Grol.Map
open Grol.Ord

variable {κ ν : Type}

section
variable (c : κ → κ → Int) (hc : ∀ a, PW c a)
include hc

/-! ### lower bound facts -/

omit hc in
theorem lb_le (key : κ) (l : List (κ × ν)) : lb c key l ≤ l.length := by
  induction l with
  | nil => simp [lb]
  | cons p rest ih => obtain ⟨k, v⟩ := p; simp only [lb]; split <;> simp <;> omega

omit hc in
/-- below the lower bound every key is below `key` -/
theorem lb_below (key : κ) (l : List (κ × ν)) : ∀ h, h < lb c key l → ∃ p, l[h]? = some p ∧ c p.1 key = -1 := by
  induction l with
  | nil => intro h hh; simp [lb] at hh
  | cons p rest ih =>
    obtain ⟨k, v⟩ := p
    intro h hh
    simp only [lb] at hh
    split at hh
    · cases h with
      | zero => exact ⟨(k, v), by simp, by assumption⟩
      | succ h' =>
        obtain ⟨p, hp1, hp2⟩ := ih h' (by omega)
        exact ⟨p, by simpa using hp1, hp2⟩
    · omega

/-- from the lower bound on no key is below `key` (needs sortedness) -/
theorem lb_above (key : κ) (l : List (κ × ν)) (hs : Sorted c l) :
    ∀ h p, lb c key l ≤ h → l[h]? = some p → ¬ c p.1 key < 0 := by
  induction l with
  | nil => intro h p _ hp; simp at hp
  | cons q rest ih =>
    obtain ⟨k, v⟩ := q
    have hq := List.pairwise_cons.1 hs
    intro h p hh hp
    simp only [lb] at hh
    split at hh
    · cases h with
      | zero => omega
      | succ h' => exact ih hq.2 h' p (by omega) (by simpa using hp)
    · rename_i hk
      have sk := (hc k).sign key
      cases h with
      | zero =>
        simp at hp; subst hp; simp; omega
      | succ h' =>
        have hmem : p ∈ rest := by
          simp at hp
          exact List.mem_of_getElem? hp
        have h1 : c k p.1 = -1 := hq.1 p hmem
        intro hlt
        have sp := (hc p.1).sign key
        have := (hc k).lt p.1 key h1 (by omega)
        omega

/-! ### the two searches -/

/-- `SmallMap.get` = `specGet` (shifted by the start index) -/
theorem smallGet_eq (key : κ) (l : List (κ × ν)) : ∀ i0,
    smallGet c key l i0 = ((specGet c key l).1, i0 + (specGet c key l).2) := by
  induction l with
  | nil => intro i0; simp [smallGet, specGet, lb]
  | cons p rest ih =>
    obtain ⟨k, v⟩ := p
    intro i0
    have sk := (hc k).sign key
    simp only [smallGet]
    by_cases h1 : c k key = 1
    · rw [if_pos h1]
      simp [specGet, lb, h1]
    · rw [if_neg h1]
      by_cases h0 : c k key = 0
      · rw [if_pos h0]
        simp [specGet, lb, h0]
      · rw [if_neg h0, ih (i0 + 1)]
        have hlt : c k key = -1 := by omega
        simp only [specGet, lb, hlt, if_true, List.getElem?_cons_succ]
        congr 1
        omega

/-- the loop of `slices.BinarySearchFunc` returns the lower bound -/
theorem bsearch_eq (key : κ) (l : List (κ × ν)) (hs : Sorted c l) :
    ∀ fuel i j, i ≤ lb c key l → lb c key l ≤ j → j ≤ l.length → j - i < fuel →
      bsearch c key l fuel i j = lb c key l := by
  intro fuel
  induction fuel with
  | zero => intro i j _ _ _ h; omega
  | succ fuel ih =>
    intro i j hi hj hlen hf
    simp only [bsearch]
    by_cases hij : i < j
    · rw [if_pos hij]
      have hh : (i + j) / 2 < l.length := by omega
      have hget : l[(i + j) / 2]? = some l[(i + j) / 2] := List.getElem?_eq_getElem hh
      generalize l[(i + j) / 2] = p at hget
      obtain ⟨k, v⟩ := p
      rw [hget]
      simp only []
      by_cases hlt : c k key < 0
      · rw [if_pos hlt]
        have : (i + j) / 2 < lb c key l := by
          apply Classical.byContradiction
          intro hn
          exact lb_above c hc key l hs _ _ (by omega) hget hlt
        exact ih _ _ (by omega) hj hlen (by omega)
      · rw [if_neg hlt]
        have : lb c key l ≤ (i + j) / 2 := by
          apply Classical.byContradiction
          intro hn
          obtain ⟨p, hp1, hp2⟩ := lb_below c key l ((i + j) / 2) (by omega)
          rw [hget] at hp1
          injection hp1 with hp1
          subst hp1
          simp at hp2
          omega
        exact ih _ _ hi this (by omega) (by omega)
    · rw [if_neg hij]; omega

/-- `BigMap.get` = `specGet` -/
theorem bigGet_eq (key : κ) (l : List (κ × ν)) (hs : Sorted c l) : bigGet c key l = specGet c key l := by
  unfold bigGet specGet
  rw [bsearch_eq c hc key l hs (l.length + 1) 0 l.length (by omega) (lb_le c key l) (by omega) (by omega)]
  simp only []
  cases l[lb c key l]? with
  | none => rfl
  | some p =>
    obtain ⟨k, v⟩ := p
    simp only []
    split <;> rfl

/-! ### the index `specGet` returns is where the reference map inserts / erases -/

theorem specGet_spec (key : κ) (l : List (κ × ν)) (hs : Sorted c l) :
    (specGet c key l).1 = Spec.lookup c key l
    ∧ (∀ v, (specGet c key l).1 ≠ none → setVal l (specGet c key l).2 v = Spec.insert c key v l)
    ∧ ((specGet c key l).1 ≠ none → l.eraseIdx (specGet c key l).2 = Spec.erase c key l)
    ∧ (∀ v, (specGet c key l).1 = none → insertAt l (specGet c key l).2 (key, v) = Spec.insert c key v l)
    ∧ ((specGet c key l).1 = none → Spec.erase c key l = l) := by
  induction l with
  | nil => simp [specGet, lb, Spec.lookup, Spec.insert, Spec.erase, insertAt]
  | cons p rest ih =>
    obtain ⟨k, v0⟩ := p
    have hq := List.pairwise_cons.1 hs
    have sk := (hc k).sign key
    rcases sk with h | h | h
    · -- below: continue in the rest
      have e : specGet c key ((k, v0) :: rest) = ((specGet c key rest).1, (specGet c key rest).2 + 1) := by
        simp [specGet, lb, h]
      obtain ⟨i1, i2, i3, i4, i5⟩ := ih hq.2
      rw [e]
      refine ⟨?_, ?_, ?_, ?_, ?_⟩
      · simp [Spec.lookup, h, i1]
      · intro v hv
        simp [setVal, Spec.insert, h, i2 v hv]
      · intro hv
        simp [Spec.erase, h, i3 hv]
      · intro v hv
        have := i4 v hv
        simp only [insertAt] at this
        simp [insertAt, Spec.insert, h, this]
      · intro hv
        simp [Spec.erase, h, i5 hv]
    · -- found
      have e : specGet c key ((k, v0) :: rest) = (some v0, 0) := by simp [specGet, lb, h]
      rw [e]
      simp [Spec.lookup, Spec.insert, Spec.erase, setVal, h]
    · -- above: not present
      have e : specGet c key ((k, v0) :: rest) = (none, 0) := by simp [specGet, lb, h]
      have hab := above_of_sorted c hc key k v0 rest hs h
      rw [e]
      refine ⟨?_, ?_, ?_, ?_, ?_⟩
      · simp [Spec.lookup, h, lookup_none_of_above c key rest hab]
      · simp
      · simp
      · intro v _
        simp [insertAt, Spec.insert, h]
      · intro _
        apply erase_id_of_above c key
        intro q hq'
        simp at hq'
        rcases hq' with rfl | hq'
        · exact h
        · exact hab q hq'

end

end Grol.Map

import GrolProofs.PrintFrame
import Grol.LitFact
/-
C03 (3), second half: the byte before the final newline of a normal-mode program text is not a newline,
given the lexer fact that the literals of the tokens printed last by a node are non-empty and do not end
in a newline (`endOK`).  Together with `printProgram_ends_with_newline`: exactly one trailing newline.
-/
namespace Grol.Printer
open Grol.Generated Grol.Wire

mutual
/-- the token literals a node prints LAST (along its right-most spine) satisfy `litOK`; nodes that end with a
closing delimiter or a quoted string need nothing -/
def endOK : Node → Bool
  | .ident t | .intLit t | .floatLit t | .boolean t | .control t | .comment t _ _ | .post t _ => litOK t
  | .strLit _ => true
  | .ret t v => match v with
    | none => litOK t
    | some v => endOK v
  | .pre _ r => endOKO r
  | .infix t _ r => match r with
    | none => litOK t
    | some r => endOK r
  | .ifE _ _ _ b => endOKS b          -- `else if`: the nested `if` is printed last
  | .index _ _ i => endOKO i          -- `a.b`
  | .forE .. | .builtin .. | .func .. | .call .. | .array .. | .mapLit .. | .macroLit .. => true
def endOKO : Option Node → Bool
  | none => true
  | some n => endOK n
def endOKL : List (Option Node) → Bool
  | [] => true
  | x :: xs => endOKO x && endOKL xs
def endOKS : Option (List (Option Node)) → Bool
  | none => true
  | some l => endOKL l
end

/-- the last byte written is not a newline -/
def P (ps : PrintState) : Prop := ∃ b, ps.out.head? = some b ∧ b ≠ 10

theorem print_out (ps : PrintState) (b : Bytes) : ∃ x, (ps.print b).out = b.reverse ++ x := by
  unfold PrintState.print PrintState.write; dsimp only; split <;> exact ⟨_, rfl⟩

theorem P_print (ps : PrintState) (b : Bytes) (h1 : b ≠ []) (h2 : b.getLast? ≠ some 10) : P (ps.print b) := by
  obtain ⟨x, hx⟩ := print_out ps b
  unfold P; rw [hx]
  cases hb : b.reverse with
  | nil => simp at hb; exact absurd hb h1
  | cons c cs =>
    refine ⟨c, by simp, ?_⟩
    have : b.getLast? = some c := by
      have := congrArg List.head? hb
      simpa [List.head?_reverse] using this
    intro hc; subst hc; exact h2 this

theorem P_print1 (ps : PrintState) (c : UInt8) (h : c ≠ 10) : P (ps.print [c]) :=
  P_print ps [c] (by simp) (by simpa using h)

theorem P_print_lit (ps : PrintState) (t : Tk) (h : litOK t = true) : P (ps.print t.lit) := by
  unfold litOK at h
  simp only [Bool.and_eq_true, Bool.not_eq_true', bne_iff_ne, ne_eq] at h
  exact P_print ps t.lit (by intro e; simp [e] at h) h.2

theorem P_ite_paren (c : Prop) [Decidable c] (ps : PrintState) (h : P ps) : P (if c then ps.print [41] else ps) := by
  split
  · exact P_print1 _ _ (by decide)
  · exact h

theorem P_with_prec (ps : PrintState) (x : Nat) (h : P ps) : P { ps with exprPrec := x } := h


theorem printBlock_P (tbl : Nat → Bool) (l : List (Option Node)) (ps ps' : PrintState) (h : printBlock tbl l ps = .ok ps')
    (hl : 0 < ps.indentLevel) : P ps' := by
  unfold printBlock at h; dsimp only at h
  split at h
  · cases h
  · next ps2 heq =>
    have f := printStmtLoop_frame tbl l _ _ _ heq
    cases h
    unfold Frame at f
    simp at f
    have : ps2.println.indentLevel - 1 > 0 := by simp [f.1]; omega
    simp only [this, if_true]
    exact P_print1 _ _ (by decide)

theorem printStmts_P (tbl : Nat → Bool) (b : Option (List (Option Node))) (ps ps' : PrintState) (h : printStmts tbl b ps = .ok ps')
    (hl : 0 < ps.indentLevel) : P ps' := by
  cases b with
  | none => unfold printStmts at h; cases h
  | some l => unfold printStmts at h; exact printBlock_P tbl l _ _ h hl


theorem quote_P (tbl : Nat → Bool) (ps : PrintState) (b : Bytes) : P (ps.print (quote tbl b)) := by
  apply P_print
  · unfold quote; simp
  · unfold quote; rw [List.getLast?_concat]; decide

/-- indentation level bookkeeping from `Frame` facts -/
macro "lvl" : tactic => `(tactic| (simp only [Frame] at *; simp at *; omega))

theorem P_with (ps : PrintState) (x : Nat) : P { ps with exprPrec := x } ↔ P ps := Iff.rfl

mutual

theorem printNode_P (tbl : Nat → Bool) : ∀ (n : Node) (ps ps' : PrintState), printNode tbl n ps = .ok ps' → endOK n = true →
    0 < ps.indentLevel → P ps'
  | .ident t, ps, ps', h, he, _ | .intLit t, ps, ps', h, he, _ | .floatLit t, ps, ps', h, he, _
  | .boolean t, ps, ps', h, he, _ | .control t, ps, ps', h, he, _ | .comment t _ _, ps, ps', h, he, _ => by
    unfold printNode at h; cases h; exact P_print_lit _ _ (by simpa [endOK] using he)
  | .strLit t, ps, ps', h, _, _ => by unfold printNode at h; cases h; exact quote_P _ _ _
  | .ret t none, ps, ps', h, he, _ => by
    unfold printNode at h; cases h; exact P_print_lit _ _ (by simpa [endOK] using he)
  | .ret t (some v), ps, ps', h, he, hl => by
    unfold printNode at h
    exact printNode_P tbl v _ _ h (by simpa [endOK] using he) (by simpa using hl)
  | .pre _ r, ps, ps', h, he, hl => by
    unfold printNode at h; dsimp only at h
    split at h
    · cases h
    · next psr heq =>
      have p := printO_P tbl r _ _ heq (by simpa [endOK] using he) (by split <;> (try split) <;> simpa using hl)
      cases h
      exact P_ite_paren _ _ ((P_with _ _).mpr p)
  | .post t p, ps, ps', h, he, hl => by
    unfold printNode at h
    split at h
    · cases h
    · cases h
      rw [P_with]
      split
      · exact P_print1 _ _ (by decide)
      · exact P_print_lit _ _ (by simpa [endOK] using he)
  | .infix t l none, ps, ps', h, he, hl => by
    unfold printNode at h
    split at h
    · cases h
    · dsimp only at h
      split at h
      · cases h
      · cases h
        rw [P_with]
        simp only [Option.isSome_none, Bool.and_false, Bool.false_eq_true, if_false, Option.isNone_none, Bool.or_true, if_true]
        exact P_print_lit _ _ (by simpa [endOK] using he)
  | .infix t l (some r), ps, ps', h, he, hl => by
    unfold printNode at h
    split at h
    · cases h
    · next _ _ _ heq =>
      have f := needParen_frame heq
      dsimp only at h
      split at h
      · cases h
      · next _ heq2 =>
        have f2 := printO_frame tbl l _ _ heq2
        split at h
        · cases h
        · next _ heq3 =>
          have p := printNode_P tbl r _ _ heq3 (by simpa [endOK] using he)
            (by (repeat' split) <;> lvl)
          cases h
          rw [P_with]
          exact P_ite_paren _ _ p
  | .forE _ c b, ps, ps', h, he, hl => by
    unfold printNode at h
    split at h
    · cases h
    · next _ heq =>
      have f := printO_frame tbl c _ _ heq
      exact printStmts_P tbl b _ _ h (by (repeat' split) <;> lvl)
  | .ifE _ c a none, ps, ps', h, he, hl => by
    unfold printNode at h
    split at h
    · cases h
    · next _ heq =>
      have f := printO_frame tbl c _ _ heq
      split at h
      · cases h
      · next _ heq2 =>
        have p := printStmts_P tbl a _ _ heq2 (by (repeat' split) <;> lvl)
        cases h; exact p
  | .ifE _ c a (some l), ps, ps', h, he, hl => by
    unfold printNode at h
    split at h
    · cases h
    · next _ heq =>
      have f := printO_frame tbl c _ _ heq
      split at h
      · cases h
      · next psA heq2 =>
        have f2 := printStmts_frame tbl a _ _ heq2
        dsimp only at h
        have pe : P (if psA.compact = true then psA.print [101, 108, 115, 101] else psA.print [32, 101, 108, 115, 101, 32]) := by
          split <;> exact P_print _ _ (by decide) (by decide)
        have hlv : 0 < (if psA.compact = true then psA.print [101, 108, 115, 101] else psA.print [32, 101, 108, 115, 101, 32]).indentLevel := by
          (repeat' split) <;> lvl
        generalize (if psA.compact = true then psA.print [101, 108, 115, 101] else psA.print [32, 101, 108, 115, 101, 32]) = pse at h pe hlv
        split at h
        · cases h
        · refine printHead_P tbl _ l _ _ h (by simpa [endOK, endOKS] using he) ?_ ?_
          · split <;> simpa using hlv
          · split
            · exact P_print1 _ 32 (by decide)
            · exact pe
        · exact printBlock_P tbl l _ _ h hlv
  | .builtin _ params, ps, ps', h, he, hl => by
    unfold printNode at h
    split at h
    · cases h
    · cases h; exact P_print1 _ _ (by decide)
  | .func _ name params body _ isLambda, ps, ps', h, he, hl => by
    unfold printNode at h
    split at h
    · dsimp only at h
      split at h
      · cases h
      · next _ heq =>
        have f := printList_frame tbl params _ _ _ heq
        split at h
        · cases h
        · next psB heq2 =>
          have p := printStmts_P tbl body _ _ heq2 (by (repeat' split) <;> lvl)
          cases h
          exact P_ite_paren _ _ p
    · dsimp only at h
      split at h
      · cases h
      · next _ heq =>
        have f := printList_frame tbl params _ _ _ heq
        exact printStmts_P tbl body _ _ h (by cases name <;> (repeat' split) <;> lvl)
  | .call _ fn args, ps, ps', h, he, hl => by
    unfold printNode at h; dsimp only at h
    split at h
    · cases h
    · split at h
      · cases h
      · cases h; exact P_print1 _ _ (by decide)
  | .array _ es, ps, ps', h, he, hl => by
    unfold printNode at h
    split at h
    · cases h
    · cases h; exact P_print1 _ _ (by decide)
  | .index t l i, ps, ps', h, he, hl => by
    unfold printNode at h
    split at h
    · cases h
    · next _ _ _ heq =>
      have f := needParen_frame heq
      dsimp only at h
      split at h
      · cases h
      · next _ heq2 =>
        have f2 := printO_frame tbl l _ _ heq2
        split at h
        · cases h
        · next psI heq3 =>
          have p := printO_P tbl i _ _ heq3 (by simpa [endOK] using he) (by (repeat' split) <;> lvl)
          cases h
          rw [P_with]
          apply P_ite_paren
          split
          · exact P_print1 _ _ (by decide)
          · exact P_ite_paren _ _ p
  | .mapLit _ kvs, ps, ps', h, he, hl => by
    unfold printNode at h; dsimp only at h
    split at h
    · cases h
    · cases h; exact P_print1 _ _ (by decide)
  | .macroLit _ params body, ps, ps', h, he, hl => by
    unfold printNode at h
    split at h
    · cases h
    · next _ heq =>
      have f := printList_frame tbl params _ _ _ heq
      exact printStmts_P tbl body _ _ h (by (repeat' split) <;> lvl)

theorem printO_P (tbl : Nat → Bool) : ∀ (o : Option Node) (ps ps' : PrintState), printO tbl o ps = .ok ps' → endOKO o = true →
    0 < ps.indentLevel → P ps'
  | none, _, _, h, _, _ => by unfold printO at h; cases h
  | some n, ps, ps', h, he, hl => by unfold printO at h; exact printNode_P tbl n _ _ h (by simpa [endOKO] using he) hl

theorem printHead_P (tbl : Nat → Bool) (sk : Bool) : ∀ (l : List (Option Node)) (ps ps' : PrintState), printHead tbl sk l ps = .ok ps' →
    endOKL l = true → 0 < ps.indentLevel → P ps → P ps'
  | [], _, _, h, _, _, p => by unfold printHead at h; cases h; exact p
  | x :: xs, ps, ps', h, he, hl, p => by
    simp only [endOKL, Bool.and_eq_true] at he
    unfold printHead at h
    split at h
    · exact printHead_P tbl sk xs _ _ h he.2 hl p
    · exact printO_P tbl x _ _ h he.1 hl

end

end Grol.Printer

namespace Grol.Printer
open Grol.Generated Grol.Wire

theorem P.toQ {ps : PrintState} (h : P ps) : ps.out.head? ≠ some 10 := by
  obtain ⟨b, hb, hne⟩ := h
  rw [hb]; intro e; cases e; exact hne rfl

theorem printStmtLoop_Q (tbl : Nat → Bool) : ∀ (l : List (Option Node)) (ps : PrintState) (i : Nat) (ps' : PrintState),
    printStmtLoop tbl l ps i = .ok ps' → ps.compact = false → 0 < ps.indentLevel → endOKL l = true →
    ps.out.head? ≠ some 10 → ps'.out.head? ≠ some 10
  | [], ps, i, ps', h, _, _, _, q => by unfold printStmtLoop at h; cases h; exact q
  | x :: xs, ps, i, ps', h, hc, hl, he, q => by
    simp only [endOKL, Bool.and_eq_true] at he
    unfold printStmtLoop at h
    simp only [hc, Bool.false_and, Bool.false_eq_true, if_false] at h
    split at h
    · cases h
    · next ps2 heq =>
      have f := longFormSep_frame ps x i
      have f2 := printO_frame tbl x _ _ heq
      have p := printO_P tbl x _ _ heq he.1 (by lvl)
      refine printStmtLoop_Q tbl xs _ _ _ h ?_ ?_ he.2 p.toQ
      · simp only [Frame] at *; simp at *; simp [f2.2, f.2, hc]
      · lvl

/-- **C03 (3)**: given the lexer fact `endOKL prog` (token literals printed last are non-empty and do not end in
a newline), the normal-mode text of a program is `body ++ "\n"` where `body` does not end in a newline:
exactly one trailing newline. -/
theorem printProgram_exactly_one_newline (tbl : Nat → Bool) (prog : NList) (allParens : Bool) (out : Bytes)
    (h : printProgram tbl prog false allParens = .ok out) (he : endOKL prog = true) :
    ∃ body, out = body ++ [10] ∧ body.getLast? ≠ some 10 := by
  unfold printProgram at h
  split at h
  · cases h
  · next ps heq =>
    cases h
    unfold printStmts printBlock at heq
    dsimp only at heq
    split at heq
    · cases heq
    · next ps2 hloop =>
      have f := printStmtLoop_frame tbl prog _ _ _ hloop
      have q := printStmtLoop_Q tbl prog _ _ _ hloop (by simp) (by simp) he (by simp)
      unfold Frame at f
      simp at f
      cases heq
      refine ⟨ps2.out.reverse, ?_, ?_⟩
      · simp [PrintState.println, PrintState.write, f.1, f.2]
      · rw [List.getLast?_reverse]; exact q

end Grol.Printer

import GrolProofs.RenQHelpers
import GrolProofs.RenMain
/-
C04 (B1), part 4: the mutually recursive tree walker in the quiet simulation, by induction on the fuel.
-/
namespace Grol.R
open Grol.E

def QEx (P : Qp) : Except Obj (List Obj) → Except Obj (List Obj) → Prop := fun a b =>
  a = renEx P.σ b ∧ (∀ l, b = .ok l → cleanL P l) ∧ ∀ e, b = .error e → clean P e

/-- the statement proved for every function of the mutual block, at a given fuel, inside the body of the quiet
call (`¬ P.pre`: the current frame is the quiet frame): from related states, on renamed clean arguments, if run T
ends normally without moving the counter of the quiet frame, run S ends normally, in a related state, with
the renamed result, which is clean -/
structure QSpec (fuel : Nat) : Prop where
  eval : ∀ P : Qp, ¬ P.pre → ∀ node s t, StRq P s t → SimQ P (eval fuel node) (eval fuel node) s t (QOq P)
  evalI : ∀ P : Qp, ¬ P.pre → ∀ node s t, StRq P s t → SimQ P (evalI fuel node) (evalI fuel node) s t (QOq P)
  evalStatements : ∀ P : Qp, ¬ P.pre → ∀ l res s t, StRq P s t → clean P res →
    SimQ P (evalStatements fuel l (ren P.σ res)) (evalStatements fuel l res) s t (QOq P)
  evalExpressions : ∀ P : Qp, ¬ P.pre → ∀ l acc s t, StRq P s t → cleanL P acc →
    SimQ P (evalExpressions fuel l (renL P.σ acc)) (evalExpressions fuel l acc) s t (QEx P)
  evalAssignment : ∀ P : Qp, ¬ P.pre → ∀ right op left s t, StRq P s t → clean P right →
    SimQ P (evalAssignment fuel (ren P.σ right) op left) (evalAssignment fuel right op left) s t (QOq P)
  evalIf : ∀ P : Qp, ¬ P.pre → ∀ c cons alt s t, StRq P s t →
    SimQ P (evalIf fuel c cons alt) (evalIf fuel c cons alt) s t (QOq P)
  evalFor : ∀ P : Qp, ¬ P.pre → ∀ c body s t, StRq P s t → SimQ P (evalFor fuel c body) (evalFor fuel c body) s t (QOq P)
  evalForLoop : ∀ P : Qp, ¬ P.pre → ∀ c body last s t, StRq P s t → clean P last →
    SimQ P (evalForLoop fuel c body (ren P.σ last)) (evalForLoop fuel c body last) s t (QOq P)
  evalForSpecialForms : ∀ P : Qp, ¬ P.pre → ∀ c body s t, StRq P s t →
    SimQ P (evalForSpecialForms fuel c body) (evalForSpecialForms fuel c body) s t (QOptq P)
  evalForInteger : ∀ P : Qp, ¬ P.pre → ∀ body i endV name last s t, StRq P s t → clean P last →
    SimQ P (evalForInteger fuel body i endV name (ren P.σ last)) (evalForInteger fuel body i endV name last) s t (QOq P)
  evalForList : ∀ P : Qp, ¬ P.pre → ∀ body list name last s t, StRq P s t → clean P list → clean P last →
    SimQ P (evalForList fuel body (ren P.σ list) name (ren P.σ last)) (evalForList fuel body list name last) s t (QOq P)
  evalBuiltin : ∀ P : Qp, ¬ P.pre → ∀ tk ps s t, StRq P s t →
    SimQ P (evalBuiltin fuel tk ps) (evalBuiltin fuel tk ps) s t (QOq P)
  evalPrint : ∀ P : Qp, ¬ P.pre → ∀ tk ps first buf s t, StRq P s t →
    SimQ P (evalPrint fuel tk ps first buf) (evalPrint fuel tk ps first buf) s t (QOq P)
  evalDelete : ∀ P : Qp, ¬ P.pre → ∀ node s t, StRq P s t →
    SimQ P (evalDelete fuel node) (evalDelete fuel node) s t (QOq P)
  evalIndexExpression : ∀ P : Qp, ¬ P.pre → ∀ left tok i s t, StRq P s t → clean P left →
    SimQ P (evalIndexExpression fuel (ren P.σ left) tok i) (evalIndexExpression fuel left tok i) s t (QOq P)
  evalIndexRange : ∀ P : Qp, ¬ P.pre → ∀ left li ri s t, StRq P s t → clean P left →
    SimQ P (evalIndexRange fuel (ren P.σ left) li ri) (evalIndexRange fuel left li ri) s t (QOq P)
  evalMapLiteral : ∀ P : Qp, ¬ P.pre → ∀ ks vs big acc s t, StRq P s t → cleanP P acc →
    SimQ P (evalMapLiteral fuel ks vs big (renP P.σ acc)) (evalMapLiteral fuel ks vs big acc) s t (QOq P)
  applyExtension : ∀ P : Qp, ¬ P.pre → ∀ name args s t, StRq P s t →
    SimQ P (applyExtension fuel name (renL P.σ args)) (applyExtension fuel name args) s t (QOq P)
  /-- also outside the body (`P.pre`): the call the theorem is about -/
  applyFunction : ∀ P : Qp, ∀ fn args s t, StRq P s t → cleanL P args →
    SimQ P (applyFunction fuel (ren P.σ fn) (renL P.σ args)) (applyFunction fuel fn args) s t (QOq P)

theorem qSpec_zero : QSpec 0 := by
  constructor
  all_goals intros
  all_goals first
    | (unfold Grol.E.eval; exact SimQ.stop)
    | (unfold Grol.E.evalI; exact SimQ.stop)
    | (unfold Grol.E.evalStatements; exact SimQ.stop)
    | (unfold Grol.E.evalExpressions; exact SimQ.stop)
    | (unfold Grol.E.evalAssignment; exact SimQ.stop)
    | (unfold Grol.E.evalIf; exact SimQ.stop)
    | (unfold Grol.E.evalFor; exact SimQ.stop)
    | (unfold Grol.E.evalForLoop; exact SimQ.stop)
    | (unfold Grol.E.evalForSpecialForms; exact SimQ.stop)
    | (unfold Grol.E.evalForInteger; exact SimQ.stop)
    | (unfold Grol.E.evalForList; exact SimQ.stop)
    | (unfold Grol.E.evalBuiltin; exact SimQ.stop)
    | (unfold Grol.E.evalPrint; exact SimQ.stop)
    | (unfold Grol.E.evalDelete; exact SimQ.stop)
    | (unfold Grol.E.evalIndexExpression; exact SimQ.stop)
    | (unfold Grol.E.evalIndexRange; exact SimQ.stop)
    | (unfold Grol.E.evalMapLiteral; exact SimQ.stop)
    | (unfold Grol.E.applyExtension; exact SimQ.stop)
    | (unfold Grol.E.applyFunction; exact SimQ.stop)

/-- a clean value: a hypothesis, or trivially so -/
macro "cln" : tactic => `(tactic| first | assumption | trivial)

macro "qopt" : tactic => `(tactic| exact ⟨rfl, fun w h => by cases h <;> first | assumption | trivial⟩)

theorem SimQ.set_bind {P : Qp} {f : Unit → M γ} {g : Unit → M δ} {s t s1 t1 : St}
    {Q' : γ → δ → Prop} (hf : t1.frames = t.frames) (h : SimQ P (f ()) (g ()) s1 t1 Q') :
    SimQ P (set s1 >>= f) (set t1 >>= g) s t Q' := SimG.set_bind hf h

theorem SimQ.modify_bind {P : Qp} {f : Unit → M γ} {g : Unit → M δ} {s t : St}
    {ms mt : St → St} {Q' : γ → δ → Prop} (hf : (mt t).frames = t.frames) (h : SimQ P (f ()) (g ()) (ms s) (mt t) Q') :
    SimQ P (modify ms >>= f) (modify mt >>= g) s t Q' := SimG.modify_bind hf h

/-- the last step of `Eval`: one reference level is resolved -/
theorem qsim_deref1 {P : Qp} {s t : St} (hR : StRq P s t) (r : Obj) (hc : clean P r) :
    SimQ P (match ren P.σ r with | .ref e n => refValue e n | r => pure r)
      (match r with | .ref e n => refValue e n | r => pure r) s t (QOq P) := by
  cases r with
  | ref e n => exact (qsim_refValue hR e n hc).mono (fun _ _ h => ⟨h.1, h.2.1⟩)
  | _ => all_goals exact SimQ.pure hR ⟨rfl, hc⟩

/-- the end of `Eval`: return values are unwrapped, then one reference level is resolved -/
theorem qsim_evalTail {P : Qp} {s t : St} (hR : StRq P s t) (result : Obj) (hc : clean P result) :
    SimQ P
      (match ren P.σ result with
      | .ret v kind =>
        if (kind != "RETURN") = true then do
          let result ← pure (err "unexpected control type outside of for loops")
          match result with
            | .ref e n => refValue e n
            | r => pure r
        else do
          let result ← pure v
          match result with
            | .ref e n => refValue e n
            | r => pure r
      | r => do
        let result ← pure r
        match result with
          | .ref e n => refValue e n
          | r => pure r)
      (match result with
      | .ret v kind =>
        if (kind != "RETURN") = true then do
          let result ← pure (err "unexpected control type outside of for loops")
          match result with
            | .ref e n => refValue e n
            | r => pure r
        else do
          let result ← pure v
          match result with
            | .ref e n => refValue e n
            | r => pure r
      | r => do
        let result ← pure r
        match result with
          | .ref e n => refValue e n
          | r => pure r) s t (QOq P) := by
  cases result with
  | ret v kind =>
    simp only [ren]
    refine SimQ.ite (fun _ => ?_) (fun _ => ?_)
    · refine SimQ.bind_read (runM_pure _ s) (runM_pure _ t) ?_
      exact qsim_deref1 hR (err "unexpected control type outside of for loops") trivial
    · refine SimQ.bind_read (runM_pure _ s) (runM_pure _ t) ?_
      exact qsim_deref1 hR v hc
  | ref e n =>
    refine SimQ.bind_read (runM_pure _ s) (runM_pure _ t) ?_
    exact qsim_deref1 hR (.ref e n) hc
  | _ =>
    all_goals
      refine SimQ.bind_read (runM_pure _ s) (runM_pure _ t) ?_
      exact SimQ.pure hR ⟨rfl, hc⟩

theorem eval_qstep {P : Qp} {fuel : Nat} (ih : QSpec fuel) (hp : ¬ P.pre) :
    ∀ node s t, StRq P s t → SimQ P (eval (fuel + 1) node) (eval (fuel + 1) node) s t (QOq P) := by
  intro node s t hR
  have hT := allTr fuel
  unfold Grol.E.eval
  refine SimQ.bind_read (runM_get s) (runM_get t) ?_
  dsimp only
  rw [hR.depth, hR.cfg]
  refine SimQ.ite (fun _ => SimQ.stop_bind) (fun _ => ?_)
  refine SimQ.set_bind rfl ?_
  refine SimQ.bind (ih.evalI P hp node _ _ { hR with depth := rfl, cfg := rfl }) ?_
  rintro _ result s1 t1 hR1 ⟨rfl, hc⟩
  refine SimQ.modify_bind rfl ?_
  have hR2 : StRq P { s1 with depth := s1.depth - 1 } { t1 with depth := t1.depth - 1 } :=
    { hR1 with depth := by simp only [hR1.depth] }
  exact qsim_evalTail hR2 result hc

theorem qsim_envSet' {P : Qp} {s t : St} (hR : StRq P s t) (e : Nat) (name : String) {a val : Obj}
    (ha : a = ren P.σ val) (he : P.σ.n0 ≤ e) (hq : e = P.e) (hcv : clean P val) :
    SimQ P (envSet (sh P.σ e) name a) (envSet e name val) s t (QOq P) := by
  subst ha; exact qsim_envSet hR e name val he hq hcv

theorem evalI_qstep {P : Qp} {fuel : Nat} (ih : QSpec fuel) (hp : ¬ P.pre) :
    ∀ node s t, StRq P s t → SimQ P (evalI (fuel + 1) node) (evalI (fuel + 1) node) s t (QOq P) := by
  intro node s t hR
  have hT := allTr fuel
  unfold Grol.E.evalI
  refine SimQ.bind_read (runM_get s) (runM_get t) ?_
  extract_lets jp
  have hjp : ∀ s0 t0, StRq P s0 t0 → SimQ P (jp ()) (jp ()) s0 t0 (QOq P) := by
    intro s0 t0 hR0
    obtain ⟨hce, hcn⟩ := hR0.curE hp
    unfold jp
    split
    · exact ih.evalStatements P hp _ .null _ _ hR0 trivial
    · exact ih.evalIf P hp _ _ _ _ _ hR0
    · exact ih.evalFor P hp _ _ _ _ hR0
    · exact qsim_evalIdentifier hR0 hp _
    · -- prefix
      refine SimQ.ite (fun _ => qsim_evalPrefixIncrDecr hR0 hp _ _) (fun _ => ?_)
      refine SimQ.bind (ih.eval P hp _ _ _ hR0) ?_
      rintro _ r s1 t1 hR1 ⟨rfl, hcr⟩
      rw [ren_isError, evalPrefixOp_ren]
      exact SimQ.ite (fun _ => SimQ.pure hR1 ⟨rfl, hcr⟩) (fun _ => SimQ.pure hR1 ⟨rfl, clean_evalPrefixOp _ hcr⟩)
    · exact qsim_evalPostfix hR0 hp _ _
    · -- infix
      next op l r =>
      refine SimQ.ite (fun _ => ?_) (fun _ => ?_)
      · refine SimQ.bind (ih.eval P hp _ _ _ hR0) ?_
        rintro _ right s1 t1 hR1 ⟨rfl, hcr⟩
        exact ih.evalAssignment P hp _ _ _ _ _ hR1 (by cln)
      · refine SimQ.bind (ih.eval P hp _ _ _ hR0) ?_
        rintro _ left s1 t1 hR1 ⟨rfl, hcl⟩
        rw [ren_isError]
        refine SimQ.ite (fun _ => SimQ.pure hR1 ⟨rfl, hcl⟩) (fun _ => ?_)
        extract_lets a1 a2 a3 a4 a5 a6
        have h1 : ∀ u s2 t2, StRq P s2 t2 → SimQ P (a1 u) (a4 u) s2 t2 (QOq P) := by
          intro u s2 t2 hR2
          unfold a1 a4
          refine SimQ.bind (ih.eval P hp _ _ _ hR2) ?_
          rintro _ right s3 t3 hR3 ⟨rfl, hcr⟩
          rw [ren_isError]
          refine SimQ.ite (fun _ => SimQ.pure hR3 ⟨rfl, hcr⟩) (fun _ => ?_)
          dsimp only
          cases left with
          | array els =>
            simp only [ren, renL_length]
            refine SimQ.bind_read (runM_get s3) (runM_get t3) ?_
            rw [hR3.cfg]
            refine qsim_noteHazard_bind hR3 _ _ _ (fun s4 t4 hR4 => ?_)
            have := qsim_evalInfixOp hR4 op (.array els) right hcl hcr
            simp only [ren] at this
            exact this
          | _ => all_goals exact qsim_evalInfixOp hR3 op _ right hcl hcr
        have h2 : ∀ u s2 t2, StRq P s2 t2 → SimQ P (a2 u) (a5 u) s2 t2 (QOq P) := by
          intro u s2 t2 hR2
          unfold a2 a5
          refine SimQ.ite (fun _ => ?_) (fun _ => h1 () _ _ hR2)
          cases left with
          | str x =>
            simp only [ren]
            exact SimQ.ite (fun _ => SimQ.stop_bind) (fun _ => h1 () _ _ hR2)
          | _ => all_goals exact h1 () _ _ hR2
        have h3 : ∀ u s2 t2, StRq P s2 t2 → SimQ P (a3 u) (a6 u) s2 t2 (QOq P) := by
          intro u s2 t2 hR2
          unfold a3 a6
          refine SimQ.ite (fun _ => ?_) (fun _ => h2 () _ _ hR2)
          cases left with
          | bool b => cases b <;> first | exact SimQ.pure hR2 ⟨rfl, trivial⟩ | exact h2 () _ _ hR2
          | _ => all_goals exact h2 () _ _ hR2
        refine SimQ.ite (fun _ => ?_) (fun _ => h3 () _ _ hR1)
        cases left with
        | bool b => cases b <;> first | exact SimQ.pure hR1 ⟨rfl, trivial⟩ | exact h3 () _ _ hR1
        | _ => all_goals exact h3 () _ _ hR1
    · exact SimQ.pure hR0 ⟨rfl, trivial⟩
    · exact SimQ.pure hR0 ⟨rfl, trivial⟩
    · exact SimQ.pure hR0 ⟨rfl, trivial⟩
    · exact SimQ.pure hR0 ⟨rfl, trivial⟩
    · exact SimQ.pure hR0 ⟨rfl, trivial⟩
    · -- return
      split
      · exact SimQ.pure hR0 ⟨rfl, trivial⟩
      · refine SimQ.bind (ih.evalI P hp _ _ _ hR0) ?_
        rintro _ v s1 t1 hR1 ⟨rfl, hcv⟩
        exact SimQ.pure hR1 ⟨rfl, hcv⟩
    · exact ih.evalBuiltin P hp _ _ _ _ hR0
    · -- function literal
      next name params variadic lambda key body =>
      refine qsim_curEnv_bind hR0 ?_
      dsimp only
      cases name with
      | some n =>
        dsimp only
        refine SimQ.bind (qsim_envSet' hR0 t0.cur n rfl hcn hce trivial) ?_
        rintro _ oerr s1 t1 hR1 ⟨rfl, hco⟩
        rw [ren_isError]
        exact SimQ.ite (fun _ => SimQ.pure hR1 ⟨rfl, hco⟩) (fun _ => SimQ.pure hR1 ⟨rfl, trivial⟩)
      | none => exact SimQ.pure hR0 ⟨rfl, trivial⟩
    · -- call
      refine SimQ.bind (ih.eval P hp _ _ _ hR0) ?_
      rintro _ f s1 t1 hR1 ⟨rfl, hcf⟩
      rw [ren_isError]
      refine SimQ.ite (fun _ => SimQ.pure hR1 ⟨rfl, hcf⟩) (fun _ => ?_)
      refine SimQ.bind (ih.evalExpressions P hp _ [] _ _ hR1 trivial) ?_
      rintro _ r s2 t2 hR2 ⟨rfl, hcl, hce'⟩
      cases r with
      | error e => exact SimQ.pure hR2 ⟨rfl, hce' e rfl⟩
      | ok argv =>
        simp only [renEx]
        cases f with
        | ext name => exact ih.applyExtension P hp _ _ _ _ hR2
        | _ => all_goals exact ih.applyFunction P _ _ _ _ hR2 (hcl argv rfl)
    · -- array literal
      refine SimQ.bind (ih.evalExpressions P hp _ [] _ _ hR0 trivial) ?_
      rintro _ r s1 t1 hR1 ⟨rfl, hcl, hce'⟩
      cases r with
      | error e => exact SimQ.pure hR1 ⟨rfl, hce' e rfl⟩
      | ok v =>
        simp only [renEx]
        refine SimQ.bind (qsim_derefList v s1 t1 hR1 (hcl v rfl)) ?_
        rintro _ vs s2 t2 hR2 ⟨rfl, hcvs⟩
        exact SimQ.pure hR2 ⟨rfl, hcvs⟩
    · -- map literal
      refine SimQ.bind_read (runM_get s0) (runM_get t0) ?_
      rw [hR0.cfg]
      exact ih.evalMapLiteral P hp _ _ _ [] _ _ hR0 trivial
    · -- index
      extract_lets jp1
      have h1 : ∀ u s1 t1, StRq P s1 t1 → SimQ P (jp1 u) (jp1 u) s1 t1 (QOq P) := by
        intro u s1 t1 hR1
        unfold jp1
        refine SimQ.bind (ih.eval P hp _ _ _ hR1) ?_
        rintro _ left s2 t2 hR2 ⟨rfl, hcl⟩
        exact ih.evalIndexExpression P hp _ _ _ _ _ hR2 hcl
      refine SimQ.ite (fun _ => ?_) (fun _ => h1 () _ _ hR0)
      refine SimQ.bind_read (runM_get s0) (runM_get t0) ?_
      rw [hR0.extNames]
      exact SimQ.ite (fun _ => SimQ.stop_bind) (fun _ => h1 () _ _ hR0)
    · exact SimQ.pure hR0 ⟨rfl, trivial⟩
    · exact SimQ.pure hR0 ⟨rfl, trivial⟩
    · exact SimQ.stop
  rw [hR.cfg, hR.steps]
  refine SimQ.set_bind rfl ?_
  split
  · exact SimQ.ite (fun _ => SimQ.pure { hR with steps := rfl, cfg := rfl } ⟨rfl, trivial⟩)
      (fun _ => hjp _ _ { hR with steps := rfl, cfg := rfl })
  · exact hjp _ _ { hR with steps := rfl, cfg := rfl }

theorem evalStatements_qstep {P : Qp} {fuel : Nat} (ih : QSpec fuel) (hp : ¬ P.pre) : ∀ l res s t, StRq P s t →
    clean P res →
    SimQ P (evalStatements (fuel + 1) l (ren P.σ res)) (evalStatements (fuel + 1) l res) s t (QOq P) := by
  intro l res s t hR hcres
  have hT := allTr fuel
  cases l with
  | nil =>
    unfold Grol.E.evalStatements
    exact SimQ.pure hR ⟨rfl, by cln⟩
  | cons stmt rest =>
    unfold Grol.E.evalStatements
    try dsimp only
    split
    · exact ih.evalStatements P hp _ _ _ _ hR hcres
    · refine SimQ.bind (ih.evalI P hp _ _ _ hR) ?_
      rintro _ r s1 t1 hR1 ⟨rfl, hcx⟩
      cases r with
      | ret v k => exact SimQ.pure hR1 ⟨rfl, by cln⟩
      | error m => exact SimQ.pure hR1 ⟨rfl, by cln⟩
      | _ => all_goals exact ih.evalStatements P hp _ _ _ _ hR1 (by cln)

theorem evalExpressions_qstep {P : Qp} {fuel : Nat} (ih : QSpec fuel) (hp : ¬ P.pre) : ∀ l acc s t, StRq P s t →
    cleanL P acc →
    SimQ P (evalExpressions (fuel + 1) l (renL P.σ acc)) (evalExpressions (fuel + 1) l acc) s t (QEx P) := by
  intro l acc s t hR hcacc
  have hT := allTr fuel
  cases l with
  | nil =>
    unfold Grol.E.evalExpressions
    refine SimQ.pure hR ⟨?_, fun l h => ?_, fun e h => (by cases h)⟩
    · simp only [renEx, renL_eq, List.map_reverse]
    · cases h
      rw [cleanL_iff] at *
      exact fun x hx => hcacc x (List.mem_reverse.1 hx)
  | cons e rest =>
    unfold Grol.E.evalExpressions
    refine SimQ.bind (ih.evalI P hp _ _ _ hR) ?_
    rintro _ v s1 t1 hR1 ⟨rfl, hcv⟩
    rw [ren_isError]
    refine SimQ.ite (fun _ => SimQ.pure hR1 ⟨rfl, fun l h => (by cases h), fun e h => (by cases h; exact hcv)⟩) (fun _ => ?_)
    have := ih.evalExpressions P hp rest (v :: acc) s1 t1 hR1 ⟨hcv, hcacc⟩
    simp only [renL] at this
    exact this

theorem evalAssignment_qstep {P : Qp} {fuel : Nat} (ih : QSpec fuel) (hp : ¬ P.pre) : ∀ right op left s t, StRq P s t →
    clean P right →
    SimQ P (evalAssignment (fuel + 1) (ren P.σ right) op left) (evalAssignment (fuel + 1) right op left) s t (QOq P) := by
  intro right op left s t hR hcr
  have hT := allTr fuel
  obtain ⟨hce, hcn⟩ := hR.curE hp
  unfold Grol.E.evalAssignment
  rw [ren_isError]
  refine SimQ.ite (fun _ => SimQ.pure hR ⟨rfl, by cln⟩) (fun _ => ?_)
  split
  · split
    · exact qsim_evalIndexAssignment hR hp _ (.str _) right trivial hcr
    · exact SimQ.pure hR ⟨rfl, by cln⟩
  · split
    · refine SimQ.bind (ih.eval P hp _ _ _ hR) ?_
      rintro _ index s1 t1 hR1 ⟨rfl, hci⟩
      exact qsim_evalIndexAssignment hR1 hp _ index right hci hcr
    · exact SimQ.pure hR ⟨rfl, by cln⟩
  · split
    · refine qsim_curEnv_bind hR ?_
      exact qsim_createOrSet hR t.cur _ right _ hcn (Or.inr hce) hcr
    · exact SimQ.pure hR ⟨rfl, by cln⟩
  · exact SimQ.pure hR ⟨rfl, by cln⟩

theorem evalIf_qstep {P : Qp} {fuel : Nat} (ih : QSpec fuel) (hp : ¬ P.pre) : ∀ c cons alt s t, StRq P s t →
    SimQ P (evalIf (fuel + 1) c cons alt) (evalIf (fuel + 1) c cons alt) s t (QOq P) := by
  intro c cons alt s t hR
  have hT := allTr fuel
  unfold Grol.E.evalIf
  refine SimQ.bind (ih.evalI P hp _ _ _ hR) ?_
  rintro _ cv s1 t1 hR1 ⟨rfl, hccv⟩
  refine SimQ.bind (qsim_valueOf hR1 cv hccv) ?_
  rintro _ condition s2 t2 hR2 ⟨rfl, _, _⟩
  cases condition with
  | bool b =>
    cases b with
    | true => exact ih.evalI P hp _ _ _ hR2
    | false =>
      simp only [ren]
      split
      · exact SimQ.pure hR2 ⟨rfl, by cln⟩
      · exact ih.evalI P hp _ _ _ hR2
  | _ => all_goals exact SimQ.pure hR2 ⟨rfl, by cln⟩

theorem evalFor_qstep {P : Qp} {fuel : Nat} (ih : QSpec fuel) (hp : ¬ P.pre) : ∀ c body s t, StRq P s t →
    SimQ P (evalFor (fuel + 1) c body) (evalFor (fuel + 1) c body) s t (QOq P) := by
  intro c body s t hR
  have hT := allTr fuel
  unfold Grol.E.evalFor
  refine SimQ.bind (ih.evalForSpecialForms P hp _ _ _ _ hR) ?_
  rintro _ r s1 t1 hR1 ⟨rfl, hc⟩
  cases r with
  | some v => exact SimQ.pure hR1 ⟨rfl, hc v rfl⟩
  | none => exact ih.evalForLoop P hp _ _ .null _ _ hR1 trivial

theorem evalForLoop_qstep {P : Qp} {fuel : Nat} (ih : QSpec fuel) (hp : ¬ P.pre) : ∀ c body last s t, StRq P s t →
    clean P last →
    SimQ P (evalForLoop (fuel + 1) c body (ren P.σ last)) (evalForLoop (fuel + 1) c body last) s t (QOq P) := by
  intro c body last s t hR hcl
  have hT := allTr fuel
  unfold Grol.E.evalForLoop
  refine SimQ.bind (ih.evalI P hp _ _ _ hR) ?_
  rintro _ cv s1 t1 hR1 ⟨rfl, hccv⟩
  refine SimQ.bind (qsim_valueOf hR1 cv hccv) ?_
  rintro _ condition s2 t2 hR2 ⟨rfl, _, hcc⟩
  cases condition with
  | bool b =>
    cases b with
    | true =>
      simp only [ren]
      refine SimQ.bind (ih.evalI P hp _ _ _ hR2) ?_
      rintro _ r s3 t3 hR3 ⟨rfl, hcx⟩
      cases r with
      | error m => exact SimQ.pure hR3 ⟨rfl, by cln⟩
      | ret v kind =>
        simp only [ren]
        refine SimQ.ite (fun _ => SimQ.pure hR3 ⟨rfl, by cln⟩) (fun _ => ?_)
        exact SimQ.ite (fun _ => ih.evalForLoop P hp _ _ _ _ _ hR3 (by cln)) (fun _ => SimQ.pure hR3 ⟨rfl, by cln⟩)
      | _ => all_goals exact ih.evalForLoop P hp _ _ _ _ _ hR3 (by cln)
    | false => exact SimQ.pure hR2 ⟨rfl, by cln⟩
  | null => exact SimQ.pure hR2 ⟨rfl, by cln⟩
  | error m => exact SimQ.pure hR2 ⟨rfl, by cln⟩
  | int n => exact ih.evalForInteger P hp _ _ _ _ .null _ _ hR2 trivial
  | _ => all_goals exact SimQ.pure hR2 ⟨rfl, by cln⟩

theorem qsim_someOf {P : Qp} {s t : St} {x y : M Obj} (h : SimQ P x y s t (QOq P)) (ty : Tr y) :
    SimQ P (x >>= fun a => pure (some a)) (y >>= fun a => pure (some a)) s t (QOptq P) := by
  refine SimQ.bind h ?_ ty
  rintro _ a s' t' hR' ⟨rfl, hc⟩
  exact SimQ.pure hR' ⟨rfl, fun v h => by cases h; exact hc⟩

theorem evalForSpecialForms_qstep {P : Qp} {fuel : Nat} (ih : QSpec fuel) (hp : ¬ P.pre) : ∀ c body s t, StRq P s t →
    SimQ P (evalForSpecialForms (fuel + 1) c body) (evalForSpecialForms (fuel + 1) c body) s t (QOptq P) := by
  intro c body s t hR
  have hT := allTr fuel
  have hnone : QOptq P none none := ⟨rfl, fun _ h => by cases h⟩
  have hsome : ∀ v, clean P v → QOptq P (some (ren P.σ v)) (some v) := fun v hv => ⟨rfl, fun w h => by cases h; exact hv⟩
  unfold Grol.E.evalForSpecialForms
  split
  · next op l r =>
    refine SimQ.ite (fun _ => SimQ.pure hR (by qopt)) (fun _ => ?_)
    split
    · next name =>
      split
      · next rl rr =>
        refine SimQ.bind (ih.evalI P hp _ _ _ hR) ?_
        rintro _ start0 s1 t1 hR1 ⟨rfl, hc0⟩
        refine SimQ.bind (qsim_valueOf hR1 start0 hc0) ?_
        rintro _ start s2 t2 hR2 ⟨rfl, _, hcs⟩
        rw [int64Value_ren]
        cases int64Value start with
        | none => exact SimQ.pure hR2 (by qopt)
        | some sv =>
          dsimp only
          refine SimQ.bind (ih.evalI P hp _ _ _ hR2) ?_
          rintro _ end0 s3 t3 hR3 ⟨rfl, hc1⟩
          refine SimQ.bind (qsim_valueOf hR3 end0 hc1) ?_
          rintro _ endV s4 t4 hR4 ⟨rfl, _, hce⟩
          rw [int64Value_ren]
          cases int64Value endV with
          | none => exact SimQ.pure hR4 (by qopt)
          | some ev => exact qsim_someOf (ih.evalForInteger P hp _ _ _ _ .null _ _ hR4 (by cln)) (by tr_ih)
      · refine SimQ.bind (ih.evalI P hp _ _ _ hR) ?_
        rintro _ v0 s1 t1 hR1 ⟨rfl, hc0⟩
        refine SimQ.bind (qsim_valueOf hR1 v0 hc0) ?_
        rintro _ v s2 t2 hR2 ⟨rfl, _, hcv⟩
        cases v with
        | int n => exact qsim_someOf (ih.evalForInteger P hp _ _ _ _ .null _ _ hR2 (by cln)) (by tr_ih)
        | error m => exact SimQ.pure hR2 (by qopt)
        | array els => exact qsim_someOf (ih.evalForList P hp _ (.array els) _ .null _ _ hR2 hcv trivial) (by tr_ih)
        | map b kvs => exact qsim_someOf (ih.evalForList P hp _ (.map b kvs) _ .null _ _ hR2 hcv trivial) (by tr_ih)
        | str x => exact qsim_someOf (ih.evalForList P hp _ (.str x) _ .null _ _ hR2 trivial trivial) (by tr_ih)
        | _ => all_goals exact SimQ.pure hR2 (by qopt)
    · exact SimQ.pure hR (by qopt)
  · exact SimQ.pure hR (by qopt)

theorem evalForInteger_qstep {P : Qp} {fuel : Nat} (ih : QSpec fuel) (hp : ¬ P.pre) :
    ∀ body i endV name last s t, StRq P s t → clean P last →
    SimQ P (evalForInteger (fuel + 1) body i endV name (ren P.σ last))
      (evalForInteger (fuel + 1) body i endV name last) s t (QOq P) := by
  intro body i endV name last s t hR hcl
  have hT := allTr fuel
  obtain ⟨hce, hcn⟩ := hR.curE hp
  unfold Grol.E.evalForInteger
  refine SimQ.ite (fun _ => SimQ.pure hR ⟨rfl, by cln⟩) (fun _ => ?_)
  refine SimQ.ite (fun _ => SimQ.pure hR ⟨rfl, by cln⟩) (fun _ => ?_)
  extract_lets jpS jpT
  have hjp : ∀ u s1 t1, StRq P s1 t1 → SimQ P (jpS u) (jpT u) s1 t1 (QOq P) := by
    intro u s1 t1 hR1
    unfold jpS jpT
    refine SimQ.bind (ih.evalI P hp _ _ _ hR1) ?_
    rintro _ r s2 t2 hR2 ⟨rfl, hcx⟩
    cases r with
    | error m => exact SimQ.pure hR2 ⟨rfl, by cln⟩
    | ret v kind =>
      simp only [ren]
      refine SimQ.ite (fun _ => SimQ.pure hR2 ⟨rfl, by cln⟩) (fun _ => ?_)
      refine SimQ.ite (fun _ => ih.evalForInteger P hp _ _ _ _ _ _ _ hR2 (by cln)) (fun _ => ?_)
      exact SimQ.ite (fun _ => SimQ.pure hR2 ⟨rfl, by cln⟩) (fun _ => SimQ.pure hR2 ⟨rfl, by cln⟩)
    | _ => all_goals exact ih.evalForInteger P hp _ _ _ _ _ _ _ hR2 (by cln)
  refine SimQ.ite (fun _ => ?_) (fun _ => hjp () _ _ hR)
  refine qsim_curEnv_bind hR ?_
  refine SimQ.bind (qsim_envSet' hR t.cur name rfl hcn hce trivial) ?_
  rintro _ oerr s1 t1 hR1 ⟨rfl, hcx⟩
  rw [ren_isError]
  exact SimQ.ite (fun _ => SimQ.pure hR1 ⟨rfl, by cln⟩) (fun _ => hjp () _ _ hR1)

theorem evalForList_qstep {P : Qp} {fuel : Nat} (ih : QSpec fuel) (hp : ¬ P.pre) :
    ∀ body list name last s t, StRq P s t → clean P list → clean P last →
    SimQ P (evalForList (fuel + 1) body (ren P.σ list) name (ren P.σ last))
      (evalForList (fuel + 1) body list name last) s t (QOq P) := by
  intro body list name last s t hR hcli hcl
  have hT := allTr fuel
  unfold Grol.E.evalForList
  rw [objLen_ren]
  refine SimQ.ite (fun _ => SimQ.pure hR ⟨rfl, by cln⟩) (fun _ => ?_)
  refine SimQ.bind (qsim_objFirst hR list hcli) ?_
  rintro _ v s1 t1 hR1 ⟨rfl, hcv⟩
  refine SimQ.bind (qsim_objRest hR1 list hcli) ?_
  rintro _ rest s2 t2 hR2 ⟨rfl, hcrest⟩
  obtain ⟨hce, hcn⟩ := hR2.curE hp
  refine qsim_curEnv_bind hR2 ?_
  refine SimQ.bind (qsim_envSet hR2 t2.cur name v hcn hce hcv) ?_
  rintro _ oerr s3 t3 hR3 ⟨rfl, hcx⟩
  rw [ren_isError]
  refine SimQ.ite (fun _ => SimQ.pure hR3 ⟨rfl, by cln⟩) (fun _ => ?_)
  refine SimQ.bind (ih.evalI P hp _ _ _ hR3) ?_
  rintro _ r s4 t4 hR4 ⟨rfl, hcx⟩
  cases r with
  | error m => exact SimQ.pure hR4 ⟨rfl, by cln⟩
  | ret v' kind =>
    simp only [ren]
    refine SimQ.ite (fun _ => SimQ.pure hR4 ⟨rfl, by cln⟩) (fun _ => ?_)
    refine SimQ.ite (fun _ => ih.evalForList P hp _ _ _ _ _ _ hR4 hcrest (by cln)) (fun _ => ?_)
    exact SimQ.ite (fun _ => SimQ.pure hR4 ⟨rfl, by cln⟩) (fun _ => SimQ.pure hR4 ⟨rfl, by cln⟩)
  | _ => all_goals exact ih.evalForList P hp _ _ _ _ _ _ hR4 hcrest (by cln)

theorem evalBuiltin_qstep {P : Qp} {fuel : Nat} (ih : QSpec fuel) (hp : ¬ P.pre) : ∀ tk ps s t, StRq P s t →
    SimQ P (evalBuiltin (fuel + 1) tk ps) (evalBuiltin (fuel + 1) tk ps) s t (QOq P) := by
  intro tk ps s t hR
  have hT := allTr fuel
  unfold Grol.E.evalBuiltin
  split
  next minV varArg _ =>
  refine SimQ.ite (fun _ => SimQ.pure hR ⟨rfl, trivial⟩) (fun _ => ?_)
  extract_lets jp2 jp1
  have h2 : ∀ s0 t0, StRq P s0 t0 → SimQ P (jp2 ()) (jp2 ()) s0 t0 (QOq P) := by
    intro s0 t0 hR0
    unfold jp2
    refine SimQ.bind (ih.evalI P hp _ _ _ hR0) ?_
    rintro _ val0 s1 t1 hR1 ⟨rfl, hc0⟩
    refine SimQ.bind (qsim_valueOf hR1 val0 hc0) ?_
    rintro _ val s2 t2 hR2 ⟨rfl, _, hcv⟩
    rw [ren_isError]
    refine SimQ.ite (fun _ => SimQ.pure hR2 ⟨rfl, hcv⟩) (fun _ => ?_)
    split
    · cases val with
      | error m =>
        simp only [ren]
        refine qsim_curEnv_bind hR2 ?_
        refine SimQ.bind (qsim_triggerNoCache hR2 t2.cur) ?_
        intro _ _ s3 t3 hR3 _
        exact SimQ.pure hR3 ⟨rfl, ⟨trivial, trivial, trivial, trivial, trivial⟩⟩
      | _ => all_goals exact SimQ.pure hR2 ⟨rfl, by cln⟩
    · refine SimQ.bind (qsim_valueOf hR2 val hcv) ?_
      rintro _ v s3 t3 hR3 ⟨rfl, _, hcv'⟩
      exact qsim_objFirst hR3 v hcv'
    · refine SimQ.bind (qsim_valueOf hR2 val hcv) ?_
      rintro _ v s3 t3 hR3 ⟨rfl, _, hcv'⟩
      exact qsim_objRest hR3 v hcv'
    · refine SimQ.bind (qsim_valueOf hR2 val hcv) ?_
      rintro _ v s3 t3 hR3 ⟨rfl, _, _⟩
      dsimp only
      rw [objLen_ren]
      exact SimQ.ite (fun _ => SimQ.pure hR3 ⟨rfl, trivial⟩) (fun _ => SimQ.pure hR3 ⟨rfl, trivial⟩)
    · exact SimQ.pure hR2 ⟨rfl, trivial⟩
  have h1 : ∀ s0 t0, StRq P s0 t0 → SimQ P (jp1 ()) (jp1 ()) s0 t0 (QOq P) := by
    intro s0 t0 hR0
    unfold jp1
    refine SimQ.ite (fun _ => ih.evalDelete P hp _ _ _ hR0) (fun _ => ?_)
    refine SimQ.ite (fun _ => ih.evalPrint P hp _ _ _ _ _ _ hR0) (fun _ => ?_)
    exact SimQ.ite (fun _ => SimQ.stop_bind) (fun _ => h2 _ _ hR0)
  exact SimQ.ite (fun _ => SimQ.stop_bind) (fun _ => h1 _ _ hR)

theorem evalPrint_qstep {P : Qp} {fuel : Nat} (ih : QSpec fuel) (hp : ¬ P.pre) : ∀ tk ps first buf s t, StRq P s t →
    SimQ P (evalPrint (fuel + 1) tk ps first buf) (evalPrint (fuel + 1) tk ps first buf) s t (QOq P) := by
  intro tk ps first buf s t hR
  have hT := allTr fuel
  cases ps with
  | nil =>
    unfold Grol.E.evalPrint
    dsimp only
    refine SimQ.ite (fun _ => ?_) (fun _ => ?_)
    · split
      · exact SimQ.pure hR ⟨rfl, trivial⟩
      · exact SimQ.stop_bind
    · exact SimQ.bind (qsim_writeOut hR _) (fun _ _ s1 t1 hR1 _ => SimQ.pure hR1 ⟨rfl, trivial⟩)
  | cons p rest =>
    unfold Grol.E.evalPrint
    dsimp only
    refine SimQ.bind (ih.evalI P hp _ _ _ hR) ?_
    rintro _ r s1 t1 hR1 ⟨rfl, hcr⟩
    rw [ren_isError]
    refine SimQ.ite (fun _ => SimQ.pure hR1 ⟨rfl, hcr⟩) (fun _ => ?_)
    refine SimQ.bind (qsim_valueOf hR1 r hcr) ?_
    rintro _ r' s2 t2 hR2 ⟨rfl, _, _⟩
    have hins := inspect_ren P.σ r'
    cases r' with
    | str x =>
      refine SimQ.bind_read (runM_pure _ s2) (runM_pure _ t2) ?_
      exact ih.evalPrint P hp _ _ _ _ _ _ hR2
    | _ =>
      all_goals
        try simp only [ren] at hins
        try simp only [ren]
        try rw [hins]
        refine SimQ.bind (Q := fun a b => a = b)
          (SimQ.liftR hR2 (RelR.of_eq (f := id) (by cases inspect _ <;> rfl) (fun _ => rfl))) ?_
        rintro piece _ s3 t3 hR3 rfl
        exact ih.evalPrint P hp _ _ _ _ _ _ hR3

/-- `del` moves the counter of the current frame first thing: not in a quiet run -/
theorem evalDelete_qstep {P : Qp} {fuel : Nat} (hp : ¬ P.pre) : ∀ node s t, StRq P s t →
    SimQ P (evalDelete (fuel + 1) node) (evalDelete (fuel + 1) node) s t (QOq P) := by
  intro node s t hR
  obtain ⟨hce, _⟩ := hR.curE hp
  refine SimQ.of_loud ?_
  intro b t' hy
  have h1 : outcome (evalDelete (fuel + 1) node) t = .ok b := by rw [outcome_eq, hy]
  have h2 := evalDelete_loud fuel node t b h1
  rw [stateAfter_eq, hy, hce] at h2
  exact Nat.ne_of_gt h2

theorem evalIndexExpression_qstep {P : Qp} {fuel : Nat} (ih : QSpec fuel) (hp : ¬ P.pre) : ∀ left tok i s t, StRq P s t →
    clean P left →
    SimQ P (evalIndexExpression (fuel + 1) (ren P.σ left) tok i) (evalIndexExpression (fuel + 1) left tok i) s t
      (QOq P) := by
  intro left tok i s t hR hcl
  have hT := allTr fuel
  unfold Grol.E.evalIndexExpression
  rw [ren_isError]
  refine SimQ.ite (fun _ => SimQ.pure hR ⟨rfl, hcl⟩) (fun _ => ?_)
  refine SimQ.ite (fun _ => ?_) (fun _ => ?_)
  · refine SimQ.ite (fun _ => SimQ.pure hR ⟨rfl, trivial⟩) (fun _ => ?_)
    exact qsim_indexIdx hR left (.str _) hcl
  · split
    · exact ih.evalIndexRange P hp _ _ _ _ _ hR hcl
    · refine SimQ.bind (ih.eval P hp _ _ _ hR) ?_
      rintro _ index s1 t1 hR1 ⟨rfl, hci⟩
      rw [ren_isError]
      exact SimQ.ite (fun _ => SimQ.pure hR1 ⟨rfl, hci⟩) (fun _ => qsim_indexIdx hR1 left index hcl)

/-- the slicing part of `evalIndexRangeExpression` -/
theorem qrangeBody {P : Qp} {s t : St} (hR : StRq P s t) (left : Obj) (l r : Int) (hcl : clean P left) :
    SimQ P
      (match ren P.σ left with
      | .str x => pure (.str ((x.drop l.toNat).take (r - l).toNat))
      | .array els => pure (newArray ((els.drop l.toNat).take (r - l).toNat))
      | .map big kvs => do
        let __do_lift ← get
        pure (.map (big && decide ((r - l).toNat > __do_lift.cfg.maxSmallMap)) ((kvs.drop l.toNat).take (r - l).toNat))
      | .null => pure .null
      | _ => pure (err "range index operator not supported"))
      (match left with
      | .str x => pure (.str ((x.drop l.toNat).take (r - l).toNat))
      | .array els => pure (newArray ((els.drop l.toNat).take (r - l).toNat))
      | .map big kvs => do
        let __do_lift ← get
        pure (.map (big && decide ((r - l).toNat > __do_lift.cfg.maxSmallMap)) ((kvs.drop l.toNat).take (r - l).toNat))
      | .null => pure .null
      | _ => pure (err "range index operator not supported")) s t (QOq P) := by
  cases left with
  | array els =>
    refine SimQ.pure hR ⟨?_, cleanL_take (cleanL_drop (clean_arr hcl) _) _⟩
    simp only [newArray, ren, renL_take, renL_drop]
  | map big kvs =>
    simp only [ren]
    refine SimQ.bind_read (runM_get s) (runM_get t) ?_
    rw [hR.cfg]
    refine SimQ.pure hR ⟨?_, cleanP_take (cleanP_drop (clean_mp hcl) _) _⟩
    simp only [ren, renP_take, renP_drop]
  | _ => all_goals exact SimQ.pure hR ⟨rfl, trivial⟩

theorem evalIndexRange_qstep {P : Qp} {fuel : Nat} (ih : QSpec fuel) (hp : ¬ P.pre) : ∀ left li ri s t, StRq P s t →
    clean P left →
    SimQ P (evalIndexRange (fuel + 1) (ren P.σ left) li ri) (evalIndexRange (fuel + 1) left li ri) s t (QOq P) := by
  intro left li ri s t hR hcl
  have hT := allTr fuel
  unfold Grol.E.evalIndexRange
  refine SimQ.bind (ih.eval P hp _ _ _ hR) ?main (hT.eval _) ?tg
  case tg =>
    intro leftIndex
    extract_lets nilRight num jp
    have hjp : ∀ r, Tr (jp r) := by
      intro rightIndex
      unfold jp
      split
      · extract_lets l l' r
        split
        · tr
        · split <;> tr
      · tr
    split
    · exact tr_bind (tr_pure _) hjp
    · exact tr_bind (hT.eval _) hjp
  rintro _ leftIndex s0 t0 hR0 ⟨rfl, _⟩
  rw [objLen_ren, int64Value_ren]
  extract_lets nilRight num jpS jpT
  have hjp : ∀ (rv : Obj) s1 t1, StRq P s1 t1 → SimQ P (jpS (ren P.σ rv)) (jpT rv) s1 t1 (QOq P) := by
    intro rv s1 t1 hR1
    unfold jpS jpT
    rw [int64Value_ren]
    split
    · dsimp only
      refine SimQ.ite (fun _ => SimQ.pure hR1 ⟨rfl, trivial⟩) (fun _ => ?_)
      exact qrangeBody hR1 left _ _ hcl
    · exact SimQ.pure hR1 ⟨rfl, trivial⟩
  refine SimQ.ite (fun _ => ?_) (fun _ => ?_)
  · refine SimQ.bind_read (runM_pure _ s0) (runM_pure _ t0) ?_
    exact hjp .null s0 t0 hR0
  · have htr : ∀ r, Tr (jpT r) := by
      intro rightIndex
      unfold jpT
      split
      · extract_lets l l' r
        split
        · tr
        · split <;> tr
      · tr
    refine SimQ.bind (ih.eval P hp _ _ _ hR0) ?_ (hT.eval _) htr
    rintro _ rv s1 t1 hR1 ⟨rfl, _⟩
    exact hjp rv s1 t1 hR1

theorem evalMapLiteral_qstep {P : Qp} {fuel : Nat} (ih : QSpec fuel) (hp : ¬ P.pre) : ∀ ks vs big acc s t, StRq P s t →
    cleanP P acc →
    SimQ P (evalMapLiteral (fuel + 1) ks vs big (renP P.σ acc)) (evalMapLiteral (fuel + 1) ks vs big acc) s t (QOq P) := by
  intro ks vs big acc s t hR hcacc
  have hT := allTr fuel
  have hdone : SimQ P (pure (Obj.map big (renP P.σ acc)) : M Obj) (pure (Obj.map big acc)) s t (QOq P) :=
    SimQ.pure hR ⟨rfl, hcacc⟩
  cases ks with
  | nil => unfold Grol.E.evalMapLiteral; exact hdone
  | cons k ks =>
    cases vs with
    | nil => unfold Grol.E.evalMapLiteral; exact hdone
    | cons v vs =>
      unfold Grol.E.evalMapLiteral
      refine SimQ.bind (ih.eval P hp _ _ _ hR) ?_
      rintro _ key0 s1 t1 hR1 ⟨rfl, hck0⟩
      refine SimQ.bind (qsim_valueOf hR1 key0 hck0) ?_
      rintro _ key s2 t2 hR2 ⟨rfl, _, hck⟩
      rw [ren_isError]
      refine SimQ.ite (fun _ => SimQ.pure hR2 ⟨rfl, hck⟩) (fun _ => ?_)
      refine SimQ.bind (qsim_equalsM hR2 key key hck hck) ?_
      rintro eq _ s3 t3 hR3 rfl
      refine SimQ.ite (fun _ => SimQ.pure hR3 ⟨rfl, trivial⟩) (fun _ => ?_)
      refine SimQ.bind (ih.eval P hp _ _ _ hR3) ?_
      rintro _ value0 s4 t4 hR4 ⟨rfl, hcv0⟩
      refine SimQ.bind (qsim_valueOf hR4 value0 hcv0) ?_
      rintro _ value s5 t5 hR5 ⟨rfl, _, hcv⟩
      rw [ren_isError]
      refine SimQ.ite (fun _ => SimQ.pure hR5 ⟨rfl, hcv⟩) (fun _ => ?_)
      refine SimQ.bind_read (runM_get s5) (runM_get t5) ?_
      rw [hR5.cfg, mapSet_ren]
      refine SimQ.bind (Q := fun a b => a = (b.1, renP P.σ b.2) ∧ cleanP P b.2)
        (SimQ.liftR' (f := fun p => (p.1, renP P.σ p.2)) hR5 rfl (fun b hb => ⟨rfl, mapSet_clean hcacc hck hcv hb⟩)) ?_
      rintro _ ⟨big', acc'⟩ s6 t6 hR6 ⟨rfl, hca'⟩
      exact ih.evalMapLiteral P hp _ _ _ _ _ _ hR6 hca'

theorem applyExtension_qstep {P : Qp} {fuel : Nat} : ∀ name args s t, StRq P s t →
    SimQ P (applyExtension (fuel + 1) name (renL P.σ args)) (applyExtension (fuel + 1) name args) s t (QOq P) := by
  intro name args s t hR
  unfold Grol.E.applyExtension
  exact SimQ.stop

/-- the end of a call whose callee frame's counter moved: the caller's counter moves -/
theorem finishCall_loud (f : FuncVal) (args : List Obj) (c before after : Nat) (cc : Bool) (res : Obj) (out : List UInt8)
    (h : (after != before) = true) : Loud c (finishCall f args c before after cc res out) := by
  unfold finishCall
  dsimp only
  refine Loud.ite (fun _ => Loud.bind_right (by tr) (fun _ => ?_)) (fun _ => ?_) <;>
  · simp only [h, if_true]
    exact Loud.bind_left Loud.triggerNoCache (fun _ => tr_pure _)

theorem missOf_of_frame {t : St} {e : Nat} {f : Frame} (h : t.frames[e]? = some f) : missOf t e = f.getMiss := by
  unfold missOf; rw [h]

/-- a call: the cache is off, the arguments are bound in a new frame, the body runs with that frame as the quiet frame
(if its counter moves, so does the caller's: `finishCall_loud`) -/
theorem applyFunction_qstep {P : Qp} {fuel : Nat} (ih : QSpec fuel) : ∀ fn args s t, StRq P s t → cleanL P args →
    SimQ P (applyFunction (fuel + 1) (ren P.σ fn) (renL P.σ args)) (applyFunction (fuel + 1) fn args) s t (QOq P) := by
  intro fn args s t hR hca
  have hT := allTr fuel
  cases fn with
  | func f =>
    simp only [ren]
    unfold Grol.E.applyFunction
    dsimp only
    have hk : (renFn P.σ f).key = f.key := rfl
    have hb : (renFn P.σ f).body = f.body := rfl
    rw [hk, hb]
    refine qsim_curEnv_bind hR ?_
    refine qsim_getFrame_bind hR t.cur ?_
    intro cfs0 cft0 _ _ hcfr0
    try dsimp only
    rw [sameFunction_ren P.σ hcfr0.cacheKey hcfr0.function f, hcfr0.localFunc]
    have hcg : SimQ P (if (cft0.localFunc && sameFunction cft0 f) = true then pure none else cacheGet f.key (renL P.σ args))
        (if (cft0.localFunc && sameFunction cft0 f) = true then pure none else cacheGet f.key args) s t
        (fun a b => a = none ∧ b = none) :=
      SimQ.ite (fun _ => SimQ.pure hR ⟨rfl, rfl⟩) (fun _ => qsim_cacheGet hR f.key args _)
    refine SimQ.bind hcg ?_
    rintro _ _ s1 t1 hR1 ⟨rfl, rfl⟩
    dsimp only
    refine SimQ.bind (qsim_extendFunctionEnv hR1 f args hca) ?_
    rintro _ r1 s2 t2 hR2 ⟨rfl, hn0, hcerr⟩
    cases r1 with
    | error e => exact SimQ.pure hR2 ⟨rfl, hcerr e rfl⟩
    | ok nenv =>
      have hnenv := hn0 nenv rfl
      simp only [renX]
      refine qsim_curEnv_bind hR2 ?_
      rw [hR2.curq]
      refine SimQ.modify_bind rfl ?_
      -- the body runs with the callee frame as the quiet frame
      have hR3 : StRq { P with e := nenv, pre := False } { s2 with cur := sh P.σ nenv, outs := [] :: s2.outs }
          { t2 with cur := nenv, outs := [] :: t2.outs } :=
        StRq.retarget (P' := { P with e := nenv, pre := False }) hR2 rfl rfl rfl rfl _ _ _ _ rfl (by rw [hR2.outs]) rfl
          (Or.inr hnenv)
      refine SimG.switch (e' := nenv) (R1 := StRq { P with e := nenv, pre := False })
        (ih.eval { P with e := nenv, pre := False } (fun h => h) f.body _ _ hR3) ?hl ?hf (hT.eval _) (by tr_ih)
      case hl =>
        intro res t4 hy4 hne
        have hmono : missOf { t2 with cur := nenv, outs := [] :: t2.outs } nenv ≤ missOf t4 nenv := by
          have := missOf_mono (hT.eval f.body) { t2 with cur := nenv, outs := [] :: t2.outs } nenv
          rw [hy4] at this; exact this
        cases hte1 : t4.frames[nenv]? with
        | none =>
          intro b t' hr
          rw [runM_bind, runM_getFrame_none hte1] at hr
          cases hr
        | some ft1 =>
          refine LoudAt.bind_read (runM_getFrame hte1) ?_
          refine LoudAt.bind_read (runM_get t4) ?_
          try dsimp only
          refine LoudAt.set_bind rfl ?_
          refine (finishCall_loud _ _ _ _ _ _ _ _ ?_).at _
          rw [missOf_of_frame hte1] at hne hmono
          simp only [bne_iff_ne, ne_eq]
          split <;> omega
      case hf =>
        rintro _ res s4 t4 hR4 ⟨rfl, hcres⟩
        cases hte1 : t4.frames[nenv]? with
        | none =>
          intro b t' hy _
          rw [runM_bind, runM_getFrame_none hte1] at hy
          cases hy
        | some ft1 =>
          obtain ⟨fs1, hfs1, hfr1⟩ := hR4.frames nenv ft1 hte1
          refine SimG.bind_read (runM_getFrame hfs1) (runM_getFrame hte1) ?_
          rw [(hfr1.missNew hnenv).1, (hfr1.missNew hnenv).2]
          refine SimG.bind_read (runM_get s4) (runM_get t4) ?_
          rw [hR4.outs]
          try dsimp only
          refine SimG.set_bind rfl ?_
          refine qsim_finishCall ?_ f args P.e _ _ _ res _ hcres
          exact StRq.retarget (P := { P with e := nenv, pre := False }) (P' := P) hR4 rfl rfl rfl rfl _ _ _ _ rfl rfl rfl hR2.enew
  | _ =>
    all_goals
      simp only [ren]
      unfold Grol.E.applyFunction
      exact SimQ.pure hR ⟨rfl, trivial⟩

theorem qSpec_succ {fuel : Nat} (ih : QSpec fuel) : QSpec (fuel + 1) where
  eval := fun _ hp => eval_qstep ih hp
  evalI := fun _ hp => evalI_qstep ih hp
  evalStatements := fun _ hp => evalStatements_qstep ih hp
  evalExpressions := fun _ hp => evalExpressions_qstep ih hp
  evalAssignment := fun _ hp => evalAssignment_qstep ih hp
  evalIf := fun _ hp => evalIf_qstep ih hp
  evalFor := fun _ hp => evalFor_qstep ih hp
  evalForLoop := fun _ hp => evalForLoop_qstep ih hp
  evalForSpecialForms := fun _ hp => evalForSpecialForms_qstep ih hp
  evalForInteger := fun _ hp => evalForInteger_qstep ih hp
  evalForList := fun _ hp => evalForList_qstep ih hp
  evalBuiltin := fun _ hp => evalBuiltin_qstep ih hp
  evalPrint := fun _ hp => evalPrint_qstep ih hp
  evalDelete := fun _ hp => evalDelete_qstep hp
  evalIndexExpression := fun _ hp => evalIndexExpression_qstep ih hp
  evalIndexRange := fun _ hp => evalIndexRange_qstep ih hp
  evalMapLiteral := fun _ hp => evalMapLiteral_qstep ih hp
  applyExtension := fun _ _ => applyExtension_qstep
  applyFunction := fun _ => applyFunction_qstep ih

/-- every function of the tree walker, at every fuel -/
theorem qSpec_all : ∀ fuel, QSpec fuel
  | 0 => qSpec_zero
  | fuel + 1 => qSpec_succ (qSpec_all fuel)

end Grol.R

import Grol.CmpTotal
import GrolProofs.OrdLemmas
/-
`cmpI` is a total preorder on all model objects (`cmpI_PW`).
-/
namespace Grol.Obj
open Grol.Ord

/-! ### equations -/

theorem cmpI_cls (a b : Obj) :
    cmpI a b = if cls a < cls b then -1 else if cls b < cls a then 1 else cmpI a b := by
  split
  · unfold cmpI; rw [if_pos (by assumption)]
  · split
    · unfold cmpI; rw [if_neg (by assumption), if_pos (by assumption)]
    · rfl

theorem listI_eq : ∀ xs ys, listI xs ys = lexI cmpI xs ys
  | [], [] => by simp [listI, lexI]
  | [], _ :: _ => by simp [listI, lexI]
  | _ :: _, [] => by simp [listI, lexI]
  | x :: xs, y :: ys => by simp only [listI, lexI, listI_eq xs ys]

theorem kvsI_eq : ∀ xs ys, kvsI xs ys = lexI (pairI cmpI) xs ys
  | [], [] => by simp [kvsI, lexI]
  | [], _ :: _ => by simp [kvsI, lexI]
  | _ :: _, [] => by simp [kvsI, lexI]
  | (k, v) :: xs, (k', v') :: ys => by simp only [kvsI, lexI, pairI, kvsI_eq xs ys]

theorem cmpI_arr (xs ys : List Obj) : cmpI (arr xs) (arr ys) = lenLexI cmpI xs ys := by
  unfold cmpI; simp only [cls, Nat.lt_irrefl, if_false, lenLexI, listI_eq]

theorem cmpI_map (xs ys : List (Obj × Obj)) : cmpI (map xs) (map ys) = lenLexI (pairI cmpI) xs ys := by
  unfold cmpI; simp only [cls, Nat.lt_irrefl, if_false, lenLexI, kvsI_eq]

theorem cmpI_ret (v w : Obj) : cmpI (ret v) (ret w) = cmpI v w := by
  conv => lhs; unfold cmpI
  simp only [cls, Nat.lt_irrefl, if_false]

def isLeaf : Obj → Bool
  | arr _ => false | map _ => false | ret _ => false | _ => true

theorem cmpI_leaf (a b : Obj) (ha : isLeaf a = true) (hb : cls b = cls a) : cmpI a b = flatI a b := by
  unfold cmpI; rw [hb]; simp only [Nat.lt_irrefl, if_false]
  cases a <;> simp [isLeaf] at ha <;> rfl

/-! ### bytes -/

def cmpU8 (a b : UInt8) : Int := if a < b then -1 else if b < a then 1 else 0

theorem cmpU8_eq (a b : UInt8) : cmpU8 a b = cmpZ a.toNat b.toNat := by
  simp only [cmpU8, cmpZ, UInt8.lt_iff_toNat_lt, Int.ofNat_lt]

theorem cmpU8_PW (a : UInt8) : PW cmpU8 a := by
  have := PW.comap (c := cmpZ) (fun x : UInt8 => (x.toNat : Int)) a (cmpZ_PW _)
  have e : cmpU8 = fun x y => cmpZ (x.toNat : Int) (y.toNat : Int) := by
    funext x y; exact cmpU8_eq x y
  rw [e]; exact this

theorem cmpBytes_eq : ∀ xs ys, cmpBytes xs ys = lexI cmpU8 xs ys
  | [], [] => by simp [cmpBytes, lexI]
  | [], _ :: _ => by simp [cmpBytes, lexI]
  | _ :: _, [] => by simp [cmpBytes, lexI]
  | x :: xs, y :: ys => by
    simp only [cmpBytes, lexI, cmpU8, cmpBytes_eq xs ys]
    split
    · simp
    · split
      · simp
      · simp

theorem cmpBytes_PW (a : Bytes) : PW cmpBytes a := by
  have e : cmpBytes = lexI cmpU8 := by funext x y; exact cmpBytes_eq x y
  rw [e]; exact lexI_PW cmpU8 a (fun x _ => cmpU8_PW x)

/-! ### leaves -/

theorem flatI_PWon (a : Obj) : PWon (fun b => cls b = cls a) flatI a := by
  by_cases hb : isBytesCls a = true
  · have hS : ∀ x, cls x = cls a → isBytesCls x = true := by
      intro x hx
      cases a <;> simp [isBytesCls] at hb <;> cases x <;> simp [cls] at hx <;> rfl
    have := (PW.comap (c := cmpBytes) bytesOf a (cmpBytes_PW _)).on (fun b => cls b = cls a)
    refine PWon.congr (c := fun x y => cmpBytes (bytesOf x) (bytesOf y)) rfl ?_ this
    intro x y hx _
    simp only [flatI, hS x hx, if_true]
  · have hS : ∀ x, cls x = cls a → isBytesCls x = false := by
      intro x hx
      cases a <;> simp [isBytesCls] at hb <;> cases x <;> simp [cls] at hx <;> rfl
    have := (PW.comap (c := cmpO) numKey a (cmpO_PW _)).on (fun b => cls b = cls a)
    refine PWon.congr (c := fun x y => cmpO (numKey x) (numKey y)) rfl ?_ this
    intro x y hx _
    simp [flatI, hS x hx]

theorem leaf_PW (a : Obj) (ha : isLeaf a = true) : PW cmpI a := by
  apply cls_PW cls cmpI cmpI_cls
  have hS : ∀ x, cls x = cls a → isLeaf x = true := by
    intro x hx
    cases a <;> simp [isLeaf] at ha <;> cases x <;> simp [cls] at hx <;> rfl
  refine PWon.congr (c := flatI) rfl ?_ (flatI_PWon a)
  intro x y hx hy
  exact cmpI_leaf x y (hS x hx) (by rw [hy, hx])

/-! ### containers -/

theorem arr_PW (xs : List Obj) (h : ∀ x ∈ xs, PW cmpI x) : PW cmpI (arr xs) := by
  apply cls_PW cls cmpI cmpI_cls
  let un : Obj → List Obj := fun o => match o with | arr l => l | _ => []
  have := (PW.comap (c := lenLexI cmpI) un (arr xs) (lenLexI_PW cmpI xs (lexI_PW cmpI xs h))).on (fun b => cls b = cls (arr xs))
  refine PWon.congr (c := fun x y => lenLexI cmpI (un x) (un y)) rfl ?_ this
  intro x y hx hy
  cases x <;> simp [cls] at hx
  cases y <;> simp [cls] at hy
  exact cmpI_arr _ _

theorem map_PW (xs : List (Obj × Obj)) (h : ∀ kv ∈ xs, PW cmpI kv.1 ∧ PW cmpI kv.2) : PW cmpI (map xs) := by
  apply cls_PW cls cmpI cmpI_cls
  let un : Obj → List (Obj × Obj) := fun o => match o with | map l => l | _ => []
  have hp : ∀ kv ∈ xs, PW (pairI cmpI) kv := fun kv hkv => pairI_PW cmpI kv (h kv hkv).1 (h kv hkv).2
  have := (PW.comap (c := lenLexI (pairI cmpI)) un (map xs)
    (lenLexI_PW (pairI cmpI) xs (lexI_PW (pairI cmpI) xs hp))).on (fun b => cls b = cls (map xs))
  refine PWon.congr (c := fun x y => lenLexI (pairI cmpI) (un x) (un y)) rfl ?_ this
  intro x y hx hy
  cases x <;> simp [cls] at hx
  cases y <;> simp [cls] at hy
  exact cmpI_map _ _

theorem ret_PW (v : Obj) (h : PW cmpI v) : PW cmpI (ret v) := by
  apply cls_PW cls cmpI cmpI_cls
  let un : Obj → Obj := fun o => match o with | ret w => w | o => o
  have := (PW.comap (c := cmpI) un (ret v) h).on (fun b => cls b = cls (ret v))
  refine PWon.congr (c := fun x y => cmpI (un x) (un y)) rfl ?_ this
  intro x y hx hy
  cases x <;> simp [cls] at hx
  cases y <;> simp [cls] at hy
  exact cmpI_ret _ _

/-! ### the order laws for every object -/

mutual
theorem cmpI_PW : (a : Obj) → PW cmpI a
  | arr xs => arr_PW xs (list_PW xs)
  | map kvs => map_PW kvs (kvs_PW kvs)
  | ret v => ret_PW v (cmpI_PW v)
  | int _ => leaf_PW _ rfl
  | float _ => leaf_PW _ rfl
  | bool _ => leaf_PW _ rfl
  | nil => leaf_PW _ rfl
  | err _ => leaf_PW _ rfl
  | func _ => leaf_PW _ rfl
  | str _ => leaf_PW _ rfl
  | quote _ => leaf_PW _ rfl
  | mac _ => leaf_PW _ rfl
  | ext _ => leaf_PW _ rfl
  | reg _ => leaf_PW _ rfl
theorem list_PW : (xs : List Obj) → ∀ x ∈ xs, PW cmpI x
  | [], _, h => by cases h
  | y :: ys, x, h => by
    cases h with
    | head => exact cmpI_PW y
    | tail _ h' => exact list_PW ys x h'
theorem kvs_PW : (kvs : List (Obj × Obj)) → ∀ kv ∈ kvs, PW cmpI kv.1 ∧ PW cmpI kv.2
  | [], _, h => by cases h
  | (k, v) :: rest, kv, h => by
    cases h with
    | head => exact ⟨cmpI_PW k, cmpI_PW v⟩
    | tail _ h' => exact kvs_PW rest kv h'
end

end Grol.Obj

import GrolProofs.PrintParseSteps
/-
C02, positive half: Pratt parsing inverts the printer's minimal-parenthesis rendering.
-/
set_option linter.unusedVariables false
set_option linter.unusedSimpArgs false
namespace Grol.RT
open Grol Grol.Wire Grol.Generated Grol.Parser Grol.Printer Grol.PrintTokens
variable {s : TokStream} {c ap : Bool}

/-! ### facts about the generated tables -/

theorem precOf_eq : ∀ t : TokType, precOf t = (lookupPrec t).getD prioLOWEST := by
  intro t; cases t <;> decide

theorem binOp_facts : ∀ t : TokType, binOp t = true →
    lookupPrec t = some (precOf t) ∧ 2 ≤ precOf t ∧ precOf t ≤ 10 ∧ lookup infixRegs t = some .parseInfixExpression ∧
    t ≠ .SEMICOLON ∧ t ≠ .LAMBDA ∧ t ≠ .INCR ∧ t ≠ .DECR ∧ t ≠ .LPAREN ∧ t ≠ .LBRACKET ∧ t ≠ .ELSE := by
  intro t; cases t <;> decide

theorem preOp_facts : ∀ t : TokType, preOp t = true →
    lookup prefixRegs t = some .parsePrefixExpression ∧ t ≠ .EOL := by
  intro t; cases t <;> decide

theorem postfix_none : ∀ t : TokType, t ≠ .INCR → t ≠ .DECR → lookup postfixRegs t = none := by
  intro t; cases t <;> decide

/-- tokens whose precedence drives the left spine: binary operators, `[` and `.` -/
def leftOp (t : TokType) : Bool := binOp t || t == .LBRACKET || t == .DOT

theorem leftOp_low : ∀ t : TokType, leftOp t = true → 1 < precOf t := by
  intro t; cases t <;> decide
theorem leftOp_not_prefix : ∀ t : TokType, leftOp t = true → 11 ≤ precOf t → 11 < precOf t := by
  intro t; cases t <;> decide

theorem builtinOp_facts : ∀ t : TokType, builtinOp t = true →
    lookup prefixRegs t = some .parseBuiltin ∧ t ≠ .EOL := by
  intro t; cases t <;> decide

/-- the first token of an expression -/
def startTy (t : TokType) : Bool :=
  t == .IDENT || t == .INT || t == .FLOAT || t == .STRING || t == .TRUE || t == .FALSE || t == .LPAREN || t == .LBRACKET || preOp t
    || t == .BREAK || t == .CONTINUE || t == .IF || t == .FOR || t == .FUNC || builtinOp t || t == .DOTDOT || t == .MACRO || t == .LBRACE

theorem startTy_facts : ∀ t : TokType, startTy t = true →
    t ≠ .RPAREN ∧ t ≠ .RBRACKET ∧ t ≠ .COMMA ∧ t ≠ .EOF ∧ t ≠ .EOL ∧ t ≠ .RETURN ∧ t ≠ .SEMICOLON ∧ t ≠ .LAMBDA ∧ t ≠ .RBRACE := by
  intro t; cases t <;> decide

/-- a first token that is not `-`, `+`, `^`, `++`, `--` binds no tighter than LOWEST, except `(` and `[` -/
theorem startTy_stop : ∀ t : TokType, startTy t = true → ambiguousOp t = false →
    t ≠ .INCR ∧ t ≠ .DECR ∧ (precOf t ≤ 1 ∨ t = .LPAREN ∨ t = .LBRACKET) := by
  intro t; cases t <;> decide

/-! ### where the expression loop stops -/

/-- the token after an expression printed in context `q` ends it -/
def Stop (q : Nat) (x : Tok) : Prop :=
  x.type ≠ .LAMBDA ∧ x.type ≠ .INCR ∧ x.type ≠ .DECR ∧
  ((precOf x.type ≤ q ∧ x.type ≠ .ELSE) ∨ ((x.type = .LPAREN ∨ x.type = .LBRACKET) ∧ x.hadWs = true))

theorem Stop.mono {q q' : Nat} {x : Tok} (h : Stop q x) (hq : q ≤ q') : Stop q' x :=
  ⟨h.1, h.2.1, h.2.2.1, h.2.2.2.elim (fun h => Or.inl ⟨by have := h.1; omega, h.2⟩) Or.inr⟩

theorem Stop.notElse {q : Nat} {x : Tok} (h : Stop q x) : x.type ≠ .ELSE := by
  rcases h.2.2.2 with h | ⟨h, _⟩
  · exact h.2
  · rcases h with h | h <;> rw [h] <;> decide

theorem loop_stop_of_Stop {f P : Nat} {st : PState} {l : ONode} (h : Stop P st.peek) :
    parseExpressionLoop s (f + 1) P l st = .ok (l, st) := by
  rcases h.2.2.2 with h | ⟨h, hw⟩
  · exact loop_stop h.1
  · exact loop_stop_ws h hw

theorem ev_loop_stop {P j : Nat} {l : ONode} (h : Stop P (s.get (j + 1))) :
    Ev (fun f => parseExpressionLoop s f P l (stAt s j) = .ok (l, stAt s j)) :=
  ⟨1, fun f hf => by
    obtain ⟨g, rfl⟩ : ∃ g, f = g + 1 := ⟨f - 1, by omega⟩
    exact loop_stop_of_Stop (by simpa using h)⟩

theorem Stop_of_type {q : Nat} {x : Tok} (h1 : x.type ≠ .LAMBDA) (h2 : x.type ≠ .INCR) (h3 : x.type ≠ .DECR)
    (h : precOf x.type ≤ q ∧ x.type ≠ .ELSE) : Stop q x := ⟨h1, h2, h3, Or.inl h⟩

/-- parser level `P` against printer context `q`: every operator printed without parentheses in
context `q` is taken by the loop at level `P` -/
def Compat (P q : Nat) : Prop :=
  P ≤ 11 ∧ 1 ≤ q ∧ ∀ t, leftOp t = true → q ≤ precOf t → P < precOf t

theorem Compat.mono {P q q' : Nat} (h : Compat P q) (hq : q ≤ q') : Compat P q' :=
  ⟨h.1, by have := h.2.1; omega, fun t ht hp => h.2.2 t ht (by omega)⟩

theorem Compat.of_lt {P q : Nat} (h : P < q) (hP : P ≤ 11) : Compat P q :=
  ⟨hP, by omega, fun t _ hp => by omega⟩

theorem Compat_low {q : Nat} (hq : 1 ≤ q) : Compat 1 q :=
  ⟨by omega, hq, fun t ht _ => leftOp_low t ht⟩

theorem Compat_prefix : Compat 11 11 :=
  ⟨by omega, by omega, fun t ht hp => leftOp_not_prefix t ht hp⟩

/-! ### tokens of the stream -/

theorem seg_type {i : Nat} {x : Tok} (h : key (s.get i) = key x) : (s.get i).type = x.type := by
  simpa using congrArg Tok.type h
theorem seg_num {i : Nat} {x : Tok} (h : key (s.get i) = key x) : (s.get i).num = x.num := by
  simpa using congrArg Tok.num h
theorem seg_tk {i : Nat} {t : Tk} {ws : Bool} (h : key (s.get i) = key (tk t ws)) : (s.get i).tk = t := by
  rw [key_tk h]; rfl
theorem seg_tkNum {i : Nat} {t : Tk} {n : NumClass} {ws : Bool} (h : key (s.get i) = key (tkNum t n ws)) : (s.get i).tk = t := by
  rw [key_tk h]; rfl

/-! ### the first token of a rendering -/

def isOpener (t : TokType) : Prop := t = .LPAREN ∨ t = .LBRACKET

/-- the rendering starts with a token that can start an expression; if that is `(` or `[`, its whitespace flag is `ws` -/
def Head (ws : Bool) (l : List Tok) : Prop := ∃ x rest, l = x :: rest ∧ startTy x.type = true ∧ (isOpener x.type → x.hadWs = ws)

theorem Head.append {ws : Bool} {l : List Tok} (h : Head ws l) (m : List Tok) : Head ws (l ++ m) := by
  obtain ⟨x, rest, rfl, h1, h2⟩ := h
  exact ⟨x, rest ++ m, rfl, h1, h2⟩

theorem Head.cons {ws : Bool} {x : Tok} (h1 : startTy x.type = true) (h2 : x.hadWs = ws) (m : List Tok) : Head ws (x :: m) :=
  ⟨x, m, rfl, h1, fun _ => h2⟩

theorem Head.cons' {ws : Bool} {x : Tok} (h1 : startTy x.type = true) (h2 : ¬ isOpener x.type) (m : List Tok) : Head ws (x :: m) :=
  ⟨x, m, rfl, h1, fun h => absurd h h2⟩

theorem head_lparen (ws : Bool) (m : List Tok) : Head ws (lparen ws :: m) :=
  Head.cons (show startTy TokType.LPAREN = true by decide) rfl m

mutual
theorem head_node : ∀ (t : Node), fragN c ap t = true → ∀ (q : Nat) (ws : Bool), Head ws (exprToks c ap q ws t)
  | .ident t, h, q, ws => by
    simp only [fragN, Bool.or_eq_true, beq_iff_eq] at h
    simp only [exprToks]; exact Head.cons (by rcases h with h | h <;> simp [tk, h, startTy]) rfl _
  | .strLit t, h, q, ws => by
    simp only [fragN, beq_iff_eq] at h
    simp only [exprToks]; exact Head.cons (by simp [tk, h, startTy]) rfl _
  | .boolean t, h, q, ws => by
    simp only [fragN, Bool.or_eq_true, beq_iff_eq] at h
    simp only [exprToks]; exact Head.cons (by rcases h with h | h <;> simp [tk, h, startTy]) rfl _
  | .intLit t, h, q, ws => by
    simp only [fragN, beq_iff_eq] at h
    simp only [exprToks]; exact Head.cons (by simp [tkNum, h, startTy]) rfl _
  | .floatLit t, h, q, ws => by
    simp only [fragN, Bool.or_eq_true, beq_iff_eq] at h
    simp only [exprToks]; exact Head.cons (by rcases h with h | h <;> simp [tkNum, h, startTy]) rfl _
  | .pre t r, h, q, ws => by
    simp only [fragN, Bool.and_eq_true] at h
    simp only [exprToks]
    split
    · exact head_lparen _ _
    · exact Head.cons (by simp [tk, startTy, h.1]) rfl _
  | .infix t l none, h, q, ws => by simp [fragN] at h
  | .infix t l (some r), h, q, ws => by
    simp only [fragN, Bool.and_eq_true] at h
    simp only [exprToks]
    split
    · exact head_lparen _ _
    · exact (head_opt l h.1.2 (precOf t.type) ws).append _
  | .call t f args, h, q, ws => by
    simp only [fragN, Bool.and_eq_true] at h
    simp only [exprToks, List.append_assoc]
    exact (head_opt f h.1.2 prioCALL ws).append _
  | .array t es, h, q, ws => by
    simp only [exprToks]; exact Head.cons (show startTy TokType.LBRACKET = true by decide) rfl _
  | .control t, h, q, ws => by
    simp only [fragN, Bool.or_eq_true, beq_iff_eq] at h
    simp only [exprToks]; exact Head.cons (by rcases h with h | h <;> simp [tk, h, startTy]) rfl _
  | .post t p, h, q, ws => by
    simp only [fragN, Bool.and_eq_true, Bool.or_eq_true, beq_iff_eq] at h
    simp only [exprToks]
    split
    · exact head_lparen _ _
    · exact Head.cons (by rcases h.2 with h' | h' <;> simp [tk, h', startTy]) rfl _
  | .builtin t ps, h, q, ws => by
    simp only [fragN, Bool.and_eq_true] at h
    simp only [exprToks]; exact Head.cons (by simp [tk, startTy, h.1]) rfl _
  | .func t nm ps b v isL, h, q, ws => by
    cases isL with
    | false =>
      simp only [fragN, Bool.false_eq_true, if_false, Bool.and_eq_true, beq_iff_eq] at h
      simp only [exprToks, Bool.false_eq_true, if_false, List.cons_append]
      exact Head.cons (by simp [tk, startTy, h.1.1.1]) rfl _
    | true =>
      simp only [fragN, if_true, Bool.and_eq_true, beq_iff_eq] at h
      simp only [exprToks, if_true]
      by_cases ho : prioLAMBDA < q
      · simp only [ho, decide_true, if_true, List.cons_append, List.nil_append, List.append_assoc]
        exact head_lparen _ _
      · simp only [ho, decide_false, Bool.false_eq_true, if_false, List.nil_append, Bool.not_false, Bool.true_and, List.append_nil]
        split
        · -- one parameter: an identifier or `..`
          rename_i hlen
          match ps, hlen, h with
          | [x], _, h =>
            have hok := h.1.2
            simp only [lambdaParamsOK, Bool.and_eq_true, List.all_cons, List.all_nil, Bool.and_true] at hok
            cases x with
            | none => simp [isParam] at hok
            | some n =>
              cases n <;> first
                | (simp only [isParam, Bool.or_eq_true, beq_iff_eq] at hok
                   simp only [listToks, Bool.false_eq_true, if_false, exprToksO, exprToks, Bool.false_and, List.nil_append, List.cons_append,
                     List.append_nil, List.append_assoc]
                   exact Head.cons' (by rcases hok.1 with h' | h' <;> simp [tk, h', startTy])
                     (by rcases hok.1 with h' | h' <;> simp [tk, h', isOpener]) _)
                | simp [isParam] at hok
          | [], hlen, _ => simp at hlen
          | _ :: _ :: _, hlen, _ => simp at hlen
        · simp only [List.cons_append]; exact head_lparen _ _
  | .forE t cnd b, h, q, ws => by
    simp only [exprToks, List.cons_append]; exact Head.cons (show startTy TokType.FOR = true by decide) rfl _
  | .ifE t cnd a b, h, q, ws => by
    simp only [exprToks, List.cons_append]; exact Head.cons (show startTy TokType.IF = true by decide) rfl _
  | .index t l i, h, q, ws => by
    have hl : fragO c ap l = true := by
      simp only [fragN, Bool.and_eq_true] at h; exact h.1
    simp only [exprToks]
    by_cases hn : (ap || decide (precOf t.type < q)) = true
    · simp only [hn, if_true, List.cons_append, List.nil_append]
      exact head_lparen _ _
    · simp only [hn, Bool.false_eq_true, if_false, List.nil_append, Bool.not_false, Bool.true_and, List.append_nil]
      split
      · simp only [List.cons_append]; exact head_lparen _ _
      · simp only [List.append_assoc]; exact (head_opt l hl (precOf t.type) ws).append _
  | .macroLit t ps b, h, q, ws => by
    simp only [fragN, Bool.and_eq_true, beq_iff_eq] at h
    simp only [exprToks]; exact Head.cons (by simp [tk, startTy, h.1.1]) rfl _
  | .mapLit t kvs, h, q, ws => by
    simp only [exprToks, List.cons_append]; exact Head.cons' (show startTy TokType.LBRACE = true by decide) (by simp [sym, isOpener]) _
  | .comment _ _ _, h, _, _ | .ret _ _, h, _, _ => by simp [fragN] at h
theorem head_opt : ∀ (t : Option Node), fragO c ap t = true → ∀ (q : Nat) (ws : Bool), Head ws (exprToksO c ap q ws t)
  | none, h, _, _ => by simp [fragO] at h
  | some n, h, q, ws => by
    simp only [fragO] at h
    simp only [exprToksO]; exact head_node n h q ws
end

/-! ### expressions -/

/-- the round-trip property of one expression tree: on its rendering in context `q`, `parseExpression P`
does what the expression loop at level `P` does from the state after it, with the tree as left operand -/
def GP (s : TokStream) (c ap : Bool) (t : Node) : Prop :=
  ∀ (ws : Bool) (q P i j : Nat) (res : ONode × PState),
    Compat P q → Seg s i (exprToks c ap q ws t) → j + 1 = i + (exprToks c ap q ws t).length → Stop q (s.get (j + 1)) →
    Ev (fun f => parseExpressionLoop s f P (some t) (stAt s j) = .ok res) →
    Ev (fun f => parseExpression s f P (stAt s i) = .ok res)

/-- the token after an operand is not `=>`, `++`, `--` -/
def NotCont (x : Tok) : Prop := x.type ≠ .LAMBDA ∧ x.type ≠ .INCR ∧ x.type ≠ .DECR

theorem Stop.notCont {q : Nat} {x : Tok} (h : Stop q x) : NotCont x := ⟨h.1, h.2.1, h.2.2.1⟩

/-- the same at any level and in front of any such token (one-token expressions) -/
def GPA (s : TokStream) (t : Node) : Prop :=
  ∀ (c ap ws : Bool) (q P i j : Nat) (res : ONode × PState),
    Seg s i (exprToks c ap q ws t) → j + 1 = i + (exprToks c ap q ws t).length → NotCont (s.get (j + 1)) →
    Ev (fun f => parseExpressionLoop s f P (some t) (stAt s j) = .ok res) →
    Ev (fun f => parseExpression s f P (stAt s i) = .ok res)

theorem GPA.gp {t : Node} (h : GPA s t) : GP s c ap t := fun ws q P i j res _ hseg hj hstop => h c ap ws q P i j res hseg hj hstop.notCont

/-- a one-token expression, at any level -/
theorem pE_atom {P i : Nat} {res : ONode × PState} {nd : Node} {fn : PrefixFn}
    (h1 : (s.get i).type ≠ .EOL) (h2 : lookup prefixRegs (s.get i).type = some fn)
    (h3 : ∀ f, prefixDispatch s (f + 1) fn (stAt s i) = .ok (some nd, stAt s i)) (h4 : (s.get (i + 1)).type ≠ .LAMBDA) :
    Ev (fun f => parseExpressionLoop s f P (some nd) (stAt s i) = .ok res) →
    Ev (fun f => parseExpression s f P (stAt s i) = .ok res) := by
  refine Ev.step 1 1 (fun F h1F hF f hf => ?_)
  obtain ⟨g, rfl⟩ : ∃ g, f = g + 1 := ⟨f - 1, by omega⟩
  rw [pE_step (s := s) (st := stAt s i) (by simpa using h1) (by simpa using h2) (h3 g) (by simpa using h4)]
  exact hF _ hf

theorem gpa_ident (t : Tk) (h : t.type = .IDENT ∨ t.type = .DOTDOT) : GPA s (.ident t) := by
  intro c ap ws q P i j res hseg hj hstop
  simp only [exprToks, Seg_cons, Seg_nil, and_true, List.length_cons, List.length_nil] at hseg hj
  obtain rfl : j = i := by omega
  have hty := seg_type hseg
  simp only [tk] at hty
  refine pE_atom (fn := .parseIdentifier) (by rw [hty]; rcases h with h | h <;> rw [h] <;> decide)
    (by rw [hty]; rcases h with h | h <;> rw [h] <;> decide) (fun f => ?_) hstop.1
  rw [pd_ident, parseIdentifier_ok (by simpa using postfix_none _ hstop.2.1 hstop.2.2), stAt_cur, seg_tk hseg]

theorem gpa_strLit (t : Tk) (h : t.type = .STRING) : GPA s (.strLit t) := by
  intro c ap ws q P i j res hseg hj hstop
  simp only [exprToks, Seg_cons, Seg_nil, and_true, List.length_cons, List.length_nil] at hseg hj
  obtain rfl : j = i := by omega
  have hty := seg_type hseg
  simp only [tk] at hty
  refine pE_atom (fn := .parseStringLiteral) (by rw [hty, h]; decide) (by rw [hty, h]; decide) (fun f => ?_) hstop.1
  rw [pd_str, parseStringLiteral_ok, stAt_cur, seg_tk hseg]

theorem gpa_boolean (t : Tk) (h : t.type = .TRUE ∨ t.type = .FALSE) : GPA s (.boolean t) := by
  intro c ap ws q P i j res hseg hj hstop
  simp only [exprToks, Seg_cons, Seg_nil, and_true, List.length_cons, List.length_nil] at hseg hj
  obtain rfl : j = i := by omega
  have hty := seg_type hseg
  simp only [tk] at hty
  refine pE_atom (fn := .parseBoolean) (by rw [hty]; rcases h with h | h <;> rw [h] <;> decide)
    (by rw [hty]; rcases h with h | h <;> rw [h] <;> decide) (fun f => ?_) hstop.1
  rw [pd_bool, parseBoolean_ok, stAt_cur, seg_tk hseg]

theorem gpa_intLit (t : Tk) (h : t.type = .INT) : GPA s (.intLit t) := by
  intro c ap ws q P i j res hseg hj hstop
  simp only [exprToks, Seg_cons, Seg_nil, and_true, List.length_cons, List.length_nil] at hseg hj
  obtain rfl : j = i := by omega
  have hty := seg_type hseg
  have hnum := seg_num hseg
  simp only [tkNum] at hty hnum
  refine pE_atom (fn := .parseIntegerLiteral) (by rw [hty, h]; decide) (by rw [hty, h]; decide) (fun f => ?_) hstop.1
  rw [pd_int, parseIntegerLiteral_int (by simpa using hnum), stAt_cur, seg_tkNum hseg]

theorem gpa_floatLit (t : Tk) (h : t.type = .INT ∨ t.type = .FLOAT) : GPA s (.floatLit t) := by
  intro c ap ws q P i j res hseg hj hstop
  simp only [exprToks, Seg_cons, Seg_nil, and_true, List.length_cons, List.length_nil] at hseg hj
  obtain rfl : j = i := by omega
  have hty := seg_type hseg
  have hnum := seg_num hseg
  simp only [tkNum] at hty hnum
  rcases h with h | h
  · refine pE_atom (fn := .parseIntegerLiteral) (by rw [hty, h]; decide) (by rw [hty, h]; decide) (fun f => ?_) hstop.1
    rw [pd_int, parseIntegerLiteral_float (by simpa using hnum), stAt_cur, seg_tkNum hseg]
  · refine pE_atom (fn := .parseFloatLiteral) (by rw [hty, h]; decide) (by rw [hty, h]; decide) (fun f => ?_) hstop.1
    rw [pd_float, parseFloatLiteral_ok (by simpa using hnum), stAt_cur, seg_tkNum hseg]

/-- a parenthesised expression, at any level: `( body )` from `i` to `j + 1` -/
theorem grp {t : Node} {P i j : Nat} {res : ONode × PState}
    (body : ∀ res', Ev (fun f => parseExpressionLoop s f prioLOWEST (some t) (stAt s j) = .ok res') →
      Ev (fun f => parseExpression s f prioLOWEST (stAt s (i + 1)) = .ok res'))
    (hopen : (s.get i).type = .LPAREN) (hclose : (s.get (j + 1)).type = .RPAREN) (hfollow : (s.get (j + 2)).type ≠ .LAMBDA) :
    Ev (fun f => parseExpressionLoop s f P (some t) (stAt s (j + 1)) = .ok res) →
    Ev (fun f => parseExpression s f P (stAt s i) = .ok res) := by
  have hin := body (some t, stAt s j) (ev_loop_stop (Stop_of_type (by rw [hclose]; decide) (by rw [hclose]; decide)
    (by rw [hclose]; decide) (by rw [hclose]; decide)))
  refine Ev.step2 0 3 (fun F _ h1 h2 f hf => ?_) hin
  rw [pE_step (s := s) (st := stAt s i) (fn := .parseGroupedExpression) (l := some t) (st1 := stAt s (j + 1))
    (by simp [hopen]) (by simp only [stAt_cur, hopen]; decide) ?_ (by simpa using hfollow)]
  · exact h2 _ (by omega)
  · rw [pd_grp, parseGroupedExpression_ok (st1 := stAt s j) (by simpa using h1 f hf) (by simpa using hclose), advance_stAt]

theorem gpa_control (t : Tk) (h : t.type = .BREAK ∨ t.type = .CONTINUE) : GPA s (.control t) := by
  intro c ap ws q P i j res hseg hj hstop
  simp only [exprToks, Seg_cons, Seg_nil, and_true, List.length_cons, List.length_nil] at hseg hj
  obtain rfl : j = i := by omega
  have hty := seg_type hseg
  simp only [tk] at hty
  refine pE_atom (fn := .parseControlExpression) (by rw [hty]; rcases h with h | h <;> rw [h] <;> decide)
    (by rw [hty]; rcases h with h | h <;> rw [h] <;> decide) (fun f => ?_) hstop.1
  rw [pd_control, parseControlExpression_ok, stAt_cur, seg_tk hseg]

theorem postfix_some : ∀ t : TokType, t = .INCR ∨ t = .DECR → lookup postfixRegs t = some .parsePostfixExpression ∧ precOf t = 11 := by
  intro t h; rcases h with rfl | rfl <;> decide

/-- `p++` without parentheses, at any level: tokens `p` at `i`, the operator at `i + 1` -/
theorem post_body {t p : Tk} (ht : t.type = .INCR ∨ t.type = .DECR) (hp : p.type = .IDENT ∨ p.type = .DOTDOT) (w : Bool) (P i : Nat) (res : ONode × PState)
    (hseg : Seg s i [tk p w, tk t false]) (hfollow : (s.get (i + 2)).type ≠ .LAMBDA) :
    Ev (fun f => parseExpressionLoop s f P (some (.post t p)) (stAt s (i + 1)) = .ok res) →
    Ev (fun f => parseExpression s f P (stAt s i) = .ok res) := by
  simp only [Seg_cons, Seg_nil, and_true] at hseg
  have hty := seg_type hseg.1
  have hty2 := seg_type hseg.2
  simp only [tk] at hty hty2
  refine Ev.step 1 1 (fun F h1F hF f hf => ?_)
  obtain ⟨g, rfl⟩ : ∃ g, f = g + 1 := ⟨f - 1, by omega⟩
  rw [pE_step (s := s) (st := stAt s i) (fn := .parseIdentifier) (l := some (.post t p)) (st1 := stAt s (i + 1))
    (by simp only [stAt_cur, hty]; rcases hp with h | h <;> rw [h] <;> decide)
    (by simp only [stAt_cur, hty]; rcases hp with h | h <;> rw [h] <;> decide) ?_ (by simpa using hfollow)]
  · exact hF _ hf
  · rw [pd_ident, parseIdentifier_post (by simp only [stAt_peek, hty2]; exact (postfix_some _ ht).1), advance_stAt, stAt_peek, stAt_cur,
      seg_tk hseg.1, seg_tk hseg.2]

theorem gpa_post (t p : Tk) (ht : t.type = .INCR ∨ t.type = .DECR) (hp : p.type = .IDENT ∨ p.type = .DOTDOT) : GPA s (.post t p) := by
  intro c ap ws q P i j res hseg hj hstop
  simp only [exprToks] at hseg hj
  by_cases hn : (ap || decide (precOf t.type < q)) = true
  · rw [if_pos hn] at hseg hj
    simp only [List.length_cons, List.length_nil] at hj
    obtain rfl : j = i + 3 := by omega
    simp only [Seg_cons, Seg_nil, and_true] at hseg
    refine grp (t := .post t p) (i := i) (j := i + 2) (fun res' => ?_) (by have := seg_type hseg.1; simpa [lparen, sym] using this)
      (by have := seg_type hseg.2.2.2; simpa [rparen, sym] using this) hstop.1
    exact post_body ht hp false prioLOWEST (i + 1) res' (by simp only [Seg_cons, Seg_nil, and_true]; exact ⟨hseg.2.1, hseg.2.2.1⟩)
      (by rw [seg_type hseg.2.2.2]; decide)
  · rw [if_neg hn] at hseg hj
    simp only [List.length_cons, List.length_nil] at hj
    obtain rfl : j = i + 1 := by omega
    exact post_body ht hp ws P i res hseg hstop.1

theorem stop_rparen {q j : Nat} (h : key (s.get j) = key rparen) (hq : 1 ≤ q) : Stop q (s.get j) := by
  have := seg_type h
  simp only [rparen, sym] at this
  exact Stop_of_type (by rw [this]; decide) (by rw [this]; decide) (by rw [this]; decide)
    (by rw [this]; exact ⟨hq, by decide⟩)

/-- a prefix expression without its parentheses, at any level -/
theorem pre_body {t : Tk} {r : Node} (hr : GP s c ap r) (hop : preOp t.type = true) (w : Bool) (P i j : Nat)
    (res : ONode × PState) (hseg : Seg s i (tk t w :: exprToks c ap prioPREFIX false r))
    (hj : j + 1 = i + 1 + (exprToks c ap prioPREFIX false r).length) (hstop : Stop prioPREFIX (s.get (j + 1))) :
    Ev (fun f => parseExpressionLoop s f P (some (.pre t (some r))) (stAt s j) = .ok res) →
    Ev (fun f => parseExpression s f P (stAt s i) = .ok res) := by
  simp only [Seg_cons] at hseg
  have h1 := hr false prioPREFIX prioPREFIX (i + 1) j (some r, stAt s j) Compat_prefix hseg.2 (by omega) hstop (ev_loop_stop hstop)
  have hty := seg_type hseg.1
  simp only [tk] at hty
  have hf := preOp_facts _ hop
  refine Ev.step2 0 3 (fun F _ ha hb f hf' => ?_) h1
  rw [pE_step (s := s) (st := stAt s i) (fn := .parsePrefixExpression) (l := some (.pre t (some r))) (st1 := stAt s j)
    (by simp only [stAt_cur, hty]; exact hf.2) (by simp only [stAt_cur, hty]; exact hf.1) ?_ (by simpa using hstop.1)]
  · exact hb _ (by omega)
  · rw [pd_pre, parsePrefixExpression_ok (st1 := stAt s j) (r := some r) (by simpa using ha f hf'), stAt_cur, seg_tk hseg.1]

theorem gp_pre {t : Tk} {r : Node} (hr : GP s c ap r) (hop : preOp t.type = true) : GP s c ap (.pre t (some r)) := by
  intro ws q P i j res hc hseg hj hstop
  simp only [exprToks, exprToksO] at hseg hj
  by_cases hn : (ap || decide (prioPREFIX ≤ q)) = true
  · rw [if_pos hn] at hseg hj
    simp only [List.cons_append, List.length_cons, List.length_append, List.length_nil] at hj
    simp only [List.cons_append, Seg_cons, Seg_append, Seg_nil, and_true] at hseg
    obtain ⟨j', rfl⟩ : ∃ j', j = j' + 1 := ⟨j - 1, by omega⟩
    have hcl : key (s.get (j' + 1)) = key rparen := by
      have := hseg.2.2.2; rwa [show i + 1 + 1 + (exprToks c ap prioPREFIX false r).length = j' + 1 by omega] at this
    refine grp (t := .pre t (some r)) (i := i) (j := j') (fun res' => ?_) (by have := seg_type hseg.1; simpa [lparen, sym] using this)
      (by have := seg_type hcl; simpa [rparen, sym] using this) hstop.1
    exact pre_body hr hop false prioLOWEST (i + 1) j' res' (by simp only [Seg_cons]; exact ⟨hseg.2.1, hseg.2.2.1⟩) (by omega)
      (stop_rparen hcl (by decide))
  · rw [if_neg hn] at hseg hj
    simp only [List.length_cons] at hj
    simp only [Bool.or_eq_true, decide_eq_true_eq, not_or, Nat.not_le] at hn
    exact pre_body hr hop ws P i j res hseg (by omega) (hstop.mono (by omega))

theorem Head.length_pos {ws : Bool} {l : List Tok} (h : Head ws l) : 1 ≤ l.length := by
  obtain ⟨x, rest, rfl, _⟩ := h; simp

theorem Head.seg_start {ws : Bool} {l : List Tok} {i : Nat} (h : Head ws l) (hs : Seg s i l) : startTy (s.get i).type = true := by
  obtain ⟨x, rest, rfl, h1, _⟩ := h
  rw [seg_type hs.1]; exact h1

/-- a binary expression without its parentheses -/
theorem infix_body {t : Tk} {l r : Node} (hl : GP s c ap l) (hr : GP s c ap r) (hfl : fragN c ap l = true) (hfr : fragN c ap r = true)
    (hop : binOp t.type = true) (w w1 w2 : Bool) (q P i j : Nat) (res : ONode × PState)
    (hq : q ≤ precOf t.type) (hc : Compat P q)
    (hseg : Seg s i (exprToks c ap (precOf t.type) w l ++ tk t w1 :: exprToks c ap (precOf t.type + 1) w2 r))
    (hj : j + 1 = i + (exprToks c ap (precOf t.type) w l).length + 1 + (exprToks c ap (precOf t.type + 1) w2 r).length)
    (hstop : Stop q (s.get (j + 1))) :
    Ev (fun f => parseExpressionLoop s f P (some (.infix t (some l) (some r))) (stAt s j) = .ok res) →
    Ev (fun f => parseExpression s f P (stAt s i) = .ok res) := by
  have hb := binOp_facts _ hop
  have hL := (head_node l hfl (precOf t.type) w).length_pos
  obtain ⟨jl, hjl⟩ : ∃ jl, jl + 1 = i + (exprToks c ap (precOf t.type) w l).length := ⟨i + (exprToks c ap (precOf t.type) w l).length - 1, by omega⟩
  simp only [Seg_append, Seg_cons] at hseg
  rw [← hjl] at hseg
  have hty := seg_type hseg.2.1
  simp only [tk] at hty
  have hP : P < precOf t.type := hc.2.2 t.type (by simp [leftOp, hop]) hq
  refine fun h => hl w (precOf t.type) P i jl res (hc.mono hq) hseg.1 hjl
    (Stop_of_type (by rw [hty]; exact hb.2.2.2.2.2.1) (by rw [hty]; exact hb.2.2.2.2.2.2.1) (by rw [hty]; exact hb.2.2.2.2.2.2.2.1)
      (by rw [hty]; exact ⟨Nat.le_refl _, hb.2.2.2.2.2.2.2.2.2.2⟩)) (?_ : Ev _)
  have h1 := hr w2 (precOf t.type + 1) (precOf t.type) (jl + 2) j (some r, stAt s j)
    (Compat.of_lt (by omega) (by omega)) hseg.2.2 (by omega) (hstop.mono (by omega)) (ev_loop_stop (hstop.mono hq))
  have hstart := (head_node r hfr (precOf t.type + 1) w2).seg_start hseg.2.2
  refine Ev.step2 0 3 (fun F _ ha hb' f hf => ?_) h1 h
  rw [loop_step (s := s) (st := stAt s jl) (fn := .parseInfixExpression) (l' := some (.infix t (some l) (some r))) (st1 := stAt s j)
    (by simp only [stAt_peek, hty]; exact hb.2.2.2.2.1) (by simp only [stAt_peek, hty]; exact hP)
    (by simp only [stAt_peek, hty]; exact hb.2.2.2.1)
    (by simp only [stAt_peek, hty]; exact fun h => hb.2.2.2.2.2.2.2.2.1 h.1)
    (by simp only [stAt_peek, hty]; exact fun h => hb.2.2.2.2.2.2.2.2.2.1 h.1) ?_]
  · exact hb' _ (by omega)
  · rw [id_infix, advance_stAt, parseInfixExpression_ok (st1 := stAt s j) (r := some r)
      (by simp only [stAt_peek]; exact fun h => (startTy_facts _ hstart).2.1 h.2)
      (by simp only [stAt_cur, hty, advance_stAt]; exact ha f hf), stAt_cur, seg_tk hseg.2.1]

theorem gp_infix {t : Tk} {l r : Node} (hl : GP s c ap l) (hr : GP s c ap r) (hfl : fragN c ap l = true) (hfr : fragN c ap r = true)
    (hop : binOp t.type = true) (hna : sameAssociativeOperator t r = false) : GP s c ap (.infix t (some l) (some r)) := by
  intro ws q P i j res hc hseg hj hstop
  have hb := binOp_facts _ hop
  simp only [exprToks, exprToksO, hna, Bool.false_eq_true, if_false] at hseg hj
  by_cases hn : (ap || decide (precOf t.type < q)) = true
  · rw [if_pos hn] at hseg hj
    simp only [List.cons_append, List.append_assoc, List.length_cons, List.length_append, List.length_nil] at hj
    simp only [List.cons_append, List.append_assoc, Seg_cons] at hseg
    obtain ⟨j', rfl⟩ : ∃ j', j = j' + 1 := ⟨j - 1, by omega⟩
    have hseg2 := hseg.2
    rw [← List.cons_append, ← List.append_assoc, Seg_append] at hseg2
    have hcl : key (s.get (j' + 1)) = key rparen := by
      have := hseg2.2.1
      simp only [List.length_append, List.length_cons] at this
      rwa [show i + 1 + ((exprToks c ap (precOf t.type) false l).length + ((exprToks c ap (precOf t.type + 1) (!c) r).length + 1)) = j' + 1 by omega] at this
    refine grp (t := .infix t (some l) (some r)) (i := i) (j := j') (fun res' => ?_) (by have := seg_type hseg.1; simpa [lparen, sym] using this)
      (by have := seg_type hcl; simpa [rparen, sym] using this) hstop.1
    exact infix_body hl hr hfl hfr hop false (!c) (!c) (precOf t.type) prioLOWEST (i + 1) j' res' (Nat.le_refl _) (Compat_low (by omega))
      hseg2.1 (by omega) (stop_rparen hcl (by omega))
  · rw [if_neg hn] at hseg hj
    simp only [List.length_cons, List.length_append] at hj
    simp only [Bool.or_eq_true, decide_eq_true_eq, not_or, Nat.not_lt] at hn
    exact infix_body hl hr hfl hfr hop ws (!c) (!c) q P i j res hn.2 hc hseg (by omega) hstop

def GPL (s : TokStream) (c ap : Bool) (xs : NList) : Prop := ∀ x ∈ xs, ∃ n, x = some n ∧ fragN c ap n = true ∧ GP s c ap n

theorem GPL.head {x : ONode} {xs : NList} (h : GPL s c ap (x :: xs)) : ∃ n, x = some n ∧ fragN c ap n = true ∧ GP s c ap n :=
  h x (List.mem_cons_self ..)
theorem GPL.tail {x : ONode} {xs : NList} (h : GPL s c ap (x :: xs)) : GPL s c ap xs :=
  fun y hy => h y (List.mem_cons_of_mem _ hy)

/-- what follows an element of a comma list: a comma or the closing token -/
theorem list_follow (c ap : Bool) (q : Nat) (endTok : Tok) (more : NList) :
    ∃ y rest, listToks c ap q true more ++ [endTok] = y :: rest ∧ (y = comma ∨ y = endTok) := by
  cases more with
  | nil => exact ⟨endTok, [], by simp [listToks], Or.inr rfl⟩
  | cons x xs => exact ⟨comma, _, by simp only [listToks, if_true, List.cons_append, List.nil_append, List.append_assoc]; rfl, Or.inl rfl⟩

theorem closer_facts {endTok : Tok} (hend : endTok = rparen ∨ endTok = rbracket) :
    (endTok.type = .RPAREN ∨ endTok.type = .RBRACKET) := by
  rcases hend with rfl | rfl
  · exact Or.inl rfl
  · exact Or.inr rfl

theorem stop_list_follow {q j : Nat} {y endTok : Tok} (hq : 1 ≤ q) (hend : endTok = rparen ∨ endTok = rbracket)
    (hy : y = comma ∨ y = endTok) (h : key (s.get j) = key y) : Stop q (s.get j) := by
  have hty := seg_type h
  have : y.type = .COMMA ∨ y.type = .RPAREN ∨ y.type = .RBRACKET := by
    rcases hy with rfl | rfl
    · exact Or.inl rfl
    · rcases hend with rfl | rfl
      · exact Or.inr (Or.inl rfl)
      · exact Or.inr (Or.inr rfl)
  rcases this with h | h | h <;> rw [h] at hty <;>
    exact Stop_of_type (by rw [hty]; decide) (by rw [hty]; decide) (by rw [hty]; decide)
      (by rw [hty]; exact ⟨hq, by decide⟩)

theorem list_loop (c ap : Bool) (q : Nat) (hq : 1 ≤ q) (endTok : Tok) (hend : endTok = rparen ∨ endTok = rbracket) :
    ∀ (rest acc : NList) (k j : Nat), GPL s c ap rest → Seg s (k + 1) (listToks c ap q true rest ++ [endTok]) →
      j = k + (listToks c ap q true rest).length →
      Ev (fun f => parseExpressionListLoop s f acc (stAt s k) = .ok (acc ++ rest, stAt s j))
  | [], acc, k, j, _, hseg, hj => by
    simp only [listToks, List.nil_append, Seg_cons, Seg_nil, and_true, List.length_nil, Nat.add_zero] at hseg hj
    subst hj
    have hty := seg_type hseg
    refine ⟨1, fun f hf => ?_⟩
    obtain ⟨g, rfl⟩ : ∃ g, f = g + 1 := ⟨f - 1, by omega⟩
    rw [parseExpressionListLoop_stop (by simp only [stAt_peek, hty]; rcases closer_facts hend with h | h <;> rw [h] <;> decide),
      List.append_nil]
  | x :: more, acc, k, j, hg, hseg, hj => by
    obtain ⟨n, rfl, hfn, hgn⟩ := hg.head
    simp only [listToks, if_true, exprToksO, Bool.true_and, List.cons_append, List.nil_append, List.append_assoc, Seg_cons,
      List.length_cons, List.length_append] at hseg hj
    have hE := (head_node n hfn q (!c)).length_pos
    obtain ⟨je, hje⟩ : ∃ je, je + 1 = k + 2 + (exprToks c ap q (!c) n).length := ⟨k + 2 + (exprToks c ap q (!c) n).length - 1, by omega⟩
    rw [Seg_append] at hseg
    obtain ⟨y, rest', hy, hyc⟩ := list_follow c ap q endTok more
    have hfollow : key (s.get (je + 1)) = key y := by
      have := hseg.2.2; rw [hy, Seg_cons] at this
      rw [hje]; exact this.1
    have hstop := stop_list_follow hq hend hyc hfollow
    have h1 := hgn (!c) q prioLOWEST (k + 2) je (some n, stAt s je) (Compat_low hq) hseg.2.1 hje hstop
      (ev_loop_stop (Stop_of_type hstop.1 hstop.2.1 hstop.2.2.1 (by
        have hty := seg_type hfollow
        rcases hyc with rfl | rfl
        · rw [hty]; decide
        · rcases hend with rfl | rfl <;> (rw [hty]; decide))))
    have h2 := list_loop c ap q hq endTok hend more (acc ++ [some n]) je j hg.tail
      (by have := hseg.2.2; rwa [show k + 1 + 1 + (exprToks c ap q (!c) n).length = je + 1 by omega] at this) (by omega)
    refine Ev.step2 0 1 (fun F _ ha hb f hf => ?_) h1 h2
    rw [parseExpressionListLoop_step (x := some n) (st1 := stAt s je) (by simp only [stAt_peek, seg_type hseg.1]; rfl)
      (by simp only [advance_stAt]; exact ha f hf), hb f hf, List.append_assoc]
    rfl

/-- `parseExpressionList` from the opening token at `k` to the closing token at `j` -/
theorem list_parse (c ap : Bool) (q : Nat) (hq : 1 ≤ q) (endTok : Tok) (hend : endTok = rparen ∨ endTok = rbracket)
    (xs : NList) (k j : Nat) (hg : GPL s c ap xs) (hseg : Seg s (k + 1) (listToks c ap q false xs ++ [endTok]))
    (hj : j = k + 1 + (listToks c ap q false xs).length) :
    Ev (fun f => parseExpressionList s f endTok.type (stAt s k) = .ok (some xs, stAt s j)) := by
  cases xs with
  | nil =>
    simp only [listToks, List.nil_append, Seg_cons, Seg_nil, and_true, List.length_nil, Nat.add_zero] at hseg hj
    subst hj
    refine ⟨1, fun f hf => ?_⟩
    obtain ⟨g, rfl⟩ : ∃ g, f = g + 1 := ⟨f - 1, by omega⟩
    rw [parseExpressionList_empty (by simp only [stAt_peek]; exact seg_type hseg), advance_stAt]
  | cons x more =>
    obtain ⟨n, rfl, hfn, hgn⟩ := hg.head
    simp only [listToks, Bool.false_eq_true, if_false, exprToksO, Bool.false_and, List.nil_append, List.append_assoc,
      List.length_append] at hseg hj
    have hE := (head_node n hfn q false).length_pos
    obtain ⟨je, hje⟩ : ∃ je, je + 1 = k + 1 + (exprToks c ap q false n).length := ⟨k + 1 + (exprToks c ap q false n).length - 1, by omega⟩
    rw [Seg_append] at hseg
    have hstart := (head_node n hfn q false).seg_start hseg.1
    obtain ⟨y, rest', hy, hyc⟩ := list_follow c ap q endTok more
    have hfollow : key (s.get (je + 1)) = key y := by
      have := hseg.2; rw [hy, Seg_cons] at this
      rw [hje]; exact this.1
    have hstop := stop_list_follow hq hend hyc hfollow
    have h1 := hgn false q prioLOWEST (k + 1) je (some n, stAt s je) (Compat_low hq) hseg.1 hje hstop
      (ev_loop_stop (Stop_of_type hstop.1 hstop.2.1 hstop.2.2.1 (by
        have hty := seg_type hfollow
        rcases hyc with rfl | rfl
        · rw [hty]; decide
        · rcases hend with rfl | rfl <;> (rw [hty]; decide))))
    obtain ⟨j', rfl⟩ : ∃ j', j = j' + 1 := ⟨j - 1, by omega⟩
    have hsegl : Seg s (je + 1) (listToks c ap q true more ++ [endTok]) := by
      have := hseg.2; rwa [show k + 1 + (exprToks c ap q false n).length = je + 1 by omega] at this
    have h2 := list_loop c ap q hq endTok hend more [some n] je j' hg.tail hsegl (by omega)
    have hclose : (s.get (j' + 1)).type = endTok.type := by
      rw [Seg_append] at hsegl
      have := hsegl.2
      rw [Seg_cons] at this
      rw [show j' + 1 = je + 1 + (listToks c ap q true more).length by omega]
      exact seg_type this.1
    refine Ev.step2 0 1 (fun F _ ha hb f hf => ?_) h1 h2
    rw [parseExpressionList_ok (st1 := stAt s je) (st2 := stAt s j') (x := some n) (args := [some n] ++ more)
      (by simp only [stAt_peek]; intro h; rcases closer_facts hend with h' | h' <;> rw [h'] at h
          · exact (startTy_facts _ hstart).1 h
          · exact (startTy_facts _ hstart).2.1 h)
      (by simp only [advance_stAt]; exact ha f hf) (hb f hf) (by simpa using hclose), advance_stAt]
    rfl

theorem gp_call {fn : Node} {args : NList} (hf : GP s c ap fn) (hff : fragN c ap fn = true) (ha : GPL s c ap args) :
    GP s c ap (.call ⟨.LPAREN, [40]⟩ (some fn) args) := by
  intro ws q P i j res hc hseg hj hstop
  simp only [exprToks, exprToksO, List.append_assoc, List.cons_append, List.length_append, List.length_cons, List.length_nil] at hseg hj
  rw [Seg_append, Seg_cons] at hseg
  have hL := (head_node fn hff prioCALL ws).length_pos
  obtain ⟨jl, hjl⟩ : ∃ jl, jl + 1 = i + (exprToks c ap prioCALL ws fn).length := ⟨i + (exprToks c ap prioCALL ws fn).length - 1, by omega⟩
  rw [← hjl] at hseg
  have hty : (s.get (jl + 1)).type = .LPAREN := seg_type hseg.2.1
  have hws : (s.get (jl + 1)).hadWs = false := key_ws hseg.2.1 (Or.inl rfl)
  have hP : P < 12 := by have := hc.1; omega
  refine fun h => hf ws prioCALL P i jl res (Compat.of_lt hP hc.1) hseg.1 hjl
    (Stop_of_type (by rw [hty]; decide) (by rw [hty]; decide) (by rw [hty]; decide) (by rw [hty]; decide)) (?_ : Ev _)
  have h1 := list_parse c ap prioLOWEST (Nat.le_refl _) rparen (Or.inl rfl) args (jl + 1) j ha hseg.2.2 (by omega)
  refine Ev.step2 0 3 (fun F _ ha' hb f hf' => ?_) h1 h
  rw [loop_step (s := s) (st := stAt s jl) (fn := .parseCallExpression) (l' := some (.call ⟨.LPAREN, [40]⟩ (some fn) args)) (st1 := stAt s j)
    (by simp only [stAt_peek, hty]; decide) (by simp only [stAt_peek, hty]; exact hP)
    (by simp only [stAt_peek, hty]; decide)
    (by simp only [stAt_peek, hws]; simp)
    (by simp only [stAt_peek, hty]; simp) ?_]
  · exact hb _ (by omega)
  · rw [id_call, advance_stAt, parseCallExpression_ok (st1 := stAt s j) (el := args) (ha' f hf'), stAt_cur, key_tk hseg.2.1]
    rfl

theorem gp_array {es : NList} (ha : GPL s c ap es) : GP s c ap (.array ⟨.LBRACKET, [91]⟩ es) := by
  intro ws q P i j res hc hseg hj hstop
  simp only [exprToks, List.cons_append, List.length_append, List.length_cons, List.length_nil] at hseg hj
  rw [Seg_cons] at hseg
  have hty : (s.get i).type = .LBRACKET := seg_type hseg.1
  have h1 := list_parse c ap q hc.2.1 rbracket (Or.inr rfl) es i j ha hseg.2 (by omega)
  refine Ev.step2 0 3 (fun F _ ha' hb f hf' => ?_) h1
  rw [pE_step (s := s) (st := stAt s i) (fn := .parseArrayLiteral) (l := some (.array ⟨.LBRACKET, [91]⟩ es)) (st1 := stAt s j)
    (by simp only [stAt_cur, hty]; decide) (by simp only [stAt_cur, hty]; decide) ?_ (by simpa using hstop.1)]
  · exact hb _ (by omega)
  · rw [pd_arr, parseArrayLiteral_ok (st1 := stAt s j) (el := es) (ha' f hf'), stAt_cur, key_tk hseg.1]
    rfl

theorem gp_builtin {t : Tk} {ps : NList} (ht : builtinOp t.type = true) (ha : GPL s c ap ps) : GP s c ap (.builtin t ps) := by
  intro ws q P i j res hc hseg hj hstop
  simp only [exprToks, List.cons_append, List.length_append, List.length_cons, List.length_nil] at hseg hj
  rw [Seg_cons, Seg_cons] at hseg
  have hty : (s.get i).type = t.type := seg_type hseg.1
  have hty2 : (s.get (i + 1)).type = .LPAREN := seg_type hseg.2.1
  have hb := builtinOp_facts _ ht
  have h1 := list_parse c ap q hc.2.1 rparen (Or.inl rfl) ps (i + 1) j ha hseg.2.2 (by omega)
  refine Ev.step2 0 3 (fun F _ ha' hb' f hf' => ?_) h1
  rw [pE_step (s := s) (st := stAt s i) (fn := .parseBuiltin) (l := some (.builtin t ps)) (st1 := stAt s j)
    (by simp only [stAt_cur, hty]; exact hb.2) (by simp only [stAt_cur, hty]; exact hb.1) ?_ (by simpa using hstop.1)]
  · exact hb' _ (by omega)
  · rw [pd_builtin, parseBuiltin_ok (st1 := stAt s j) (el := ps) (by simpa using hty2) (by simp only [advance_stAt]; exact ha' f hf'),
      stAt_cur, seg_tk hseg.1]

theorem stop_rbracket {q j : Nat} (h : key (s.get j) = key rbracket) (hq : 1 ≤ q) : Stop q (s.get j) := by
  have := seg_type h
  simp only [rbracket, sym] at this
  exact Stop_of_type (by rw [this]; decide) (by rw [this]; decide) (by rw [this]; decide)
    (by rw [this]; exact ⟨hq, by decide⟩)

/-- the index of `a[…]`: its tokens, parsed at level LOWEST in front of the `]` -/
def IPB (s : TokStream) (idx : Node) (toks : List Tok) : Prop :=
  ∀ (i ji : Nat), Seg s i toks → ji + 1 = i + toks.length → (s.get (ji + 1)).type = .RBRACKET →
    Ev (fun f => parseExpression s f prioLOWEST (stAt s i) = .ok (some idx, stAt s ji))

theorem stop_of_rbracket {q j : Nat} (h : (s.get j).type = .RBRACKET) (hq : 1 ≤ q) : Stop q (s.get j) :=
  Stop_of_type (by rw [h]; decide) (by rw [h]; decide) (by rw [h]; decide) (by rw [h]; exact ⟨hq, by decide⟩)

theorem ipb_of_gp {idx : Node} (hi : GP s c ap idx) : IPB s idx (exprToks c ap prioLOWEST false idx) := by
  intro i ji hseg hj hr
  exact hi false prioLOWEST prioLOWEST i ji _ (Compat_low (Nat.le_refl _)) hseg hj (stop_of_rbracket hr (Nat.le_refl _))
    (ev_loop_stop (stop_of_rbracket hr (Nat.le_refl _)))

/-- the open-ended `n:` of `a[n:]` -/
theorem ipb_open {tc : Tk} {lc : Node} (hl : GP s c ap lc) (hfl : fragN c ap lc = true) (htc : tc.type = .COLON) :
    IPB s (.infix tc (some lc) none) (exprToks c ap prioLOWEST false (.infix tc (some lc) none)) := by
  intro i ji hseg hj hr
  have hp : precOf tc.type = 4 := by rw [htc]; decide
  simp only [exprToks, exprToksO, hp, Seg_append, Seg_cons, Seg_nil, and_true, List.length_append, List.length_cons, List.length_nil] at hseg hj
  have hL := (head_node lc hfl 4 false).length_pos
  obtain ⟨jc, rfl⟩ : ∃ jc, ji = jc + 1 := ⟨ji - 1, by omega⟩
  have hcol : key (s.get (jc + 1)) = key (tk tc false) := by
    have := hseg.2; rwa [show i + (exprToks c ap 4 false lc).length = jc + 1 by omega] at this
  have hty : (s.get (jc + 1)).type = .COLON := by rw [seg_type hcol]; exact htc
  refine hl false 4 prioLOWEST i jc _ (Compat_low (by omega)) hseg.1 (by omega)
    (Stop_of_type (by rw [hty]; decide) (by rw [hty]; decide) (by rw [hty]; decide) (by rw [hty]; decide)) ?_
  refine ⟨3, fun f hf => ?_⟩
  obtain ⟨g, rfl⟩ : ∃ g, f = g + 3 := ⟨f - 3, by omega⟩
  rw [loop_step (s := s) (st := stAt s jc) (fn := .parseInfixExpression) (l' := some (.infix tc (some lc) none)) (st1 := stAt s (jc + 1))
    (by simp only [stAt_peek, hty]; decide) (by simp only [stAt_peek, hty]; decide) (by simp only [stAt_peek, hty]; decide)
    (by simp only [stAt_peek, hty]; simp) (by simp only [stAt_peek, hty]; simp) ?_]
  · exact loop_stop_of_Stop (by simp only [stAt_peek]; exact stop_of_rbracket hr (Nat.le_refl _))
  · rw [id_infix, advance_stAt, parseInfixExpression_open (by simp only [stAt_cur]; exact hty) (by simp only [stAt_peek]; exact hr),
      stAt_cur, seg_tk hcol]

/-- `l[idx]` without outer parentheses -/
theorem index_br_body {t : Tk} {l idx : Node} (ht : t.type = .LBRACKET) (hl : GP s c ap l)
    (hi : IPB s idx (exprToks c ap prioLOWEST false idx)) (hfl : fragN c ap l = true)
    (w : Bool) (q P i j : Nat) (res : ONode × PState) (hq : q ≤ 13) (hc : Compat P q)
    (hseg : Seg s i (exprToks c ap 13 w l ++ tk t false :: (exprToks c ap prioLOWEST false idx ++ [rbracket])))
    (hj : j = i + (exprToks c ap 13 w l).length + 1 + (exprToks c ap prioLOWEST false idx).length)
    (hfollow : (s.get (j + 1)).type ≠ .LAMBDA) :
    Ev (fun f => parseExpressionLoop s f P (some (.index t (some l) (some idx))) (stAt s j) = .ok res) →
    Ev (fun f => parseExpression s f P (stAt s i) = .ok res) := by
  have hL := (head_node l hfl 13 w).length_pos
  obtain ⟨jl, hjl⟩ : ∃ jl, jl + 1 = i + (exprToks c ap 13 w l).length := ⟨i + (exprToks c ap 13 w l).length - 1, by omega⟩
  rw [Seg_append, Seg_cons, Seg_append, Seg_cons] at hseg
  rw [← hjl] at hseg
  have hty : (s.get (jl + 1)).type = .LBRACKET := by rw [seg_type hseg.2.1]; exact ht
  have hws : (s.get (jl + 1)).hadWs = false := key_ws hseg.2.1 (Or.inr ht)
  have hP : P < 13 := by
    have := hc.2.2 .LBRACKET (by decide) (by show q ≤ 13; exact hq)
    exact this
  refine fun h => hl w 13 P i jl res (hc.mono hq) hseg.1 hjl
    (Stop_of_type (by rw [hty]; decide) (by rw [hty]; decide) (by rw [hty]; decide) (by rw [hty]; decide)) (?_ : Ev _)
  obtain ⟨ji, rfl⟩ : ∃ ji, j = ji + 1 := ⟨j - 1, by omega⟩
  have hcl : key (s.get (ji + 1)) = key rbracket := by
    have := hseg.2.2.2.1
    rwa [show jl + 1 + 1 + (exprToks c ap prioLOWEST false idx).length = ji + 1 by omega] at this
  have h1 := hi (jl + 2) ji hseg.2.2.1 (by omega) (by have := seg_type hcl; simpa [rbracket, sym] using this)
  refine Ev.step2 0 3 (fun F _ ha hb f hf => ?_) h1 h
  rw [loop_step (s := s) (st := stAt s jl) (fn := .parseIndexExpression) (l' := some (.index t (some l) (some idx))) (st1 := stAt s (ji + 1))
    (by simp only [stAt_peek, hty]; decide) (by simp only [stAt_peek, hty]; exact hP)
    (by simp only [stAt_peek, hty]; decide)
    (by simp only [stAt_peek, hty]; simp)
    (by simp only [stAt_peek, hws]; simp) ?_]
  · exact hb _ (by omega)
  · rw [id_index, advance_stAt, parseIndexExpression_bracket (st1 := stAt s ji) (idx := some idx) (by simpa using hty)
      (by simp only [advance_stAt]; exact ha f hf) (by simp only [stAt_peek]; exact seg_type hcl), stAt_cur, seg_tk hseg.2.1, advance_stAt]

theorem gp_index_br {t : Tk} {l idx : Node} (ht : t.type = .LBRACKET) (hl : GP s c ap l)
    (hi : IPB s idx (exprToks c ap prioLOWEST false idx)) (hfl : fragN c ap l = true) :
    GP s c ap (.index t (some l) (some idx)) := by
  intro ws q P i j res hc hseg hj hstop
  have h1 : (t.type == TokType.DOT) = false := by rw [ht]; decide
  have h2 : (t.type == TokType.LBRACKET) = true := by rw [ht]; decide
  have h3 : precOf t.type = 13 := by rw [ht]; decide
  simp only [exprToks, exprToksO, h1, h2, h3, Bool.false_and, Bool.false_eq_true, if_false, if_true] at hseg hj
  by_cases hn : (ap || decide (13 < q)) = true
  · simp only [hn, if_true, Bool.not_true, Bool.false_and, List.cons_append, List.nil_append, List.append_assoc, List.length_cons,
      List.length_append, List.length_nil] at hseg hj
    rw [Seg_cons] at hseg
    obtain ⟨j', rfl⟩ : ∃ j', j = j' + 1 := ⟨j - 1, by omega⟩
    have hseg2 := hseg.2
    rw [show exprToks c ap 13 false l ++ tk t false :: (exprToks c ap prioLOWEST false idx ++ [rbracket, rparen])
        = (exprToks c ap 13 false l ++ tk t false :: (exprToks c ap prioLOWEST false idx ++ [rbracket])) ++ [rparen] by simp,
      Seg_append] at hseg2
    simp only [List.length_append, List.length_cons, List.length_nil, Seg_cons] at hseg2
    have hcl : key (s.get (j' + 1)) = key rparen := by
      have := hseg2.2.1
      rwa [show i + 1 + ((exprToks c ap 13 false l).length + ((exprToks c ap prioLOWEST false idx).length + (0 + 1) + 1)) = j' + 1 by omega] at this
    refine grp (t := .index t (some l) (some idx)) (i := i) (j := j') (fun res' => ?_) (by have := seg_type hseg.1; simpa [lparen, sym] using this)
      (by have := seg_type hcl; simpa [rparen, sym] using this) hstop.1
    exact index_br_body ht hl hi hfl false 13 prioLOWEST (i + 1) j' res' (Nat.le_refl _) (Compat_low (by omega))
      hseg2.1 (by omega) (by rw [seg_type hcl]; decide)
  · simp only [hn, Bool.false_eq_true, if_false, Bool.not_false, Bool.true_and, List.nil_append, List.append_nil, List.append_assoc,
      List.cons_append, List.length_cons, List.length_append, List.length_nil] at hseg hj
    simp only [Bool.or_eq_true, decide_eq_true_eq, not_or, Nat.not_lt] at hn
    exact index_br_body ht hl hi hfl ws q P i j res hn.2 hc hseg (by omega) hstop.1

/-- the left operand of a `.`: its tokens `toks` are consumed by the loop at any level `P ≤ 11` -/
def LP (s : TokStream) (l : Node) (toks : List Tok) : Prop :=
  ∀ (P i jl : Nat) (res : ONode × PState), P ≤ 11 → Seg s i toks → jl + 1 = i + toks.length → (s.get (jl + 1)).type = .DOT →
    Ev (fun f => parseExpressionLoop s f P (some l) (stAt s jl) = .ok res) →
    Ev (fun f => parseExpression s f P (stAt s i) = .ok res)

/-- the operand after a `.`: parsed at level DOTINDEX -/
def IP (s : TokStream) (idx : Node) (toks : List Tok) : Prop :=
  ∀ (i ji : Nat), Seg s i toks → ji + 1 = i + toks.length → Stop prioDOTINDEX (s.get (ji + 1)) →
    Ev (fun f => parseExpression s f prioDOTINDEX (stAt s i) = .ok (some idx, stAt s ji))

theorem stop_dot {j : Nat} (h : (s.get j).type = .DOT) : Stop 14 (s.get j) :=
  Stop_of_type (by rw [h]; decide) (by rw [h]; decide) (by rw [h]; decide) (by rw [h]; decide)

theorem lp_plain {l : Node} (hl : GP s c ap l) (w : Bool) : LP s l (exprToks c ap 14 w l) := by
  intro P i jl res hP hseg hj hdot
  exact hl w 14 P i jl res (Compat.of_lt (by omega) hP) hseg hj (stop_dot hdot)

theorem lp_paren {l : Node} (hl : GP s c ap l) (w : Bool) : LP s l (lparen w :: exprToks c ap 14 false l ++ [rparen]) := by
  intro P i jl res hP hseg hj hdot
  simp only [List.cons_append, Seg_cons, Seg_append, Seg_nil, and_true, List.length_cons, List.length_append, List.length_nil] at hseg hj
  obtain ⟨j', rfl⟩ : ∃ j', jl = j' + 1 := ⟨jl - 1, by omega⟩
  have hcl : key (s.get (j' + 1)) = key rparen := by
    have := hseg.2.2; rwa [show i + 1 + (exprToks c ap 14 false l).length = j' + 1 by omega] at this
  refine grp (t := l) (i := i) (j := j') (fun res' => ?_) (by have := seg_type hseg.1; simpa [lparen, sym] using this)
    (by have := seg_type hcl; simpa [rparen, sym] using this) (by rw [hdot]; decide)
  exact hl false 14 prioLOWEST (i + 1) j' res' (Compat_low (by omega)) hseg.2.1 (by omega) (stop_rparen hcl (by omega))

theorem ip_paren {idx : Node} (hi : GP s c ap idx) : IP s idx (lparen false :: exprToks c ap prioLOWEST false idx ++ [rparen]) := by
  intro i ji hseg hj hstop
  simp only [List.cons_append, Seg_cons, Seg_append, Seg_nil, and_true, List.length_cons, List.length_append, List.length_nil] at hseg hj
  obtain ⟨j', rfl⟩ : ∃ j', ji = j' + 1 := ⟨ji - 1, by omega⟩
  have hcl : key (s.get (j' + 1)) = key rparen := by
    have := hseg.2.2; rwa [show i + 1 + (exprToks c ap prioLOWEST false idx).length = j' + 1 by omega] at this
  refine grp (t := idx) (i := i) (j := j') (fun res' => ?_) (by have := seg_type hseg.1; simpa [lparen, sym] using this)
    (by have := seg_type hcl; simpa [rparen, sym] using this) hstop.1 (ev_loop_stop hstop)
  exact hi false prioLOWEST prioLOWEST (i + 1) j' res' (Compat_low (Nat.le_refl _)) hseg.2.1 (by omega) (stop_rparen hcl (Nat.le_refl _))

theorem ip_atom {idx : Node} (hi : GPA s idx) (c ap : Bool) : IP s idx (exprToks c ap prioLOWEST false idx) := by
  intro i ji hseg hj hstop
  exact hi c ap false prioLOWEST prioDOTINDEX i ji _ hseg hj hstop.notCont (ev_loop_stop hstop)

/-- `l.idx` without outer parentheses, for any rendering of the two operands -/
theorem dot_body {t : Tk} {l idx : Node} {LT IT : List Tok} (ht : t.type = .DOT) (hl : LP s l LT) (hi : IP s idx IT)
    (hLT : 1 ≤ LT.length) (P i j : Nat) (res : ONode × PState) (hP : P ≤ 11)
    (hseg : Seg s i (LT ++ tk t false :: IT)) (hj : j + 1 = i + LT.length + 1 + IT.length) (hstop : Stop 14 (s.get (j + 1))) :
    Ev (fun f => parseExpressionLoop s f P (some (.index t (some l) (some idx))) (stAt s j) = .ok res) →
    Ev (fun f => parseExpression s f P (stAt s i) = .ok res) := by
  obtain ⟨jl, hjl⟩ : ∃ jl, jl + 1 = i + LT.length := ⟨i + LT.length - 1, by omega⟩
  rw [Seg_append, Seg_cons] at hseg
  rw [← hjl] at hseg
  have hty : (s.get (jl + 1)).type = .DOT := by rw [seg_type hseg.2.1]; exact ht
  refine fun h => hl P i jl res hP hseg.1 hjl hty (?_ : Ev _)
  have h1 := hi (jl + 2) j hseg.2.2 (by omega) hstop
  refine Ev.step2 0 3 (fun F _ ha hb f hf => ?_) h1 h
  rw [loop_step (s := s) (st := stAt s jl) (fn := .parseIndexExpression) (l' := some (.index t (some l) (some idx))) (st1 := stAt s j)
    (by simp only [stAt_peek, hty]; decide) (by simp only [stAt_peek, hty]; show P < 14; omega)
    (by simp only [stAt_peek, hty]; decide)
    (by simp only [stAt_peek, hty]; simp)
    (by simp only [stAt_peek, hty]; simp) ?_]
  · exact hb _ (by omega)
  · rw [id_index, advance_stAt, parseIndexExpression_dot (st1 := stAt s j) (idx := some idx) (by simpa using hty)
      (by simp only [advance_stAt]; exact ha f hf), stAt_cur, seg_tk hseg.2.1]

def dotLeft (c ap w : Bool) (l : Node) : List Tok :=
  if isNumberLiteral (some l) then lparen w :: exprToks c ap 14 false l ++ [rparen] else exprToks c ap 14 w l

def dotIdx (c ap : Bool) (idx : Node) : List Tok :=
  if (isNumberLiteral (some idx) || !isSingleToken (some idx)) then lparen false :: exprToks c ap prioLOWEST false idx ++ [rparen]
  else exprToks c ap prioLOWEST false idx

theorem lp_dot {l : Node} (hl : GP s c ap l) (w : Bool) : LP s l (dotLeft c ap w l) := by
  unfold dotLeft; split
  · exact lp_paren hl w
  · exact lp_plain hl w

theorem dotLeft_pos {l : Node} (hfl : fragN c ap l = true) (w : Bool) : 1 ≤ (dotLeft c ap w l).length := by
  unfold dotLeft; split
  · simp
  · exact (head_node l hfl 14 w).length_pos

theorem ip_dot {idx : Node} (hi : GP s c ap idx) (hfi : fragN c ap idx = true) : IP s idx (dotIdx c ap idx) := by
  unfold dotIdx; split
  · exact ip_paren hi
  · rename_i hcond
    simp only [Bool.or_eq_true, Bool.not_eq_true', not_or, Bool.not_eq_false] at hcond
    cases idx with
    | ident t => simp only [fragN, Bool.or_eq_true, beq_iff_eq] at hfi; exact ip_atom (gpa_ident t hfi) c ap
    | strLit t => simp only [fragN, beq_iff_eq] at hfi; exact ip_atom (gpa_strLit t hfi) c ap
    | boolean t => simp only [fragN, Bool.or_eq_true, beq_iff_eq] at hfi; exact ip_atom (gpa_boolean t hfi) c ap
    | post t p => simp only [fragN, Bool.and_eq_true, Bool.or_eq_true, beq_iff_eq] at hfi; exact ip_atom (gpa_post t p hfi.1 hfi.2) c ap
    | control t => simp [isSingleToken] at hcond
    | _ => simp [isSingleToken] at hcond

theorem gp_index_dot {t : Tk} {l idx : Node} (ht : t.type = .DOT) (hl : GP s c ap l) (hi : GP s c ap idx) (hfl : fragN c ap l = true)
    (hfi : fragN c ap idx = true) : GP s c ap (.index t (some l) (some idx)) := by
  intro ws q P i j res hc hseg hj hstop
  have h1 : (t.type == TokType.DOT) = true := by rw [ht]; decide
  have h2 : (t.type == TokType.LBRACKET) = false := by rw [ht]; decide
  have h3 : precOf t.type = 14 := by rw [ht]; decide
  simp only [exprToks, exprToksO, h1, h2, h3, Bool.true_and, Bool.false_eq_true, if_false, List.append_nil] at hseg hj
  by_cases hn : (ap || decide (14 < q)) = true
  · simp only [hn, if_true, Bool.not_true, Bool.false_and] at hseg hj
    change Seg s i ([lparen ws] ++ dotLeft c ap false l ++ tk t false :: dotIdx c ap idx ++ [rparen]) at hseg
    change j + 1 = i + ([lparen ws] ++ dotLeft c ap false l ++ tk t false :: dotIdx c ap idx ++ [rparen]).length at hj
    simp only [List.cons_append, List.nil_append, List.append_assoc, List.length_cons, List.length_append, List.length_nil] at hseg hj
    rw [Seg_cons] at hseg
    obtain ⟨j', rfl⟩ : ∃ j', j = j' + 1 := ⟨j - 1, by omega⟩
    have hseg2 := hseg.2
    rw [show dotLeft c ap false l ++ tk t false :: (dotIdx c ap idx ++ [rparen])
        = (dotLeft c ap false l ++ tk t false :: dotIdx c ap idx) ++ [rparen] by simp, Seg_append] at hseg2
    simp only [List.length_append, List.length_cons, Seg_cons, Seg_nil, and_true] at hseg2
    have hcl : key (s.get (j' + 1)) = key rparen := by
      have := hseg2.2
      rwa [show i + 1 + ((dotLeft c ap false l).length + ((dotIdx c ap idx).length + 1)) = j' + 1 by omega] at this
    refine grp (t := .index t (some l) (some idx)) (i := i) (j := j') (fun res' => ?_) (by have := seg_type hseg.1; simpa [lparen, sym] using this)
      (by have := seg_type hcl; simpa [rparen, sym] using this) hstop.1
    exact dot_body ht (lp_dot hl false) (ip_dot hi hfi) (dotLeft_pos hfl false) prioLOWEST (i + 1) j' res' (by decide)
      hseg2.1 (by omega) (stop_rparen hcl (by omega))
  · simp only [hn, Bool.false_eq_true, if_false, Bool.not_false, Bool.true_and, List.nil_append, List.append_nil] at hseg hj
    change Seg s i (dotLeft c ap ws l ++ tk t false :: dotIdx c ap idx) at hseg
    change j + 1 = i + (dotLeft c ap ws l ++ tk t false :: dotIdx c ap idx).length at hj
    simp only [List.length_cons, List.length_append] at hj
    simp only [Bool.or_eq_true, decide_eq_true_eq, not_or, Nat.not_lt] at hn
    exact dot_body ht (lp_dot hl ws) (ip_dot hi hfi) (dotLeft_pos hfl ws) P i j res hc.1 hseg (by omega) (hstop.mono hn.2)

end Grol.RT

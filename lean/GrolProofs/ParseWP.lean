import GrolProofs.ParseNoPanic
import GrolProofs.PrintNoPanic
/-
C08 part 2: weakest-precondition calculus over the parser monad and the assertion vocabulary of the
"no error and no continuation ⇒ no missing child, every operator token has a precedence" proof.
-/
namespace Grol.Parser
open Grol.Generated Grol.Printer

/-- an error was recorded or continuation was requested (never undone: every spec carries `D st → D st'`) -/
def D (st : PState) : Prop := st.errors ≠ [] ∨ st.cont = true

/-- the look-ahead situation of `parseExpression`'s silent nil: the next token is `=>` -/
def L (st : PState) : Prop := st.peek.type = .LAMBDA

def GoodO (o : ONode) : Prop := noNilO o = true ∧ precOKO o = true

def GoodL (l : NList) : Prop := noNilL l = true ∧ precOKL l = true

def GoodS (b : Stmts) : Prop := noNilS b = true ∧ precOKS b = true

/-- a node whose root token is neither an identifier nor `..`: `okParamList` rejects it as a lambda parameter -/
def PBO : ONode → Prop
  | none => False
  | some n => n.tok.type ≠ .IDENT ∧ n.tok.type ≠ .DOTDOT

/-- the open-ended `n:` is only produced right before a `]` -/
def OC (r : ONode) (st : PState) : Prop :=
  ∀ t l, r = some (.infix t l none) → D st ∨ st.peek.type = .RBRACKET ∨ L st

def wp (m : PM α) (Q : α → PState → Prop) (st : PState) : Prop :=
  match m st with
  | .ok (a, st') => Q a st'
  | _ => True

theorem wp_bind (m : PM α) (f : α → PM β) (Q : β → PState → Prop) (st : PState) :
    wp (m >>= f) Q st ↔ wp m (fun a st' => wp (f a) Q st') st := by
  show wp (PM.bind m f) Q st ↔ _
  unfold wp PM.bind
  cases m st with
  | ok r => obtain ⟨a, st'⟩ := r; exact Iff.rfl
  | goPanic p => exact Iff.rfl
  | outOfFuel => exact Iff.rfl

theorem wp_pure (a : α) (Q : α → PState → Prop) (st : PState) : wp (pure a : PM α) Q st ↔ Q a st := Iff.rfl
theorem wp_getSt (Q : PState → PState → Prop) (st : PState) : wp getSt Q st ↔ Q st st := Iff.rfl
theorem wp_outOfFuel (Q : α → PState → Prop) (st : PState) : wp (outOfFuel : PM α) Q st ↔ True := Iff.rfl
theorem wp_goPanic (p : PanicSite) (Q : α → PState → Prop) (st : PState) : wp (goPanic p : PM α) Q st ↔ True := Iff.rfl

def advance (s : TokStream) (st : PState) : PState :=
  { st with prev := some st.cur, cur := st.peek, prevPos := st.peek.posAfter, peek := s.get st.idx, idx := st.idx + 1,
            prevNewline := st.nextNewline, nextNewline := (s.get st.idx).hadNl }

theorem wp_nextToken (s : TokStream) (Q : Unit → PState → Prop) (st : PState) :
    wp (nextToken s) Q st ↔ Q () (advance s st) := Iff.rfl
theorem wp_setCont (Q : Unit → PState → Prop) (st : PState) : wp setCont Q st ↔ Q () { st with cont := true } := Iff.rfl
theorem wp_pushErr (e : ErrKind) (Q : Unit → PState → Prop) (st : PState) :
    wp (pushErr e) Q st ↔ Q () { st with errors := e :: st.errors } := Iff.rfl

theorem wp_ite (c : Prop) [Decidable c] (a b : PM α) (Q : α → PState → Prop) (st : PState) :
    wp (if c then a else b) Q st ↔ (if c then wp a Q st else wp b Q st) := by split <;> exact Iff.rfl

/-- consequence rule, used to plug in the specification of a called function -/
theorem wp_conseq {m : PM α} {Q Q' : α → PState → Prop} {st : PState} (h : wp m Q st) (hq : ∀ a st', Q a st' → Q' a st') :
    wp m Q' st := by
  unfold wp at *
  cases hm : m st with
  | ok r => obtain ⟨a, st'⟩ := r; rw [hm] at h; exact hq a st' h
  | goPanic p => trivial
  | outOfFuel => trivial

@[simp] theorem advance_cur (s st) : (advance s st).cur = st.peek := rfl
@[simp] theorem advance_errors (s st) : (advance s st).errors = st.errors := rfl
@[simp] theorem advance_cont (s st) : (advance s st).cont = st.cont := rfl
@[simp] theorem advance_prev (s st) : (advance s st).prev = some st.cur := rfl
@[simp] theorem D_advance (s st) : D (advance s st) ↔ D st := Iff.rfl
@[simp] theorem D_setCont (st : PState) : D { st with cont := true } ↔ True := by simp [D]
@[simp] theorem D_pushErr (st : PState) (e) : D { st with errors := e :: st.errors } ↔ True := by simp [D]

theorem errorLine_wp (s : TokStream) (Q : Unit → PState → Prop) (st : PState) (h : Q () st) : wp (errorLine s) Q st := by
  unfold wp errorLine
  by_cases c : st.peek.lastNl ≤ min st.peek.posAfter s.inputLen
  · simp only [c, if_true]; exact h
  · simp only [c, if_false]


/-! ### `Good` of every node shape the parser builds -/

@[simp] theorem GoodO_none : GoodO none ↔ False := by simp [GoodO, noNilO]
@[simp] theorem PBO_none : PBO none ↔ False := Iff.rfl
@[simp] theorem GoodS_none : GoodS none ↔ False := by simp [GoodS, noNilS]
@[simp] theorem GoodS_some (l : NList) : GoodS (some l) ↔ GoodL l := by simp [GoodS, GoodL, noNilS, precOKS]
@[simp] theorem GoodL_nil : GoodL [] ↔ True := by simp [GoodL, noNilL, precOKL]
@[simp] theorem GoodL_cons (x : ONode) (xs : NList) : GoodL (x :: xs) ↔ GoodO x ∧ GoodL xs := by
  simp [GoodL, GoodO, noNilL, precOKL, Bool.and_eq_true]; constructor <;> (intro h; simp_all)

theorem GoodL_append (a b : NList) : GoodL (a ++ b) ↔ GoodL a ∧ GoodL b := by
  induction a with
  | nil => simp
  | cons x xs ih => simp [ih, and_assoc]

@[simp] theorem GoodL_snoc (a : NList) (x : ONode) : GoodL (a ++ [x]) ↔ GoodL a ∧ GoodO x := by simp [GoodL_append]

@[simp] theorem GoodO_ident (t) : GoodO (some (.ident t)) ↔ True := by simp [GoodO, noNilO, precOKO, Node.noNil, precOK]
@[simp] theorem GoodO_intLit (t) : GoodO (some (.intLit t)) ↔ True := by simp [GoodO, noNilO, precOKO, Node.noNil, precOK]
@[simp] theorem GoodO_floatLit (t) : GoodO (some (.floatLit t)) ↔ True := by simp [GoodO, noNilO, precOKO, Node.noNil, precOK]
@[simp] theorem GoodO_strLit (t) : GoodO (some (.strLit t)) ↔ True := by simp [GoodO, noNilO, precOKO, Node.noNil, precOK]
@[simp] theorem GoodO_boolean (t) : GoodO (some (.boolean t)) ↔ True := by simp [GoodO, noNilO, precOKO, Node.noNil, precOK]
@[simp] theorem GoodO_control (t) : GoodO (some (.control t)) ↔ True := by simp [GoodO, noNilO, precOKO, Node.noNil, precOK]
@[simp] theorem GoodO_comment (t a b) : GoodO (some (.comment t a b)) ↔ True := by simp [GoodO, noNilO, precOKO, Node.noNil, precOK]
@[simp] theorem GoodO_post (t p) : GoodO (some (.post t p)) ↔ (lookupPrec t.type).isSome = true := by
  simp [GoodO, noNilO, precOKO, Node.noNil, precOK]
@[simp] theorem GoodO_ret_none (t) : GoodO (some (.ret t none)) ↔ True := by simp [GoodO, noNilO, precOKO, Node.noNil, precOK]
@[simp] theorem GoodO_ret_some (t n) : GoodO (some (.ret t (some n))) ↔ GoodO (some n) := by
  simp [GoodO, noNilO, precOKO, Node.noNil, precOK]
@[simp] theorem GoodO_pre (t r) : GoodO (some (.pre t r)) ↔ GoodO r := by simp [GoodO, noNilO, precOKO, Node.noNil, precOK]
theorem GoodO_infix_none (t l) : GoodO (some (.infix t l none)) ↔ (lookupPrec t.type).isSome = true ∧ GoodO l ∧ t.type = .COLON := by
  simp only [GoodO, noNilO, precOKO, Node.noNil, precOK, Bool.and_eq_true, beq_iff_eq]
  constructor
  · rintro ⟨⟨a, b⟩, ⟨c, d⟩, _⟩; exact ⟨c, ⟨a, d⟩, b⟩
  · rintro ⟨c, ⟨a, d⟩, b⟩; exact ⟨⟨a, b⟩, ⟨c, d⟩, trivial⟩
theorem GoodO_infix_some (t l n) : GoodO (some (.infix t l (some n))) ↔ (lookupPrec t.type).isSome = true ∧ GoodO l ∧ GoodO (some n) := by
  simp [GoodO, noNilO, precOKO, Node.noNil, precOK, Bool.and_eq_true]; constructor <;> (intro h; simp_all)
@[simp] theorem GoodO_forE (t c b) : GoodO (some (.forE t c b)) ↔ GoodO c ∧ GoodS b := by
  simp [GoodO, GoodS, noNilO, precOKO, Node.noNil, precOK, Bool.and_eq_true]; constructor <;> (intro h; simp_all)
theorem GoodO_ifE_none (t c a) : GoodO (some (.ifE t c a none)) ↔ GoodO c ∧ GoodS a := by
  simp [GoodO, GoodS, noNilO, precOKO, precOKS, Node.noNil, precOK, Bool.and_eq_true]; constructor <;> (intro h; simp_all)
theorem GoodO_ifE_some (t c a l) : GoodO (some (.ifE t c a (some l))) ↔ GoodO c ∧ GoodS a ∧ GoodL l := by
  simp [GoodO, GoodS, GoodL, noNilO, precOKO, precOKS, Node.noNil, precOK, Bool.and_eq_true]; constructor <;> (intro h; simp_all)
@[simp] theorem GoodO_builtin (t ps) : GoodO (some (.builtin t ps)) ↔ GoodL ps := by
  simp [GoodO, GoodL, noNilO, precOKO, Node.noNil, precOK]
@[simp] theorem GoodO_func (t nm ps b v l) : GoodO (some (.func t nm ps b v l)) ↔ GoodL ps ∧ GoodS b := by
  simp [GoodO, GoodL, GoodS, noNilO, precOKO, Node.noNil, precOK, Bool.and_eq_true]; constructor <;> (intro h; simp_all)
@[simp] theorem GoodO_call (t f as) : GoodO (some (.call t f as)) ↔ GoodO f ∧ GoodL as := by
  simp [GoodO, GoodL, noNilO, precOKO, Node.noNil, precOK, Bool.and_eq_true]; constructor <;> (intro h; simp_all)
@[simp] theorem GoodO_array (t es) : GoodO (some (.array t es)) ↔ GoodL es := by
  simp [GoodO, GoodL, noNilO, precOKO, Node.noNil, precOK]
@[simp] theorem GoodO_index (t l i) : GoodO (some (.index t l i)) ↔ (lookupPrec t.type).isSome = true ∧ GoodO l ∧ GoodO i := by
  simp [GoodO, noNilO, precOKO, Node.noNil, precOK, Bool.and_eq_true]; constructor <;> (intro h; simp_all)
@[simp] theorem GoodO_mapLit (t kvs) : GoodO (some (.mapLit t kvs)) ↔ GoodL kvs := by
  simp [GoodO, GoodL, noNilO, precOKO, Node.noNil, precOK]
@[simp] theorem GoodO_macroLit (t ps b) : GoodO (some (.macroLit t ps b)) ↔ GoodL ps ∧ GoodS b := by
  simp [GoodO, GoodL, GoodS, noNilO, precOKO, Node.noNil, precOK, Bool.and_eq_true]; constructor <;> (intro h; simp_all)

end Grol.Parser

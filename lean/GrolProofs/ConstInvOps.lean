import GrolProofs.ConstInvEnv
/-
C07, part 3: operators on values (lean/Grol/Eval/Ops.lean) and the non recursive helpers of
lean/Grol/Eval/Eval.lean.
-/
namespace Grol.K
open Grol.E

/-- result well scoped, state unchanged -/
abbrev OkSame (st : St) : Obj → St → Prop := fun v s => s = st ∧ okObj st.frames.size v = true

theorem np_unmodelled {w : String} : ∀ s, Stop.unmodelled w ≠ .goPanic s := fun _ h => by cases h

theorem okObj_err {n : Nat} {m : String} : okObj n (err m) = true := by simp [err, okObj]

theorem okList_append {n : Nat} {a b : List Obj} (ha : okList n a = true) (hb : okList n b = true) :
    okList n (a ++ b) = true := by
  rw [okList_iff] at *
  intro x hx
  rcases List.mem_append.1 hx with h | h
  · exact ha x h
  · exact hb x h

theorem okList_take {n k : Nat} {a : List Obj} (ha : okList n a = true) : okList n (a.take k) = true := by
  rw [okList_iff] at *
  exact fun x hx => ha x (List.mem_of_mem_take hx)

theorem okList_drop {n k : Nat} {a : List Obj} (ha : okList n a = true) : okList n (a.drop k) = true := by
  rw [okList_iff] at *
  exact fun x hx => ha x (List.mem_of_mem_drop hx)

theorem okPairs_take {n k : Nat} {a : List (Obj × Obj)} (ha : okPairs n a = true) : okPairs n (a.take k) = true := by
  rw [okPairs_iff] at *
  exact fun x hx => ha x (List.mem_of_mem_take hx)

theorem okPairs_drop {n k : Nat} {a : List (Obj × Obj)} (ha : okPairs n a = true) : okPairs n (a.drop k) = true := by
  rw [okPairs_iff] at *
  exact fun x hx => ha x (List.mem_of_mem_drop hx)

theorem okList_set {n k : Nat} {a : List Obj} {v : Obj} (ha : okList n a = true) (hv : okObj n v = true) :
    okList n (a.set k v) = true := by
  rw [okList_iff] at *
  intro x hx
  rcases List.mem_or_eq_of_mem_set hx with h | h
  · exact ha x h
  · subst h; exact hv

theorem okList_reverse {n : Nat} {a : List Obj} (ha : okList n a = true) : okList n a.reverse = true := by
  rw [okList_iff] at *
  exact fun x hx => ha x (List.mem_reverse.1 hx)

theorem okList_repeat {n : Nat} {a : List Obj} (ha : okList n a = true) : ∀ k, okList n (repeatList a k) = true
  | 0 => by simp [repeatList, okList]
  | k + 1 => by unfold repeatList; exact okList_append ha (okList_repeat ha k)

theorem okList_int64Range {n : Nat} (l r : Int64) : okList n (int64Range l r) = true := by
  rw [okList_iff]
  intro x hx
  unfold int64Range at hx
  simp only [List.mem_map] at hx
  obtain ⟨i, _, rfl⟩ := hx
  simp [okObj]

theorem okObj_getD {n : Nat} {a : List Obj} (ha : okList n a = true) (k : Nat) : okObj n (a.getD k .null) = true := by
  rw [List.getD_eq_getElem?_getD]
  cases h : a[k]? with
  | none => simp [okObj]
  | some x => exact (okList_iff.1 ha) x (List.mem_of_getElem? h)

theorem post_mustBeOk {st : St} (hI : Inv st) (n : Int) : Post (mustBeOk n) st (fun _ s => s = st) := by
  unfold mustBeOk
  split
  · exact Post.stop hI np_unmodelled
  · exact Post.pure hI rfl

theorem mustBeOk_bind {st : St} (hI : Inv st) (n : Int) {f : Unit → M β} {R : β → St → Prop}
    (h : Post (f ()) st R) : Post (mustBeOk n >>= f) st R := by
  refine Post.bind (post_mustBeOk hI n) ?_
  rintro _ s _ _ rfl
  exact h

theorem post_evalIntegerInfix {st : St} (hI : Inv st) (op : String) (l r : Int64) :
    Post (evalIntegerInfix op l r) st (OkSame st) := by
  unfold evalIntegerInfix
  split
  all_goals first
    | exact Post.pure hI ⟨rfl, by simp [okObj]⟩
    | exact Post.pure hI ⟨rfl, okObj_err⟩
    | (split <;> first
        | exact Post.pure hI ⟨rfl, by simp [okObj, err]⟩
        | (split <;> exact Post.pure hI ⟨rfl, by simp [okObj, err]⟩))
    | skip
  all_goals
    try dsimp only
    split
    · exact Post.pure hI ⟨rfl, okObj_err⟩
    · refine mustBeOk_bind hI _ ?_
      exact Post.pure hI ⟨rfl, by simp [newArray, okObj]; exact okList_int64Range l r⟩

theorem post_evalFloatInfix {st : St} (hI : Inv st) (op : String) (l r : Obj) :
    Post (evalFloatInfix op l r) st (OkSame st) := by
  unfold evalFloatInfix
  split
  · split
    all_goals first
      | exact Post.pure hI ⟨rfl, by simp [okObj, err]⟩
      | exact Post.stop hI np_unmodelled
  · exact Post.pure hI ⟨rfl, okObj_err⟩

theorem post_evalStringInfix {st : St} (hI : Inv st) (op : String) (l : List UInt8) (r : Obj) :
    Post (evalStringInfix op l r) st (OkSame st) := by
  unfold evalStringInfix
  split
  · refine mustBeOk_bind hI _ ?_    -- the memory budget check of string + string
    exact Post.pure hI ⟨rfl, by simp [okObj]⟩
  · split
    · exact Post.pure hI ⟨rfl, okObj_err⟩
    · refine mustBeOk_bind hI _ ?_
      split <;> exact Post.pure hI ⟨rfl, by simp [okObj]⟩
  · exact Post.pure hI ⟨rfl, okObj_err⟩

theorem post_evalArrayInfix {st : St} (hI : Inv st) (op : String) {l : List Obj} {r : Obj}
    (hl : okList st.frames.size l = true) (hr : okObj st.frames.size r = true) :
    Post (evalArrayInfix op l r) st (OkSame st) := by
  unfold evalArrayInfix
  split
  · split
    · exact Post.pure hI ⟨rfl, okObj_err⟩
    · split
      · exact Post.pure hI ⟨rfl, okObj_err⟩
      · refine mustBeOk_bind hI _ ?_
        split
        · exact Post.pure hI ⟨rfl, by simp [newArray, okObj, okList]⟩
        · exact Post.pure hI ⟨rfl, by simp only [newArray, okObj]; exact okList_repeat hl _⟩
  · split
    · next r' =>
      refine mustBeOk_bind hI _ ?_
      refine Post.pure hI ⟨rfl, ?_⟩
      simp only [newArray, okObj] at hr ⊢
      exact okList_append hl hr
    · refine Post.bind (post_valueOf hI hr) ?_
      rintro v s hIs _ ⟨rfl, hv, _⟩
      refine Post.pure hIs ⟨rfl, ?_⟩
      simp only [newArray, okObj]
      exact okList_append hl (by simp [okList, hv])
  · exact Post.pure hI ⟨rfl, okObj_err⟩

theorem post_equalsM {st : St} (hI : Inv st) {a b : Obj} (ha : okObj st.frames.size a = true)
    (hb : okObj st.frames.size b = true) : Post (equalsM a b) st (fun _ s => s = st) := by
  unfold equalsM
  try dsimp only
  split
  · exact Post.pure hI rfl
  · refine Post.bind (post_valueOf hI ha) ?_
    rintro x s hIs _ ⟨rfl, _, _⟩
    refine Post.bind (post_valueOf hIs hb) ?_
    rintro y s hIs' _ ⟨rfl, _, _⟩
    refine Post.bind (Q := fun _ s' => s' = s) (Post.liftR hIs' (cmp_npr x y) (fun _ _ => rfl)) ?_
    rintro c s' hIs'' _ rfl
    exact Post.pure hIs'' rfl

theorem post_cmpM {st : St} (hI : Inv st) {a b : Obj} (ha : okObj st.frames.size a = true)
    (hb : okObj st.frames.size b = true) : Post (cmpM a b) st (fun _ s => s = st) := by
  unfold cmpM
  refine Post.bind (post_valueOf hI ha) ?_
  rintro x s hIs _ ⟨rfl, _, _⟩
  refine Post.bind (post_valueOf hIs hb) ?_
  rintro y s hIs' _ ⟨rfl, _, _⟩
  exact Post.liftR hIs' (cmp_npr x y) (fun _ _ => rfl)

theorem post_boolOf {st : St} {x : M α} {g : α → Bool} (h : Post x st (fun _ s => s = st)) :
    Post (x >>= fun a => pure (boolObj (g a))) st (OkSame st) := by
  refine Post.bind h ?_
  rintro a s hIs _ rfl
  exact Post.pure hIs ⟨rfl, by simp [boolObj, okObj]⟩

theorem post_evalInfixOp {st : St} (hI : Inv st) (op : String) {l r : Obj} (hl : okObj st.frames.size l = true)
    (hr : okObj st.frames.size r = true) : Post (evalInfixOp op l r) st (OkSame st) := by
  unfold evalInfixOp
  split
  · exact post_boolOf (g := fun b => b) (post_equalsM hI hl hr)
  · exact post_boolOf (g := fun b => !b) (post_equalsM hI hl hr)
  · exact post_boolOf (g := fun c => c == 1) (post_cmpM hI hl hr)
  · exact post_boolOf (g := fun c => c == -1) (post_cmpM hI hl hr)
  · exact post_boolOf (g := fun c => decide (c ≥ 0)) (post_cmpM hI hl hr)
  · exact post_boolOf (g := fun c => decide (c ≤ 0)) (post_cmpM hI hl hr)
  · exact Post.pure hI ⟨rfl, by simp [boolObj, okObj]⟩
  · exact Post.pure hI ⟨rfl, by simp [boolObj, okObj]⟩
  · split
    · exact post_evalIntegerInfix hI _ _ _
    · exact post_evalFloatInfix hI _ _ _
    · exact post_evalFloatInfix hI _ _ _
    · exact post_evalStringInfix hI _ _ _
    · next l' _ _ _ => exact post_evalArrayInfix hI _ (by simpa [okObj] using hl) hr
    · split
      · refine Post.bind_read (runM_get st) ?_
        simp only [okObj] at hl hr
        have hl' := hl
        have hr' := hr
        refine Post.bind (Q := fun res s => s = st ∧ okPairs st.frames.size res.2 = true)
          (Post.liftR hI (mapAppend_npr _ _ _ _) (fun res hres => ⟨rfl, mapAppend_ok hl' hr' hres⟩)) ?_
        rintro ⟨big', kvs⟩ s hIs _ ⟨rfl, hk⟩
        exact Post.pure hIs ⟨rfl, by simpa [okObj] using hk⟩
      · exact Post.pure hI ⟨rfl, okObj_err⟩
    · exact Post.pure hI ⟨rfl, okObj_err⟩

theorem okObj_makeFirst {n : Nat} {k v : Obj} (hk : okObj n k = true) (hv : okObj n v = true) :
    okObj n (makeFirst k v) = true := by
  simp [makeFirst, okObj, okPairs, keyKey, valueKey, hk, hv]

theorem post_objFirst {st : St} (hI : Inv st) {o : Obj} (ho : okObj st.frames.size o = true) :
    Post (objFirst o) st (OkSame st) := by
  unfold objFirst
  split
  all_goals first
    | exact Post.pure hI ⟨rfl, by simp [okObj]⟩
    | exact Post.pure hI ⟨rfl, okObj_err⟩
    | skip
  · next x xs =>
    simp only [okObj, okList, Bool.and_eq_true] at ho
    exact Post.pure hI ⟨rfl, ho.1⟩
  · next k v xs =>
    simp only [okObj, okPairs, Bool.and_eq_true] at ho
    exact Post.pure hI ⟨rfl, okObj_makeFirst ho.1.1 ho.1.2⟩
  · split
    · exact Post.pure hI ⟨rfl, by simp [okObj]⟩
    · split <;> exact Post.stop hI np_unmodelled
  · next f =>
    refine Post.pure hI ⟨rfl, ?_⟩
    simp only [newArray, okObj]
    rw [okList_iff]
    intro x hx
    simp only [List.mem_map] at hx
    obtain ⟨p, _, rfl⟩ := hx
    simp [okObj]

theorem post_objRest {st : St} (hI : Inv st) {o : Obj} (ho : okObj st.frames.size o = true) :
    Post (objRest o) st (OkSame st) := by
  unfold objRest
  split
  · exact Post.pure hI ⟨rfl, by simp [okObj]⟩
  · split
    · exact Post.pure hI ⟨rfl, by simp [okObj]⟩
    · split
      · exact Post.pure hI ⟨rfl, by simp [okObj]⟩
      · exact Post.stop hI np_unmodelled
  · next els =>
    split
    · exact Post.pure hI ⟨rfl, by simp [okObj]⟩
    · refine Post.pure hI ⟨rfl, ?_⟩
      simp only [newArray, okObj] at ho ⊢
      exact okList_drop ho
  · next big kvs =>
    split
    · exact Post.pure hI ⟨rfl, by simp [okObj]⟩
    · refine Post.bind_read (runM_get st) ?_
      refine Post.pure hI ⟨rfl, ?_⟩
      simp only [okObj] at ho ⊢
      exact okPairs_drop ho
  · exact Post.stop hI np_unmodelled
  · exact Post.pure hI ⟨rfl, okObj_err⟩

theorem okObj_ite {n : Nat} {c : Prop} [Decidable c] {a b : Obj} (ha : okObj n a = true) (hb : okObj n b = true) :
    okObj n (if c then a else b) = true := by
  split <;> assumption

theorem Post.ite {c : Prop} [Decidable c] {a b : M α} {st : St} {Q : α → St → Prop}
    (ha : c → Post a st Q) (hb : ¬ c → Post b st Q) : Post (if c then a else b) st Q := by
  split
  · exact ha ‹_›
  · exact hb ‹_›

theorem okObj_arrayIndex {n : Nat} {els : List Obj} (h : okList n els = true) (idx : Int64) :
    okObj n (arrayIndex els idx) = true := by
  unfold arrayIndex
  exact okObj_ite (by simp [okObj]) (okObj_getD h _)

theorem post_indexIdx {st : St} (hI : Inv st) {left index : Obj} (hl : okObj st.frames.size left = true) :
    Post (indexIdx left index) st (OkSame st) := by
  unfold indexIdx
  dsimp only
  split
  · exact Post.ite (fun _ => Post.pure hI ⟨rfl, by simp [okObj]⟩) (fun _ => Post.pure hI ⟨rfl, by simp [okObj]⟩)
  · simp only [okObj] at hl
    exact Post.pure hI ⟨rfl, okObj_arrayIndex hl _⟩
  · simp only [okObj] at hl
    have hk := hl
    refine Post.bind (Q := fun r s => s = st ∧ ∀ v, r = some v → okObj st.frames.size v = true)
      (Post.liftR hI (mapGet_npr _ _) (fun r hr => ⟨rfl, fun v hv => by subst hv; exact mapGet_ok hk hr⟩)) ?_
    rintro r s hIs _ ⟨rfl, hr⟩
    split
    · next v => exact Post.pure hIs ⟨rfl, hr v rfl⟩
    · exact Post.pure hIs ⟨rfl, by simp [okObj]⟩
  · exact Post.pure hI ⟨rfl, by simp [okObj]⟩
  · exact Post.pure hI ⟨rfl, okObj_err⟩

theorem okObj_evalPrefixOp {n : Nat} (op : String) {r : Obj} (h : okObj n r = true) :
    okObj n (evalPrefixOp op r) = true := by
  unfold evalPrefixOp
  split
  all_goals first
    | exact h
    | exact okObj_err
    | (unfold evalBang; split <;> simp [okObj, err])
    | (unfold evalMinus; split <;> simp [okObj, err])
    | (split <;> simp [okObj, err])

end Grol.K

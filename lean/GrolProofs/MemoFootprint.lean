import GrolProofs.MemoMono
import GrolProofs.EvalInv
import GrolProofs.EnvConst
/-
C04, the footprint lemma.  `applyFunction` stores a result only when the callee frame's miss
counter is the same after the body as before (`C04.store_condition`).  This file says what that
means for the execution of the body:

* `quiet_bind`  — "the counter of frame `e` did not move" is inherited by every sub-computation
  (because counters never decrease, `MemoMono`);
* `envGet_quiet` / `makeRef_quiet` — a `Get` that did not move the counter returned nothing, the
  frame's own function, a value of the frame's own store, or a reference to a binding the purity
  test trusts: a function value, or an all-caps name in a depth-0 frame;
* `triggerNoCache_loud`, `evalDelete_loud` — `del` always moves the counter of the current frame;
* `finishCall_quiet`, `applyFunction_quiet` — a nested call that did not move the CALLER's counter
  was a cache hit, failed to bind its arguments, or had a body that did not move the CALLEE's counter.
-/
namespace Grol.E

/-- running `x` from `st` leaves the miss counter of frame `e` where it was -/
def Quiet (e : Nat) (x : M α) (st : St) : Prop := missOf (stateAfter x st) e = missOf st e

/-- the sandwich: a quiet sequence is quiet in both parts -/
theorem quiet_bind {e : Nat} {x : M α} {f : α → M β} {st : St} (hx : Tr x) (hf : ∀ a, Tr (f a))
    (h : Quiet e (x >>= f) st) :
    Quiet e x st ∧ ∀ a, outcome x st = .ok a → Quiet e (f a) (stateAfter x st) := by
  unfold Quiet at *
  rw [stateAfter_bind] at h
  have h1 := (hx.h st).miss e
  cases ho : outcome x st with
  | error err =>
    rw [ho] at h
    exact ⟨h, fun a ha => by cases ha⟩
  | ok a =>
    rw [ho] at h
    dsimp only at h
    have h2 := ((hf a).h (stateAfter x st)).miss e
    refine ⟨by omega, fun a' ha' => ?_⟩
    cases ha'
    omega

/-- the same for the tail alone when the head is known to have succeeded -/
theorem quiet_tail {e : Nat} {x : M α} {f : α → M β} {st : St} {a : α} (hx : Tr x) (hf : ∀ a, Tr (f a))
    (h : Quiet e (x >>= f) st) (ha : outcome x st = .ok a) : Quiet e (f a) (stateAfter x st) :=
  (quiet_bind hx hf h).2 a ha

/-! ### `TriggerNoCache` and `del` are never quiet -/

theorem run_triggerNoCache {e : Nat} {st : St} {f : Frame} (h : st.frames[e]? = some f) :
    run (triggerNoCache e) st =
      (.ok (), { st with frames := st.frames.setIfInBounds e { f with cantCache := true, getMiss := f.getMiss + 1 } }) := by
  unfold triggerNoCache
  rw [run_modifyFrame, h]

theorem triggerNoCache_loud (e : Nat) (st : St) (hok : outcome (triggerNoCache e) st = .ok ()) :
    missOf (stateAfter (triggerNoCache e) st) e = missOf st e + 1 := by
  cases h : st.frames[e]? with
  | none =>
    have : run (triggerNoCache e) st = (.error (.goPanic "nil environment"), st) := by
      unfold triggerNoCache; rw [run_modifyFrame, h]
    have h2 : outcome (triggerNoCache e) st = (run (triggerNoCache e) st).1 := rfl
    rw [h2, this] at hok
    cases hok
  | some f =>
    have h2 : stateAfter (triggerNoCache e) st = (run (triggerNoCache e) st).2 := rfl
    rw [h2, run_triggerNoCache h]
    dsimp only
    rw [missOf_setIfInBounds st e f _ h]
    simp only [if_true]
    unfold missOf
    rw [h]

theorem triggerNoCache_ok_or_panic (e : Nat) (st : St) :
    outcome (triggerNoCache e) st = .ok () ∨ outcome (triggerNoCache e) st = .error (.goPanic "nil environment") := by
  have h2 : outcome (triggerNoCache e) st = (run (triggerNoCache e) st).1 := rfl
  rw [h2]
  unfold triggerNoCache
  rw [run_modifyFrame]
  cases st.frames[e]? <;> simp

/-- `del` bumps the counter of the current frame before anything else: a call that ran `del`
(and did not die in a Go panic on the spot) is never stored -/
theorem evalDelete_loud (fuel : Nat) (node : Node) (st : St) (r : Obj)
    (hok : outcome (evalDelete (fuel + 1) node) st = .ok r) :
    missOf st st.cur < missOf (stateAfter (evalDelete (fuel + 1) node) st) st.cur := by
  unfold evalDelete at hok ⊢
  -- curEnv >>= triggerNoCache >>= rest
  have hrest : ∀ k : Unit → M Obj, (∀ u, Tr (k u)) →
      outcome (curEnv >>= fun c => triggerNoCache c >>= k) st = .ok r →
      missOf st st.cur < missOf (stateAfter (curEnv >>= fun c => triggerNoCache c >>= k) st) st.cur := by
    intro k hk ho
    have e1 : outcome (curEnv >>= fun c => triggerNoCache c >>= k) st = outcome (triggerNoCache st.cur >>= k) st := rfl
    have e2 : stateAfter (curEnv >>= fun c => triggerNoCache c >>= k) st = stateAfter (triggerNoCache st.cur >>= k) st := rfl
    rw [e1] at ho
    rw [e2, stateAfter_bind]
    rw [outcome_bind] at ho
    cases ht : outcome (triggerNoCache st.cur) st with
    | error err => rw [ht] at ho; cases ho
    | ok u =>
      dsimp only
      have hl := triggerNoCache_loud st.cur st ht
      have hm := ((hk u).h (stateAfter (triggerNoCache st.cur) st)).miss st.cur
      omega
  refine hrest _ ?_ hok
  intro u
  have := (allTr fuel)
  split
  · split
    · tr
    · tr
  · split <;> tr
  · refine tr_bind (this.eval _) ?_
    intro index
    split <;> tr
  · tr

/-! ### overwriting or deleting a function-valued binding is never quiet -/

theorem missOf_congr {s s' : St} (h : s'.frames = s.frames) (e : Nat) : missOf s' e = missOf s e := by
  unfold missOf; rw [h]

/-- `functionChanged` on a binding that held a function raises the WRITER's counter -/
theorem functionChanged_loud (w : Nat) (o : Obj) (st : St) (ho : isFuncObj o = true)
    (hok : outcome (functionChanged w (some o)) st = .ok ()) :
    missOf (stateAfter (functionChanged w (some o)) st) w = missOf st w + 1 := by
  have hO : ∀ {α} (x : M α) (s : St), outcome x s = (run x s).1 := fun _ _ => rfl
  have hS : ∀ {α} (x : M α) (s : St), stateAfter x s = (run x s).2 := fun _ _ => rfl
  rw [hO] at hok
  rw [hS]
  unfold functionChanged at hok ⊢
  simp only [ho, if_true] at hok ⊢
  rw [run_bind, run_modifyFrame] at hok ⊢
  cases h : st.frames[w]? with
  | none => rw [h] at hok; cases hok
  | some f =>
    dsimp only
    have hm : run (modify fun st => { st with cache := [] } : M PUnit)
        { st with frames := st.frames.setIfInBounds w { f with getMiss := f.getMiss + 1 } } =
        (.ok ⟨⟩, { st with frames := st.frames.setIfInBounds w { f with getMiss := f.getMiss + 1 }, cache := [] }) := rfl
    rw [hm]
    dsimp only
    have := missOf_setIfInBounds st w f { f with getMiss := f.getMiss + 1 } h w
    simp only [if_true] at this
    refine Eq.trans (missOf_congr (s := { st with frames := st.frames.setIfInBounds w { f with getMiss := f.getMiss + 1 } }) rfl w) ?_
    rw [this]
    unfold missOf
    rw [h]

/-- the store step of an assignment (`update`): overwriting a binding that holds a function strictly
raises the counter of the environment doing the assignment -/
theorem envStoreAt_loud (w e : Nat) (name : String) (val : Obj) (st : St) (fr : Frame) (o r : Obj)
    (hfr : st.frames[e]? = some fr) (hl : lookupStore fr.store name = some o) (ho : isFuncObj o = true)
    (hok : outcome (envStoreAt w e name val) st = .ok r) :
    missOf st w < missOf (stateAfter (envStoreAt w e name val) st) w := by
  have hO : ∀ {α} (x : M α) (s : St), outcome x s = (run x s).1 := fun _ _ => rfl
  have hS : ∀ {α} (x : M α) (s : St), stateAfter x s = (run x s).2 := fun _ _ => rfl
  have e1 : outcome (envStoreAt w e name val) st = outcome (functionChanged w (some o) >>= fun _ =>
      rootBindsFunc name >>= fun rb => (modifyFrame e fun f =>
        { f with store := setStore f.store name val, numSet := if f.depth == 0 then f.numSet + 1 else f.numSet, localFunc := noteLocal f val rb }) >>= fun _ =>
      (pure val : M Obj)) st := by
    rw [hO, hO]; unfold envStoreAt; rw [run_bind, run_getFrame, hfr]; dsimp only; rw [hl]
  have e2 : stateAfter (envStoreAt w e name val) st = stateAfter (functionChanged w (some o) >>= fun _ =>
      rootBindsFunc name >>= fun rb => (modifyFrame e fun f =>
        { f with store := setStore f.store name val, numSet := if f.depth == 0 then f.numSet + 1 else f.numSet, localFunc := noteLocal f val rb }) >>= fun _ =>
      (pure val : M Obj)) st := by
    rw [hS, hS]; unfold envStoreAt; rw [run_bind, run_getFrame, hfr]; dsimp only; rw [hl]
  rw [e1, outcome_bind] at hok
  rw [e2, stateAfter_bind]
  cases hf : outcome (functionChanged w (some o)) st with
  | error err => rw [hf] at hok; cases hok
  | ok u =>
    dsimp only
    have h1 := functionChanged_loud w o st ho hf
    have h2 : Tr (rootBindsFunc name >>= fun rb => (modifyFrame e fun f =>
        { f with store := setStore f.store name val, numSet := if f.depth == 0 then f.numSet + 1 else f.numSet, localFunc := noteLocal f val rb }) >>= fun _ =>
        (pure val : M Obj)) := by tr
    have h3 := (h2.h (stateAfter (functionChanged w (some o)) st)).miss w
    omega

/-! ### nested calls -/

theorem writeOut_frames (b : Grol.Wire.Bytes) (st : St) :
    ∃ s', run (writeOut b) st = (.ok (), s') ∧ s'.frames = st.frames := by
  unfold writeOut
  refine ⟨_, rfl, ?_⟩
  dsimp only
  split <;> rfl

/-- the end of a call that moved the callee's counter always moves the caller's counter:
if the caller's counter did not move, the callee's did not move either -/
theorem finishCall_quiet (f : FuncVal) (args : List Obj) (cur before after : Nat) (cc : Bool) (res : Obj)
    (output : Grol.Wire.Bytes) (st : St) (r : Obj)
    (hok : outcome (finishCall f args cur before after cc res output) st = .ok r)
    (hq : Quiet cur (finishCall f args cur before after cc res output) st) : after = before := by
  refine Classical.byContradiction fun hne => ?_
  have hb : (after != before) = true := by simpa using hne
  have key : ∀ s : St, s.frames = st.frames →
      outcome (triggerNoCache cur >>= fun _ => (pure res : M Obj)) s = .ok r →
      missOf (stateAfter (triggerNoCache cur >>= fun _ => (pure res : M Obj)) s) cur = missOf st cur + 1 := by
    intro s hs ho
    rw [outcome_bind] at ho
    rw [stateAfter_bind]
    cases ht : outcome (triggerNoCache cur) s with
    | error e => rw [ht] at ho; cases ho
    | ok u =>
      dsimp only
      have := triggerNoCache_loud cur s ht
      have e1 : stateAfter (pure res : M Obj) (stateAfter (triggerNoCache cur) s) = stateAfter (triggerNoCache cur) s := rfl
      rw [e1, this]
      unfold missOf
      rw [hs]
  unfold Quiet at hq
  unfold finishCall at hok hq
  simp only [hb, if_true] at hok hq
  by_cases ho : output.isEmpty = true
  · simp only [ho, Bool.not_true, Bool.false_eq_true, if_false] at hok hq
    have := key st rfl hok
    have e1 : (do (pure PUnit.unit : M PUnit); triggerNoCache cur; pure res) = (triggerNoCache cur >>= fun _ => (pure res : M Obj)) := rfl
    rw [e1] at hq
    omega
  · simp only [ho, Bool.not_false, if_true] at hok hq
    obtain ⟨s', hs', hfr⟩ := writeOut_frames output st
    have e1 : outcome (do writeOut output; triggerNoCache cur; pure res) st =
        outcome (triggerNoCache cur >>= fun _ => (pure res : M Obj)) s' := by
      rw [outcome_bind]
      have : outcome (writeOut output) st = (run (writeOut output) st).1 := rfl
      rw [this, hs']
      have : stateAfter (writeOut output) st = (run (writeOut output) st).2 := rfl
      rw [this, hs']
    have e2 : stateAfter (do writeOut output; triggerNoCache cur; pure res) st =
        stateAfter (triggerNoCache cur >>= fun _ => (pure res : M Obj)) s' := by
      rw [stateAfter_bind]
      have : outcome (writeOut output) st = (run (writeOut output) st).1 := rfl
      rw [this, hs']
      have : stateAfter (writeOut output) st = (run (writeOut output) st).2 := rfl
      rw [this, hs']
    rw [e1] at hok
    rw [e2] at hq
    have := key s' hfr hok
    omega

/-- `finishCall` returns the body's result unchanged -/
theorem finishCall_result (f : FuncVal) (args : List Obj) (cur before after : Nat) (cc : Bool) (res : Obj)
    (output : Grol.Wire.Bytes) (s s' : St) (r' : Obj)
    (h : run (finishCall f args cur before after cc res output) s = (.ok r', s')) : r' = res := by
  have tail : ∀ s s', run (do
        if (after != before) = true then
          (triggerNoCache cur >>= fun _ => (pure res : M Obj))
        else if res.isError = true then pure res
        else if holdsFunc res = true then pure res else cacheSet f.key args res output >>= fun _ => pure res) s = (.ok r', s') →
      r' = res := by
    intro s s' h
    split at h
    · rw [run_bind] at h
      cases ht : run (triggerNoCache cur) s with
      | mk a s1 =>
        rw [ht] at h
        cases a with
        | error e => cases h
        | ok u => cases h; rfl
    · split at h
      · cases h; rfl
      split at h
      · cases h; rfl
      · rw [run_bind] at h
        cases ht : run (cacheSet f.key args res output) s with
        | mk a s1 =>
          rw [ht] at h
          cases a with
          | error e => cases h
          | ok u => cases h; rfl
  unfold finishCall at h
  dsimp only at h
  split at h
  · rw [run_bind] at h
    obtain ⟨s1, hs1, _⟩ := writeOut_frames output s
    rw [hs1] at h
    exact tail _ _ h
  · exact tail _ _ h

theorem cacheGet_run (key : String) (args : List Obj) (st : St) :
    ∃ r, run (cacheGet key args) st = (.ok r, st) := by
  unfold cacheGet
  rw [run_bind, run_get]
  dsimp only
  repeat' split
  all_goals exact ⟨_, rfl⟩

/-- the state in which `applyFunction` evaluates the body: the callee frame is current, the writer is fresh -/
def bodyState (s : St) (nenv : Nat) : St := { s with cur := nenv, outs := [] :: s.outs }

/-- a call that completes without moving the CALLER's miss counter was a cache hit, or failed while
binding its arguments, or evaluated its body without moving the CALLEE's miss counter — which is 0 after the
body: binding the parameters made no miss either (`before` is 0, not the counter read after the binding) -/
theorem applyFunction_quiet_full (fuel : Nat) (f : FuncVal) (args : List Obj) (st : St) (v : Obj)
    (hok : outcome (applyFunction (fuel + 1) (.func f) args) st = .ok v)
    (hq : Quiet st.cur (applyFunction (fuel + 1) (.func f) args) st) :
    (∃ out, outcome (cacheGet f.key args) st = .ok (some (v, out))) ∨
    (outcome (extendFunctionEnv f args) st = .ok (.error v)) ∨
    (∃ nenv, outcome (extendFunctionEnv f args) st = .ok (.ok nenv) ∧
      outcome (eval fuel f.body) (bodyState (stateAfter (extendFunctionEnv f args) st) nenv) = .ok v ∧
      Quiet nenv (eval fuel f.body) (bodyState (stateAfter (extendFunctionEnv f args) st) nenv) ∧
      missOf (stateAfter (eval fuel f.body) (bodyState (stateAfter (extendFunctionEnv f args) st) nenv)) nenv = 0) := by
  obtain ⟨r, hr⟩ := cacheGet_run f.key args st
  have hO : ∀ {α} (x : M α) (s : St), outcome x s = (run x s).1 := fun _ _ => rfl
  have hS : ∀ {α} (x : M α) (s : St), stateAfter x s = (run x s).2 := fun _ _ => rfl
  unfold Quiet at hq
  rw [hS] at hq
  rw [hO] at hok
  unfold applyFunction at hok hq
  have hce0 : run curEnv st = (.ok st.cur, st) := rfl
  rw [run_bind, hce0] at hok hq
  dsimp only at hok hq
  rw [run_bind, run_getFrame] at hok hq
  cases hcf0 : st.frames[st.cur]? with
  | none => rw [hcf0] at hok; cases hok
  | some cf0 =>
  rw [hcf0] at hok hq
  dsimp only at hok hq
  -- when the cache is skipped the call counts as a miss (`after` is not 0): excluded at the end by `finishCall_quiet`
  generalize (cf0.localFunc && sameFunction cf0 f) = b at hok hq
  have hr2 : ∃ r2, run (if b = true then (pure none : M (Option (Obj × Grol.Wire.Bytes))) else cacheGet f.key args) st = (.ok r2, st) ∧
      (b = true → r2 = none) ∧ (b = false → r2 = r) := by
    cases b with
    | true => exact ⟨none, rfl, fun _ => rfl, fun h => (by cases h)⟩
    | false => exact ⟨r, hr, fun h => (by cases h), fun _ => rfl⟩
  obtain ⟨r2, hr2, hbt, hbf⟩ := hr2
  rw [run_bind, hr2] at hok hq
  dsimp only at hok hq
  cases r2 with
  | some p =>
    have hb' : b = false := by
      cases b with
      | true => cases hbt rfl
      | false => rfl
    have hrr := hbf hb'
    subst hrr
    obtain ⟨v', out⟩ := p
    left
    refine ⟨out, ?_⟩
    rw [hO, hr]
    dsimp only at hok
    by_cases ho : out.isEmpty = true
    · simp only [ho, Bool.not_true, Bool.false_eq_true, if_false] at hok
      cases hok; rfl
    · simp only [ho, Bool.not_false, if_true] at hok
      obtain ⟨s', hs', _⟩ := writeOut_frames out st
      rw [run_bind, hs'] at hok
      cases hok; rfl
  | none =>
    right
    dsimp only at hok hq
    rw [run_bind] at hok hq
    have hgE := (good_extendFunctionEnv (f := f) (a := args)).h st
    have htE := (tr_extendFunctionEnv (f := f) (a := args)).h st
    rw [hO (extendFunctionEnv f args), hS (extendFunctionEnv f args)]
    rw [hO (extendFunctionEnv f args), hS (extendFunctionEnv f args)] at hgE
    rw [hS (extendFunctionEnv f args)] at htE
    cases hE : run (extendFunctionEnv f args) st with
    | mk rE sE =>
    rw [hE] at hok hq hgE htE
    dsimp only at hok hq hgE htE ⊢
    cases rE with
    | error e => cases hok
    | ok x =>
    cases x with
    | error e =>
      left
      cases hok; rfl
    | ok nenv =>
      right
      refine ⟨nenv, rfl, ?_⟩
      have hcur : sE.cur = st.cur := (hgE.2 _ rfl).1
      dsimp only at hok hq
      rw [run_bind] at hok hq
      have hce : run curEnv sE = (.ok sE.cur, sE) := rfl
      rw [hce] at hok hq
      dsimp only at hok hq
      rw [run_bind] at hok hq
      have hmod : run (modify fun st => { st with cur := nenv, outs := [] :: st.outs } : M PUnit) sE =
          (.ok ⟨⟩, bodyState sE nenv) := rfl
      rw [hmod] at hok hq
      dsimp only at hok hq
      rw [run_bind] at hok hq
      have htB := ((allTr fuel).eval f.body).h (bodyState sE nenv)
      rw [hS (eval fuel f.body)] at htB
      unfold Quiet
      rw [hO (eval fuel f.body), hS (eval fuel f.body)]
      cases hB : run (eval fuel f.body) (bodyState sE nenv) with
      | mk rB sB =>
      rw [hB] at hok hq htB
      dsimp only at hok hq htB ⊢
      cases rB with
      | error e => cases hok
      | ok res =>
      dsimp only at hok hq
      rw [run_bind, run_getFrame] at hok hq
      cases hf1 : sB.frames[nenv]? with
      | none => rw [hf1] at hok; cases hok
      | some fr =>
      rw [hf1] at hok hq
      dsimp only at hok hq
      rw [run_bind, run_get] at hok hq
      dsimp only at hok hq
      rw [run_bind, run_set] at hok hq
      dsimp only at hok hq
      generalize hs4 : ({ sB with cur := sE.cur, outs := (match sB.outs with
            | o :: rest => (chunksBytes o, rest)
            | [] => ([], [])).2 } : St) = s4 at hok hq
      generalize (match sB.outs with
            | o :: rest => (chunksBytes o, rest)
            | [] => ([], [])).1 = output at hok hq
      generalize haf : (if b = true then fr.getMiss + 1 else fr.getMiss) = af at hok hq
      have hfr4 : s4.frames = sB.frames := by rw [← hs4]
      have htF := (tr_finishCall (f := f) (a := args) (c := sE.cur) (b := 0) (af := af)
        (cc := fr.cantCache) (r := res) (o := output)).h s4
      rw [hS] at htF
      -- the caller's counter: st ≤ sE = body state ≤ sB = s4 ≤ final = st
      rw [← hcur] at hq
      have c1 := htE.miss sE.cur
      have c2 : missOf (bodyState sE nenv) sE.cur = missOf sE sE.cur := missOf_congr rfl _
      have c3 := htB.miss sE.cur
      have c4 : missOf s4 sE.cur = missOf sB sE.cur := missOf_congr hfr4 _
      have c5 := htF.miss sE.cur
      have hqF : Quiet sE.cur (finishCall f args sE.cur 0 af fr.cantCache res output) s4 := by
        unfold Quiet
        rw [hS]
        omega
      have hab := finishCall_quiet f args sE.cur 0 af fr.cantCache res output s4 v
        (by rw [hO]; exact hok) hqF
      have hres : v = res := by
        -- `finishCall` returns `res`
        have : ∀ s, (∃ s', run (finishCall f args sE.cur 0 af fr.cantCache res output) s = (.ok res, s')) ∨
            (∃ e s', run (finishCall f args sE.cur 0 af fr.cantCache res output) s = (.error e, s')) := by
          intro s
          cases hrf : run (finishCall f args sE.cur 0 af fr.cantCache res output) s with
          | mk a s' =>
            cases a with
            | error e => exact Or.inr ⟨e, s', rfl⟩
            | ok r' =>
              refine Or.inl ⟨s', ?_⟩
              have : r' = res := finishCall_result _ _ _ _ _ _ _ _ _ _ _ hrf
              rw [this]
        rcases this s4 with ⟨s', h⟩ | ⟨e, s', h⟩
        · rw [h] at hok; cases hok; rfl
        · rw [h] at hok; cases hok
      have hfz : fr.getMiss = 0 := by
        cases b with
        | true => simp only [if_true] at haf; omega
        | false => simpa using haf.trans hab
      have hz : missOf sB nenv = 0 := by unfold missOf; rw [hf1]; exact hfz
      refine ⟨by rw [hres], ?_, hz⟩
      have := htB.miss nenv
      omega

/-- a call that completes without moving the CALLER's miss counter was a cache hit, or failed while
binding its arguments, or evaluated its body without moving the CALLEE's miss counter -/
theorem applyFunction_quiet (fuel : Nat) (f : FuncVal) (args : List Obj) (st : St) (v : Obj)
    (hok : outcome (applyFunction (fuel + 1) (.func f) args) st = .ok v)
    (hq : Quiet st.cur (applyFunction (fuel + 1) (.func f) args) st) :
    (∃ out, outcome (cacheGet f.key args) st = .ok (some (v, out))) ∨
    (outcome (extendFunctionEnv f args) st = .ok (.error v)) ∨
    (∃ nenv, outcome (extendFunctionEnv f args) st = .ok (.ok nenv) ∧
      outcome (eval fuel f.body) (bodyState (stateAfter (extendFunctionEnv f args) st) nenv) = .ok v ∧
      Quiet nenv (eval fuel f.body) (bodyState (stateAfter (extendFunctionEnv f args) st) nenv)) :=
  (applyFunction_quiet_full fuel f args st v hok hq).imp id
    (Or.imp id (fun ⟨nenv, h1, h2, h3, _⟩ => ⟨nenv, h1, h2, h3⟩))

/-! ### reads -/

/-- the binding behind the reference `.ref re rn` (handed out for the name `nm`) is one the purity
test trusts: a binding of a DEPTH-0 frame that holds a function value or whose name `nm` is all-caps.
(Since repo fix 103fa2c a function held by a variable of an enclosing CALL - `g` in
`mk=func(g){func(x){g(x)}}` - is not trusted any more: reading it is a miss, like any other captured value.) -/
def Trusted (st : St) (nm : String) (re : Nat) (rn : String) : Prop :=
  ∃ fr, st.frames[re]? = some fr ∧ fr.depth = 0 ∧
    (isConstant nm = true ∨ ∃ fn, lookupStore fr.store rn = some (.func fn))

theorem depth_setIfInBounds (st : St) (e : Nat) (f : Frame) (g : Frame → Frame) (hg : (g f).depth = f.depth)
    (h : st.frames[e]? = some f) (i : Nat) (fi : Frame)
    (hi : (st.frames.setIfInBounds e (g f))[i]? = some fi) : ∃ fi', st.frames[i]? = some fi' ∧ fi'.depth = fi.depth := by
  rw [Array.getElem?_setIfInBounds] at hi
  by_cases hei : e = i
  · subst hei
    simp only [if_true] at hi
    split at hi
    · cases hi; exact ⟨f, h, hg.symm⟩
    · cases hi
  · simp only [hei, if_false] at hi
    exact ⟨fi, hi, rfl⟩

/-- `makeRef` that does not move the counter of the frame it works for found nothing, or made a
reference to a trusted binding -/
theorem makeRef_go_quiet (orig : Nat) (name : String) (fuel e : Nat) (st : St) (r : Option Obj)
    (hok : outcome (makeRef.go orig name fuel e) st = .ok r)
    (hq : Quiet orig (makeRef.go orig name fuel e) st) :
    r = none ∨ ∃ re rn, r = some (.ref re rn) ∧ Trusted st name re rn := by
  have hO : ∀ {α} (x : M α) (s : St), outcome x s = (run x s).1 := fun _ _ => rfl
  have hS : ∀ {α} (x : M α) (s : St), stateAfter x s = (run x s).2 := fun _ _ => rfl
  induction fuel generalizing e with
  | zero =>
    unfold makeRef.go at hok
    cases hok; exact Or.inl rfl
  | succ n ih =>
    unfold Quiet at hq ih
    rw [hO] at hok
    rw [hS] at hq
    unfold makeRef.go at hok hq
    rw [run_bind, run_getFrame] at hok hq
    cases hfe : st.frames[e]? with
    | none => rw [hfe] at hok; cases hok
    | some f =>
    rw [hfe] at hok hq
    dsimp only at hok hq
    cases hfo : f.outer with
    | none => rw [hfo] at hok; cases hok; exact Or.inl rfl
    | some o =>
    rw [hfo] at hok hq
    dsimp only at hok hq
    rw [run_bind, run_getFrame] at hok hq
    cases hfo' : st.frames[o]? with
    | none => rw [hfo'] at hok; cases hok
    | some fo =>
    rw [hfo'] at hok hq
    dsimp only at hok hq
    cases hl : lookupStore fo.store name with
    | none =>
      rw [hl] at hok hq
      exact ih o (by rw [hO]; exact hok) (by rw [hS]; exact hq)
    | some obj =>
    rw [hl] at hok hq
    dsimp only at hok hq
    right
    obtain ⟨re, rn, hre⟩ := refTo_isRef o name obj
    rw [hre] at hok hq
    rw [run_bind, run_modifyFrame] at hok hq
    cases hfor : st.frames[orig]? with
    | none => rw [hfor] at hok; cases hok
    | some forig =>
    rw [hfor] at hok hq
    dsimp only at hok hq
    rw [run_bind, run_getFrame] at hok hq
    generalize hs1 : ({ st with frames := st.frames.setIfInBounds orig { forig with store := setStore forig.store name (.ref re rn) } } : St) = s1 at hok hq
    have hs1f : s1.frames = st.frames.setIfInBounds orig { forig with store := setStore forig.store name (.ref re rn) } := by
      rw [← hs1]
    cases hfre : s1.frames[re]? with
    | none => rw [hfre] at hok; cases hok
    | some fre =>
    rw [hfre] at hok hq
    dsimp only at hok hq
    simp only [pure_bind] at hok hq
    have horig1 : ∃ f1, s1.frames[orig]? = some f1 ∧ f1.getMiss = forig.getMiss := by
      rw [hs1f, Array.getElem?_setIfInBounds]
      have hlt : orig < st.frames.size := by
        cases hd : decide (orig < st.frames.size) with
        | true => exact of_decide_eq_true hd
        | false =>
          have : ¬ orig < st.frames.size := of_decide_eq_false hd
          rw [Array.getElem?_eq_none (by omega)] at hfor; cases hfor
      simp [hlt]
    obtain ⟨f1, hf1, hf1m⟩ := horig1
    by_cases hc : (!(isConstant name && fre.depth == 0) && !(isFuncObj obj && fre.depth == 0)) = true
    · -- the counter moves: not quiet
      exfalso
      simp only [hc, if_true] at hq
      rw [run_bind, run_modifyFrame, hf1] at hq
      dsimp only at hq
      simp only [run_pure] at hq
      rw [missOf_setIfInBounds s1 orig f1 _ hf1] at hq
      simp only [if_true] at hq
      unfold missOf at hq
      rw [hfor] at hq
      dsimp only at hq
      omega
    · simp only [hc] at hok
      simp only [Bool.false_eq_true, if_false, run_pure] at hok
      cases hok
      refine ⟨re, rn, rfl, ?_⟩
      obtain ⟨fre', hfre', hdep⟩ := depth_setIfInBounds st orig forig
        (fun f => { f with store := setStore f.store name (.ref re rn) }) rfl hfor re fre (by rw [← hs1f]; exact hfre)
      have hc' : (isConstant name && fre.depth == 0) = true ∨ (isFuncObj obj && fre.depth == 0) = true := by
        cases h1 : (isConstant name && fre.depth == 0) <;> cases h2 : (isFuncObj obj && fre.depth == 0) <;> simp [h1, h2] at hc ⊢
      rcases hc' with h | h
      · simp only [Bool.and_eq_true, beq_iff_eq] at h
        exact ⟨fre', hfre', by rw [hdep]; exact h.2, Or.inl h.1⟩
      · simp only [Bool.and_eq_true, beq_iff_eq] at h
        obtain ⟨h, hd0⟩ := h
        refine ⟨fre', hfre', by rw [hdep]; exact hd0, Or.inr ?_⟩
        cases obj with
        | func fn =>
          simp only [refTo] at hre
          cases hre
          rw [hfo'] at hfre'
          cases hfre'
          exact ⟨fn, hl⟩
        | _ => simp [isFuncObj] at h

/-- what a `Get` on frame `e` that does not move `e`'s counter can have returned:
nothing; the frame's own function (`self` / its own name); a value bound in the frame's own store; or
a reference to a trusted binding (`Trusted`: a function value or an all-caps name, in a depth-0 frame) —
judged in the state the lookup started from, or in that state with the frame's own stale reference
removed (the referenced variable had been deleted and the name was looked up again) -/
inductive PureRead (st : St) (e : Nat) (name : String) : Option Obj → Prop
  | notFound : PureRead st e name none
  | self (fr : Frame) (fn : FuncVal) : st.frames[e]? = some fr → fr.function = some fn →
      PureRead st e name (some (.func fn))
  | own (fr : Frame) (v : Obj) : st.frames[e]? = some fr → lookupStore fr.store name = some v →
      (∀ re rn, v ≠ .ref re rn) → PureRead st e name (some v)
  | outer (re : Nat) (rn nm : String) : Trusted st nm re rn → PureRead st e name (some (.ref re rn))
  | outerFresh (fr : Frame) (re : Nat) (rn nm : String) : st.frames[e]? = some fr →
      Trusted { st with frames := st.frames.setIfInBounds e { fr with store := delStore fr.store name } } nm re rn →
      PureRead st e name (some (.ref re rn))

theorem makeRef_quiet' (orig : Nat) (name : String) (st sF : St) (r : Option Obj)
    (hrun : run (makeRef orig name) st = (.ok r, sF)) (hq : missOf sF orig = missOf st orig) :
    r = none ∨ ∃ re rn, r = some (.ref re rn) ∧ Trusted st name re rn := by
  have h1 : outcome (makeRef.go orig name st.frames.size orig) st = .ok r := by
    have : outcome (makeRef orig name) st = (run (makeRef orig name) st).1 := rfl
    rw [hrun] at this; exact this
  have h2 : Quiet orig (makeRef.go orig name st.frames.size orig) st := by
    have : stateAfter (makeRef orig name) st = (run (makeRef orig name) st).2 := rfl
    rw [hrun] at this
    show missOf (stateAfter (makeRef orig name) st) orig = missOf st orig
    rw [this]; exact hq
  exact makeRef_go_quiet orig name st.frames.size orig st r h1 h2

theorem envGet_quiet (e : Nat) (name : String) (st : St) (r : Option Obj)
    (hok : outcome (envGet e name) st = .ok r) (hq : Quiet e (envGet e name) st) : PureRead st e name r := by
  have hO : ∀ {α} (x : M α) (s : St), outcome x s = (run x s).1 := fun _ _ => rfl
  have hS : ∀ {α} (x : M α) (s : St), stateAfter x s = (run x s).2 := fun _ _ => rfl
  unfold Quiet at hq
  rw [hS] at hq
  rw [hO] at hok
  cases hrun : run (envGet e name) st with
  | mk a sF =>
  rw [hrun] at hok hq
  dsimp only at hok hq
  subst hok
  unfold envGet at hrun
  dsimp only at hrun
  split at hrun
  · rw [run_bind] at hrun; cases hrun
  · rw [run_bind, run_getFrame] at hrun
    cases hfe : st.frames[e]? with
    | none => rw [hfe] at hrun; cases hrun
    | some f =>
    rw [hfe] at hrun
    dsimp only at hrun
    have main : run (match lookupStore f.store name with
          | some (Obj.ref re rn) => do
            let alive ← refAlive re rn
            if (!alive) = true then do
                modifyFrame e fun f => { f with store := delStore f.store name }
                match f.outer with
                  | none => pure none
                  | some _ => makeRef e name
              else do
                let tgt ← refValue re rn
                let fr ← getFrame re
                if (!(isConstant rn && fr.depth == 0) && !(isFuncObj tgt && fr.depth == 0)) = true then do
                    modifyFrame e fun f => { f with getMiss := f.getMiss + 1 }
                    pure (some (Obj.ref re rn))
                  else pure (some (Obj.ref re rn))
          | some obj => pure (some obj)
          | none =>
            match f.outer with
            | none => pure none
            | some _ => makeRef e name : M (Option Obj)) st = (.ok r, sF) → PureRead st e name r := by
      intro hm
      split at hm
      · next re rn hl =>
        rw [run_bind] at hm
        have hra := readOnly_refAlive re rn st
        cases hA : run (refAlive re rn) st with
        | mk aA sA =>
        rw [hA] at hm hra
        dsimp only at hra
        subst hra
        cases aA with
        | error err => cases hm
        | ok alive =>
        dsimp only at hm
        split at hm
        · rw [run_bind, run_modifyFrame, hfe] at hm
          dsimp only at hm
          split at hm
          · cases hm; exact .notFound
          · have hmiss : missOf sF e = missOf
                { sA with frames := sA.frames.setIfInBounds e { f with store := delStore f.store name } } e := by
              rw [hq, missOf_setIfInBounds sA e f _ hfe]
              simp only [if_true]
              unfold missOf; rw [hfe]
            rcases makeRef_quiet' e name _ sF r hm hmiss with h | ⟨re', rn', h, ht⟩
            · subst h; exact .notFound
            · subst h; exact .outerFresh f re' rn' name hfe ht
        · rw [run_bind] at hm
          have hrv := readOnly_refValue re rn sA
          cases hV : run (refValue re rn) sA with
          | mk aV sV =>
          rw [hV] at hm hrv
          dsimp only at hrv
          subst hrv
          cases aV with
          | error err => cases hm
          | ok tgt =>
          dsimp only at hm
          rw [run_bind, run_getFrame] at hm
          cases hfr : sV.frames[re]? with
          | none => rw [hfr] at hm; cases hm
          | some fre =>
          rw [hfr] at hm
          dsimp only at hm
          split at hm
          · exfalso
            rw [run_bind, run_modifyFrame, hfe] at hm
            dsimp only at hm
            cases hm
            rw [missOf_setIfInBounds sV e f _ hfe] at hq
            simp only [if_true] at hq
            unfold missOf at hq
            rw [hfe] at hq
            dsimp only at hq
            omega
          · next hc =>
            cases hm
            have hc' : (isConstant rn && fre.depth == 0) = true ∨ (isFuncObj tgt && fre.depth == 0) = true := by
              cases h1 : (isConstant rn && fre.depth == 0) <;> cases h2 : (isFuncObj tgt && fre.depth == 0) <;> simp [h1, h2] at hc ⊢
            rcases hc' with h | h
            · simp only [Bool.and_eq_true, beq_iff_eq] at h
              exact .outer re rn rn ⟨fre, hfr, h.2, Or.inl h.1⟩
            · simp only [Bool.and_eq_true, beq_iff_eq] at h
              obtain ⟨h, hd0⟩ := h
              refine .outer re rn rn ⟨fre, hfr, hd0, Or.inr ?_⟩
              unfold refValue at hV
              rw [run_bind, run_getFrame, hfr] at hV
              dsimp only at hV
              split at hV
              · split at hV
                · cases hV
                · cases hV; simp [isFuncObj] at h
              · cases hV
                cases tgt <;> first | exact ⟨_, by assumption⟩ | simp [isFuncObj] at h
              · cases hV; simp [isFuncObj] at h
      · next obj hnr hl =>
        cases hm
        exact .own f obj hfe hl (fun re rn h => hnr re rn h)
      · next hl =>
        split at hm
        · cases hm; exact .notFound
        · rcases makeRef_quiet' e name st sF r hm hq with h | ⟨re', rn', h, ht⟩
          · subst h; exact .notFound
          · subst h; exact .outer re' rn' name ht
    split at hrun
    · split at hrun
      · next fn hfn => cases hrun; exact .self f fn hfe hfn
      · cases hrun; exact .notFound
    · split at hrun
      · next fn hfn =>
        split at hrun
        · cases hrun; exact .self f fn hfe hfn
        · exact main hrun
      · exact main hrun

/-! ### "during": the steps of a computation -/

/-- `During x st y s`: running `x` from `st` runs `y` from `s` as one of its steps (`x` is a chain of
binds of computations that only grow counters, `y` is reached through the heads and — when the head
succeeded — the tails of that chain) -/
inductive During : {α β : Type} → M α → St → M β → St → Prop
  | here {α : Type} {x : M α} {st : St} : During x st x st
  | head {α β γ : Type} {x : M α} {f : α → M β} {y : M γ} {st s : St} (hx : Tr x) (hf : ∀ a, Tr (f a)) :
      During x st y s → During (x >>= f) st y s
  | tail {α β γ : Type} {x : M α} {f : α → M β} {y : M γ} {st s : St} {a : α} (hx : Tr x) (hf : ∀ a, Tr (f a))
      (ha : outcome x st = .ok a) : During (f a) (stateAfter x st) y s → During (x >>= f) st y s

/-- "after = before" is inherited by every step -/
theorem quiet_during {α β : Type} {x : M α} {st : St} {y : M β} {s : St} {e : Nat}
    (hd : During x st y s) (hq : Quiet e x st) : Quiet e y s := by
  induction hd with
  | here => exact hq
  | head hx hf _ ih => exact ih (quiet_bind hx hf hq).1
  | tail hx hf ha _ ih => exact ih ((quiet_bind hx hf hq).2 _ ha)

/-- no step of a quiet computation is a completed `TriggerNoCache` on that frame -/
theorem no_trigger_during {α : Type} {x : M α} {st s : St} {e : Nat}
    (hd : During x st (triggerNoCache e) s) (hq : Quiet e x st) :
    outcome (triggerNoCache e) s ≠ .ok () := by
  intro hok
  have h1 := quiet_during hd hq
  have h2 := triggerNoCache_loud e s hok
  unfold Quiet at h1
  omega

/-- no step of a computation that is quiet on the current frame is a completed `del` -/
theorem no_del_during {α : Type} {x : M α} {st s : St} {fuel : Nat} {node : Node}
    (hd : During x st (evalDelete (fuel + 1) node) s) (hq : Quiet s.cur x st) (r : Obj) :
    outcome (evalDelete (fuel + 1) node) s ≠ .ok r := by
  intro hok
  have h1 := quiet_during hd hq
  have h2 := evalDelete_loud fuel node s r hok
  unfold Quiet at h1
  omega

/-- every nested call that is a step of a computation quiet on the call's own caller frame was a
hit, a binding failure, or had a quiet body -/
theorem nested_call_during {α : Type} {x : M α} {st s : St} {fuel : Nat} {f : FuncVal} {args : List Obj} {v : Obj}
    (hd : During x st (applyFunction (fuel + 1) (.func f) args) s) (hq : Quiet s.cur x st)
    (hok : outcome (applyFunction (fuel + 1) (.func f) args) s = .ok v) :
    (∃ out, outcome (cacheGet f.key args) s = .ok (some (v, out))) ∨
    (outcome (extendFunctionEnv f args) s = .ok (.error v)) ∨
    (∃ nenv, outcome (extendFunctionEnv f args) s = .ok (.ok nenv) ∧
      outcome (eval fuel f.body) (bodyState (stateAfter (extendFunctionEnv f args) s) nenv) = .ok v ∧
      Quiet nenv (eval fuel f.body) (bodyState (stateAfter (extendFunctionEnv f args) s) nenv)) :=
  applyFunction_quiet fuel f args s v hok (quiet_during hd hq)

/-- no step of a computation that is quiet on frame `w` is a completed `functionChanged w` of a binding
that held a function: a miss-free call neither overwrites nor deletes a function-valued binding (every
overwrite or deletion of an existing binding — `update`, the reference path of `SetNoChecks`, `Delete` —
reports the old value to `functionChanged`) -/
theorem no_function_change_during {α : Type} {x : M α} {st s : St} {w : Nat} {o : Obj}
    (hd : During x st (functionChanged w (some o)) s) (hq : Quiet w x st) (ho : isFuncObj o = true) :
    outcome (functionChanged w (some o)) s ≠ .ok () := by
  intro hok
  have h1 := quiet_during hd hq
  have h2 := functionChanged_loud w o s ho hok
  unfold Quiet at h1
  omega

/-- the same for the store step of an assignment -/
theorem no_function_write_during {α : Type} {x : M α} {st s : St} {w e : Nat} {name : String} {val : Obj}
    {fr : Frame} {o : Obj} (hd : During x st (envStoreAt w e name val) s) (hq : Quiet w x st)
    (hfr : s.frames[e]? = some fr) (hl : lookupStore fr.store name = some o) (ho : isFuncObj o = true) (r : Obj) :
    outcome (envStoreAt w e name val) s ≠ .ok r := by
  intro hok
  have h1 := quiet_during hd hq
  have h2 := envStoreAt_loud w e name val s fr o r hfr hl ho hok
  unfold Quiet at h1
  omega

end Grol.E

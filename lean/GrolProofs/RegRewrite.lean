import Grol.Eval.RegRewrite
/-
C05, the register rewrite: `modifyR` (the traversal of ast.Modify with the ModifyRegister callback)
is exactly its specification — it gives up iff `refuses`, and otherwise returns `substAll`, the body
in which every identifier node of the name became the register and nothing else changed.
-/
namespace Grol.RegRewrite
open Grol.E

/-! ### the callback sees the rewritten children -/

theorem isReg_substAll (name : String) (idx : Nat) (b : RNode) :
    isReg name idx (substAll name idx b) = isVar name idx b := by
  cases b <;> simp only [substAll, isReg, isVar]
  case ident n =>
    by_cases h : (n == name) = true
    · simp [h]
    · simp [h]

@[simp] theorem obind_some {α β : Type} (a : α) (f : α → Option β) : (some a >>= f) = f a := rfl
@[simp] theorem obind_none {α β : Type} (f : α → Option β) : ((Option.none : Option α) >>= f) = Option.none := rfl
@[simp] theorem opure {α : Type} (a : α) : (pure a : Option α) = some a := rfl

/-! ### `modifyR` = its specification -/

mutual
theorem modifyR_spec (name : String) (idx : Nat) :
    ∀ b : RNode, modifyR name idx b =
      if refuses name idx b then Option.none else some (substAll name idx b)
  | .stmts l => by
    simp only [modifyR, refuses, substAll, modifyRList_spec name idx l]
    by_cases h0 : refusesList name idx l = true <;> simp [h0, cb]
  | .inf op l r => by
    simp only [modifyR, refuses, substAll, modifyR_spec name idx l, modifyR_spec name idx r]
    by_cases h0 : refuses name idx l = true <;> by_cases h1 : refuses name idx r = true <;> simp [h0, h1, cb, isReg_substAll]
  | .pre op r => by
    simp only [modifyR, refuses, substAll, modifyR_spec name idx r]
    by_cases h0 : refuses name idx r = true <;> simp [h0, cb, isReg_substAll]
  | .idx tok l i => by
    simp only [modifyR, refuses, substAll, modifyR_spec name idx l, modifyR_spec name idx i]
    by_cases h0 : refuses name idx l = true <;> by_cases h1 : refuses name idx i = true <;> simp [h0, h1, cb, isReg_substAll]
  | .ifE c a b => by
    simp only [modifyR, refuses, substAll, modifyR_spec name idx c, modifyR_spec name idx a, modifyR_spec name idx b]
    by_cases h0 : refuses name idx c = true <;> by_cases h1 : refuses name idx a = true <;> by_cases h2 : refuses name idx b = true <;> simp [h0, h1, h2, cb]
  | .forE c b => by
    simp only [modifyR, refuses, substAll, modifyR_spec name idx c, modifyR_spec name idx b]
    by_cases h0 : refuses name idx c = true <;> by_cases h1 : refuses name idx b = true <;> simp [h0, h1, cb]
  | .ret v => by
    simp only [modifyR, refuses, substAll, modifyR_spec name idx v]
    by_cases h0 : refuses name idx v = true <;> simp [h0, cb]
  | .fn fname ps variadic lambda key body => by
    simp only [modifyR, refuses, modifyR_spec name idx body]
    by_cases h0 : refuses name idx body = true <;> by_cases h1 : ps.contains name = true <;> simp [h0, h1, cb]
  | .arr els => by
    simp only [modifyR, refuses, substAll, modifyRList_spec name idx els]
    by_cases h0 : refusesList name idx els = true <;> simp [h0, cb]
  | .mapLit ks vs => by
    simp only [modifyR, refuses, substAll, modifyRList_spec name idx ks, modifyRList_spec name idx vs]
    by_cases h0 : refusesList name idx ks = true <;> by_cases h1 : refusesList name idx vs = true <;> simp [h0, h1, cb]
  | .builtin t ps => by
    simp only [modifyR, refuses, substAll, modifyRList_spec name idx ps]
    by_cases hps : refusesList name idx ps = true
    · simp [hps]
    · by_cases hq : (t == "QUOTE") = true
      · simp [hps, hq, cb]
      · match ps, hps with
        | [], _ => simp [substAllList, refusesList, cb, hq]
        | [p], hps => simp [hps, substAllList, cb, isReg_substAll, hq]
        | p :: q :: rest, hps => simp [hps, substAllList, cb, hq]
  | .call f as => by
    simp only [modifyR, refuses, substAll, modifyR_spec name idx f, modifyRList_spec name idx as]
    by_cases h0 : refuses name idx f = true
    · simp [h0]
    · by_cases h1 : refusesList name idx as = true
      · simp [h0, h1]
      · simp only [h0, h1]
        have he : isEvalIdent (substAll name idx f) = (isEvalIdent f && name != "eval") := by
          cases f <;> simp only [substAll, isEvalIdent, Bool.false_and]
          case ident n =>
            by_cases hn : (n == name) = true
            · have : n = name := by simpa using hn
              subst this
              by_cases hev : (n == "eval") = true
              · have : n = "eval" := by simpa using hev
                subst this
                simp [isEvalIdent]
              · simp [hn, hev, isEvalIdent]
            · by_cases hev : (n == "eval") = true
              · have : n = "eval" := by simpa using hev
                subst this
                have hne : ("eval" == name) = false := by simpa using hn
                have : name ≠ "eval" := by intro h; subst h; simp at hne
                simp [hn, isEvalIdent, this]
              · simp [hn, hev, isEvalIdent]
        by_cases hE : (isEvalIdent f && name != "eval") = true
        · simp [cb, he, hE]
        · simp [cb, he, hE]
  | .macroLit ps body => by
    simp only [modifyR, refuses, substAll, modifyR_spec name idx body]
    by_cases h0 : refuses name idx body = true <;> by_cases h1 : ps.contains name = true <;> simp [h0, h1, cb]
  | .ident n => by
    simp only [modifyR, refuses, substAll, cb]
    by_cases h : (n == name) = true <;> simp [h]
  | .post op n => by
    simp only [modifyR, refuses, substAll, cb]
    by_cases h : (n == name) = true <;> simp [h]
  | .int _ => by simp [modifyR, refuses, substAll, cb]
  | .float _ => by simp [modifyR, refuses, substAll, cb]
  | .str _ => by simp [modifyR, refuses, substAll, cb]
  | .bool _ => by simp [modifyR, refuses, substAll, cb]
  | .none => by simp [modifyR, refuses, substAll, cb]
  | .ctl _ => by simp [modifyR, refuses, substAll, cb]
  | .comment => by simp [modifyR, refuses, substAll, cb]
  | .reg _ _ => by simp [modifyR, refuses, substAll, cb]
theorem modifyRList_spec (name : String) (idx : Nat) :
    ∀ l : List RNode, modifyRList name idx l =
      if refusesList name idx l then Option.none else some (substAllList name idx l)
  | [] => by simp [modifyRList, refusesList, substAllList]
  | x :: xs => by
    simp only [modifyRList, refusesList, substAllList, modifyR_spec name idx x, modifyRList_spec name idx xs]
    by_cases h0 : refuses name idx x = true <;> by_cases h1 : refusesList name idx xs = true <;> simp [h0, h1]
end

/-! ### shape of the result -/

mutual
theorem erase_embed : ∀ b : Node, erase (embed b) = b
  | .ident _ | .int _ | .float _ | .str _ | .bool _ | .post .. | .none | .ctl _ | .comment => by simp [embed, erase]
  | .pre _ r => by simp [embed, erase, erase_embed r]
  | .inf _ l r => by simp [embed, erase, erase_embed l, erase_embed r]
  | .stmts l => by simp [embed, erase, eraseList_embedList l]
  | .ifE c a b => by simp [embed, erase, erase_embed c, erase_embed a, erase_embed b]
  | .forE c b => by simp [embed, erase, erase_embed c, erase_embed b]
  | .ret v => by simp [embed, erase, erase_embed v]
  | .builtin _ ps => by simp [embed, erase, eraseList_embedList ps]
  | .fn _ _ _ _ _ body => by simp [embed, erase, erase_embed body]
  | .call f as => by simp [embed, erase, erase_embed f, eraseList_embedList as]
  | .arr els => by simp [embed, erase, eraseList_embedList els]
  | .mapLit ks vs => by simp [embed, erase, eraseList_embedList ks, eraseList_embedList vs]
  | .idx _ l i => by simp [embed, erase, erase_embed l, erase_embed i]
  | .macroLit _ body => by simp [embed, erase, erase_embed body]
theorem eraseList_embedList : ∀ l : List Node, eraseList (embedList l) = l
  | [] => by simp [embedList, eraseList]
  | x :: xs => by simp [embedList, eraseList, erase_embed x, eraseList_embedList xs]
end

mutual
/-- replacing the registers by the identifiers they stand for undoes the rewrite -/
theorem erase_substAll (name : String) (idx : Nat) : ∀ b : RNode, erase (substAll name idx b) = erase b
  | .ident n => by
    by_cases h : (n == name) = true
    · simp only [substAll, h, if_true, erase]; rw [eq_of_beq h]
    · simp [substAll, h, erase]
  | .int _ | .float _ | .str _ | .bool _ | .post .. | .none | .ctl _ | .comment | .reg .. => by simp [substAll, erase]
  | .pre _ r => by simp [substAll, erase, erase_substAll name idx r]
  | .inf _ l r => by simp [substAll, erase, erase_substAll name idx l, erase_substAll name idx r]
  | .stmts l => by simp [substAll, erase, eraseList_substAllList name idx l]
  | .ifE c a b => by simp [substAll, erase, erase_substAll name idx c, erase_substAll name idx a, erase_substAll name idx b]
  | .forE c b => by simp [substAll, erase, erase_substAll name idx c, erase_substAll name idx b]
  | .ret v => by simp [substAll, erase, erase_substAll name idx v]
  | .builtin _ ps => by simp [substAll, erase, eraseList_substAllList name idx ps]
  | .fn _ _ _ _ _ body => by simp [substAll, erase, erase_substAll name idx body]
  | .call f as => by simp [substAll, erase, erase_substAll name idx f, eraseList_substAllList name idx as]
  | .arr els => by simp [substAll, erase, eraseList_substAllList name idx els]
  | .mapLit ks vs => by simp [substAll, erase, eraseList_substAllList name idx ks, eraseList_substAllList name idx vs]
  | .idx _ l i => by simp [substAll, erase, erase_substAll name idx l, erase_substAll name idx i]
  | .macroLit _ body => by simp [substAll, erase, erase_substAll name idx body]
theorem eraseList_substAllList (name : String) (idx : Nat) : ∀ l : List RNode, eraseList (substAllList name idx l) = eraseList l
  | [] => by simp [substAllList, eraseList]
  | x :: xs => by simp [substAllList, eraseList, erase_substAll name idx x, eraseList_substAllList name idx xs]
end

mutual
/-- no identifier node of that name is left -/
theorem countIdent_substAll (name : String) (idx : Nat) : ∀ b : RNode, countIdent name (substAll name idx b) = 0
  | .ident n => by
    by_cases h : (n == name) = true
    · simp [substAll, h, countIdent]
    · simp [substAll, h, countIdent]
  | .int _ | .float _ | .str _ | .bool _ | .post .. | .none | .ctl _ | .comment | .reg .. => by simp [substAll, countIdent]
  | .pre _ r => by simp [substAll, countIdent, countIdent_substAll name idx r]
  | .inf _ l r => by simp [substAll, countIdent, countIdent_substAll name idx l, countIdent_substAll name idx r]
  | .stmts l => by simp [substAll, countIdent, countIdentList_substAllList name idx l]
  | .ifE c a b => by simp [substAll, countIdent, countIdent_substAll name idx c, countIdent_substAll name idx a, countIdent_substAll name idx b]
  | .forE c b => by simp [substAll, countIdent, countIdent_substAll name idx c, countIdent_substAll name idx b]
  | .ret v => by simp [substAll, countIdent, countIdent_substAll name idx v]
  | .builtin _ ps => by simp [substAll, countIdent, countIdentList_substAllList name idx ps]
  | .fn _ _ _ _ _ body => by simp [substAll, countIdent, countIdent_substAll name idx body]
  | .call f as => by simp [substAll, countIdent, countIdent_substAll name idx f, countIdentList_substAllList name idx as]
  | .arr els => by simp [substAll, countIdent, countIdentList_substAllList name idx els]
  | .mapLit ks vs => by simp [substAll, countIdent, countIdentList_substAllList name idx ks, countIdentList_substAllList name idx vs]
  | .idx _ l i => by simp [substAll, countIdent, countIdent_substAll name idx l, countIdent_substAll name idx i]
  | .macroLit _ body => by simp [substAll, countIdent, countIdent_substAll name idx body]
theorem countIdentList_substAllList (name : String) (idx : Nat) : ∀ l : List RNode, countIdentList name (substAllList name idx l) = 0
  | [] => by simp [substAllList, countIdentList]
  | x :: xs => by simp [substAllList, countIdentList, countIdent_substAll name idx x, countIdentList_substAllList name idx xs]
end

mutual
/-- every identifier node of that name became the register (and the registers already there stay) -/
theorem countReg_substAll (name : String) (idx : Nat) :
    ∀ b : RNode, countReg name idx (substAll name idx b) = countIdent name b + countReg name idx b
  | .ident n => by
    by_cases h : (n == name) = true
    · simp [substAll, h, countIdent, countReg]
    · simp [substAll, h, countIdent, countReg]
  | .int _ | .float _ | .str _ | .bool _ | .post .. | .none | .ctl _ | .comment | .reg .. => by simp [substAll, countIdent, countReg]
  | .pre _ r => by simp [substAll, countIdent, countReg, countReg_substAll name idx r]
  | .inf _ l r => by simp [substAll, countIdent, countReg, countReg_substAll name idx l, countReg_substAll name idx r]; omega
  | .stmts l => by simp [substAll, countIdent, countReg, countRegList_substAllList name idx l]
  | .ifE c a b => by
    simp [substAll, countIdent, countReg, countReg_substAll name idx c, countReg_substAll name idx a, countReg_substAll name idx b]; omega
  | .forE c b => by simp [substAll, countIdent, countReg, countReg_substAll name idx c, countReg_substAll name idx b]; omega
  | .ret v => by simp [substAll, countIdent, countReg, countReg_substAll name idx v]
  | .builtin _ ps => by simp [substAll, countIdent, countReg, countRegList_substAllList name idx ps]
  | .fn _ _ _ _ _ body => by simp [substAll, countIdent, countReg, countReg_substAll name idx body]
  | .call f as => by simp [substAll, countIdent, countReg, countReg_substAll name idx f, countRegList_substAllList name idx as]; omega
  | .arr els => by simp [substAll, countIdent, countReg, countRegList_substAllList name idx els]
  | .mapLit ks vs => by
    simp [substAll, countIdent, countReg, countRegList_substAllList name idx ks, countRegList_substAllList name idx vs]; omega
  | .idx _ l i => by simp [substAll, countIdent, countReg, countReg_substAll name idx l, countReg_substAll name idx i]; omega
  | .macroLit _ body => by simp [substAll, countIdent, countReg, countReg_substAll name idx body]
theorem countRegList_substAllList (name : String) (idx : Nat) :
    ∀ l : List RNode, countRegList name idx (substAllList name idx l) = countIdentList name l + countRegList name idx l
  | [] => by simp [substAllList, countIdentList, countRegList]
  | x :: xs => by
    simp [substAllList, countIdentList, countRegList, countReg_substAll name idx x, countRegList_substAllList name idx xs]; omega
end

mutual
/-- a parsed body holds no register -/
theorem countReg_embed (name : String) (idx : Nat) : ∀ b : Node, countReg name idx (embed b) = 0
  | .ident _ | .int _ | .float _ | .str _ | .bool _ | .post .. | .none | .ctl _ | .comment => by simp [embed, countReg]
  | .pre _ r => by simp [embed, countReg, countReg_embed name idx r]
  | .inf _ l r => by simp [embed, countReg, countReg_embed name idx l, countReg_embed name idx r]
  | .stmts l => by simp [embed, countReg, countRegList_embedList name idx l]
  | .ifE c a b => by simp [embed, countReg, countReg_embed name idx c, countReg_embed name idx a, countReg_embed name idx b]
  | .forE c b => by simp [embed, countReg, countReg_embed name idx c, countReg_embed name idx b]
  | .ret v => by simp [embed, countReg, countReg_embed name idx v]
  | .builtin _ ps => by simp [embed, countReg, countRegList_embedList name idx ps]
  | .fn _ _ _ _ _ body => by simp [embed, countReg, countReg_embed name idx body]
  | .call f as => by simp [embed, countReg, countReg_embed name idx f, countRegList_embedList name idx as]
  | .arr els => by simp [embed, countReg, countRegList_embedList name idx els]
  | .mapLit ks vs => by simp [embed, countReg, countRegList_embedList name idx ks, countRegList_embedList name idx vs]
  | .idx _ l i => by simp [embed, countReg, countReg_embed name idx l, countReg_embed name idx i]
  | .macroLit _ body => by simp [embed, countReg, countReg_embed name idx body]
theorem countRegList_embedList (name : String) (idx : Nat) : ∀ l : List Node, countRegList name idx (embedList l) = 0
  | [] => by simp [embedList, countRegList]
  | x :: xs => by simp [embedList, countRegList, countReg_embed name idx x, countRegList_embedList name idx xs]
end

end Grol.RegRewrite

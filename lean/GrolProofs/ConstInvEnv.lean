import GrolProofs.ConstInvVal
/-
C19, part 2 (clone of EvalSafeEnv.lean for the strengthened invariant): the environment operations
(lean/Grol/Eval/Env.lean) preserve the invariant, never panic and keep constants (`Kept`).
-/
namespace Grol.K
open Grol.E

theorem runM_rootBindsFunc (name : String) (st : St) :
    runM (rootBindsFunc name) st = (.ok (rootFnOf st name), st) := rfl

/-! ### stores -/

theorem lookupStore_mem' {store : List (String × Obj)} {name : String} {v : Obj}
    (h : lookupStore store name = some v) : (name, v) ∈ store := by
  induction store with
  | nil => simp [lookupStore] at h
  | cons kv rest ih =>
    obtain ⟨k, w⟩ := kv
    simp only [lookupStore] at h
    split at h
    · next hk => cases h; have := eq_of_beq hk; subst this; exact List.mem_cons_self
    · exact List.mem_cons_of_mem _ (ih h)

theorem lookupStore_mem {store : List (String × Obj)} {name : String} {v : Obj}
    (h : lookupStore store name = some v) : ∃ k, (k, v) ∈ store := ⟨name, lookupStore_mem' h⟩

theorem mem_setStore {store : List (String × Obj)} {name : String} {v : Obj} {k : String} {w : Obj}
    (h : (k, w) ∈ setStore store name v) : (k, w) ∈ store ∨ (w = v ∧ k = name) := by
  induction store with
  | nil => simp [setStore] at h; exact Or.inr ⟨h.2, h.1⟩
  | cons kv rest ih =>
    obtain ⟨k0, w0⟩ := kv
    simp only [setStore] at h
    split at h
    · next hk =>
      rcases List.mem_cons.1 h with h | h
      · cases h; exact Or.inr ⟨rfl, eq_of_beq hk⟩
      · exact Or.inl (List.mem_cons_of_mem _ h)
    · rcases List.mem_cons.1 h with h | h
      · cases h; exact Or.inl List.mem_cons_self
      · rcases ih h with h | h
        · exact Or.inl (List.mem_cons_of_mem _ h)
        · exact Or.inr h

theorem mem_delStore {store : List (String × Obj)} {name : String} {k : String} {w : Obj}
    (h : (k, w) ∈ delStore store name) : (k, w) ∈ store := by
  unfold delStore at h
  exact (List.mem_filter.1 h).1

theorem StoreOk.nil {frames : Array Frame} {i d : Nat} : StoreOk frames i d [] := by
  intro k v h; cases h

theorem StoreOk.setStore {frames : Array Frame} {i d : Nat} {store : List (String × Obj)}
    (hs : StoreOk frames i d store) (name : String) {v : Obj} (hv : okObj frames.size v = true)
    (hr : ∀ e nm, v = Obj.ref e nm → (e < i ∧ ∀ fe, frames[e]? = some fe → fe.depth < d) ∧ nm = name) :
    StoreOk frames i d (setStore store name v) := by
  intro k w h
  rcases mem_setStore h with h | ⟨h, hk⟩
  · exact hs k w h
  · subst h; subst hk; exact ⟨hv, hr⟩

theorem StoreOk.delStore {frames : Array Frame} {i d : Nat} {store : List (String × Obj)}
    (hs : StoreOk frames i d store) (name : String) : StoreOk frames i d (delStore store name) :=
  fun k w h => hs k w (mem_delStore h)

/-- a value that is not a reference satisfies the reference clause of `StoreOk` trivially -/
def notRef : Obj → Bool
  | .ref .. => false
  | _ => true

theorem notRef_clause {v : Obj} (h : notRef v = true) {P : Nat → String → Prop} :
    ∀ e nm, v = Obj.ref e nm → P e nm := by
  intro e nm he; subst he; simp [notRef] at h

/-! ### the frame array -/

theorem Inv.frameOk {st : St} (hI : Inv st) {i : Nat} {f : Frame} (h : st.frames[i]? = some f) :
    FrameOk st.frames i f := hI.frames i f h

theorem frame_exists {st : St} {e : Nat} (h : e < st.frames.size) : ∃ f, st.frames[e]? = some f :=
  ⟨st.frames[e], Array.getElem?_eq_getElem h⟩

theorem lt_of_frame {frames : Array Frame} {e : Nat} {f : Frame} (h : frames[e]? = some f) : e < frames.size := by
  rcases Nat.lt_or_ge e frames.size with h1 | h1
  · exact h1
  · rw [Array.getElem?_eq_none h1] at h; cases h

/-- replacing frame `e` by one with the same depth, outer, function and a well formed store -/
theorem Inv.setFrame {st : St} (hI : Inv st) {e : Nat} {f f' : Frame} (he : st.frames[e]? = some f)
    (hd : f'.depth = f.depth) (ho : f'.outer = f.outer) (hf : f'.function = f.function)
    (hs : StoreOk st.frames e f.depth f'.store) :
    Inv { st with frames := st.frames.setIfInBounds e f' } := by
  have hlt := lt_of_frame he
  have hdepth : ∀ (j : Nat) (g : Frame), (st.frames.setIfInBounds e f')[j]? = some g →
      ∃ g0 : Frame, st.frames[j]? = some g0 ∧ g0.depth = g.depth := by
    intro j g hg
    rw [Array.getElem?_setIfInBounds] at hg
    split at hg
    · next hej =>
      subst hej
      cases hg
      exact ⟨f, he, hd.symm⟩
    · exact ⟨g, hg, rfl⟩
  have hstore : ∀ i d store, StoreOk st.frames i d store →
      StoreOk (st.frames.setIfInBounds e f') i d store := by
    intro i d store h k v hm
    obtain ⟨h1, h2⟩ := h k v hm
    refine ⟨by simpa using h1, ?_⟩
    intro e' nm hv
    obtain ⟨⟨h3, h4⟩, h5⟩ := h2 e' nm hv
    refine ⟨⟨h3, ?_⟩, h5⟩
    intro fe hfe
    obtain ⟨g0, hg0, hgd⟩ := hdepth _ _ hfe
    rw [← hgd]; exact h4 g0 hg0
  constructor
  · simpa using hI.cur
  · simpa using hI.root
  · intro i g hg
    simp only at hg
    rw [Array.getElem?_setIfInBounds] at hg
    split at hg
    · next hei =>
      subst hei
      cases hg
      have hok := hI.frameOk he
      constructor
      · intro o hoo
        rw [ho] at hoo
        obtain ⟨h1, h2⟩ := hok.outer o hoo
        refine ⟨h1, ?_⟩
        intro fo hfo
        obtain ⟨g0, hg0, hgd⟩ := hdepth _ _ hfo
        rw [← hgd, hd]; exact h2 g0 hg0
      · intro fn hfn
        rw [hf] at hfn
        simpa using hok.func fn hfn
      · rw [hd]; exact hstore _ _ _ hs
    · have hok := hI.frameOk hg
      constructor
      · intro o hoo
        obtain ⟨h1, h2⟩ := hok.outer o hoo
        refine ⟨h1, ?_⟩
        intro fo hfo
        obtain ⟨g0, hg0, hgd⟩ := hdepth _ _ hfo
        rw [← hgd]; exact h2 g0 hg0
      · intro fn hfn
        simpa using hok.func fn hfn
      · exact hstore _ _ _ hok.store
  · intro c hc
    simpa using hI.cache c hc

/-- pushing a new frame whose outer is an existing frame of smaller depth -/
theorem Inv.push {st : St} (hI : Inv st) {nf : Frame}
    (ho : ∀ o, nf.outer = some o → o < st.frames.size ∧ ∀ fo, st.frames[o]? = some fo → fo.depth < nf.depth)
    (hf : ∀ fn, nf.function = some fn → fn.env < st.frames.size ∧ okFn fn = true)
    (hs : nf.store = []) :
    Inv { st with frames := st.frames.push nf } := by
  have hget : ∀ j g, j < st.frames.size → (st.frames.push nf)[j]? = some g → st.frames[j]? = some g := by
    intro j g hj hg
    rw [Array.getElem?_push] at hg
    split at hg
    · omega
    · exact hg
  have hstore : ∀ i d store, i ≤ st.frames.size → StoreOk st.frames i d store →
      StoreOk (st.frames.push nf) i d store := by
    intro i d store hi h k v hm
    obtain ⟨h1, h2⟩ := h k v hm
    refine ⟨?_, ?_⟩
    · rw [Array.size_push]; exact okObj_mono (Nat.le_succ _) _ h1
    · intro e' nm hv
      obtain ⟨⟨h3, h4⟩, h5⟩ := h2 e' nm hv
      exact ⟨⟨h3, fun fe hfe => h4 fe (hget _ _ (by omega) hfe)⟩, h5⟩
  constructor
  · simp only [Array.size_push]; exact Nat.lt_succ_of_lt hI.cur
  · simp only [Array.size_push]; exact Nat.lt_succ_of_lt hI.root
  · intro i g hg
    simp only at hg
    rw [Array.getElem?_push] at hg
    split at hg
    · next hi =>
      cases hg
      subst hi
      constructor
      · intro o hoo
        obtain ⟨h1, h2⟩ := ho o hoo
        exact ⟨h1, fun fo hfo => h2 fo (hget _ _ h1 hfo)⟩
      · intro fn hfn
        simp only [Array.size_push]; exact ⟨Nat.lt_succ_of_lt (hf fn hfn).1, (hf fn hfn).2⟩
      · rw [hs]; exact StoreOk.nil
    · have hok := hI.frameOk hg
      have hi := lt_of_frame hg
      constructor
      · intro o hoo
        obtain ⟨h1, h2⟩ := hok.outer o hoo
        exact ⟨h1, fun fo hfo => h2 fo (hget _ _ (by omega) hfo)⟩
      · intro fn hfn
        simp only [Array.size_push]; exact ⟨Nat.lt_succ_of_lt (hok.func fn hfn).1, (hok.func fn hfn).2⟩
      · exact hstore _ _ _ (Nat.le_of_lt hi) hok.store
  · intro c hc
    simp only [Array.size_push]
    exact okObj_mono (Nat.le_succ _) _ (hI.cache c hc)

/-! ### constants kept by frame updates -/

def KeptStore (s s' : List (String × Obj)) : Prop :=
  ∀ N v, isConstant N = true → lookupVal s N = some v → ∃ v', lookupVal s' N = some v' ∧ Eqv v v'

theorem KeptStore.refl (s : List (String × Obj)) : KeptStore s s := fun _ v _ h => ⟨v, h, Eqv.refl v⟩

theorem KeptStore.of_eq {s s' : List (String × Obj)} (h : ∀ N, lookupVal s' N = lookupVal s N) : KeptStore s s' :=
  fun N v _ hv => ⟨v, by rw [h]; exact hv, Eqv.refl v⟩

theorem Kept.setFrame {st : St} {e : Nat} {f f' : Frame} (he : st.frames[e]? = some f)
    (hk : KeptStore f.store f'.store) : Kept st { st with frames := st.frames.setIfInBounds e f' } := by
  have hlt := lt_of_frame he
  intro e' N v hc hv
  unfold frameVal at hv ⊢
  simp only [Array.getElem?_setIfInBounds]
  by_cases hee : e = e'
  · subst hee
    rw [he] at hv
    simp only [hlt, if_true]
    exact hk N v hc hv
  · simp only [hee, if_false]
    exact ⟨v, hv, Eqv.refl v⟩

theorem Kept.push {st : St} (nf : Frame) : Kept st { st with frames := st.frames.push nf } := by
  intro e N v hc hv
  refine ⟨v, ?_, Eqv.refl v⟩
  unfold frameVal at hv ⊢
  cases hfe : st.frames[e]? with
  | none => rw [hfe] at hv; cases hv
  | some f =>
    rw [hfe] at hv
    have hlt := lt_of_frame hfe
    simp only [Array.getElem?_push, Nat.ne_of_lt hlt, if_false, hfe]
    exact hv

/-! ### getFrame / setFrame / modifyFrame / newFrame -/

theorem runM_getFrame {st : St} {e : Nat} {f : Frame} (h : st.frames[e]? = some f) :
    runM (getFrame e) st = (.ok f, st) := by
  unfold getFrame
  rw [runM_bind, runM_get]
  simp only [h]
  rfl

/-- a step that reads the state: continue with the value read -/
theorem Post.bind_read {x : M α} {f : α → M β} {st : St} {R : β → St → Prop} {a : α}
    (hx : runM x st = (.ok a, st)) (hf : Post (f a) st R) : Post (x >>= f) st R := by
  unfold Post at hf ⊢
  rw [runM_bind, hx]
  exact hf

theorem post_getFrame {st : St} {e : Nat} {Q : Frame → St → Prop} (hI : Inv st) (he : e < st.frames.size)
    (h : ∀ f, st.frames[e]? = some f → Q f st) : Post (getFrame e) st Q := by
  obtain ⟨f, hf⟩ := frame_exists he
  unfold Post
  rw [runM_getFrame hf]
  exact ⟨hI, Rel.refl _, h f hf⟩

/-- `modifyFrame` with a function that keeps depth, outer, function and a well formed store -/
theorem post_modifyFrame {st : St} {e : Nat} {g : Frame → Frame} {Q : Unit → St → Prop} (hI : Inv st)
    (he : e < st.frames.size)
    (hg : ∀ f, st.frames[e]? = some f → (g f).depth = f.depth ∧ (g f).outer = f.outer ∧
      (g f).function = f.function ∧ StoreOk st.frames e f.depth (g f).store)
    (hk : ∀ f, st.frames[e]? = some f → KeptStore f.store (g f).store)
    (hQ : ∀ s, Inv s → s.frames.size = st.frames.size → s.cur = st.cur → Q () s) :
    Post (modifyFrame e g) st Q := by
  obtain ⟨f, hf⟩ := frame_exists he
  obtain ⟨h1, h2, h3, h4⟩ := hg f hf
  unfold modifyFrame
  refine Post.bind_read (runM_getFrame hf) ?_
  unfold setFrame
  have hI' := hI.setFrame hf h1 h2 h3 h4
  exact Post.modify hI' (by simp) (Kept.setFrame hf (hk f hf)) (hQ _ hI' (by simp) rfl)

end Grol.K

namespace Grol.K
open Grol.E

/-! ### references -/

theorem refValue_run {st : St} (hI : Inv st) {env : Nat} {f : Frame} (he : st.frames[env]? = some f)
    (name : String) :
    ∃ v, runM (refValue env name) st = (.ok v, st) ∧ okObj st.frames.size v = true ∧
      ∀ e' n', v = Obj.ref e' n' → e' < env ∧ ∀ fe, st.frames[e']? = some fe → fe.depth < f.depth := by
  have hok := (hI.frameOk he).store
  unfold refValue
  rw [runM_bind, runM_getFrame he]
  simp only
  split
  · next e n hl =>
    obtain ⟨k, hk⟩ := lookupStore_mem hl
    obtain ⟨h1, h2⟩ := hok k _ hk
    obtain ⟨⟨h3, h4⟩, _⟩ := h2 e n rfl
    have : (e == env && n == name) = false := by
      have : (e == env) = false := by simp; omega
      simp [this]
    simp only [this]
    refine ⟨.ref e n, rfl, h1, ?_⟩
    intro e' n' hv; cases hv; exact ⟨h3, h4⟩
  · next v hnr hl =>
    obtain ⟨k, hk⟩ := lookupStore_mem hl
    obtain ⟨h1, h2⟩ := hok k _ hk
    exact ⟨v, rfl, h1, fun e' n' h => (h2 e' n' h).1⟩
  · exact ⟨.null, rfl, by simp [okObj], fun _ _ h => by cases h⟩

theorem post_refValue {st : St} (hI : Inv st) {env : Nat} (he : env < st.frames.size) (name : String) :
    Post (refValue env name) st (fun v s => s = st ∧ okObj st.frames.size v = true) := by
  obtain ⟨f, hf⟩ := frame_exists he
  obtain ⟨v, hr, hv, _⟩ := refValue_run hI hf name
  unfold Post; rw [hr]; exact ⟨hI, Rel.refl _, rfl, hv⟩

theorem refAlive_run {st : St} {env : Nat} {f : Frame} (he : st.frames[env]? = some f) (name : String) :
    runM (refAlive env name) st = (.ok (lookupStore f.store name).isSome, st) := by
  unfold refAlive
  rw [runM_bind, runM_getFrame he]
  rfl

theorem post_valueOf_go {st : St} (hI : Inv st) : ∀ (n : Nat) (o : Obj), okObj st.frames.size o = true →
    Post (valueOf.go n o) st (fun v s => s = st ∧ okObj st.frames.size v = true ∧ notRef v = true) := by
  intro n
  induction n with
  | zero =>
    intro o ho
    unfold valueOf.go
    split
    · next h => cases h
    · exact Post.stop hI (fun s h => by cases h)
    · next o' _ _ hnr h0 =>
      have : notRef o' = true := by
        cases o' with
        | ref e nm => exact (h0 e nm rfl rfl).elim
        | _ => rfl
      exact Post.pure hI ⟨rfl, ho, this⟩
  | succ n ih =>
    intro o ho
    unfold valueOf.go
    split
    · next n' e name hn =>
      cases hn
      have he : e < st.frames.size := by simpa [okObj] using ho
      obtain ⟨f, hf⟩ := frame_exists he
      obtain ⟨v, hr, hv, hvr⟩ := refValue_run hI hf name
      refine Post.bind_read hr ?_
      dsimp only
      split
      · next e' nm' =>
        obtain ⟨h1, h2⟩ := hvr e' nm' rfl
        obtain ⟨fe, hfe⟩ := frame_exists (Nat.lt_trans h1 he)
        have h3 := h2 fe hfe
        refine Post.bind_read (runM_getFrame hfe) ?_
        refine Post.bind_read (runM_getFrame hf) ?_
        have : ¬ (fe.depth ≥ f.depth) := by omega
        simp only [this, if_false]
        exact ih _ hv
      · exact ih v hv
    · next h => cases h
    · next o' _ _ hnr h0 =>
      have : notRef o' = true := by
        cases o' with
        | ref e nm => exact (hnr _ e nm rfl rfl).elim
        | _ => rfl
      exact Post.pure hI ⟨rfl, ho, this⟩

theorem post_valueOf {st : St} (hI : Inv st) {o : Obj} (ho : okObj st.frames.size o = true) :
    Post (valueOf o) st (fun v s => s = st ∧ okObj st.frames.size v = true ∧ notRef v = true) := by
  unfold valueOf
  refine Post.bind_read (runM_get st) ?_
  exact post_valueOf_go hI _ o ho

end Grol.K

namespace Grol.K
open Grol.E

/-- the result is well scoped in the final state -/
abbrev OkO : Obj → St → Prop := fun v s => okObj s.frames.size v = true
abbrev OkOpt : Option Obj → St → Prop := fun r s => ∀ v, r = some v → okObj s.frames.size v = true

theorem okOpt_none {s : St} : OkOpt none s := fun _ h => by cases h

theorem Post.and_run {x : M α} {st : St} {Q : α → St → Prop} (h : Post x st Q) :
    Post x st (fun a s => Q a s ∧ runM x st = (.ok a, s)) := by
  unfold Post at h ⊢
  split at h
  next a st' h1 => exact ⟨h.1, h.2.1, h.2.2, h1⟩
  next h1 => exact h.elim
  next e st' hne h1 => exact h

/-- the store of frame `e` -/
def storeOf (s : St) (e : Nat) : List (String × Obj) :=
  match s.frames[e]? with
  | some f => f.store
  | none => []

theorem storeOf_frame {s : St} {e : Nat} {f : Frame} (h : s.frames[e]? = some f) : storeOf s e = f.store := by
  unfold storeOf; rw [h]

theorem frameVal_storeOf (s : St) (e : Nat) (n : String) : frameVal s e n = lookupVal (storeOf s e) n := by
  unfold frameVal storeOf
  cases s.frames[e]? <;> rfl

/-- same values (not counting reference entries) in every frame -/
def FV (st s : St) : Prop := ∀ e n, lookupVal (storeOf s e) n = lookupVal (storeOf st e) n

theorem FV.refl (st : St) : FV st st := fun _ _ => rfl
theorem FV.trans {a b c : St} (h1 : FV a b) (h2 : FV b c) : FV a c := fun e n => (h2 e n).trans (h1 e n)
theorem FV.frameVal {st s : St} (h : FV st s) (e : Nat) (n : String) : frameVal s e n = frameVal st e n := by
  rw [frameVal_storeOf, frameVal_storeOf]; exact h e n

/-- `modifyFrame` with the exact description of the new frame array -/
theorem post_modifyFrame' {st : St} {e : Nat} {g : Frame → Frame} {Q : Unit → St → Prop} (hI : Inv st)
    {f : Frame} (hf : st.frames[e]? = some f)
    (hg : (g f).depth = f.depth ∧ (g f).outer = f.outer ∧
      (g f).function = f.function ∧ StoreOk st.frames e f.depth (g f).store)
    (hk : KeptStore f.store (g f).store)
    (hQ : ∀ s, Inv s → s.frames.size = st.frames.size → s.cur = st.cur → s.frames[e]? = some (g f) →
      (∀ e', e' ≠ e → s.frames[e']? = st.frames[e']?) → Q () s) :
    Post (modifyFrame e g) st Q := by
  obtain ⟨h1, h2, h3, h4⟩ := hg
  have hlt := lt_of_frame hf
  unfold modifyFrame
  refine Post.bind_read (runM_getFrame hf) ?_
  unfold setFrame
  have hI' := hI.setFrame hf h1 h2 h3 h4
  refine Post.modify hI' (by simp) (Kept.setFrame hf hk) (hQ _ hI' (by simp) rfl ?_ ?_)
  · simp [Array.getElem?_setIfInBounds, hlt]
  · intro e' he'
    simp [Array.getElem?_setIfInBounds, Ne.symm he']

theorem post_bump {st : St} (hI : Inv st) {e : Nat} (he : e < st.frames.size) {g : Frame → Frame}
    (hg : ∀ f, (g f).depth = f.depth ∧ (g f).outer = f.outer ∧ (g f).function = f.function ∧ (g f).store = f.store)
    {Q : Unit → St → Prop}
    (hQ : ∀ s, Inv s → s.frames.size = st.frames.size → s.cur = st.cur → (∀ e', storeOf s e' = storeOf st e') → Q () s) :
    Post (modifyFrame e g) st Q := by
  obtain ⟨f, hf⟩ := frame_exists he
  obtain ⟨h1, h2, h3, h4⟩ := hg f
  refine post_modifyFrame' hI hf ⟨h1, h2, h3, by rw [h4]; exact (hI.frameOk hf).store⟩
    (by rw [h4]; exact KeptStore.refl _) ?_
  intro s hIs hsz hcur hfe hoth
  refine hQ s hIs hsz hcur ?_
  intro e'
  by_cases hee : e' = e
  · subst hee; rw [storeOf_frame hfe, storeOf_frame hf, h4]
  · unfold storeOf; rw [hoth e' hee]

theorem post_triggerNoCache {st : St} (hI : Inv st) {e : Nat} (he : e < st.frames.size) :
    Post (triggerNoCache e) st (fun _ s => s.frames.size = st.frames.size ∧ s.cur = st.cur) := by
  unfold triggerNoCache
  refine post_bump hI he ?_ (fun s _ h1 h2 _ => ⟨h1, h2⟩)
  intro f; exact ⟨rfl, rfl, rfl, rfl⟩

theorem Inv.clearCache {st : St} (hI : Inv st) : Inv { st with cache := [] } :=
  ⟨hI.cur, hI.root, hI.frames, by intro c hc; simp at hc⟩

/-- `functionChanged` touches a miss counter and the cache, never a store -/
theorem post_functionChanged {st : St} (hI : Inv st) {w : Nat} (hw : w < st.frames.size) (old : Option Obj) :
    Post (functionChanged w old) st (fun _ s => s.frames.size = st.frames.size ∧ ∀ e', storeOf s e' = storeOf st e') := by
  unfold functionChanged
  split
  · split
    · refine Post.bind (Q := fun _ s => s.frames.size = st.frames.size ∧ ∀ e', storeOf s e' = storeOf st e')
        (post_bump hI hw ?_ (fun s _ h1 _ h3 => ⟨h1, h3⟩)) ?_
      · intro f; exact ⟨rfl, rfl, rfl, rfl⟩
      rintro _ s hIs _ ⟨h1, h2⟩
      exact Post.modify hIs.clearCache (Nat.le_refl _) (Kept.of_frames rfl) ⟨h1, h2⟩
    · exact Post.pure hI ⟨rfl, fun _ => rfl⟩
  · exact Post.pure hI ⟨rfl, fun _ => rfl⟩

/-- what `makeRef orig name` guarantees -/
def RefQ (st : St) (orig : Nat) (name : String) : Option Obj → St → Prop := fun r s =>
  OkOpt r s ∧ s.frames.size = st.frames.size ∧ s.cur = st.cur ∧ FV st s ∧
  (∀ v, r = some v → (∃ re, v = Obj.ref re name) ∧ lookupStore (storeOf s orig) name = some v) ∧
  (r = none → s = st)

theorem refQ_none (st : St) (orig : Nat) (name : String) : RefQ st orig name none st :=
  ⟨okOpt_none, rfl, rfl, FV.refl _, fun _ h => (by cases h), fun _ => rfl⟩

theorem post_makeRef_go {st : St} (hI : Inv st) {orig : Nat} {forig : Frame}
    (ho : st.frames[orig]? = some forig) (name : String) (hn : lookupStore forig.store name = none) :
    ∀ (fuel e : Nat) (fe : Frame), st.frames[e]? = some fe → e ≤ orig → fe.depth ≤ forig.depth →
    Post (makeRef.go orig name fuel e) st (RefQ st orig name) := by
  have horig := lt_of_frame ho
  intro fuel
  induction fuel with
  | zero =>
    intro e fe _ _ _
    unfold makeRef.go
    exact Post.pure hI (refQ_none _ _ _)
  | succ fuel ih =>
    intro e fe hfe hle hd
    unfold makeRef.go
    refine Post.bind_read (runM_getFrame hfe) ?_
    split
    · exact Post.pure hI (refQ_none _ _ _)
    · next o hout =>
      obtain ⟨h1, h2⟩ := (hI.frameOk hfe).outer o hout
      have hosz : o < st.frames.size := Nat.lt_trans h1 (lt_of_frame hfe)
      obtain ⟨fo, hfo⟩ := frame_exists hosz
      have hdo := h2 fo hfo
      refine Post.bind_read (runM_getFrame hfo) ?_
      split
      · exact ih o fo hfo (by omega) (by omega)
      · next obj hl =>
        have hk := lookupStore_mem' hl
        obtain ⟨hv1, hv2⟩ := (hI.frameOk hfo).store _ _ hk
        dsimp only
        -- the reference that is stored
        have hr : okObj st.frames.size (refTo o name obj) = true ∧
            (∀ e' n', refTo o name obj = Obj.ref e' n' →
              (e' < orig ∧ ∀ fe', st.frames[e']? = some fe' → fe'.depth < forig.depth) ∧ n' = name) ∧
            ∃ re, refTo o name obj = Obj.ref re name := by
          cases obj with
          | ref e' n' =>
            obtain ⟨⟨h3, h4⟩, h5⟩ := hv2 e' n' rfl
            subst h5
            refine ⟨hv1, ?_, ⟨e', rfl⟩⟩
            intro e'' n'' h; cases h
            exact ⟨⟨by omega, fun fe' hfe' => by have := h4 fe' hfe'; omega⟩, rfl⟩
          | _ =>
            refine ⟨by simp [refTo, okObj]; exact hosz, ?_, ⟨o, rfl⟩⟩
            intro e'' n'' h; cases h
            refine ⟨⟨by omega, fun fe' hfe' => ?_⟩, rfl⟩
            rw [hfo] at hfe'; cases hfe'; omega
        generalize refTo o name obj = r at *
        obtain ⟨hr1, hr2, ⟨re, hre⟩⟩ := hr
        have hlv : lookupVal forig.store name = none := by unfold lookupVal; rw [hn]
        refine Post.bind (Q := fun _ s => s.frames.size = st.frames.size ∧ s.cur = st.cur ∧ FV st s ∧
            lookupStore (storeOf s orig) name = some r) ?_ ?_
        · refine post_modifyFrame' hI ho ⟨rfl, rfl, rfl, (hI.frameOk ho).store.setStore name hr1 hr2⟩ ?_ ?_
          · refine KeptStore.of_eq (fun N => ?_)
            subst hre
            exact lookupVal_setStore_ref _ _ _ _ _ hlv
          · intro s _ hsz hcur hfe' hoth
            refine ⟨hsz, hcur, ?_, ?_⟩
            · intro e' n
              by_cases hee : e' = orig
              · subst hee
                rw [storeOf_frame hfe', storeOf_frame ho]
                subst hre
                exact lookupVal_setStore_ref _ _ _ _ _ hlv
              · unfold storeOf; rw [hoth e' hee]
            · rw [storeOf_frame hfe']; exact lookupStore_setStore_eq _ _ _
        · intro _ s hIs _ hs
          have hres : RefQ st orig name (some r) s := by
            refine ⟨?_, hs.1, hs.2.1, hs.2.2.1, ?_, fun h => by cases h⟩
            · intro v hv; cases hv; rw [hs.1]; exact hr1
            · intro v hv; cases hv; exact ⟨⟨re, hre⟩, hs.2.2.2⟩
          have hjp : ∀ refDepth : Nat, Post
              (if (!(isConstant name && refDepth == 0) && !(isFuncObj obj && refDepth == 0)) = true then do
                  let __r ← modifyFrame orig fun f => { f with getMiss := f.getMiss + 1 }
                  (fun _ => pure (some r) : Unit → M (Option Obj)) __r
                else pure (some r)) s (RefQ st orig name) := by
            intro refDepth
            split
            · refine Post.bind (Q := fun _ s' => s'.frames.size = s.frames.size ∧ s'.cur = s.cur ∧
                  ∀ e', storeOf s' e' = storeOf s e') ?_ ?_
              · refine post_bump hIs (by omega) ?_ (fun s' _ h1 h2 h3 => ⟨h1, h2, h3⟩)
                intro f; exact ⟨rfl, rfl, rfl, rfl⟩
              · intro _ s' hIs' _ hs'
                refine Post.pure hIs' ⟨?_, by omega, by rw [hs'.2.1, hs.2.1], ?_, ?_, fun h => by cases h⟩
                · intro v hv; cases hv; rw [hs'.1, hs.1]; exact hr1
                · intro e' n; rw [hs'.2.2 e']; exact hs.2.2.1 e' n
                · intro v hv; cases hv; rw [hs'.2.2 orig]; exact ⟨⟨re, hre⟩, hs.2.2.2⟩
            · exact Post.pure hIs hres
          split
          · next e' nm' =>
            have he' : e' < s.frames.size := by
              have := hr1; simp only [okObj, decide_eq_true_eq] at this; omega
            obtain ⟨fe', hfe'⟩ := frame_exists he'
            refine Post.bind_read (runM_getFrame hfe') ?_
            exact hjp _
          · exact hjp _

theorem post_makeRef {st : St} (hI : Inv st) {orig : Nat} (ho : orig < st.frames.size) (name : String)
    (hn : lookupStore (storeOf st orig) name = none) :
    Post (makeRef orig name) st (RefQ st orig name) := by
  obtain ⟨f, hf⟩ := frame_exists ho
  rw [storeOf_frame hf] at hn
  unfold makeRef
  refine Post.bind_read (runM_get st) ?_
  exact post_makeRef_go hI hf name hn _ orig f hf (Nat.le_refl _) (Nat.le_refl _)

/-- `makeRef` from a frame without parent finds nothing and changes nothing -/
theorem makeRef_outer_none {st : St} {e : Nat} {f : Frame} (hf : st.frames[e]? = some f) (ho : f.outer = none)
    (name : String) : runM (makeRef e name) st = (.ok none, st) := by
  have hlt := lt_of_frame hf
  unfold makeRef
  rw [runM_bind, runM_get]
  dsimp only
  obtain ⟨k, hk⟩ : ∃ k, st.frames.size = k + 1 := ⟨st.frames.size - 1, by omega⟩
  rw [hk]
  unfold makeRef.go
  rw [runM_bind, runM_getFrame hf]
  dsimp only
  rw [ho]
  rfl

end Grol.K

namespace Grol.K
open Grol.E

theorem isConstant_self : isConstant "self" = false := by decide

/-- what `envGet e name` guarantees; for a constant name also where the result sits -/
def GetQ (st : St) (e : Nat) (name : String) : Option Obj → St → Prop := fun r s =>
  OkOpt r s ∧ s.frames.size = st.frames.size ∧ FV st s ∧
  (isConstant name = true →
    (∀ v, r = some v → lookupStore (storeOf s e) name = some v ∧ ∀ re rn, v = Obj.ref re rn → rn = name) ∧
    (r = none → lookupStore (storeOf s e) name = none ∧ runM (makeRef e name) s = (.ok none, s)))

theorem getQ_of_refQ {st s0 s : St} {e : Nat} {name : String} {r : Option Obj}
    (h0 : s0.frames.size = st.frames.size) (hfv : FV st s0) (hn : lookupStore (storeOf s0 e) name = none)
    (h : RefQ s0 e name r s)
    (hrun : runM (makeRef e name) s0 = (.ok r, s)) : GetQ st e name r s := by
  obtain ⟨h1, h2, _, h4, h5, h6⟩ := h
  refine ⟨h1, by omega, hfv.trans h4, fun _ => ⟨?_, ?_⟩⟩
  · intro v hv
    obtain ⟨⟨re, hre⟩, hl⟩ := h5 v hv
    refine ⟨hl, ?_⟩
    intro re' rn' h; rw [hre] at h; cases h; rfl
  · intro hr
    have := h6 hr
    subst this
    subst hr
    exact ⟨hn, hrun⟩

theorem post_envGet {st : St} (hI : Inv st) {e : Nat} (he : e < st.frames.size) (name : String) :
    Post (envGet e name) st (GetQ st e name) := by
  obtain ⟨f, hf⟩ := frame_exists he
  have hfok := hI.frameOk hf
  have hst : storeOf st e = f.store := storeOf_frame hf
  unfold envGet
  dsimp only
  split
  · exact Post.stop_bind hI (fun s h => by cases h)
  refine Post.bind_read (runM_getFrame hf) ?_
  have hfn : ∀ fn, f.function = some fn → okObj st.frames.size (Obj.func fn) = true := by
    intro fn hfn; simp only [okObj, Bool.and_eq_true, decide_eq_true_eq]; exact hfok.func fn hfn
  -- a constant name is never the name of the frame's function
  have hnofn : ∀ fn, f.function = some fn → (fn.name == some name) = true → isConstant name = true → False := by
    intro fn hfn hname hc
    have h1 := (hfok.func fn hfn).2
    have h2 : fn.name = some name := eq_of_beq hname
    simp only [okFn, Bool.and_eq_true, Bool.not_eq_true', h2, constName] at h1
    rw [hc] at h1; exact Bool.noConfusion h1.2
  -- results found in the (unchanged) store of the frame
  have hsome : ∀ (s : St) (v : Obj), Inv s → s.frames.size = st.frames.size → (∀ e', storeOf s e' = storeOf st e') →
      lookupStore f.store name = some v → GetQ st e name (some v) s := by
    intro s v hIs hsz hsame hl
    have hk := lookupStore_mem' hl
    obtain ⟨hv1, hv2⟩ := hfok.store _ _ hk
    refine ⟨fun w hw => by cases hw; rw [hsz]; exact hv1, hsz, fun e' n => by rw [hsame e'], fun _ => ⟨?_, fun h => by cases h⟩⟩
    intro w hw; cases hw
    refine ⟨by rw [hsame e, hst]; exact hl, ?_⟩
    intro re rn h; exact (hv2 re rn h).2
  -- the part after the `self` / function-name tests
  have hrest : Post (match lookupStore f.store name with
      | some (Obj.ref re rn) => do
        let __do_lift ← refAlive re rn
        if (!__do_lift) = true then do
            modifyFrame e fun f =>
                { store := delStore f.store name, outer := f.outer, depth := f.depth, cacheKey := f.cacheKey,
                  function := f.function, getMiss := f.getMiss, cantCache := f.cantCache, numSet := f.numSet, localFunc := f.localFunc }
            match f.outer with
              | none => pure none
              | some _ => makeRef e name
          else do
            let tgt ← refValue re rn
            let __do_lift ← getFrame re
            have __do_jp : Unit → M (Option Obj) := fun __r => pure (some (Obj.ref re rn))
            if (!(isConstant rn && __do_lift.depth == 0) && !(isFuncObj tgt && __do_lift.depth == 0)) = true then do
                let __r ←
                  modifyFrame e fun f =>
                      { store := f.store, outer := f.outer, depth := f.depth, cacheKey := f.cacheKey,
                        function := f.function, getMiss := f.getMiss + 1, cantCache := f.cantCache,
                        numSet := f.numSet, localFunc := f.localFunc }
                __do_jp __r
              else __do_jp ()
      | some obj => pure (some obj)
      | none =>
        match f.outer with
        | none => pure none
        | some _ => makeRef e name) st (GetQ st e name) := by
    split
    · next re rn hl =>
      have hk := lookupStore_mem' hl
      obtain ⟨hv1, hv2⟩ := hfok.store _ _ hk
      obtain ⟨⟨h3, _⟩, _⟩ := hv2 re rn rfl
      have hre : re < st.frames.size := Nat.lt_trans h3 he
      obtain ⟨fre, hfre⟩ := frame_exists hre
      have hlv : lookupVal f.store name = none := by unfold lookupVal; rw [hl]
      refine Post.bind_read (refAlive_run hfre rn) ?_
      split
      · -- stale reference: forget it and look again
        refine Post.bind (Q := fun _ s => s.frames.size = st.frames.size ∧ FV st s ∧
            s.frames[e]? = some { f with store := delStore f.store name }) ?_ ?_
        · refine post_modifyFrame' hI hf ⟨rfl, rfl, rfl, hfok.store.delStore name⟩
            (KeptStore.of_eq (fun N => lookupVal_delStore_ref _ _ _ hlv)) ?_
          intro s _ hsz _ hfe hoth
          refine ⟨hsz, ?_, hfe⟩
          intro e' n
          by_cases hee : e' = e
          · subst hee; rw [storeOf_frame hfe, hst]; exact lookupVal_delStore_ref _ _ _ hlv
          · unfold storeOf; rw [hoth e' hee]
        · intro _ s hIs _ hs
          have hn : lookupStore (storeOf s e) name = none := by
            rw [storeOf_frame hs.2.2]; exact lookupStore_delStore_self _ _
          split
          · next hout =>
            refine Post.pure hIs ⟨okOpt_none, hs.1, hs.2.1, fun _ => ⟨fun v h => (by cases h), fun _ => ⟨hn, ?_⟩⟩⟩
            exact makeRef_outer_none hs.2.2 hout name
          · refine (post_makeRef hIs (by omega) name hn).and_run.mono ?_
            intro r s' _ _ h
            exact getQ_of_refQ hs.1 hs.2.1 hn h.1 h.2
      · obtain ⟨tgt, hr, _, _⟩ := refValue_run hI hfre rn
        refine Post.bind_read hr ?_
        refine Post.bind_read (runM_getFrame hfre) ?_
        dsimp only
        split
        · refine Post.bind (Q := fun _ s => s.frames.size = st.frames.size ∧ ∀ e', storeOf s e' = storeOf st e') ?_ ?_
          · refine post_bump hI he ?_ (fun s _ h1 _ h3 => ⟨h1, h3⟩)
            intro f; exact ⟨rfl, rfl, rfl, rfl⟩
          · intro _ s hIs _ hs
            exact Post.pure hIs (hsome s _ hIs hs.1 hs.2 hl)
        · exact Post.pure hI (hsome st _ hI rfl (fun _ => rfl) hl)
    · next obj _ hl => exact Post.pure hI (hsome st _ hI rfl (fun _ => rfl) hl)
    · next hl =>
      have hn : lookupStore (storeOf st e) name = none := by rw [hst]; exact hl
      split
      · next hout =>
        refine Post.pure hI ⟨okOpt_none, rfl, FV.refl _, fun _ => ⟨fun v h => (by cases h), fun _ => ⟨hn, ?_⟩⟩⟩
        exact makeRef_outer_none hf hout name
      · refine (post_makeRef hI he name hn).and_run.mono ?_
        intro r s' _ _ h
        exact getQ_of_refQ rfl (FV.refl _) hn h.1 h.2
  -- results that are the frame's own function: not for constant names
  have hfunc : ∀ fn, f.function = some fn → (isConstant name = true → False) →
      GetQ st e name (some (Obj.func fn)) st := by
    intro fn hfn' hc
    exact ⟨fun v hv => by cases hv; exact hfn fn hfn', rfl, FV.refl _, fun h => (hc h).elim⟩
  split
  · next hself =>
    have hc : isConstant name = true → False := by
      intro h
      have : name = "self" := eq_of_beq hself
      rw [this, isConstant_self] at h; exact Bool.noConfusion h
    split
    · next fn hfn' => exact Post.pure hI (hfunc fn hfn' hc)
    · exact Post.pure hI ⟨okOpt_none, rfl, FV.refl _, fun h => (hc h).elim⟩
  · split
    · next fn hfn' =>
      split
      · next hname => exact Post.pure hI (hfunc fn hfn' (hnofn fn hfn' hname))
      · exact hrest
    · exact hrest

end Grol.K

namespace Grol.K
open Grol.E

/-! ### writes -/

/-- writing `w` under `name` in frame `e` is allowed: a constant bound there is bound to an equivalent value -/
def WOk (st : St) (e : Nat) (name : String) (w : Obj) : Prop :=
  isConstant name = true → ∀ u, lookupVal (storeOf st e) name = some u → Eqv u w

theorem lookupVal_notRef {s : List (String × Obj)} {n : String} {v : Obj} (h : lookupStore s n = some v)
    (hnr : notRef v = true) : lookupVal s n = some v := by
  unfold lookupVal; rw [h]
  cases v <;> first | rfl | (simp [notRef] at hnr)

theorem lookupVal_some {s : List (String × Obj)} {n : String} {u : Obj} (h : lookupVal s n = some u) :
    lookupStore s n = some u ∧ notRef u = true := by
  unfold lookupVal at h
  split at h
  · cases h
  · next hnr =>
    refine ⟨h, ?_⟩
    cases u with
    | ref e nm => exact (hnr e nm h).elim
    | _ => rfl

theorem valueOf_notRef {o : Obj} (h : notRef o = true) (st : St) : runM (valueOf o) st = (.ok o, st) := by
  unfold valueOf
  rw [runM_bind, runM_get]
  dsimp only
  unfold valueOf.go
  split
  · simp [notRef] at h
  · simp [notRef] at h
  · rfl

/-- dereferencing a reference to a directly bound name yields the bound value -/
theorem valueOf_ref_bound {st : St} {re : Nat} {name : String} {u : Obj}
    (h : lookupVal (storeOf st re) name = some u) : runM (valueOf (.ref re name)) st = (.ok u, st) := by
  obtain ⟨hl, hnr⟩ := lookupVal_some h
  cases hfe : st.frames[re]? with
  | none => unfold storeOf at hl; rw [hfe] at hl; simp [lookupStore] at hl
  | some fre =>
    rw [storeOf_frame hfe] at hl
    have hrv : runM (refValue re name) st = (.ok u, st) := by
      unfold refValue
      rw [runM_bind, runM_getFrame hfe]
      dsimp only
      rw [hl]
      cases u <;> first | rfl | (simp [notRef] at hnr)
    unfold valueOf
    rw [runM_bind, runM_get]
    dsimp only
    unfold valueOf.go
    rw [runM_bind, hrv]
    dsimp only
    have h2 : ∀ n, runM (valueOf.go n u) st = (.ok u, st) := by
      intro n
      unfold valueOf.go
      split
      · simp [notRef] at hnr
      · simp [notRef] at hnr
      · rfl
    cases u <;> first | exact h2 _ | (simp [notRef] at hnr)

/-- storing a well scoped non-reference value in frame `e` -/
theorem post_store {st : St} (hI : Inv st) {e : Nat} (he : e < st.frames.size) {g : Frame → Frame}
    {name : String} {v : Obj} (hv : okObj st.frames.size v = true) (hnr : notRef v = true)
    (hw : WOk st e name v)
    (hg : ∀ f, (g f).depth = f.depth ∧ (g f).outer = f.outer ∧ (g f).function = f.function ∧
      (g f).store = setStore f.store name v) :
    Post (modifyFrame e g) st (fun _ _ => True) := by
  obtain ⟨f, hf⟩ := frame_exists he
  obtain ⟨h1, h2, h3, h4⟩ := hg f
  refine post_modifyFrame' hI hf ⟨h1, h2, h3, ?_⟩ ?_ (fun _ _ _ _ _ _ => trivial)
  · rw [h4]
    exact (hI.frameOk hf).store.setStore name hv (notRef_clause hnr)
  · rw [h4]
    intro N u hc hu
    by_cases hN : N = name
    · subst hN
      refine ⟨v, lookupVal_notRef (lookupStore_setStore_eq _ _ _) hnr, ?_⟩
      exact hw hc u (by rw [storeOf_frame hf]; exact hu)
    · refine ⟨u, ?_, Eqv.refl u⟩
      unfold lookupVal at hu ⊢
      rw [lookupStore_setStore_ne _ _ _ _ hN]; exact hu

theorem post_envCreate {st : St} (hI : Inv st) {e : Nat} (he : e < st.frames.size) (name : String) {val : Obj}
    (hval : okObj st.frames.size val = true)
    (hw : ∀ w, runM (valueOf val) st = (.ok w, st) → WOk st e name w) : Post (envCreate e name val) st OkO := by
  unfold envCreate
  refine Post.bind (post_valueOf hI hval).and_run ?_
  rintro v s hIs _ ⟨⟨rfl, hv, hnr⟩, hrun⟩
  refine Post.bind_read (runM_rootBindsFunc _ _) ?_
  refine Post.bind (Q := fun _ _ => True) ?_ ?_
  · refine post_store (name := name) hI he hv hnr (hw v hrun) ?_
    intro f; exact ⟨rfl, rfl, rfl, rfl⟩
  · intro _ s' hIs' hle _
    exact Post.pure hIs' (okObj_mono hle _ hv)

theorem WOk.of_same {st s : St} (h : ∀ e', storeOf s e' = storeOf st e') {e : Nat} {name : String} {w : Obj}
    (hw : WOk st e name w) : WOk s e name w := fun hc u hu => hw hc u (by rw [← h e]; exact hu)

/-- `envStoreAt`: the store part of `update` -/
theorem post_envStoreAt {st : St} (hI : Inv st) {writer e : Nat} (hwr : writer < st.frames.size)
    (he : e < st.frames.size) (name : String) {v : Obj} (hv : okObj st.frames.size v = true)
    (hnr : notRef v = true) (hw : WOk st e name v) : Post (envStoreAt writer e name v) st OkO := by
  obtain ⟨f, hf⟩ := frame_exists he
  unfold envStoreAt
  refine Post.bind_read (runM_getFrame hf) ?_
  refine Post.bind (post_functionChanged hI hwr _) ?_
  rintro _ s hIs hle ⟨hsz, hsame⟩
  refine Post.bind_read (runM_rootBindsFunc _ _) ?_
  refine Post.bind (Q := fun _ _ => True) ?_ ?_
  · refine post_store (name := name) hIs (by omega) (by rw [hsz]; exact hv) hnr (hw.of_same hsame) ?_
    intro f; exact ⟨rfl, rfl, rfl, rfl⟩
  · intro _ s' hIs' hle' _
    exact Post.pure hIs' (okObj_mono (by omega) _ hv)

theorem post_envUpdate {st : St} (hI : Inv st) {e : Nat} (he : e < st.frames.size) (name : String) {found val : Obj}
    (hfound : okObj st.frames.size found = true)
    (hval : okObj st.frames.size val = true)
    (hw1 : ∀ re rn w, found = Obj.ref re rn → runM (valueOf val) st = (.ok w, st) → WOk st re rn w)
    (hw2 : notRef found = true → ∀ w, runM (valueOf val) st = (.ok w, st) → WOk st e name w) :
    Post (envUpdate e name found val) st OkO := by
  unfold envUpdate
  have hrest : ∀ v, okObj st.frames.size v = true → notRef v = true → runM (valueOf val) st = (.ok v, st) →
      Post (envStoreAt e (updTarget e name found).1 (updTarget e name found).2 v) st OkO := by
    intro v hv hnr hrun
    have this : (updTarget e name found).1 < st.frames.size ∧
        WOk st (updTarget e name found).1 (updTarget e name found).2 v := by
      cases found with
      | ref re rn =>
        refine ⟨by simp only [okObj, decide_eq_true_eq] at hfound; exact hfound, hw1 re rn v rfl hrun⟩
      | _ => exact ⟨he, hw2 rfl v hrun⟩
    exact post_envStoreAt hI he this.1 _ hv hnr this.2
  split
  · refine Post.bind (post_valueOf hI hval).and_run ?_
    rintro v s hIs _ ⟨⟨rfl, hv, hnr⟩, hrun⟩
    exact hrest v hv hnr hrun
  · next hnr =>
    refine Post.bind (Q := fun v s => s = st ∧ v = val) (Post.pure hI ⟨rfl, rfl⟩) ?_
    rintro v s hIs _ ⟨rfl, rfl⟩
    have hnr' : notRef v = true := by
      cases v with
      | ref e' n' => exact (hnr e' n' rfl).elim
      | _ => rfl
    exact hrest v hval hnr' (valueOf_notRef hnr' _)

/-- what the caller of `setNoChecks e name val` must have checked when `name` is a constant -/
def SetOk (st : St) (e : Nat) (name : String) (val : Obj) : Prop :=
  isConstant name = true →
    (lookupStore (storeOf st e) name = none → runM (makeRef e name) st = (.ok none, st)) ∧
    ∀ w, runM (valueOf val) st = (.ok w, st) →
      (∀ u, lookupVal (storeOf st e) name = some u → Eqv u w) ∧
      (∀ re u, lookupStore (storeOf st e) name = some (Obj.ref re name) →
        lookupVal (storeOf st re) name = some u → Eqv u w)

theorem SetOk.of_not_const {st : St} {e : Nat} {name : String} {val : Obj} (h : isConstant name = false) :
    SetOk st e name val := fun hc => by rw [h] at hc; exact Bool.noConfusion hc

theorem post_setNoChecks {st : St} (hI : Inv st) {e : Nat} (he : e < st.frames.size) (name : String) {val : Obj}
    (hval : okObj st.frames.size val = true) (create : Bool) (hw : SetOk st e name val) :
    Post (setNoChecks e name val create) st OkO := by
  obtain ⟨f, hf⟩ := frame_exists he
  have hst : storeOf st e = f.store := storeOf_frame hf
  have hw0 : ∀ w, runM (valueOf val) st = (.ok w, st) → WOk st e name w :=
    fun w hrun hc => ((hw hc).2 w hrun).1
  unfold setNoChecks
  split
  · exact post_envCreate hI he name hval hw0
  refine Post.bind_read (runM_getFrame hf) ?_
  split
  · next r hl =>
    have hk := lookupStore_mem' hl
    obtain ⟨hr1, hr2⟩ := (hI.frameOk hf).store _ _ hk
    refine post_envUpdate hI he name hr1 hval ?_ (fun _ => hw0)
    intro re rn w hrr hrun hc u hu
    subst hrr
    have hrn : rn = name := (hr2 re rn rfl).2
    subst hrn
    exact ((hw hc).2 w hrun).2 re u (by rw [hst]; exact hl) hu
  · next hl =>
    have hn : lookupStore (storeOf st e) name = none := by rw [hst]; exact hl
    cases hc : isConstant name with
    | true =>
      -- a constant: nothing is visible (otherwise the checking setter would have seen it)
      have hmk : runM (makeRef e name) st = (.ok none, st) := (hw hc).1 hn
      refine Post.bind_read hmk ?_
      exact post_envCreate hI he name hval hw0
    | false =>
      refine Post.bind (post_makeRef hI he name hn) ?_
      rintro r s hIs hle ⟨hr, hsz, _, _, hrq, _⟩
      have hval' : okObj s.frames.size val = true := okObj_mono hle _ hval
      split
      · rename_i re rn _
        have hrn : rn = name := by
          obtain ⟨⟨re', hre'⟩, _⟩ := hrq _ rfl
          injection hre' with _ h2
        subst hrn
        have hre : re < s.frames.size := by simpa [okObj] using hr _ rfl
        refine Post.bind (post_valueOf hIs hval') ?_
        rintro v s' hIs' _ ⟨rfl, hv, hnr⟩
        obtain ⟨fre, hfre⟩ := frame_exists hre
        refine Post.bind_read (runM_getFrame hfre) ?_
        refine Post.bind (post_functionChanged hIs (by omega) _) ?_
        rintro _ s2 hIs2 hle2 ⟨hsz2, _⟩
        refine Post.bind_read (runM_rootBindsFunc _ _) ?_
        refine Post.bind (Q := fun _ _ => True) ?_ ?_
        · refine post_store (name := rn) hIs2 (by omega) (by rw [hsz2]; exact hv) hnr
            (fun h => by rw [hc] at h; exact Bool.noConfusion h) ?_
          intro f; exact ⟨rfl, rfl, rfl, rfl⟩
        · intro _ s'' hIs'' hle' _
          exact Post.pure hIs'' (okObj_mono (by omega) _ hval')
      · exact post_envCreate hIs (by omega) name hval' (fun w _ h => by rw [hc] at h; exact Bool.noConfusion h)

theorem run_inj {x : M α} {st s1 s2 : St} {a b : α} (h1 : runM x st = (.ok a, s1)) (h2 : runM x st = (.ok b, s2)) :
    a = b := by
  rw [h1] at h2; cases h2; rfl

/-- `createOrSet`: the checking setter.  For a constant name the check against what `envGet` found
is exactly what `setNoChecks` needs (`SetOk`) -/
theorem post_createOrSet {st : St} (hI : Inv st) {e : Nat} (he : e < st.frames.size) (name : String) {val : Obj}
    (hval : okObj st.frames.size val = true) (create : Bool) : Post (createOrSet e name val create) st OkO := by
  unfold createOrSet
  dsimp only
  have hrest : ∀ s : St, Inv s → st.frames.size ≤ s.frames.size → SetOk s e name val →
      Post (do
        let st ← get
        if st.extNames.contains name = true then pure (Obj.error ("attempt to change internal function " ++ name))
          else setNoChecks e name val create) s OkO := by
    intro s hIs hle hw
    refine Post.bind_read (runM_get s) ?_
    split
    · exact Post.pure hIs (by simp [OkO, okObj])
    · exact post_setNoChecks hIs (by omega) name (okObj_mono hle _ hval) create hw
  split
  · next hc =>
    refine Post.bind (post_envGet hI he name) ?_
    rintro r s hIs hle ⟨hr, _, _, hq⟩
    obtain ⟨hq1, hq2⟩ := hq hc
    split
    · next old =>
      have hold : okObj s.frames.size old = true := hr old rfl
      obtain ⟨hlk, hrn⟩ := hq1 old rfl
      have hfin : ∀ (same : Bool), (same = true → SetOk s e name val) →
          Post (if (!same) = true then pure (Obj.error ("attempt to change constant " ++ name)) else do
            let st ← get
            if st.extNames.contains name = true then pure (Obj.error ("attempt to change internal function " ++ name))
              else setNoChecks e name val create) s OkO := by
        intro same hsame
        split
        · exact Post.pure hIs (by simp [OkO, okObj])
        · next hns =>
          refine hrest s hIs hle (hsame ?_)
          cases same <;> simp_all
      split
      · refine Post.bind (Q := fun same s' => s' = s ∧ same = false) (Post.pure hIs ⟨rfl, rfl⟩) ?_
        rintro same s' hIs' _ ⟨rfl, rfl⟩
        exact hfin false (fun h => by cases h)
      · refine Post.bind (post_valueOf hIs hold).and_run ?_
        rintro o s hIs _ ⟨⟨rfl, _, _⟩, hro⟩
        refine Post.bind (post_valueOf hIs (okObj_mono hle _ hval)).and_run ?_
        rintro v s hIs _ ⟨⟨rfl, _, _⟩, hrv⟩
        refine Post.bind (Q := fun c s'' => s'' = s ∧ cmp o v = .ok c)
          (Post.liftR hIs (cmp_npr o v) (fun c hcv => ⟨rfl, hcv⟩)) ?_
        rintro c s hIs _ ⟨rfl, hcv⟩
        refine Post.bind (Q := fun same s3 => s3 = s ∧ same = (c == 0 && sameTypes o v))
          (Post.pure hIs ⟨rfl, rfl⟩) ?_
        rintro same s hIs _ ⟨rfl, hsame⟩
        refine hfin same ?_
        intro hs _
        rw [hs] at hsame
        have hacc : Acc o v := by
          have h1 : (c == 0) = true ∧ sameTypes o v = true := by
            simpa [Bool.and_eq_true] using hsame.symm
          have hc0 : c = 0 := by simpa using h1.1
          subst hc0
          exact ⟨hcv, h1.2⟩
        refine ⟨fun hn => (by rw [hlk] at hn; cases hn), ?_⟩
        intro w hrw
        have hwv : w = v := run_inj hrw hrv
        subst hwv
        refine ⟨?_, ?_⟩
        · intro u hu
          obtain ⟨hl, hnr⟩ := lookupVal_some hu
          rw [hlk] at hl; cases hl
          have : o = old := run_inj hro (valueOf_notRef hnr s)
          subst this
          exact Eqv.step hacc
        · intro re u hl hu
          rw [hlk] at hl; cases hl
          have : o = u := run_inj hro (valueOf_ref_bound hu)
          subst this
          exact Eqv.step hacc
    · obtain ⟨hn, hmk⟩ := hq2 rfl
      refine hrest s hIs hle ?_
      intro _
      refine ⟨fun _ => hmk, ?_⟩
      intro w _
      refine ⟨?_, ?_⟩
      · intro u hu
        have := (lookupVal_some hu).1
        rw [hn] at this; cases this
      · intro re u hl _
        rw [hn] at hl; cases hl
  · next hc =>
    exact hrest st hI (Nat.le_refl _) (SetOk.of_not_const (by simpa using hc))

theorem post_envSet {st : St} (hI : Inv st) {e : Nat} (he : e < st.frames.size) (name : String) {val : Obj}
    (hval : okObj st.frames.size val = true) : Post (envSet e name val) st OkO :=
  post_createOrSet hI he name hval false

end Grol.K

namespace Grol.K
open Grol.E

/-- `envGet`, keeping only the scoping of the result -/
theorem post_envGet_ok {st : St} (hI : Inv st) {e : Nat} (he : e < st.frames.size) (name : String) :
    Post (envGet e name) st OkOpt :=
  (post_envGet hI he name).mono (fun _ _ _ _ h => h.1)

end Grol.K

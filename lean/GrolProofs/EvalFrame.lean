import GrolProofs.EvalOps
/-
Frame property of the evaluator model: no computation changes cfg / root / extNames, and on a
normal return the current scope and the depth counter are back to what they were.
-/
namespace Grol.E

/-- what no evaluator computation ever changes, whatever the outcome (normal, error, Go panic, depth guard, out of fuel, declined) -/
structure Keeps (st st' : St) : Prop where
  cfg : st'.cfg = st.cfg
  root : st'.root = st.root
  extNames : st'.extNames = st.extNames

/-- on a NORMAL return the current scope and the depth counter are back to what they were -/
def Restores (st st' : St) : Prop := st'.cur = st.cur ∧ st'.depth = st.depth

theorem Keeps.refl (st : St) : Keeps st st := ⟨rfl, rfl, rfl⟩

theorem Keeps.trans {a b c : St} (h1 : Keeps a b) (h2 : Keeps b c) : Keeps a c :=
  ⟨h2.cfg.trans h1.cfg, h2.root.trans h1.root, h2.extNames.trans h1.extNames⟩

theorem Restores.refl (st : St) : Restores st st := ⟨rfl, rfl⟩

theorem Restores.trans {a b c : St} (h1 : Restores a b) (h2 : Restores b c) : Restores a c :=
  ⟨h2.1.trans h1.1, h2.2.trans h1.2⟩

theorem stateAfter_bind (x : M α) (f : α → M β) (st : St) :
    stateAfter (x >>= f) st =
      match outcome x st with
      | .ok a => stateAfter (f a) (stateAfter x st)
      | .error _ => stateAfter x st := by
  unfold outcome stateAfter
  simp only [bind, ExceptT.bind, ExceptT.run, ExceptT.mk, StateT.bind, ExceptT.bindCont, Id.run]
  split
  next a s h =>
    simp only [h]
    cases a <;> rfl

/-- weakest-precondition style statement about one run -/
def Sat (x : M α) (st : St) (Q : Except Stop α → St → Prop) : Prop :=
  Q (outcome x st) (stateAfter x st)

theorem Sat.bind {x : M α} {f : α → M β} {st : St} {Q : Except Stop β → St → Prop}
    (h : Sat x st (fun r s => match r with
      | .ok a => Sat (f a) s Q
      | .error e => Q (.error e) s)) : Sat (x >>= f) st Q := by
  unfold Sat at *
  rw [outcome_bind, stateAfter_bind]
  revert h
  cases outcome x st <;> exact id

theorem Sat.pure {a : α} {st : St} {Q : Except Stop α → St → Prop} (h : Q (.ok a) st) :
    Sat (pure a : M α) st Q := h

theorem Sat.get {st : St} {Q : Except Stop St → St → Prop} (h : Q (.ok st) st) :
    Sat (get : M St) st Q := h

theorem Sat.set {s st : St} {Q : Except Stop PUnit → St → Prop} (h : Q (.ok ⟨⟩) s) :
    Sat (set s : M PUnit) st Q := h

theorem Sat.modify {g : St → St} {st : St} {Q : Except Stop PUnit → St → Prop}
    (h : Q (.ok ⟨⟩) (g st)) : Sat (modify g : M PUnit) st Q := h

theorem Sat.stop {e : Stop} {st : St} {Q : Except Stop α → St → Prop} (h : Q (.error e) st) :
    Sat (stop e : M α) st Q := h

/-- the frame property of a computation -/
structure Good (x : M α) : Prop where
  h : ∀ st, Keeps st (stateAfter x st) ∧ (∀ a, outcome x st = .ok a → Restores st (stateAfter x st))

theorem Sat.of_good {x : M α} (hx : Good x) {st : St} {Q : Except Stop α → St → Prop}
    (h : ∀ r s, Keeps st s → (∀ a, r = .ok a → Restores st s) → Q r s) : Sat x st Q :=
  h _ _ (hx.h st).1 (hx.h st).2

theorem good_pure (a : α) : Good (pure a : M α) :=
  ⟨fun st => ⟨Keeps.refl st, fun _ _ => Restores.refl st⟩⟩

theorem good_bind {x : M α} {f : α → M β} (hx : Good x) (hf : ∀ a, Good (f a)) : Good (x >>= f) := by
  constructor
  intro st
  rw [outcome_bind, stateAfter_bind]
  have h1 := hx.h st
  cases h : outcome x st with
  | error e => exact ⟨h1.1, fun _ h' => by cases h'⟩
  | ok a =>
    have h2 := (hf a).h (stateAfter x st)
    exact ⟨h1.1.trans h2.1, fun b hb => (h1.2 a h).trans (h2.2 b hb)⟩

theorem good_stop (e : Stop) : Good (stop e : M α) :=
  ⟨fun st => ⟨Keeps.refl st, fun _ h => by cases h⟩⟩

theorem good_throw (e : Stop) : Good (throw e : M α) := good_stop e

theorem good_get : Good (get : M St) :=
  ⟨fun st => ⟨Keeps.refl st, fun _ _ => Restores.refl st⟩⟩

theorem good_liftR (r : R α) : Good (liftR r) := by
  cases r with
  | ok a => exact good_pure a
  | error e => exact good_stop e

/-- a state update that touches only frames / outs / cache / steps -/
def Inert (g : St → St) : Prop :=
  ∀ st, (g st).cfg = st.cfg ∧ (g st).root = st.root ∧ (g st).extNames = st.extNames ∧
    (g st).cur = st.cur ∧ (g st).depth = st.depth

theorem good_modify {g : St → St} (hg : Inert g) : Good (modify g : M PUnit) := by
  constructor
  intro st
  obtain ⟨h1, h2, h3, h4, h5⟩ := hg st
  exact ⟨⟨h1, h2, h3⟩, fun _ _ => ⟨h4, h5⟩⟩

theorem good_get_set {g : St → St} (hg : Inert g) {k : St → M β} (hk : ∀ s, Good (k s)) :
    Good (get >>= fun st => set (g st) >>= fun _ => k st) := by
  constructor
  intro st
  obtain ⟨h1, h2, h3, h4, h5⟩ := hg st
  have hk' := (hk st).h (g st)
  have e1 : outcome (get >>= fun st => set (g st) >>= fun _ => k st) st = outcome (k st) (g st) := rfl
  have e2 : stateAfter (get >>= fun st => set (g st) >>= fun _ => k st) st = stateAfter (k st) (g st) := rfl
  rw [e1, e2]
  exact ⟨Keeps.trans ⟨h1, h2, h3⟩ hk'.1, fun a ha => Restores.trans ⟨h4, h5⟩ (hk'.2 a ha)⟩

theorem good_forIn {γ δ : Type} (l : List γ) (init : δ) (f : γ → δ → M (ForInStep δ))
    (hf : ∀ a b, Good (f a b)) : Good (forIn l init f) := by
  induction l generalizing init with
  | nil => exact good_pure _
  | cons a as ih =>
    rw [List.forIn_cons]
    refine good_bind (hf a init) ?_
    intro r
    cases r with
    | done b => exact good_pure _
    | yield b => exact ih b

syntax "good_lemma" : tactic
macro_rules | `(tactic| good_lemma) => `(tactic| with_reducible exact good_pure _)
macro_rules | `(tactic| good_lemma) => `(tactic| with_reducible exact good_get)
macro_rules | `(tactic| good_lemma) => `(tactic| with_reducible exact good_stop _)
macro_rules | `(tactic| good_lemma) => `(tactic| with_reducible exact good_throw _)
macro_rules | `(tactic| good_lemma) => `(tactic| with_reducible exact good_liftR _)
macro_rules | `(tactic| good_lemma) => `(tactic| with_reducible apply good_modify)

macro_rules | `(tactic| good_lemma) => `(tactic| (with_reducible show Inert _); exact (fun _ => ⟨rfl, rfl, rfl, rfl, rfl⟩))

macro "good_step" : tactic => `(tactic| first
  | good_lemma
  | with_reducible apply good_get_set
  | with_reducible apply good_bind
  | with_reducible apply good_forIn
  | intro _
  | split
  | dsimp only)

syntax "good" ("using" term,+)? : tactic
macro_rules
  | `(tactic| good) => `(tactic| repeat' good_step)
  | `(tactic| good using $ts,*) =>
    `(tactic| repeat' (first | (with_reducible first $[| apply $ts]*) | good_step))

theorem good_getFrame {e} : Good (getFrame e) := by unfold getFrame; good
macro_rules | `(tactic| good_lemma) => `(tactic| with_reducible exact good_getFrame)
theorem good_setFrame {e f} : Good (setFrame e f) := by unfold setFrame; good
macro_rules | `(tactic| good_lemma) => `(tactic| with_reducible exact good_setFrame)
theorem good_modifyFrame {e f} : Good (modifyFrame e f) := by unfold modifyFrame; good
macro_rules | `(tactic| good_lemma) => `(tactic| with_reducible exact good_modifyFrame)
theorem good_newFrame {f} : Good (newFrame f) := by unfold newFrame; good
macro_rules | `(tactic| good_lemma) => `(tactic| with_reducible exact good_newFrame)
theorem good_refValue {e n} : Good (refValue e n) := by unfold refValue; good
macro_rules | `(tactic| good_lemma) => `(tactic| with_reducible exact good_refValue)
theorem good_refAlive {e n} : Good (refAlive e n) := by unfold refAlive; good
macro_rules | `(tactic| good_lemma) => `(tactic| with_reducible exact good_refAlive)

theorem good_valueOf_go {n o} : Good (valueOf.go n o) := by
  induction n generalizing o with
  | zero => cases o <;> simp only [valueOf.go] <;> good
  | succ n ih => cases o <;> simp only [valueOf.go] <;> good using @ih
macro_rules | `(tactic| good_lemma) => `(tactic| with_reducible exact good_valueOf_go)
theorem good_valueOf {o} : Good (valueOf o) := by unfold valueOf; good
macro_rules | `(tactic| good_lemma) => `(tactic| with_reducible exact good_valueOf)
theorem good_triggerNoCache {e} : Good (triggerNoCache e) := by unfold triggerNoCache; good
macro_rules | `(tactic| good_lemma) => `(tactic| with_reducible exact good_triggerNoCache)
theorem good_makeRef_go {orig name fuel e} : Good (makeRef.go orig name fuel e) := by
  induction fuel generalizing e with
  | zero => unfold makeRef.go; good
  | succ n ih => unfold makeRef.go; good using @ih
macro_rules | `(tactic| good_lemma) => `(tactic| with_reducible exact good_makeRef_go)
theorem good_makeRef {e n} : Good (makeRef e n) := by unfold makeRef; good
macro_rules | `(tactic| good_lemma) => `(tactic| with_reducible exact good_makeRef)
theorem good_envGet {e n} : Good (envGet e n) := by unfold envGet; good
macro_rules | `(tactic| good_lemma) => `(tactic| with_reducible exact good_envGet)
theorem good_rootBindsFunc {n} : Good (rootBindsFunc n) := by unfold rootBindsFunc; good
macro_rules | `(tactic| good_lemma) => `(tactic| with_reducible exact good_rootBindsFunc)
theorem good_envCreate {e n v} : Good (envCreate e n v) := by unfold envCreate; good
macro_rules | `(tactic| good_lemma) => `(tactic| with_reducible exact good_envCreate)
theorem good_functionChanged {w o} : Good (functionChanged w o) := by unfold functionChanged; good
macro_rules | `(tactic| good_lemma) => `(tactic| with_reducible exact good_functionChanged)
theorem good_envStoreAt {w e n v} : Good (envStoreAt w e n v) := by unfold envStoreAt; good
macro_rules | `(tactic| good_lemma) => `(tactic| with_reducible exact good_envStoreAt)
theorem good_envUpdate {e n f v} : Good (envUpdate e n f v) := by unfold envUpdate; good
macro_rules | `(tactic| good_lemma) => `(tactic| with_reducible exact good_envUpdate)
theorem good_setNoChecks {e n v c} : Good (setNoChecks e n v c) := by unfold setNoChecks; good
macro_rules | `(tactic| good_lemma) => `(tactic| with_reducible exact good_setNoChecks)
theorem good_createOrSet {e n v c} : Good (createOrSet e n v c) := by unfold createOrSet; good
macro_rules | `(tactic| good_lemma) => `(tactic| with_reducible exact good_createOrSet)
theorem good_envSet {e n v} : Good (envSet e n v) := by unfold envSet; good
macro_rules | `(tactic| good_lemma) => `(tactic| with_reducible exact good_envSet)
theorem good_envDelete_go {name fuel e} : Good (envDelete.go name fuel e) := by
  induction fuel generalizing e with
  | zero => unfold envDelete.go; good
  | succ n ih => unfold envDelete.go; good using @ih
macro_rules | `(tactic| good_lemma) => `(tactic| with_reducible exact good_envDelete_go)
theorem good_envDelete {e n} : Good (envDelete e n) := by unfold envDelete; good
macro_rules | `(tactic| good_lemma) => `(tactic| with_reducible exact good_envDelete)
theorem good_mustBeOk {n} : Good (mustBeOk n) := by unfold mustBeOk; good
macro_rules | `(tactic| good_lemma) => `(tactic| with_reducible exact good_mustBeOk)
theorem good_evalIntegerInfix {op l r} : Good (evalIntegerInfix op l r) := by unfold evalIntegerInfix; good
macro_rules | `(tactic| good_lemma) => `(tactic| with_reducible exact good_evalIntegerInfix)
theorem good_evalFloatInfix {op l r} : Good (evalFloatInfix op l r) := by unfold evalFloatInfix; good
macro_rules | `(tactic| good_lemma) => `(tactic| with_reducible exact good_evalFloatInfix)
theorem good_evalStringInfix {op l r} : Good (evalStringInfix op l r) := by unfold evalStringInfix; good
macro_rules | `(tactic| good_lemma) => `(tactic| with_reducible exact good_evalStringInfix)
theorem good_evalArrayInfix {op l r} : Good (evalArrayInfix op l r) := by unfold evalArrayInfix; good
macro_rules | `(tactic| good_lemma) => `(tactic| with_reducible exact good_evalArrayInfix)
theorem good_equalsM {a b} : Good (equalsM a b) := by unfold equalsM; good
macro_rules | `(tactic| good_lemma) => `(tactic| with_reducible exact good_equalsM)
theorem good_cmpM {a b} : Good (cmpM a b) := by unfold cmpM; good
macro_rules | `(tactic| good_lemma) => `(tactic| with_reducible exact good_cmpM)
theorem good_evalInfixOp {op l r} : Good (evalInfixOp op l r) := by unfold evalInfixOp; good
macro_rules | `(tactic| good_lemma) => `(tactic| with_reducible exact good_evalInfixOp)
theorem good_objFirst {o} : Good (objFirst o) := by unfold objFirst; good
macro_rules | `(tactic| good_lemma) => `(tactic| with_reducible exact good_objFirst)
theorem good_objRest {o} : Good (objRest o) := by unfold objRest; good
macro_rules | `(tactic| good_lemma) => `(tactic| with_reducible exact good_objRest)
theorem good_indexIdx {l i} : Good (indexIdx l i) := by unfold indexIdx; good
macro_rules | `(tactic| good_lemma) => `(tactic| with_reducible exact good_indexIdx)
theorem good_curEnv : Good curEnv := by unfold curEnv; good
macro_rules | `(tactic| good_lemma) => `(tactic| with_reducible exact good_curEnv)
theorem good_evalIdentifier {n} : Good (evalIdentifier n) := by unfold evalIdentifier; good
macro_rules | `(tactic| good_lemma) => `(tactic| with_reducible exact good_evalIdentifier)
theorem good_evalPrefixIncrDecr {op n} : Good (evalPrefixIncrDecr op n) := by unfold evalPrefixIncrDecr; good
macro_rules | `(tactic| good_lemma) => `(tactic| with_reducible exact good_evalPrefixIncrDecr)
theorem good_evalPostfix {op i} : Good (evalPostfix op i) := by unfold evalPostfix; good
macro_rules | `(tactic| good_lemma) => `(tactic| with_reducible exact good_evalPostfix)
theorem good_noteHazard {c k n} : Good (noteHazard c k n) := by unfold noteHazard; good
macro_rules | `(tactic| good_lemma) => `(tactic| with_reducible exact good_noteHazard)
theorem good_evalIndexAssignment {w i v} : Good (evalIndexAssignment w i v) := by unfold evalIndexAssignment; good
macro_rules | `(tactic| good_lemma) => `(tactic| with_reducible exact good_evalIndexAssignment)
theorem good_deleteMapEntry {l i} : Good (deleteMapEntry l i) := by unfold deleteMapEntry; good
macro_rules | `(tactic| good_lemma) => `(tactic| with_reducible exact good_deleteMapEntry)
theorem good_cacheGet {k a} : Good (cacheGet k a) := by unfold cacheGet; good
macro_rules | `(tactic| good_lemma) => `(tactic| with_reducible exact good_cacheGet)
theorem good_derefList {l} : Good (derefList l) := by
  induction l with
  | nil => unfold derefList; good
  | cons x xs ih => unfold derefList; good using @ih
macro_rules | `(tactic| good_lemma) => `(tactic| with_reducible exact good_derefList)
theorem good_bindParams {nenv l} : Good (bindParams nenv l) := by
  induction l with
  | nil => unfold bindParams; good
  | cons x xs ih => obtain ⟨p, a⟩ := x; unfold bindParams; good using @ih
macro_rules | `(tactic| good_lemma) => `(tactic| with_reducible exact good_bindParams)
theorem good_extendFunctionEnv {f a} : Good (extendFunctionEnv f a) := by unfold extendFunctionEnv; good
macro_rules | `(tactic| good_lemma) => `(tactic| with_reducible exact good_extendFunctionEnv)

theorem good_writeOut {b} : Good (writeOut b) := by
  unfold writeOut
  refine good_modify ?_
  intro st
  dsimp only
  split <;> exact ⟨rfl, rfl, rfl, rfl, rfl⟩
macro_rules | `(tactic| good_lemma) => `(tactic| with_reducible exact good_writeOut)

theorem good_of_sat {x : M α}
    (h : ∀ st, Sat x st (fun r s => Keeps st s ∧ ∀ a, r = .ok a → Restores st s)) : Good x :=
  ⟨h⟩

theorem Sat.good_tail {x : M α} (hx : Good x) {st0 st : St} (hk : Keeps st0 st) (hr : Restores st0 st) :
    Sat x st (fun r s => Keeps st0 s ∧ ∀ a, r = .ok a → Restores st0 s) :=
  ⟨hk.trans (hx.h st).1, fun a ha => hr.trans ((hx.h st).2 a ha)⟩

macro "sat_step" : tactic => `(tactic| first
  | with_reducible apply Sat.bind
  | with_reducible apply Sat.get
  | with_reducible apply Sat.set
  | with_reducible apply Sat.modify
  | with_reducible apply Sat.pure
  | with_reducible apply Sat.stop
  | exact ⟨⟨rfl, rfl, rfl⟩, fun _ _ => ⟨rfl, rfl⟩⟩
  | exact ⟨⟨rfl, rfl, rfl⟩, fun _ h => by cases h⟩
  | intro _
  | dsimp only
  | split)

theorem good_cacheSet {k a r o} : Good (cacheSet k a r o) := by
  refine good_of_sat fun st => ?_
  unfold cacheSet
  repeat' sat_step
macro_rules | `(tactic| good_lemma) => `(tactic| with_reducible exact good_cacheSet)


theorem good_finishCall {f a c b af cc r o} : Good (finishCall f a c b af cc r o) := by unfold finishCall; good
macro_rules | `(tactic| good_lemma) => `(tactic| with_reducible exact good_finishCall)

theorem good_eval_succ {n} (h : ∀ node, Good (evalI n node)) (node) : Good (eval (n+1) node) := by
  refine good_of_sat fun st => ?_
  rw [eval]
  apply Sat.bind; apply Sat.get; dsimp only
  split
  · apply Sat.bind; apply Sat.stop; exact ⟨Keeps.refl _, fun _ h => by cases h⟩
  · apply Sat.bind; apply Sat.set; dsimp only
    apply Sat.bind; apply Sat.of_good (h node)
    intro r s hk hr
    cases r with
    | error e => exact ⟨⟨hk.cfg, hk.root, hk.extNames⟩, fun _ h => by cases h⟩
    | ok a =>
      dsimp only
      apply Sat.bind; apply Sat.modify; dsimp only
      have hr' := hr a rfl
      refine Sat.good_tail ?_ ?_ ?_
      · good
      · exact ⟨hk.cfg, hk.root, hk.extNames⟩
      · refine ⟨hr'.1, ?_⟩
        show s.depth - 1 = st.depth
        rw [hr'.2]
        exact Nat.add_sub_cancel ..

/-- run a `Good` computation in the middle of a bracket: abnormal outcomes only need `Keeps` -/
theorem Sat.step {x : M α} (hx : Good x) {st0 s : St} {f : α → M β}
    (hk : Keeps st0 s)
    (hok : ∀ a s', Keeps st0 s' → Restores s s' →
      Sat (f a) s' (fun r s => Keeps st0 s ∧ ∀ a, r = .ok a → Restores st0 s)) :
    Sat (x >>= f) s (fun r s => Keeps st0 s ∧ ∀ a, r = .ok a → Restores st0 s) := by
  apply Sat.bind
  apply Sat.of_good hx
  intro r s' hk' hr'
  cases r with
  | error e => exact ⟨hk.trans hk', fun _ h => by cases h⟩
  | ok a => exact hok a s' (hk.trans hk') (hr' a rfl)

theorem good_applyFunction_succ {n} (h : ∀ node, Good (eval n node)) (fn args) :
    Good (applyFunction (n+1) fn args) := by
  cases fn
  case func f =>
    rw [applyFunction]
    refine good_bind good_curEnv ?_
    intro c0
    refine good_bind good_getFrame ?_
    intro cf0
    refine good_bind (x := if (cf0.localFunc && sameFunction cf0 f) = true then pure none else cacheGet f.key args)
      (by split <;> good) ?_
    intro r
    dsimp only
    split
    · good
    · refine good_bind good_extendFunctionEnv ?_
      intro r
      split
      · good
      next nenv =>
        refine good_of_sat fun st => ?_
        apply Sat.bind; unfold curEnv; apply Sat.bind; apply Sat.get; dsimp only; apply Sat.pure
        dsimp only
        apply Sat.bind; apply Sat.modify; dsimp only
        refine Sat.step (h _) ⟨rfl, rfl, rfl⟩ ?_
        intro res s2 hk2 hr2
        refine Sat.step good_getFrame hk2 ?_
        intro fr s3 hk3 hr3
        apply Sat.bind; apply Sat.get; dsimp only
        apply Sat.bind; apply Sat.set; dsimp only
        refine Sat.good_tail ?_ ?_ ?_
        · good
        · exact ⟨hk3.cfg, hk3.root, hk3.extNames⟩
        · refine ⟨rfl, ?_⟩
          show s3.depth = st.depth
          rw [hr3.2, hr2.2]
  all_goals (simp only [applyFunction]; good)

/-- the frame property for all 19 functions of the mutual block at one fuel level -/
structure AllGood (fuel : Nat) : Prop where
  eval : ∀ node, Good (Grol.E.eval fuel node)
  evalI : ∀ node, Good (Grol.E.evalI fuel node)
  evalStatements : ∀ l r, Good (Grol.E.evalStatements fuel l r)
  evalExpressions : ∀ l acc, Good (Grol.E.evalExpressions fuel l acc)
  evalAssignment : ∀ right op left, Good (Grol.E.evalAssignment fuel right op left)
  evalIf : ∀ c cons alt, Good (Grol.E.evalIf fuel c cons alt)
  evalFor : ∀ c body, Good (Grol.E.evalFor fuel c body)
  evalForLoop : ∀ c body last, Good (Grol.E.evalForLoop fuel c body last)
  evalForSpecialForms : ∀ c body, Good (Grol.E.evalForSpecialForms fuel c body)
  evalForInteger : ∀ body i e name last, Good (Grol.E.evalForInteger fuel body i e name last)
  evalForList : ∀ body list name last, Good (Grol.E.evalForList fuel body list name last)
  evalBuiltin : ∀ t ps, Good (Grol.E.evalBuiltin fuel t ps)
  evalPrint : ∀ t ps first buf, Good (Grol.E.evalPrint fuel t ps first buf)
  evalDelete : ∀ node, Good (Grol.E.evalDelete fuel node)
  evalIndexExpression : ∀ left tok i, Good (Grol.E.evalIndexExpression fuel left tok i)
  evalIndexRange : ∀ left li ri, Good (Grol.E.evalIndexRange fuel left li ri)
  evalMapLiteral : ∀ ks vs big acc, Good (Grol.E.evalMapLiteral fuel ks vs big acc)
  applyExtension : ∀ name args, Good (Grol.E.applyExtension fuel name args)
  applyFunction : ∀ fn args, Good (Grol.E.applyFunction fuel fn args)

macro "good_ih" : tactic => `(tactic| repeat' (first
  | cases ‹_ + 1 = Nat.succ _›
  | (with_reducible first
      | apply (‹AllGood _›).eval
      | apply (‹AllGood _›).evalI
      | apply (‹AllGood _›).evalStatements
      | apply (‹AllGood _›).evalExpressions
      | apply (‹AllGood _›).evalAssignment
      | apply (‹AllGood _›).evalIf
      | apply (‹AllGood _›).evalFor
      | apply (‹AllGood _›).evalForLoop
      | apply (‹AllGood _›).evalForSpecialForms
      | apply (‹AllGood _›).evalForInteger
      | apply (‹AllGood _›).evalForList
      | apply (‹AllGood _›).evalBuiltin
      | apply (‹AllGood _›).evalPrint
      | apply (‹AllGood _›).evalDelete
      | apply (‹AllGood _›).evalIndexExpression
      | apply (‹AllGood _›).evalIndexRange
      | apply (‹AllGood _›).evalMapLiteral
      | apply (‹AllGood _›).applyExtension
      | apply (‹AllGood _›).applyFunction)
  | good_step))


example (node) : Good (evalI 0 node) := by
  rw [evalI]; good
theorem allGood_zero : AllGood 0 := by
  constructor
  · intro node; unfold Grol.E.eval; good_ih
  · intro node; unfold Grol.E.evalI; good_ih
  · intro l r; unfold Grol.E.evalStatements; good_ih
  · intro l acc; unfold Grol.E.evalExpressions; good_ih
  · intro right op left; unfold Grol.E.evalAssignment; good_ih
  · intro c cons alt; unfold Grol.E.evalIf; good_ih
  · intro c body; unfold Grol.E.evalFor; good_ih
  · intro c body last; unfold Grol.E.evalForLoop; good_ih
  · intro c body; unfold Grol.E.evalForSpecialForms; good_ih
  · intro body i e name last; unfold Grol.E.evalForInteger; good_ih
  · intro body list name last; unfold Grol.E.evalForList; good_ih
  · intro t ps; unfold Grol.E.evalBuiltin; good_ih
  · intro t ps first buf; unfold Grol.E.evalPrint; good_ih
  · intro node; unfold Grol.E.evalDelete; good_ih
  · intro left tok i; unfold Grol.E.evalIndexExpression; good_ih
  · intro left li ri; unfold Grol.E.evalIndexRange; good_ih
  · intro ks vs big acc; unfold Grol.E.evalMapLiteral; good_ih
  · intro name args; unfold Grol.E.applyExtension; good_ih
  · intro fn args; unfold Grol.E.applyFunction; good_ih

set_option maxHeartbeats 1600000 in
theorem good_evalI_succ {n} (ih : AllGood n) : ∀ node, Good (Grol.E.evalI (n+1) node) := by
  intro node; unfold Grol.E.evalI; good_ih

theorem good_evalStatements_succ {n} (ih : AllGood n) : ∀ l r, Good (Grol.E.evalStatements (n+1) l r) := by
  intro l r; unfold Grol.E.evalStatements; good_ih

theorem good_evalExpressions_succ {n} (ih : AllGood n) : ∀ l acc, Good (Grol.E.evalExpressions (n+1) l acc) := by
  intro l acc; unfold Grol.E.evalExpressions; good_ih

theorem good_evalAssignment_succ {n} (ih : AllGood n) : ∀ right op left, Good (Grol.E.evalAssignment (n+1) right op left) := by
  intro right op left; unfold Grol.E.evalAssignment; good_ih

theorem good_evalIf_succ {n} (ih : AllGood n) : ∀ c cons alt, Good (Grol.E.evalIf (n+1) c cons alt) := by
  intro c cons alt; unfold Grol.E.evalIf; good_ih

theorem good_evalFor_succ {n} (ih : AllGood n) : ∀ c body, Good (Grol.E.evalFor (n+1) c body) := by
  intro c body; unfold Grol.E.evalFor; good_ih

theorem good_evalForLoop_succ {n} (ih : AllGood n) : ∀ c body last, Good (Grol.E.evalForLoop (n+1) c body last) := by
  intro c body last; unfold Grol.E.evalForLoop; good_ih

theorem good_evalForSpecialForms_succ {n} (ih : AllGood n) : ∀ c body, Good (Grol.E.evalForSpecialForms (n+1) c body) := by
  intro c body; unfold Grol.E.evalForSpecialForms; good_ih

theorem good_evalForInteger_succ {n} (ih : AllGood n) : ∀ body i e name last, Good (Grol.E.evalForInteger (n+1) body i e name last) := by
  intro body i e name last; unfold Grol.E.evalForInteger; good_ih

theorem good_evalForList_succ {n} (ih : AllGood n) : ∀ body list name last, Good (Grol.E.evalForList (n+1) body list name last) := by
  intro body list name last; unfold Grol.E.evalForList; good_ih

theorem good_evalBuiltin_succ {n} (ih : AllGood n) : ∀ t ps, Good (Grol.E.evalBuiltin (n+1) t ps) := by
  intro t ps; unfold Grol.E.evalBuiltin; good_ih

theorem good_evalPrint_succ {n} (ih : AllGood n) : ∀ t ps first buf, Good (Grol.E.evalPrint (n+1) t ps first buf) := by
  intro t ps first buf; unfold Grol.E.evalPrint; good_ih

theorem good_evalDelete_succ {n} (ih : AllGood n) : ∀ node, Good (Grol.E.evalDelete (n+1) node) := by
  intro node; unfold Grol.E.evalDelete; good_ih

theorem good_evalIndexExpression_succ {n} (ih : AllGood n) : ∀ left tok i, Good (Grol.E.evalIndexExpression (n+1) left tok i) := by
  intro left tok i; unfold Grol.E.evalIndexExpression; good_ih

theorem good_evalIndexRange_succ {n} (ih : AllGood n) : ∀ left li ri, Good (Grol.E.evalIndexRange (n+1) left li ri) := by
  intro left li ri; unfold Grol.E.evalIndexRange
  refine good_bind (ih.eval _) ?_
  intro leftIndex
  extract_lets nilRight num jp
  have hjp : ∀ r, Good (jp r) := by
    intro rightIndex
    unfold jp
    split
    · extract_lets l l' r
      split
      · good
      · split <;> good
    · good
  split
  · exact good_bind (good_pure _) hjp
  · exact good_bind (ih.eval _) hjp

theorem good_evalMapLiteral_succ {n} (ih : AllGood n) : ∀ ks vs big acc, Good (Grol.E.evalMapLiteral (n+1) ks vs big acc) := by
  intro ks vs big acc; unfold Grol.E.evalMapLiteral; good_ih

theorem good_applyExtension_succ {n} (_ih : AllGood n) : ∀ name args, Good (Grol.E.applyExtension (n+1) name args) := by
  intro name args; unfold Grol.E.applyExtension; good_ih

theorem allGood_succ {n} (ih : AllGood n) : AllGood (n+1) where
  eval := good_eval_succ ih.evalI
  evalI := good_evalI_succ ih
  evalStatements := good_evalStatements_succ ih
  evalExpressions := good_evalExpressions_succ ih
  evalAssignment := good_evalAssignment_succ ih
  evalIf := good_evalIf_succ ih
  evalFor := good_evalFor_succ ih
  evalForLoop := good_evalForLoop_succ ih
  evalForSpecialForms := good_evalForSpecialForms_succ ih
  evalForInteger := good_evalForInteger_succ ih
  evalForList := good_evalForList_succ ih
  evalBuiltin := good_evalBuiltin_succ ih
  evalPrint := good_evalPrint_succ ih
  evalDelete := good_evalDelete_succ ih
  evalIndexExpression := good_evalIndexExpression_succ ih
  evalIndexRange := good_evalIndexRange_succ ih
  evalMapLiteral := good_evalMapLiteral_succ ih
  applyExtension := good_applyExtension_succ ih
  applyFunction := good_applyFunction_succ ih.eval

theorem allGood (fuel : Nat) : AllGood fuel := by
  induction fuel with
  | zero => exact allGood_zero
  | succ n ih => exact allGood_succ ih

theorem eval_keeps (fuel : Nat) (node : Node) (st : St) : Keeps st (stateAfter (eval fuel node) st) :=
  (((allGood fuel).eval node).h st).1

theorem eval_restores (fuel : Nat) (node : Node) (st : St) (v : Obj)
    (h : outcome (eval fuel node) st = .ok v) : Restores st (stateAfter (eval fuel node) st) :=
  (((allGood fuel).eval node).h st).2 v h

#print axioms eval_keeps
#print axioms eval_restores

end Grol.E

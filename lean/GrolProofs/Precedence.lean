import Grol.Generated.Precedence
/-
Hand-written expectations about the tables regenerated from the Go source on every run
(`harness extract` → lean/Grol/Generated/Precedence.lean).  A changed precedence, priority level or
parser registration breaks one of these `decide`s (the model imports the generated tables, so the
correspondence run alone would not notice: model and code would move together).
-/
namespace Grol.Generated

/-- the documented operator precedences (comments of `ast.Priority` in ast/ast.go) -/
def documentedPrecedences : List (TokType × Nat) := [
  (.ASSIGN, 2), (.PLUS, 8), (.MINUS, 8), (.ASTERISK, 9), (.SLASH, 10), (.PERCENT, 9), (.LT, 7), (.GT, 7),
  (.BITAND, 9), (.BITOR, 8), (.BITXOR, 8), (.LPAREN, 12), (.LBRACKET, 13), (.COLON, 4), (.DOT, 14),
  (.LTEQ, 7), (.GTEQ, 7), (.EQ, 6), (.NOTEQ, 6), (.INCR, 11), (.DECR, 11), (.OR, 3), (.AND, 4),
  (.LEFTSHIFT, 9), (.RIGHTSHIFT, 9), (.LAMBDA, 5), (.DEFINE, 2)]

theorem precedences_documented : precedences = documentedPrecedences := by decide

theorem priorities_documented :
    priorityNames = [("LOWEST", 1), ("ASSIGN", 2), ("OR", 3), ("AND", 4), ("LAMBDA", 5), ("EQUALS", 6), ("LESSGREATER", 7),
      ("SUM", 8), ("PRODUCT", 9), ("DIVIDE", 10), ("PREFIX", 11), ("CALL", 12), ("INDEX", 13), ("DOTINDEX", 14)] := by decide

theorem prefix_registrations_expected : prefixRegs = [
    (.IDENT, .parseIdentifier), (.DOTDOT, .parseIdentifier), (.INT, .parseIntegerLiteral), (.FLOAT, .parseFloatLiteral),
    (.BANG, .parsePrefixExpression), (.MINUS, .parsePrefixExpression), (.PLUS, .parsePrefixExpression),
    (.INCR, .parsePrefixExpression), (.DECR, .parsePrefixExpression), (.BITNOT, .parsePrefixExpression),
    (.BITXOR, .parsePrefixExpression), (.TRUE, .parseBoolean), (.FALSE, .parseBoolean), (.LPAREN, .parseGroupedExpression),
    (.IF, .parseIfExpression), (.FOR, .parseForExpression), (.BREAK, .parseControlExpression),
    (.CONTINUE, .parseControlExpression), (.FUNC, .parseFunctionLiteral), (.STRING, .parseStringLiteral),
    (.LEN, .parseBuiltin), (.FIRST, .parseBuiltin), (.REST, .parseBuiltin), (.LBRACKET, .parseArrayLiteral),
    (.LBRACE, .parseMapLiteral), (.LINECOMMENT, .parseComment), (.BLOCKCOMMENT, .parseComment), (.PRINT, .parseBuiltin),
    (.PRINTLN, .parseBuiltin), (.LOG, .parseBuiltin), (.MACRO, .parseMacroLiteral), (.ERROR, .parseBuiltin),
    (.CATCH, .parseBuiltin), (.QUOTE, .parseBuiltin), (.UNQUOTE, .parseBuiltin), (.DEL, .parseBuiltin)] := by decide

theorem infix_registrations_expected : infixRegs = [
    (.PLUS, .parseInfixExpression), (.MINUS, .parseInfixExpression), (.SLASH, .parseInfixExpression),
    (.PERCENT, .parseInfixExpression), (.ASTERISK, .parseInfixExpression), (.EQ, .parseInfixExpression),
    (.NOTEQ, .parseInfixExpression), (.LT, .parseInfixExpression), (.LTEQ, .parseInfixExpression),
    (.GT, .parseInfixExpression), (.GTEQ, .parseInfixExpression), (.LPAREN, .parseCallExpression),
    (.LBRACKET, .parseIndexExpression), (.DOT, .parseIndexExpression), (.LEFTSHIFT, .parseInfixExpression),
    (.RIGHTSHIFT, .parseInfixExpression), (.OR, .parseInfixExpression), (.AND, .parseInfixExpression),
    (.BITAND, .parseInfixExpression), (.BITOR, .parseInfixExpression), (.BITXOR, .parseInfixExpression),
    (.COLON, .parseInfixExpression), (.LAMBDA, .parseLambdaExpression), (.ASSIGN, .parseInfixExpression),
    (.DEFINE, .parseInfixExpression)] := by decide

theorem postfix_registrations_expected :
    postfixRegs = [(.INCR, .parsePostfixExpression), (.DECR, .parsePostfixExpression)] := by decide

end Grol.Generated

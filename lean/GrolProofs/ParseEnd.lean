import GrolProofs.ParseTerm
import GrolProofs.PrintNewline
/-
C03 (3): the trees the parser builds satisfy `Printer.endOKL` (the token literals printed last are non-empty and
do not end in a newline) whenever the tokens of the kinds that can be printed last have such literals in the
stream (`LitFact`, a lexer fact).  Fourth weakest-precondition pass: every token stored on a right-most spine is
`cur` or `peek` of a state satisfying the stream invariant, and its kind is fixed by the dispatch tables.
-/
set_option linter.unusedVariables false
set_option linter.unusedSimpArgs false
namespace Grol.Parser
open Grol.Generated Grol.Printer

/-- lexer fact: tokens of these kinds have a non-empty literal that does not end in a newline -/
def LitFact (s : TokStream) : Prop := ∀ i, lastKind (s.get i).type = true → litOK (s.get i).tk = true

variable {s : TokStream}

theorem curLit (H : LitFact s) {st : PState} (hi : Inv s st) (h : lastKind st.cur.type = true) : litOK st.cur.tk = true := by
  have := H (st.idx - 2) (by rw [← hi.cur]; exact h)
  rw [← hi.cur] at this; exact this
theorem peekLit (H : LitFact s) {st : PState} (hi : Inv s st) (h : lastKind st.peek.type = true) : litOK st.peek.tk = true := by
  have := H (st.idx - 1) (by rw [← hi.peek]; exact h)
  rw [← hi.peek] at this; exact this

theorem endOKL_snoc (a : NList) (x : ONode) : endOKL (a ++ [x]) = (endOKL a && endOKO x) := by
  induction a with
  | nil => simp [endOKL]
  | cons y ys ih => simp [endOKL, ih, Bool.and_assoc]

def PostN (s : TokStream) : ONode → PState → Prop := fun r st' => Inv s st' ∧ endOKO r = true

macro "wvc" : tactic => `(tactic| try simp only [wp_bind, wp_getSt, wp_ite, wp_nextToken, wp_pure, wp_setCont, wp_pushErr,
  wp_outOfFuel, wp_goPanic, advance_cur, advance_prev])

theorem tblKinds :
    (∀ t, lookup prefixRegs t = some .parseIdentifier → lastKind t = true) ∧
    (∀ t, lookup prefixRegs t = some .parseIntegerLiteral → lastKind t = true) ∧
    (∀ t, lookup prefixRegs t = some .parseFloatLiteral → lastKind t = true) ∧
    (∀ t, lookup prefixRegs t = some .parseBoolean → lastKind t = true) ∧
    (∀ t, lookup prefixRegs t = some .parseControlExpression → lastKind t = true) ∧
    (∀ t, (lookup postfixRegs t).isSome = true → lastKind t = true) := by
  refine ⟨?_, ?_, ?_, ?_, ?_, ?_⟩ <;> (intro t; cases t <;> decide)

theorem peekError_inv (t : TokType) (st : PState) (hi : Inv s st) : wp (peekError s t) (fun _ st' => Inv s st') st := by
  unfold peekError; wvc; apply errorLine_wp; split
  · trivial
  · exact inv_pushErr _ hi

theorem expectPeek_inv (t : TokType) (st : PState) (hi : Inv s st) : wp (expectPeek s t) (fun _ st' => Inv s st') st := by
  unfold expectPeek; wvc
  split
  · exact inv_adv hi
  · split
    · exact inv_setCont hi
    · exact wp_conseq (peekError_inv t st hi) fun _ _ h => h

theorem parseIdentifier_end (H : LitFact s) (st : PState) (hi : Inv s st) (hk : lastKind st.cur.type = true) :
    wp (parseIdentifier s) (PostN s) st := by
  unfold parseIdentifier parsePostfixExpression
  wvc
  cases hl : lookup postfixRegs st.peek.type with
  | none => exact ⟨hi, by simpa [endOKO, endOK] using curLit H hi hk⟩
  | some fn =>
    cases fn
    wvc
    exact ⟨inv_adv hi, by simpa [endOKO, endOK] using peekLit H hi (tblKinds.2.2.2.2.2 _ (by simp [hl]))⟩

theorem parseFloatLiteral_end (H : LitFact s) (st : PState) (hi : Inv s st) (hk : lastKind st.cur.type = true) :
    wp (parseFloatLiteral s) (PostN s) st := by
  unfold parseFloatLiteral
  wvc
  split
  · exact ⟨hi, by simpa [endOKO, endOK] using curLit H hi hk⟩
  · apply errorLine_wp; wvc; exact ⟨inv_pushErr _ hi, rfl⟩

theorem parseIntegerLiteral_end (H : LitFact s) (st : PState) (hi : Inv s st) (hk : lastKind st.cur.type = true) :
    wp (parseIntegerLiteral s) (PostN s) st := by
  unfold parseIntegerLiteral
  wvc
  split
  · exact ⟨hi, by simpa [endOKO, endOK] using curLit H hi hk⟩
  · exact parseFloatLiteral_end H st hi hk

theorem parseBoolean_end (H : LitFact s) (st : PState) (hi : Inv s st) (hk : lastKind st.cur.type = true) :
    wp parseBoolean (PostN s) st := by
  unfold parseBoolean; wvc; exact ⟨hi, by simpa [endOKO, endOK] using curLit H hi hk⟩
theorem parseControlExpression_end (H : LitFact s) (st : PState) (hi : Inv s st) (hk : lastKind st.cur.type = true) :
    wp parseControlExpression (PostN s) st := by
  unfold parseControlExpression; wvc; exact ⟨hi, by simpa [endOKO, endOK] using curLit H hi hk⟩
theorem parseStringLiteral_end (st : PState) (hi : Inv s st) : wp parseStringLiteral (PostN s) st := by
  unfold parseStringLiteral; wvc; exact ⟨hi, rfl⟩

theorem litOK_of_endWith (t : Tk) (h : bytesEndWith t.lit [42, 47] = true) : litOK t = true := by
  unfold bytesEndWith at h
  unfold litOK
  have hr : ∃ x, t.lit.reverse = 47 :: 42 :: x := by
    cases hrev : t.lit.reverse with
    | nil => rw [hrev] at h; simp [List.isPrefixOf] at h
    | cons a as =>
      cases as with
      | nil => rw [hrev] at h; simp [List.isPrefixOf] at h
      | cons b bs =>
        rw [hrev] at h
        simp [List.isPrefixOf] at h
        exact ⟨bs, by rw [h.1, h.2]⟩
  obtain ⟨x, hx⟩ := hr
  have h1 : t.lit ≠ [] := by intro e; rw [e] at hx; simp at hx
  have h2 : t.lit.getLast? = some 47 := by
    have := congrArg List.head? hx
    simpa [List.head?_reverse] using this
  simp [h1, h2]

theorem parseComment_end (H : LitFact s) (st : PState) (hi : Inv s st)
    (hk : st.cur.type = .LINECOMMENT ∨ st.cur.type = .BLOCKCOMMENT) : wp parseComment (PostN s) st := by
  unfold parseComment
  wvc
  split
  · split
    · wvc; exact ⟨inv_setCont hi, rfl⟩
    · rename_i hb hc
      have hc2 : bytesEndWith st.cur.lit [42, 47] = true := by
        cases h : bytesEndWith st.cur.lit [42, 47] with
        | true => rfl
        | false => simp [h] at hc
      exact ⟨hi, by simpa [endOKO, endOK] using litOK_of_endWith st.cur.tk (by simpa [Tok.tk] using hc2)⟩
  · rename_i hb
    have hl : st.cur.type = .LINECOMMENT := by rcases hk with h | h; exact h; exact absurd h hb
    have := curLit H hi (by rw [hl]; decide)
    split
    · trivial
    · exact ⟨hi, by simpa [endOKO, endOK] using this⟩

theorem mapPairError_end (st : PState) (hi : Inv s st) : wp (mapPairError s) (PostN s) st := by
  unfold mapPairError
  wvc
  split
  · exact ⟨inv_setCont hi, rfl⟩
  · refine wp_conseq (peekError_inv _ st hi) ?_
    intro _ st' h; exact ⟨h, rfl⟩

theorem parameter_inv (st : PState) (hi : Inv s st) : wp (parameter s) (fun _ st' => Inv s st') st := by
  unfold parameter
  wvc
  exact hi

theorem parseFunctionParametersLoop_inv : ∀ (fuel : Nat) (acc : NList) (st : PState), Inv s st →
    wp (parseFunctionParametersLoop s fuel acc) (fun _ st' => Inv s st') st
  | 0, _, _, _ => by unfold parseFunctionParametersLoop; trivial
  | n + 1, acc, st, hi => by
    unfold parseFunctionParametersLoop
    wvc
    split
    · refine wp_conseq (parameter_inv _ (inv_adv (inv_adv hi))) ?_
      intro id st0 hi0
      exact parseFunctionParametersLoop_inv n _ _ hi0
    · exact hi

theorem parseFunctionParameters_inv (fuel : Nat) (st : PState) (hi : Inv s st) :
    wp (parseFunctionParameters s fuel) (fun _ st' => Inv s st') st := by
  unfold parseFunctionParameters
  wvc
  split
  · exact inv_adv hi
  · refine wp_conseq (parameter_inv _ (inv_adv hi)) ?_
    intro id st0 hi0
    refine wp_conseq (parseFunctionParametersLoop_inv fuel _ _ hi0) ?_
    intro ids st1 h1
    wvc
    refine wp_conseq (expectPeek_inv _ st1 h1) ?_
    intro b st2 h2
    split
    · exact h2
    · split
      · exact h2
      · wvc
        apply errorLine_wp
        wvc
        exact inv_pushErr _ h2

end Grol.Parser

namespace Grol.Parser
open Grol.Generated Grol.Printer
variable {s : TokStream}

def PostNS (s : TokStream) : Stmts → PState → Prop := fun r st' => Inv s st' ∧ endOKS r = true
def PostI (s : TokStream) : α → PState → Prop := fun _ st' => Inv s st'

structure AllEnd (s : TokStream) (n : Nat) : Prop where
  pE : ∀ P st, Inv s st → wp (parseExpression s n P) (PostN s) st
  pLoop : ∀ P left st, Inv s st → endOKO left = true → wp (parseExpressionLoop s n P left) (PostN s) st
  pPre : ∀ fn st, Inv s st → lookup prefixRegs st.cur.type = some fn → wp (prefixDispatch s n fn) (PostN s) st
  pInf : ∀ fn left st, Inv s st → lookup infixRegs st.cur.type = some fn → wp (infixDispatch s n fn left) (PostN s) st
  pStmt : ∀ st, Inv s st → wp (parseStatement s n) (PostN s) st
  pRet : ∀ st, Inv s st → st.cur.type = .RETURN → wp (parseReturnStatement s n) (PostN s) st
  pArr : ∀ st, Inv s st → wp (parseArrayLiteral s n) (PostN s) st
  pGrp : ∀ st, Inv s st → wp (parseGroupedExpression s n) (PostN s) st
  pPfx : ∀ st, Inv s st → wp (parsePrefixExpression s n) (PostN s) st
  pLam : ∀ left more st, Inv s st → wp (parseLambdaMulti s n left more) (PostN s) st
  pInfix : ∀ left st, Inv s st → lookup infixRegs st.cur.type = some .parseInfixExpression → wp (parseInfixExpression s n left) (PostN s) st
  pFor : ∀ st, Inv s st → wp (parseForExpression s n) (PostN s) st
  pIf : ∀ st, Inv s st → wp (parseIfExpression s n) (PostN s) st
  pBlk : ∀ st, Inv s st → wp (parseBlockStatement s n) (PostNS s) st
  pBlkLoop : ∀ acc st, Inv s st → endOKL acc = true → wp (parseBlockLoop s n acc) (PostNS s) st
  pFn : ∀ st, Inv s st → wp (parseFunctionLiteral s n) (PostN s) st
  pBi : ∀ st, Inv s st → wp (parseBuiltin s n) (PostN s) st
  pCall : ∀ f st, Inv s st → wp (parseCallExpression s n f) (PostN s) st
  pList : ∀ e st, Inv s st → wp (parseExpressionList s n e) (PostI s) st
  pListLoop : ∀ args st, Inv s st → wp (parseExpressionListLoop s n args) (PostI s) st
  pIdx : ∀ left st, Inv s st → wp (parseIndexExpression s n left) (PostN s) st
  pMap : ∀ st, Inv s st → wp (parseMapLiteral s n) (PostN s) st
  pMapLoop : ∀ tok kvs st, Inv s st → wp (parseMapLoop s n tok kvs) (PostN s) st
  pMac : ∀ st, Inv s st → wp (parseMacroLiteral s n) (PostN s) st

macro "inv" : tactic => `(tactic| first
  | assumption
  | exact inv_adv (by assumption)
  | exact inv_adv (inv_adv (by assumption))
  | exact inv_adv (inv_adv (inv_adv (by assumption)))
  | exact inv_setCont (by assumption)
  | exact inv_pushErr _ (by assumption))

/-- final goal `Inv ∧ endOK…` -/
macro "finN" : tactic => `(tactic| (refine ⟨by inv, ?_⟩; simp_all [PostN, PostNS, PostI, endOKO, endOK, endOKS, endOKL, endOKL_snoc]))

theorem estep_pE (H : LitFact s) {n : Nat} (ih : AllEnd s n) (P : Nat) (st : PState) (hi : Inv s st) :
    wp (parseExpression s (n + 1) P) (PostN s) st := by
  unfold parseExpression
  wvc
  split
  · finN
  · cases hl : lookup prefixRegs st.cur.type with
    | none =>
      dsimp only; wvc
      split
      · split
        · finN
        · unfold noPrefixParseFnError; wvc; apply errorLine_wp; wvc; finN
      · finN
    | some fn =>
      dsimp only; wvc
      refine wp_conseq (ih.pPre fn st hi hl) ?_
      intro r1 st1 ⟨hi1, he1⟩
      wvc
      split
      · exact ih.pLam r1 [] _ (by inv)
      · exact ih.pLoop P r1 st1 hi1 he1

theorem estep_pLoop (H : LitFact s) {n : Nat} (ih : AllEnd s n) (P : Nat) (left : ONode) (st : PState) (hi : Inv s st)
    (hl : endOKO left = true) : wp (parseExpressionLoop s (n + 1) P left) (PostN s) st := by
  unfold parseExpressionLoop
  wvc
  split
  · cases hi' : lookup infixRegs st.peek.type with
    | none => dsimp only; wvc; exact ⟨hi, hl⟩
    | some fn =>
      dsimp only
      split
      · wvc; exact ⟨hi, hl⟩
      · split
        · wvc; exact ⟨hi, hl⟩
        · wvc
          refine wp_conseq (ih.pInf fn left _ (by inv) (by simpa using hi')) ?_
          intro r1 st1 ⟨hi1, he1⟩
          exact ih.pLoop P r1 st1 hi1 he1
  · wvc; exact ⟨hi, hl⟩

theorem estep_pPre (H : LitFact s) {n : Nat} (ih : AllEnd s n) (fn : PrefixFn) (st : PState) (hi : Inv s st)
    (hl : lookup prefixRegs st.cur.type = some fn) : wp (prefixDispatch s (n + 1) fn) (PostN s) st := by
  unfold prefixDispatch
  cases fn with
  | parseIdentifier => exact parseIdentifier_end H st hi (tblKinds.1 _ hl)
  | parseIntegerLiteral => exact parseIntegerLiteral_end H st hi (tblKinds.2.1 _ hl)
  | parseFloatLiteral => exact parseFloatLiteral_end H st hi (tblKinds.2.2.1 _ hl)
  | parsePrefixExpression => exact ih.pPfx st hi
  | parseBoolean => exact parseBoolean_end H st hi (tblKinds.2.2.2.1 _ hl)
  | parseGroupedExpression => exact ih.pGrp st hi
  | parseIfExpression => exact ih.pIf st hi
  | parseForExpression => exact ih.pFor st hi
  | parseControlExpression => exact parseControlExpression_end H st hi (tblKinds.2.2.2.2.1 _ hl)
  | parseFunctionLiteral => exact ih.pFn st hi
  | parseStringLiteral => exact parseStringLiteral_end st hi
  | parseBuiltin => exact ih.pBi st hi
  | parseArrayLiteral => exact ih.pArr st hi
  | parseMapLiteral => exact ih.pMap st hi
  | parseComment => exact parseComment_end H st hi (parseComment_regs _ hl)
  | parseMacroLiteral => exact ih.pMac st hi

theorem estep_pInf (H : LitFact s) {n : Nat} (ih : AllEnd s n) (fn : InfixFn) (left : ONode) (st : PState) (hi : Inv s st)
    (hl : lookup infixRegs st.cur.type = some fn) : wp (infixDispatch s (n + 1) fn left) (PostN s) st := by
  unfold infixDispatch
  cases fn with
  | parseInfixExpression => exact ih.pInfix left st hi hl
  | parseCallExpression => exact ih.pCall left st hi
  | parseIndexExpression => exact ih.pIdx left st hi
  | parseLambdaExpression => exact ih.pLam left [] st hi

theorem estep_pStmt (H : LitFact s) {n : Nat} (ih : AllEnd s n) (st : PState) (hi : Inv s st) :
    wp (parseStatement s (n + 1)) (PostN s) st := by
  unfold parseStatement
  wvc
  split
  · rename_i hc; exact ih.pRet st hi hc
  · refine wp_conseq (ih.pE _ st hi) ?_
    intro r st1 ⟨hi1, he1⟩
    wvc
    split
    · wvc; exact ⟨by inv, he1⟩
    · wvc; exact ⟨hi1, he1⟩

theorem estep_pRet (H : LitFact s) {n : Nat} (ih : AllEnd s n) (st : PState) (hi : Inv s st) (hc : st.cur.type = .RETURN) :
    wp (parseReturnStatement s (n + 1)) (PostN s) st := by
  have hlit : litOK st.cur.tk = true := curLit H hi (by rw [hc]; decide)
  unfold parseReturnStatement
  wvc
  split
  · wvc; exact ⟨hi, by simpa [endOKO, endOK] using hlit⟩
  · wvc
    refine wp_conseq (ih.pE _ _ (by inv)) ?_
    intro v st1 ⟨hi1, he1⟩
    wvc
    have : endOKO (some (Node.ret st.cur.tk v)) = true := by
      cases v with
      | none => simpa [endOKO, endOK] using hlit
      | some x => simpa [endOKO, endOK] using he1
    split
    · wvc; exact ⟨by inv, this⟩
    · wvc; exact ⟨hi1, this⟩


theorem estep_pList (H : LitFact s) {n : Nat} (ih : AllEnd s n) (e : TokType) (st : PState) (hi : Inv s st) :
    wp (parseExpressionList s (n + 1) e) (PostI s) st := by
  unfold parseExpressionList
  wvc
  split
  · wvc; exact inv_adv hi
  · wvc
    refine wp_conseq (ih.pE _ _ (by inv)) ?_
    intro x st1 ⟨hi1, _⟩
    refine wp_conseq (ih.pListLoop [x] st1 hi1) ?_
    intro args st2 hi2
    refine wp_conseq (expectPeek_inv e st2 hi2) ?_
    intro b st3 hi3
    split <;> exact hi3

theorem estep_pListLoop (H : LitFact s) {n : Nat} (ih : AllEnd s n) (args : NList) (st : PState) (hi : Inv s st) :
    wp (parseExpressionListLoop s (n + 1) args) (PostI s) st := by
  unfold parseExpressionListLoop
  wvc
  split
  · refine wp_conseq (ih.pE _ _ (by inv)) ?_
    intro x st1 ⟨hi1, _⟩
    exact ih.pListLoop _ st1 hi1
  · wvc; exact hi

theorem estep_pArr (H : LitFact s) {n : Nat} (ih : AllEnd s n) (st : PState) (hi : Inv s st) : wp (parseArrayLiteral s (n + 1)) (PostN s) st := by
  unfold parseArrayLiteral
  wvc
  refine wp_conseq (ih.pList _ st hi) ?_
  intro el st1 hi1
  wvc; exact ⟨hi1, rfl⟩

theorem estep_pCall (H : LitFact s) {n : Nat} (ih : AllEnd s n) (f : ONode) (st : PState) (hi : Inv s st) : wp (parseCallExpression s (n + 1) f) (PostN s) st := by
  unfold parseCallExpression
  wvc
  refine wp_conseq (ih.pList _ st hi) ?_
  intro el st1 hi1
  wvc; exact ⟨hi1, rfl⟩

theorem estep_pBi (H : LitFact s) {n : Nat} (ih : AllEnd s n) (st : PState) (hi : Inv s st) : wp (parseBuiltin s (n + 1)) (PostN s) st := by
  unfold parseBuiltin
  wvc
  refine wp_conseq (expectPeek_inv _ st hi) ?_
  intro b st1 hi1
  split
  · wvc; exact ⟨hi1, rfl⟩
  · wvc
    refine wp_conseq (ih.pList _ st1 hi1) ?_
    intro el st2 hi2
    wvc; exact ⟨hi2, rfl⟩

theorem estep_pBlk (H : LitFact s) {n : Nat} (ih : AllEnd s n) (st : PState) (hi : Inv s st) : wp (parseBlockStatement s (n + 1)) (PostNS s) st := by
  unfold parseBlockStatement
  wvc
  exact ih.pBlkLoop [] _ (by inv) rfl

theorem estep_pBlkLoop (H : LitFact s) {n : Nat} (ih : AllEnd s n) (acc : NList) (st : PState) (hi : Inv s st) (ha : endOKL acc = true) :
    wp (parseBlockLoop s (n + 1) acc) (PostNS s) st := by
  unfold parseBlockLoop
  wvc
  split
  · split
    · wvc; exact ⟨inv_setCont hi, rfl⟩
    · refine wp_conseq (ih.pStmt st hi) ?_
      intro stmt st1 ⟨hi1, he1⟩
      wvc
      exact ih.pBlkLoop _ _ (by inv) (by rw [endOKL_snoc, ha, he1]; rfl)
  · wvc; exact ⟨hi, by simpa [endOKS] using ha⟩

theorem estep_pPfx (H : LitFact s) {n : Nat} (ih : AllEnd s n) (st : PState) (hi : Inv s st) : wp (parsePrefixExpression s (n + 1)) (PostN s) st := by
  unfold parsePrefixExpression
  wvc
  refine wp_conseq (ih.pE _ _ (by inv)) ?_
  intro r st1 ⟨hi1, he1⟩
  wvc; exact ⟨hi1, by simpa [endOKO, endOK] using he1⟩

theorem estep_pInfix (H : LitFact s) {n : Nat} (ih : AllEnd s n) (left : ONode) (st : PState) (hi : Inv s st)
    (hl : lookup infixRegs st.cur.type = some .parseInfixExpression) :
    wp (parseInfixExpression s (n + 1) left) (PostN s) st := by
  have hlit : litOK st.cur.tk = true := curLit H hi (by unfold lastKind; simp [hl])
  unfold parseInfixExpression
  wvc
  split
  · wvc
    exact ⟨hi, by simpa [endOKO, endOK] using hlit⟩
  · wvc
    refine wp_conseq (ih.pE _ _ (by inv)) ?_
    intro r st1 ⟨hi1, he1⟩
    wvc
    refine ⟨hi1, ?_⟩
    cases r with
    | none => simpa [endOKO, endOK] using hlit   -- the right operand is missing: the operator is printed last
    | some x => simpa [endOKO, endOK] using he1


theorem estep_pIdx (H : LitFact s) {n : Nat} (ih : AllEnd s n) (left : ONode) (st : PState) (hi : Inv s st) :
    wp (parseIndexExpression s (n + 1) left) (PostN s) st := by
  unfold parseIndexExpression
  wvc
  refine wp_conseq (ih.pE _ _ (by inv)) ?_
  intro idx st1 ⟨hi1, he1⟩
  split
  · wvc; exact ⟨hi1, by simpa [endOKO, endOK] using he1⟩
  · refine wp_conseq (expectPeek_inv _ st1 hi1) ?_
    intro b st2 hi2
    split
    · wvc; exact ⟨hi2, rfl⟩
    · wvc; exact ⟨hi2, by simpa [endOKO, endOK] using he1⟩

theorem estep_pLam (H : LitFact s) {n : Nat} (ih : AllEnd s n) (left : ONode) (more : NList) (st : PState) (hi : Inv s st) :
    wp (parseLambdaMulti s (n + 1) left more) (PostN s) st := by
  unfold parseLambdaMulti
  wvc
  split
  · trivial
  · wvc; apply errorLine_wp; wvc; exact ⟨inv_pushErr _ hi, rfl⟩
  · wvc
    split
    · wvc
      refine wp_conseq (ih.pBlk _ (by inv)) ?_
      intro body st1 ⟨hi1, _⟩
      wvc
      split
      · wvc; exact ⟨hi1, rfl⟩
      · wvc; exact ⟨hi1, rfl⟩
    · wvc
      refine wp_conseq (ih.pE _ _ (by inv)) ?_
      intro body st1 ⟨hi1, _⟩
      wvc; exact ⟨hi1, rfl⟩

theorem estep_pGrp (H : LitFact s) {n : Nat} (ih : AllEnd s n) (st : PState) (hi : Inv s st) : wp (parseGroupedExpression s (n + 1)) (PostN s) st := by
  unfold parseGroupedExpression
  wvc
  refine wp_conseq (ih.pE _ _ (by inv)) ?_
  intro exp st1 ⟨hi1, he1⟩
  wvc
  split
  · exact ih.pLam exp [] _ (by inv)
  · split
    · refine wp_conseq (ih.pList _ _ (by inv)) ?_
      intro el st2 hi2
      cases el with
      | none => dsimp only; wvc; exact ⟨hi2, rfl⟩
      | some el =>
        dsimp only; wvc
        refine wp_conseq (expectPeek_inv _ st2 hi2) ?_
        intro b st3 hi3
        split
        · wvc; exact ⟨hi3, rfl⟩
        · exact ih.pLam exp el st3 hi3
    · refine wp_conseq (expectPeek_inv _ st1 hi1) ?_
      intro b st2 hi2
      split
      · wvc; exact ⟨hi2, rfl⟩
      · wvc; exact ⟨hi2, he1⟩

theorem estep_pFor (H : LitFact s) {n : Nat} (ih : AllEnd s n) (st : PState) (hi : Inv s st) : wp (parseForExpression s (n + 1)) (PostN s) st := by
  unfold parseForExpression
  wvc
  refine wp_conseq (ih.pE _ _ (by inv)) ?_
  intro c st1 ⟨hi1, _⟩
  refine wp_conseq (expectPeek_inv _ st1 hi1) ?_
  intro b st2 hi2
  split
  · wvc; exact ⟨hi2, rfl⟩
  · refine wp_conseq (ih.pBlk _ hi2) ?_
    intro body st3 ⟨hi3, _⟩
    wvc
    split
    · wvc; exact ⟨hi3, rfl⟩
    · wvc; exact ⟨hi3, rfl⟩

theorem estep_pIf (H : LitFact s) {n : Nat} (ih : AllEnd s n) (st : PState) (hi : Inv s st) : wp (parseIfExpression s (n + 1)) (PostN s) st := by
  unfold parseIfExpression
  wvc
  refine wp_conseq (ih.pE _ _ (by inv)) ?_
  intro c st1 ⟨hi1, _⟩
  refine wp_conseq (expectPeek_inv _ st1 hi1) ?_
  intro b st2 hi2
  split
  · wvc; exact ⟨hi2, rfl⟩
  · refine wp_conseq (ih.pBlk _ hi2) ?_
    intro cons st3 ⟨hi3, _⟩
    wvc
    split
    · wvc; exact ⟨hi3, rfl⟩
    · split
      · wvc
        split
        · wvc
          refine wp_conseq (ih.pIf _ (by inv)) ?_
          intro alt st4 ⟨hi4, he4⟩
          wvc
          exact ⟨hi4, by simpa [endOKO, endOK, endOKS, endOKL] using he4⟩
        · refine wp_conseq (expectPeek_inv _ _ (inv_adv hi3)) ?_
          intro b st4 hi4
          split
          · wvc; exact ⟨hi4, rfl⟩
          · refine wp_conseq (ih.pBlk _ hi4) ?_
            intro alt st5 ⟨hi5, he5⟩
            wvc
            split
            · wvc; exact ⟨hi5, rfl⟩
            · wvc; exact ⟨hi5, by simpa [endOKO, endOK] using he5⟩
      · wvc; exact ⟨hi3, rfl⟩

set_option hygiene false in
macro "fn_tail_e" : tactic => `(tactic| (
    refine wp_conseq (expectPeek_inv _ _ (by inv)) ?_
    intro b st1 hi1
    split
    · wvc; exact ⟨hi1, rfl⟩
    · refine wp_conseq (parseFunctionParameters_inv n _ hi1) ?_
      intro pv st2 hi2
      obtain ⟨params, variadic⟩ := pv
      try dsimp only
      wvc
      refine wp_conseq (expectPeek_inv _ st2 hi2) ?_
      intro b st3 hi3
      split
      · wvc; exact ⟨hi3, rfl⟩
      · refine wp_conseq (ih.pBlk _ hi3) ?_
        intro body st4 ⟨hi4, _⟩
        wvc
        split
        · wvc; exact ⟨hi4, rfl⟩
        · wvc; exact ⟨hi4, rfl⟩))

theorem estep_pFn (H : LitFact s) {n : Nat} (ih : AllEnd s n) (st : PState) (hi : Inv s st) : wp (parseFunctionLiteral s (n + 1)) (PostN s) st := by
  unfold parseFunctionLiteral
  wvc
  split
  · fn_tail_e
  · fn_tail_e

theorem estep_pMac (H : LitFact s) {n : Nat} (ih : AllEnd s n) (st : PState) (hi : Inv s st) : wp (parseMacroLiteral s (n + 1)) (PostN s) st := by
  unfold parseMacroLiteral
  wvc
  fn_tail_e

theorem estep_pMap (H : LitFact s) {n : Nat} (ih : AllEnd s n) (st : PState) (hi : Inv s st) : wp (parseMapLiteral s (n + 1)) (PostN s) st := by
  unfold parseMapLiteral
  wvc
  exact ih.pMapLoop _ [] st hi

theorem estep_pMapLoop (H : LitFact s) {n : Nat} (ih : AllEnd s n) (tok : Tk) (kvs : NList) (st : PState) (hi : Inv s st) :
    wp (parseMapLoop s (n + 1) tok kvs) (PostN s) st := by
  unfold parseMapLoop
  wvc
  split
  · split
    · wvc; exact ⟨inv_adv hi, rfl⟩
    · refine wp_conseq (ih.pE _ _ (by inv)) ?_
      intro kv st1 ⟨hi1, _⟩
      split
      · split
        · wvc
          split
          · refine wp_conseq (expectPeek_inv _ st1 hi1) ?_
            intro b st2 hi2
            split
            · wvc; exact ⟨hi2, rfl⟩
            · exact ih.pMapLoop tok _ st2 hi2
          · exact ih.pMapLoop tok _ st1 hi1
        · exact mapPairError_end st1 hi1
      · exact mapPairError_end st1 hi1
  · refine wp_conseq (expectPeek_inv _ st hi) ?_
    intro b st1 hi1
    split
    · wvc; exact ⟨hi1, rfl⟩
    · wvc; exact ⟨hi1, rfl⟩


theorem allEnd_zero : AllEnd s 0 := by
  constructor <;> intros <;> first
    | (unfold parseExpression; exact trivial)
    | (unfold parseExpressionLoop; exact trivial)
    | (unfold prefixDispatch; exact trivial)
    | (unfold infixDispatch; exact trivial)
    | (unfold parseStatement; exact trivial)
    | (unfold parseReturnStatement; exact trivial)
    | (unfold parseArrayLiteral; exact trivial)
    | (unfold parseGroupedExpression; exact trivial)
    | (unfold parsePrefixExpression; exact trivial)
    | (unfold parseLambdaMulti; exact trivial)
    | (unfold parseInfixExpression; exact trivial)
    | (unfold parseForExpression; exact trivial)
    | (unfold parseIfExpression; exact trivial)
    | (unfold parseBlockStatement; exact trivial)
    | (unfold parseBlockLoop; exact trivial)
    | (unfold parseFunctionLiteral; exact trivial)
    | (unfold parseBuiltin; exact trivial)
    | (unfold parseCallExpression; exact trivial)
    | (unfold parseExpressionList; exact trivial)
    | (unfold parseExpressionListLoop; exact trivial)
    | (unfold parseIndexExpression; exact trivial)
    | (unfold parseMapLiteral; exact trivial)
    | (unfold parseMapLoop; exact trivial)
    | (unfold parseMacroLiteral; exact trivial)

theorem allEnd_succ (H : LitFact s) {n : Nat} (ih : AllEnd s n) : AllEnd s (n + 1) where
  pE := estep_pE H ih
  pLoop := estep_pLoop H ih
  pPre := estep_pPre H ih
  pInf := estep_pInf H ih
  pStmt := estep_pStmt H ih
  pRet := estep_pRet H ih
  pArr := estep_pArr H ih
  pGrp := estep_pGrp H ih
  pPfx := estep_pPfx H ih
  pLam := estep_pLam H ih
  pInfix := estep_pInfix H ih
  pFor := estep_pFor H ih
  pIf := estep_pIf H ih
  pBlk := estep_pBlk H ih
  pBlkLoop := estep_pBlkLoop H ih
  pFn := estep_pFn H ih
  pBi := estep_pBi H ih
  pCall := estep_pCall H ih
  pList := estep_pList H ih
  pListLoop := estep_pListLoop H ih
  pIdx := estep_pIdx H ih
  pMap := estep_pMap H ih
  pMapLoop := estep_pMapLoop H ih
  pMac := estep_pMac H ih

theorem allEnd (H : LitFact s) : ∀ n, AllEnd s n
  | 0 => allEnd_zero
  | n + 1 => allEnd_succ H (allEnd H n)

theorem parseProgramLoop_end (H : LitFact s) : ∀ (fuel : Nat) (acc : NList) (st : PState), Inv s st → endOKL acc = true →
    wp (parseProgramLoop s fuel acc) (fun r st' => endOKL r = true) st
  | 0, _, _, _, _ => by unfold parseProgramLoop; exact trivial
  | n + 1, acc, st, hi, ha => by
    unfold parseProgramLoop
    wvc
    split
    · refine wp_conseq ((allEnd H n).pStmt st hi) ?_
      intro stmt st1 ⟨hi1, he1⟩
      cases stmt with
      | none => dsimp only; wvc; exact ha
      | some x =>
        dsimp only; wvc
        exact parseProgramLoop_end H n _ _ (by inv) (by rw [endOKL_snoc, ha, he1]; rfl)
    · wvc; exact ha

/-- every tree the parser returns (error-free or not) satisfies `endOKL`, given the lexer fact `LitFact` -/
theorem parseProgram_endOK (s : TokStream) (H : LitFact s) (fuel : Nat) (r : ParseResult) (h : parseProgram s fuel = .ok r) :
    endOKL r.program = true := by
  have hs := parseProgramLoop_end H fuel [] (init s) (inv_init s) rfl
  unfold parseProgram at h
  unfold wp at hs
  cases hp : parseProgramLoop s fuel [] (init s) with
  | goPanic p => rw [hp] at h; cases h
  | outOfFuel => rw [hp] at h; cases h
  | ok res =>
    obtain ⟨prog, st⟩ := res
    rw [hp] at h hs
    simp only [Res.ok.injEq] at h
    subst h
    exact hs

end Grol.Parser


namespace Grol.Parser
open Grol.Generated Grol.Printer

/-- the executable check decides the lexer fact -/
theorem litFact_of_b {s : TokStream} (h : litFactB s = true) : LitFact s := by
  intro i hk
  unfold litFactB at h
  rw [List.all_eq_true] at h
  have key : ∀ j, j ≤ s.toks.length → lastKind (s.get j).type = true → litOK (s.get j).tk = true := by
    intro j hj hkj
    have := h j (List.mem_range.mpr (by omega))
    unfold tokLitB at this
    simpa [hkj] using this
  by_cases hi : i ≤ s.toks.length
  · exact key i hi hk
  · have e : s.get i = s.get s.toks.length := by rw [get_of_le s (by omega), get_of_le s (Nat.le_refl _)]
    rw [e] at hk ⊢
    exact key _ (Nat.le_refl _) hk

end Grol.Parser

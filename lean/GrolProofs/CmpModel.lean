import GrolProofs.CmpNum
/-
On data values (no RETURN/MACRO object inside, integers in int64 range) the model of `object.Cmp`
does not panic and returns `cmpI`.
-/
namespace Grol.Obj
open Grol.Ord Grol.F64

theorem cmpI_value_left (a b : Obj) : cmpI a.value b = cmpI a b := by
  cases a <;> rfl

theorem cmpI_value_right (a b : Obj) : cmpI a b.value = cmpI a b := by
  cases b <;> try rfl
  unfold cmpI
  cases a <;> simp [value, cls, flatI, isBytesCls, numKey]

theorem isData_value (a : Obj) (h : isData a = true) : isData a.value = true := by
  cases a <;> simp_all [value, isData]

def noReg : Obj → Bool
  | reg _ => false
  | _ => true

theorem noReg_value (a : Obj) : noReg a.value = true := by cases a <;> rfl

theorem bool_cmp (x y : Bool) : (if (x == y) = true then (0 : Int) else if x = true then 1 else -1)
    = cmpO (numKey (bool x)) (numKey (bool y)) := by
  cases x <;> cases y <;> simp [numKey, cmpO, cmpZ]

/-- everything except ARRAY/ARRAY and MAP/MAP -/
theorem cmpTop_eq (a b : Obj) (ha : isData a = true) (hb : isData b = true) (ra : noReg a = true) (rb : noReg b = true)
    (hne : ¬ (cls a = cls b ∧ (cls a = 9 ∨ cls a = 10))) : cmpTop a b = .ok (cmpI a b) := by
  cases a <;> simp [noReg, isData] at ra ha
  all_goals (cases b <;> simp [noReg, isData] at rb hb)
  all_goals (try (simp [cls] at hne))
  all_goals (unfold cmpI; simp [cmpTop, typ, areIntFloat, cmpFlat, cls, flatI, isBytesCls, bytesOf, numKey])
  · rw [cmpInt_eq_cmpZ, cmpO, cmpZ_scale]
  · exact cmpIntFloat_eq _ _ ha.1 ha.2
  · rw [cmpIntFloat_eq _ _ hb.1 hb.2]
    exact ((cmpO_PW _).anti _).symm
  · exact compare_eq _ _
  · rename_i x y; cases x <;> cases y <;> simp [cmpO, cmpZ]
  · simp [cmpO, cmpZ]

mutual
theorem cmp_eq : (a b : Obj) → isData a = true → isData b = true → cmp a b = .ok (cmpI a b)
  | arr xs, b, ha, hb => by
    cases b with
    | arr ys =>
      unfold cmp
      simp only [value, cmpI_arr, lenLexI]
      split; · rfl
      split; · rfl
      rw [cmpList_eq xs ys (by simpa [isData] using ha) (by simpa [isData] using hb) (by omega), listI_eq]
    | reg v =>
      unfold cmp; simp only [value]
      rw [← cmpI_value_right]
      exact cmpTop_eq _ _ ha (isData_value _ hb) rfl rfl (by simp [cls])
    | _ =>
      unfold cmp; simp only [value]
      exact cmpTop_eq _ _ ha hb rfl rfl (by simp [cls])
  | map xs, b, ha, hb => by
    cases b with
    | map ys =>
      unfold cmp
      simp only [value, cmpI_map, lenLexI]
      split; · rfl
      split; · rfl
      rw [cmpKVs_eq xs ys (by simpa [isData] using ha) (by simpa [isData] using hb) (by omega), kvsI_eq]
    | reg v =>
      unfold cmp; simp only [value]
      rw [← cmpI_value_right]
      exact cmpTop_eq _ _ ha (isData_value _ hb) rfl rfl (by simp [cls])
    | _ =>
      unfold cmp; simp only [value]
      exact cmpTop_eq _ _ ha hb rfl rfl (by simp [cls])
  | reg x, b, ha, hb => by
    unfold cmp
    rw [← cmpI_value_left, ← cmpI_value_right]
    exact cmpTop_eq _ _ (isData_value _ ha) (isData_value _ hb) rfl (noReg_value b) (by simp [cls, value])
  | ret v, b, ha, hb => by simp [isData] at ha
  | mac t, b, ha, hb => by simp [isData] at ha
  | int v, b, ha, hb => by
    unfold cmp; rw [← cmpI_value_right]
    exact cmpTop_eq _ _ ha (isData_value _ hb) rfl (noReg_value b) (by simp [cls])
  | float v, b, ha, hb => by
    unfold cmp; rw [← cmpI_value_right]
    exact cmpTop_eq _ _ ha (isData_value _ hb) rfl (noReg_value b) (by simp [cls])
  | bool v, b, ha, hb => by
    unfold cmp; rw [← cmpI_value_right]
    exact cmpTop_eq _ _ ha (isData_value _ hb) rfl (noReg_value b) (by simp [cls])
  | nil, b, ha, hb => by
    unfold cmp; rw [← cmpI_value_right]
    exact cmpTop_eq _ _ ha (isData_value _ hb) rfl (noReg_value b) (by simp [cls])
  | err v, b, ha, hb => by
    unfold cmp; rw [← cmpI_value_right]
    exact cmpTop_eq _ _ ha (isData_value _ hb) rfl (noReg_value b) (by simp [cls])
  | func v, b, ha, hb => by
    unfold cmp; rw [← cmpI_value_right]
    exact cmpTop_eq _ _ ha (isData_value _ hb) rfl (noReg_value b) (by simp [cls])
  | str v, b, ha, hb => by
    unfold cmp; rw [← cmpI_value_right]
    exact cmpTop_eq _ _ ha (isData_value _ hb) rfl (noReg_value b) (by simp [cls])
  | quote v, b, ha, hb => by
    unfold cmp; rw [← cmpI_value_right]
    exact cmpTop_eq _ _ ha (isData_value _ hb) rfl (noReg_value b) (by simp [cls])
  | ext v, b, ha, hb => by
    unfold cmp; rw [← cmpI_value_right]
    exact cmpTop_eq _ _ ha (isData_value _ hb) rfl (noReg_value b) (by simp [cls])
theorem cmpList_eq : (xs ys : List Obj) → isDataList xs = true → isDataList ys = true → xs.length = ys.length →
    cmpList xs ys = .ok (listI xs ys)
  | [], [], _, _, _ => by simp [cmpList, listI]
  | [], _ :: _, _, _, h => by simp at h
  | _ :: _, [], _, _, h => by simp at h
  | x :: xs, y :: ys, hx, hy, h => by
    simp only [isDataList, Bool.and_eq_true] at hx hy
    simp only [cmpList, listI, cmp_eq x y hx.1 hy.1]
    by_cases h0 : cmpI x y = 0
    · rw [h0]; simp only [if_true]
      exact cmpList_eq xs ys hx.2 hy.2 (by simpa using h)
    · rw [if_neg h0]
      split
      · rename_i heq; injection heq with heq; exact absurd heq h0
      · rfl
theorem cmpKVs_eq : (xs ys : List (Obj × Obj)) → isDataKVs xs = true → isDataKVs ys = true → xs.length = ys.length →
    cmpKVs xs ys = .ok (kvsI xs ys)
  | [], [], _, _, _ => by simp [cmpKVs, kvsI]
  | [], _ :: _, _, _, h => by simp at h
  | _ :: _, [], _, _, h => by simp at h
  | (k, v) :: xs, (k', v') :: ys, hx, hy, h => by
    simp only [isDataKVs, Bool.and_eq_true] at hx hy
    simp only [cmpKVs, kvsI, cmp_eq k k' hx.1.1 hy.1.1, cmp_eq v v' hx.1.2 hy.1.2]
    by_cases h0 : cmpI k k' = 0
    · rw [h0]; simp only [if_true]
      by_cases h1 : cmpI v v' = 0
      · rw [h1]; simp only [if_true]
        exact cmpKVs_eq xs ys hx.2 hy.2 (by simpa using h)
      · rw [if_neg h1]
        split
        · rename_i heq; injection heq with heq; exact absurd heq h1
        · rfl
    · rw [if_neg h0, if_neg h0]
      split
      · rename_i heq; injection heq with heq; exact absurd heq h0
      · rfl
end

theorem cmpD_eq (a b : Obj) : cmpD a b = cmpI a b := by
  unfold cmpD
  split
  · rename_i h
    simp only [Bool.and_eq_true] at h
    rw [cmp_eq a b h.1 h.2]; rfl
  · rfl

theorem cmpD_PW (a : Obj) : PW cmpD a := by
  have : cmpD = cmpI := by funext x y; exact cmpD_eq x y
  rw [this]; exact cmpI_PW a

end Grol.Obj

import Grol.Save
/-
C14 lemmas, part 2: the printed form of a data value contains no newline byte, hence every line
`SaveGlobals` writes for a data binding is exactly one line.
-/
namespace Grol.Save
open Grol.E
open Grol.Wire (Bytes)

/-- no byte 10 -/
def NoNL (l : Bytes) : Prop := ∀ x ∈ l, x ≠ 10

theorem NoNL.append {a b : Bytes} (ha : NoNL a) (hb : NoNL b) : NoNL (a ++ b) := by
  intro x hx
  rcases List.mem_append.mp hx with h | h
  · exact ha x h
  · exact hb x h

theorem noNL_of_all {l : Bytes} (h : l.all (· != 10) = true) : NoNL l := by
  intro x hx
  have := List.all_eq_true.mp h x hx
  simpa using this

/-! ### the scalar printers -/

theorem digitBytes_noNL (n : Nat) : NoNL (digitBytes n) := by
  intro x hx
  unfold digitBytes at hx
  obtain ⟨c, hc, rfl⟩ := List.mem_map.mp hx
  have hd := Nat.isDigit_of_mem_toDigits (by decide) (by decide) hc
  simp only [Char.isDigit, Bool.and_eq_true, decide_eq_true_eq] at hd
  intro h10
  have h48 : 48 ≤ c.toNat := by
    have := hd.1
    exact UInt32.le_iff_toNat_le.mp this
  have h57 : c.toNat ≤ 57 := by
    have := hd.2
    exact UInt32.le_iff_toNat_le.mp this
  have : (c.toNat.toUInt8).toNat = c.toNat := by
    simp [Nat.toUInt8, UInt8.toNat_ofNat']
    omega
  rw [h10] at this
  simp at this
  omega

theorem intBytes_noNL (v : Int64) : NoNL (intBytes v) := by
  unfold intBytes
  split
  · intro x hx
    rcases List.mem_cons.mp hx with rfl | h
    · decide
    · exact digitBytes_noNL _ x h
  · exact digitBytes_noNL _

set_option maxRecDepth 1000000 in
theorem quoteByte_table : ∀ n, n < 256 →
    (match quoteByte (UInt8.ofNat n) with | some q => q.all (· != 10) | none => true) = true := by
  decide

theorem quoteByte_noNL {b : UInt8} {q : Bytes} (h : quoteByte b = some q) : NoNL q := by
  have := quoteByte_table b.toNat b.toNat_lt
  simp only [UInt8.ofNat_toNat, h] at this
  exact noNL_of_all this

theorem quoteBody_noNL : ∀ (s : Bytes) (out : Bytes), quoteBody s = some out → NoNL out
  | [], out, h => by
    simp [quoteBody] at h
    subst h
    intro x hx
    cases hx
  | b :: rest, out, h => by
    unfold quoteBody at h
    cases hq : quoteByte b with
    | none => simp [hq] at h
    | some q =>
      cases hr : quoteBody rest with
      | none => simp [hq, hr] at h
      | some r =>
        simp [hq, hr] at h
        subst h
        exact (quoteByte_noNL hq).append (quoteBody_noNL rest r hr)

theorem quoteAscii_noNL {s out : Bytes} (h : quoteAscii s = .ok out) : NoNL out := by
  unfold quoteAscii at h
  cases hb : quoteBody s with
  | none => simp [hb, throw, throwThe, MonadExceptOf.throw] at h
  | some b =>
    simp [hb, pure, Except.pure] at h
    subst h
    have hq : NoNL ([34] : Bytes) := by intro x hx; simp at hx; subst hx; decide
    exact (hq.append (quoteBody_noNL s b hb)).append hq

theorem noNL_dec (l : Bytes) (h : l.all (· != 10) = true) : NoNL l := noNL_of_all h

theorem floatBytes_noNL {bits : UInt64} {out : Bytes} (h : floatBytes bits = .ok out) : NoNL out := by
  unfold floatBytes at h
  simp only at h
  split at h
  · simp [pure, Except.pure] at h; subst h; exact noNL_dec _ (by decide)
  · split at h
    · simp [pure, Except.pure] at h; subst h
      split
      · exact noNL_dec _ (by decide)
      · exact noNL_dec _ (by decide)
    · split at h
      · split at h
        · simp [pure, Except.pure] at h; subst h; exact noNL_dec _ (by decide)
        · simp [pure, Except.pure] at h
          subst h
          exact (intBytes_noNL _).append (noNL_dec [46, 48] (by decide))
      · simp [throw, throwThe, MonadExceptOf.throw] at h

/-! ### data values -/

mutual
/-- numbers, strings, booleans, nil, and arrays / maps of them -/
def isData : Obj → Bool
  | .null | .bool _ | .int _ | .float _ | .str _ => true
  | .array els => isDataList els
  | .map _ kvs => isDataPairs kvs
  | _ => false
def isDataList : List Obj → Bool
  | [] => true
  | x :: xs => isData x && isDataList xs
def isDataPairs : List (Obj × Obj) → Bool
  | [] => true
  | (k, v) :: xs => isData k && isData v && isDataPairs xs
end

/-- the two library printers of a `Fmt` never write a newline -/
structure Fmt.OneLine (fm : Fmt) : Prop where
  quote : ∀ s out, fm.quote s = .ok out → NoNL out
  float : ∀ b out, fm.float b = .ok out → NoNL out

theorem stdFmt_oneLine : stdFmt.OneLine :=
  ⟨fun _ _ h => quoteAscii_noNL h, fun _ _ h => floatBytes_noNL h⟩

theorem noNL_single {b : UInt8} (h : b ≠ 10) : NoNL [b] := by
  intro x hx
  simp at hx
  subst hx
  exact h

mutual
theorem inspectP_noNL (fm : Fmt) (hf : fm.OneLine) : ∀ (v : Obj) (out : Bytes), isData v = true →
    inspectP fm v = .ok out → NoNL out
  | .null, out, _, h => by
    simp [inspectP, pure, Except.pure] at h; subst h; exact noNL_dec _ (by decide)
  | .bool b, out, _, h => by
    simp [inspectP, pure, Except.pure] at h; subst h
    cases b
    · exact noNL_dec _ (by decide)
    · exact noNL_dec _ (by decide)
  | .int v, out, _, h => by
    simp [inspectP, pure, Except.pure] at h; subst h; exact intBytes_noNL v
  | .float b, out, _, h => by
    simp [inspectP] at h; exact hf.float b out h
  | .str s, out, _, h => by
    simp [inspectP] at h; exact hf.quote s out h
  | .array els, out, hd, h => by
    simp only [inspectP] at h
    cases hp : inspectListP fm els with
    | error e => simp [hp, bind, Except.bind] at h
    | ok parts =>
      simp [hp, bind, Except.bind, pure, Except.pure] at h
      subst h
      have := inspectListP_noNL fm hf els parts (by simpa [isData] using hd) hp
      exact ((noNL_dec [91] (by decide)).append this).append (noNL_dec [93] (by decide)) |> fun x => by simpa using x
  | .map big kvs, out, hd, h => by
    simp only [inspectP] at h
    cases hp : inspectPairsP fm kvs with
    | error e => simp [hp, bind, Except.bind] at h
    | ok parts =>
      simp [hp, bind, Except.bind, pure, Except.pure] at h
      subst h
      have := inspectPairsP_noNL fm hf kvs parts (by simpa [isData] using hd) hp
      exact ((noNL_dec [123] (by decide)).append this).append (noNL_dec [125] (by decide)) |> fun x => by simpa using x
  | .func _, _, hd, _ => by simp [isData] at hd
  | .ext _, _, hd, _ => by simp [isData] at hd
  | .error _, _, hd, _ => by simp [isData] at hd
  | .ret _ _, _, hd, _ => by simp [isData] at hd
  | .ref _ _, _, hd, _ => by simp [isData] at hd
  | .quote _, _, hd, _ => by simp [isData] at hd
theorem inspectListP_noNL (fm : Fmt) (hf : fm.OneLine) : ∀ (l : List Obj) (out : Bytes), isDataList l = true →
    inspectListP fm l = .ok out → NoNL out
  | [], out, _, h => by
    simp [inspectListP, pure, Except.pure] at h; subst h; intro x hx; cases hx
  | [x], out, hd, h => by
    simp only [inspectListP] at h
    exact inspectP_noNL fm hf x out (by simpa [isDataList] using hd) h
  | x :: y :: ys, out, hd, h => by
    simp only [inspectListP] at h
    simp only [isDataList, Bool.and_eq_true] at hd
    cases hx : inspectP fm x with
    | error e => simp [hx, bind, Except.bind] at h
    | ok a =>
      cases hr : inspectListP fm (y :: ys) with
      | error e => simp [hx, hr, bind, Except.bind] at h
      | ok r =>
        simp [hx, hr, bind, Except.bind, pure, Except.pure] at h
        subst h
        have h1 := inspectP_noNL fm hf x a hd.1 hx
        have h2 := inspectListP_noNL fm hf (y :: ys) r (by simp [isDataList, hd.2]) hr
        exact (h1.append (noNL_dec [44] (by decide))).append h2 |> fun z => by simpa using z
theorem inspectPairsP_noNL (fm : Fmt) (hf : fm.OneLine) : ∀ (l : List (Obj × Obj)) (out : Bytes), isDataPairs l = true →
    inspectPairsP fm l = .ok out → NoNL out
  | [], out, _, h => by
    simp [inspectPairsP, pure, Except.pure] at h; subst h; intro x hx; cases hx
  | [(k, v)], out, hd, h => by
    simp only [inspectPairsP] at h
    simp only [isDataPairs, Bool.and_eq_true] at hd
    cases hk : inspectP fm k with
    | error e => simp [hk, bind, Except.bind] at h
    | ok a =>
      cases hv : inspectP fm v with
      | error e => simp [hk, hv, bind, Except.bind] at h
      | ok b =>
        simp [hk, hv, bind, Except.bind, pure, Except.pure] at h
        subst h
        have h1 := inspectP_noNL fm hf k a hd.1.1 hk
        have h2 := inspectP_noNL fm hf v b hd.1.2 hv
        exact (h1.append (noNL_dec [58] (by decide))).append h2 |> fun z => by simpa using z
  | (k, v) :: y :: ys, out, hd, h => by
    simp only [inspectPairsP] at h
    rw [isDataPairs] at hd
    simp only [Bool.and_eq_true] at hd
    cases hk : inspectP fm k with
    | error e => simp [hk, bind, Except.bind] at h
    | ok a =>
      cases hv : inspectP fm v with
      | error e => simp [hk, hv, bind, Except.bind] at h
      | ok b =>
        cases hr : inspectPairsP fm (y :: ys) with
        | error e => simp [hk, hv, hr, bind, Except.bind] at h
        | ok r =>
          simp [hk, hv, hr, bind, Except.bind, pure, Except.pure] at h
          subst h
          have h1 := inspectP_noNL fm hf k a hd.1.1 hk
          have h2 := inspectP_noNL fm hf v b hd.1.2 hv
          have h3 := inspectPairsP_noNL fm hf (y :: ys) r hd.2 hr
          exact (((h1.append (noNL_dec [58] (by decide))).append h2).append (noNL_dec [44] (by decide))).append h3
            |> fun z => by simpa using z
end

end Grol.Save

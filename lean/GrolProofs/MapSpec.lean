import Grol.Map
import GrolProofs.OrdLemmas
/-
The reference finite map (`Spec`): strictly sorted association lists, with the laws that make it a
finite map (lookup after insert / erase, sortedness preserved, insertion order irrelevant), and the
index view used by the two Go representations (`lb` = number of keys below the searched key).
Everything is relative to a comparison `c` that is a total preorder (`∀ a, PW c a`, which C12 proves
for `Cmp`).
-/
namespace Grol.Map
open Grol.Ord

variable {κ ν : Type}

/-- strictly increasing keys (so no two keys are `c`-equal) -/
def Sorted (c : κ → κ → Int) (l : List (κ × ν)) : Prop := l.Pairwise (fun p q => c p.1 q.1 = -1)

theorem Sorted.tail {c : κ → κ → Int} {l : List (κ × ν)} (h : Sorted c l) : Sorted c l.tail :=
  List.Pairwise.sublist (List.tail_sublist l) h

theorem Sorted.slice {c : κ → κ → Int} {l : List (κ × ν)} (h : Sorted c l) (lo hi : Nat) :
    Sorted c ((l.take hi).drop lo) :=
  List.Pairwise.sublist ((List.drop_sublist _ _).trans (List.take_sublist _ _)) h

section
variable (c : κ → κ → Int) (hc : ∀ a, PW c a)
include hc

/-- keys after a key that is above `key` are above `key` -/
theorem above_of_sorted (key k : κ) (v : ν) (rest : List (κ × ν)) (hs : Sorted c ((k, v) :: rest))
    (h : c k key = 1) : ∀ p ∈ rest, c p.1 key = 1 := by
  intro p hp
  have h1 : c k p.1 = -1 := (List.pairwise_cons.1 hs).1 p hp
  have a1 := (hc key).anti k
  have a2 := (hc key).anti p.1
  have := (hc key).lt k p.1 (by omega) h1
  omega

omit hc in
theorem lookup_none_of_above (key : κ) (l : List (κ × ν)) (h : ∀ p ∈ l, c p.1 key = 1) :
    Spec.lookup c key l = none := by
  induction l with
  | nil => rfl
  | cons p rest ih =>
    obtain ⟨k, v⟩ := p
    have := h (k, v) (by simp)
    simp only [Spec.lookup]
    rw [if_neg (by simp at this; omega)]
    exact ih (fun q hq => h q (by simp [hq]))

omit hc in
theorem erase_id_of_above (key : κ) (l : List (κ × ν)) (h : ∀ p ∈ l, c p.1 key = 1) :
    Spec.erase c key l = l := by
  induction l with
  | nil => rfl
  | cons p rest ih =>
    obtain ⟨k, v⟩ := p
    have := h (k, v) (by simp)
    simp only [Spec.erase]
    rw [if_neg (by simp at this; omega), ih (fun q hq => h q (by simp [hq]))]

/-! ### laws of the reference map -/

theorem sorted_insert (key : κ) (value : ν) (l : List (κ × ν)) (hs : Sorted c l) :
    Sorted c (Spec.insert c key value l) ∧
    (∀ p ∈ Spec.insert c key value l, p ∈ l ∨ p.1 = key ∨ ∃ q ∈ l, q.1 = p.1) := by
  induction l with
  | nil => simp [Spec.insert, Sorted]
  | cons p rest ih =>
    obtain ⟨k, v⟩ := p
    have hp := List.pairwise_cons.1 hs
    simp only [Spec.insert]
    by_cases h0 : c k key = 0
    · rw [if_pos h0]
      refine ⟨List.pairwise_cons.2 ⟨fun q hq => hp.1 q hq, hp.2⟩, ?_⟩
      intro q hq
      simp at hq
      rcases hq with rfl | hq
      · right; right; exact ⟨(k, v), by simp, rfl⟩
      · left; simp [hq]
    · rw [if_neg h0]
      by_cases h1 : c k key = 1
      · rw [if_pos h1]
        refine ⟨List.pairwise_cons.2 ⟨?_, hs⟩, ?_⟩
        · intro q hq
          have a1 := (hc key).anti k
          simp at hq
          rcases hq with rfl | hq
          · simp; omega
          · have := above_of_sorted c hc key k v rest hs h1 q hq
            have a2 := (hc key).anti q.1
            simp; omega
        · intro q hq
          simp at hq
          rcases hq with rfl | rfl | hq
          · right; left; rfl
          · left; simp
          · left; simp [hq]
      · rw [if_neg h1]
        have hlt : c k key = -1 := by have := (hc k).sign key; omega
        have ih' := ih hp.2
        refine ⟨List.pairwise_cons.2 ⟨?_, ih'.1⟩, ?_⟩
        · intro q hq
          rcases ih'.2 q hq with hq | hq | ⟨r, hr, hrq⟩
          · exact hp.1 q hq
          · rw [hq]; exact hlt
          · rw [← hrq]; exact hp.1 r hr
        · intro q hq
          simp at hq
          rcases hq with rfl | hq
          · left; simp
          · rcases ih'.2 q hq with hq | hq | ⟨r, hr, hrq⟩
            · left; simp [hq]
            · right; left; exact hq
            · right; right; exact ⟨r, by simp [hr], hrq⟩

omit hc in
theorem sorted_erase (key : κ) (l : List (κ × ν)) (hs : Sorted c l) : Sorted c (Spec.erase c key l) := by
  have : ∀ l : List (κ × ν), (Spec.erase c key l).Sublist l := by
    intro l
    induction l with
    | nil => exact List.Sublist.refl _
    | cons p rest ih =>
      obtain ⟨k, v⟩ := p
      simp only [Spec.erase]
      split
      · exact List.sublist_cons_self _ _
      · exact ih.cons_cons _
  exact List.Pairwise.sublist (this l) hs

/-- lookup after insert -/
theorem lookup_insert (key : κ) (value : ν) (k' : κ) (l : List (κ × ν)) (hs : Sorted c l) :
    Spec.lookup c k' (Spec.insert c key value l) = if c key k' = 0 then some value else Spec.lookup c k' l := by
  induction l with
  | nil => simp [Spec.insert, Spec.lookup]
  | cons p rest ih =>
    obtain ⟨k, v⟩ := p
    have hp := List.pairwise_cons.1 hs
    simp only [Spec.insert]
    by_cases h0 : c k key = 0
    · rw [if_pos h0]
      simp only [Spec.lookup]
      have := (hc k).eqL key k' h0
      rw [this]
      split <;> rfl
    · rw [if_neg h0]
      by_cases h1 : c k key = 1
      · rw [if_pos h1]; simp only [Spec.lookup]
      · rw [if_neg h1]
        have hlt : c k key = -1 := by have := (hc k).sign key; omega
        simp only [Spec.lookup, ih hp.2]
        by_cases hk : c k k' = 0
        · have : c key k' ≠ 0 := by
            intro h
            have := (hc k).eqR key k' h
            omega
          simp [hk, this]
        · simp [hk]

/-- lookup after erase -/
theorem lookup_erase (key k' : κ) (l : List (κ × ν)) (hs : Sorted c l) :
    Spec.lookup c k' (Spec.erase c key l) = if c key k' = 0 then none else Spec.lookup c k' l := by
  induction l with
  | nil => simp [Spec.erase, Spec.lookup]
  | cons p rest ih =>
    obtain ⟨k, v⟩ := p
    have hp := List.pairwise_cons.1 hs
    simp only [Spec.erase]
    by_cases h0 : c k key = 0
    · rw [if_pos h0]
      simp only [Spec.lookup]
      rw [← (hc k).eqL key k' h0]
      by_cases hk : c k k' = 0
      · simp only [hk, if_true]
        -- no later key is equal to k'
        apply lookup_none_of_above c
        intro q hq
        have h1 : c k q.1 = -1 := hp.1 q hq
        have := (hc k).eqL k' q.1 hk
        have a := (hc k').anti q.1
        omega
      · simp [hk]
    · rw [if_neg h0]
      simp only [Spec.lookup, ih hp.2]
      by_cases hk : c k k' = 0
      · have : c key k' ≠ 0 := by
          intro h
          have := (hc k).eqR key k' h
          omega
        simp [hk, this]
      · simp [hk]

/-- inserting two different keys commutes: the result does not depend on insertion order -/
theorem insert_comm (k1 k2 : κ) (v1 v2 : ν) (l : List (κ × ν)) (hs : Sorted c l) (hne : c k1 k2 ≠ 0) :
    Spec.insert c k1 v1 (Spec.insert c k2 v2 l) = Spec.insert c k2 v2 (Spec.insert c k1 v1 l) := by
  have a12 := (hc k1).anti k2
  have s12 := (hc k1).sign k2
  induction l with
  | nil =>
    simp only [Spec.insert]
    rcases s12 with h | h | h
    · rw [if_neg (by omega), if_pos (by omega), if_neg (by omega), if_neg (by omega)]
    · omega
    · rw [if_neg (by omega), if_neg (by omega), if_neg (by omega), if_pos (by omega)]
  | cons p rest ih =>
    obtain ⟨k, v⟩ := p
    have hp := List.pairwise_cons.1 hs
    have sk1 := (hc k).sign k1
    have sk2 := (hc k).sign k2
    have ak1 := (hc k1).anti k
    have ak2 := (hc k2).anti k
    have e1 := (hc k).eqL k1 k2
    have e2 := (hc k).eqL k2 k1
    have r1 := (hc k).eqR k1 k2
    have l1 := (hc k1).lt k k2
    have l2 := (hc k2).lt k k1
    have l3 := (hc k).lt k1 k2
    have l4 := (hc k).lt k2 k1
    have a21 := (hc k2).anti k1
    rcases sk1 with h1 | h1 | h1 <;> rcases sk2 with h2 | h2 | h2 <;> rcases s12 with h | h | h
    all_goals first
      | (exfalso; omega)
      | (have h21 : c k2 k1 = -c k1 k2 := a12
         rw [h] at h21
         simp [Spec.insert, h1, h2, h, h21, ih hp.2])

/-! ### the index view: `lb` = number of keys strictly below `key` -/

/-- lower bound: on a sorted list the keys below `key` form a prefix -/
def lb (key : κ) : List (κ × ν) → Nat
  | [] => 0
  | (k, _) :: rest => if c k key = -1 then lb key rest + 1 else 0

/-- what both `get`s compute: the value at index `lb` if its key is `c`-equal, and `lb` -/
def specGet (key : κ) (l : List (κ × ν)) : Option ν × Nat :=
  (match l[lb c key l]? with
   | some (k, v) => if c k key = 0 then some v else none
   | none => none, lb c key l)

end

end Grol.Map

import GrolProofs.ConstInvOps
/-
C07, part 4: the non recursive helpers of lean/Grol/Eval/Eval.lean.
-/
namespace Grol.K
open Grol.E

/-- changing anything but the frame array -/
theorem Inv.update {st st' : St} (hI : Inv st) (hf : st'.frames = st.frames) (hc : st'.cur < st.frames.size)
    (hr : st'.root = st.root) (hcache : ∀ c, c ∈ st'.cache → okObj st.frames.size c.result = true) : Inv st' := by
  constructor
  · rw [hf]; exact hc
  · rw [hf, hr]; exact hI.root
  · rw [hf]; exact hI.frames
  · rw [hf]; exact hcache

theorem post_writeOut {st : St} (hI : Inv st) (b : List UInt8) :
    Post (writeOut b) st (fun _ s => s.frames = st.frames ∧ s.cur = st.cur) := by
  unfold writeOut
  refine Post.modify ?_ ?_ ?_ ?_
  · split <;> exact hI.update rfl hI.cur rfl hI.cache
  · split <;> exact Nat.le_refl _
  · split <;> exact Kept.of_frames rfl
  · split <;> exact ⟨rfl, rfl⟩

theorem post_noteHazard {st : St} (hI : Inv st) (c : Bool) (k n : String) :
    Post (noteHazard c k n) st (fun _ s => s.frames = st.frames ∧ s.cur = st.cur) := by
  unfold noteHazard
  split
  · exact Post.modify (hI.update rfl hI.cur rfl hI.cache) (Nat.le_refl _) (Kept.of_frames rfl) ⟨rfl, rfl⟩
  · exact Post.pure hI ⟨rfl, rfl⟩

/-- instrumentation does not matter: continue from a state with the same frames -/
theorem noteHazard_bind {st : St} (hI : Inv st) (c : Bool) (k n : String) {f : Unit → M β} {R : β → St → Prop}
    (h : ∀ s, Inv s → s.frames.size = st.frames.size → Post (f ()) s R) : Post (noteHazard c k n >>= f) st R := by
  refine Post.bind (post_noteHazard hI c k n) ?_
  intro _ s hIs _ hs
  exact h s hIs (by rw [hs.1])

theorem runM_curEnv (st : St) : runM curEnv st = (.ok st.cur, st) := rfl

theorem post_evalIdentifier {st : St} (hI : Inv st) (name : String) : Post (evalIdentifier name) st OkO := by
  unfold evalIdentifier
  refine Post.bind_read (runM_get st) ?_
  split
  · exact Post.pure hI (by simp [OkO, okObj])
  · refine Post.bind (post_envGet_ok hI hI.cur name) ?_
    intro r s hIs _ hr
    split
    · next v => exact Post.pure hIs (hr v rfl)
    · exact Post.pure hIs okObj_err

theorem okObj_incrValue {n : Nat} {v nv : Obj} {a : Int64} (h : incrValue v a = some nv) : okObj n nv = true := by
  unfold incrValue at h
  split at h <;> first | (cases h; simp [okObj]) | cases h

/-- `if oerr.isError then pure oerr else pure v` -/
theorem post_errOr {st : St} (hI : Inv st) {oerr v : Obj} (h1 : okObj st.frames.size oerr = true)
    (h2 : okObj st.frames.size v = true) : Post (if oerr.isError = true then pure oerr else pure v : M Obj) st OkO := by
  split
  · exact Post.pure hI h1
  · exact Post.pure hI h2

theorem post_evalPrefixIncrDecr {st : St} (hI : Inv st) (op : String) (node : Node) :
    Post (evalPrefixIncrDecr op node) st OkO := by
  unfold evalPrefixIncrDecr
  split
  · next id =>
    refine Post.bind_read (runM_curEnv st) ?_
    refine Post.bind (post_envGet_ok hI hI.cur id) ?_
    intro r s hIs hle hr
    split
    · exact Post.pure hIs okObj_err
    · next val =>
      refine Post.bind (post_valueOf hIs (hr val rfl)) ?_
      rintro v s' hIs' _ ⟨rfl, _, _⟩
      split
      · next nv hnv => exact post_envSet hIs' (by have := hI.cur; omega) id (okObj_incrValue hnv)
      · exact Post.pure hIs' okObj_err
  · exact Post.pure hI okObj_err

theorem post_evalPostfix {st : St} (hI : Inv st) (op : String) (id : String) :
    Post (evalPostfix op id) st OkO := by
  unfold evalPostfix
  refine Post.bind_read (runM_curEnv st) ?_
  refine Post.bind (post_envGet_ok hI hI.cur id) ?_
  intro r s hIs hle hr
  split
  · exact Post.pure hIs okObj_err
  · next val =>
    refine Post.bind (post_valueOf hIs (hr val rfl)) ?_
    rintro v s' hIs' _ ⟨rfl, hv, _⟩
    dsimp only
    split
    · exact Post.pure hIs' okObj_err
    · split
      · exact Post.pure hIs' okObj_err
      · next nv hnv =>
        refine Post.bind (post_envSet hIs' (by have := hI.cur; omega) id (okObj_incrValue hnv)) ?_
        intro oerr s'' hIs'' hle' ho
        exact post_errOr hIs'' ho (okObj_mono hle' _ hv)

theorem post_evalIndexAssignment {st : St} (hI : Inv st) (which : Node) {index value : Obj}
    (hi : okObj st.frames.size index = true) (hv : okObj st.frames.size value = true) :
    Post (evalIndexAssignment which index value) st OkO := by
  unfold evalIndexAssignment
  refine Post.bind (post_valueOf hI hi) ?_
  rintro index s0 hI0 _ ⟨rfl, hi, _⟩
  refine Post.bind (post_valueOf hI0 hv) ?_
  rintro value st hI _ ⟨rfl, hv, _⟩
  split
  · next id =>
    refine Post.bind_read (runM_curEnv st) ?_
    refine Post.bind (post_envGet_ok hI hI.cur id) ?_
    intro r s hIs hle hr
    have hcur : st.cur < s.frames.size := by have := hI.cur; omega
    have hi' := okObj_mono hle _ hi
    have hv' := okObj_mono hle _ hv
    split
    · exact Post.pure hIs okObj_err
    · next val =>
      refine Post.bind (post_valueOf hIs (hr val rfl)) ?_
      rintro v s' hIs' _ ⟨rfl, hval, _⟩
      split
      · next els =>
        simp only [okObj] at hval
        split
        · exact Post.pure hIs' okObj_err
        · dsimp only
          refine Post.ite (fun _ => Post.pure hIs' okObj_err) (fun _ => ?_)
          refine Post.bind_read (runM_get s') ?_
          refine noteHazard_bind hIs' _ _ _ ?_
          intro s2 hIs2 hsz2
          refine Post.bind (post_envSet hIs2 (by omega) id (val := newArray _)
            (by simp only [newArray, okObj]; rw [hsz2]; exact okList_set hval hv')) ?_
          intro oerr s'' hIs'' hle' ho
          exact post_errOr hIs'' ho (okObj_mono (by omega) _ hv')
      · next big kvs =>
        simp only [okObj] at hval
        refine Post.bind_read (runM_get s') ?_
        refine Post.bind (Q := fun res s'' => s'' = s' ∧ okPairs s'.frames.size res.2 = true)
          (Post.liftR hIs' (mapSet_npr _ _ _ _ _) (fun res hres => ⟨rfl, mapSet_ok hval hi' hv' hres⟩)) ?_
        rintro ⟨big', kvs'⟩ s'' hIs'' _ ⟨rfl, hk⟩
        dsimp only
        refine noteHazard_bind hIs'' _ _ _ ?_
        intro s2 hIs2 hsz2
        refine Post.bind (post_envSet hIs2 (by omega) id (val := .map big' kvs') (by rw [hsz2]; simpa [okObj] using hk)) ?_
        intro oerr s3 hIs3 hle' ho
        exact post_errOr hIs3 ho (okObj_mono (by omega) _ hv')
      · exact Post.pure hIs' okObj_err
  · exact Post.pure hI okObj_err

theorem post_deleteMapEntry {st : St} (hI : Inv st) (left : Node) (index : Obj) :
    Post (deleteMapEntry left index) st OkO := by
  unfold deleteMapEntry
  split
  · next id =>
    refine Post.bind_read (runM_curEnv st) ?_
    refine Post.bind (post_envGet_ok hI hI.cur id) ?_
    intro r s hIs hle hr
    have hcur : st.cur < s.frames.size := by have := hI.cur; omega
    split
    · exact Post.pure hIs (by simp [OkO, okObj])
    · next obj0 =>
      refine Post.bind (post_valueOf hIs (hr obj0 rfl)) ?_
      rintro obj s' hIs' _ ⟨rfl, hobj, _hnr⟩
      split
      · next big kvs =>
        simp only [okObj] at hobj
        refine Post.bind (Q := fun res s'' => s'' = s' ∧ ∀ k, res = some k → okPairs s'.frames.size k = true)
          (Post.liftR hIs' (mapDelete_npr _ _) (fun res hres => ⟨rfl, fun k hk => by subst hk; exact mapDelete_ok hobj hres⟩)) ?_
        rintro res s'' hIs'' _ ⟨rfl, hk⟩
        split
        · exact Post.pure hIs'' (by simp [OkO, okObj])
        · next kvs' =>
          refine noteHazard_bind hIs'' _ _ _ ?_
          intro s2 hIs2 hsz2
          refine Post.bind (post_envSet hIs2 (by omega) id (val := .map big kvs') (by rw [hsz2]; simpa [okObj] using hk kvs' rfl)) ?_
          intro oerr s3 hIs3 hle' ho
          exact post_errOr hIs3 ho (by simp [okObj])
      · exact Post.pure hIs' okObj_err
  · exact Post.pure hI okObj_err

theorem post_derefList : ∀ (l : List Obj) {st : St} (_ : Inv st) (_ : okList st.frames.size l = true),
    Post (derefList l) st (fun r s => s = st ∧ okList st.frames.size r = true)
  | [], st, hI, _ => by
    unfold derefList
    exact Post.pure hI ⟨rfl, by simp [okList]⟩
  | x :: xs, st, hI, hl => by
    unfold derefList
    simp only [okList, Bool.and_eq_true] at hl
    refine Post.bind (post_valueOf hI hl.1) ?_
    rintro v s hIs _ ⟨rfl, hv, _⟩
    refine Post.bind (post_derefList xs hIs hl.2) ?_
    rintro vs s' hIs' _ ⟨rfl, hvs⟩
    exact Post.pure hIs' ⟨rfl, by simp [okList, hv, hvs]⟩

/-- a cache hit returns a well scoped result -/
theorem post_cacheGet {st : St} (hI : Inv st) (key : String) (args : List Obj) :
    Post (cacheGet key args) st (fun r s => s = st ∧ ∀ v o, r = some (v, o) → okObj st.frames.size v = true) := by
  unfold cacheGet
  refine Post.bind_read (runM_get st) ?_
  have hnone : Post (pure none : M (Option (Obj × List UInt8))) st
      (fun r s => s = st ∧ ∀ v o, r = some (v, o) → okObj st.frames.size v = true) :=
    Post.pure hI ⟨rfl, fun _ _ h => by cases h⟩
  split
  · exact hnone
  · split
    · exact hnone
    · split
      · exact hnone
      · split
        · next c hc =>
          refine Post.pure hI ⟨rfl, ?_⟩
          intro v o h; cases h
          exact hI.cache c (List.mem_of_find?_eq_some hc)
        · exact hnone

theorem post_cacheSet {st : St} (hI : Inv st) (key : String) (args : List Obj) {res : Obj}
    (hres : okObj st.frames.size res = true) (output : List UInt8) :
    Post (cacheSet key args res output) st (fun _ s => s.frames = st.frames ∧ s.cur = st.cur) := by
  unfold cacheSet
  refine Post.bind_read (runM_get st) ?_
  split
  · exact Post.pure hI ⟨rfl, rfl⟩
  · split
    · exact Post.pure hI ⟨rfl, rfl⟩
    · split
      · exact Post.pure hI ⟨rfl, rfl⟩
      · dsimp only
        refine Post.set (hI.update rfl hI.cur rfl ?_) (Nat.le_refl _) (Kept.of_frames rfl) ⟨rfl, rfl⟩
        intro c hc
        rcases List.mem_cons.1 hc with h | h
        · subst h; exact hres
        · exact hI.cache c (List.mem_filter.1 h).1

end Grol.K

namespace Grol.K
open Grol.E

theorem post_finishCall {st : St} (hI : Inv st) (f : FuncVal) (args : List Obj) {curState : Nat}
    (hcur : curState < st.frames.size) (before after : Nat) (cantCache : Bool) {res : Obj}
    (hres : okObj st.frames.size res = true) (output : List UInt8) :
    Post (finishCall f args curState before after cantCache res output) st OkO := by
  unfold finishCall
  extract_lets _x jp
  have hjp : ∀ s', Inv s' → st.frames.size ≤ s'.frames.size → Post (jp ()) s' OkO := by
    intro s' hIs' hle'
    have hres' : okObj s'.frames.size res = true := okObj_mono hle' _ hres
    unfold jp
    refine Post.ite (fun _ => ?_) (fun _ => ?_)
    · refine Post.bind (post_triggerNoCache hIs' (by omega)) ?_
      intro _ s'' hIs'' hle'' _
      exact Post.pure hIs'' (okObj_mono hle'' _ hres')
    · refine Post.ite (fun _ => Post.pure hIs' hres') (fun _ => ?_)
      refine Post.ite (fun _ => Post.pure hIs' hres') (fun _ => ?_)
      refine Post.bind (post_cacheSet hIs' f.key args hres' output) ?_
      intro _ s'' hIs'' hle'' _
      exact Post.pure hIs'' (okObj_mono hle'' _ hres')
  refine Post.ite (fun _ => ?_) (fun _ => hjp st hI (Nat.le_refl _))
  refine Post.bind (post_writeOut hI output) ?_
  intro _ s5 hI5 hle5 _
  exact hjp s5 hI5 hle5

theorem post_newFrame {st : St} (hI : Inv st) {nf : Frame}
    (ho : ∀ o, nf.outer = some o → o < st.frames.size ∧ ∀ fo, st.frames[o]? = some fo → fo.depth < nf.depth)
    (hf : ∀ fn, nf.function = some fn → fn.env < st.frames.size ∧ okFn fn = true)
    (hs : nf.store = []) :
    Post (newFrame nf) st (fun r s => r = st.frames.size ∧ s.frames.size = st.frames.size + 1 ∧ s.cur = st.cur) := by
  unfold newFrame
  refine Post.bind_read (runM_get st) ?_
  refine Post.bind (Q := fun _ s => s.frames.size = st.frames.size + 1 ∧ s.cur = st.cur)
    (Post.set (hI.push ho hf hs) (by simp) (Kept.push _) ⟨by simp, rfl⟩) ?_
  intro _ s hIs _ hs
  exact Post.pure hIs ⟨rfl, hs.1, hs.2⟩

theorem post_bindParams : ∀ (l : List (String × Obj)) {st : St} (_ : Inv st) {nenv : Nat}
    (_ : nenv < st.frames.size) (_ : ∀ p a, (p, a) ∈ l → okObj st.frames.size a = true),
    Post (bindParams nenv l) st OkOpt
  | [], st, hI, nenv, _, _ => by
    unfold bindParams
    exact Post.pure hI okOpt_none
  | (p, a) :: rest, st, hI, nenv, hn, hl => by
    unfold bindParams
    refine Post.bind (post_valueOf hI (hl p a List.mem_cons_self)) ?_
    rintro pval s hIs _ ⟨rfl, hpv, _⟩
    have hrest : ∀ s1, Inv s1 → s.frames.size ≤ s1.frames.size → Post (do
        let oerr ← createOrSet nenv p pval true
        if oerr.isError = true then pure (some oerr) else bindParams nenv rest) s1 OkOpt := by
      intro s1 hI1 hle1
      refine Post.bind (post_createOrSet hI1 (by omega) p (okObj_mono hle1 _ hpv) true) ?_
      intro oerr s' hIs' hle ho
      split
      · exact Post.pure hIs' (fun v hv => by cases hv; exact ho)
      · exact post_bindParams rest hIs' (by omega)
          (fun p' a' h => okObj_mono (Nat.le_trans hle1 hle) _ (hl p' a' (List.mem_cons_of_mem _ h)))
    dsimp only
    split
    · refine Post.bind (post_triggerNoCache hIs hn) ?_
      intro _ s1 hI1 hle1 _
      exact hrest s1 hI1 hle1
    · exact hrest s hIs (Nat.le_refl _)

theorem splitArgs_ok {n : Nat} (f : FuncVal) {args : List Obj} (h : okList n args = true) :
    okList n (splitArgs f args).2.1 = true ∧ okList n (splitArgs f args).2.2 = true := by
  unfold splitArgs
  have key : ∀ (A : List Obj) (k : Nat) (p : List String), okList n A = true →
      okList n (if A.length ≥ k then (p, A.take k, A.drop k) else (p, A, [])).2.1 = true ∧
      okList n (if A.length ≥ k then (p, A.take k, A.drop k) else (p, A, [])).2.2 = true := by
    intro A k p hA
    split
    · exact ⟨okList_take hA, okList_drop hA⟩
    · exact ⟨hA, by simp [okList]⟩
  split
  · dsimp only
    split
    · next els hl =>
      have hm := List.mem_of_getLast? hl
      have := (okList_iff.1 h) _ hm
      simp only [okObj] at this
      refine key _ _ _ (okList_append ?_ this)
      rw [okList_iff]
      exact fun x hx => (okList_iff.1 h) x (List.dropLast_subset _ hx)
    · exact key _ _ _ h
  · exact ⟨h, by simp [okList]⟩

theorem post_extendFunctionEnv {st : St} (hI : Inv st) {f : FuncVal} (hf : f.env < st.frames.size)
    (hfo : okFn f = true)
    {args : List Obj} (hargs : okList st.frames.size args = true) :
    Post (extendFunctionEnv f args) st (fun r s =>
      (∀ nenv, r = .ok nenv → nenv < s.frames.size) ∧ (∀ e, r = .error e → okObj s.frames.size e = true)) := by
  unfold extendFunctionEnv
  refine Post.bind_read (runM_curEnv st) ?_
  obtain ⟨cf, hcf⟩ := frame_exists hI.cur
  refine Post.bind_read (runM_getFrame hcf) ?_
  dsimp only
  have hp : (if (sameFunction cf f) = true then st.cur else f.env) < st.frames.size := by
    split
    · exact hI.cur
    · exact hf
  generalize (if (sameFunction cf f) = true then st.cur else f.env) = parent at hp
  obtain ⟨pf, hpf⟩ := frame_exists hp
  refine Post.bind_read (runM_getFrame hpf) ?_
  refine Post.bind (post_newFrame hI (nf := { outer := some parent, depth := pf.depth + 1, cacheKey := f.key, function := some f, localFunc := (sameFunction cf f && cf.localFunc) })
    ?_ ?_ rfl) ?_
  · intro o ho
    cases ho
    refine ⟨hp, ?_⟩
    intro fo hfo
    rw [hpf] at hfo; cases hfo
    exact Nat.lt_succ_self _
  · intro fn hfn
    cases hfn
    exact ⟨hf, hfo⟩
  · rintro nenv s hIs hle ⟨rfl, hsz, _⟩
    have hn : st.frames.size < s.frames.size := by omega
    have hrest : ∀ (args2 : List Obj) (s2 : St), Inv s2 → s.frames.size ≤ s2.frames.size →
        okList s.frames.size args2 = true →
        Post (if ((splitArgs f args2).2.fst.length != (splitArgs f args2).fst.length) = true then
            pure (Except.error (err "wrong number of arguments"))
          else do
            let __do_lift ← bindParams st.frames.size ((splitArgs f args2).fst.zip (splitArgs f args2).2.fst)
            match __do_lift with
              | some oerr => pure (Except.error oerr)
              | none =>
                if f.variadic = true then do
                  let _ ← setNoChecks st.frames.size ".." (newArray (splitArgs f args2).2.snd) true
                  pure (Except.ok st.frames.size)
                else pure (Except.ok st.frames.size)) s2 (fun r s =>
          (∀ nenv, r = .ok nenv → nenv < s.frames.size) ∧ (∀ e, r = .error e → okObj s.frames.size e = true)) := by
      intro args2 s2 hIs2 hle2 hargs2
      obtain ⟨ha, he⟩ := splitArgs_ok (n := s.frames.size) f hargs2
      generalize splitArgs f args2 = sp at ha he
      obtain ⟨params, args', extra⟩ := sp
      dsimp only at ha he ⊢
      split
      · exact Post.pure hIs2 ⟨fun _ h => (by cases h), fun e h => (by cases h; exact okObj_err)⟩
      · refine Post.bind (post_bindParams (params.zip args') hIs2 (by omega) ?_) ?_
        · intro p a hpa
          exact okObj_mono (by omega) _ ((okList_iff.1 ha) a (List.of_mem_zip hpa).2)
        · intro r s' hIs' hle' hr
          split
          · next oerr => exact Post.pure hIs' ⟨fun _ h => (by cases h), fun e h => (by cases h; exact hr oerr rfl)⟩
          · have hfin : ∀ s3 : St, Inv s3 → s'.frames.size ≤ s3.frames.size →
                Post (pure (Except.ok st.frames.size) : M (Except Obj Nat)) s3 (fun r s =>
                  (∀ nenv, r = .ok nenv → nenv < s.frames.size) ∧ (∀ e, r = .error e → okObj s.frames.size e = true)) := by
              intro s3 hIs3 hle3
              exact Post.pure hIs3 ⟨fun _ h => (by cases h; omega), fun e h => (by cases h)⟩
            split
            · refine Post.bind (post_setNoChecks hIs' (by omega) ".." (val := newArray extra) ?_ true
                (SetOk.of_not_const (by decide))) ?_
              · simp only [newArray, okObj]
                exact okList_mono (by omega) _ he
              · intro _ s3 hIs3 hle3 _
                exact hfin s3 hIs3 hle3
            · exact hfin s' hIs' (Nat.le_refl _)
    refine Post.ite (fun _ => ?_) (fun _ => ?_)
    · split
      · next last hl =>
        have hlast : okObj st.frames.size last = true := (okList_iff.1 hargs) _ (List.mem_of_getLast? hl)
        refine Post.bind (post_valueOf hIs (okObj_mono hle _ hlast)) ?_
        rintro v s1 hIs1 _ ⟨rfl, hv, _⟩
        refine Post.bind_read (runM_pure _ s1) ?_
        refine hrest _ s1 hIs1 (Nat.le_refl _) ?_
        refine okList_append ?_ (by simp [okList, hv])
        rw [okList_iff]
        exact fun x hx => okObj_mono hle _ ((okList_iff.1 hargs) x (List.dropLast_subset _ hx))
      · refine Post.bind_read (runM_pure _ s) ?_
        exact hrest _ s hIs (Nat.le_refl _) (okList_mono hle _ hargs)
    · refine Post.bind_read (runM_pure _ s) ?_
      exact hrest _ s hIs (Nat.le_refl _) (okList_mono hle _ hargs)

end Grol.K

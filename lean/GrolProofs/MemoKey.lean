import Grol.Eval.Values
/-
C04, an ingredient of (B): Go map-key equality (`keyEq`, the test a cache lookup performs) is
identity on hashable values that contain no float — the only hashable values on which it is
coarser than identity are floats (`0.0`/`-0.0` share an entry, the recorded float-key class).
-/
namespace Grol.E

mutual
def noFloat : Obj → Bool
  | .float _ => false
  | .array els => noFloatList els
  | .map _ kvs => noFloatPairs kvs
  | _ => true
def noFloatList : List Obj → Bool
  | [] => true
  | x :: xs => noFloat x && noFloatList xs
def noFloatPairs : List (Obj × Obj) → Bool
  | [] => true
  | (k, v) :: xs => noFloat k && noFloat v && noFloatPairs xs
end

mutual
theorem keyEq_eq (cfg : Cfg) : ∀ a b : Obj, noFloat a = true → hashable cfg a = true → hashable cfg b = true →
    keyEq a b = true → a = b
  | .int x, b, _, _, _, h => by cases b <;> simp_all [keyEq]
  | .bool x, b, _, _, _, h => by cases b <;> simp_all [keyEq]
  | .null, b, _, _, _, h => by cases b <;> simp_all [keyEq]
  | .str x, b, _, _, _, h => by cases b <;> simp_all [keyEq]
  | .float x, _, hn, _, _, _ => by simp [noFloat] at hn
  | .array xs, b, hn, ha, hb, h => by
    cases b with
    | array ys =>
      simp only [noFloat, hashable, keyEq, Bool.and_eq_true] at hn ha hb h
      rw [keyEqList_eq cfg xs ys hn ha.2 hb.2 h]
    | _ => simp [keyEq] at h
  | .map bx xs, b, hn, ha, hb, h => by
    cases b with
    | map by' ys =>
      simp only [noFloat, hashable, keyEq, Bool.and_eq_true, Bool.not_eq_true'] at hn ha hb h
      rw [keyEqPairs_eq cfg xs ys hn ha.2 hb.2 h, ha.1, hb.1]
    | _ => simp [keyEq] at h
  | .func _, _, _, ha, _, _ => by simp [hashable] at ha
  | .ext _, _, _, ha, _, _ => by simp [hashable] at ha
  | .error _, _, _, ha, _, _ => by simp [hashable] at ha
  | .ret _ _, _, _, ha, _, _ => by simp [hashable] at ha
  | .ref _ _, _, _, ha, _, _ => by simp [hashable] at ha
  | .quote _, _, _, ha, _, _ => by simp [hashable] at ha
theorem keyEqList_eq (cfg : Cfg) : ∀ a b : List Obj, noFloatList a = true → hashableList cfg a = true →
    hashableList cfg b = true → keyEqList a b = true → a = b
  | [], [], _, _, _, _ => rfl
  | [], _ :: _, _, _, _, h => by simp [keyEqList] at h
  | _ :: _, [], _, _, _, h => by simp [keyEqList] at h
  | x :: xs, y :: ys, hn, ha, hb, h => by
    simp only [noFloatList, hashableList, keyEqList, Bool.and_eq_true] at hn ha hb h
    rw [keyEq_eq cfg x y hn.1 ha.1 hb.1 h.1, keyEqList_eq cfg xs ys hn.2 ha.2 hb.2 h.2]
theorem keyEqPairs_eq (cfg : Cfg) : ∀ a b : List (Obj × Obj), noFloatPairs a = true → hashablePairs cfg a = true →
    hashablePairs cfg b = true → keyEqPairs a b = true → a = b
  | [], [], _, _, _, _ => rfl
  | [], _ :: _, _, _, _, h => by simp [keyEqPairs] at h
  | _ :: _, [], _, _, _, h => by simp [keyEqPairs] at h
  | (k, v) :: xs, (k', v') :: ys, hn, ha, hb, h => by
    simp only [noFloatPairs, hashablePairs, keyEqPairs, Bool.and_eq_true] at hn ha hb h
    rw [keyEq_eq cfg k k' hn.1.1 ha.1.1 hb.1.1 h.1.1, keyEq_eq cfg v v' hn.1.2 ha.1.2 hb.1.2 h.1.2,
      keyEqPairs_eq cfg xs ys hn.2 ha.2 hb.2 h.2]
end

end Grol.E

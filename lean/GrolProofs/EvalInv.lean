import GrolProofs.EvalOps
/-
The evaluator invariant and the Hoare-style predicate `Post` used to prove C07
(no evaluation ends in a Go panic).
-/
namespace Grol.E

/-! ### well-scoped values: every frame index occurring in a value is below `n` -/

mutual
def okObj (n : Nat) : Obj → Bool
  | .array els => okList n els
  | .map _ kvs => okPairs n kvs
  | .func f => decide (f.env < n)
  | .ret v _ => okObj n v
  | .ref e _ => decide (e < n)
  | _ => true
def okList (n : Nat) : List Obj → Bool
  | [] => true
  | x :: xs => okObj n x && okList n xs
def okPairs (n : Nat) : List (Obj × Obj) → Bool
  | [] => true
  | (k, v) :: xs => okObj n k && okObj n v && okPairs n xs
end

theorem okList_eq (n : Nat) (l : List Obj) : okList n l = l.all (okObj n) := by
  induction l with
  | nil => simp [okList]
  | cons x xs ih => simp [okList, ih]

theorem okPairs_eq (n : Nat) (l : List (Obj × Obj)) :
    okPairs n l = l.all (fun kv => okObj n kv.1 && okObj n kv.2) := by
  induction l with
  | nil => simp [okPairs]
  | cons x xs ih => obtain ⟨k, v⟩ := x; simp [okPairs, ih]

mutual
theorem okObj_mono {n m : Nat} (h : n ≤ m) : ∀ o, okObj n o = true → okObj m o = true
  | .array els => by simpa [okObj] using okList_mono h els
  | .map _ kvs => by simpa [okObj] using okPairs_mono h kvs
  | .func f => by simp [okObj]; omega
  | .ret v _ => by simpa [okObj] using okObj_mono h v
  | .ref e _ => by simp [okObj]; omega
  | .null | .bool _ | .int _ | .float _ | .str _ | .ext _ | .error _ | .quote _ => by simp [okObj]
theorem okList_mono {n m : Nat} (h : n ≤ m) : ∀ l, okList n l = true → okList m l = true
  | [] => by simp [okList]
  | x :: xs => by
    simp only [okList, Bool.and_eq_true]
    exact fun ⟨a, b⟩ => ⟨okObj_mono h x a, okList_mono h xs b⟩
theorem okPairs_mono {n m : Nat} (h : n ≤ m) : ∀ l, okPairs n l = true → okPairs m l = true
  | [] => by simp [okPairs]
  | (k, v) :: xs => by
    simp only [okPairs, Bool.and_eq_true]
    exact fun ⟨⟨a, b⟩, c⟩ => ⟨⟨okObj_mono h k a, okObj_mono h v b⟩, okPairs_mono h xs c⟩
end

/-! ### the invariant -/

/-- a store of frame `i` (of depth `d`): every value is well scoped, and every reference stored at
the top level points to a frame of strictly smaller index AND strictly smaller depth -/
def StoreOk (frames : Array Frame) (i d : Nat) (store : List (String × Obj)) : Prop :=
  ∀ k v, (k, v) ∈ store → okObj frames.size v = true ∧
    ∀ e nm, v = Obj.ref e nm → e < i ∧ ∀ fe, frames[e]? = some fe → fe.depth < d

/-- frame `i` of the heap is well formed: `outer` points to a frame of strictly smaller index and
depth, the frame's function is well scoped, the store is well formed -/
structure FrameOk (frames : Array Frame) (i : Nat) (f : Frame) : Prop where
  outer : ∀ o, f.outer = some o → o < i ∧ ∀ fo, frames[o]? = some fo → fo.depth < f.depth
  func : ∀ fn, f.function = some fn → fn.env < frames.size
  store : StoreOk frames i f.depth f.store

/-- the evaluator invariant -/
structure Inv (st : St) : Prop where
  cur : st.cur < st.frames.size
  root : st.root < st.frames.size
  frames : ∀ i f, st.frames[i]? = some f → FrameOk st.frames i f
  cache : ∀ c, c ∈ st.cache → okObj st.frames.size c.result = true

/-! ### running a computation -/

def runM (x : M α) (st : St) : Except Stop α × St := x.run st |>.run

theorem outcome_eq (x : M α) (st : St) : outcome x st = (runM x st).1 := rfl
theorem stateAfter_eq (x : M α) (st : St) : stateAfter x st = (runM x st).2 := rfl

/-- `Post x st Q`: running `x` from `st` does not end in a Go panic; the final state satisfies the
invariant again (also after an abnormal stop) and has at least as many frames; a normal result
satisfies `Q` -/
def Post (x : M α) (st : St) (Q : α → St → Prop) : Prop :=
  match runM x st with
  | (.ok a, st') => Inv st' ∧ st.frames.size ≤ st'.frames.size ∧ Q a st'
  | (.error (.goPanic _), _) => False
  | (.error _, st') => Inv st' ∧ st.frames.size ≤ st'.frames.size

theorem runM_pure (a : α) (st : St) : runM (pure a : M α) st = (.ok a, st) := rfl

theorem runM_bind (x : M α) (f : α → M β) (st : St) :
    runM (x >>= f) st =
      match runM x st with
      | (.ok a, st') => runM (f a) st'
      | (.error e, st') => (.error e, st') := by
  unfold runM
  simp only [bind, ExceptT.bind, ExceptT.run, ExceptT.mk, StateT.bind, ExceptT.bindCont, Id.run]
  split
  next a s h =>
    simp only [h]
    cases a <;> rfl

theorem runM_get (st : St) : runM (get : M St) st = (.ok st, st) := rfl
theorem runM_set (s st : St) : runM (set s : M Unit) st = (.ok (), s) := rfl
theorem runM_modify (g : St → St) (st : St) : runM (modify g : M Unit) st = (.ok (), g st) := rfl
theorem runM_stop (e : Stop) (st : St) : runM (stop e : M α) st = (.error e, st) := rfl
theorem runM_throw (e : Stop) (st : St) : runM (throw e : M α) st = (.error e, st) := rfl

theorem Post.pure {a : α} {st : St} {Q : α → St → Prop} (hI : Inv st) (h : Q a st) :
    Post (pure a : M α) st Q := by
  unfold Post; rw [runM_pure]; exact ⟨hI, Nat.le_refl _, h⟩

theorem Post.bind {x : M α} {f : α → M β} {st : St} {Q : α → St → Prop} {R : β → St → Prop}
    (hx : Post x st Q)
    (hf : ∀ a st', Inv st' → st.frames.size ≤ st'.frames.size → Q a st' → Post (f a) st' R) :
    Post (x >>= f) st R := by
  unfold Post at hx ⊢
  rw [runM_bind]
  split at hx
  next a st' h =>
    simp only [h]
    obtain ⟨hI, hle, hq⟩ := hx
    have := hf a st' hI hle hq
    unfold Post at this
    split at this
    next b st'' h2 => simp only [h2]; exact ⟨this.1, Nat.le_trans hle this.2.1, this.2.2⟩
    next h2 => exact this.elim
    next e st'' hne h2 =>
      simp only [h2]
      exact ⟨this.1, Nat.le_trans hle this.2⟩
  next h => exact hx.elim
  next e st' hne h =>
    simp only [h]
    exact hx

theorem Post.mono {x : M α} {st : St} {Q R : α → St → Prop} (hx : Post x st Q)
    (h : ∀ a st', Inv st' → st.frames.size ≤ st'.frames.size → Q a st' → R a st') : Post x st R := by
  unfold Post at hx ⊢
  split at hx
  next a st' h1 => exact ⟨hx.1, hx.2.1, h a st' hx.1 hx.2.1 hx.2.2⟩
  next h1 => exact hx.elim
  next e st' hne h1 => exact hx

theorem Post.get {st : St} {Q : St → St → Prop} (hI : Inv st) (h : Q st st) : Post (get : M St) st Q := by
  unfold Post; rw [runM_get]; exact ⟨hI, Nat.le_refl _, h⟩

theorem Post.set {s st : St} {Q : Unit → St → Prop} (hI : Inv s) (hle : st.frames.size ≤ s.frames.size)
    (h : Q () s) : Post (set s : M Unit) st Q := by
  unfold Post; rw [runM_set]; exact ⟨hI, hle, h⟩

theorem Post.modify {g : St → St} {st : St} {Q : Unit → St → Prop} (hI : Inv (g st))
    (hle : st.frames.size ≤ (g st).frames.size) (h : Q () (g st)) : Post (modify g : M Unit) st Q := by
  unfold Post; rw [runM_modify]; exact ⟨hI, hle, h⟩

/-- a stop that is not a Go panic -/
theorem Post.stop {e : Stop} {st : St} {Q : α → St → Prop} (hI : Inv st) (he : ∀ s, e ≠ .goPanic s) :
    Post (stop e : M α) st Q := by
  unfold Post; rw [runM_stop]
  split
  next h => cases h
  next s _ h => cases h; exact (he _ rfl).elim
  next h => cases h; exact ⟨hI, Nat.le_refl _⟩

theorem Post.stop_bind {e : Stop} {st : St} {f : α → M β} {R : β → St → Prop} (hI : Inv st)
    (he : ∀ s, e ≠ .goPanic s) : Post (Grol.E.stop e >>= f) st R :=
  Post.bind (Q := fun _ _ => False) (Post.stop hI he) (fun _ _ _ _ h => h.elim)

theorem Post.throw {e : Stop} {st : St} {Q : α → St → Prop} (hI : Inv st) (he : ∀ s, e ≠ .goPanic s) :
    Post (throw e : M α) st Q := Post.stop (e := e) hI he

/-- from `Post` to the statement about `outcome` -/
theorem Post.no_panic {x : M α} {st : St} {Q : α → St → Prop} (h : Post x st Q) :
    isGoPanic (outcome x st) = false := by
  unfold Post at h
  rw [outcome_eq]
  split at h
  next h1 => simp [h1, isGoPanic]
  next h1 => exact h.elim
  next e st' hne h1 =>
    simp only [h1]
    cases e <;> simp_all [isGoPanic]

theorem Post.inv_after {x : M α} {st : St} {Q : α → St → Prop} (h : Post x st Q) :
    Inv (stateAfter x st) := by
  unfold Post at h
  rw [stateAfter_eq]
  split at h
  next h1 => simp only [h1]; exact h.1
  next h1 => exact h.elim
  next h1 => simp only [h1]; exact h.1

/-! ### pure `R` computations that cannot panic -/

def NPR (r : R α) : Prop := ∀ s, r ≠ .error (.goPanic s)

theorem Post.liftR {r : R α} {st : St} {Q : α → St → Prop} (hI : Inv st) (hr : NPR r)
    (h : ∀ a, r = .ok a → Q a st) : Post (Grol.E.liftR r) st Q := by
  unfold Grol.E.liftR
  cases r with
  | ok a => exact Post.pure hI (h a rfl)
  | error e => exact Post.throw hI (fun s he => hr s (by rw [he]))

theorem NPR.pure (a : α) : NPR (pure a : R α) := fun _ h => by cases h
theorem NPR.ok (a : α) : NPR (.ok a : R α) := fun _ h => by cases h

theorem NPR.bind {x : R α} {f : α → R β} (hx : NPR x) (hf : ∀ a, x = .ok a → NPR (f a)) : NPR (x >>= f) := by
  cases x with
  | ok a => exact hf a rfl
  | error e => intro s h; exact hx s (by cases h; rfl)

theorem NPR.throw_unmodelled (w : String) : NPR (throw (.unmodelled w) : R α) := fun _ h => by cases h

end Grol.E

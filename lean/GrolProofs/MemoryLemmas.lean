import Grol.Memory
/- Arithmetic lemmas for C09: `BitVec 64` operations of the guard versus unbounded integers. -/
namespace Grol.Memory

theorem toInt_cases (x : I64) :
    (x.toInt = (x.toNat : Int) ∧ x.toNat < 2 ^ 63) ∨ (x.toInt = (x.toNat : Int) - 2 ^ 64 ∧ 2 ^ 63 ≤ x.toNat) := by
  have h := BitVec.toInt_eq_toNat_cond x
  have hlt := x.isLt
  split at h
  · left; exact ⟨h, by omega⟩
  · right; exact ⟨by rw [h]; norm_cast, by omega⟩

theorem toNat_of_nonneg (x : I64) (h : 0 ≤ x.toInt) : x.toInt = (x.toNat : Int) ∧ x.toNat < 2 ^ 63 := by
  rcases toInt_cases x with h' | h'
  · exact h'
  · have := x.isLt; omega

/-- multiplying by ObjectSize without wrap-around -/
theorem toInt_mul16 (n : I64) (h0 : 0 ≤ n.toInt) (h1 : n.toInt ≤ maxInt64 / 16) :
    (n * 16#64).toInt = n.toInt * 16 := by
  obtain ⟨hn, hlt⟩ := toNat_of_nonneg n h0
  have hm : (n * 16#64).toNat = (n.toNat * 16) % 2 ^ 64 := by simp [BitVec.toNat_mul]
  have hb : n.toNat * 16 < 2 ^ 63 := by
    have : (n.toNat : Int) ≤ 576460752303423487 := by rw [← hn]; simpa [maxInt64] using h1
    omega
  rcases toInt_cases (n * 16#64) with h' | h'
  · rw [h'.1, hm, hn]; omega
  · rw [hm] at h'; omega

end Grol.Memory

namespace Grol.Memory

/-- the budget test on unbounded integers: `count` objects of 16 bytes -/
def FitsOne (free : Int) (count : Int) : Prop := count ≤ 256 ∨ (0 ≤ free ∧ count * 16 < free)

/-- … for one of the two readings of the free memory (before / after the forced GC) -/
def Fits (free1 free2 : Int) (count : Int) : Prop := FitsOne free1 count ∨ FitsOne free2 count

theorem sizeOk_sound (free : Int) (n : I64) (h : sizeOk free n = true) : FitsOne free n.toInt := by
  unfold sizeOk at h
  by_cases h1 : n.toInt ≤ 256
  · exact Or.inl h1
  · rw [if_neg h1] at h
    by_cases h2 : n.toInt > maxInt64 / 16
    · rw [if_pos h2] at h; cases h
    · rw [if_neg h2] at h
      simp only [Bool.and_eq_true, decide_eq_true_eq] at h
      rw [toInt_mul16 n (by omega) (by omega)] at h
      exact Or.inr h

theorem mustBeOk_sound (free1 free2 : Int) (n : I64) (h : mustBeOk free1 free2 n = true) :
    Fits free1 free2 n.toInt := by
  unfold mustBeOk at h
  rw [Bool.or_eq_true] at h
  rcases h with h | h
  · exact Or.inl (sizeOk_sound _ _ h)
  · exact Or.inr (sizeOk_sound _ _ h)

theorem mulLen_spec (a b n : I64) (h : mulLen a b = some n) :
    0 ≤ a.toInt ∧ 0 ≤ b.toInt ∧ 0 ≤ n.toInt ∧ n.toInt = a.toInt * b.toInt ∧ (n.toNat : Int) = a.toInt * b.toInt := by
  unfold mulLen at h
  by_cases h1 : a.toInt < 0 ∨ b.toInt < 0
  · rw [if_pos h1] at h; cases h
  · rw [if_neg h1] at h
    simp only at h
    by_cases h2 : a.toNat * b.toNat / 2 ^ 64 ≠ 0 ∨ a.toNat * b.toNat % 2 ^ 64 > 2 ^ 63 - 1
    · rw [if_pos h2] at h; cases h
    · rw [if_neg h2] at h
      injection h with h
      obtain ⟨ha, _⟩ := toNat_of_nonneg a (by omega)
      obtain ⟨hb, _⟩ := toNat_of_nonneg b (by omega)
      generalize hp : a.toNat * b.toNat = p at h h2
      have hp63 : p < 2 ^ 63 := by omega
      have hnat : n.toNat = p := by
        rw [← h, BitVec.toNat_ofNat]; omega
      have hab : a.toInt * b.toInt = (p : Int) := by
        rw [ha, hb, ← hp]; norm_cast
      have hn : n.toInt = (n.toNat : Int) := by
        rcases toInt_cases n with h' | h'
        · exact h'.1
        · omega
      refine ⟨by omega, by omega, by omega, ?_, ?_⟩
      · rw [hn, hnat, hab]
      · rw [hnat, hab]

theorem toNat_ofNat_of_lt (k : Nat) (h : k < 2 ^ 64) : (BitVec.ofNat 64 k).toNat = k := by
  rw [BitVec.toNat_ofNat]; omega

theorem toInt_ofNat_of_lt (k : Nat) (h : k < 2 ^ 63) : (BitVec.ofNat 64 k).toInt = (k : Int) := by
  have hn := toNat_ofNat_of_lt k (by omega)
  rcases toInt_cases (BitVec.ofNat 64 k) with h' | h'
  · rw [h'.1, hn]
  · omega

end Grol.Memory

namespace Grol.Memory

/-- Go's `n / 16` on a non-negative int -/
theorem toInt_sdiv16 (n : I64) (h0 : 0 ≤ n.toInt) : (n.sdiv 16#64).toInt = n.toInt / 16 := by
  rw [BitVec.toInt_sdiv]
  have h16 : (16#64 : I64).toInt = 16 := by decide
  rw [h16, Int.tdiv_eq_ediv_of_nonneg h0]
  have hlt : n.toInt < 2 ^ 63 := by have := @BitVec.toInt_lt 64 n; simpa using this
  apply Int.bmod_eq_of_le_mul_two <;> omega

end Grol.Memory

import Grol.Trie
import Grol.TrieSuite
import GrolProofs.TrieMem
import GrolProofs.ByteRange
/-
Lemmas about the trie model: enumeration (`allBytes`) on well-formed tries.
-/
namespace Grol.Trie
open Grol.TrieSuite (bytesLt)

/-! ### lexicographic order on byte strings -/

theorem bytesLt_append_self (p w : List UInt8) (hw : w ≠ []) : bytesLt p (p ++ w) = true := by
  induction p with
  | nil => cases w <;> simp_all [bytesLt]
  | cons a as ih => simp [bytesLt, ih]

theorem bytesLt_diverge (p : List UInt8) (i j : UInt8) (a b : List UInt8) (h : i < j) :
    bytesLt (p ++ i :: a) (p ++ j :: b) = true := by
  induction p with
  | nil => simp [bytesLt, h]
  | cons c cs ih => simp [bytesLt, ih]

/-! ### well-formedness -/

def Inhab (t : T) : Prop := ∃ w, isValid (pfx t w) = true

def WF : T → Prop
  | .nil => True
  | .endMarker => True
  | .node _ mn mx ch => ∀ i, WF (ch i) ∧ ((ch i).isNil = false → mn ≤ i ∧ i ≤ mx ∧ Inhab (ch i))


theorem pfx_invalid_of_isNil {t : T} (h : t.isNil = true) (w : List UInt8) : isValid (pfx t w) = false := by
  cases t <;> simp_all [T.isNil]

/-- the non-nil children, in increasing byte order -/
def kids (mn mx : UInt8) (ch : UInt8 → T) : List UInt8 :=
  (byteRange mn mx).filter fun i => !(ch i).isNil

theorem mem_kids {v mn mx ch} (h : WF (.node v mn mx ch)) (i : UInt8) :
    i ∈ kids mn mx ch ↔ (ch i).isNil = false := by
  simp only [kids, List.mem_filter, mem_byteRange]
  constructor
  · intro h'; simpa using h'.2
  · intro h'; exact ⟨⟨((h i).2 h').1, ((h i).2 h').2.1⟩, by simp [h']⟩

theorem kids_pairwise (mn mx : UInt8) (ch : UInt8 → T) : (kids mn mx ch).Pairwise (· < ·) :=
  List.Pairwise.filter _ (byteRange_pairwise mn mx)

theorem allBytes_node (v mn mx ch p) :
    allBytes (.node v mn mx ch) p =
      (if (if v then 1 else 0) + (kids mn mx ch).length > 1 then p.length
        else ((kids mn mx ch).map fun i => allBytes (ch i) (p ++ [i])).foldl
          (fun acc r => if r.1 > acc then r.1 else acc) p.length,
       (if v then [p] else []) ++
        (((kids mn mx ch).map fun i => allBytes (ch i) (p ++ [i])).map (·.2)).flatten) := by
  simp [allBytes, kids]

/-- `n` is the length of a common prefix of all words of `l` -/
def CommonPrefixLen (n : Nat) (l : List (List UInt8)) : Prop :=
  ∀ x ∈ l, ∀ y ∈ l, n ≤ x.length ∧ x.take n = y.take n

/-- `n` is the length of the longest common prefix of the words of `l` -/
def IsLCPLen (n : Nat) (l : List (List UInt8)) : Prop :=
  CommonPrefixLen n l ∧ ¬ CommonPrefixLen (n + 1) l

/-- what `allBytes t p` returns on a well-formed trie -/
structure AllSpec (t : T) (p : List UInt8) (r : Nat × List (List UInt8)) : Prop where
  mem : ∀ x, x ∈ r.2 ↔ ∃ w, x = p ++ w ∧ isValid (pfx t w) = true
  sorted : r.2.Pairwise (fun a b => bytesLt a b = true)
  lcp : r.2 ≠ [] → IsLCPLen r.1 r.2
  ge : t.isNil = false → p.length ≤ r.1

end Grol.Trie

namespace Grol.Trie
open Grol.TrieSuite (bytesLt)

theorem isLCPLen_singleton (p : List UInt8) : IsLCPLen p.length [p] := by
  constructor
  · intro x hx y hy; simp_all
  · intro h; have := (h p (by simp) p (by simp)).1; omega

theorem foldl_max_ge (rs : List (Nat × List (List UInt8))) (init : Nat) :
    init ≤ rs.foldl (fun acc r => if r.1 > acc then r.1 else acc) init := by
  induction rs generalizing init with
  | nil => simp
  | cons r rs ih =>
    simp only [List.foldl_cons]
    split
    · exact Nat.le_trans (by omega) (ih _)
    · exact ih _

theorem mem_words_node {v : Bool} {mn mx ch} {p : List UInt8} (h : WF (.node v mn mx ch))
    (ih : ∀ i, AllSpec (ch i) (p ++ [i]) (allBytes (ch i) (p ++ [i]))) (x : List UInt8) :
    x ∈ (allBytes (.node v mn mx ch) p).2 ↔ ∃ w, x = p ++ w ∧ isValid (pfx (.node v mn mx ch) w) = true := by
  rw [allBytes_node]
  simp only [List.mem_append, List.mem_flatten, List.mem_map]
  constructor
  · rintro (hx | ⟨l, ⟨r, ⟨i, hi, rfl⟩, rfl⟩, hx⟩)
    · cases v <;> simp at hx
      exact ⟨[], by simp [hx]⟩
    · obtain ⟨w, rfl, hw⟩ := ((ih i).mem x).1 hx
      exact ⟨i :: w, by simp, by simpa using hw⟩
  · rintro ⟨w, rfl, hw⟩
    cases w with
    | nil => left; simp at hw; simp [hw]
    | cons i w' =>
      right
      simp at hw
      have hnn : (ch i).isNil = false := by
        cases hc : (ch i).isNil
        · rfl
        · rw [pfx_invalid_of_isNil hc] at hw; cases hw
      refine ⟨_, ⟨_, ⟨i, (mem_kids h i).2 hnn, rfl⟩, rfl⟩, ?_⟩
      exact ((ih i).mem _).2 ⟨w', by simp, hw⟩

end Grol.Trie

namespace Grol.Trie
open Grol.TrieSuite (bytesLt)

theorem sorted_words_node {v : Bool} {mn mx ch} {p : List UInt8}
    (ih : ∀ i, AllSpec (ch i) (p ++ [i]) (allBytes (ch i) (p ++ [i]))) :
    (allBytes (.node v mn mx ch) p).2.Pairwise (fun a b => bytesLt a b = true) := by
  rw [allBytes_node]
  simp only []
  rw [List.pairwise_append]
  refine ⟨by cases v <;> simp, ?_, ?_⟩
  · rw [List.pairwise_flatten]
    constructor
    · intro l hl
      simp only [List.mem_map] at hl
      obtain ⟨r, ⟨i, _, rfl⟩, rfl⟩ := hl
      exact (ih i).sorted
    · rw [List.map_map, List.pairwise_map]
      refine List.Pairwise.imp ?_ (kids_pairwise mn mx ch)
      intro i j hij x hx y hy
      obtain ⟨a, rfl, _⟩ := ((ih i).mem x).1 hx
      obtain ⟨b, rfl, _⟩ := ((ih j).mem y).1 hy
      simpa using bytesLt_diverge p i j a b hij
  · intro a ha b hb
    have ha' : a = p := by cases v <;> simp at ha; exact ha
    subst ha'
    simp only [List.mem_flatten, List.mem_map] at hb
    obtain ⟨l, ⟨r, ⟨i, _, rfl⟩, rfl⟩, hb⟩ := hb
    obtain ⟨w, rfl, _⟩ := ((ih i).mem b).1 hb
    simpa using bytesLt_append_self a (i :: w) (by simp)

end Grol.Trie

namespace Grol.Trie
open Grol.TrieSuite (bytesLt)

theorem take_succ_append_cons (p : List UInt8) (i : UInt8) (a : List UInt8) :
    (p ++ i :: a).take (p.length + 1) = p ++ [i] := by
  induction p with
  | nil => simp
  | cons c cs ih => simpa using ih

theorem lcp_words_node {v : Bool} {mn mx ch} {p : List UInt8} (h : WF (.node v mn mx ch))
    (ih : ∀ i, AllSpec (ch i) (p ++ [i]) (allBytes (ch i) (p ++ [i])))
    (hne : (allBytes (.node v mn mx ch) p).2 ≠ []) :
    IsLCPLen (allBytes (.node v mn mx ch) p).1 (allBytes (.node v mn mx ch) p).2 := by
  have hmem := mem_words_node (p := p) h ih
  -- a word of every non-nil child is listed
  have hkid : ∀ i ∈ kids mn mx ch, ∃ a, p ++ i :: a ∈ (allBytes (.node v mn mx ch) p).2 := by
    intro i hi
    obtain ⟨w, hw⟩ := ((h i).2 ((mem_kids h i).1 hi)).2.2
    exact ⟨w, (hmem _).2 ⟨i :: w, rfl, by simpa using hw⟩⟩
  by_cases hnum : (if v then 1 else 0) + (kids mn mx ch).length > 1
  · -- several words: the common prefix is exactly p
    have h1 : (allBytes (.node v mn mx ch) p).1 = p.length := by rw [allBytes_node]; simp [hnum]
    rw [h1]
    constructor
    · intro x hx y hy
      obtain ⟨a, rfl, _⟩ := (hmem x).1 hx
      obtain ⟨b, rfl, _⟩ := (hmem y).1 hy
      simp
    · intro hc
      cases v
      · -- two distinct children
        simp at hnum
        match hk : kids mn mx ch, hnum with
        | i :: j :: rest, _ =>
          have hij : i < j := by
            have := kids_pairwise mn mx ch; rw [hk] at this
            exact (List.pairwise_cons.1 this).1 j (by simp)
          obtain ⟨a, ha⟩ := hkid i (by simp [hk])
          obtain ⟨b, hb⟩ := hkid j (by simp [hk])
          have := (hc _ ha _ hb).2
          rw [take_succ_append_cons, take_succ_append_cons] at this
          have : i = j := by simpa using this
          subst this; exact absurd hij (by simp)
      · have hp : p ∈ (allBytes (.node true mn mx ch) p).2 := (hmem p).2 ⟨[], by simp, by simp⟩
        have := (hc p hp p hp).1
        omega
  · -- at most one source of words
    cases v
    · simp at hnum
      match hk : kids mn mx ch, hnum with
      | [], _ =>
        exfalso; apply hne; rw [allBytes_node]; simp [hk]
      | [i], _ =>
        have hnn : (ch i).isNil = false := (mem_kids h i).1 (by simp [hk])
        have hge := (ih i).ge hnn
        have e2 : (allBytes (.node false mn mx ch) p).2 = (allBytes (ch i) (p ++ [i])).2 := by
          rw [allBytes_node]; simp [hk]
        have e1 : (allBytes (.node false mn mx ch) p).1 = (allBytes (ch i) (p ++ [i])).1 := by
          rw [allBytes_node]; simp [hk]
          simp at hge; omega
        rw [e1, e2]
        exact (ih i).lcp (by rw [← e2]; exact hne)
    · simp at hnum
      have e2 : (allBytes (.node true mn mx ch) p).2 = [p] := by
        rw [allBytes_node]; simp [hnum]
      have e1 : (allBytes (.node true mn mx ch) p).1 = p.length := by
        rw [allBytes_node]; simp [hnum]
      rw [e1, e2]; exact isLCPLen_singleton p

theorem allBytes_spec (t : T) : ∀ (p : List UInt8), WF t → AllSpec t p (allBytes t p) := by
  induction t with
  | nil => intro p _; exact ⟨by simp [allBytes], by simp [allBytes], by simp [allBytes], by simp [T.isNil]⟩
  | endMarker =>
    intro p _
    refine ⟨?_, by simp [allBytes], ?_, by simp [allBytes]⟩
    · intro x; simp only [allBytes, List.mem_singleton]
      constructor
      · rintro rfl; exact ⟨[], by simp, by simp⟩
      · rintro ⟨w, rfl, hw⟩
        rw [pfx_endMarker] at hw
        by_cases hw' : w = [] <;> simp_all
    · intro _; simpa [allBytes] using isLCPLen_singleton p
  | node v mn mx ch ih =>
    intro p h
    have ih' : ∀ i, AllSpec (ch i) (p ++ [i]) (allBytes (ch i) (p ++ [i])) := fun i => ih i _ (h i).1
    refine ⟨mem_words_node h ih', sorted_words_node ih', lcp_words_node h ih', ?_⟩
    intro _
    rw [allBytes_node]
    by_cases hn : (if v then 1 else 0) + (kids mn mx ch).length > 1
    · simp only [if_pos hn]; exact Nat.le_refl _
    · simp only [if_neg hn]; exact foldl_max_ge _ _


end Grol.Trie

import Grol.Save
import GrolProofs.LexScan
/-
C14 lemmas, part 4: the strconv.Quote / readString pair.  For every byte string whose bytes are all
below 0x80 the lexer model's string reader, started just after the opening quote of the quoted text,
returns exactly the string and stops just after the closing quote.
-/
namespace Grol.Save
open Grol.E Grol.Lexer
open Grol.Wire (Bytes)

/-- the three shapes of `quoteByte b`: the byte itself, a two-byte escape, `\xHH` -/
def shapeOK (q : Bytes) (b : UInt8) : Bool :=
  match q with
  | [c] => c == b && c != 92 && c != 34 && c != 0
  | [c0, e] => c0 == 92 && e != 117 && e != 85 && e != 120 && (readEscape e { input := #[] }).1 == b
  | [c0, c1, h1, h2] => c0 == 92 && c1 == 120 && ((hexCharToHex h1 <<< 4) ||| hexCharToHex h2) == b
  | _ => false

set_option maxRecDepth 1000000 in
theorem quoteByte_shape_table : ∀ n, n < 256 →
    (match quoteByte (UInt8.ofNat n) with | some q => shapeOK q (UInt8.ofNat n) | none => true) = true := by
  decide

theorem quoteByte_shape {b : UInt8} {q : Bytes} (h : quoteByte b = some q) : shapeOK q b = true := by
  have := quoteByte_shape_table b.toNat b.toNat_lt
  simpa only [UInt8.ofNat_toNat, h] using this

theorem readEscape_noX (e : UInt8) (h : (e != 120) = true) (s s0 : State) :
    readEscape e s = ((readEscape e s0).1, s) := by
  have h' : (e == 120) = false := by simpa using h
  unfold readEscape
  simp only [h']
  repeat' split
  all_goals first | rfl | contradiction

theorem peek_off (pre mid : Bytes) (k : Nat) (x : UInt8) (h : mid[k]? = some x) :
    peekAt (pre ++ mid).toArray (pre.length + k) = x := by
  simp [peekAt, List.getElem?_append_right, h]

theorem setPos_congr (st : State) {a b : Nat} (h : a = b) : ({ st with pos := a } : State) = { st with pos := b } := by
  rw [h]

theorem readLoop_quoted : ∀ (s body : Bytes), quoteBody s = some body →
    ∀ (pre post : Bytes) (fuel : Nat) (st : State),
      st.input = (pre ++ (body ++ 34 :: post)).toArray → st.pos = pre.length → body.length + 1 ≤ fuel →
      readStringLoop 34 true fuel st = (s, true, { st with pos := pre.length + body.length + 1 })
  | [], body, hb => by
    intro pre post fuel st hin hpos hf
    simp [quoteBody] at hb
    subst hb
    cases fuel with
    | zero => simp at hf
    | succ f =>
      have hp : peekAt st.input st.pos = 34 := by
        rw [hin, hpos]; exact peek_off pre _ 0 34 rfl
      unfold readStringLoop
      simp only [readChar_fst, readChar_snd, hp]
      simp only [Bool.true_and, List.length_nil, Nat.add_zero]
      rw [if_neg (by decide), if_pos (by decide)]
      rw [hpos]
  | b :: rest, body, hb => by
    intro pre post fuel st hin hpos hf
    unfold quoteBody at hb
    cases hq : quoteByte b with
    | none => simp [hq] at hb
    | some q =>
      cases hr : quoteBody rest with
      | none => simp [hq, hr] at hb
      | some r =>
        simp [hq, hr] at hb
        subst hb
        have hsh := quoteByte_shape hq
        have ih := readLoop_quoted rest r hr
        cases fuel with
        | zero => simp at hf
        | succ f =>
          match q, hsh with
          | [c], hsh =>
            simp only [shapeOK, Bool.and_eq_true, beq_iff_eq, bne_iff_ne, ne_eq] at hsh
            obtain ⟨⟨⟨hcb, h92⟩, h34⟩, h0⟩ := hsh
            subst hcb
            have hp : peekAt st.input st.pos = c := by
              rw [hin, hpos]; exact peek_off pre _ 0 c rfl
            have hin' : ({ st with pos := st.pos + 1 } : State).input = ((pre ++ [c]) ++ (r ++ 34 :: post)).toArray := by
              simp [hin]
            have := ih (pre ++ [c]) post f { st with pos := st.pos + 1 } hin' (by simp [hpos])
              (by simp at hf; omega)
            unfold readStringLoop
            simp only [readChar_fst, readChar_snd, hp, Bool.true_and]
            rw [if_neg (by simpa using h92), if_neg (by simpa using h34), if_neg (by simpa using h0), this]
            simp only [consBuf, List.singleton_append]
            congr 2
            exact setPos_congr st (by simp; omega)
          | [c0, e], hsh =>
            simp only [shapeOK, Bool.and_eq_true, beq_iff_eq] at hsh
            obtain ⟨⟨⟨⟨hc0, hu⟩, hU⟩, hx⟩, hval⟩ := hsh
            subst hc0
            have hp0 : peekAt st.input st.pos = 92 := by
              rw [hin, hpos]; exact peek_off pre _ 0 92 rfl
            have hp1 : peekAt st.input (st.pos + 1) = e := by
              rw [hin, hpos]; exact peek_off pre _ 1 e rfl
            have hin' : ({ st with pos := st.pos + 1 + 1 } : State).input = ((pre ++ [92, e]) ++ (r ++ 34 :: post)).toArray := by
              simp [hin]
            have := ih (pre ++ [92, e]) post f { st with pos := st.pos + 1 + 1 } hin' (by simp [hpos])
              (by simp at hf; omega)
            unfold readStringLoop
            simp only [readChar_fst, readChar_snd, hp0, hp1, Bool.true_and]
            rw [if_pos (by decide), if_neg (by simpa using hu), if_neg (by simpa using hU)]
            rw [readEscape_noX e hx _ { input := #[] }]
            simp only [this, hval, consBuf, List.singleton_append]
            congr 2
            exact setPos_congr st (by simp; omega)
          | [c0, c1, h1, h2], hsh =>
            simp only [shapeOK, Bool.and_eq_true, beq_iff_eq] at hsh
            obtain ⟨⟨hc0, hc1⟩, hsh⟩ := hsh
            subst hc0 hc1
            have hp0 : peekAt st.input st.pos = 92 := by
              rw [hin, hpos]; exact peek_off pre _ 0 92 rfl
            have hp1 : peekAt st.input (st.pos + 1) = 120 := by
              rw [hin, hpos]; exact peek_off pre _ 1 120 rfl
            have hp2 : peekAt st.input (st.pos + 1 + 1) = h1 := by
              rw [hin, hpos]; exact peek_off pre _ 2 h1 rfl
            have hp3 : peekAt st.input (st.pos + 1 + 1 + 1) = h2 := by
              rw [hin, hpos]; exact peek_off pre _ 3 h2 rfl
            have hin' : ({ st with pos := st.pos + 1 + 1 + 2 } : State).input =
                ((pre ++ [92, 120, h1, h2]) ++ (r ++ 34 :: post)).toArray := by
              simp [hin]
            have := ih (pre ++ [92, 120, h1, h2]) post f { st with pos := st.pos + 1 + 1 + 2 } hin' (by simp [hpos])
              (by simp at hf; omega)
            unfold readStringLoop
            simp only [readChar_fst, readChar_snd, hp0, hp1, Bool.true_and]
            rw [if_pos (by decide), if_neg (by decide), if_neg (by decide)]
            have hre : readEscape 120 { st with pos := st.pos + 1 + 1 } = (b, { st with pos := st.pos + 1 + 1 + 2 }) := by
              unfold readEscape readHex
              simp only [readChar_fst, readChar_snd, hp2, hp3, hsh]
              rfl
            rw [hre]
            simp only [this, consBuf, List.singleton_append]
            congr 2
            exact setPos_congr st (by simp; omega)
          | [], hsh => simp [shapeOK] at hsh
          | [_, _, _], hsh => simp [shapeOK] at hsh
          | _ :: _ :: _ :: _ :: _ :: _, hsh => simp [shapeOK] at hsh

end Grol.Save

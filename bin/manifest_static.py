STATIC = {
    "version": 1,
    "setup_cmd": "bin/setup",
    "hooks": {
        "guard": "verif",
        "enable": "go build -tags verif (harness module /verif/harness with replace grol.io/grol => /repo)",
        "baseline_off_cmd": "cd /repo && GOFLAGS=-mod=mod GOPROXY=off go test -json -vet=off -count=1 -timeout 25m ./...",
        "source_commits": ["ca5f1bc"],
        "add_only": True,
    },
    "engines": [
        {"name": "lean4-model+correspondence", "path": "lean/ harness/ bin/check",
         "serves_properties": [],
         "kind_free_text": "Lean 4 executable model + kernel-checked theorems; Go harness drives the real packages in-process and the compiled Lean model on the same inputs; the property's executable statement is evaluated on the implementation's observations"},
    ],
    "notes": "See DESIGN.md. fix: commits in /repo are listed in known_findings.json (status fixed).",
}

_TB = "Trusted: Lean kernel; axioms propext/Classical.choice/Quot.sound only; the hand-written model is tied to the code by the correspondence run (generator coverage printed in the evidence); harness canonicalisation. "

LEVELS = {
    "C20": {
        "text": "Kernel-checked theorems for every insertion sequence and every query (membership = inserted non-empty words; PrefixAll = exactly the inserted words with the prefix, strictly increasing in byte order, reported length = longest common prefix; completion extends the typed text to a prefix of an inserted word), about a Lean model of trie.go that is compared with the real trie on ~45k (quick) / ~1M (thorough) histories per run.",
        "design_ref": "DESIGN.md section 7, C20",
        "note": _TB + "Modelled: trie/trie.go, repl/completion.go callback result. Not modelled: which words the REPL inserts (object.record).",
        "technique": "Lean 4 proof by structural induction (refinement of the trie to the set of inserted words) + differential correspondence run",
    },
    "C16": {
        "text": "Kernel-checked theorems for every input byte string, every lexer state and both modes, about a Lean model of lexer.go/token.go: each NextToken result is either the mode's end marker (only on a NUL byte, at the end of the input, or where an unterminated string starts) or a token that starts on the first non-whitespace byte after the previous token, consumes at least one byte and ends inside the input (progress, tiling); operator, identifier, keyword, number and block-comment literals equal the spanned bytes; strings span quote..same quote, line comments // up to the next newline/NUL/end with literal = TrimSpace(span), block comments /*..*/ or /*..NUL/end; the end marker is reached within n+1 calls and is sticky; an IDENT is never spelled like a keyword; Intern returns the same pointer iff (type, literal) are equal. Partial: pointer uniqueness over mixed streams (constants + interned) is stated (InterningStatement) and proved for the Intern calls; string literal = unescape(content) is checked by the executable statement on every case, not proved. The model is compared with the real lexer on ~150k (quick) / ~5M (thorough) inputs per run including all strings of length <=3 / <=4 over a 39-byte alphabet in both modes.",
        "design_ref": "DESIGN.md section 7, C16",
        "note": _TB + "Modelled: lexer/lexer.go and token/token.go completely (tables hand-written, compared with token.Init at run time by the suite's T case). Three defects found by the suite were repaired by fix: commits (known_findings.json); the model follows the fixed code.",
        "technique": "Lean 4 proofs by induction on loop fuel / case analysis of NextToken + exhaustive and random differential correspondence run with an independent executable statement",
    },
}

NOT_APPLICABLE = {}

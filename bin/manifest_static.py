STATIC = {
    "version": 1,
    "setup_cmd": "bin/setup",
    "hooks": {
        "guard": "verif",
        "enable": "go build -tags verif (harness module /verif/harness with replace grol.io/grol => /repo)",
        "baseline_off_cmd": "cd /repo && GOFLAGS=-mod=mod GOPROXY=off go test -json -vet=off -count=1 -timeout 25m ./...",
        "source_commits": ["ca5f1bc"],
        "add_only": True,
    },
    "engines": [
        {"name": "lean4-model+correspondence", "path": "lean/ harness/ bin/check",
         "serves_properties": [],
         "kind_free_text": "Lean 4 executable model + kernel-checked theorems; Go harness drives the real packages in-process and the compiled Lean model on the same inputs; the property's executable statement is evaluated on the implementation's observations"},
    ],
    "notes": "See DESIGN.md. fix: commits in /repo are listed in known_findings.json (status fixed).",
}

_TB = "Trusted: Lean kernel; axioms propext/Classical.choice/Quot.sound only; the hand-written model is tied to the code by the correspondence run (generator coverage printed in the evidence); harness canonicalisation. "

LEVELS = {
    "C20": {
        "text": "Kernel-checked theorems for every insertion sequence and every query (membership = inserted non-empty words; PrefixAll = exactly the inserted words with the prefix, strictly increasing in byte order, reported length = longest common prefix; completion extends the typed text to a prefix of an inserted word), about a Lean model of trie.go that is compared with the real trie on ~45k (quick) / ~1M (thorough) histories per run.",
        "design_ref": "DESIGN.md section 7, C20",
        "note": _TB + "Modelled: trie/trie.go, repl/completion.go callback result. Not modelled: which words the REPL inserts (object.record).",
        "technique": "Lean 4 proof by structural induction (refinement of the trie to the set of inserted words) + differential correspondence run",
    },
}

NOT_APPLICABLE = {}

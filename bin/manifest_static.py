STATIC = {
    "version": 1,
    "setup_cmd": "bin/setup",
    "hooks": {
        "guard": "verif",
        "enable": "go build -tags verif (harness module /verif/harness with replace grol.io/grol => /repo)",
        "baseline_off_cmd": "cd /repo && GOFLAGS=-mod=mod GOPROXY=off go test -json -vet=off -count=1 -timeout 25m ./...",
        "source_commits": ["ca5f1bc", "aa6a7c4", "e64deed", "824567c", "efa8374", "375d5fd", "ad39916", "0ba67b2", "339fbc6"],
        "add_only": True,
    },
    "engines": [
        {"name": "lean4-model+correspondence", "path": "lean/ harness/ bin/check",
         "serves_properties": [],
         "kind_free_text": "Lean 4 executable model + kernel-checked theorems; Go harness drives the real packages in-process and the compiled Lean model on the same inputs; the property's executable statement is evaluated on the implementation's observations"},
    ],
    "notes": "See DESIGN.md. fix: commits in /repo are listed in known_findings.json (status fixed).",
}

_TB_UNUSED = "Trusted: Lean kernel; axioms propext/Classical.choice/Quot.sound only; the hand-written model is tied to the code by the correspondence run (generator coverage printed in the evidence); harness canonicalisation. "

import json as _json, os as _os
LEVELS = _json.load(open(_os.path.join(_os.path.dirname(_os.path.abspath(__file__)), "levels.json")))
import props as _props
LEVELS.update(_props.LEVELS_EXTRA)

NOT_APPLICABLE = {}

STATIC = {
    "version": 1,
    "setup_cmd": "bin/setup",
    "hooks": {
        "guard": "verif",
        "enable": "go build -tags verif (harness module /verif/harness with replace grol.io/grol => /repo)",
        "baseline_off_cmd": "cd /repo && GOFLAGS=-mod=mod GOPROXY=off go test -json -vet=off -count=1 -timeout 25m ./...",
        "source_commits": ["ca5f1bc", "0dbeb05", "bf8cb9d", "5c94e8c"],
        "add_only": True,
    },
    "engines": [
        {"name": "lean4-model+correspondence", "path": "lean/ harness/ bin/check",
         "serves_properties": [],
         "kind_free_text": "Lean 4 executable model + kernel-checked theorems; Go harness drives the real packages in-process and the compiled Lean model on the same inputs; the property's executable statement is evaluated on the implementation's observations"},
    ],
    "notes": "See DESIGN.md. fix: commits in /repo are listed in known_findings.json (status fixed).",
}

_TB = "Trusted: Lean kernel; axioms propext/Classical.choice/Quot.sound only; the hand-written model is tied to the code by the correspondence run (generator coverage printed in the evidence); harness canonicalisation. "

LEVELS = {
    "C20": {
        "text": "Kernel-checked theorems for every insertion sequence and every query (membership = inserted non-empty words; PrefixAll = exactly the inserted words with the prefix, strictly increasing in byte order, reported length = longest common prefix; completion extends the typed text to a prefix of an inserted word), about a Lean model of trie.go that is compared with the real trie on ~45k (quick) / ~1M (thorough) histories per run.",
        "design_ref": "DESIGN.md section 7, C20",
        "note": _TB + "Modelled: trie/trie.go, repl/completion.go callback result. Not modelled: which words the REPL inserts (object.record).",
        "technique": "Lean 4 proof by structural induction (refinement of the trie to the set of inserted words) + differential correspondence run",
    },
}
LEVELS.update({
    "C17": {
        "text": "Kernel-checked theorems for every name and every configuration about a Lean model of sanitizeFileName: under restricted IO an accepted request names b++'.gr' with b over [A-Za-z0-9_] (hence no '/', '\\', NUL or '..': a plain file of the current directory), '.gr' in empty-only mode and without argument; acceptance is an explicit decidable predicate of name and configuration. Expectation theorems (decide) on facts regenerated from the Go sources on every run: the file-system/process API call sites are exactly the 13 classified ones; exec/run are registered only under c.UnrestrictedIOs, save/load only under c.HasSave/c.HasLoad. The model is compared with the real function on ~200k (quick) / ~5M (thorough) names and with the real file-system effects of save/load in child processes per configuration.",
        "design_ref": "DESIGN.md section 7, C17",
        "note": _TB + "The fact extractor is syntactic (go/ast): file APIs reached through function values, methods or dependencies are not seen. Host-chosen paths (script on the command line, pprof flags, wasm dev server) are classified out of scope.",
        "technique": "Lean 4 proofs (direct, list lemmas) + decide on regenerated source facts + exhaustive differential run incl. real file system",
    },
    "C18": {
        "text": "Kernel-checked theorems about a protocol model of repl.AutoSave over an abstract file system, for every old content incl. no file, every new state, every crash index with any in-flight fragment, every failing step with any kept prefix: afterwards .gr holds the complete old or the complete new version; an error return leaves the old one; a normal return installed the new one (or the save was skipped and touched nothing); no other file changes. The order of the calls in AutoSave and the writes of SaveGlobals are regenerated facts with expectation theorems. A real child process is killed at every crash point / has every write fail for states of 0-50 bindings (~350 quick / ~850 thorough runs) and .gr, the temp file and a fresh auto-load are compared with the model.",
        "design_ref": "DESIGN.md section 7, C18",
        "note": _TB + "Assumed of the OS (not proved): rename(2) atomic and completed writes durable with respect to process death; power loss/fsync outside the property. Left-over temp files after a crash or a failed save are observed, not part of the property.",
        "technique": "Lean 4 proof by induction on the step list + crash/fault injection through build-tag-guarded hooks in child processes",
    },
    "C09": {
        "text": "Arithmetic and depth part only. Kernel-checked theorems (BitVec 64 with Go wrap-around, free memory universally quantified): when the guard passes for string*int, array*int, array+array, map+map or a range, the result has exactly the true unbounded-integer size and that size fits the budget (<=256 objects or 16*count below a non-negative free); the pre-fix computation is refuted by a kernel-evaluated witness. Depth counter: along any nesting of Eval calls the counter stays within 0..MaxDepth+1, a normal return restores it, the guard fires exactly at MaxDepth+1 and Reset restores 0. Compared with the real SizeOk and the real operators on 10^5 boundary-biased cases per run plus bounded child-process runs.",
        "design_ref": "DESIGN.md section 7, C09",
        "note": _TB + "Two overflow defects found and fixed (status fixed in known_findings.json). Wall-clock time after the deadline, peak RSS and Go stack use per frame are NOT covered by this check (measured elsewhere or not yet); 64-bit int only.",
        "technique": "Lean 4 proofs (omega over BitVec.toNat/toInt; induction on the call tree) + differential run + bounded child processes",
    },
})

NOT_APPLICABLE = {}

STATIC = {
    "version": 1,
    "setup_cmd": "bin/setup",
    "hooks": {
        "guard": "verif",
        "enable": "go build -tags verif (harness module /verif/harness with replace grol.io/grol => /repo)",
        "baseline_off_cmd": "cd /repo && GOFLAGS=-mod=mod GOPROXY=off go test -json -vet=off -count=1 -timeout 25m ./...",
        "source_commits": ["ca5f1bc"],
        "add_only": True,
    },
    "engines": [
        {"name": "lean4-model+correspondence", "path": "lean/ harness/ bin/check",
         "serves_properties": [],
         "kind_free_text": "Lean 4 executable model + kernel-checked theorems; Go harness drives the real packages in-process and the compiled Lean model on the same inputs; the property's executable statement is evaluated on the implementation's observations"},
    ],
    "notes": "See DESIGN.md. fix: commits in /repo are listed in known_findings.json (status fixed).",
}

_TB = "Trusted: Lean kernel; axioms propext/Classical.choice/Quot.sound only; the hand-written model is tied to the code by the correspondence run (generator coverage printed in the evidence); harness canonicalisation. "

LEVELS = {
    "C11": {
        "text": "Kernel-checked theorems for every key type with a total-preorder comparison (C12 supplies it for Cmp), every MaxSmallMap and every history of literal construction, set, delete, +, rest and slicing: the representation invariant (strictly sorted, no two equal keys, small => len <= MaxSmallMap) is preserved, the stored pairs equal the reference finite map (a strictly sorted association list with insert/update/delete), every observation (len, lookup incl. binary search, first, pairs = iteration order/printed form/equality) is a function of that reference map, hence independent of insertion order and representation history; about a Lean model of SmallMap/BigMap compared with the real code on ~30k (quick) / ~170k (thorough) histories per run, through the API and through grol source.",
        "design_ref": "DESIGN.md section 7, C11",
        "note": _TB + "Modelled: SmallMap/BigMap methods, NewMapSize, BinarySearchFunc, the evaluator's map operations. Not modelled: storage aliasing between variables (C06), out-of-range slices (C07), Inspect of arbitrary values.",
        "technique": "Lean 4 proof by induction over the operation list (refinement of both representations to a sorted association list; binary-search correctness) + state-space BFS and random differential correspondence run",
    },
    "C12": {
        "text": "Kernel-checked theorems for all data values (any nesting of nil, booleans, int64, every float64 bit pattern, strings, errors, functions, extensions, quotes, registers, arrays, maps): Cmp never panics and returns -1/0/1, cmp b a = -cmp a b, reflexive, <= and < transitive, total, order-equivalent values interchangeable, the six operators mutually consistent, == an equivalence that implies cmp = 0 and holds for a copy, min/max return an extremal operand; about a Lean model of Cmp/Equals/operators (after two fix: commits) that is compared with the real code on all pairs of a 127-value universe built through the API and from source and on ~10^5 (quick) / ~2.4*10^6 (thorough) triples per run.",
        "design_ref": "DESIGN.md section 7, C12",
        "note": _TB + "Modelled: object.Cmp/cmpIntFloat/Equals/TypeEqual/Value(registers), cmp.Compare, evalInfixExpression comparison operators, min/max. Not modelled: Reference objects, RETURN/MACRO operands panic by design (excluded from the quantifier).",
        "technique": "Lean 4 proof (mutual structural induction over nested values; numeric order by an exact integer key value*2^1074) + differential correspondence run",
    },
    "C20": {
        "text": "Kernel-checked theorems for every insertion sequence and every query (membership = inserted non-empty words; PrefixAll = exactly the inserted words with the prefix, strictly increasing in byte order, reported length = longest common prefix; completion extends the typed text to a prefix of an inserted word), about a Lean model of trie.go that is compared with the real trie on ~45k (quick) / ~1M (thorough) histories per run.",
        "design_ref": "DESIGN.md section 7, C20",
        "note": _TB + "Modelled: trie/trie.go, repl/completion.go callback result. Not modelled: which words the REPL inserts (object.record).",
        "technique": "Lean 4 proof by structural induction (refinement of the trie to the set of inserted words) + differential correspondence run",
    },
}

NOT_APPLICABLE = {}

STATIC = {
    "version": 1,
    "setup_cmd": "bin/setup",
    "hooks": {
        "guard": "verif",
        "enable": "go build -tags verif (harness module /verif/harness with replace grol.io/grol => /repo)",
        "baseline_off_cmd": "cd /repo && GOFLAGS=-mod=mod GOPROXY=off go test -json -vet=off -count=1 -timeout 25m ./...",
        "source_commits": ["ca5f1bc"],
        "add_only": True,
    },
    "engines": [
        {"name": "lean4-model+correspondence", "path": "lean/ harness/ bin/check",
         "serves_properties": [],
         "kind_free_text": "Lean 4 executable model + kernel-checked theorems; Go harness drives the real packages in-process and the compiled Lean model on the same inputs; the property's executable statement is evaluated on the implementation's observations"},
    ],
    "notes": "See DESIGN.md. fix: commits in /repo are listed in known_findings.json (status fixed).",
}

_TB = "Trusted: Lean kernel; axioms propext/Classical.choice/Quot.sound only; the hand-written model is tied to the code by the correspondence run (generator coverage printed in the evidence); harness canonicalisation. "

LEVELS = {
    "C20": {
        "text": "Kernel-checked theorems for every insertion sequence and every query (membership = inserted non-empty words; PrefixAll = exactly the inserted words with the prefix, strictly increasing in byte order, reported length = longest common prefix; completion extends the typed text to a prefix of an inserted word), about a Lean model of trie.go that is compared with the real trie on ~45k (quick) / ~1M (thorough) histories per run.",
        "design_ref": "DESIGN.md section 7, C20",
        "note": _TB + "Modelled: trie/trie.go, repl/completion.go callback result. Not modelled: which words the REPL inserts (object.record).",
        "technique": "Lean 4 proof by structural induction (refinement of the trie to the set of inserted words) + differential correspondence run",
    },
    "C08": {
        "text": "Kernel-checked: for EVERY token stream satisfying two stated lexer facts and every fuel the parser model takes no Go-panic branch "
                "(explicit panic in parseComment, nil-node method call in okParamList, CurrentLine slicing, nil prevToken, nil ByType); a tree without "
                "missing children whose operator tokens have precedences (generated-table facts, decided) prints without panic in all modes. The model "
                "(parser + printer, 4 print modes, both lexer modes) is compared with the real code on ~215k (quick) cases per run, all agreeing.",
        "design_ref": "DESIGN.md section 7, C08",
        "note": _TB + "Partial: termination within a linear fuel bound and 'no error and no continuation => no missing child' are validated by the "
                "correspondence run only (C08.Safe is evaluated on every case), not proved. The lexer half (bytes -> token stream, StreamWF) belongs to the "
                "lexer component; until it is composed, streams come from the real lexer. Found and fixed: parser panic on `(a,*)=>1` (bfcb1a0).",
        "technique": "Lean 4 proof (Hoare-style invariant over the parser monad, simultaneous induction on fuel over 23 mutually recursive functions; "
                     "mutual induction over the nested AST for the printer) + differential correspondence run",
    },
    "C15": {
        "text": "Parts 1 and 2 are decided NEGATIVELY with kernel-evaluated witnesses on real-lexer token streams (4 recorded open findings: unclosed string after a "
                "statement, `/*/`, `()` at end of line, file mode accepting an unclosed block) and otherwise checked by the correspondence run on every "
                "token-boundary cut of generated programs and the shipped examples (~19k cases quick).",
        "design_ref": "DESIGN.md section 7, C15",
        "note": _TB + "Part 3 (chunked evaluation) is not covered here: it belongs to the evaluator/session component. The simulation proof of part 1 "
                "outside the recorded class is not done; the parser no-panic theorem of C08 applies to both modes.",
        "technique": "Lean 4 model + decide-checked refutation witnesses + differential correspondence run over all cuts",
    },
    "C02": {
        "text": "The statement is refuted on the unchanged tree by many inputs; 6 local printer defects were repaired (fix: commits f34036e f1ce590 68d7827 2933887 "
                "1907841 8c8d393) and the model follows the fixed code; 9 remaining defect classes are recorded as open findings, each delimited by a decidable "
                "predicate on the tree (lean/Grol/Classes.lean) with a replayed witness; kernel-evaluated witnesses for three of them. Every failing case of the "
                "suite (~24k cases quick, both modes, both lexer modes) must fall in a recorded class.",
        "design_ref": "DESIGN.md section 7, C02",
        "note": _TB + "Partial: the round-trip theorem on the complement of the classes (C02.Safe) is NOT proved (needs the lexer model and a Pratt-parser/printer "
                "round-trip argument); what is proved is totality of parser and printer (C08) and the witnesses.",
        "technique": "Lean 4 model of parser and printer + decide-checked refutation witnesses + differential correspondence run with known-finding classes",
    },
    "C03": {
        "text": "Fixpoint (both modes), single trailing newline and independence from the interning history are evaluated on every case of the format suite; one "
                "defect fixed (29c3ce8: block layout depended on a statement of an earlier block); 7 open classes inherited from C02. The model has no hidden state "
                "(stated as a theorem). PROVED for every tree: successful normal-mode printing ends with a newline (frame lemma over all PrettyPrint methods). Not proved: idempotence on the safe complement; that the byte before the final newline is not a newline (needs a lexer fact).",
        "design_ref": "DESIGN.md section 7, C03",
        "note": _TB + "Partial (see text). Go map iteration order cannot be exhibited by the pure model; the printer uses the Order slice.",
        "technique": "Lean 4 model + differential correspondence run (two formatting passes, interning reset every 40th case)",
    },
}

NOT_APPLICABLE = {}

"""Per-property configuration of bin/check: proof modules, audited theorems, correspondence suites."""

COMMON_TB = [
    "Lean 4.33.0 kernel (lake build; thorough tier re-checks with leanchecker)",
    "axioms allowed: propext, Classical.choice, Quot.sound (audited with #print axioms on every listed theorem)",
    "hand-written Lean model of the Go code, tied to /repo by the correspondence suite (bounded by generator coverage)",
    "Go harness canonicalisation and the Lean driver's compiled code (Lean compiler/runtime)",
]

_FRONT_RULE = ("Front-end suites: the harness runs the REAL lexer+parser+printer on each source text and sends the token stream of the real "
               "lexer with the observation; the driver recomputes the parse (errors count, continuation, canonical tree dump, no-nil flag) and all "
               "printed texts with the Lean model from that stream and compares everything; the property's statement is evaluated on the "
               "implementation's observation.")
_FRONT_TB = ["modelled: parser/parser.go (all parse functions, ErrorLine slicing condition), ast/ast.go (all PrettyPrint methods, PrintState), "
             "strconv.Quote (UTF-8 decoding + escapes; IsPrint table generated)",
             "generated on every run: token.Type enumeration, ast.Precedences, ast.Priority, parser.New registrations, constant-token literals",
             "not modelled here: lexer (its token stream is an input), error message wording, Val fields of number literals (function of the literal)"]

PROPS = {
    "C20": {
        "proof_modules": ["GrolProofs.Props.C20"],
        "theorems": ["Grol.Trie.C20.contains_iff", "Grol.Trie.C20.prefixAll_spec", "Grol.Trie.C20.complete_sound",
                     "Grol.Trie.allBytes_spec", "Grol.Trie.wf_build", "Grol.Trie.contains_foldl_insert"],
        "suites": ["trie"],
        "rule": "trie suite: every case is an insertion history (ordered list of words) plus one query; exhaustive families = all "
                "ordered sequences of <=4 (quick) / <=5 (thorough) distinct words from the words of length <=2 over {a,b} (and {a,0x00,0xff}, "
                "{a,0xff}, {a,b,0xff}) incl. the empty word x all queries of length <=3; all subsets of the 14 words of length <=3 over {a,b} "
                "in sorted and reverse order; random histories of up to 7 words of length <=6 with forced prefix/extension relations. "
                "non-trivial = history inserts at least one word; distinct = distinct (history, query) line.",
        "trusted_base": COMMON_TB + ["modelled: trie/trie.go (Insert, Prefix, Contains, IsValid, PrefixAll, All, AllBytes), "
                                     "repl/completion.go autoCompleteCallback (returned line only; terminal output not modelled)",
                                     "not modelled: object.record / RegisterTrie (which words the REPL inserts)"],
        "assumptions": ["Go pointer sharing of the end marker is unobservable (Insert never descends into it; shown by the model's case split and exercised by the suite)"],
    },
    "C08": {
        "generated": True,
        "proof_modules": ["GrolProofs.Props.C08", "GrolProofs.Precedence"],
        "theorems": ["Grol.C08.parser_never_panics", "Grol.C08.printer_never_panics", "Grol.C08.partial",
                     "Grol.Parser.parseProgram_no_panic", "Grol.Parser.allSafe", "Grol.Parser.streamWF_of_b",
                     "Grol.Printer.printProgram_no_panic", "Grol.Printer.infix_tokens_have_precedence",
                     "Grol.Printer.index_tokens_have_precedence", "Grol.Printer.postfix_tokens_have_precedence",
                     "Grol.Printer.expected_tokens_are_constant", "Grol.Parser.parseComment_regs",
                     "Grol.Generated.precedences_documented", "Grol.Generated.priorities_documented",
                     "Grol.Generated.prefix_registrations_expected", "Grol.Generated.infix_registrations_expected",
                     "Grol.Generated.postfix_registrations_expected"],
        "suites": ["parse"],
        "rule": _FRONT_RULE + " parse suite: one case = one source text, parsed in file mode AND line mode, each tree printed in 4 modes "
                "(normal, compact, all-parens, compact+all-parens) under recover. Families: all sequences of <=2 tokens of a 52-token alphabet "
                "and all sequences of 3 tokens of a 31-token alphabet (quick; thorough: 3 of 52, 4 of 31), each rendered with and without "
                "separating spaces; 33 grammar templates with 2-3 holes filled exhaustively/sampled; random token soups; grammar-generated "
                "programs; every-byte / sampled truncations and byte mutations (NUL, 0x80-0xFF, delimiters) of examples/*.gr and tests/*.gr. "
                "The statement also checks, on the real lexer's streams, the two lexer facts (StreamWF) the no-panic theorem assumes. "
                "non-trivial = non-empty tree, an error or a continuation; distinct = distinct source text.",
        "trusted_base": COMMON_TB + _FRONT_TB,
        "assumptions": ["token streams are produced by the real lexer (lexer model composed later); the two facts about them that the "
                        "parser theorem needs (StreamWF: lastNewLine <= min(pos,len); a line comment is followed by a newline or the end marker) "
                        "are evaluated on every stream of every case",
                        "strconv.ParseInt/ParseFloat acceptance of a number literal is carried with the token (NumClass), computed by the same library calls"],
    },
    "C15": {
        "generated": True,
        "proof_modules": ["GrolProofs.Props.C15", "GrolProofs.Props.C08"],
        "theorems": ["Grol.C15.witness_unclosed_string_after_statement", "Grol.C15.witness_empty_lambda_parameter_list",
                     "Grol.C15.witness_unclosed_comment_ending_in_star_slash", "Grol.C15.witness_file_mode_accepts_unclosed_block",
                     "Grol.C08.parser_never_panics"],
        "suites": ["parse15"],
        "rule": _FRONT_RULE + " parse15 suite: grammar-generated valid programs (1-3 statements, depth <=3) and the shipped examples; for each, "
                "EVERY token-boundary cut, the cut just before the closing quote of every string and 5 cuts inside every block comment "
                "(case `<program>@<k>`: line mode on the prefix; hypothesis of part 2 decided by Front.cutKind on the file-mode stream of the "
                "whole program), plus the whole program and a quarter of the prefixes as plain cases for part 1. Part 3 (chunked evaluation) is not covered here.",
        "trusted_base": COMMON_TB + _FRONT_TB,
        "assumptions": ["as C08"],
    },
    "C02": {
        "generated": True,
        "proof_modules": ["GrolProofs.Props.C02", "GrolProofs.Props.C08", "GrolProofs.Precedence"],
        "theorems": ["Grol.C02.witness_statement_starts_with_prefix_operator", "Grol.C02.witness_compact_adjacent_statements",
                     "Grol.C02.witness_repeated_associative_operator", "Grol.C08.parser_never_panics", "Grol.C08.printer_never_panics",
                     "Grol.Generated.precedences_documented"],
        "suites": ["format"],
        "rule": _FRONT_RULE + " format suite: one case = one source text; in file mode and in line mode: parse, print (normal, compact, "
                "all-parens, compact+all-parens), re-parse the normal and the compact text, print again. Families: every ordered pair of the 20 infix "
                "operators in parent/left-child and parent/right-child position, x 7 prefix and 2 postfix operators, index/call/dot/lambda "
                "combinations (~40 templates per operator); ~330 hand-picked adjacency, comment, literal and lambda cases; every ordered pair of 41 "
                "statement kinds x 4 separators, at top level and in a block; grammar-generated programs with all literal forms and strings over "
                "arbitrary bytes/runes; the shipped examples and byte mutations. Tree equality ignores the two layout flags of comments, and "
                "statement-level comments in compact mode. non-trivial = error-free non-empty program.",
        "trusted_base": COMMON_TB + _FRONT_TB,
        "assumptions": ["as C08", "strconv.IsPrint for runes >= 0x80 is a generated table (lean/Grol/Generated/IsPrint.lean)"],
    },
    "C03": {
        "generated": True,
        "proof_modules": ["GrolProofs.Props.C03", "GrolProofs.Props.C08"],
        "theorems": ["Grol.C03.ends_with_newline", "Grol.Printer.printNode_frame", "Grol.C03.model_is_stateless",
                     "Grol.C03.witness_not_idempotent", "Grol.C08.printer_never_panics"],
        "suites": ["format03"],
        "rule": _FRONT_RULE + " format03 suite: same cases as the format suite; statement = second-pass text byte-identical to the first "
                "(normal and compact), normal text ends with exactly one newline, and (every 40th case) same bytes after token.Init() reset the "
                "interning table. Map iteration order cannot be exhibited by the pure model (Order slice is what is printed).",
        "trusted_base": COMMON_TB + _FRONT_TB,
        "assumptions": ["as C02"],
    },
}

"""Per-property configuration of bin/check: proof modules, audited theorems, correspondence suites."""

COMMON_TB = [
    "Lean 4.33.0 kernel (lake build; thorough tier re-checks with leanchecker)",
    "axioms allowed: propext, Classical.choice, Quot.sound (audited with #print axioms on every listed theorem)",
    "hand-written Lean model of the Go code, tied to /repo by the correspondence suite (bounded by generator coverage)",
    "Go harness canonicalisation and the Lean driver's compiled code (Lean compiler/runtime)",
]

PROPS = {
    "C11": {
        "proof_modules": ["GrolProofs.Props.C11"],
        "theorems": ["Grol.Map.C11.run_refines", "Grol.Map.C11.observations", "Grol.Map.C11.history_independent", "Grol.Map.C11.get_set",
                     "Grol.Map.C11.get_delete", "Grol.Map.C11.set_comm", "Grol.Map.C11.grol", "Grol.Map.bsearch_eq", "Grol.Map.smallGet_eq",
                     "Grol.Map.specGet_spec", "Grol.Map.set_spec", "Grol.Map.delete_spec", "Grol.Map.append_spec", "Grol.Map.literal_spec",
                     "Grol.Map.rest_spec", "Grol.Map.range_spec", "Grol.Map.sorted_insert", "Grol.Map.lookup_insert", "Grol.Map.lookup_erase",
                     "Grol.Map.insert_comm", "Grol.Obj.cmpD_PW"],
        "suites": ["mapops"],
        "rule": "mapops suite: every case is a whole history (literal construction, m[k]=v, del(m[k]), m+{..}, m=rest(m), m=m[lo:hi]) run "
                "twice, through the object.Map API (mode A) and as grol source statements (mode S); observation after the last operation: "
                "len, representation (SmallMap/*BigMap), the stored pairs in order, lookup of every universe key, Inspect(), first(), and == "
                "both ways against the map rebuilt from the pairs in reverse order. Families: all ordered selections of <=3 of 7 mixed-type "
                "keys (1, 1.0, 1.5, \"a\", true, nil, [1]; 1 and 1.0 are the same key) and all orders of two 5-key sets as literals; BFS of "
                "the reachable state space (state = representation + pairs) from 5 start literals over ~45 operations per state (14 sets, 7 "
                "deletes, rest, up to 11 slices, 7 merges), quick: first 350 states, thorough: the whole space (fixpoint reached, ~1.9k states); "
                "40 (quick) / 400 (thorough) seeded random histories of 20-60 operations over a 20-key universe, every prefix a case. "
                "The statement compares every observation except the representation with the reference finite map (Spec) run on the same "
                "history. non-trivial = non-empty history.",
        "trusted_base": COMMON_TB + ["modelled: object/object.go SmallMap/BigMap get, Get, Set, Delete, Len, First, Rest, Range, Append, mapElements, NewMapSize, "
                                     "slices.BinarySearchFunc, slices.Insert; eval.go evalMapLiteral, the map cases of index assignment, deleteMapEntry, "
                                     "evalMapInfixExpression (+), evalIndexRangeExpression (in-range bounds); key comparison = the C12 model of Cmp "
                                     "(cmpD: Cmp itself on data values)",
                                     "not modelled: Inspect() of arbitrary values (the driver has a formatter for nil, booleans, ints, printable strings, "
                                     "arrays, maps and floats that are multiples of 1/8; otherwise the printed form is taken from the implementation), "
                                     "aliasing of *BigMap storage between variables (single-owner histories only; C06), out-of-range slice bounds (C07), "
                                     "keys that are not data values (RETURN/MACRO objects)"],
        "assumptions": ["single-owner use of map values (each history owns its map)"],
        "exhaustive_note": "thorough tier: BFS reaches the fixpoint of the 7-key x 2-value state space",
    },
    "C12": {
        "proof_modules": ["GrolProofs.Props.C12"],
        "theorems": ["Grol.Obj.C12.no_panic", "Grol.Obj.C12.refl", "Grol.Obj.C12.antisymm", "Grol.Obj.C12.total", "Grol.Obj.C12.trans",
                     "Grol.Obj.C12.lt_trans", "Grol.Obj.C12.operators", "Grol.Obj.C12.equals_cmp", "Grol.Obj.C12.equals_symm",
                     "Grol.Obj.C12.equals_trans", "Grol.Obj.C12.cmp_congr", "Grol.Obj.C12.min_max",
                     "Grol.Obj.C12.legacy_int_float_not_transitive", "Grol.Obj.cmpI_PW", "Grol.Obj.cmp_eq", "Grol.Obj.cmpIntFloat_eq"],
        "suites": ["cmp"],
        "rule": "cmp suite: a curated universe of 127 values (ints around +-2^53, 2^63-2^10.., min/max int64; floats -0, +0, three NaN patterns, "
                "+-Inf, 2^53, 2^53+2, +-2^63, subnormals, 0.1, x.5 near 2^52; nil, booleans, strings incl. empty/NUL/non-UTF8, errors, "
                "functions, extensions, quotes, registers, RETURN/MACRO objects (panic branches), empty/equal-length/nested/large arrays and maps) "
                "plus 40 (quick) / 150 (thorough) seeded random nested values. V lines: the value evaluated from its grol source renders "
                "like the value built through the object API. P lines: every unordered pair of the universe (and sampled pairs with "
                "random values): object.Cmp both ways and on itself, object.Equals both ways and against an independently built copy, "
                "and `< <= > >= == !=` both ways plus min/max evaluated from grol source. T lines: triples (quick: a quarter of all "
                "numeric triples + 60k random triples + all triples inside every window of 4 neighbours in the implementation's own order; thorough: all ~2.1M triples of the universe + 300k random + windows) with Cmp/Equals on "
                "(a,b),(b,c),(a,c). The driver recomputes everything with the model and evaluates the order axioms on the "
                "implementation's results. non-trivial = all operands are data values (no RETURN/MACRO object).",
        "trusted_base": COMMON_TB + ["modelled: object/object.go Cmp, cmpIntFloat, Equals, TypeEqual, IsIntType, areIntFloat, Value (registers), "
                                     "Go's cmp.Compare on int64/string/float64, math.Trunc and int64(float64) on the exact value of a binary64; "
                                     "eval/eval.go evalInfixExpression (== != < <= > >=); extensions min/max incl. applyExtension's expansion of a last array argument",
                                     "not modelled: Reference objects (Eval dereferences them before operators and containers see them) and "
                                     "Value()'s 'Too many references'/'Self reference' panics; the evaluator that builds values from source "
                                     "(V lines compare its result with the API-built value)"],
        "assumptions": ["IEEE-754 binary64 semantics of Go's float64 comparison, math.Trunc and int64() conversion (the model computes them exactly from the bit pattern)"],
        "exhaustive_note": "all pairs of the curated universe; thorough tier: all triples",
    },
    "C20": {
        "proof_modules": ["GrolProofs.Props.C20"],
        "theorems": ["Grol.Trie.C20.contains_iff", "Grol.Trie.C20.prefixAll_spec", "Grol.Trie.C20.complete_sound",
                     "Grol.Trie.allBytes_spec", "Grol.Trie.wf_build", "Grol.Trie.contains_foldl_insert"],
        "suites": ["trie"],
        "rule": "trie suite: every case is an insertion history (ordered list of words) plus one query; exhaustive families = all "
                "ordered sequences of <=4 (quick) / <=5 (thorough) distinct words from the words of length <=2 over {a,b} (and {a,0x00,0xff}, "
                "{a,0xff}, {a,b,0xff}) incl. the empty word x all queries of length <=3; all subsets of the 14 words of length <=3 over {a,b} "
                "in sorted and reverse order; random histories of up to 7 words of length <=6 with forced prefix/extension relations. "
                "non-trivial = history inserts at least one word; distinct = distinct (history, query) line.",
        "trusted_base": COMMON_TB + ["modelled: trie/trie.go (Insert, Prefix, Contains, IsValid, PrefixAll, All, AllBytes), "
                                     "repl/completion.go autoCompleteCallback (returned line only; terminal output not modelled)",
                                     "not modelled: object.record / RegisterTrie (which words the REPL inserts)"],
        "assumptions": ["Go pointer sharing of the end marker is unobservable (Insert never descends into it; shown by the model's case split and exercised by the suite)"],
    },
}

"""Per-property configuration of bin/check: proof modules, audited theorems, correspondence suites."""

COMMON_TB = [
    "Lean 4.33.0 kernel (lake build; thorough tier re-checks with leanchecker)",
    "axioms allowed: propext, Classical.choice, Quot.sound (audited with #print axioms on every listed theorem)",
    "hand-written Lean model of the Go code, tied to /repo by the correspondence suite (bounded by generator coverage)",
    "Go harness canonicalisation and the Lean driver's compiled code (Lean compiler/runtime)",
]

PROPS = {
    "C20": {
        "proof_modules": ["GrolProofs.Props.C20"],
        "theorems": ["Grol.Trie.C20.contains_iff", "Grol.Trie.C20.prefixAll_spec", "Grol.Trie.C20.complete_sound",
                     "Grol.Trie.allBytes_spec", "Grol.Trie.wf_build", "Grol.Trie.contains_foldl_insert"],
        "suites": ["trie"],
        "rule": "trie suite: every case is an insertion history (ordered list of words) plus one query; exhaustive families = all "
                "ordered sequences of <=4 (quick) / <=5 (thorough) distinct words from the words of length <=2 over {a,b} (and {a,0x00,0xff}, "
                "{a,0xff}, {a,b,0xff}) incl. the empty word x all queries of length <=3; all subsets of the 14 words of length <=3 over {a,b} "
                "in sorted and reverse order; random histories of up to 7 words of length <=6 with forced prefix/extension relations. "
                "non-trivial = history inserts at least one word; distinct = distinct (history, query) line.",
        "trusted_base": COMMON_TB + ["modelled: trie/trie.go (Insert, Prefix, Contains, IsValid, PrefixAll, All, AllBytes), "
                                     "repl/completion.go autoCompleteCallback (returned line only; terminal output not modelled)",
                                     "not modelled: object.record / RegisterTrie (which words the REPL inserts)"],
        "assumptions": ["Go pointer sharing of the end marker is unobservable (Insert never descends into it; shown by the model's case split and exercised by the suite)"],
    },
    "C16": {
        "proof_modules": ["GrolProofs.Props.C16"],
        "theorems": ["Grol.Lexer.C16.cases", "Grol.Lexer.C16.progress", "Grol.Lexer.C16.tiling", "Grol.Lexer.C16.flags",
                     "Grol.Lexer.C16.literal_span", "Grol.Lexer.C16.string_span", "Grol.Lexer.C16.linecomment_span",
                     "Grol.Lexer.C16.blockcomment_span", "Grol.Lexer.C16.no_nil_no_panic", "Grol.Lexer.C16.sticky_step",
                     "Grol.Lexer.C16.sticky", "Grol.Lexer.C16.marker_within", "Grol.Lexer.C16.monotone",
                     "Grol.Lexer.C16.lookupIdent_keyword", "Grol.Lexer.C16.keywords_never_ident",
                     "Grol.Lexer.C16.intern_unique", "Grol.Lexer.C16.interning_partial", "Grol.Lexer.C16.next_wf",
                     "Grol.Lexer.C16.initTable_nodup", "Grol.Lexer.resolve_den", "Grol.Lexer.nextCore_spec", "Grol.Lexer.readStringLoop_spec",
                     "Grol.Lexer.blockLoop_spec", "Grol.Lexer.readNumber_spec", "Grol.Lexer.skipWhitespace_spec"],
        "suites": ["lex"],
        "rule": "lex suite: every case is one byte string in one lexer mode (f = lexer.NewBytes, l = lexer.NewLineMode); the observation is "
                "every NextToken call up to the first end marker plus 3 more calls (type, literal, Pos before/after, HadWhitespace, "
                "HadNewline, pointer identity numbered by first appearance, LastNewLine, line number) and CurrentLine at the end. "
                "Families: one dump of the token tables (type names, keywords, cTokens, c2Tokens, pointer identities); hand-picked neighbours "
                "of the three repaired defects; exhaustive = all strings of length <=3 (quick) / <=4 (thorough) over the 39-byte alphabet "
                "0 1 9 a e E x b _ n u U f i . + - \" ` \\ / * = ! : < > & | ( { space \\n \\t \\r NUL 0x80 0xc2 0xa0, both modes; "
                "20k (quick) / 300k (thorough) random strings (alphabet soup, token-fragment soup, uniform bytes); every examples/*.gr and "
                "tests/*.gr whole in both modes plus 12 (quick) / 150 (thorough) windows of each with up to 3 byte mutations. "
                "non-trivial = at least one token before the end marker; distinct = distinct (mode, input) line.",
        "exhaustive_note": "strings of length <=3 (quick) / <=4 (thorough) over the 39-byte significant alphabet, both modes, are enumerated completely",
        "trusted_base": COMMON_TB + ["modelled: lexer/lexer.go (all of it: NextToken, skipWhitespace, readChar/peekChar past the end, readNumber, "
                                     "readIdentifier, readString with readHex/readUnicode16/32 and utf8.AppendRune, readLineComment with "
                                     "strings.TrimSpace, readBlockComment, CurrentLine, both modes), token/token.go (types, Init tables, "
                                     "LookupIdent, ConstantTokenChar(2), Intern/InternToken as an explicit table)",
                                     "token tables in lean/Grol/Token.lean are hand-written and compared with the running code by the `T;-` case of the suite "
                                     "(Type.String() names in iota order, LookupIdent of every lower-cased name, all 256 ConstantTokenChar, all 65536 ConstantTokenChar2)",
                                     "the executable statement (Grol.LexSuite.statement) is an independent specification (own escape decoder, UTF-8 encoder, "
                                     "space-rune table, block-comment scanner); the theorems are about the model; the link statement<->theorems is by reading, "
                                     "and both are evaluated on the same cases"],
        "assumptions": ["Go's strings.TrimSpace / unicode.IsSpace / utf8.AppendRune behave as documented (modelled by trimSpaceRight / appendRune, compared on every comment and \\u escape the generators produce)",
                        "the interning map of the running process may already hold keys from earlier cases; pointer identities are compared only within one case, numbered by first appearance"],
    },
}

"""Per-property configuration of bin/check: proof modules, audited theorems, correspondence suites."""

COMMON_TB = [
    "Lean 4.33.0 kernel (lake build; thorough tier re-checks with leanchecker)",
    "axioms allowed: propext, Classical.choice, Quot.sound (audited with #print axioms on every listed theorem)",
    "hand-written Lean model of the Go code, tied to /repo by the correspondence suite (bounded by generator coverage)",
    "Go harness canonicalisation and the Lean driver's compiled code (Lean compiler/runtime)",
]

PROPS = {
    "C20": {
        "proof_modules": ["GrolProofs.Props.C20"],
        "theorems": ["Grol.Trie.C20.contains_iff", "Grol.Trie.C20.prefixAll_spec", "Grol.Trie.C20.complete_sound",
                     "Grol.Trie.allBytes_spec", "Grol.Trie.wf_build", "Grol.Trie.contains_foldl_insert"],
        "suites": ["trie"],
        "rule": "trie suite: every case is an insertion history (ordered list of words) plus one query; exhaustive families = all "
                "ordered sequences of <=4 (quick) / <=5 (thorough) distinct words from the words of length <=2 over {a,b} (and {a,0x00,0xff}, "
                "{a,0xff}, {a,b,0xff}) incl. the empty word x all queries of length <=3; all subsets of the 14 words of length <=3 over {a,b} "
                "in sorted and reverse order; random histories of up to 7 words of length <=6 with forced prefix/extension relations. "
                "non-trivial = history inserts at least one word; distinct = distinct (history, query) line.",
        "trusted_base": COMMON_TB + ["modelled: trie/trie.go (Insert, Prefix, Contains, IsValid, PrefixAll, All, AllBytes), "
                                     "repl/completion.go autoCompleteCallback (returned line only; terminal output not modelled)",
                                     "not modelled: object.record / RegisterTrie (which words the REPL inserts)"],
        "assumptions": ["Go pointer sharing of the end marker is unobservable (Insert never descends into it; shown by the model's case split and exercised by the suite)"],
    },
    "C08": {
        "generated": True,
        "proof_modules": [],
        "theorems": [],
        "suites": ["parse"],
        "rule": "TBD",
        "trusted_base": COMMON_TB,
        "assumptions": [],
    },
    "C15": {
        "generated": True,
        "proof_modules": [],
        "theorems": [],
        "suites": ["parse15"],
        "rule": "TBD",
        "trusted_base": COMMON_TB,
        "assumptions": [],
    },
    "C02": {
        "generated": True,
        "proof_modules": [],
        "theorems": [],
        "suites": ["format"],
        "rule": "TBD",
        "trusted_base": COMMON_TB,
        "assumptions": [],
    },
    "C03": {
        "generated": True,
        "proof_modules": [],
        "theorems": [],
        "suites": ["format03"],
        "rule": "TBD",
        "trusted_base": COMMON_TB,
        "assumptions": [],
    },
}

"""Per-property configuration of bin/check: proof modules, audited theorems, correspondence suites."""

COMMON_TB = [
    "Lean 4.33.0 kernel (lake build; thorough tier re-checks with leanchecker)",
    "axioms allowed: propext, Classical.choice, Quot.sound (audited with #print axioms on every listed theorem)",
    "hand-written Lean model of the Go code, tied to /repo by the correspondence suite (bounded by generator coverage)",
    "Go harness canonicalisation and the Lean driver's compiled code (Lean compiler/runtime)",
]

EVAL_RULE = ("eval suite: every case is a session (1..11 inputs on one persistent eval.State) generated from a typed grammar "
             "(ints with boundary values, floats, bools, strings, arrays, maps, named functions/lambdas/closures, recursion, if/else, all for forms "
             "with break/continue/return, = and :=, ++/--, negative indices, slices, every operator rendered with minimal parentheses, print/println), "
             "run under 4 configurations (cache on/off x registers on/off) through the real lexer, parser and evaluator; the Lean evaluator model runs the "
             "same parsed programs with cache on and off. Families of the gap analysis (evalfam4.go, evalfam5.go; 60 sessions of each per run, thorough 1500): "
             "closures (instances of ONE closure text calling each other, chains, counters, currying, higher-order helpers, closures over loop variables, mutual "
             "recursion), scoping (= / := / ++ through references on three levels), containers on both sides of the thresholds (literals, ranges, *, +, negative and "
             "out-of-range indices and slice bounds, single-owner growth and shrinking), variadics, error()/catch() at every position, control flow (else-if, nested loop "
             "forms with every exit at depth, degenerate bounds), strings (bytes vs runes); for C05 also famRegs3 (0..12 parameters with nested counted loops, computed "
             "bounds, escaping loop variables, 20..50 top-level loops), for C07 famOpKinds (every operator / ~55 node shapes x 30 operand kinds x 3 renderings). "
             "non-trivial = at least one input parses; distinct = distinct case line.")
EVAL_TB = COMMON_TB + ["modelled: eval/eval.go (all of evalInternal and helpers except pipe/log/quote/extension callbacks), eval/eval_api.go Eval, eval/memo.go, "
                       "object/state.go (Get, makeRef, SetNoChecks, CreateOrSet, create, update, Delete, TriggerNoCache), object/object.go "
                       "(Cmp, Equals, Inspect for non-float data, Hashable, First, Rest, Len, map primitives)",
                       "model deviations by design: containers have value semantics (a program mutating a large array/map in place is declined), "
                       "integer registers are not modelled (the model is the -no-register configuration), float formatting/math.Mod/extensions/"
                       "grol-defined root helpers are declined (counted as unmodelled in the evidence)",
                       "the parser's tree and each function literal's cache key are taken from the real parser/printer (inputs of the model)"]
EVAL_ASSUME = ["Lean's native Float (IEEE double, same hardware operations as Go on amd64) in the driver",
               "a case the model declines is not a disagreement; the cross-configuration statements are still evaluated on it"]
_FRONT_RULE = ("Front-end suites: the harness runs the REAL lexer+parser+printer on each source text and sends the token stream of the real "
               "lexer with the observation; the driver recomputes the parse (errors count, continuation, canonical tree dump, no-nil flag) and all "
               "printed texts with the Lean model from that stream and compares everything; the property's statement is evaluated on the "
               "implementation's observation.")
_FRONT_TB = ["modelled: parser/parser.go (all parse functions, ErrorLine slicing condition), ast/ast.go (all PrettyPrint methods, PrintState), "
             "strconv.Quote (UTF-8 decoding + escapes; IsPrint table generated)",
             "generated on every run: token.Type enumeration, ast.Precedences, ast.Priority, parser.New registrations, constant-token literals",
             "not modelled here: lexer (its token stream is an input), error message wording, Val fields of number literals (function of the literal)"]

PROPS = {
    "C11": {
        "proof_modules": ["GrolProofs.Props.C11"],
        "theorems": ["Grol.Map.C11.run_refines", "Grol.Map.C11.observations", "Grol.Map.C11.history_independent", "Grol.Map.C11.get_set",
                     "Grol.Map.C11.get_delete", "Grol.Map.C11.set_comm", "Grol.Map.C11.grol", "Grol.Map.bsearch_eq", "Grol.Map.smallGet_eq",
                     "Grol.Map.specGet_spec", "Grol.Map.set_spec", "Grol.Map.delete_spec", "Grol.Map.append_spec", "Grol.Map.literal_spec",
                     "Grol.Map.rest_spec", "Grol.Map.range_spec", "Grol.Map.sorted_insert", "Grol.Map.lookup_insert", "Grol.Map.lookup_erase",
                     "Grol.Map.insert_comm", "Grol.Obj.cmpD_PW"],
        "suites": ["mapops"],
        "rule": "[4th session: in both modes the OPERAND of every rest / range / + is kept and must be unchanged after every later operation on the result.] mapops suite: every case is a whole history (literal construction, m[k]=v, del(m[k]), m+{..}, m=rest(m), m=m[lo:hi]) run "
                "twice, through the object.Map API (mode A) and as grol source statements (mode S); observation after the last operation: "
                "len, representation (SmallMap/*BigMap), the stored pairs in order, lookup of every universe key, Inspect(), first(), and == "
                "both ways against the map rebuilt from the pairs in reverse order. Families: all ordered selections of <=3 of 7 mixed-type "
                "keys (1, 1.0, 1.5, \"a\", true, nil, [1]; 1 and 1.0 are the same key) and all orders of two 5-key sets as literals; BFS of "
                "the reachable state space (state = representation + pairs) from 5 start literals over ~45 operations per state (14 sets, 7 "
                "deletes, rest, up to 11 slices, 7 merges), quick: first 350 states, thorough: the whole space (fixpoint reached, ~1.9k states); "
                "40 (quick) / 400 (thorough) seeded random histories of 20-60 operations over a 20-key universe, every prefix a case. "
                "Mode I (60 / 800 random histories of 8-37 operations through grol source, every prefix a case; harness/cmd/harness/mapops_iter.go): the same "
                "operations plus slices with bounds as written (negative = from the end, open upper bound, out of range, left > right = error), m.k = v and del(m.k); "
                "universe of 25 keys: identifiers, \"\", \"a b\", 0 / 0.0 / -0.0 and 1 / 1.0 (one key each), 1.5, -1, 2^53+1 next to 2^53.0 and 2^53, NaN, true, false, nil, "
                "[], [1], [1,[1.0]], a map; values incl. maps and arrays; observation: ITERATION ORDER three ways (keys(m), a `for kv := m` loop, repeated first/rest), m.k "
                "for the identifier keys, and ==, != (both ways) against three perturbed copies (one value replaced, last pair dropped, one key added: never equal). "
                "The statement compares every observation except the representation with the reference finite map (Spec) run on the same "
                "history. non-trivial = non-empty history.",
        "trusted_base": COMMON_TB + ["modelled: object/object.go SmallMap/BigMap get, Get, Set, Delete, Len, First, Rest, Range, Append, mapElements, NewMapSize, "
                                     "slices.BinarySearchFunc, slices.Insert; eval.go evalMapLiteral, the map cases of index assignment, deleteMapEntry, "
                                     "evalMapInfixExpression (+), evalIndexRangeExpression (in-range bounds); key comparison = the C12 model of Cmp "
                                     "(cmpD: Cmp itself on data values)",
                                     "not modelled: Inspect() of arbitrary values (the driver has a formatter for nil, booleans, ints, printable strings, "
                                     "arrays, maps and floats that are multiples of 1/8; otherwise the printed form is taken from the implementation), "
                                     "aliasing of *BigMap storage between variables (single-owner histories only; C06), out-of-range slice bounds (C07), "
                                     "keys that are not data values (RETURN/MACRO objects)"],
        "assumptions": ["single-owner use of map values (each history owns its map)"],
        "exhaustive_note": "thorough tier: BFS reaches the fixpoint of the 7-key x 2-value state space",
    },
    "C12": {
        "proof_modules": ["GrolProofs.Props.C12"],
        "theorems": ["Grol.Obj.C12.no_panic", "Grol.Obj.C12.refl", "Grol.Obj.C12.antisymm", "Grol.Obj.C12.total", "Grol.Obj.C12.trans",
                     "Grol.Obj.C12.lt_trans", "Grol.Obj.C12.operators", "Grol.Obj.C12.equals_cmp", "Grol.Obj.C12.equals_symm",
                     "Grol.Obj.C12.equals_trans", "Grol.Obj.C12.cmp_congr", "Grol.Obj.C12.min_max",
                     "Grol.Obj.C12.legacy_int_float_not_transitive", "Grol.Obj.cmpI_PW", "Grol.Obj.cmp_eq", "Grol.Obj.cmpIntFloat_eq"],
        "suites": ["cmp"],
        "rule": "cmp suite: a curated universe of 127 values (ints around +-2^53, 2^63-2^10.., min/max int64; floats -0, +0, three NaN patterns, "
                "+-Inf, 2^53, 2^53+2, +-2^63, subnormals, 0.1, x.5 near 2^52; nil, booleans, strings incl. empty/NUL/non-UTF8, errors, "
                "functions, extensions, quotes, registers, RETURN/MACRO objects (panic branches), empty/equal-length/nested/large arrays and maps) "
                "plus 40 (quick) / 150 (thorough) seeded random nested values. V lines: the value evaluated from its grol source renders "
                "like the value built through the object API. P lines: every unordered pair of the universe (and sampled pairs with "
                "random values): object.Cmp both ways and on itself, object.Equals both ways and against an independently built copy, "
                "and `< <= > >= == !=` both ways plus min/max evaluated from grol source. T lines: triples (quick: a quarter of all "
                "numeric triples + 60k random triples + all triples inside every window of 4 neighbours in the implementation's own order; thorough: all ~2.1M triples of the universe + 300k random + windows) with Cmp/Equals on "
                "(a,b),(b,c),(a,c). O lines (403 / 6003): SORTING - sort.Sort on an object.BigArray (BigArray.Less, the only sorting in grol) of 9-48 values drawn from the "
                "numbers, from all data values, or from a sub-universe of 2-5 values (many equivalent ones): the result must hold exactly the given values and be in "
                "`<=` order (the model's insertion sort agrees up to the order of equivalent values). N lines (1500 / 20000): min and max of 3-6 values from grol source: the result is "
                "one of the arguments and no argument is smaller / larger. The driver recomputes everything with the model and evaluates the order axioms on the "
                "implementation's results. non-trivial = all operands are data values (no RETURN/MACRO object).",
        "trusted_base": COMMON_TB + ["modelled: object/object.go Cmp, cmpIntFloat, Equals, TypeEqual, IsIntType, areIntFloat, Value (registers), "
                                     "Go's cmp.Compare on int64/string/float64, math.Trunc and int64(float64) on the exact value of a binary64; "
                                     "eval/eval.go evalInfixExpression (== != < <= > >=); extensions min/max incl. applyExtension's expansion of a last array argument",
                                     "not modelled: Reference objects (Eval dereferences them before operators and containers see them) and "
                                     "Value()'s 'Too many references'/'Self reference' panics; the evaluator that builds values from source "
                                     "(V lines compare its result with the API-built value)"],
        "assumptions": ["IEEE-754 binary64 semantics of Go's float64 comparison, math.Trunc and int64() conversion (the model computes them exactly from the bit pattern)"],
        "exhaustive_note": "all pairs of the curated universe; thorough tier: all triples",
    },
    "C20": {
        "proof_modules": ["GrolProofs.Props.C20"],
        "theorems": ["Grol.Trie.C20.contains_iff", "Grol.Trie.C20.prefixAll_spec", "Grol.Trie.C20.complete_sound",
                     "Grol.Trie.C20.complete_sound_at_end", "Grol.Trie.allBytes_spec", "Grol.Trie.wf_build", "Grol.Trie.contains_foldl_insert"],
        "suites": ["trie"],
        "rule": "trie suite: every case is an insertion history (ordered list of words) plus one query; exhaustive families = all "
                "ordered sequences of <=4 (quick) / <=5 (thorough) distinct words from the words of length <=2 over {a,b} (and {a,0x00,0xff}, "
                "{a,0xff}, {a,b,0xff}) incl. the empty word x all queries of length <=3; all subsets of the 14 words of length <=3 over {a,b} "
                "in sorted and reverse order; random histories of up to 7 words of length <=6 with forced prefix/extension relations; "
                "the completion callback with the cursor INSIDE the line (all histories of <=2 words of length <=2 over {a,b} x all lines of length <=3 x every "
                "cursor position, 4000/60000 random ones: the text after the cursor must come back unchanged); SESSIONS (1500/20000): the words are not given but "
                "recorded by the real interpreter (eval.State.RegisterTrie + object.record on every new top-level binding) while it evaluates 1-12 inputs drawn from "
                "value/function/lambda/named-function definitions, updates that change the kind, del, copies, failing definitions, index and dot assignments, loop "
                "variables, assignments inside calls, ++, := of fresh names, over names sharing prefixes with each other and with pre-seeded identifiers; the harness "
                "reports the top-level store after every input, the driver recomputes the words (new name => name + '(' or ' ', and name) and additionally checks that "
                "everything a prefix query returns is `info `, or name / name( / name<space> of a name bound at top level at some point, and that every name bound now is a member. "
                "non-trivial = history inserts at least one word; distinct = distinct (history, query) line.",
        "trusted_base": COMMON_TB + ["modelled: trie/trie.go (Insert, Prefix, Contains, IsValid, PrefixAll, All, AllBytes), "
                                     "repl/completion.go autoCompleteCallback (returned line and cursor for any cursor position <= len(line); terminal output not modelled); "
                                     "object.record / RegisterTrie as a function of the top-level stores observed between inputs (driver only, no theorem)",
                                     "not modelled: `:=` on a name that exists records it again (observed: abs:=2 adds `abs ` next to `abs(`; the session generator uses := "
                                     "on fresh names only); the words Interactive() inserts for keywords, builtins and extensions (repl.go, needs a terminal)"],
        "assumptions": ["Go pointer sharing of the end marker is unobservable (Insert never descends into it; shown by the model's case split and exercised by the suite)"],
    },
    "C16": {
        "proof_modules": ["GrolProofs.Props.C16", "GrolProofs.LexStream", "GrolProofs.TokenTie"],
        "theorems": ["Grol.TokenTie.types_numbering", "Grol.TokenTie.cTokens_generated", "Grol.TokenTie.c2Tokens_generated",
                     "Grol.TokenTie.keywords_generated", "Grol.TokenTie.tables_cover_generated", "Grol.TokenTie.const_iff_in_tables",
                     "Grol.Lexer.C16.cases", "Grol.Lexer.C16.progress", "Grol.Lexer.C16.tiling", "Grol.Lexer.C16.flags",
                     "Grol.Lexer.C16.literal_span", "Grol.Lexer.C16.string_span", "Grol.Lexer.C16.linecomment_span",
                     "Grol.Lexer.C16.blockcomment_span", "Grol.Lexer.C16.no_nil_no_panic", "Grol.Lexer.C16.sticky_step",
                     "Grol.Lexer.C16.sticky", "Grol.Lexer.C16.marker_within", "Grol.Lexer.C16.monotone",
                     "Grol.Lexer.C16.lookupIdent_keyword", "Grol.Lexer.C16.keywords_never_ident",
                     "Grol.Lexer.C16.intern_unique", "Grol.Lexer.C16.interning_partial", "Grol.Lexer.C16.next_wf",
                     "Grol.Lexer.C16.initTable_nodup", "Grol.Lexer.resolve_den", "Grol.Lexer.nextCore_spec", "Grol.Lexer.readStringLoop_spec",
                     "Grol.Lexer.blockLoop_spec", "Grol.Lexer.readNumber_spec", "Grol.Lexer.skipWhitespace_spec",
                     "Grol.Lexer.C16.interning", "Grol.Lexer.C16.interning_lexer", "Grol.Lexer.den_inj", "Grol.Lexer.resolveAll_den",
                     "Grol.Lexer.appendRune_eq", "Grol.Lexer.readStringLoop_agree", "Grol.Lexer.readString_eq_spec",
                     "Grol.Lexer.C16.string_literal", "Grol.Lexer.C16.unterminated_string",
                     "Grol.Lexer.skipWhitespace_flags", "Grol.Lexer.C16.lineInv_next", "Grol.Lexer.C16.lastNewLine_le",
                     "Grol.Lexer.C16.flags_exact", "Grol.Lexer.C16.after_linecomment", "Grol.LexStream.lexer_streamWF",
                     "Grol.Lexer.isTrimOf_trimSpaceRight", "Grol.Lexer.isTrimOf_iff", "Grol.Lexer.C16.linecomment_literal",
                     "Grol.Lexer.C16.literal_ends_line", "Grol.LexStream.lexer_litFact"],
        "suites": ["lex"],
        "generated": True,
        "rule": "lex suite: every case is one byte string in one lexer mode (f = lexer.NewBytes, l = lexer.NewLineMode); the observation is "
                "every NextToken call up to the first end marker plus 3 more calls (type, literal, Pos before/after, HadWhitespace, "
                "HadNewline, pointer identity numbered by first appearance, LastNewLine, line number) and CurrentLine at the end. "
                "Families: one dump of the token tables (type names, keywords, cTokens, c2Tokens, pointer identities); hand-picked neighbours "
                "of the three repaired defects; exhaustive = all strings of length <=3 (quick) / <=4 (thorough) over the 39-byte alphabet "
                "0 1 9 a e E x b _ n u U f i . + - \" ` \\ / * = ! : < > & | ( { space \\n \\t \\r NUL 0x80 0xc2 0xa0, both modes; "
                "20k (quick) / 300k (thorough) random strings (alphabet soup, token-fragment soup, uniform bytes); every examples/*.gr and "
                "tests/*.gr whole in both modes plus 12 (quick) / 150 (thorough) windows of each with up to 3 byte mutations; "
                "(lexfam2.go) cases `2;<text>`: the same text through TWO lexers (file mode, then line mode) with pointer identities numbered over both "
                "runs - 'one shared object' is checked across lexers (the model threads one interning table through both runs): every shipped program, "
                "300 / 5000 fragment soups, long repeated tokens, every escape body. "
                "non-trivial = at least one token before the end marker; distinct = distinct (mode, input) line.",
        "exhaustive_note": "strings of length <=3 (quick) / <=4 (thorough) over the 39-byte significant alphabet, both modes, are enumerated completely",
        "trusted_base": COMMON_TB + ["modelled: lexer/lexer.go (all of it: NextToken, skipWhitespace, readChar/peekChar past the end, readNumber, "
                                     "readIdentifier, readString with readHex/readUnicode16/32 and utf8.AppendRune, readLineComment with "
                                     "strings.TrimSpace, readBlockComment, CurrentLine, both modes), token/token.go (types, Init tables, "
                                     "LookupIdent, ConstantTokenChar(2), Intern/InternToken as an explicit table)",
                                     "token tables in lean/Grol/Token.lean are hand-written and compared with the running code by the `T;-` case of the suite "
                                     "(Type.String() names in iota order, LookupIdent of every lower-cased name, all 256 ConstantTokenChar, all 65536 ConstantTokenChar2) "
                                     "AND pinned by theorem against the table regenerated from the running code on every run (GrolProofs/TokenTie.lean: numbering of the "
                                     "enumeration, every cTokens / c2Tokens / keywords entry = token.ByType(t).Literal(), and the three tables cover exactly the types "
                                     "that have a constant literal; Grol/Generated/Precedence.lean constLiteral)",
                                     "the executable statement (Grol.LexSuite.statement) is an independent specification (own escape decoder, UTF-8 encoder, "
                                     "space-rune table, block-comment scanner); the theorems are about the model; the link statement<->theorems is by reading, "
                                     "and both are evaluated on the same cases"],
        "assumptions": ["Go's strings.TrimSpace / unicode.IsSpace / utf8.AppendRune behave as documented (modelled by trimSpaceRight / appendRune, compared on every comment and \\u escape the generators produce)",
                        "the interning map of the running process may already hold keys from earlier cases; pointer identities are compared only within one case (one lexer, or the two lexers of a `2;` case), numbered by first appearance"],
    },
    "C17": {
        "generated": True,
        "proof_modules": ["GrolProofs.Props.C17"],
        "theorems": ["Grol.Sanitize.C17.restricted_shape", "Grol.Sanitize.C17.restricted_confined", "Grol.Sanitize.C17.no_argument",
                     "Grol.Sanitize.C17.accepted_iff", "Grol.Sanitize.C17.emptyOnly_iff",
                     "Grol.Generated.IOFacts.C17.file_sites_expected", "Grol.Generated.IOFacts.C17.registration_conditions",
                     "Grol.Generated.IOFacts.C17.process_site_confined"],
        "suites": ["sanitize"],
        "rule": "sanitize suite. Stream s (in-process, the real sanitizeFileName through the verif hook, called twice per case): every name of "
                "length <=4 (quick) / <=5 (thorough; plus every name of length 6 under the restricted configuration, ~3M) over the 12-symbol "
                "alphabet {g,r,Z,0,_,'.','/','\\',NUL,' ','~',0x80}, with and without '.gr' appended, x the 4 combinations of "
                "(unrestricted, empty-only), plus the call without argument and 20k/200k longer random names biased to accepted names and "
                "embedded/repeated suffixes. Stream f (real file system): one child process per configuration {restricted, empty-only, "
                "load/save disabled, unrestricted} evaluates save(name)/load(name) through repl.EvalStringWithOption with its working directory "
                "in a scratch tree under work/ with sentinel files in the parent, a sibling and a sub-directory; every name of length <=3 (quick) "
                "/ <=4 (thorough) with and without '.gr', 31 names aimed at the sentinels, 1.5k/20k random names; after each call the tree is "
                "re-listed and hashed, the changed paths and the loaded sentinel are compared with the model's prediction, and the tree is put back. "
                "Unrestricted: a fixed list of 15 relative names (shows the sentinels are reachable without the sanitiser). "
                "image.new(name,2,2); image.save(name) for the 31 aimed names x 4 configurations (touches ./grol.png only). "
                "PROCESS EXECUTION, dynamically: exec(\"touch\", name) and run(\"touch\", name) for 3 names x 4 configurations: an error and an untouched tree unless IO is "
                "unrestricted (there the file appears: the functions exist and work); save() and load() WITHOUT argument x 4 configurations (./.gr, or an error when load/save are disabled). "
                "non-trivial = a call with an argument; distinct = distinct case line.",
        "trusted_base": COMMON_TB + [
            "modelled: extensions.sanitizeFileName, lexer.IsAlphaNum; from the source text (regenerated Grol/Generated/IOFacts.lean): the list of "
            "calls into os (minus effect-free functions), os/exec, io/ioutil, syscall, net, net/http, plugin, x/sys/unix, path/filepath(Walk,Glob,..) "
            "in the non-test, non-verif Go files with their argument text, and the `if` conditions enclosing each extension-name literal and each create* call",
            "the fact extractor (harness/cmd/harness/extract*.go, go/parser + go/ast, syntactic: a file API reached through a function value, "
            "a method on *os.File, or a dependency is not seen; fortio.org/terminal's history file is written by that library for the interactive REPL only)",
            "not modelled: what os.Create/os.Open do with an accepted name (observed on the real file system by stream f instead), image.save beyond its file site"],
        "assumptions": ["sites chosen by the host rather than the program are out of scope of the property: main.go processOneFile (script path on the command line), "
                        "main_pprof.go (profile flags), wasm/dev_server.go (development server, !wasm build)"],
    },
    "C18": {
        "generated": True,
        "proof_modules": ["GrolProofs.Props.C18"],
        "theorems": ["Grol.AutoSave.C18.atomic", "Grol.AutoSave.C18.failure_keeps_old", "Grol.AutoSave.C18.success_installs_new",
                     "Grol.AutoSave.C18.frame", "Grol.AutoSave.run_writes",
                     "Grol.Generated.IOFacts.C18.autosave_call_order", "Grol.Generated.IOFacts.C18.autosave_file_sites",
                     "Grol.Generated.IOFacts.C18.saveglobals_writes"],
        "suites": ["autosave"],
        "rule": "[4th session: plus a state with 1-4 KiB values in which every write index (up to 8 beyond the number of bindings) fails once, with 0 and 5 bytes kept.] autosave suite: a child process (re-exec of the harness, real extensions.Init + eval + repl.AutoSave, cwd = a scratch directory under work/) "
                "is SIGKILLed by the verif crash-point hook at before-create, after-create, after each binding written by SaveGlobals, before-rename, "
                "after-rename, or has its n-th write fail (with 0 or a random number of bytes of the line kept), for old states {no file, 1, 5, 50 bindings} "
                "x new states {0 (nothing changed), 1, 5, 50 bindings, set+delete (changed, no binding of its own)}; values are random ints, strings, arrays, "
                "maps, floats, lambdas and named functions; the lines a complete save writes are measured by one undisturbed reference run per state. "
                "quick: the 50-binding states only against each other and 'no file', every 4th binding point; thorough: everything. Observed: exit kind, "
                "bytes of .gr, bytes of the left-over temp file, and whether a fresh process auto-loading .gr dumps exactly those bytes. "
                "HISTORIES (54 quick cases; harness/cmd/harness/autosave_hist.go): the interrupted save is not the first thing the process does - (S) one process evaluates a "
                "first program, auto-saves undisturbed, evaluates a second program (new bindings, an updated and a deleted old one, or nothing) and is killed / fails in its "
                "SECOND AutoSave; (L) what a session does: AutoLoad of the old file, a program, AutoSave; same crash points (hook hit counts translated past the first save) and "
                "write failures. "
                "non-trivial = the new state differs from the last save (the save is not skipped).",
        "trusted_base": COMMON_TB + [
            "modelled: repl.AutoSave (skip test, CreateTemp, SaveGlobals as one write per binding, Rename, error returns), abstract file system name -> bytes",
            "assumed of the OS: rename(2) replaces the target atomically with respect to process death; completed write(2)/rename(2) survive the death of "
            "the process; os.CreateTemp returns a fresh name different from .gr. Power loss / fsync are outside the property",
            "the lines written (SaveGlobals' formatting and key order) are a parameter of the protocol model, measured from the real code per case",
            "not modelled: the temp file is neither closed nor removed on error or crash (left-over .grol*.tmp files; observed and predicted, not part of the property)"],
    },
    "C09": {
        "generated": True,
        "proof_modules": ["GrolProofs.Props.C09"],
        "theorems": ["Grol.Memory.C09.sizeOk_sound", "Grol.Memory.C09.sizeOk_unchecked_unsound", "Grol.Memory.C09.unchecked_product_passes",
                     "Grol.Memory.C09.arrRepeat_sound", "Grol.Memory.C09.strRepeat_sound", "Grol.Memory.C09.arrConcat_sound",
                     "Grol.Memory.C09.mapAppend_sound", "Grol.Memory.C09.range_sound", "Grol.Memory.mulLen_spec",
                     "Grol.Depth.C09.depth_invariant", "Grol.Depth.C09.reset_restores", "Grol.Depth.C09.chain_ok_iff", "Grol.Depth.run_ok_balanced",
                     "Grol.Generated.LoopFacts.C09.loops_classified", "Grol.Generated.LoopFacts.C09.polling_loops_poll",
                     "Grol.Generated.LoopFacts.C09.bare_for_loops", "Grol.Generated.LoopFacts.C09.guarded_loops_guards",
                     "Grol.Memory.C09.strConcat_sound", "Grol.Depth.C09.chainOk_spec", "Grol.Depth.C09.unbounded_recursion_guarded"],
        "suites": ["memory", "bounded"],
        "rule": "memory suite, 10^5 cases (quick). g: object.SizeOk(n) with the process memory limit set to one of {1, 2^20, 2^26, 2^30, 2^40, 2^62, max}, "
                "n boundary-biased (0..600, 2^k+-2, around limit/16, 2^55..2^62 + 2^j whose byte size wraps, min/max int64, random), compared with the model on the "
                "free value the call returns (93k). e: in-process evaluation of string*int, array*int, array+array, map+map and left:right with the memory limit "
                "pinned to 1 byte (FreeMemory() < 0, so exactly the requests of <=256 objects pass): operand pairs around the 256-object / 4111-byte boundary and "
                "boundary-biased int64 counts incl. products that overflow (7k; [] * huge is left out: see known candidate). c: 16 real programs in child processes "
                "with GOMEMLIMIT=64MiB, ulimit -v and a 20 s timeout, far from the budget on either side, incl. the former overflow witnesses. "
                "d: recursion of depth 0..39 run with MaxDepth around the measured need and in 10..310: outcome, counter at recovery, counter after Reset (150). "
                "non-trivial = request above 256 objects (g) / every e, c, d case. "
                "bounded suite (RUNTIME part, measurements): ~140 (quick) / ~1100 (thorough) programs, each in its own child process (re-exec of the harness, "
                "GOMEMLIMIT=256MiB, ulimit -v 6 GiB, kill after deadline+25 s, up to 8 at a time; a killed/dead/slow run is repeated once alone) through "
                "repl.EvalStringWithOption with MaxDepth in {10,100,1000,10000,default} and MaxDuration in {1ms,10ms,100ms,1s} (0 = none for the recursion and one "
                "concatenation family). Families: non-terminating loops (empty, counting, nested, printing, counted 1<<62, calling), unbounded recursion (self, with "
                "argument, mutual, through a closure, through `self`, non-tail), terminating recursion just below/above each limit (need measured in process; default "
                "depth: extrapolated), nested closures, huge operands (\"ab\"*N, [1]*N, 0:N, a+a, four string doublings) on both sides of the budget, growth in a loop "
                "(array/string doubling, s*2, map merges, append, nesting), source text nested 10^4..4*10^4 deep (parens, brackets, `- `, `!`, if-blocks, calls, func "
                "literals, a left-deep + chain; blocks 1000..4000; thorough: 10^6), values with shared structure (a=[a,a] 8..15 times, then a==a / println(a)), huge count x EMPTY operand under a 100 ms / 1 s deadline "
                "([]*N, x[3:3]*N, (0:0)*N, (k:k)*N, \"\"*N, \"abc\"[3:3]*N, and counted loops of N merges of {} / []; N in {2^40, 2^62, 2^62+1, 2^63-1}; these "
                "children are killed 8 s after the deadline, at most 2 killed runs are repeated), counts whose product with the operand length wraps "
                "([1,2,3,4]*N, [1,2]*N, \"abcd\"*N), sleep(10); and ~45 programs that reach the guards through LIBRARY FUNCTIONS, BUILTINS and MACROS "
                "(harness/cmd/harness/bounded_ext.go): loops printing / logging 1 MB per iteration (the output is buffered), loops of eval(), of caught errors and of caught "
                "non-terminating calls; unbounded recursion through eval() at every level (100 ms deadline, depth limits, both); catch around unbounded recursion; growth in a loop "
                "through image.new (host-side objects), sprintf, join, str; image.new of 1024, 1025, 2^31, 2^62 pixels a side; a format width of 2*10^9; one call on an operand near "
                "the budget whose result is a multiple of it (split per character / per separator, runes, str, json, base64 on 10^7..10^8 elements/bytes) and a small one each; regsub "
                "on sizes that fit; nested text COMPUTED by the program and parsed by eval / unjson (balanced 10^4..3*10^4, unclosed 100..2*10^4: two parse errors per level); "
                "n nested uses of a macro that doubles its argument (2..11 and 24..31), a macro that expands to itself. Measured per run: exit status, result kind, wall time inside "
                "EvalStringWithOption, peak RSS (VmHWM). Statement (lean/Grol/BoundedSuite.lean): exit 0, wall <= deadline + 3000 ms, RSS <= 4 x limit, result kind allowed "
                "for the family (loops: deadline; unbounded recursion: depth, or deadline when one is set; huge operands: refused or within the budget; never a stray Go panic). "
                "The driver predicts the result kind from Grol.Memory / Grol.Depth where it can (compared: agree) — wall time and RSS are never predicted.",
        "trusted_base": COMMON_TB + [
            "modelled: object.SizeOk/MustBeOk/MulLen with FreeMemory() as a parameter (two readings), the size computations in evalStringInfixExpression, "
            "evalArrayInfixExpression, evalIntegerInfixExpression (range), Map.Append; the depth counter of State.Eval and State.Reset",
            "64-bit int (on 32-bit/wasm builds int(rightVal) truncates; MulLen's lo > math.MaxInt test covers it but the model is 64-bit only)",
            "assumed: lengths of existing arrays/maps are below 2^62 / 2^61 (a 16-byte element cannot be stored 2^62 times in a 64-bit address space); "
            "GOMEMLIMIT accounting (what FreeMemory() returns) is accurate",
            "generated on every run (lean/Grol/Generated/LoopFacts.lean, harness/cmd/harness/extract_loops.go, syntactic): every `for`/`range` statement of packages eval and "
            "object and of repl.EvalStringWithOption/EvalOne/evalOne/logParserErrors with its header text and whether its body calls a context-polling evaluator entry point; "
            "the CLASSIFICATION of each loop (polls / bounded by container / guarded allocation / constant / frames) is by hand, with a one-line reason each; "
            "for the two guarded-allocation loops the extractor also records what dominates the loop in its statement list (early-return conditions, MulLen / MustBeOk / "
            "MakeObjectSlice calls, in order) and C09.guarded_loops_guards pins that text",
            "MEASURED, not proved (bounded suite): wall-clock time after the deadline, peak RSS, survival of the process (Go stack growth, GC behaviour, scheduler latency); "
            "thresholds are the named constants slackMs, rssFactor, memLimitKB of lean/Grol/BoundedSuite.lean; timing depends on the machine and its load",
            "NOT covered by a model or theorem (runtime measurements of the listed families only): loops inside extensions/, ast/ (printer), parser/, lexer/ and the Go standard "
            "library; the MustBeOk call sites in extensions (split, runes, join, image.new) and object (function parameters/body); programs outside the listed families"],
        "assumptions": ["one evaluation step that is not polled may cost time proportional to the memory budget (a+a on a 64 MiB array under GC pressure: 1.2 s measured), "
                        "which is why the slack is 3 s and not milliseconds",
                        "the eval model (lean/Grol/Eval/Ops.lean) was not changed for the new guard on string + string: it only fires above 4096 bytes with less free memory than the "
                        "result needs, outside what the eval generators produce"],
    },
    "C01": {
        "generated": True,
        "proof_modules": ["GrolProofs.Props.C01", "GrolProofs.Props.C01Rules", "GrolProofs.Precedence"],
        "theorems": ["Grol.Generated.precedences_documented", "Grol.Generated.priorities_documented",
                     "Grol.Generated.prefix_registrations_expected", "Grol.Generated.infix_registrations_expected",
                     "Grol.E.C01.int_arith", "Grol.E.C01.int_arith_wraps", "Grol.E.C01.int_div", "Grol.E.C01.int_div_truncates",
                     "Grol.E.C01.shifts", "Grol.E.C01.prefix_ops", "Grol.E.C01.array_index",
                     # the syntax-directed reference rules (lean/GrolProofs/Props/C01Rules.lean)
                     "Grol.E.C01.deadline_reached", "Grol.E.C01.literals", "Grol.E.C01.evalI_int", "Grol.E.C01.evalI_float",
                     "Grol.E.C01.evalI_bool", "Grol.E.C01.evalI_str", "Grol.E.C01.evalI_inf", "Grol.E.C01.infix_left_stop",
                     "Grol.E.C01.infix_left_error", "Grol.E.C01.and_short_circuit", "Grol.E.C01.or_short_circuit",
                     "Grol.E.C01.infix_continue", "Grol.E.C01.infixTail_stop", "Grol.E.C01.infixTail_error",
                     "Grol.E.C01.infixTail_apply", "Grol.E.C01.infixTail_apply_array", "Grol.E.C01.and_or_apply",
                     "Grol.E.C01.and_true", "Grol.E.C01.or_false", "Grol.E.C01.infix_plain", "Grol.E.C01.evalI_if",
                     "Grol.E.C01.evalIf_eq", "Grol.E.C01.if_true", "Grol.E.C01.if_false_else", "Grol.E.C01.if_false_noelse",
                     "Grol.E.C01.if_nonbool", "Grol.E.C01.if_stop", "Grol.E.C01.stmts_cons_continue",
                     "Grol.E.C01.stmts_cons_stops", "Grol.E.C01.stmts_cons_stop", "Grol.E.C01.stmts_singleton",
                     "Grol.E.C01.stmts_last", "Grol.E.C01.evalI_pre", "Grol.E.C01.prefix_apply", "Grol.E.C01.prefix_table",
                     "Grol.E.C01.evalI_for", "Grol.E.C01.forSpecial_none", "Grol.E.C01.evalFor_generic",
                     "Grol.E.C01.while_done", "Grol.E.C01.while_unroll", "Grol.E.C01.while_control", "Grol.E.C01.while_int",
                     "Grol.E.C01.while_bad_condition", "Grol.E.C01.forInteger_done", "Grol.E.C01.forInteger_negative",
                     "Grol.E.C01.forInteger_unroll", "Grol.E.C01.forInteger_control", "Grol.E.C01.cmpInt64_spec",
                     "Grol.E.C01.int_compare", "Grol.E.C01.string_concat", "Grol.E.C01.array_append",
                     "Grol.E.C01.lookup_bound", "Grol.E.C01.createOrSet_binds", "Grol.E.C01.ident_bound",
                     "Grol.E.C01.ident_unbound", "Grol.E.C01.evalI_assign", "Grol.E.C01.evalAssignment_ident",
                     "Grol.E.C01.assign_then_lookup", "Grol.E.C01.evalI_return_nil", "Grol.E.C01.evalI_return",
                     "Grol.E.C01.evalI_ctl", "Grol.E.C01.return_stops_block", "Grol.E.C01.eval_depth_guard",
                     "Grol.E.C01.eval_unwrap", "Grol.E.C01.evalI_lambda", "Grol.E.C01.evalI_call",
                     "Grol.E.C01.evalExpressions_cons", "Grol.E.C01.finishCall_value", "Grol.E.C01.apply_is_body",
                     "Grol.E.C01.apply_bind_error", "Grol.E.C01.apply_non_function",
                     "Grol.E.C01.bind_one", "Grol.E.C01.bindParams_run", "Grol.E.C01.extend_plain", "Grol.E.C01.apply_plain",
                     "Grol.E.C01.evalI_ident", "Grol.E.C01.evalI_incr_decr", "Grol.E.C01.evalI_post",
                     "Grol.E.C01.evalI_builtin", "Grol.E.C01.evalI_arr", "Grol.E.C01.evalI_mapLit", "Grol.E.C01.evalI_idx",
                     "Grol.E.C01.evalI_comment", "Grol.E.C01.evalI_nil_node", "Grol.E.C01.evalI_macroLit",
                     "Grol.E.C01.evalI_func_named", "Grol.E.C01.evalI_no_fuel", "Grol.E.C01.exprs_continue",
                     "Grol.E.C01.exprs_error", "Grol.E.C01.forInteger_named_unroll", "Grol.E.C01.for_named_is_counting"],
        "suites": [["eval", "C01"]],
        "rule": EVAL_RULE + " C01 statement: the default configuration's output/value/error flag per input equal the reference (model without cache).",
        "trusted_base": EVAL_TB,
        "assumptions": EVAL_ASSUME,
    },
    "C04": {
        "proof_modules": ["GrolProofs.Props.C04", "GrolProofs.Props.C04Det", "GrolProofs.Props.C04Hit", "GrolProofs.MemoMono", "GrolProofs.MemoFootprint", "GrolProofs.MemoKey",
                          "GrolProofs.RenQBase", "GrolProofs.RenQEnv", "GrolProofs.RenQVal", "GrolProofs.RenQOps", "GrolProofs.RenQHelpers",
                          "GrolProofs.RenQMain"],
        "theorems": ["Grol.E.C04.off_get", "Grol.E.C04.off_set", "Grol.E.C04.replay", "Grol.E.C04.store_condition",
                     "Grol.E.C04.set_get", "Grol.E.C04.get_pure",
                     "Grol.E.C04.miss_monotone", "Grol.E.C04.quiet_inherited", "Grol.E.C04.no_del_in_quiet_call",
                     "Grol.E.C04.quiet_makeRef", "Grol.E.C04.quiet_get", "Grol.E.C04.no_function_write_in_quiet_call", "Grol.E.C04.no_function_assignment_in_quiet_call", "Grol.E.C04.purity_footprint",
                     "Grol.E.envGet_quiet", "Grol.E.functionChanged_loud", "Grol.E.envStoreAt_loud", "Grol.E.no_function_change_during", "Grol.E.no_function_write_during", "Grol.E.C04.key_identity", "Grol.E.keyEq_eq",
                     "Grol.E.allTr", "Grol.E.eval_grows", "Grol.E.applyFunction_grows", "Grol.E.quiet_bind", "Grol.E.quiet_during",
                     "Grol.E.triggerNoCache_loud", "Grol.E.evalDelete_loud", "Grol.E.finishCall_quiet", "Grol.E.applyFunction_quiet",
                     "Grol.E.makeRef_go_quiet", "Grol.E.no_trigger_during", "Grol.E.no_del_during", "Grol.E.nested_call_during",
                     "Grol.E.C04.quiet_call_deterministic", "Grol.E.C04.quiet_call_depends_only_on_trusted", "Grol.E.C04.agree_stRq",
                     "Grol.E.C04.hit_is_evaluation_of_valid", "Grol.E.C04.cacheGet_hit_mem", "Grol.E.C04.cacheValid_init", "Grol.E.C04.cacheValid_congr",
                     "Grol.E.C04.cacheValid_clear", "Grol.E.C04.cacheValid_filter", "Grol.E.C04.cacheValid_outs", "Grol.E.C04.cacheValid_budget",
                     "Grol.E.C04.agree_refl", "Grol.E.hitState_valid", "Grol.R.LoudAt.modifyFrame_bind",
                     "Grol.E.C04.constant_param_is_miss", "Grol.E.C04.purity_footprint_full", "Grol.E.applyFunction_quiet_full",
                     "Grol.E.stRq_miss", "Grol.E.det_agree", "Grol.E.det_run", "Grol.E.ren_id",
                     "Grol.R.qSpec_all", "Grol.R.applyFunction_qstep", "Grol.R.finishCall_loud", "Grol.R.SimG.switch", "Grol.R.SimQ.bind",
                     "Grol.R.StRq.retarget", "Grol.R.qsim_makeRef_go", "Grol.R.qsim_makeRef", "Grol.R.qsim_envGet", "Grol.R.qsim_valueOf",
                     "Grol.R.qsim_createOrSet", "Grol.R.qsim_setNoChecks", "Grol.R.qsim_extendFunctionEnv", "Grol.R.qsim_finishCall",
                     "Grol.R.qsim_evalInfixOp", "Grol.R.qsim_indexIdx", "Grol.R.mapSet_clean", "Grol.R.mapAppend_clean"],
        "suites": [["eval", "C04"], "extcache"],
        "rule": EVAL_RULE + " C04 statement: per input, output/value/error/panic are identical with the cache on and off (both register settings).",
        "trusted_base": EVAL_TB,
        "assumptions": EVAL_ASSUME,
    },
    "C05": {
        "proof_modules": ["GrolProofs.Props.C05", "GrolProofs.RegRewrite", "GrolProofs.RegSim", "GrolProofs.RegSimEnv", "GrolProofs.RegSimStmt"],
        "theorems": ["Grol.Reg.C05.loop_balanced", "Grol.Reg.C05.nested_loops_balanced", "Grol.Reg.C05.sequence_balanced",
                     "Grol.RegRewrite.modifyR_spec", "Grol.RegRewrite.C05.rewrite_shape", "Grol.RegRewrite.C05.rewrite_shape_nested",
                     "Grol.RegRewrite.C05.rewrite_refuses", "Grol.RegRewrite.C05.useRegister_spec",
                     "Grol.RegRewrite.C05.read_sim", "Grol.RegRewrite.sim_arith", "Grol.RegRewrite.C05.simulation_partial",
                     "Grol.RegRewrite.sim_all", "Grol.RegRewrite.noCallStmt_rel", "Grol.RegRewrite.C05.simulation_stmt_partial",
                     "Grol.RegRewrite.refNames_initState", "Grol.RegRewrite.TriA.createOrSet", "Grol.RegRewrite.TriA.envGet",
                     "Grol.RegRewrite.TriA.makeRef", "Grol.RegRewrite.TriA.envDelete",
                     "Grol.Generated.RegFacts.C05.loop_eligibility_pinned", "Grol.Generated.RegFacts.C05.param_eligibility_pinned",
                     "Grol.RegRewrite.C05.registerEligible_is_the_pinned_test"],
        "generated": True,
        "suites": [["eval", "C05"], "regrewrite"],
        "rule": EVAL_RULE + " C05 statement: per input, output/value/error/panic are identical with registers on and off (both cache settings)."
                " regrewrite: a case is (registers enabled?, registers in use, candidate names with integer/non-integer values, body); the REAL extendFunctionEnv is called on a"
                " function with these parameters and this body; per candidate whether it got a register and which, and the body returned (with its register nodes), equal the"
                " model's (modifyR/useRegisters); statement: they equal the SPECIFICATION (refuses/substAll/registerEligible) and erasing the registers gives back the body;"
                " nontrivial = some candidate was eligible.",
        "trusted_base": EVAL_TB + ["register file model lean/Grol/Registers.lean (MakeRegister/ReleaseRegister/HasRegisters and the post-fix protocol of evalForInteger)",
                                   "rewrite model lean/Grol/Eval/RegRewrite.lean (ModifyRegister over ast.Modify, setupRegister, the eligibility test): the parameter site is tied by the "
                                   "regrewrite suite, which drives the real extendFunctionEnv through the hook eval.VerifSetupRegisters; the LOOP site (evalForInteger) is tied by the "
                                   "source text of its `useReg := …` expression, regenerated on every run (lean/Grol/Generated/RegFacts.lean, harness/cmd/harness/extract_regfacts.go) "
                                   "and pinned by theorem (reading that text as the model's registerEligible is by inspection), plus the eval suite (registers on vs off on every generated loop)",
                                   "the register-aware evaluation (a register read yields the integer it holds) is a definition of GrolProofs/RegSim.lean, tied to the code only "
                                   "through the eval suite (registers on vs the register-free model); the statement-level simulation (GrolProofs/RegSimStmt.lean) assumes RefNames "
                                   "(every stored reference carries its key) of the start state: proved for the initial state and preserved by all call-free code, not proved across calls"],
        "assumptions": EVAL_ASSUME,
    },
    "C07": {
        "proof_modules": ["GrolProofs.Props.C07", "GrolProofs.EvalInv", "GrolProofs.EvalSafeVal", "GrolProofs.EvalSafeEnv",
                          "GrolProofs.EvalSafeOps", "GrolProofs.EvalSafeHelpers", "GrolProofs.EvalSafeMain"],
        "theorems": ["Grol.E.C07.statement", "Grol.E.C07.holds", "Grol.E.C07.inv_init", "Grol.E.C07.inv_preserved",
                     "Grol.E.C07.inv_runInput", "Grol.E.C07.reachable_inv", "Grol.E.C07.frames_grow", "Grol.E.C07.result_scoped",
                     "Grol.E.spec_all", "Grol.E.post_valueOf", "Grol.E.post_envGet", "Grol.E.post_makeRef", "Grol.E.post_createOrSet",
                     "Grol.E.post_envDelete", "Grol.E.post_extendFunctionEnv", "Grol.E.cmp_npr", "Grol.E.inspect_npr",
                     "Grol.E.C07.integer_ops_no_panic", "Grol.E.evalIntegerInfix_no_panic", "Grol.E.bind_no_panic", "Grol.E.outcome_bind"],
        "suites": [["eval", "C07"]],
        "rule": EVAL_RULE + " C07 stream: operands are ill-typed with probability 4% per node, shift counts and divisors unguarded. "
                "C07 statement: no Go panic (other than the depth/memory guards) in any of the four configurations.",
        "trusted_base": EVAL_TB,
        "assumptions": EVAL_ASSUME,
    },
    "C08": {
        "generated": True,
        "proof_modules": ["GrolProofs.Props.C08", "GrolProofs.Precedence"],
        "theorems": ["Grol.C08.statement", "Grol.C08.terminates", "Grol.C08.statement_lexer", "Grol.C08.parse_returns", "Grol.Parser.parseProgram_terminates",
                     "Grol.Parser.allTm", "Grol.LexStream.tokStream_eof", "Grol.C08.front_end_total", "Grol.C08.parse_good", "Grol.C08.safe_always", "Grol.Parser.parseProgram_good", "Grol.Parser.allSpec",
                     "Grol.C08.parser_never_panics", "Grol.C08.printer_never_panics", "Grol.C08.partial",
                     "Grol.Parser.parseProgram_no_panic", "Grol.Parser.allSafe", "Grol.Parser.streamWF_of_b",
                     "Grol.Printer.printProgram_no_panic", "Grol.Printer.infix_tokens_have_precedence",
                     "Grol.Printer.index_tokens_have_precedence", "Grol.Printer.postfix_tokens_have_precedence",
                     "Grol.Printer.expected_tokens_are_constant", "Grol.Parser.parseComment_regs",
                     "Grol.Generated.precedences_documented", "Grol.Generated.priorities_documented",
                     "Grol.Generated.prefix_registrations_expected", "Grol.Generated.infix_registrations_expected",
                     "Grol.Generated.postfix_registrations_expected"],
        "suites": ["parse"],
        "rule": _FRONT_RULE + " parse suite: one case = one source text, parsed in file mode AND line mode, each tree printed in 4 modes "
                "(normal, compact, all-parens, compact+all-parens) under recover. Families: all sequences of <=2 tokens of a 52-token alphabet "
                "and all sequences of 3 tokens of a 31-token alphabet (quick; thorough: 3 of 52, 4 of 31), each rendered with and without "
                "separating spaces; 33 grammar templates with 2-3 holes filled exhaustively/sampled; random token soups; grammar-generated "
                "programs; every-byte / sampled truncations and byte mutations (NUL, 0x80-0xFF, delimiters) of examples/*.gr and tests/*.gr; "
                "(formatfam2.go) every ordered pair of `:` with the other binary operators in plain / index / map / call context, and parameter lists of "
                "func / named func / macro / lambda with 44 kinds of token (strings, numbers, keywords, operators, comments, ILLEGAL and NUL bytes, `..`) in "
                "every position, with every truncation of the short ones; every ordered pair of the 35 tokens the alphabet lacks (!= <= > >= >> % false continue first rest "
                "print println log error catch unquote del, raw string, malformed numbers, NUL, 0xff, backslash, stray quotes and comment ends) with every token, "
                "spaced and glued; nests of 37 wrapping constructs 12 and 40 levels deep and 60 random mixed nests. "
                "The statement also checks, on the real lexer's streams, the two lexer facts (StreamWF) the no-panic theorem assumes. "
                "non-trivial = non-empty tree, an error or a continuation; distinct = distinct source text.",
        "trusted_base": COMMON_TB + _FRONT_TB,
        "assumptions": ["token streams are produced by the real lexer (lexer model composed later); the two facts about them that the "
                        "parser theorem needs (StreamWF: lastNewLine <= min(pos,len); a line comment is followed by a newline or the end marker) "
                        "are evaluated on every stream of every case",
                        "strconv.ParseInt/ParseFloat acceptance of a number literal is carried with the token (NumClass), computed by the same library calls"],
    },
    "C15": {
        "generated": True,
        "proof_modules": ["GrolProofs.Props.C15", "GrolProofs.Props.C08", "GrolProofs.Props.C15chunks", "GrolProofs.Props.C15Sim", "GrolProofs.Props.C15Lexed"],
        "theorems": ["Grol.C15.witness_unclosed_string_after_statement", "Grol.C15.fixed_empty_lambda_parameter_list",
                     "Grol.C15.fixed_unclosed_comment_ending_in_star_slash", "Grol.C15.witness_file_mode_accepts_unclosed_block",
                     "Grol.C15.same_tree_partial", "Grol.C15.excluded_class",
                     "Grol.C15.tokStream_line_eq_asLine", "Grol.C15.endAtB_tokStream", "Grol.C15.same_tree_lexed", "Grol.C15.nc_hypothesis_needed", "Grol.Lexer.next_mode", "Grol.Parser.parseProgram_sim", "Grol.Parser.allSim", "Grol.Parser.allPres",
                     "Grol.C08.parser_never_panics",
                     "Grol.E.C15.evalStatements_append", "Grol.E.C15.evalStatements_append_null", "Grol.E.C15.evalStatements_append_fresh",
                     "Grol.E.C15.evalStatements_init_irrelevant", "Grol.E.C15.evalI_stmts_append", "Grol.E.C15.evalI_stmts_append_outcome",
                     "Grol.E.C15.chunks_outcome", "Grol.E.C15.chunks_outcome_stops", "Grol.E.C15.chunks_outcome_error", "Grol.E.C15.chunks_fold"],
        "suites": ["parse15", "chunks"],
        "rule": _FRONT_RULE + " parse15 suite: grammar-generated valid programs (1-3 statements, depth <=3) and the shipped examples; for each, "
                "EVERY token-boundary cut, the cut just before the closing quote of every string and 5 cuts inside every block comment "
                "(case `<program>@<k>`: line mode on the prefix; hypothesis of part 2 decided by Front.cutKind on the file-mode stream of the "
                "whole program: bracket depth > 0, after a binary operator, after `.` or `=>`, after the opening and before the closing quote of a string, after the `/*` "
                "and before the end of a block comment), plus the whole program and a quarter of the prefixes as plain cases for part 1; "
                "(parse15fam2.go) 104 hand-written valid programs, one per production and nesting the random generator does not produce (comments inside "
                "brackets, parameter lists, else-if chains, multi-line brackets, every builtin, dot forms, escapes, comments starting with `/*/`), each with "
                "EVERY token-boundary cut and a cut at EVERY byte inside every string and block comment. Classes: a failing in-comment cut is the recorded "
                "finding only when the cut text ends in the comment `/*/`; file-valid/line-continuation only when a brace is still open. "
                "chunks suite (part 3): 16 hand-written scripts and 150 (quick) / 900 (thorough) scripts from the typed program generator of the eval suite "
                "(3-9 top-level statements: assignments, function definitions, loops, prints, a final expression; no macros, no top-level return), "
                "(chunksfam2.go) 23 more hand-written scripts (comments as statements, several statements per line, constants, del, function redefinition "
                "between uses of a caller, closures with state, catch, self, variadics, the shipped `unless` macro, macros used inside functions and inside "
                "other templates), 3 scripts of the recorded finding macro-redefined-after-use-in-one-input, and 40 / 400 sessions of the macro suite's "
                "generator joined into one script (1-3 macros, every definition before its first use); for each, "
                "ALL 2^(n-1) splits into consecutive chunks when n <= 6 statements, otherwise the trivial split, one statement per chunk and 12/40 random splits; "
                "a chunk's text is the normal-mode printer output of its parsed statements; (a) the script as one input and (b) the chunks one input at a time "
                "on one persistent eval.State are evaluated by the harness's replica of repl.EvalOne (evalInput: parse, macros, Eval, recover+Reset) in the 4 "
                "configurations cache on/off x registers on/off; the model's runInput runs on the same parsed inputs (cache on and off) and is compared; "
                "statement = error-free whole implies error-free chunks, concatenated output, last value and final globals equal. non-trivial = the whole script is error free.",
        "trusted_base": COMMON_TB + _FRONT_TB,
        "assumptions": ["as C08"],
    },
    "C02": {
        "generated": True,
        "proof_modules": ["GrolProofs.Props.C02", "GrolProofs.Props.C08", "GrolProofs.Precedence"],
        "theorems": ["Grol.C02.witness_statement_starts_with_prefix_operator", "Grol.C02.witness_repeated_associative_operator", "Grol.C08.parser_never_panics", "Grol.C08.printer_never_panics",
                     "Grol.Generated.precedences_documented",
                     "Grol.C02.roundtrip_partial", "Grol.C02.roundtrip_streamOf", "Grol.C02.roundtrip_partial_lex", "Grol.RT.gpx_node", "Grol.RT.parse_rendered",
                     "Grol.C02.outside_fragment_assoc", "Grol.C02.outside_fragment_stmt"],
        "suites": ["format", "printtokens"],
        "rule": _FRONT_RULE + " printtokens suite (ties the token-level rendering PrintTokens.progToks, the object of C02.roundtrip_partial, to the code): one case = one "
                "source text, file mode; when it parses error-free, the REAL printer's output in the 4 print modes (normal, compact, all-parens, compact+all-parens) is lexed by "
                "the REAL lexer and each token reduced to what an error-free parse reads (type, literal, number class, whitespace-in-front for `(` and `[`); for a tree in the "
                "fragment fragProg the driver recomputes these tokens from the tree with progToks (any difference = disagreement) and evaluates the theorem's conclusion on the "
                "observed tokens (the parser model returns the original program); trees outside the fragment are declined (tags outside-<mode> and outside-c:<innermost construct that keeps it out>). Families: the operator-pair "
                "family of the format suite, every ordered pair of the 21 binary operators in 6 nesting/statement templates and x 7 prefix operators in 4 templates, every ordered "
                "pair of 29 statement shapes of the fragment x 3 separators (+ a three-statement form), 12000 (thorough 300000) random programs of the fragment grammar with "
                "redundant and necessary parentheses, 1500 (30000) programs of the general grammar. non-trivial = non-empty program in the fragment in at least one mode."
                " format suite: one case = one source text; in file mode and in line mode: parse, print (normal, compact, "
                "all-parens, compact+all-parens), re-parse the normal and the compact text, print again. Families: every ordered pair of the 20 infix "
                "operators in parent/left-child and parent/right-child position, x 7 prefix and 2 postfix operators, index/call/dot/lambda "
                "combinations (~40 templates per operator); ~330 hand-picked adjacency, comment, literal and lambda cases; every ordered pair of 41 "
                "statement kinds x 4 separators, at top level and in a block; grammar-generated programs with all literal forms and strings over "
                "arbitrary bytes/runes; the shipped examples and byte mutations; (formatfam2.go) `:` against every binary and prefix operator in "
                "parent/child position (plain, index, map, call, open-ended), parameter lists with 44 kinds of token in every position, 34 kinds of operand "
                "on either side of the dot index / [ ] / call, a comment (line, block, multi-line) between every pair of 12 statement kinds with every "
                "combination of separators at top level and in 11 kinds of block (function, if / else / else-if, for, lambda, macro, blocks inside call "
                "arguments, arrays, map values), statement pairs x 7 separators inside 19 kinds of nested block (sampled 1/60 in the quick tier), and nests of 37 wrapping "
                "constructs 12 and 40 levels deep plus 60 random mixed nests. The class repeated-associative-operator-on-the-right is decided exactly: the "
                "re-parsed tree equals the original up to re-association of chains of one associative operator. Tree equality ignores the two layout flags of comments, and "
                "statement-level comments in compact mode. non-trivial = error-free non-empty program.",
        "trusted_base": COMMON_TB + _FRONT_TB,
        "assumptions": ["as C08", "strconv.IsPrint for runes >= 0x80 is a generated table (lean/Grol/Generated/IsPrint.lean)"],
    },
    "C03": {
        "generated": True,
        "proof_modules": ["GrolProofs.Props.C03", "GrolProofs.Props.C08", "GrolProofs.Props.C03Lexed"],
        "theorems": ["Grol.C03.idempotent_partial_lex", "Grol.C03.idempotent_tokens", "Grol.C03.exactly_one_newline_lexed", "Grol.LexStream.lexer_litFact", "Grol.C03.exactly_one_newline_parsed", "Grol.Parser.parseProgram_endOK", "Grol.Parser.litFact_of_b", "Grol.Parser.allEnd",
                     "Grol.C03.ends_with_newline", "Grol.C03.exactly_one_newline", "Grol.Printer.printNode_P", "Grol.Printer.printNode_frame", "Grol.C03.model_is_stateless",
                     "Grol.C03.witness_not_idempotent", "Grol.C08.printer_never_panics"],
        "suites": ["format03"],
        "rule": _FRONT_RULE + " format03 suite: same cases as the format suite; statement = second-pass text byte-identical to the first "
                "(normal and compact), normal text ends with exactly one newline, and (every 40th case) same bytes after token.Init() reset the "
                "interning table, and (every 400th error-free case, field F.x, formatfam3.go) same bytes from a FRESH PROCESS (subcommand fmtchild of the harness binary). "
                "Map iteration order cannot be exhibited by the pure model (Order slice is what is printed).",
        "trusted_base": COMMON_TB + _FRONT_TB,
        "assumptions": ["as C02"],
    },
}


# further properties: one file per property in bin/props.d/<id>.py defining PROP (same shape as the entries
# above) and LEVEL (text, design_ref, note, technique); avoids merge conflicts between parallel work.
import glob as _glob, os as _os, importlib.util as _ilu
LEVELS_EXTRA = {}
for _f in sorted(_glob.glob(_os.path.join(_os.path.dirname(_os.path.abspath(__file__)), "props.d", "*.py"))):
    _spec = _ilu.spec_from_file_location("propsd_" + _os.path.basename(_f)[:-3], _f)
    _m = _ilu.module_from_spec(_spec)
    _m.COMMON_TB, _m.EVAL_RULE, _m.EVAL_TB, _m.EVAL_ASSUME = COMMON_TB, EVAL_RULE, EVAL_TB, EVAL_ASSUME
    _spec.loader.exec_module(_m)
    PROPS[_m.ID] = _m.PROP
    LEVELS_EXTRA[_m.ID] = _m.LEVEL

ID = "C19"
PROP = {
    "proof_modules": [],
    "theorems": [],
    "suites": ["consts"],
    "rule": "consts suite (preliminary)",
    "trusted_base": EVAL_TB,
    "assumptions": EVAL_ASSUME,
}
LEVEL = {"text": "preliminary", "design_ref": "DESIGN.md section 7, C19", "note": "", "technique": ""}

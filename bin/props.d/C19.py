ID = "C19"
PROP = {
    "proof_modules": ["GrolProofs.Props.C19", "GrolProofs.Props.C19Full", "GrolProofs.ConstInvBase", "GrolProofs.ConstInvVal",
                      "GrolProofs.ConstInvEnv", "GrolProofs.ConstInvOps", "GrolProofs.ConstInvHelpers", "GrolProofs.ConstInvMain"],
    "theorems": ["Grol.E.createOrSet_constant_refused", "Grol.E.createOrSet_constant_reads_only_before_check",
                 "Grol.E.envGet_sameValues", "Grol.E.makeRef_sameValues", "Grol.E.makeRef_go_sameValues",
                 "Grol.E.sameValues_setFrame", "Grol.E.lookupStore_setStore_ne", "Grol.E.lookupStore_setStore_eq",
                 "Grol.E.lookupStore_delStore_ne", "Grol.E.readOnly_valueOf",
                 "Grol.E.evalPrefixIncrDecr_writes_via_set", "Grol.E.evalPostfix_writes_via_set",
                 "Grol.E.evalIndexAssignment_writes_via_set", "Grol.E.deleteMapEntry_writes_via_set",
                 "Grol.E.C19.final_set_refused",
                 "Grol.C19.kept", "Grol.C19.inv_preserved", "Grol.C19.inv_init", "Grol.C19.result_ok", "Grol.C19.runInput_spec",
                 "Grol.C19.session_kept", "Grol.C19.read_bound", "Grol.C19.read_kept", "Grol.C19.session_read",
                 "Grol.C19.kept_acc", "Grol.C19.kept_rigid", "Grol.C19.eqv_rigid", "Grol.K.spec_all",
                 "Grol.K.post_createOrSet", "Grol.K.post_setNoChecks", "Grol.K.post_envGet", "Grol.K.post_makeRef"],
    "suites": ["consts"],
    "rule": "consts suite: a case is a session run by the real interpreter under 4 configurations (cache on/off x registers on/off) and by the Lean "
            "evaluator model (cache on/off): input 0 binds a constant (names FOO, AB_1, Z9, K) to a value of one of 11 kinds (int, float, bool, string, nil, "
            "small/large array, small/large map, function, nested large containers); every mutation attempt is followed by an input holding the bare name "
            "(read probe). 21 syntactic kinds of attempt (= and :=, ++/-- postfix and prefix, N[i]=v, N.k=v, del(N[i]), del(N.k), integer and list loop variable, "
            "named-function and lambda parameter, func N(){}, same-value writes, writes of a Cmp-equal value with another element type, self operations, writes through a copy/argument/element, del(N), del(N) then "
            "rebinding) with 83 variants, in 9 contexts (top level, lambda call, named function, loop body, if, nested functions, loop in function, uncalled lambda). "
            "Families: every variant x context x type as a single attempt (plus a joined-input rendering); every ordered pair of kinds on every type; every ordered "
            "triple of the 14 core kinds on int/large array/large map (thorough: of all 21 kinds on all types, and every 4-sequence of the core kinds); random "
            "sequences of <= 3 (thorough <= 4) attempts with random variant, context, type, name and partition of the attempts over inputs (4 partitions incl. one "
            "input and a function body). Statement: in every configuration, from the first dump of the globals binding a constant N, every later dump binds N to "
            "the same typed value, until an input whose syntax tree contains del(N); a read probe evaluates to that value or to an error. A difference from the "
            "model counts as a listed class only if the model executed, during the first differing input, an index assignment / map set / delete on a LARGE container "
            "through a NON-constant name. non-trivial = at least one input parses; distinct = distinct case line.",
    "trusted_base": EVAL_TB + ["C19 theorems are about the model's environment layer (lean/Grol/Eval/Env.lean = object/state.go) and the four non-recursive writers of "
                               "lean/Grol/Eval/Eval.lean; St.hazards is instrumentation never read by the evaluator"],
    "assumptions": EVAL_ASSUME + ["the whole-evaluator invariant C19.Statement is NOT proved (writers inside the mutual block - loop variables, parameters - and the "
                                  "success path of SetNoChecks are covered by the correspondence suite only)"],
}
LEVEL = {"text": "Kernel-checked theorems about the model's environment layer for all states (the constant check refuses and changes no value; Get changes no value; "
                 "the four identifier writers change state only through Get and one checked Set), plus exhaustive short attempt sequences of every syntactic kind on the "
                 "real interpreter in 4 configurations against the model; the whole-evaluator induction is stated, not proved.",
         "design_ref": "DESIGN.md section 7, C19",
         "note": "One defect confirmed and fixed (789ff9b: large constant containers were written in place before the check); writes through a copy of a large constant "
                 "remain (two open classes shared with C06).",
         "technique": "Lean 4 proofs by symbolic execution of the state monad (run/ReadOnly/SameValues calculus) + correspondence suite `consts`"}

ID = "C19"
PROP = {
    "proof_modules": ["GrolProofs.Props.C19", "GrolProofs.Props.C19Full", "GrolProofs.ConstInvBase", "GrolProofs.ConstInvVal",
                      "GrolProofs.ConstInvEnv", "GrolProofs.ConstInvOps", "GrolProofs.ConstInvHelpers", "GrolProofs.ConstInvMain"],
    "theorems": ["Grol.E.createOrSet_constant_refused", "Grol.E.createOrSet_constant_reads_only_before_check",
                 "Grol.E.envGet_sameValues", "Grol.E.makeRef_sameValues", "Grol.E.makeRef_go_sameValues",
                 "Grol.E.sameValues_setFrame", "Grol.E.lookupStore_setStore_ne", "Grol.E.lookupStore_setStore_eq",
                 "Grol.E.lookupStore_delStore_ne", "Grol.E.readOnly_valueOf",
                 "Grol.E.evalPrefixIncrDecr_writes_via_set", "Grol.E.evalPostfix_writes_via_set",
                 "Grol.E.evalIndexAssignment_writes_via_set", "Grol.E.deleteMapEntry_writes_via_set",
                 "Grol.E.C19.final_set_refused",
                 "Grol.C19.kept", "Grol.C19.inv_preserved", "Grol.C19.inv_init", "Grol.C19.result_ok", "Grol.C19.runInput_spec",
                 "Grol.C19.session_kept", "Grol.C19.read_bound", "Grol.C19.read_kept", "Grol.C19.session_read",
                 "Grol.C19.statement_partial", "Grol.C19.kept_acc", "Grol.C19.kept_rigid", "Grol.C19.eqv_rigid", "Grol.K.spec_all",
                 "Grol.K.post_createOrSet", "Grol.K.post_setNoChecks", "Grol.K.post_envGet", "Grol.K.post_makeRef"],
    "suites": ["consts"],
    "rule": "[4th session: constant types now include representation/size mismatches - a *BigMap with few pairs from a repeated-key literal, a shrunk-and-copied map, a short slice of a large array.] consts suite: a case is a session run by the real interpreter under 4 configurations (cache on/off x registers on/off) and by the Lean "
            "evaluator model (cache on/off): input 0 binds a constant (names FOO, AB_1, Z9, K) to a value of one of 11 kinds (int, float, bool, string, nil, "
            "small/large array, small/large map, function, nested large containers); every mutation attempt is followed by an input holding the bare name "
            "(read probe). 21 syntactic kinds of attempt (= and :=, ++/-- postfix and prefix, N[i]=v, N.k=v, del(N[i]), del(N.k), integer and list loop variable, "
            "named-function and lambda parameter, func N(){}, same-value writes, writes of a Cmp-equal value with another element type, self operations, writes through a copy/argument/element, del(N), del(N) then "
            "rebinding) with 83 variants, in 9 contexts (top level, lambda call, named function, loop body, if, nested functions, loop in function, uncalled lambda). "
            "Families: every variant x context x type as a single attempt (plus a joined-input rendering); every ordered pair of kinds on every type; every ordered "
            "triple of the 14 core kinds on int/large array/large map (thorough: of all 21 kinds on all types, and every 4-sequence of the core kinds); random "
            "sequences of <= 3 (thorough <= 4) attempts with random variant, context, type, name and partition of the attempts over inputs (4 partitions incl. one "
            "input and a function body). Second family (consts2.go): the constant is a LOCAL of a function call - bound by =, by :=, as a parameter (named function, lambda), as a local of an enclosing function - and attacked from the same scope, from nested functions, loops and closures returned by inner factories, with every non-del kind and variant x 8 binding forms x every value type (quick: about half, drawn), plus 300 (thorough 6000) random sequences of 2-3 attempts; input 0 binds the top-level constant REF9 to the same literal and the inputs `lc9()` are LOCAL PROBES. Statement: in every configuration, from the first dump of the globals binding a constant N, every later dump binds N to "
            "the same typed value, until an input whose syntax tree contains del(N); a read probe evaluates to that value or to an error; a local probe `lc9()` evaluates to REF9's value or to an error. A difference from the "
            "model counts as a listed class only if the model executed, during the first differing input, an index assignment / map set / delete on a LARGE container "
            "through a NON-constant name. non-trivial = at least one input parses; distinct = distinct case line.",
    "trusted_base": EVAL_TB + ["C19 theorems are about the evaluator model (lean/Grol/Eval/*.lean): the environment layer (= object/state.go), the four non-recursive "
                               "writers and, in Props/C19Full.lean, the whole mutually recursive tree walker; St.hazards is instrumentation never read by the evaluator"],
    "assumptions": EVAL_ASSUME + ["the whole-evaluator theorems (Grol.C19.kept, statement_partial, read_kept, session_read) cover programs and sessions "
                                  "without del(...) and without a named function whose name is all upper case (Grol.K.okNode); for the latter the "
                                  "full statement Grol.E.C19.Statement (every del-free session) is stated, not proved, and covered by the consts suite",
                                  "equality of the old and new value of a constant is Grol.K.Eqv, the equivalence generated by the accepted rewrite "
                                  "(Cmp = 0 and the same types at every level): the model's floats are opaque to the kernel, so transitivity of Cmp on "
                                  "floats is a named hypothesis (kept_acc); for integer, boolean, nil and string constants it is plain equality (kept_rigid)"],
}
LEVEL = {"text": "Kernel-checked whole-evaluator invariant for the model: for every fuel, every program without del and without an all-upper-case named function, "
                 "and every state satisfying the evaluator invariant (hence every state of such a session), a constant bound directly in a frame is still bound in "
                 "that frame afterwards to an equivalent value (Grol.C19.kept; the very same value for integer, boolean, nil and string constants: kept_rigid), and "
                 "Environment.Get from that frame returns that value (read_kept, session_read); plus the environment-layer theorems for all states (the constant "
                 "check refuses and changes no value; Get changes no value; the four identifier writers change state only through Get and one checked Set), plus "
                 "exhaustive short attempt sequences of every syntactic kind on the real interpreter in 4 configurations against the model. Stated, not proved: the "
                 "same for programs defining all-upper-case named functions (Grol.E.C19.Statement).",
         "design_ref": "DESIGN.md section 7, C19",
         "note": "One defect confirmed and fixed (789ff9b: large constant containers were written in place before the check); writes through a copy of a large constant "
                 "remain (two open classes shared with C06).",
         "technique": "Lean 4: inductive invariant + Hoare-style Post calculus with a two-state relation Kept over the fuel-recursive evaluator (ConstInv*.lean), symbolic execution of the state monad (run/ReadOnly/SameValues) for the environment layer + correspondence suite `consts`"}

ID = "C06"
PROP = {
    "proof_modules": ["GrolProofs.Props.C06", "GrolProofs.Props.C06Stmts"],
    "theorems": ["Grol.E.evalInfixOp_readOnly", "Grol.E.C06.plus_has_no_effect", "Grol.E.C06.write_frame", "Grol.E.C06.delete_frame",
                 "Grol.E.C06.envCreate_frame", "Grol.E.C06.index_assignment_builds_new_value", "Grol.E.C06.mapSet_threshold_independent",
                 "Grol.E.C06.thresholds_only_feed_cache", "Grol.E.readOnly_evalArrayInfix", "Grol.E.readOnly_equalsM", "Grol.E.readOnly_valueOf",
                 "Grol.E.C06.copy_then_index_assign_keeps_original", "Grol.E.C06.copy_then_map_set_keeps_original", "Grol.E.C06.append_keeps_operands",
                 "Grol.E.C06.index_assign_stmt_top", "Grol.E.C06.createOrSet_top"],
    "suites": ["values"],
    "rule": "values suite: a case is a history of bind / copy / mutate operations over the bindings a, b, c (m, x for nesting), one operation per input, run by the real "
            "interpreter under 4 configurations and by the value-semantic Lean model; after every input ALL globals are dumped with typed values. Vocabulary: 22 array "
            "operations (b=a, b[0]=99, a[1]=98, b=b+50, b=a+51, c=a+52, c=b, b=a[1:], a=a+10, c[-1]=97, rest, [a,a], {\"k\":a}, passing to func f(x){x[0]=9;x}, "
            "b+[..], b[0:8], element of a nested copy, loops appending / assigning, write through a map element, write from a function) and 21 map operations (set by . and [], "
            "insert, del, +, rest, slices, nesting, calls, loops). Families: every history of <= 4 (thorough <= 5) core operations on a 9-element array and a 5-pair map "
            "(<= 3 / 4 on 8 elements / 4 pairs); every history of <= 2 operations of the full vocabulary on sizes {0,1,3,7,8,9,10,20} / {0,1,3,4,5,6,12}; b=a followed by every "
            "history of <= 2 on the sizes around and above the thresholds; thorough: every history of <= 3 on sizes 8,9,10 / 4,5,6; map + with a history (every history of <= 4 operations from: grow by index assignment, shrink by del, a+{existing key}, a+{smaller and existing key}, a+{}, {}+a, "
            "writes and deletes through the result, on 5 pairs; shorter on 4 and 6); rest()/slices of maps with a history (grow by two assignments, r=rest(a), r=a[1:6], insert at the front / in the middle of r, "
            "delete, overwrite, write to a afterwards; a and r observed after every step); second vocabulary (valsem2.go, 26 array and 24 map operations): stores by index assignment (c[0]=a, m.k=a), a container stored inside itself or appended twice to one array, del from inside functions and on parameters, the three spellings of `++` on an element (no grol form: parse or evaluation error, nothing may change), loop variables bound to nested containers, first(), identity and variadic functions, :=, catch(), if-expressions, closures writing a global, swaps - every single operation on sizes {0,3,8,9,12} / {0,2,4,5,7}, every history of <= 2 after b = a on the sizes around the thresholds, 150 (thorough 3000) random mixes of both vocabularies; random histories of 10-30 operations with "
            "permuted bindings, literals of random size 0-20 / 0-12 rebound in the middle, growth (v=v+v) and shrinking (v=v[0:n]) across both thresholds. Statement: all four "
            "configurations observe exactly what the model observes. Statement on the model: same observations for thresholds (8,4), (0,0), (1000,1000) with the cache off. "
            "A difference counts as a listed class only if its first occurrence comes at or after an input in which the model executed an in-place-capable operation on a "
            "large container THROUGH A NAME THAT MAY SHARE STORAGE with another live name, decided by a syntactic may-alias analysis over the session's trees (plain copies, arguments, "
            "containment incl. what a map LITERAL operand of + holds, slices/rest of arrays, array +, closures returned by known functions; literals, *, + with a map on the left and rest/slices of maps are fresh); since repo fix 11369d7 a `+` on a large array excuses nothing: a write through a name owning fresh storage never explains a difference. non-trivial = at least one input parses; distinct = distinct case line.",
    "trusted_base": EVAL_TB + ["the Go heap (sharing of BigArray slices / *BigMap pointers) is NOT modelled: the model is the value-semantic specification; the two open classes "
                               "are decided by the driver from what the MODEL executed (St.hazards), see lean/Grol/Eval/HazardSession.lean"],
    "assumptions": EVAL_ASSUME + ["C06.Statement is about the implementation and is false of the current code for large containers (2 open classes, witnesses replayed every run; the append class is repaired by repo fix 11369d7)"],
}
LEVEL = {"text": "Kernel-checked theorems that the reference model has value semantics (writes are framed to the assigned name, every infix operator leaves the state unchanged, "
                 "the operator layer ignores the thresholds; statement level: running `b = a; b[i] = n` through the evaluator model at top level leaves `a` bound to its array of ANY length and binds `b` to the updated copy, the same for a map of any number of pairs, and `c = a + b` leaves `a`, `b` bound to their arrays of any length) + exhaustive short and random long histories on the real interpreter compared with that model after every step.",
         "design_ref": "DESIGN.md section 7, C06",
         "note": "False of the current code for large containers: two open known-finding classes (index assignment, map set/delete), each with a witness replayed "
                 "on every run; copy-on-write was judged not a small safe patch.",
         "technique": "Lean 4 proofs (ReadOnly calculus over the state monad) + correspondence suite `values` with model-decided finding classes"}

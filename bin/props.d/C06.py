ID = "C06"
PROP = {
    "proof_modules": [],
    "theorems": [],
    "suites": ["values"],
    "rule": "values suite (preliminary)",
    "trusted_base": EVAL_TB,
    "assumptions": EVAL_ASSUME,
}
LEVEL = {"text": "preliminary", "design_ref": "DESIGN.md section 7, C06", "note": "", "technique": ""}

ID = "C13"
PROP = {
    "proof_modules": ["GrolProofs.Props.C13"],
    "theorems": [],
    "suites": ["macro"],
    "rule": "macro suite",
    "trusted_base": COMMON_TB,
    "assumptions": [],
}
LEVEL = {"text": "t", "design_ref": "DESIGN.md section 7 C13", "note": "n", "technique": "t"}

ID = "C13"
PROP = {
    "proof_modules": ["GrolProofs.Props.C13", "GrolProofs.MacroExpand", "GrolProofs.Props.C13Global"],
    "theorems": ["Grol.Macro.C13.expand_is_subst", "Grol.Macro.C13.params_are_bound", "Grol.Macro.C13.subst_unquote",
                 "Grol.Macro.C13.expansion_is_pure", "Grol.Macro.C13.expansion_failure_leaves_state",
                 "Grol.Macro.C13.expand_inf", "Grol.Macro.C13.expand_pre", "Grol.Macro.C13.expand_idx", "Grol.Macro.C13.expand_for",
                 "Grol.Macro.C13.expand_if", "Grol.Macro.C13.expand_if_noElse", "Grol.Macro.C13.expand_ret", "Grol.Macro.C13.expand_fn",
                 "Grol.Macro.C13.expand_macroLit", "Grol.Macro.C13.expand_stmts", "Grol.Macro.C13.expand_arr",
                 "Grol.Macro.C13.expand_builtin", "Grol.Macro.C13.expand_mapLit", "Grol.Macro.C13.expandList_cons",
                 "Grol.Macro.C13.expandList_nil", "Grol.Macro.C13.expand_call", "Grol.Macro.C13.expand_call_notMacro",
                 "Grol.Macro.C13.step_store", "Grol.Macro.C13.define_noDefs", "Grol.Macro.C13.uses_leave_definitions",
                 "Grol.Macro.C13.expand_noCalls",
                 "Grol.Macro.modify_unquote", "Grol.Macro.modifyList_unquote", "Grol.Macro.modify_noCalls",
                 "Grol.Macro.modifyList_length", "Grol.Macro.bound_extend", "Grol.Macro.lookupArg_setArg",
                 "Grol.Macro.unquoteCb_builtin",
                 "Grol.Macro.C13.expand_is_hand_substitution", "Grol.Macro.C13.expandList_is_hand_substitution",
                 "Grol.Macro.C13.expand_limits_irrelevant", "Grol.Macro.C13.call_sites_independent",
                 "Grol.Macro.C13.site_ignores_siblings", "Grol.Macro.C13.expand_again", "Grol.Macro.C13.hand_noCalls",
                 "Grol.Macro.C13.hand_noCallsList", "Grol.Macro.C13.modify_hand", "Grol.Macro.C13.modifyList_hand",
                 "Grol.Macro.C13.expandCb_hand", "Grol.Macro.C13.expandCb_simple", "Grol.Macro.C13.hand_bridge",
                 "Grol.Macro.C13.hand_bridgeList", "Grol.Macro.C13.envOK_extend", "Grol.Macro.C13.lookupArg_extend",
                 "Grol.Macro.C13.lookup_zip_none", "Grol.Macro.C13.simpleTemplate_some", "Grol.Macro.C13.handExpandList_append",
                 "Grol.Macro.C13.unquoteParam_some", "Grol.Macro.C13.identName_some",
                 "Grol.Macro.C13.distinct_eq_eraseDups", "Grol.Macro.C13.simpleTemplate_eq_suite"],
    "suites": ["macro"],
    "rule": "macro suite: every case is a session of 1..5 inputs on one persistent eval.State; per input the harness runs the REAL parser, "
            "State.DefineMacros, State.ExpandMacros (only when the store is not empty, as repl.evalOne), the printer (normal + compact) with "
            "re-parse, and State.Eval, and observes: tree before / after DefineMacros, number of macros, expanded tree, printed texts, "
            "re-parse-gives-the-same-tree flags, a quiet flag (no output and no change of the globals during ExpandMacros), the dump of "
            "the stored macro definitions (after DefineMacros; flag: identical after ExpandMacros and after evaluation), output/value/"
            "error/panic/globals of the evaluation; then the HAND-SUBSTITUTED session (template text with each unquote(p) replaced by "
            "the parenthesised argument text, built by the generator) evaluated in a fresh state. The Lean driver recomputes definition "
            "removal, store and expansion from the dump of the ORIGINAL tree with the model and compares (agree); the statement: expanded "
            "tree = the suite's own substitution (specExpand/specSubst = Grol.Macro.handExpand/handSubst of lean/Grol/Eval/MacroSpec.lean, total "
            "structural recursions independent of the model's Modify-based expansion and the very functions of the theorem "
            "C13.expand_is_hand_substitution) for programs whose "
            "called macros are one quote(T) with parameter-only unquotes and matching arity; expansion quiet; store = the definitions "
            "seen so far and unchanged by uses/evaluation; printed text re-parses to the same tree (modulo the C02 printer classes); "
            "evaluation (output, value, error, panic, non-function globals) equals the hand-substituted session's. Generators: 1..3 "
            "macros per session with 0..4 parameters each used 0..3 times, templates from infix/prefix operators, calls (also with the "
            "unquote as callee), if, for, function literals and lambdas containing unquote, array/map literals, index, statement "
            "templates (if/for/assignment) and function-valued templates; arguments: literals, identifiers, operators binding looser "
            "than the template context (+, |, &, <<, <, ||, =), side effects (print, say(), tick(), cnt++), nested macro calls; call "
            "sites at top level, as operand on either side, in functions, loops, array/map literals, index, if conditions, return, "
            "lambdas, as callee; definitions in the first or a later input; (macrofam2.go) 40 templates over the statement grammar "
            "(slice bounds, open-ended slices, dot index, map keys, else-if chains, return inside a function template, logical / comparison / "
            "prefix operators, every builtin, assignment) x 21 arguments (strings, arrays, maps, lambdas, function literals with return, "
            "if-expressions, slices, side effects, looser operators), each as a statement and as the right-hand side of an assignment, with the "
            "hand-substituted session; a macro redefined / used before its definition inside one input. 50 fixed sessions: the hand-seen witnesses and the malformed "
            "stream (wrong arity, body not a quote, unquote outside quote, undefined macro, redefinition, constant-named redefinition, "
            "macro named like a variable / an extension / info, macro literal not at top level or assigned to an index, non-parameter "
            "unquotes, macro call inside another template, parameter named like a macro or an extension). non-trivial = every case.",
    "trusted_base": COMMON_TB + [
        "modelled: eval/macro_expension.go (all), eval/quote_unquote.go (all), ast/modify.go Modify/ModifyNoOk (all cases; map literal "
        "pairs are visited keys-then-values instead of interleaved: same tree, only the order of two panics could differ), the macro "
        "part of repl.evalOne (order DefineMacros / NumMacros / ExpandMacros), object.Environment Set/SetNoChecks as used on the macro "
        "store and the macro environment; evaluation of anything but a parameter lookup inside a macro body goes through the evaluator "
        "model (evalInternal in the macro-body state: the session's MaxDepth and deadline, no cache, output discarded, no extensions): "
        "declined when it names a macro or changes the macro environment",
        "not expressible in the pure model: Go-level node sharing (the rewriter must copy, not mutate) - covered only by the store "
        "re-dump after every expansion and evaluation (flag sm) over sessions with several uses",
        "the evaluation of the expanded program is compared implementation-against-implementation (expanded vs hand-substituted text); "
        "the evaluator model is not involved there"],
    "assumptions": ["the program is the real parser's tree (dumped without function cache keys)",
                    "a case the model declines is not a disagreement; the statement is still evaluated on it"],
}
LEVEL = {
    "text": "Lean theorems on the macro expansion model: a call of a one-quote macro with parameter-only unquotes expands to subst T "
            "(params -> expanded args) (expand_is_subst, by induction over Modify's traversal); expansion commutes with every other "
            "constructor (one lemma each); programs without macro calls are unchanged; WHOLE-PROGRAM theorem "
            "expand_is_hand_substitution: for every store, every Limits and every program p on which the total hand-substitution "
            "specification handExpand (MacroSpec.lean: every macro call at any depth replaced by its template with each unquote(p) replaced "
            "by the expanded argument; defined when all called macros are one quote(T) with distinct parameters, parameter-only unquotes and "
            "matching arity, and none is named info/self) is defined, the model's ExpandMacros returns exactly handExpand store p, by "
            "structural induction over the whole tree with no side condition on fuel, depth or deadline. The macro suite's oracle "
            "(specExpand) is literally this handExpand, so the function the real code is judged against is the function of the theorem; "
            "corollaries: a site's expansion does not depend on its siblings, a second expansion of a call-free result is the identity; the store is only changed by definitions; "
            "model tied to the code by the macro correspondence suite, which also evaluates the property's statement (substitution, "
            "quiet expansion, store unchanged, print/re-parse, evaluation like the hand-substituted program) on the implementation",
    "design_ref": "DESIGN.md section 7, C13",
    "note": "full for the property's quantifier; macro bodies that are not a single quote and unquotes of non-parameters are modelled "
            "(evaluator model in the bare macro state) but outside the theorems; node sharing is modelled-not-verified",
    "technique": "executable Lean model + structural induction over the nested syntax tree + differential testing against the real "
                 "parser/expander/printer/evaluator",
}

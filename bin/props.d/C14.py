ID = "C14"

PROP = {
    "generated": True,   # the driver's strconv.Quote uses the regenerated IsPrint table
    "proof_modules": ["GrolProofs.Props.C14"],
    "theorems": ["Grol.Save.C14.sorted_one_per_binding", "Grol.Save.C14.one_line", "Grol.Save.C14.one_line_std",
                 "Grol.Save.C14.data_binding_line", "Grol.Save.C14.limit_skips", "Grol.Save.C14.int_roundtrip",
                 "Grol.Save.C14.partial", "Grol.Save.C14.readBack_printed",
                 "Grol.Save.C14.quote_roundtrip", "Grol.Save.C14.quoteBody_ascii", "Grol.Save.readLoop_quoted", "Grol.Save.quoteByte_shape",
                 "Grol.Save.sortB_perm", "Grol.Save.sortB_sorted", "Grol.Save.saveSorted_spec",
                 "Grol.Save.inspectP_noNL", "Grol.Save.quoteAscii_noNL", "Grol.Save.floatBytes_noNL",
                 "Grol.Save.parseDecInt_digitBytes"],
    "suites": ["saveload"],
    "rule": "[4th session: plus an operator x prefix-operand table of saved functions (a - --b, a+ ++b, ...) and the alias-of-a-named-function cases.] saveload suite: one case = a global environment built by evaluating definitions one by one on a fresh eval.State, then "
            "SaveGlobals -> bytes, loaded into two fresh states: line by line with eval.EvalString exactly as repl.AutoLoad does, and as a "
            "whole as load() does; both reloaded states are dumped (typed, structural: floats by bit pattern, functions by name and cache key), "
            "saved again (bytes compared), and every call expression of the case is evaluated on the original and on both reloaded states "
            "(output, value, error, panic kind compared); SaveGlobals is repeated with the case's MaxValueLen; a child process whose working "
            "directory is a scratch directory under work/ runs the real save(\"c14\") / load(\"c14\") and repl.AutoSave / repl.AutoLoad on the "
            "same definitions and its files and reloaded states are compared with the in-process ones; in every case the child's session then goes on "
            "(every other user global deleted, the others set to 1) and is saved a SECOND time over the same files (save(\"c14\") and AutoSave): file bytes = "
            "SaveGlobals' own bytes, load()/AutoLoad into fresh states = evaluating those bytes in-process, no temporary file left. Families: every scalar of a pool "
            "(16 ints incl. both int64 extremes, 28 floats incl. integral values, -0.0, subnormals, 1e308, +-Inf, NaN, 0.1, 1e21, 1e-7, 2^53, +-2^63) "
            "alone, in an array, as map key and as map value; each of the 256 one-byte strings alone and all together, the 256-byte string "
            "(also as element, key and value), 14 runes (multi-byte, non-printable, U+2028, BOM, U+FFFD, U+E0001), raw newlines; invalid UTF-8 that comes from no escape: each byte 0x80-0xff RAW in a "
            "source literal, the raw 255-byte string (alone, as element, key and value), backtick strings, every slice of \"h<rune>\" cutting a character "
            "(alone, in arrays, as map key/value, glued with +), a function body with raw bytes; 22 hand-written "
            "function cases (named, lambda, parentheses, variadic, recursion, self, closures, nested definitions, comments, functions in arrays, aliases); "
            "constants and names shadowing pre-seeded identifiers (abs, Inf, NaN, printf, ...), del of pre-seeded identifiers; MaxValueLen 1..40 on "
            "a fixed environment; values printed on more than 64 KiB; 300 (quick) / 6000 (thorough) random data environments of 1-10 bindings "
            "(nested arrays/maps of depth <=3 with sizes around the thresholds 8 and 4, keys of every type, random byte strings, a quarter with a "
            "random MaxValueLen); 250 / 5000 programs of 3-9 statements from the evaluator grammar (variables, named functions, lambdas, loops) with 3 calls "
            "of each function on generated arguments; globals holding EXTENSION functions (f=sin, p=image.new, ...: saved by name) alone, next to data globals sorting "
            "before and after them, under length limits 1-9, re-assigned and deleted, and inside arrays and maps (the recorded finding), 16 fixed + 40 / 600 random environments. "
            "A function whose printed text parses back to another tree is classified only when the two trees differ by nothing but the association inside chains of ONE of the "
            "operators + * && || & | ^ (the harness flattens such chains in both dumps, saveload_assoc.go): any other difference has no class. The Lean driver recomputes the saved bytes (with and without limit) and the count from "
            "the typed dump with the model and evaluates the statement on the implementation's observation. non-trivial = every case.",
    "trusted_base": COMMON_TB + [
        "modelled: object/state.go SaveGlobals (key order, isConstantAndExtraIdentifier, named-function lines, MaxValueLen), object.Constant, "
        "object/object.go Inspect of nil, booleans, integers, floats, strings, arrays, maps, Function.Inspect (from name + cache key), an extension-valued global written by name",
        "parameters of the model in the driver: strconv.Quote = the printer model's Quote with the regenerated IsPrint table; the printed text of "
        "each float and each function's cache key (compact printed form, C02's printer model) are taken from the implementation's dump; the "
        "theorems use the byte-level printers quoteAscii / floatBytes / intBytes, which the driver compares with the evaluator model's "
        "quoteBytes / floatStr / int64Str and with the implementation on every scalar of every case",
        "NOT modelled (checked on the implementation by the suite only): the loading side as a whole - lexer + parser + evaluator on the saved "
        "text (composed only for integers, booleans, nil and ASCII strings in readBack), strconv.ParseFloat/FormatFloat round trip, functions behaving identically, "
        "the file paths (save/load/AutoSave/AutoLoad: compared with the in-process path, not predicted)",
    ],
    "assumptions": ["strconv.FormatFloat('f', -1) / ParseFloat round-trip every finite float64 (Go library law; exercised by the float pool, not proved)",
                    "a session's functions behave identically after loading iff their compact text parses back to the same tree and they capture no call frame "
                    "(both decided per function by the harness; failures are the listed open findings)"],
}

LEVEL = {
    "text": "Kernel-checked theorems about a Lean model of SaveGlobals and of the printed forms: for every store the lines are written in key order, exactly one "
            "per written binding; the printed form of every data value (any nesting) has no newline byte, so each data binding is exactly one line "
            "name=text; under a length limit a line is the full line or absent; the printed form of every int64, both extremes included, evaluates back to "
            "it; for every string of bytes below 0x80 the lexer model's string reader applied to its quoted form returns exactly the string and consumes exactly the literal (the strconv.Quote / readString pair, by induction on the string). The full property is stated (Statement) and proved for stores whose data are integers, booleans, nil and ASCII strings (partial); non-ASCII strings, floats, "
            "containers and functions are covered by the correspondence suite, which saves ~1.1k (quick) / ~11k (thorough) generated environments with the "
            "real code, loads them back both ways into fresh states, compares values, second save, calls of reloaded functions, the limit, and the real files.",
    "design_ref": "DESIGN.md section 7, C14",
    "note": "Trusted: Lean kernel; axioms propext/Classical.choice/Quot.sound only; the hand-written model is tied to the code by the correspondence run. "
            "Five defects repaired by fix: commits (\\a\\b\\f\\v escapes, integral floats printed without .0, -9223372036854775808 read as float, auto-load "
            "stopping at a line over 64 KiB, named function stored under another name); five recorded open (compact text of multi-statement functions "
            "re-parses differently, captured variables of closures are not saved, Inf/NaN printed as shadowable identifiers, dropped comments change the "
            "second save, deleted pre-seeded identifiers come back).",
    "technique": "Lean 4 proofs by (mutual) structural induction over values and stores + differential save/load testing in-process and through real files in a child process",
}

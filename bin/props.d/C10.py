"""C10 - a failed input leaves no trace in the session."""
ID = "C10"

PROP = {
    "proof_modules": ["GrolProofs.Props.C10", "GrolProofs.Props.C10Full", "GrolProofs.RenBase", "GrolProofs.RenVal", "GrolProofs.RenEnv",
                      "GrolProofs.RenOps", "GrolProofs.RenHelpers", "GrolProofs.RenMain"],
    "theorems": ["Grol.E.C10.reset", "Grol.E.C10.reset_abnormal", "Grol.E.C10.no_trace", "Grol.E.C10.no_trace_of_same",
                 "Grol.E.C10.runInput_congr", "Grol.E.C10.runInputs_congr", "Grol.E.C10.next_input_fresh_writer",
                 "Grol.E.C10.runInput_keeps", "Grol.E.runInput_eq", "Grol.E.sameSession_iff",
                 "Grol.E.eval_keeps", "Grol.E.eval_restores", "Grol.E.allGood",
                 "Grol.C10.renaming_invariance", "Grol.C10.runInput_sim", "Grol.C10.runInputs_sim", "Grol.C10.stR_of_heapExtends",
                 "Grol.C10.statement_pointwise", "Grol.C10.statement_core", "Grol.C10.statement", "Grol.C10.statement_full",
                 "Grol.C10.renderValue_ren", "Grol.C10.renderFuel_ren", "Grol.C10.renderInv", "Grol.C10.ren_of_ok",
                 "Grol.R.simSpec_all", "Grol.R.sim_envGet", "Grol.R.sim_makeRef", "Grol.R.sim_createOrSet", "Grol.R.sim_valueOf",
                 "Grol.R.sim_envDelete", "Grol.R.sim_extendFunctionEnv", "Grol.R.sim_finishCall", "Grol.R.sim_cacheGet",
                 "Grol.R.sim_cacheSet", "Grol.R.sim_evalInfixOp", "Grol.R.cmp_ren", "Grol.R.inspect_ren", "Grol.R.keyEq_ren_left",
                 "Grol.R.keyEq_ren_right", "Grol.R.hashable_ren"],
    "suites": ["session"],
    "rule": ("[4th session: failing inputs now include failures INSIDE library functions written in grol - depth overflow in keys() of a 450-pair map built in place, errors in abs/log2/printf/keys.] session suite: one case = a base history of inputs plus side-effect-free FAILING inputs inserted at chosen positions "
             "with chosen multiplicities; the history WITH and the history WITHOUT the failing inputs are each run on a fresh persistent "
             "eval.State through the REAL repl.EvalOne (file mode, ShowEval, NoColor, NilAndErr; State.Out and EvalOne's out are two "
             "distinct writers), in 4 configurations (cache on/off x registers on/off). Per input: bytes written to State.Out, bytes "
             "EvalOne printed as the result, errs>0, panicked, continuation, and afterwards depth, scope-at-root, State.Out identity, "
             "root register count, delta of the globals dump. Failing inputs (107 texts; the last 21, incl. failures that pass through catch(), from session2.go): language errors at top level; errors inside "
             "nested calls, lambdas, recursion and loops; counted loops with a variable at nesting 1-3 at top level (written "
             "`for i = i:i+N` so that the no-register configuration stores the value the global already has) and inside functions; "
             "recovered panics of the allocation guard at top level / inside calls / inside loops (no other Go panic is reachable: the C07 "
             "stream finds none in 90000 sessions); depth overflow (MaxDepth 200-400, unbounded recursion defined in the base history or "
             "anonymous via self) at top level, inside calls, loops and argument lists; deadline (MaxDuration 1 ms on side-effect-free "
             "infinite loops - only 'it fails and leaves no trace' is required, not when); parse errors; incomplete input in line mode. "
             "Base histories: 9 hand-written families after a 7-input prelude (print inside functions and cached output replay, "
             "counted loops nested to depth 4 after failed loops, recursion after a depth overflow, closures and index assignment, "
             "scoping, redefinition of a memoized function, every printed result kind) with every failing input x one position "
             "(thorough: every position) x multiplicity 1-3; 8-15 failing loops in a row; every kind mixed at every position; "
             "generated histories (typed program generator of the eval suite, one input per statement): short ones with every position "
             "x multiplicity 1-3, long ones with random positions, kinds and multiplicities. Statement (all 4 configurations): every base "
             "input has the same complete observation in both histories; after every failing input that failed: depth 0, scope at "
             "root, State.Out is the session's writer, root register count unchanged, globals unchanged. The Lean model (runInput per "
             "parsed input, configurations B and D) predicts both histories; it declines extension calls and the allocation guard. "
             "A case in which an input that is not of the deadline kind is cancelled by the 500 ms wall-clock limit (a generated loop that "
             "does not terminate) is void: what it printed before the cancellation depends on timing (tag void:base-input-hit-deadline). "
             "non-trivial = at least one inserted input failed; distinct = distinct case line."),
    "trusted_base": COMMON_TB + EVAL_TB[len(COMMON_TB):] + [
        "repl.EvalOne itself is exercised on persistent states (harness/cmd/harness/session.go), not a replica; the hooks used are "
        "read-only accessors (VerifDepth, VerifAtRoot, VerifOutIs, VerifRootEnv, VerifNumReg, VerifStore) and the cache switch eval.VerifCacheOff",
        "session model lean/Grol/Eval/Session.lean: parse errors / incomplete inputs leave the state untouched (the parser's verdict is an "
        "input of the model), per-input deadline as a step budget, printed result = Inspect of the value",
        "the statement compares the two histories of the implementation with each other; error wording is compared between the two "
        "histories (same build) but not against the model"],
    "assumptions": EVAL_ASSUME + [
        "deadline inputs use wall-clock time (1 ms); the statement does not depend on the instant of cancellation because those inputs have no side effect",
        "memoization: entries a failing input leaves in the cache (calls completed before the failure) are not part of the statement; a later "
        "input whose observable behaviour differed because of them would fail the comparison of the two histories"],
}

LEVEL = {
    "text": ("Both histories (with / without side-effect-free failing inputs of every kind, at every position, multiplicity 1-3) are run through "
             "the real repl.EvalOne on persistent interpreter states in 4 configurations; the executable statement (same observation of "
             "every base input; depth 0, root scope, session writer, register count and globals unchanged after every failure) is evaluated "
             "on the implementation and the Lean session model predicts both histories. Theorems about the model's runInput, for all "
             "states/programs/continuations: an input's observation and successor state depend on the session state only up to the "
             "writer stack and step counter (runInput_congr, runInputs_congr); the next input starts on a single fresh writer; from a "
             "top-level state, after ANY input (normal, error, Go panic, depth guard) scope = root and depth = 0 (reset; by induction "
             "over the whole evaluator: eval_restores, eval_keeps); an input whose final state has the heap, cache and in-place-write log (St.hazards, "
             "C06/C19 instrumentation) it started with leaves no trace for any continuation (no_trace). The full statement (heap grown by unreachable frames, "
             "counters and log entries differing, cache unchanged) is PROVED for the model (Grol.C10.statement_full : C10.Statement, no hypothesis): a two-run simulation of the whole evaluator "
             "model up to a shift of the frame indices (Grol.C10.renaming_invariance: related states give related outcomes and related states, for every "
             "fuel and syntax tree; lean/GrolProofs/Ren*.lean, one lemma per model function, induction on the fuel over the 19 mutually recursive "
             "functions), its lifting to runInput and to continuations (runInput_sim, runInputs_sim), the relation established from the hypotheses of the "
             "statement (stR_of_heapExtends) and the invariance of the result renderer (renderValue_ren; renderValue is a total function since this "
             "proof: structural over the value, at most 1000 references followed in a row). What remains trusted is the tie between model and code "
             "(eval and session correspondence suites). No open finding (the cached-closure class is closed by repo fix a3f15b1)."),
    "design_ref": "DESIGN.md section 7, C10",
    "note": ("Trusted: Lean kernel; axioms propext/Classical.choice/Quot.sound only; the evaluator model is tied to the code by the eval and "
             "session correspondence runs; harness canonicalisation. The two defects seen by hand (State.Out left on a call's buffer after a "
             "panic; registers leaked by failed counted loops) are repaired in /repo and the suite confirms they are gone."),
    "technique": "Lean 4 session model + differential histories through the real REPL entry point; congruence, reset (induction over the evaluator), no-trace theorems and a two-run simulation of the evaluator up to renaming of frame indices (relational Hoare calculus SimAt)",
}

module verifharness

go 1.23.8

require grol.io/grol v0.0.0

require (
	fortio.org/cli v1.10.0 // indirect
	fortio.org/log v1.17.2 // indirect
	fortio.org/safecast v1.0.0 // indirect
	fortio.org/sets v1.3.0 // indirect
	fortio.org/struct2env v0.4.2 // indirect
	fortio.org/term v0.29.0-fortio-1 // indirect
	fortio.org/terminal v0.30.0 // indirect
	fortio.org/version v1.0.4 // indirect
	github.com/kortschak/goroutine v1.1.2 // indirect
	github.com/rivo/uniseg v0.4.7 // indirect
	golang.org/x/crypto/x509roots/fallback v0.0.0-20250406160420-959f8f3db0fb // indirect
	golang.org/x/image v0.26.0 // indirect
	golang.org/x/sys v0.31.0 // indirect
)

replace grol.io/grol => /repo

package main

import (
	"fmt"
	"math"
	"sort"
	"strconv"
	"strings"

	"grol.io/grol/ast"
	"grol.io/grol/object"
	"grol.io/grol/token"
)

// ---- AST dump: the S-expression syntax read by lean/Grol/Eval/Sexp.lean ----

// dumpCacheKeys: include each function literal's cache key (its printed form) in the dump; the macro
// suite turns it off (a tree holding a nil node cannot be printed, and the model cannot recompute keys).
var dumpCacheKeys = true

func dumpNodes(sb *strings.Builder, nodes []ast.Node) {
	for _, n := range nodes {
		sb.WriteByte(' ')
		dumpNode(sb, n)
	}
}

func isNilNode(n ast.Node) bool {
	if n == nil {
		return true
	}
	switch v := n.(type) {
	case *ast.Statements:
		return v == nil
	case *ast.Identifier:
		return v == nil
	}
	return false
}

func dumpNode(sb *strings.Builder, n ast.Node) {
	if isNilNode(n) {
		sb.WriteString("nil")
		return
	}
	switch v := n.(type) {
	case *ast.Identifier:
		sb.WriteString("(id " + hx(v.Literal()) + ")")
	case *ast.IntegerLiteral:
		sb.WriteString("(int " + strconv.FormatInt(v.Val, 10) + ")")
	case *ast.FloatLiteral:
		sb.WriteString(fmt.Sprintf("(float %016x)", math.Float64bits(v.Val)))
	case *ast.StringLiteral:
		sb.WriteString("(str " + hx(v.Literal()) + ")")
	case *ast.Boolean:
		sb.WriteString("(bool " + b2s(v.Val) + ")")
	case *ast.PrefixExpression:
		// -9223372036854775808: the evaluator keeps it an integer (eval.isMinInt64Literal, C14 fix)
		if fl, ok := v.Right.(*ast.FloatLiteral); ok && v.Type() == token.MINUS && fl.Type() == token.INT {
			if i, err := strconv.ParseInt("-"+fl.Literal(), 0, 64); err == nil && i == math.MinInt64 {
				sb.WriteString("(int -9223372036854775808)")
				return
			}
		}
		sb.WriteString("(pre " + v.Type().String() + " ")
		dumpNode(sb, v.Right)
		sb.WriteByte(')')
	case *ast.PostfixExpression:
		sb.WriteString("(post " + v.Type().String() + " " + hx(v.Prev.Literal()) + ")")
	case *ast.InfixExpression:
		sb.WriteString("(in " + v.Type().String() + " ")
		dumpNode(sb, v.Left)
		sb.WriteByte(' ')
		dumpNode(sb, v.Right)
		sb.WriteByte(')')
	case *ast.Statements:
		sb.WriteString("(stmts")
		dumpNodes(sb, v.Statements)
		sb.WriteByte(')')
	case *ast.IfExpression:
		sb.WriteString("(if ")
		dumpNode(sb, v.Condition)
		sb.WriteByte(' ')
		dumpNode(sb, v.Consequence)
		sb.WriteByte(' ')
		dumpNode(sb, v.Alternative)
		sb.WriteByte(')')
	case *ast.ForExpression:
		sb.WriteString("(for ")
		dumpNode(sb, v.Condition)
		sb.WriteByte(' ')
		dumpNode(sb, v.Body)
		sb.WriteByte(')')
	case *ast.ControlExpression:
		sb.WriteString("(ctl " + v.Type().String() + ")")
	case *ast.ReturnStatement:
		sb.WriteString("(ret ")
		dumpNode(sb, v.ReturnValue)
		sb.WriteByte(')')
	case *ast.Builtin:
		sb.WriteString("(bi " + v.Type().String())
		dumpNodes(sb, v.Parameters)
		sb.WriteByte(')')
	case *ast.FunctionLiteral:
		// the cache key is what object.SetCacheKey computes for the function value
		fn := object.Function{Parameters: v.Parameters, Name: v.Name, Body: v.Body, Variadic: v.Variadic, Lambda: v.IsLambda}
		if !fn.Lambda && fn.Name == nil {
			fn.Lambda = true
		}
		key := ""
		if dumpCacheKeys {
			key = object.SetCacheKey(&fn)
		}
		name := "-"
		if v.Name != nil {
			name = hx(v.Name.Literal())
		}
		sb.WriteString("(fn " + name + " " + b2s(v.Variadic) + " " + b2s(v.IsLambda) + " " + hx(key) + " (params")
		for _, p := range v.Parameters {
			sb.WriteString(" " + hx(p.Value().Literal()))
		}
		sb.WriteString(") ")
		dumpNode(sb, v.Body)
		sb.WriteByte(')')
	case *ast.CallExpression:
		sb.WriteString("(call ")
		dumpNode(sb, v.Function)
		dumpNodes(sb, v.Arguments)
		sb.WriteByte(')')
	case *ast.ArrayLiteral:
		sb.WriteString("(arr")
		dumpNodes(sb, v.Elements)
		sb.WriteByte(')')
	case *ast.MapLiteral:
		sb.WriteString("(map")
		for _, k := range v.Order {
			sb.WriteByte(' ')
			dumpNode(sb, k)
			sb.WriteByte(' ')
			dumpNode(sb, v.Pairs[k])
		}
		sb.WriteByte(')')
	case *ast.IndexExpression:
		sb.WriteString("(idx " + v.Type().String() + " ")
		dumpNode(sb, v.Left)
		sb.WriteByte(' ')
		dumpNode(sb, v.Index)
		sb.WriteByte(')')
	case *ast.Comment:
		sb.WriteString("(cmt)")
	case *object.Register:
		// a rewritten body (eval.setupRegister): the register standing for an identifier
		sb.WriteString("(reg " + hx(v.Literal()) + " " + strconv.Itoa(v.Idx) + ")")
	case *ast.MacroLiteral:
		sb.WriteString("(macro (params")
		for _, p := range v.Parameters {
			sb.WriteString(" " + hx(p.Value().Literal()))
		}
		sb.WriteString(") ")
		dumpNode(sb, v.Body)
		sb.WriteByte(')')
	default:
		sb.WriteString(fmt.Sprintf("(unknown %T)", n))
	}
}

// ---- value dump (no spaces): compared textually with the model's rendering ----

func dumpValue(sb *strings.Builder, o object.Object, depth int) {
	if o == nil {
		sb.WriteString("?nil")
		return
	}
	if depth > 200 {
		sb.WriteString("?deep")
		return
	}
	switch v := o.(type) {
	case object.Null:
		sb.WriteString("n")
	case object.Boolean:
		if v.Value {
			sb.WriteString("t")
		} else {
			sb.WriteString("f")
		}
	case object.Integer:
		sb.WriteString("i" + strconv.FormatInt(v.Value, 10))
	case *object.Register:
		sb.WriteString("i" + strconv.FormatInt(v.Int64(), 10))
	case object.Float:
		if math.IsNaN(v.Value) { // NaN payload/sign is not part of the language
			sb.WriteString("dNaN")
		} else {
			sb.WriteString(fmt.Sprintf("d%016x", math.Float64bits(v.Value)))
		}
	case object.String:
		sb.WriteString("s" + hx(v.Value))
	case object.Error:
		sb.WriteString("E")
	case object.ReturnValue:
		sb.WriteString("R(")
		dumpValue(sb, v.Value, depth+1)
		sb.WriteString(")")
	case object.Function:
		sb.WriteString("F" + hx(v.CacheKey))
	case object.Extension:
		sb.WriteString("X" + v.Name)
	case object.Reference:
		dumpValue(sb, object.Value(v), depth+1)
	case object.Quote:
		sb.WriteString("Q")
	case object.Macro:
		sb.WriteString("M")
	default:
		switch o.Type() {
		case object.ARRAY:
			sb.WriteString("a[")
			for i, e := range object.Elements(o) {
				if i > 0 {
					sb.WriteByte(',')
				}
				dumpValue(sb, e, depth+1)
			}
			sb.WriteString("]")
		case object.MAP:
			sb.WriteString("m[")
			m := o.(object.Map)
			cur := object.Object(m)
			first := true
			for object.Len(cur) > 0 {
				f := object.First(cur).(object.Map)
				k, _ := f.Get(object.KeyKey)
				val, _ := f.Get(object.ValueKey)
				if !first {
					sb.WriteByte(',')
				}
				first = false
				dumpValue(sb, k, depth+1)
				sb.WriteByte(':')
				dumpValue(sb, val, depth+1)
				cur = object.Rest(cur)
			}
			sb.WriteString("]")
		default:
			sb.WriteString("?" + o.Type().String())
		}
	}
}

func valueString(o object.Object) string {
	sb := &strings.Builder{}
	dumpValue(sb, o, 0)
	return sb.String()
}

// globals of a session's root environment, sorted, pre-seeded identifiers excluded
func dumpGlobals(store map[string]object.Object) string {
	keys := make([]string, 0, len(store))
	for k := range store {
		if object.VerifIsExtraIdentifier(k) {
			continue
		}
		keys = append(keys, k)
	}
	sort.Strings(keys)
	sb := &strings.Builder{}
	for i, k := range keys {
		if i > 0 {
			sb.WriteByte(',')
		}
		sb.WriteString(k + "=")
		dumpValue(sb, store[k], 0)
	}
	return sb.String()
}

// Correspondence harness: drives the real grol packages (built from /repo's working tree
// with -tags verif) and writes one case per line: <input>\t<canonical observation>.
// All random choices derive from one splitmix64 state seeded by -seed.
package main

import (
	"bufio"
	"encoding/hex"
	"flag"
	"fmt"
	"os"
	"strings"
	"time"
)

// A suite generates case inputs (one line each) and runs the real code on one input,
// returning the canonical observation.  Inputs never contain tabs or newlines.
type suite struct {
	gen func(tier string, r *rng, emit func(input string))
	run func(input string) string
}

var suites = map[string]suite{}

// a single case may take at most this long (the evaluator's own deadline is 5 s)
const caseTimeout = 40 * time.Second

// arguments after the suite name
var suiteArgs []string

// Subcommands that are not correspondence suites (fact extractor, child-process modes of
// suites that must run the real code in a separate process).  They receive the arguments
// after their name and return the exit status.
var subcommands = map[string]func(args []string) int{}

// cleanups run after the last case (child processes, scratch directories).
var cleanups []func()

type out struct {
	w *bufio.Writer
	n int
}

func (o *out) emit(input, obs string) {
	o.w.WriteString(input)
	o.w.WriteByte('\t')
	o.w.WriteString(obs)
	o.w.WriteByte('\n')
	o.n++
}

type rng struct{ s uint64 }

func (r *rng) next() uint64 {
	r.s += 0x9e3779b97f4a7c15
	z := r.s
	z = (z ^ (z >> 30)) * 0xbf58476d1ce4e5b9
	z = (z ^ (z >> 27)) * 0x94d049bb133111eb
	return z ^ (z >> 31)
}

func (r *rng) intn(n int) int { return int(r.next() % uint64(n)) }

func hx(s string) string {
	if s == "" {
		return "-"
	}
	return hex.EncodeToString([]byte(s))
}

func hxList(l []string) string {
	parts := make([]string, len(l))
	for i, s := range l {
		parts[i] = hx(s)
	}
	return strings.Join(parts, ",")
}

func b2s(b bool) string {
	if b {
		return "1"
	}
	return "0"
}

func main() {
	tier := flag.String("tier", "quick", "quick|thorough")
	seed := flag.Uint64("seed", 1, "PRNG seed")
	outPath := flag.String("out", "", "output file (default stdout)")
	genOnlyFlag := flag.Bool("genonly", false, "only generate the inputs, do not run them")
	inputsFlag := flag.String("inputs", "", "run only the inputs listed in this file (replay / corpus mode)")
	flag.Parse()
	if flag.NArg() < 1 {
		fmt.Fprintln(os.Stderr, "usage: harness [flags] <suite> [args]")
		os.Exit(2)
	}
	name := flag.Arg(0)
	suiteArgs = flag.Args()[1:]
	if sub, ok := subcommands[name]; ok {
		os.Exit(sub(flag.Args()[1:]))
	}
	su, ok := suites[name]
	if !ok {
		fmt.Fprintln(os.Stderr, "unknown suite", flag.Arg(0))
		os.Exit(2)
	}
	f := os.Stdout
	if *outPath != "" {
		var err error
		f, err = os.Create(*outPath)
		if err != nil {
			fmt.Fprintln(os.Stderr, err)
			os.Exit(2)
		}
		defer f.Close()
	}
	o := &out{w: bufio.NewWriterSize(f, 1<<20)}
	genOnly := *genOnlyFlag
	// <out>.cur always holds the input being run: after a fatal crash of the process (Go stack overflow, out of memory:
	// nothing recover() sees) bin/check reads it and reports that input as the replay of the crash.
	var cur *os.File
	if *outPath != "" && !genOnly {
		cur, _ = os.Create(*outPath + ".cur")
	}
	runOne := func(in string) {
		if genOnly {
			o.emit(in, "")
			return
		}
		if cur != nil {
			_ = cur.Truncate(0)
			_, _ = cur.WriteAt([]byte(in), 0)
		}
		// watchdog: the code under test may loop without polling its context; a goroutine cannot be
		// killed, so report the hang as this case's observation and stop the run.
		done := make(chan string, 1)
		go func() { done <- safeRun(su, in) }()
		select {
		case obs := <-done:
			o.emit(in, obs)
		case <-time.After(caseTimeout):
			o.emit(in, "HANG")
			o.w.Flush()
			fmt.Fprintf(os.Stderr, "harness: case did not return within %v: %s\n", caseTimeout, in)
			os.Exit(3)
		}
	}
	if *inputsFlag != "" {
		readInputs(*inputsFlag, runOne)
	} else {
		readInputs("corpus/"+name+".txt", runOne)
		su.gen(*tier, &rng{s: *seed}, runOne)
	}
	o.w.Flush()
	if cur != nil {
		cur.Close()
		os.Remove(*outPath + ".cur")
	}
	for _, c := range cleanups {
		c()
	}
	fmt.Fprintf(os.Stderr, "harness: %s wrote %d cases\n", flag.Arg(0), o.n)
}

func unhx(h string) string {
	if h == "-" || h == "" {
		return ""
	}
	b, err := hex.DecodeString(h)
	if err != nil {
		panic(err)
	}
	return string(b)
}

// safeRun: a Go panic escaping the code under test is an observation, not a harness crash.
func safeRun(su suite, in string) (obs string) {
	defer func() {
		if r := recover(); r != nil {
			obs = "PANIC"
		}
	}()
	return su.run(in)
}

func readInputs(path string, f func(string)) {
	data, err := os.ReadFile(path)
	if err != nil {
		return
	}
	for _, l := range strings.Split(string(data), "\n") {
		l = strings.TrimRight(l, "\r")
		if l == "" || strings.HasPrefix(l, "#") {
			continue
		}
		if i := strings.IndexByte(l, '\t'); i >= 0 {
			l = l[:i]
		}
		f(l)
	}
}

package main

import (
	"bytes"
	"context"
	"fmt"
	"runtime/debug"
	"sort"
	"strconv"
	"strings"
	"sync"
	"time"

	"grol.io/grol/ast"
	"grol.io/grol/eval"
	"grol.io/grol/lexer"
	"grol.io/grol/object"
	"grol.io/grol/parser"
)

// The eval suite: one case = one session (a list of inputs evaluated on one persistent
// eval.State), run under the four configurations cache on/off x registers on/off.
//
//	input: <property>;<opts>;<hex text>|<hex text>|...
//	obs:   <ast>|<ast>|... @@ A:<r>/<r>/... @@ B:... @@ C:... @@ D:...
//
// A = cache on, registers on (the default configuration); B = cache on, no registers;
// C = cache off, registers on; D = cache off, no registers.
// <r> per input: P (parse error) or o=<hex output>;v=<value>;e=<0|1>;p=<-|depth|mem|go>;g=<globals>

func init() {
	suites["eval"] = suite{gen: evalGen, run: evalRunT}
}

type evalOpts struct {
	maxDepth int
	steps    int // >0: the evaluation context reports cancellation after this many Err() calls
}

func parseEvalOpts(s string) evalOpts {
	o := evalOpts{}
	for _, kv := range strings.Split(s, ",") {
		p := strings.SplitN(kv, "=", 2)
		if len(p) != 2 {
			continue
		}
		n, _ := strconv.Atoi(p[1])
		switch p[0] {
		case "d":
			o.maxDepth = n
		case "steps":
			o.steps = n
		}
	}
	return o
}

// countingCtx is a context whose Err() turns non-nil after n calls: "all cancellation instants
// relative to evaluation progress" become enumerable.
type countingCtx struct {
	context.Context
	left  int
	fired bool // the budget ran out during this input: what the run did then depends on HOW the steps were spent
}

func (c *countingCtx) Err() error {
	if c.left <= 0 {
		c.fired = true
		return context.DeadlineExceeded
	}
	c.left--
	return nil
}

func panicKind(r any) string {
	msg := fmt.Sprint(r)
	switch {
	case strings.Contains(msg, "max depth"):
		return "depth"
	case strings.Contains(msg, "would exceed memory"):
		return "mem"
	default:
		return "go"
	}
}

// evalInput mirrors repl.EvalOne/evalOne (file mode, ShowEval) but keeps the result object.
func evalInput(s *eval.State, out *bytes.Buffer, text string, o evalOpts) (res string) {
	start := out.Len()
	finish := func(v string, isErr bool, pk string) string {
		return fmt.Sprintf("o=%s;v=%s;e=%s;p=%s;g=%s", hx(out.String()[start:]), v, b2s(isErr), pk,
			dumpGlobals(s.VerifRootEnv().VerifStore()))
	}
	savedOut := s.Out
	defer func() {
		if r := recover(); r != nil {
			s.Out = savedOut // as repl.EvalOne does: a panic inside a call leaves the call's private buffer installed
			s.Reset()
			res = finish("-", false, panicKind(r))
		}
	}()
	if o.steps > 0 {
		s.Context = &countingCtx{Context: context.Background(), left: o.steps}
	} else {
		cancel := s.SetContext(context.Background(), 5*time.Second)
		defer cancel()
	}
	p := parser.New(lexer.New(text))
	var program ast.Node = p.ParseProgram()
	if len(p.Errors()) > 0 {
		return "P"
	}
	s.DefineMacros(program)
	if s.NumMacros() > 0 {
		program = s.ExpandMacros(program)
	}
	obj := s.Eval(program)
	return finish(valueString(obj), obj.Type() == object.ERROR, "-")
}

func newSession(noReg bool, o evalOpts) (*eval.State, *bytes.Buffer) {
	s := eval.NewState()
	s.NoReg = noReg
	if o.maxDepth > 0 {
		s.MaxDepth = o.maxDepth
	}
	out := &bytes.Buffer{}
	s.Out = out
	s.LogOut = out
	s.NoLog = true
	return s, out
}

func astOf(text string) string {
	p := parser.New(lexer.New(text))
	program := p.ParseProgram()
	if len(p.Errors()) > 0 {
		return "P"
	}
	sb := &strings.Builder{}
	dumpNode(sb, program)
	return sb.String()
}

var memLimitOnce sync.Once

// evalRun: the session format shared with the consts and values suites; the eval suite itself adds the field t=<0|1>
func evalRun(input string) string { return evalRunOpt(input, false) }

func evalRunT(input string) string { return evalRunOpt(input, true) }

func evalRunOpt(input string, withT bool) string {
	initExtensions()
	// "with a process memory limit configured": the allocation guard compares requests with GOMEMLIMIT
	memLimitOnce.Do(func() { debug.SetMemoryLimit(256 << 20) })
	parts := strings.SplitN(input, ";", 3)
	if len(parts) != 3 {
		return "BAD"
	}
	o := parseEvalOpts(parts[1])
	var texts, given []string
	for _, h := range strings.Split(parts[2], "|") {
		// <text>^<tree>: the generator supplies the tree the documentation promises for this text
		if i := strings.IndexByte(h, '^'); i >= 0 {
			texts = append(texts, unhx(h[:i]))
			given = append(given, unhx(h[i+1:]))
		} else {
			texts = append(texts, unhx(h))
			given = append(given, "")
		}
	}
	sb := &strings.Builder{}
	for i, t := range texts {
		if i > 0 {
			sb.WriteByte('|')
		}
		if given[i] != "" {
			sb.WriteString(given[i])
		} else {
			sb.WriteString(astOf(t))
		}
	}
	for ci, cfg := range []struct {
		name            string
		cacheOff, noReg bool
	}{{"A", false, false}, {"B", false, true}, {"C", true, false}, {"D", true, true}} {
		_ = ci
		eval.VerifCacheOff = cfg.cacheOff
		s, out := newSession(cfg.noReg, o)
		sb.WriteString(" @@ " + cfg.name + ":")
		for i, t := range texts {
			if i > 0 {
				sb.WriteByte('/')
			}
			r := evalInput(s, out, t, o)
			if r != "P" && withT {
				// t=1: the step budget was exhausted during this input.  A cache hit or a register saves steps, so
				// the configurations are cut at different points: such a case says nothing about C01/C04/C05.
				cc, _ := s.Context.(*countingCtx)
				r += ";t=" + b2s(cc != nil && cc.fired)
			}
			sb.WriteString(r)
		}
	}
	eval.VerifCacheOff = false
	return sb.String()
}

// evalGen: families selected by the property (suite argument). Every case is a session.
func evalGen(tier string, r *rng, emit func(string)) {
	prop := "C01"
	if len(suiteArgs) > 0 {
		prop = suiteArgs[0]
	}
	n := 1500
	if tier == "thorough" {
		n = 30000
	}
	if prop == "C01" { // every ordered pair of binary operators, unparenthesised, against the documented grouping
		for k := 0; k < precPairSessions(); k++ {
			emit(prop + ";steps=200000;" + strings.Join(genPrecPairs(k), "|"))
		}
	}
	for i := 0; i < n; i++ {
		if prop == "C01" && i%4 == 3 {
			emit(prop + ";steps=200000;" + genPrecCase(r))
			continue
		}
		var fam []string
		switch {
		case prop == "C04" && i%4 == 3:
			fam = famRedef(r)
		case prop == "C04" && i%2 == 1:
			fam = famCache(r)
		case prop == "C05" && i%8 == 7:
			fam = famRegsPanic(r)
		case prop == "C05" && i%4 == 3:
			fam = famRegs2(r)
		case prop == "C05" && i%2 == 1:
			fam = famRegs(r)
		case prop == "C07" && i%6 == 3:
			fam = famMutExample(r)
		case prop == "C07" && i%3 == 1:
			fam = famPanic(r)
		case prop == "C07" && i%3 == 2:
			fam = famExt(r, extensionNames())
		case prop == "C01" && i%16 == 9:
			fam = famRedef(r)
		case prop == "C01" && i%8 == 1:
			fam = famCache(r)
		case prop == "C01" && i%16 == 13:
			fam = famRegs2(r)
		case prop == "C01" && i%8 == 5:
			fam = famRegs(r)
		}
		if fam != nil {
			hs := make([]string, len(fam))
			for j, t := range fam {
				hs[j] = hx(t)
			}
			opts := "steps=200000"
			if prop == "C05" && i%8 == 7 {
				opts = "steps=200000,d=70" // the depth guard fires inside the loops
			}
			if prop == "C07" && i%6 == 3 {
				// shipped examples recurse 100000 deep and some mutations make every level cost O(depth) (info):
				// a small depth limit and step budget keep a case within seconds
				opts = "steps=40000,d=400"
			}
			emit(prop + ";" + opts + ";" + strings.Join(hs, "|"))
			continue
		}
		stmts := genEvalProgram(r, 3+r.intn(8), prop == "C07", false)
		// either one input holding the whole program, or one input per top-level statement
		var texts []string
		if r.intn(3) == 0 {
			texts = stmts
		} else {
			texts = []string{strings.Join(stmts, "\n")}
		}
		hs := make([]string, len(texts))
		for j, t := range texts {
			hs[j] = hx(t)
		}
		emit(prop + ";steps=200000;" + strings.Join(hs, "|"))
	}
}

var extNamesCache []string

func extensionNames() []string {
	if extNamesCache == nil {
		initExtensions()
		for n := range object.ExtraFunctions() {
			extNamesCache = append(extNamesCache, n)
		}
		sort.Strings(extNamesCache)
	}
	return extNamesCache
}

// Generator of lean/Grol/Generated/IOFacts.lean (C17, C18):
//   - fileSites: every call of a file-system / process / network API in the production Go files
//   - extensionNames: every string literal used as an extension name, with the `if` conditions
//     that syntactically enclose it; createCalls: the same for calls of the package-local
//     create*Functions (so "exec is only registered under c.UnrestrictedIOs" is a fact)
//   - autoSaveCalls / saveGlobalsWrites: order of the calls inside repl.AutoSave and the
//     writes inside Environment.SaveGlobals
package main

import (
	"fmt"
	"go/ast"
	"go/token"
	"path/filepath"
	"sort"
	"strings"
)

func init() { extractors = append(extractors, extractIOFacts) }

// Calls into these packages are recorded.  For "os" everything is recorded except the
// functions listed in osBenign (no file-system or process effect).
var ioPackages = map[string]bool{
	"os": true, "os/exec": true, "io/ioutil": true, "syscall": true, "net": true, "net/http": true,
	"plugin": true, "golang.org/x/sys/unix": true,
}

var osBenign = map[string]bool{
	"Exit": true, "Getenv": true, "LookupEnv": true, "Environ": true, "Getpid": true, "Getppid": true,
	"Getwd": true, "Hostname": true, "UserHomeDir": true, "UserCacheDir": true, "UserConfigDir": true,
	"IsNotExist": true, "IsExist": true, "IsPermission": true, "IsTimeout": true, "Executable": true,
	"Getuid": true, "Geteuid": true, "Getgid": true, "Getegid": true, "Expand": true, "ExpandEnv": true,
	"Getpagesize": true, "TempDir": true, "NewSyscallError": true, "IsPathSeparator": true, "SameFile": true,
}

// of path/filepath only the functions that touch the file system
var filepathFS = map[string]bool{"Walk": true, "WalkDir": true, "Glob": true, "EvalSymlinks": true, "Abs": true}

type ioSite struct{ file, fn, callee, args string }

type condItem struct {
	name, fn string
	conds    []string
}

func extractIOFacts(repo, gendir string) error {
	files, err := repoGoFiles(repo)
	if err != nil {
		return err
	}
	var sites []ioSite
	var names, creates []condItem
	var autoSave, saveGlobals []string
	for _, g := range files {
		imps := g.imports()
		for _, decl := range g.file.Decls {
			fn := "(package level)"
			var body ast.Node = decl
			if fd, ok := decl.(*ast.FuncDecl); ok {
				fn = fd.Name.Name
				if fd.Recv != nil && len(fd.Recv.List) == 1 {
					fn = strings.TrimPrefix(g.src(fd.Recv.List[0].Type), "*") + "." + fn
				}
			}
			g.walkConds(body, nil, func(n ast.Node, conds []string) {
				switch x := n.(type) {
				case *ast.CallExpr:
					args := make([]string, len(x.Args))
					for i, a := range x.Args {
						args[i] = g.src(a)
					}
					callee := g.src(x.Fun)
					if sel, ok := x.Fun.(*ast.SelectorExpr); ok {
						if id, ok := sel.X.(*ast.Ident); ok && id.Obj == nil {
							path := imps[id.Name]
							rec := ioPackages[path] && !(path == "os" && osBenign[sel.Sel.Name])
							rec = rec || (path == "path/filepath" && filepathFS[sel.Sel.Name])
							if rec {
								sites = append(sites, ioSite{g.rel, fn, callee, strings.Join(args, ", ")})
							}
						}
					}
					if id, ok := x.Fun.(*ast.Ident); ok && filepath.Dir(g.rel) == "extensions" &&
						strings.HasPrefix(id.Name, "create") {
						creates = append(creates, condItem{id.Name, fn, conds})
					}
					if g.rel == "repl/repl.go" && fn == "AutoSave" && !strings.HasPrefix(callee, "log.") &&
						callee != "verifCrashPoint" {
						autoSave = append(autoSave, callee+"("+strings.Join(args, ", ")+")")
					}
					if g.rel == "object/state.go" && fn == "Environment.SaveGlobals" && len(args) > 0 && args[0] == "to" &&
						!strings.HasPrefix(callee, "verif") {
						saveGlobals = append(saveGlobals, callee+"("+strings.Join(args, ", ")+")")
					}
				case *ast.KeyValueExpr:
					// Name: "x" inside an Extension literal
					if k, ok := x.Key.(*ast.Ident); ok && k.Name == "Name" && filepath.Dir(g.rel) == "extensions" {
						if lit, ok := x.Value.(*ast.BasicLit); ok && lit.Kind == token.STRING {
							names = append(names, condItem{strings.Trim(lit.Value, "\"`"), fn, conds})
						}
					}
				case *ast.AssignStmt:
					// v.Name = "x"
					if len(x.Lhs) == 1 && len(x.Rhs) == 1 && filepath.Dir(g.rel) == "extensions" {
						if sel, ok := x.Lhs[0].(*ast.SelectorExpr); ok && sel.Sel.Name == "Name" {
							if lit, ok := x.Rhs[0].(*ast.BasicLit); ok && lit.Kind == token.STRING {
								names = append(names, condItem{strings.Trim(lit.Value, "\"`"), fn, conds})
							}
						}
					}
				}
			})
		}
	}
	sort.Slice(sites, func(i, j int) bool {
		a, b := sites[i], sites[j]
		if a.file != b.file {
			return a.file < b.file
		}
		if a.fn != b.fn {
			return a.fn < b.fn
		}
		if a.callee != b.callee {
			return a.callee < b.callee
		}
		return a.args < b.args
	})
	sortConds := func(l []condItem) {
		sort.SliceStable(l, func(i, j int) bool {
			if l[i].name != l[j].name {
				return l[i].name < l[j].name
			}
			return l[i].fn < l[j].fn
		})
	}
	sortConds(names)
	sortConds(creates)

	var sb strings.Builder
	sb.WriteString("/- GENERATED by `harness extract` (harness/cmd/harness/extract_iofacts.go) from the Go sources of the\n   repo; regenerated on every run of bin/check.  Do not edit. -/\n")
	sb.WriteString("namespace Grol.Generated.IOFacts\n\n")
	sb.WriteString("/-- one call of a file-system / process / network API: file, enclosing function, callee, argument text -/\n")
	sb.WriteString("structure Site where\n  file : String\n  fn : String\n  callee : String\n  args : String\n  deriving DecidableEq, Repr\n\n")
	sb.WriteString("/-- every call into os (except the effect-free functions), os/exec, io/ioutil, syscall, net, net/http,\nplugin, x/sys/unix and the file-system functions of path/filepath, in the non-test Go files, sorted -/\n")
	sb.WriteString("def fileSites : List Site := [\n")
	for i, s := range sites {
		sep := ","
		if i == len(sites)-1 {
			sep = ""
		}
		fmt.Fprintf(&sb, "  ⟨%s, %s, %s, %s⟩%s\n", leanStr(s.file), leanStr(s.fn), leanStr(s.callee), leanStr(s.args), sep)
	}
	sb.WriteString("]\n\n")
	writeConds := func(name, doc string, l []condItem) {
		fmt.Fprintf(&sb, "/-- %s -/\ndef %s : List (String × String × List String) := [\n", doc, name)
		for i, c := range l {
			sep := ","
			if i == len(l)-1 {
				sep = ""
			}
			fmt.Fprintf(&sb, "  (%s, %s, %s)%s\n", leanStr(c.name), leanStr(c.fn), leanStrList(c.conds), sep)
		}
		sb.WriteString("]\n\n")
	}
	writeConds("extensionNames", "every string literal used as an extension name in package extensions: (name, enclosing function, enclosing `if` conditions outermost first)", names)
	writeConds("createCalls", "every call of a package-local create* function in package extensions: (callee, enclosing function, enclosing `if` conditions)", creates)
	fmt.Fprintf(&sb, "/-- the calls inside repl.AutoSave in source order (logging and crash points left out) -/\ndef autoSaveCalls : List String := %s\n\n", leanStrList(autoSave))
	fmt.Fprintf(&sb, "/-- the writes to the output inside Environment.SaveGlobals in source order (each inside the loop over the sorted keys) -/\ndef saveGlobalsWrites : List String := %s\n\n", leanStrList(saveGlobals))
	sb.WriteString("end Grol.Generated.IOFacts\n")
	return writeIfChanged(filepath.Join(gendir, "IOFacts.lean"), sb.String())
}

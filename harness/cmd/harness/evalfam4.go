package main

import (
	"fmt"
	"strconv"
	"strings"
)

// Families added by the gap analysis of C01 (second review of the property text against the generators).
// The typed generator of evalgen.go never produced: containers above the small/large thresholds, closures
// that call other closures of the same text, `:=` shadowing an outer name, variadics beyond one fixed
// function, error()/catch() outside two templates, else-if chains, mutual recursion, loops leaving through
// return at depth, non-ASCII strings.  Every family below is a session (list of inputs) run in the four
// configurations and by the model; the statement is the property's (C01: default configuration = reference).
//
// evalGenExtra is the single hook called from evalGen.

func evalGenExtra(prop, tier string, r *rng, emit func(string)) {
	n := 60
	if tier == "thorough" {
		n = 1500
	}
	var fams []func(*rng) []string
	switch prop {
	case "C01":
		fams = []func(*rng) []string{famClosures, famScope, famBig, famVariadic, famErrCatch, famControl, famStrings}
	case "C05":
		fams = []func(*rng) []string{famRegs3, famRegs3, famClosures, famControl, famBig}
	case "C07":
		fams = []func(*rng) []string{famOpKinds, famOpKinds, famOpKinds, famErrCatch, famVariadic}
	case "C04":
		fams = []func(*rng) []string{famClosures, famScope, famVariadic, famErrCatch}
	default:
		return
	}
	for i := 0; i < n; i++ {
		for _, f := range fams {
			texts := f(r)
			hs := make([]string, len(texts))
			for j, t := range texts {
				hs[j] = hx(t)
			}
			emit(prop + ";steps=200000,d=2000;" + strings.Join(hs, "|"))
		}
	}
}

func itoa(n int) string { return strconv.Itoa(n) }

// never the wording of an interpreter error: a caught result is shown as its value, or as "ERR"
const svDef = `sv = func(c){ if c.err { return "ERR" }; c.value }`

func ints(r *rng, n, lo, hi int) []string {
	res := make([]string, n)
	for i := range res {
		res[i] = itoa(lo + r.intn(hi-lo+1))
	}
	return res
}

// ---------------------------------------------------------------------------------------------------------
// closures: factories, several instances of ONE closure text calling each other, chains, currying,
// higher-order helpers written in grol, closures over loop variables and parameters, mutual recursion

func famClosures(r *rng) []string {
	var res []string
	a, b, c := 1+r.intn(9), 10+r.intn(9), 20+r.intn(9)
	switch r.intn(9) {
	case 0: // instances of one text calling each other (repo fix 0558004)
		body := pickS(r,
			"if f == nil {n} else {n + f(nil)}",
			"if f == nil {return n}; [n, f(nil)]",
			"if f == nil {n * 2} else {f(nil) - n}",
			"if f == nil {println(\"leaf\", n); n} else {println(\"node\", n); r = f(nil); println(\"back\", n); r + n}")
		mk := pickS(r, "mk = func(n){ func(f){ "+body+" } }", "func mk(n){ func(f){ "+body+" } }", "mk = n => f => { "+body+" }",
			"mk = func(n){ k = n; func(f){ n = k; "+body+" } }")
		res = append(res, mk, fmt.Sprintf("c1 = mk(%d); c2 = mk(%d); c3 = mk(%d)", a, b, c),
			"println(c1(c2), c2(c1), c1(c1), c3(nil))", "println(c1(c2))", "println(c2(c3), c3(c2), c1(c2))")
	case 1: // a linked structure of closures of one text
		n := 1 + r.intn(6)
		expr := "nil"
		for i := n; i >= 1; i-- {
			expr = fmt.Sprintf("cons(%d, %s)", i*a, expr)
		}
		res = append(res, pickS(r,
			"cons = func(h, t){ func(){ if t == nil {[h]} else {[h] + t()} } }",
			"cons = func(h, t){ func(){ if t == nil {return h}; h + t() } }",
			"func cons(h, t){ () => if t == nil {1} else {1 + t()} }",
			"cons = func(h, t){ func(){ println(h); if t != nil {t()}; h } }"),
			"l = "+expr, "println(l())", "println(l())", "l2 = cons(0, l); println(l2(), l())")
	case 2: // counters: mutable captured state, instances independent
		mk := pickS(r,
			"mk = func(n){ () => { n = n + 1; n } }",
			"mk = func(n){ c = n; func(){ c = c + n; c } }",
			"func mk(n){ st = [n]; func(){ st = st + [len(st)]; st } }",
			"mk = func(n){ {\"inc\": () => { n = n + 1; n }, \"get\": () => n} }")
		call := func(v string) string {
			if strings.Contains(mk, "inc") {
				return pickS(r, v+".inc()", v+".get()")
			}
			return v + "()"
		}
		res = append(res, mk, fmt.Sprintf("k1 = mk(%d); k2 = mk(%d)", a, b))
		for i := 0; i < 3+r.intn(5); i++ {
			res = append(res, "println("+call(pickS(r, "k1", "k2"))+", "+call(pickS(r, "k1", "k2"))+")")
		}
		res = append(res, fmt.Sprintf("k3 = mk(%d); println(%s, %s)", a, call("k3"), call("k1")))
	case 3: // currying and composition
		res = append(res,
			"add = a => b => c => a + b * c",
			"compose = (f, g) => x => f(g(x))",
			"twice = f => compose(f, f)",
			fmt.Sprintf("inc = add(%d)(1); dbl = add(0)(%d)", a, 2),
			fmt.Sprintf("println(inc(%d), dbl(%d), compose(inc, dbl)(%d), compose(dbl, inc)(%d))", b, b, c, c),
			fmt.Sprintf("println(twice(inc)(%d), twice(twice(dbl))(%d), twice(twice)(inc)(%d))", a, a, a),
			fmt.Sprintf("println(compose(compose(inc, dbl), compose(dbl, inc))(%d))", b))
	case 4: // higher-order helpers over arrays, lambdas capturing locals
		res = append(res,
			"func map(f, a){ if len(a) == 0 {return []}; [f(first(a))] + map(f, rest(a)) }",
			"func filter(p, a){ r = []; for e = a { if p(e) { r = r + [e] } }; r }",
			"func fold(f, z, a){ for e = a { z = f(z, e) }; z }",
			fmt.Sprintf("xs = %d:%d", a, a+3+r.intn(9)),
			fmt.Sprintf("func scale(k){ map(x => x * k, xs) }; println(scale(%d), scale(%d))", b, c),
			fmt.Sprintf("func above(t){ filter(x => x > t, xs) }; println(above(%d), above(%d), above(0))", a+2, a+5),
			"println(fold((s, x) => s + x, 0, xs), fold((s, x) => [x] + s, [], xs), fold((m, x) => m + {x: x * x}, {}, xs))",
			fmt.Sprintf("func addAll(n){ fold((s, x) => s + x + n, 0, map(x => x - n, xs)) }; println(addAll(%d), addAll(%d))", a, b))
	case 5: // closures over loop variables and parameters
		res = append(res,
			fmt.Sprintf("fs = []; for i = 0:%d { fs = fs + [() => i * %d] }", 2+r.intn(4), a),
			"println(fs[0](), fs[1](), fs[-1]())",
			fmt.Sprintf("func mkall(n){ r = []; for i = n { j = i * %d; r = r + [() => [i, j, n]] }; r }", b),
			fmt.Sprintf("gs = mkall(%d); println(gs[0](), gs[1](), len(gs))", 2+r.intn(4)),
			"func each(a, f){ for e = a { f(e) } }",
			fmt.Sprintf("tot = 0; each([%s], x => { tot = tot + x }); println(tot)", strings.Join(ints(r, 1+r.intn(10), -5, 20), ",")),
			"func outer(p){ inner = func(q){ p = p + q; p }; inner(1); inner(2); p }",
			fmt.Sprintf("println(outer(%d), outer(%d))", a, a))
	case 6: // mutual recursion, recursion through self inside closures, functions stored in containers
		res = append(res,
			"func ev(n){ if n == 0 {true} else {od(n - 1)} }",
			"func od(n){ if n == 0 {false} else {ev(n - 1)} }",
			fmt.Sprintf("println(ev(%d), od(%d), ev(%d))", a, a, b),
			"fact = func(n){ if n <= 1 {return 1}; n * self(n - 1) }",
			"ops = {\"f\": fact, \"sq\": x => x * x, \"id\": x => x}",
			fmt.Sprintf("println(ops.f(%d), ops.sq(%d), ops[\"id\"](%d), [fact, ev][0](%d))", 1+r.intn(12), a, b, 1+r.intn(6)),
			fmt.Sprintf("fib = func(n){ if n < 2 {return n}; fib(n - 1) + fib(n - 2) }; println(fib(%d), fib(%d))", 5+r.intn(10), 3+r.intn(6)),
			fmt.Sprintf("ack = func(m, n){ if m == 0 {return n + 1}; if n == 0 {return ack(m - 1, 1)}; ack(m - 1, ack(m, n - 1)) }; println(ack(2, %d))", r.intn(4)))
	case 7: // closures of one text that differ only in a captured FUNCTION, called with equal arguments (repo fix 103fa2c:
		// the second call was answered from the cache with the first closure's result)
		mk := pickS(r, "app = func(g){ func(x){ g(x) } }", "app = g => x => g(x)", "func app(g){ h = g; func(x){ [h(x), g(x)] } }",
			"app = func(k){ h = [x => x + 1, x => x * 2, x => 0 - x][k]; func(x){ h(x) } }")
		f1, f2 := "x => x + 1", "x => x * 2"
		if strings.Contains(mk, "[k]") {
			f1, f2 = "0", "1"
		}
		res = append(res, mk, "i1 = app("+f1+"); d1 = app("+f2+")",
			fmt.Sprintf("println(i1(%d), d1(%d), i1(%d), d1(%d))", b, b, b, b),
			fmt.Sprintf("println(d1(%d), i1(%d))", c, c),
			"ap2 = (f, x) => f(x); sq = x => x * x; ng = x => 0 - x", fmt.Sprintf("println(ap2(sq, %d), ap2(ng, %d), ap2(sq, %d))", a, a, a))
	default: // two factories with different texts, instances passed around; closure returned through a container and a call
		res = append(res,
			"mka = func(n){ func(f){ if f == nil {n} else {f(nil) + n} } }",
			"mkb = func(n){ func(g){ if g == nil {n * 100} else {g(nil) * 2} } }",
			fmt.Sprintf("a1 = mka(%d); a2 = mka(%d); b1 = mkb(%d); b2 = mkb(%d)", a, b, a, c),
			"println(a1(b1), b1(a1), a1(a2), b1(b2), b2(b1))",
			"ap = (f, x) => f(x)",
			"println(ap(a1, a2), ap(b2, a1), ap(a2, nil))",
			"box = [a1, b1, a2]; println(box[0](box[2]), box[1](box[0]), box[2](box[0]))")
	}
	return res
}

// ---------------------------------------------------------------------------------------------------------
// scoping: = updates through references, := forces a local, names first bound inside functions, recursion
// sharing the caller's scope, ++/-- through references and on floats

func famScope(r *rng) []string {
	v := pickS(r, "x", "n", "acc", "i")
	a, b := 1+r.intn(9), 10+r.intn(9)
	val := func() string { return pickS(r, itoa(r.intn(30)), "\"s\"", "[1,2]", "nil", "true", "{\"k\":1}", "2.5 * 2") }
	var res []string
	res = append(res, svDef, fmt.Sprintf("%s = %d", v, a))
	wr := func() string {
		return pickS(r, v+" = "+v+" + 1", v+" := "+val(), v+" = "+val(), v+"++", v+"--", "++"+v, v+" := "+v+" + 100",
			"if "+v+" == "+itoa(a)+" { "+v+" := 0 }", "for 2 { "+v+" = "+v+" + 10 }", "for k = 2 { "+v+" := k }", "1")
	}
	switch r.intn(6) {
	case 0: // one function, one or two writes, global observed after each call
		res = append(res, "f = func(){ "+wr()+"; "+wr()+"; "+v+" }", "println(sv(catch(f())), "+v+")", "println(sv(catch(f())), "+v+")")
	case 1: // nested functions: inner writes what outer shadowed or not
		res = append(res, "f = func(){ "+wr()+"; g = func(){ "+wr()+"; "+v+" }; r = sv(catch(g())); [r, "+v+"] }",
			"println(f(), "+v+")", "println(f(), "+v+")")
	case 2: // three levels and a parameter of the same name in the middle
		res = append(res, "f = func(){ "+wr()+"; g = func("+v+"){ h = func(){ "+wr()+"; "+v+" }; [sv(catch(h())), "+v+"] }; [g("+itoa(b)+"), "+v+"] }",
			"println(f(), "+v+")")
	case 3: // a name first bound inside a function is local; recursion sees the caller's locals
		res = append(res, "func setl(){ loc9 = "+val()+"; loc9 }", "println(setl())", "println(catch(loc9).err)",
			"func rec(n){ if n == 2 { shared9 = "+itoa(a)+" }; if n == 0 { return shared9 }; rec(n - 1) }",
			"println(rec(3), catch(rec(1)).err, catch(shared9).err)",
			"func rec2(n, acc){ if n == 0 { return acc }; acc = acc + [n]; rec2(n - 1, acc) }", fmt.Sprintf("println(rec2(%d, []))", 1+r.intn(10)))
	case 4: // loops at top level and in functions: the loop variable and body variables live in the enclosing scope
		res = append(res, "for q = 3 { inl = q * 2 }", "println(q, inl)",
			"func lp(){ for q = 2:5 { inl := q; w9 = q }; [q, inl, w9] }", "println(lp(), q, inl, catch(w9).err)",
			"func lp2(){ t = 0; for e = [1,2,3] { t := t + e }; t }", "println(lp2())",
			"k = 0; func cnt(){ for 3 { k++ }; k }; println(cnt(), cnt(), k)")
	default: // floats and ++/-- through references
		res = append(res, "fl = 1.5; g = func(){ fl++; fl = fl * 2; fl }", "println(g() == 5, fl == 5)", "println(g() == 12, fl - 12 == 0)",
			"cn = 0; up = func(){ cn++; ++cn; cn-- }; println(up(), cn, up(), cn)",
			"func two(){ "+v+"++; "+v+" := 50; "+v+"++; "+v+" }; println(two(), "+v+")")
	}
	res = append(res, v)
	return res
}

// ---------------------------------------------------------------------------------------------------------
// containers on both sides of the thresholds (8 elements / 4 pairs): construction by literal, range, * and +,
// reads with negative and out-of-range indices and slice bounds, first/rest/len, comparisons, iteration,
// growth and shrinking by a single owner (no second binding: value semantics and the Go heap coincide)

func bigArr(r *rng) (string, int) {
	n := []int{0, 1, 2, 7, 8, 9, 10, 12, 16, 17, 20}[r.intn(11)]
	switch r.intn(4) {
	case 0:
		return "[" + strings.Join(ints(r, n, -9, 30), ",") + "]", n
	case 1:
		lo := r.intn(5) - 2
		return itoa(lo) + ":" + itoa(lo+n), n
	case 2:
		k := 1 + r.intn(3)
		return "[" + strings.Join(ints(r, k, 0, 9), ",") + "] * " + itoa((n+k-1)/k), k * ((n + k - 1) / k)
	default:
		h := n / 2
		return "[" + strings.Join(ints(r, h, 0, 9), ",") + "] + [" + strings.Join(ints(r, n-h, 10, 19), ",") + "]", n
	}
}

func bigMap(r *rng) (string, int) {
	n := []int{0, 1, 3, 4, 5, 6, 8, 12}[r.intn(8)]
	keys := []string{"1", "2", "3", "\"a\"", "\"b\"", "10", "-4", "\"k\"", "true", "nil", "2.5", "\"zz\"", "7", "0"}
	// a random rotation gives different key mixes; duplicates are allowed (later wins)
	off := r.intn(len(keys))
	parts := make([]string, n)
	for i := range parts {
		parts[i] = keys[(off+i)%len(keys)] + ":" + itoa(r.intn(50))
	}
	return "{" + strings.Join(parts, ",") + "}", n
}

func famBig(r *rng) []string {
	var res []string
	idx := func() string {
		return pickS(r, "0", "1", "-1", "7", "8", "9", "-8", "-9", "-10", "19", "20", "-20", "-21", "100", "4")
	}
	sl := func() string {
		a := pickS(r, "0", "1", "-1", "7", "8", "-8", "-9", "3", "12", "-30", "30")
		if r.intn(4) == 0 {
			return a + ":"
		}
		return a + ":" + pickS(r, "0", "1", "-1", "8", "9", "-7", "10", "20", "21", "-30", "30", "4")
	}
	if r.intn(2) == 0 {
		lit, _ := bigArr(r)
		lit2, _ := bigArr(r)
		res = append(res, "a = "+lit, "b = "+lit2)
		for i := 0; i < 3+r.intn(4); i++ {
			res = append(res, "println("+pickS(r,
				"a["+idx()+"], b["+idx()+"]",
				"a["+sl()+"], b["+sl()+"]",
				"a["+sl()+"]["+sl()+"], len(a["+sl()+"])",
				"len(a), len(b), first(a), first(b), len(rest(a)), rest(b)",
				"a == b, a < b, a != a["+sl()+"], a + [] == a, a["+sl()+"] == b["+sl()+"]",
				"a + b, len(a + b), (a + b)["+idx()+"]",
				"a + 1, (b + [a])[-1] == a, len(a * 2)",
				"[a, b][1]["+idx()+"], {\"k\": a}.k["+sl()+"]",
				"first(rest(rest(a))), rest(a)["+sl()+"]")+")")
		}
		// iteration with every exit, nested
		res = append(res, "s = 0; for e = a { if e < 0 {continue}; if e > 25 {break}; s = s + e }; println(s)",
			"func find(x, v){ i = 0; for e = x { if e == v { return i }; i++ }; -1 }; println(find(a, a["+idx()+"]), find(b, 1000))",
			"cnt = 0; for x = a["+sl()+"] { for y = b["+sl()+"] { if x == y { cnt++ } } }; println(cnt)")
		// single-owner growth across the threshold and back
		n := 5 + r.intn(12)
		res = append(res, fmt.Sprintf("g = []; for i = %d { g = g + [i * i]; if i == 7 || i == 8 || i == 9 { println(len(g), g) } }", n), "println(g, len(g))",
			"for len(g) > "+itoa(r.intn(10))+" { g = "+pickS(r, "rest(g)", "g[0:-1]", "g[1:]", "g[0:len(g)-2]")+" }", "println(g)",
			fmt.Sprintf("own = %s; own[%s] = 77; own[%s] = 78; println(own)", vsArrLit(7+r.intn(5), 0), pickS(r, "0", "-1", "3"), pickS(r, "1", "-2", "5")))
	} else {
		lit, _ := bigMap(r)
		lit2, _ := bigMap(r)
		key := func() string { return pickS(r, "1", "2", "\"a\"", "10", "\"k\"", "true", "nil", "2.5", "\"nope\"", "1.0", "0", "-4") }
		res = append(res, "a = "+lit, "b = "+lit2)
		for i := 0; i < 3+r.intn(4); i++ {
			res = append(res, "println("+pickS(r,
				"a["+key()+"], b["+key()+"], a.k, b.a",
				"len(a), len(b), first(a), first(b), rest(a), len(rest(b))",
				"a["+sl()+"], b["+sl()+"]",
				"a == b, a < b, a + {} == a, a + b == b + a, a + b",
				"len(a + b), (a + b)["+key()+"], (b + a)["+key()+"]",
				"a + {"+key()+": 99}, b + {1: 2, \"a\": nil}",
				"[a][0]["+key()+"], {\"in\": b}.in["+key()+"]")+")")
		}
		res = append(res, "ks = []; for e = a { if e.key == nil {continue}; ks = ks + [e.key]; if len(ks) > 6 {break} }; println(ks)",
			"vs = 0; for e = b { vs = vs + e.value }; println(vs)",
			"func has(m, k){ for e = m { if e.key == k { return true } }; false }; println(has(a, "+key()+"), has(b, "+key()+"))")
		n := 3 + r.intn(8)
		res = append(res, fmt.Sprintf("g = {}; for i = %d { g[i * 3 %% 7] = i; if i == 3 || i == 4 || i == 5 { println(len(g), g) } }", n), "println(g)",
			fmt.Sprintf("for i = %d { del(g[i]) }; println(g, len(g))", n/2+1),
			"for len(g) > 0 { g = rest(g) }; println(g)",
			"own = {1:1,2:2,3:3,4:4,5:5,6:6}; own[0] = 0; own.z = 26; del(own[3]); own[2] = 22; println(own)")
	}
	return res
}

// ---------------------------------------------------------------------------------------------------------
// variadics

func famVariadic(r *rng) []string {
	var res []string
	def := pickS(r,
		"func v(a, ..){ [a, ..] }",
		"v = func(a, b, ..){ [a + b, len(..), ..] }",
		"v = func(..){ if len(..) == 0 {return \"none\"}; [first(..), len(rest(..))] }",
		"func v(a, ..){ if len(..) == 0 {return a}; a + v(..) }",
		"v = func(..){ s = 0; for e = .. { s = s + e }; s }",
		"func v(sep, ..){ out = \"\"; for e = .. { out = out + sep + e }; out }",
		"v = func(a, ..){ w = func(..){ len(..) }; [w(), w(a), w(..), w(a, ..)] }")
	res = append(res, svDef, def)
	arg := func() string {
		if strings.Contains(def, "sep") {
			return pickS(r, "\"a\"", "\"-\"", "\"xy\"", "\"\"")
		}
		return itoa(r.intn(20))
	}
	for i := 0; i < 3+r.intn(3); i++ {
		var calls []string
		for j := 0; j < 1+r.intn(3); j++ {
			k := r.intn(7)
			args := make([]string, k)
			for q := range args {
				args[q] = arg()
			}
			if k > 0 && r.intn(4) == 0 { // an array as the last argument is expanded
				args[k-1] = "[" + arg() + ", " + arg() + "]"
			}
			calls = append(calls, "sv(catch(v("+strings.Join(args, ", ")+")))")
		}
		res = append(res, "println("+strings.Join(calls, ", ")+")")
	}
	res = append(res, "fwd = func(..){ v(..) }; println(sv(catch(fwd("+arg()+", "+arg()+", "+arg()+"))), sv(catch(fwd())))",
		"println(catch(v(1, 2)).err, catch(..).err)")
	return res
}

// ---------------------------------------------------------------------------------------------------------
// error() and catch()

func famErrCatch(r *rng) []string {
	a := r.intn(8)
	eargs := pickS(r, "\"bad\"", "\"bad\", n", "\"v\", [n, 1], {\"k\": n}", "n", "\"a\", nil, true", "\"x\" * n")
	var res []string
	res = append(res, svDef, "chk = func(n){ if n > 3 { error("+eargs+") }; n }", "println(catch(chk(9)))")
	where := pickS(r,
		"chk(n) + 1",
		"[1, chk(n), 3]",
		"{\"k\": chk(n)}",
		"{chk(n): 1}",
		"[0,1,2,3,4,5,6,7,8,9][chk(n)]",
		"if chk(n) > 1 {\"hi\"} else {\"lo\"}",
		"for i = chk(n) { i }",
		"for i = n { chk(i * 2) }",
		"s = 0; for e = [1, n, 9] { s = s + chk(e) }; s",
		"println(\"before\", n); chk(n); println(\"after\", n); n",
		"chk(chk(n) + 2)",
		"false && chk(n) > 0",
		"true || chk(n) > 0",
		"n > 3 && chk(n) > 0",
		"-chk(n)",
		"len([chk(n)])",
		"(x => x + chk(n))(1)",
		"q = chk(n); q * 2",
		"arr9 = [1,2,3]; arr9[chk(n) % 3] = 7; arr9",
		"return chk(n); 5")
	res = append(res, "w = func(n){ "+where+" }")
	for i := 0; i < 2+r.intn(3); i++ {
		n := a + r.intn(4) - 1
		res = append(res, pickS(r,
			fmt.Sprintf("println(sv(catch(w(%d))))", n),
			fmt.Sprintf("(() => { c = catch(w(%d)); println(c.err, sv(c)) })()", n),
			fmt.Sprintf("println(catch(catch(w(%d))).err, catch(1).value, catch(w(%d)).err)", n, n+2),
			fmt.Sprintf("r = []; for k = %d:%d { if catch(w(k)).err { r = r + [-1]; continue }; r = r + [w(k)] }; println(r)", n-1, n+3),
			fmt.Sprintf("println(sv(catch(w(%d))), 1)", n),
			fmt.Sprintf("func safe(n){ c = catch(w(n)); if c.err { return \"E\" }; c.value }; println(safe(%d), safe(%d), safe(%d))", n, n+1, n+3)))
	}
	res = append(res, "println(\"end\")", fmt.Sprintf("sv(catch(w(%d)))", a))
	return res
}

// ---------------------------------------------------------------------------------------------------------
// control flow: else-if chains, the four loop forms nested with break/continue/return at depth, loop values,
// degenerate bounds

func famControl(r *rng) []string {
	var res []string
	a := r.intn(10)
	res = append(res, svDef, fmt.Sprintf("func cls(n){ if n < %d {\"neg\"} else if n == %d {\"eq\"} else if n < %d {\"small\"} else {\"big\"} }", a, a, a+4),
		fmt.Sprintf("println(cls(%d), cls(%d), cls(%d), cls(%d))", a-1, a, a+2, a+9))
	hdr := func(v string, d int) string {
		switch r.intn(6) {
		case 0:
			return fmt.Sprintf("for %s = %d", v, 2+r.intn(3))
		case 1:
			return fmt.Sprintf("for %s = %d:%d", v, r.intn(3), 3+r.intn(3))
		case 2:
			return fmt.Sprintf("for %s = [%s]", v, strings.Join(ints(r, 1+r.intn(4), 0, 6), ","))
		case 3:
			return fmt.Sprintf("%s = 0; for %s < %d", v, v, 2+r.intn(3))
		case 4:
			return fmt.Sprintf("for %s = \"%s\"", v, "abcd"[0:1+r.intn(4)])
		default:
			return fmt.Sprintf("for %s = {1:1, \"k\":2, 3:3}", v)
		}
	}
	depth := 1 + r.intn(3)
	exit := pickS(r, "break", "continue", "return [\"ret\", hits]", "error(\"stop\")", "hits = hits + 100")
	body := "hits++; if hits == " + itoa(2+r.intn(6)) + " { " + exit + " }; print(hits, \"\")"
	for d := depth - 1; d >= 0; d-- {
		v := fmt.Sprintf("v%d", d)
		h := hdr(v, d)
		inc := ""
		if strings.Contains(h, " < ") { // condition loop: advance first so that continue cannot loop forever
			inc = v + "++; "
		}
		pre := ""
		if i := strings.Index(h, "; for"); i >= 0 {
			pre, h = h[:i+2], h[i+2:]
		}
		body = pre + h + " { " + inc + body + " }"
		if d > 0 && r.intn(3) == 0 {
			body = body + "; print(\"|\")"
		}
	}
	res = append(res, "func run(){ hits = 0; "+body+"; [\"end\", hits] }", "println(sv(catch(run())))", "println(sv(catch(run())))",
		"hits = 0; r9 = catch("+strings.ReplaceAll(body, "return [\"ret\", hits]", "break")+").err; println(); println(hits, r9)")
	// loop values and degenerate bounds
	res = append(res, "println("+pickS(r,
		"for i = 0 { 1 }, for i = 3 { i * 2 }, for 2 { \"x\" }",
		"catch(for i = 3:1 { i }).err, for i = 2:2 { i }, for i = -2:1 { i }",
		"for e = [] { e }, for e = \"\" { e }, for e = {} { e }, for false { 1 }",
		"for i = 4 { if i == 2 {break}; i }, for i = 4 { if i >= 2 {continue}; i }",
		"catch(for -1 { 1 }).err, for nil { 1 }, catch(for \"s\" { 1 }).err")+")")
	res = append(res, fmt.Sprintf("func early(n){ for i = n { for j = n { if i * j == %d { return [i, j] } } }; nil }; println(early(%d), early(1))", a, 2+r.intn(5)))
	return res
}

// ---------------------------------------------------------------------------------------------------------
// strings: bytes vs runes

func famStrings(r *rng) []string {
	s := pickS(r, "\"héllo wörld\"", "\"日本語\"", "\"a\\tb\\nc\"", "\"\"", "\"x\"", "\"0123456789\"", "\"é\"", "\"\\x00\\x01z\"", "\"naïve café\"")
	idx := func() string { return pickS(r, "0", "1", "-1", "2", "-2", "5", "-5", "20", "-20") }
	res := []string{"s = " + s, "t = s + \"!\" + s"}
	for i := 0; i < 4+r.intn(4); i++ {
		res = append(res, "println("+pickS(r,
			"len(s), len(t), s == t, s < t, s + s == s * 2",
			"s["+idx()+"], catch(s["+idx()+"]).err",
			"s["+idx()+":"+idx()+"], catch(s["+idx()+":"+idx()+"]).err",
			"len(s["+idx()+":]), first(s), rest(s), len(rest(s))",
			"first(rest(s)), rest(rest(s)), len(first(s))",
			"s * "+itoa(r.intn(4))+", catch(s * -1).err, [s] * 2",
			"{s: 1}[s], [s, t][1][0:3], s == \""+"x"+"\"")+")")
	}
	res = append(res, "n = 0; for c = s { n = n + len(c); if c == \" \" {continue}; print(c, \"|\") }; println(n)",
		"rv = \"\"; for c = t { rv = c + rv; if len(rv) > 12 {break} }; println(rv)")
	return res
}

// Suite `autosave` (C18): repl.AutoSave in a child process that is killed at a crash point
// (GROL_VERIF_CRASH) or whose n-th write fails (GROL_VERIF_FAILWRITE), then what is on disk and
// what a fresh process auto-loads from it.
//
//	input  <old .gr content hex | none>;<program hex>;<changed 0|1>;<lines the save writes, hex list | e>;<fault>
//	       fault = none | crash:<point>:<n> | fail:<n>:<keep>
//	obs    ret=<ok|err|killed>;gr=<hex|none>;tmp=<hex|none|multi>;loadeq=<1|0|none>
//
// The lines a complete save of the program's state writes (one per binding, SaveGlobals' own
// formatting, including the identifiers added by extensions.Init) are measured once per program by
// an undisturbed reference run; the protocol model takes them as a parameter.
package main

import (
	"bytes"
	"fmt"
	"os"
	"os/exec"
	"path/filepath"
	"strings"

	"fortio.org/log"
	"grol.io/grol/eval"
	"grol.io/grol/extensions"
	"grol.io/grol/repl"
)

func init() {
	suites["autosave"] = suite{gen: autosaveGen, run: autosaveRun}
	subcommands["child-autosave"] = autosaveChild
	subcommands["child-autoload"] = autoloadChild
}

var autoloadSeen = map[string]string{}

var (
	autosaveRoot string
	autosaveSeq  int
)

func autosaveDir() string {
	if autosaveRoot == "" {
		autosaveRoot = newScratch("autosave")
	}
	autosaveSeq++
	d := filepath.Join(autosaveRoot, fmt.Sprintf("c%d", autosaveSeq))
	if err := os.MkdirAll(d, 0o755); err != nil {
		panic(err)
	}
	return d
}

// child: evaluate the program, then repl.AutoSave; prints ok / err.
func autosaveChild(args []string) int {
	log.SetLogLevelQuiet(log.Error)
	if err := extensions.Init(nil); err != nil {
		return 3
	}
	s := eval.NewState()
	prog := unhx(args[0])
	if prog != "" {
		if _, err := eval.EvalString(s, prog, false); err != nil {
			fmt.Println("evalerr")
			return 4
		}
	}
	if err := repl.AutoSave(s, repl.Options{AutoSave: true}); err != nil {
		fmt.Println("err")
		return 0
	}
	fmt.Println("ok")
	return 0
}

// child: fresh state, repl.AutoLoad, then dump what a save would write.
func autoloadChild(_ []string) int {
	log.SetLogLevelQuiet(log.Critical)
	if err := extensions.Init(nil); err != nil {
		return 3
	}
	s := eval.NewState()
	_ = repl.AutoLoad(s, repl.Options{AutoLoad: true})
	var buf bytes.Buffer
	if _, err := s.SaveGlobals(&buf); err != nil {
		return 4
	}
	fmt.Println(hx(buf.String()))
	return 0
}

func runSelf(dir string, env []string, args ...string) (stdout string, killed bool, rc int) {
	cmd := exec.Command(selfExe(), args...)
	cmd.Dir = dir
	cmd.Env = append(os.Environ(), env...)
	var out bytes.Buffer
	cmd.Stdout = &out
	err := cmd.Run()
	if err != nil {
		if ee, ok := err.(*exec.ExitError); ok {
			if ee.ProcessState.ExitCode() == -1 { // terminated by a signal
				return out.String(), true, -1
			}
			return out.String(), false, ee.ProcessState.ExitCode()
		}
		panic(err)
	}
	return out.String(), false, 0
}

func readOpt(path string) string {
	b, err := os.ReadFile(path)
	if err != nil {
		return "none"
	}
	return hx(string(b))
}

func autosaveRun(input string) string {
	parts := strings.Split(input, ";")
	if len(parts) != 5 {
		return "BAD"
	}
	old, prog, fault := parts[0], parts[1], parts[4]
	dir := autosaveDir()
	defer os.RemoveAll(dir)
	if old != "none" {
		if err := os.WriteFile(filepath.Join(dir, ".gr"), []byte(unhx(old)), 0o600); err != nil {
			panic(err)
		}
	}
	var env []string
	f := strings.SplitN(fault, ":", 2)
	switch f[0] {
	case "crash":
		env = []string{"GROL_VERIF_CRASH=" + f[1]}
	case "fail":
		env = []string{"GROL_VERIF_FAILWRITE=" + f[1]}
	}
	childArgs := []string{"child-autosave", prog}
	oldLines := 0
	if old != "none" {
		oldLines = strings.Count(unhx(old), "\n")
	}
	if a, e, ok := autosaveHistArgs(prog, fault, oldLines); ok { // histories: autosave_hist.go
		childArgs, env = a, e
	}
	stdout, killed, rc := runSelf(dir, env, childArgs...)
	ret := strings.TrimSpace(stdout)
	if killed {
		ret = "killed"
	} else if rc != 0 {
		ret = fmt.Sprintf("rc%d", rc)
	}
	gr := readOpt(filepath.Join(dir, ".gr"))
	tmps, _ := filepath.Glob(filepath.Join(dir, ".grol*.tmp"))
	tmp := "none"
	if len(tmps) == 1 {
		tmp = readOpt(tmps[0])
	} else if len(tmps) > 1 {
		tmp = "multi"
	}
	loadeq := "none"
	if gr != "none" {
		// what a fresh process auto-loads depends on the bytes of .gr only: one child per distinct content
		if v, ok := autoloadSeen[gr]; ok {
			loadeq = v
		} else {
			dump, k, rc := runSelf(dir, nil, "child-autoload")
			loadeq = b2s(!k && rc == 0 && strings.TrimSpace(dump) == gr)
			autoloadSeen[gr] = loadeq
		}
	}
	return "ret=" + ret + ";gr=" + gr + ";tmp=" + tmp + ";loadeq=" + loadeq
}

// reference: what an undisturbed save of the program's state leaves in .gr ("" and false = no file)
func autosaveReference(prog string) (content string, saved bool) {
	dir := autosaveDir()
	defer os.RemoveAll(dir)
	out, killed, rc := runSelf(dir, nil, "child-autosave", hx(prog))
	if killed || rc != 0 || strings.TrimSpace(out) != "ok" {
		panic("autosave reference run failed: " + out)
	}
	b, err := os.ReadFile(filepath.Join(dir, ".gr"))
	if err != nil {
		return "", false
	}
	return string(b), true
}

func autosaveProgram(r *rng, n int, tag string) string {
	var sb strings.Builder
	for i := 0; i < n; i++ {
		k := fmt.Sprintf("%s%03d", tag, i)
		switch r.intn(7) {
		case 0:
			fmt.Fprintf(&sb, "%s=%d\n", k, int64(r.next()>>uint(r.intn(64))))
		case 1:
			fmt.Fprintf(&sb, "%s=\"%s\"\n", k, randWord(r, "abc xyz", 12))
		case 2:
			fmt.Fprintf(&sb, "%s=[%d,\"%s\",%d]\n", k, r.intn(100), randWord(r, "ab", 3), -r.intn(9))
		case 3:
			fmt.Fprintf(&sb, "func %s(a,b){a+b*%d}\n", k, r.intn(10))
		case 4:
			fmt.Fprintf(&sb, "%s={\"k\":%d,%d:true}\n", k, r.intn(10), r.intn(10))
		case 5:
			fmt.Fprintf(&sb, "%s=a=>a*%d\n", k, r.intn(10))
		default:
			fmt.Fprintf(&sb, "%s=%d.5\n", k, r.intn(1000))
		}
	}
	return sb.String()
}

func splitLines(content string) []string {
	var l []string
	for content != "" {
		i := strings.IndexByte(content, '\n')
		if i < 0 {
			l = append(l, content)
			break
		}
		l = append(l, content[:i+1])
		content = content[i+1:]
	}
	return l
}

func autosaveGen(tier string, r *rng, emit func(string)) {
	thorough := tier == "thorough"
	type state struct {
		prog    string
		content string
		saved   bool
	}
	mk := func(n int, tag string) state {
		p := autosaveProgram(r, n, tag)
		c, s := autosaveReference(p)
		return state{p, c, s}
	}
	olds := []state{{}, mk(1, "o"), mk(5, "o"), mk(50, "o")}
	news := []state{mk(0, "v"), mk(1, "v"), mk(5, "v"), mk(50, "v")}
	// a state that changed (a set and a delete) but has no binding of its own
	delProg := "x=1\ndel(x)\n"
	dc, ds := autosaveReference(delProg)
	news = append(news, state{delProg, dc, ds})
	// a state with LARGE values (1 KiB .. just under the default save limit) between small ones: however the writer splits a binding
	// into writes, a failure of ANY write must leave the old file (seeded change C18-7: large values written in four pieces with
	// only the last piece's error kept).  For these states every write index up to 8 beyond the number of bindings fails once.
	bigProg := "a=1\nbig=\"x\"*2000\nm=[7]*600\nz=2\n"
	bc, bs := autosaveReference(bigProg)
	news = append(news, state{bigProg, bc, bs})
	bigIdx := len(news) - 1
	for oi, o := range olds {
		oldF := "none"
		if o.saved {
			oldF = hx(o.content)
		}
		for ni, n := range news {
			lines := splitLines(n.content)
			m := len(lines)
			lf := "e"
			if m > 0 {
				lf = hxList(lines)
			}
			cs := func(fault string) {
				emit(oldF + ";" + hx(n.prog) + ";" + b2s(n.saved) + ";" + lf + ";" + fault)
			}
			cs("none")
			if !n.saved { // nothing changed: crash points are never reached, the run must leave everything alone
				cs("crash:before-create:1")
				cs("fail:1:0")
				continue
			}
			// quick tier: the 50-binding states only against each other and "no file", every 4th binding point
			sparse := !thorough && m > 30
			if !thorough && ((ni == 3) != (oi == 3)) && !(ni == 3 && oi == 0) {
				continue
			}
			for _, p := range []string{"before-create", "after-create", "before-rename", "after-rename"} {
				cs("crash:" + p + ":1")
			}
			for j := 1; j <= m; j++ {
				if sparse && j%4 != 0 && j != m && j != 1 {
					continue
				}
				cs(fmt.Sprintf("crash:binding:%d", j))
				keep := 0
				if r.intn(2) == 0 {
					keep = r.intn(len(lines[j-1]) + 2)
				}
				cs(fmt.Sprintf("fail:%d:%d", j, keep))
			}
			cs(fmt.Sprintf("fail:%d:0", m+1)) // beyond the last write: no failure happens
			if ni == bigIdx {
				for j := 1; j <= m+8; j++ {
					cs(fmt.Sprintf("fail:%d:0", j))
					cs(fmt.Sprintf("fail:%d:5", j))
				}
			}
		}
	}
	autosaveHistGen(tier, r, emit) // the interrupted save is not the first thing the process does: autosave_hist.go
}

package main

import (
	"os"
	"regexp"
	"strings"
)

// C07: "byte-level mutations of the shipped examples".  The examples and tests of the repository (the ones that
// do not start processes, sleep, read the terminal or write files) are evaluated as they are and after a few
// byte/token-level edits: delete, duplicate, replace by a delimiter/operator/digit, swap two tokens, truncate.
// The step budget bounds the long running ones; the model declines what it does not model (extensions), the
// statement "no Go panic" is evaluated on the implementation's four configurations all the same.

var (
	exampleTexts []string
	exampleSkip  = regexp.MustCompile(`\b(exec|run|read|sleep|save|load|image\.save|eval|pipe)\b`)
	mutTokens    = []string{"(", ")", "[", "]", "{", "}", ",", ":", ";", ".", "=", ":=", "==", "+", "-", "*", "/", "%", "<", ">", "!", "&&", "||",
		"0", "1", "-1", "9223372036854775807", "1.5", "\"s\"", "nil", "true", "[]", "{}", "func", "return", "for", "if", "else", "break", "continue",
		"len", "first", "rest", "del", "..", "=>", "++", "--", "<<", ">>", "~", "^", "x", "self", "info"}
	tokenRe = regexp.MustCompile(`[A-Za-z_][A-Za-z_0-9.]*|[0-9][0-9a-fA-Fx_.e]*|"(?:[^"\\]|\\.)*"|\S`)
)

func loadExamples() {
	if exampleTexts != nil {
		return
	}
	exampleTexts = []string{}
	for _, f := range allFiles(repoDir()) {
		b, err := os.ReadFile(f)
		if err != nil || len(b) > 6000 || exampleSkip.Match(b) {
			continue
		}
		exampleTexts = append(exampleTexts, string(b))
	}
}

func famMutExample(r *rng) []string {
	loadExamples()
	if len(exampleTexts) == 0 {
		return []string{"1"}
	}
	src := exampleTexts[r.intn(len(exampleTexts))]
	nmut := r.intn(4) // 0 = the example as shipped
	for i := 0; i < nmut; i++ {
		if r.intn(2) == 0 && len(src) > 2 { // byte level
			p := r.intn(len(src))
			switch r.intn(4) {
			case 0:
				src = src[:p] + src[p+1:]
			case 1:
				src = src[:p] + src[p:p+1] + src[p:]
			case 2:
				src = src[:p] + string("()[]{},:;.=+-*/%<>!&|\"' \n0129a_"[r.intn(31)]) + src[p+1:]
			default:
				src = src[:p]
			}
			continue
		}
		locs := tokenRe.FindAllStringIndex(src, -1) // token level
		if len(locs) < 2 {
			continue
		}
		a := locs[r.intn(len(locs))]
		switch r.intn(4) {
		case 0: // replace
			src = src[:a[0]] + mutTokens[r.intn(len(mutTokens))] + src[a[1]:]
		case 1: // delete
			src = src[:a[0]] + src[a[1]:]
		case 2: // insert
			src = src[:a[0]] + mutTokens[r.intn(len(mutTokens))] + " " + src[a[0]:]
		default: // swap with another token
			b := locs[r.intn(len(locs))]
			if b[0] < a[0] {
				a, b = b, a
			}
			if a[1] <= b[0] {
				src = src[:a[0]] + src[b[0]:b[1]] + src[a[1]:b[0]] + src[a[0]:a[1]] + src[b[1]:]
			}
		}
	}
	if !strings.HasSuffix(src, "\n") {
		src += "\n"
	}
	return []string{src}
}

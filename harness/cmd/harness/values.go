package main

// Wire syntax of grol values shared by the cmp and mapops suites, with three translations:
//   toWire(object)      canonical text of a real object
//   buildWire(text)     object built through the object API (maps through NewMapSize+Set)
//   srcWire(text)       grol source that evaluates to the value ("" , false if there is none)
//
//   n | t | f | i<dec> | d<16 hex digits of the bits> | s<hex> | e<hex> (error) | F<hex> (function,
//   cache key) | X<hex> (extension name) | Q<hex> (quote, printed form) | M- (macro) | R<value>
//   (return value) | g<dec> (register) | [v,v,…] | {k:v,k:v,…}     (empty byte string = "-")

import (
	"fmt"
	"io"
	"math"
	"strconv"
	"strings"
	"sync"

	"fortio.org/log"
	"grol.io/grol/eval"
	"grol.io/grol/extensions"
	"grol.io/grol/object"
)

var extOnce sync.Once

func initExtensions() {
	extOnce.Do(func() {
		log.SetOutput(io.Discard) // the interpreter's warnings are not observations
		log.SetLogLevelQuiet(log.Critical)
		if err := extensions.Init(nil); err != nil {
			panic(err)
		}
	})
}

func toWire(o object.Object) string {
	var sb strings.Builder
	writeWire(&sb, o)
	return sb.String()
}

func writeWire(sb *strings.Builder, o object.Object) {
	switch v := o.(type) {
	case object.Null:
		sb.WriteString("n")
	case object.Boolean:
		if v.Value {
			sb.WriteString("t")
		} else {
			sb.WriteString("f")
		}
	case object.Integer:
		sb.WriteString("i" + strconv.FormatInt(v.Value, 10))
	case object.Float:
		fmt.Fprintf(sb, "d%016x", math.Float64bits(v.Value))
	case object.String:
		sb.WriteString("s" + hx(v.Value))
	case object.Error:
		sb.WriteString("e" + hx(v.Value))
	case object.Function:
		sb.WriteString("F" + hx(v.CacheKey))
	case object.Extension:
		sb.WriteString("X" + hx(v.Name))
	case object.Quote:
		sb.WriteString("Q" + hx(v.Inspect()))
	case object.Macro:
		sb.WriteString("M-")
	case object.ReturnValue:
		sb.WriteString("R")
		writeWire(sb, v.Value)
	case *object.Register:
		sb.WriteString("g" + strconv.FormatInt(v.Int64(), 10))
	case object.Map:
		sb.WriteString("{")
		for i, e := range object.VerifMapElements(v) {
			if i > 0 {
				if i%2 == 1 {
					sb.WriteString(":")
				} else {
					sb.WriteString(",")
				}
			}
			writeWire(sb, e)
		}
		sb.WriteString("}")
	case object.Array:
		sb.WriteString("[")
		for i, e := range v.Elements() {
			if i > 0 {
				sb.WriteString(",")
			}
			writeWire(sb, e)
		}
		sb.WriteString("]")
	default:
		sb.WriteString("?" + hx(fmt.Sprintf("%T", o)))
	}
}

type wireParser struct {
	s   string
	pos int
}

func (p *wireParser) peek() byte {
	if p.pos < len(p.s) {
		return p.s[p.pos]
	}
	return 0
}

func (p *wireParser) token() string {
	st := p.pos
	for p.pos < len(p.s) && !strings.ContainsRune(",:[]{}|;", rune(p.s[p.pos])) {
		p.pos++
	}
	return p.s[st:p.pos]
}

// splits a top-level wire container body into its immediate children (as wire texts)
func (p *wireParser) value() string {
	st := p.pos
	switch p.peek() {
	case '[', '{':
		depth := 0
		for p.pos < len(p.s) {
			c := p.s[p.pos]
			p.pos++
			if c == '[' || c == '{' {
				depth++
			} else if c == ']' || c == '}' {
				depth--
				if depth == 0 {
					break
				}
			}
		}
	case 'R':
		p.pos++
		p.value()
	default:
		p.token()
	}
	return p.s[st:p.pos]
}

// children of "[a,b]" or "{k:v,k:v}" (flattened)
func wireChildren(w string) []string {
	p := &wireParser{s: w, pos: 1}
	var res []string
	for p.peek() != ']' && p.peek() != '}' && p.pos < len(w) {
		res = append(res, p.value())
		if c := p.peek(); c == ',' || c == ':' {
			p.pos++
		}
	}
	return res
}

var fzero float64

func runtimeNaNBits() uint64 { return math.Float64bits(fzero / fzero) }

func evalSource(code string) object.Object {
	initExtensions()
	s := eval.NewState()
	res, _ := eval.EvalString(s, code, false)
	return res
}

func buildWire(w string) object.Object {
	initExtensions()
	switch w[0] {
	case 'n':
		return object.NULL
	case 't':
		return object.TRUE
	case 'f':
		return object.FALSE
	case 'i':
		v, err := strconv.ParseInt(w[1:], 10, 64)
		if err != nil {
			panic(err)
		}
		return object.Integer{Value: v}
	case 'd':
		b, err := strconv.ParseUint(w[1:], 16, 64)
		if err != nil {
			panic(err)
		}
		return object.Float{Value: math.Float64frombits(b)}
	case 's':
		return object.String{Value: unhx(w[1:])}
	case 'e':
		return object.Error{Value: unhx(w[1:])}
	case 'F', 'Q':
		// functions and quotes need an AST: the cache key / printed form is their source.
		o := evalSource(unhx(w[1:]))
		if toWire(o) != w {
			panic("cannot build " + w + " got " + toWire(o))
		}
		return o
	case 'X':
		e, ok := object.ExtraFunctions()[unhx(w[1:])]
		if !ok {
			panic("no extension " + w)
		}
		return e
	case 'M':
		return object.Macro{}
	case 'R':
		return object.ReturnValue{Value: buildWire(w[1:])}
	case 'g':
		v, err := strconv.ParseInt(w[1:], 10, 64)
		if err != nil {
			panic(err)
		}
		env := object.NewRootEnvironment()
		r := env.MakeRegister("r", v)
		return &r
	case '[':
		ch := wireChildren(w)
		els := make([]object.Object, len(ch))
		for i, c := range ch {
			els[i] = buildWire(c)
		}
		return object.NewArray(els)
	case '{':
		ch := wireChildren(w)
		m := object.NewMapSize(len(ch) / 2)
		for i := 0; i+1 < len(ch); i += 2 {
			m = m.Set(buildWire(ch[i]), buildWire(ch[i+1]))
		}
		return m
	}
	panic("bad wire " + w)
}

func srcString(s string) string {
	var sb strings.Builder
	sb.WriteByte('"')
	for i := 0; i < len(s); i++ {
		c := s[i]
		if c >= 0x20 && c < 0x7f && c != '"' && c != '\\' {
			sb.WriteByte(c)
		} else {
			fmt.Fprintf(&sb, "\\x%02x", c)
		}
	}
	sb.WriteByte('"')
	return sb.String()
}

func srcWire(w string) (string, bool) {
	switch w[0] {
	case 'n':
		return "nil", true
	case 't':
		return "true", true
	case 'f':
		return "false", true
	case 'i':
		if w == "i-9223372036854775808" {
			return "(-9223372036854775807-1)", true
		}
		if w[1] == '-' {
			return "(" + w[1:] + ")", true
		}
		return w[1:], true
	case 'd':
		b, _ := strconv.ParseUint(w[1:], 16, 64)
		f := math.Float64frombits(b)
		switch {
		case f != f:
			if b == runtimeNaNBits() { // the pattern 0.0/0.0 yields on this platform
				return "(0.0/0.0)", true
			}
			return "", false
		case math.IsInf(f, 1):
			return "(1.0/0.0)", true
		case math.IsInf(f, -1):
			return "(-1.0/0.0)", true
		}
		s := strconv.FormatFloat(math.Abs(f), 'f', -1, 64)
		if !strings.Contains(s, ".") {
			s += ".0"
		}
		if math.Signbit(f) {
			return "(-" + s + ")", true
		}
		return s, true
	case 's':
		return srcString(unhx(w[1:])), true
	case 'F', 'Q':
		return "(" + unhx(w[1:]) + ")", true
	case 'X':
		return unhx(w[1:]), true
	case '[':
		ch := wireChildren(w)
		parts := make([]string, len(ch))
		for i, c := range ch {
			s, ok := srcWire(c)
			if !ok {
				return "", false
			}
			parts[i] = s
		}
		return "[" + strings.Join(parts, ",") + "]", true
	case '{':
		ch := wireChildren(w)
		var sb strings.Builder
		sb.WriteString("{")
		for i, c := range ch {
			s, ok := srcWire(c)
			if !ok {
				return "", false
			}
			if i > 0 {
				if i%2 == 1 {
					sb.WriteString(":")
				} else {
					sb.WriteString(",")
				}
			}
			sb.WriteString(s)
		}
		sb.WriteString("}")
		return sb.String(), true
	}
	return "", false
}

// Family of the `saveload` suite (C14): globals that hold EXTENSION functions (f=sin), alone and
// inside arrays and maps, next to data globals that sort before and after them in the file.
// An extension's printed form is its signature and help (`sin(float)`, `image.new(string, integer,
// integer) // create ...`): a line `f=sin(float)` does not evaluate, and load() evaluates the file as a
// whole, so every binding saved after it was lost too.
package main

import "fmt"

func slExtGen(tier string, r *rng, emit func(string)) {
	fn := func(maxLen int, defs []string, calls ...string) { emit(slCase(maxLen, defs, calls)) }
	exts := []string{"sin", "max", "image.new", "sprintf", "time.now", "split", "len2"}
	exts = exts[:len(exts)-1]
	// top level: saved by name
	fn(0, []string{"f=sin", "x=5"}, "x", "f(0)")
	fn(0, []string{"a=1", "p=image.new", "z=\"s\""}, "a", "z")
	fn(0, []string{"m=max", "mn=min"}, "m(1,2)", "mn(1,2)")
	fn(0, []string{"g=sprintf", "y=[1,2]"}, "g(\"%d\",1)", "y")
	fn(0, []string{"f=sin", "f=cos"}, "f(0)")
	fn(0, []string{"f=sin", "del(f)", "w=2"}, "w")
	// under a length limit: the name is what counts
	for _, m := range []int{1, 2, 3, 4, 9} {
		fn(m, []string{"f=sin", "p=image.new", "x=5"})
	}
	// inside containers: the recorded finding (the line does not evaluate; load() loses what follows)
	fn(0, []string{"h=[sin,1]", "z=9"}, "z")
	fn(0, []string{"a=1", "m={\"k\":cos}", "z=9"}, "a", "z")
	fn(0, []string{"h=[image.new]", "z=9"}, "z")
	n := 40
	if tier == "thorough" {
		n = 600
	}
	for i := 0; i < n; i++ {
		var defs []string
		for j, k := 0, 1+r.intn(5); j < k; j++ {
			name := fmt.Sprintf("%c%d", "afmxz"[r.intn(5)], r.intn(3))
			switch r.intn(4) {
			case 0:
				defs = append(defs, name+"="+slRandVal(r, 1, false))
			default:
				defs = append(defs, name+"="+exts[r.intn(len(exts))])
			}
		}
		maxLen := 0
		if r.intn(5) == 0 {
			maxLen = 1 + r.intn(8)
		}
		emit(slCase(maxLen, defs, nil))
	}
}

// Generator of lean/Grol/Generated/LoopFacts.lean (C09, time part): every Go-level loop
// (`for` and `for … range`) of the evaluator: packages eval and object, and the functions of
// repl/repl.go on the path of one evaluated input (EvalStringWithOption, EvalOne, evalOne,
// logParserErrors), in the non-test, non-verif Go files.
//
// Per loop: file, enclosing function declaration (a loop inside a function literal is attributed to
// the declaration it is written in), kind (for | range), the source text of the loop header
// (`init; cond; post` or the ranged expression), and whether the loop BODY contains — syntactically —
// a call of one of the evaluator entry points that poll the evaluation context (pollingCallees):
// such a loop observes the deadline once per iteration.  The hand classification of every loop and
// the theorem that the two lists coincide are in lean/GrolProofs/Props/C09.lean.
package main

import (
	"fmt"
	"go/ast"
	"path/filepath"
	"sort"
	"strings"
)

func init() { extractors = append(extractors, extractLoopFacts) }

// Methods of *eval.State that enter evalInternal (which tests s.Context.Err() first) before doing
// anything else that could take long: a loop body calling one of them polls the context.
var pollingCallees = map[string]bool{
	"evalInternal": true, "Eval": true, "EvalToplevel": true, "evalStatements": true,
	"evalExpressions": true, "applyFunction": true, "EvalString": true,
}

// functions of repl/repl.go that one evaluated input goes through
var replEvalPath = map[string]bool{
	"EvalStringWithOption": true, "EvalOne": true, "evalOne": true, "logParserErrors": true,
}

type loopFact struct {
	file, fn, kind, over string
	polls                bool
	pos                  int
	guards               []string
}

// calls that check or compute an allocation size
var guardCallees = map[string]bool{"MulLen": true, "MustBeOk": true, "MakeObjectSlice": true, "SizeOk": true}

// loopGuards: for every loop that is a direct member of a statement list (block, case clause), what
// syntactically dominates it inside that list, in source order: "if <cond> return" for every preceding
// `if` without else whose body ends in a return (an early return), and the text of every preceding call of
// MulLen / MustBeOk / MakeObjectSlice / SizeOk.  For a loop whose iteration count is only bounded because it
// went through the allocation guard, this is what the bound rests on.
func loopGuards(g goFile, body *ast.BlockStmt) map[ast.Node][]string {
	res := map[ast.Node][]string{}
	doList := func(list []ast.Stmt) {
		var acc []string
		for _, st := range list {
			inner := st
			if l, ok := inner.(*ast.LabeledStmt); ok {
				inner = l.Stmt
			}
			switch inner.(type) {
			case *ast.ForStmt, *ast.RangeStmt:
				res[inner] = append([]string(nil), acc...)
			}
			if ifs, ok := st.(*ast.IfStmt); ok && ifs.Else == nil && len(ifs.Body.List) > 0 {
				if _, isRet := ifs.Body.List[len(ifs.Body.List)-1].(*ast.ReturnStmt); isRet {
					acc = append(acc, "if "+g.src(ifs.Cond)+" return")
					continue
				}
			}
			ast.Inspect(st, func(c ast.Node) bool {
				switch x := c.(type) {
				case *ast.FuncLit, *ast.ForStmt, *ast.RangeStmt:
					return false
				case *ast.CallExpr:
					name := ""
					switch f := x.Fun.(type) {
					case *ast.SelectorExpr:
						name = f.Sel.Name
					case *ast.Ident:
						name = f.Name
					}
					if guardCallees[name] {
						acc = append(acc, g.src(x))
					}
				}
				return true
			})
		}
	}
	ast.Inspect(body, func(n ast.Node) bool {
		switch x := n.(type) {
		case *ast.BlockStmt:
			doList(x.List)
		case *ast.CaseClause:
			doList(x.Body)
		case *ast.CommClause:
			doList(x.Body)
		}
		return true
	})
	return res
}

func extractLoopFacts(repo, gendir string) error {
	files, err := repoGoFiles(repo)
	if err != nil {
		return err
	}
	var loops []loopFact
	for _, g := range files {
		dir := filepath.Dir(g.rel)
		if dir != "eval" && dir != "object" && g.rel != "repl/repl.go" {
			continue
		}
		for _, decl := range g.file.Decls {
			fd, ok := decl.(*ast.FuncDecl)
			if !ok || fd.Body == nil {
				continue
			}
			fn := fd.Name.Name
			if fd.Recv != nil && len(fd.Recv.List) == 1 {
				fn = strings.TrimPrefix(g.src(fd.Recv.List[0].Type), "*") + "." + fn
			}
			if g.rel == "repl/repl.go" && !replEvalPath[fd.Name.Name] {
				continue
			}
			guards := loopGuards(g, fd.Body)
			ast.Inspect(fd.Body, func(n ast.Node) bool {
				var body *ast.BlockStmt
				lf := loopFact{file: g.rel, fn: fn}
				switch x := n.(type) {
				case *ast.ForStmt:
					lf.kind = "for"
					var parts []string
					if x.Init != nil {
						parts = append(parts, g.src(x.Init))
					} else {
						parts = append(parts, "")
					}
					if x.Cond != nil {
						parts = append(parts, g.src(x.Cond))
					} else {
						parts = append(parts, "")
					}
					if x.Post != nil {
						parts = append(parts, g.src(x.Post))
					} else {
						parts = append(parts, "")
					}
					lf.over = strings.Join(parts, "; ")
					body = x.Body
				case *ast.RangeStmt:
					lf.kind = "range"
					lf.over = g.src(x.X)
					body = x.Body
				default:
					return true
				}
				lf.pos = int(n.Pos())
				lf.guards = guards[n]
				ast.Inspect(body, func(c ast.Node) bool {
					if call, ok := c.(*ast.CallExpr); ok {
						switch f := call.Fun.(type) {
						case *ast.SelectorExpr:
							if pollingCallees[f.Sel.Name] {
								lf.polls = true
							}
						case *ast.Ident:
							if pollingCallees[f.Name] {
								lf.polls = true
							}
						}
					}
					return true
				})
				loops = append(loops, lf)
				return true
			})
		}
	}
	// sorted by file, function, then source order inside the function
	sort.SliceStable(loops, func(i, j int) bool {
		a, b := loops[i], loops[j]
		if a.file != b.file {
			return a.file < b.file
		}
		if a.fn != b.fn {
			return a.fn < b.fn
		}
		return a.pos < b.pos
	})
	var names []string
	for n := range pollingCallees {
		names = append(names, n)
	}
	sort.Strings(names)

	var sb strings.Builder
	sb.WriteString("/- GENERATED by `harness extract` (harness/cmd/harness/extract_loops.go) from the Go sources of the\n   repo; regenerated on every run of bin/check.  Do not edit. -/\n")
	sb.WriteString("namespace Grol.Generated.LoopFacts\n\n")
	sb.WriteString("/-- one Go-level loop: file, enclosing function declaration, kind (for | range), header text, and whether\nits body syntactically contains a call of a context-polling evaluator entry point; guards = what dominates the\nloop inside its own statement list, in source order: `if <cond> return` for each preceding early return and the text of each\npreceding MulLen / MustBeOk / MakeObjectSlice / SizeOk call -/\n")
	sb.WriteString("structure Loop where\n  file : String\n  fn : String\n  kind : String\n  over : String\n  polls : Bool\n  guards : List String\n  deriving DecidableEq, Repr\n\n")
	sb.WriteString("/-- what identifies a loop: everything but the line number -/\ndef Loop.site (l : Loop) : String := l.file ++ \" | \" ++ l.fn ++ \" | \" ++ l.kind ++ \" \" ++ l.over\n\n")
	fmt.Fprintf(&sb, "/-- callee names counted as polling the evaluation context -/\ndef pollingCallees : List String := %s\n\n", leanStrList(names))
	sb.WriteString("/-- every `for` statement of packages eval and object and of the functions of repl/repl.go on the path of one\nevaluated input, sorted by file, function and source order -/\n")
	sb.WriteString("def loops : List Loop := [\n")
	for i, l := range loops {
		sep := ","
		if i == len(loops)-1 {
			sep = ""
		}
		p := "false"
		if l.polls {
			p = "true"
		}
		fmt.Fprintf(&sb, "  ⟨%s, %s, %s, %s, %s, %s⟩%s\n", leanStr(l.file), leanStr(l.fn), leanStr(l.kind), leanStr(l.over), p, leanStrList(l.guards), sep)
	}
	sb.WriteString("]\n\n")
	sb.WriteString("end Grol.Generated.LoopFacts\n")
	return writeIfChanged(filepath.Join(gendir, "LoopFacts.lean"), sb.String())
}

package main

import "strconv"

// values suite, second vocabulary (gap analysis of C06 against the property text):
//   - "storing it inside another container" by INDEX ASSIGNMENT (c[0] = a, m.k = a), not only by literals,
//     including a container stored inside itself (a[0] = a, a = a + [a], m[m] = 1: fatal stack overflow before
//     repo fixes 95497ec / 11369d7) and a container appended twice to one array
//   - "element deletion" from inside a function on an outer map (failed before repo fix 908cebf) and on a parameter
//   - "++ on an element": grol has no such form; the three spellings are a parse error or an evaluation error and
//     must leave every binding alone
//   - "containers passed through function calls and loops": loop variables bound to nested containers, first(),
//     identity functions, variadics, :=, catch(), if-expressions, closures writing a global, swaps
//
// valuesGenExtra is the single hook called from valuesGen.

var arrOps2 = []string{
	"c = [0, 0]; c[0] = a",
	"c[0] = b",
	"a[0] = a",
	"b[-1] = [a, b]",
	"a = a + [a]",
	"b = a + [a]; c = a + [b]",
	`m = {}; m.k = a`,
	`m = {1:1,2:2,3:3,4:4,5:5}; m[a] = 1; m[0] = a`,
	"++a[0]",
	"a[0]++",
	"--b[1]",
	"for e = [a, b] { e[0] = 7 }",
	"c = [a, a]; for e = c { x = e; x[1] = 8 }",
	"x = first([a, b]); x[0] = 5",
	"func id(x){x}; b = id(a); b[0] = 3",
	"func v9(..){ x = ..[0]; x[0] = 4; x }; b = v9(a)",
	"b := a; b[0] = 1",
	"b = catch(a).value; b[1] = 2",
	"b = if len(a) > 0 {a} else {c}; b[0] = 6",
	"g = func(){ a[0] = 41 }; b = a; g()",
	"t = a; a = b; b = t; a[0] = 9",
	"c = [[a]]; x = c[0][0]; x[0] = 5",
	"b = a; a = a + 1; b = b + 2; c = a + 3",
	"b = a + 1; c = a + 2; a = a + 3",
	"c = a + [b]; c[0] = 77; b[0] = 78",
	"b = a * 2; b[0] = 11",
}

var mapOps2 = []string{
	`c = {}; c.in = a`,
	"c[0] = b",
	"a.self = a",
	"a[a] = 1",
	`a = a + {"me": a}`,
	`b = a + {"x": a}; c = b + {"y": b}`,
	"func(){ del(a.k) }()",
	"func(){ del(a[0]); a[7] = 7 }()",
	"func dm(x){ del(x.k); x }; b = dm(a)",
	"a.k++",
	"++a.k",
	`a["k"]++`,
	`for e = [a, b] { e.k = 7 }`,
	"for e = a { if e.key == 0 { del(a[e.key]) } }",
	"x = first([a, b]); x.k = 5",
	"func id(x){x}; b = id(a); b.k = 3",
	"func v9(..){ x = ..[0]; x.k = 4; x }; b = v9(a)",
	"b := a; b.k = 1",
	"b = catch(a).value; del(b.k)",
	"b = if len(a) > 0 {a} else {c}; b.z = 6",
	"g = func(){ a.k = 41; del(a[1]) }; b = a; g()",
	"t = a; a = b; b = t; a.k = 9",
	`c = {"o": {"i": a}}; x = c.o.i; x.k = 5`,
	"c = [a]; c[0] = 1",
}

func valuesGenExtra(tier string, r *rng, emit func(string)) {
	thorough := tier == "thorough"
	// witnesses first
	for _, h := range [][]string{
		{"a = " + vsArrLit(12, 0), "a[0] = a", "a == a", "b = a", "b[1] = b", "a"},
		{"a = " + vsArrLit(12, 0), "a = a + 12", "p = a + 1", "q = a + [p]", "q == p"},
		{"a = " + vsMapLit(5, 1), "a[a] = 1", "a", "a.self = a", "a == a"},
		{"a = " + vsMapLit(3, 1), "func(){ del(a.k) }()", "a", "f = func(m9){ del(m9[0]); m9 }", "b = f(a)", "a"},
		{"a = " + vsMapLit(6, 1), "func(){ del(a.k) }()", "a"},
	} {
		emit(valuesCase(h))
	}
	// every history of <= 2 operations of the second vocabulary on the sizes around the thresholds, alone and after b = a
	for _, n := range []int{0, 3, 8, 9, 12} {
		valuesExhaustive([]string{valuesPrelude, "a = " + vsArrLit(n, 1), "b = " + vsArrLit(9, 30)}, arrOps2, 1, emit)
	}
	for _, n := range []int{0, 2, 4, 5, 7} {
		valuesExhaustive([]string{valuesPrelude, "a = " + vsMapLit(n, 1), "b = " + vsMapLit(5, 30)}, mapOps2, 1, emit)
	}
	depth := 2
	for _, n := range []int{8, 9} {
		valuesExhaustive([]string{valuesPrelude, "a = " + vsArrLit(n, 1), "b = a"}, arrOps2, depth, emit)
	}
	for _, n := range []int{4, 5} {
		valuesExhaustive([]string{valuesPrelude, "a = " + vsMapLit(n, 1), "b = a"}, mapOps2, depth, emit)
	}
	// random mixes of both vocabularies
	nr := 150
	if thorough {
		nr = 3000
	}
	for i := 0; i < nr; i++ {
		arr := r.intn(2) == 0
		var h []string
		if arr {
			h = []string{valuesPrelude, "a = " + vsArrLit(r.intn(14), 1), "b = " + vsArrLit(r.intn(14), 40), "c = a"}
		} else {
			h = []string{valuesPrelude, "a = " + vsMapLit(r.intn(9), 1), "b = " + vsMapLit(r.intn(9), 40), "c = a"}
		}
		for j := 3 + r.intn(6); j > 0; j-- {
			switch {
			case arr && r.intn(3) != 0:
				h = append(h, arrOps2[r.intn(len(arrOps2))])
			case arr:
				h = append(h, arrOps[r.intn(len(arrOps))])
			case r.intn(3) != 0:
				h = append(h, mapOps2[r.intn(len(mapOps2))])
			default:
				h = append(h, mapOps[r.intn(len(mapOps))])
			}
		}
		emit(valuesCase(h))
	}
	_ = strconv.Itoa
}

package main

import (
	"bytes"
	"context"
	"fmt"
	"runtime/debug"
	"sort"
	"strconv"
	"strings"
	"time"

	"grol.io/grol/eval"
	"grol.io/grol/lexer"
	"grol.io/grol/object"
	"grol.io/grol/parser"
	"grol.io/grol/repl"
)

// The session suite (C10): one case = a base history of inputs plus side-effect-free FAILING
// inputs inserted at chosen positions with chosen multiplicities.  Both histories
//
//	(a) the base history WITH the failing inputs, (b) the base history alone
//
// are run on fresh persistent eval.States through the REAL repl.EvalOne (not a replica), in the
// four configurations A=cache+regs, B=cache,noreg, C=nocache,regs, D=nocache,noreg.
//
//	input: <opts>;<hex>|<hex>|...;<pos>.<mult>.<kind>.<hex>,<pos>.<mult>.<kind>.<hex>,...
//	  opts: d=N (State.MaxDepth), empty = default
//	  pos:  the failing input is inserted before base input number pos (pos = n: after the last)
//	  kind: e = default options, t = MaxDuration 1ms (deadline), l = line mode (incomplete input)
//	obs:   <items> @@ A:<run a> ## <run b> @@ B:... @@ C:... @@ D:...
//	       or DEADLINE (an input that is not of the deadline kind was cancelled by the 500 ms wall-clock limit: the
//	       case is void)
//	  items: the inputs of run (a) in order, `|`-separated: B<ast> (base) or F<kind><ast> (failing);
//	         <ast> = tree dump, P (parse error) or I (incomplete)
//	  run:   per input, `/`-separated:
//	         o=<hex written to State.Out>;r=<hex written to EvalOne's out>;e=<errs>0>;p=<panicked>;c=<continuation>;
//	         d=<depth>;t=<scope at root>;w=<State.Out is the session's writer>;n=<root register count>;g=<globals>
//	         (state fields observed AFTER the input; g lists only the globals that differ from the dump after
//	         the previous input: name=value for new or changed ones, name! for removed ones, sorted by name;
//	         `=` when nothing changed)

func init() {
	suites["session"] = suite{gen: sessionGen, run: sessionRun}
}

type sessItem struct {
	fail bool
	kind byte
	text string
}

type sessCase struct {
	maxDepth int
	base     []string
	runA     []sessItem
}

func parseSessionCase(input string) (sessCase, bool) {
	c := sessCase{}
	parts := strings.Split(input, ";")
	if len(parts) != 3 {
		return c, false
	}
	for _, kv := range strings.Split(parts[0], ",") {
		p := strings.SplitN(kv, "=", 2)
		if len(p) == 2 && p[0] == "d" {
			c.maxDepth, _ = strconv.Atoi(p[1])
		}
	}
	if parts[1] != "" {
		for _, h := range strings.Split(parts[1], "|") {
			c.base = append(c.base, unhx(h))
		}
	}
	type fspec struct {
		pos, mult int
		kind      byte
		text      string
	}
	var fails []fspec
	if parts[2] != "" {
		for _, f := range strings.Split(parts[2], ",") {
			q := strings.Split(f, ".")
			if len(q) != 4 || len(q[2]) != 1 {
				return c, false
			}
			pos, err1 := strconv.Atoi(q[0])
			mult, err2 := strconv.Atoi(q[1])
			if err1 != nil || err2 != nil || pos < 0 || pos > len(c.base) || mult < 0 || mult > 64 {
				return c, false
			}
			fails = append(fails, fspec{pos, mult, q[2][0], unhx(q[3])})
		}
	}
	for p := 0; p <= len(c.base); p++ {
		for _, f := range fails {
			if f.pos != p {
				continue
			}
			for k := 0; k < f.mult; k++ {
				c.runA = append(c.runA, sessItem{fail: true, kind: f.kind, text: f.text})
			}
		}
		if p < len(c.base) {
			c.runA = append(c.runA, sessItem{kind: 'e', text: c.base[p]})
		}
	}
	return c, true
}

func sessOptions(kind byte) repl.Options {
	o := repl.Options{All: true, ShowEval: true, NoColor: true, NilAndErr: true, MaxDuration: 500 * time.Millisecond}
	switch kind {
	case 't':
		o.MaxDuration = time.Millisecond
	case 'l':
		o.All = false
	}
	return o
}

// the tree the model evaluates: produced by the real parser in the mode the input is run in
func sessAst(it sessItem) string {
	var l *lexer.Lexer
	if it.kind == 'l' {
		l = lexer.NewLineMode(it.text)
	} else {
		l = lexer.New(it.text)
	}
	p := parser.New(l)
	program := p.ParseProgram()
	if len(p.Errors()) > 0 {
		return "P"
	}
	if p.ContinuationNeeded() {
		return "I"
	}
	sb := &strings.Builder{}
	dumpNode(sb, program)
	return sb.String()
}

// one history on one fresh persistent state, every input through repl.EvalOne.
// ok = false: an input other than the deadline kind ran into its (generous, wall-clock) deadline, e.g. a generated
// loop that does not terminate; what such an input printed or wrote before it was cancelled depends on timing, so
// the case says nothing about the property and is reported as DEADLINE.
func sessRunHistory(items []sessItem, cacheOff, noReg bool, maxDepth int) (obs string, ok bool) {
	eval.VerifCacheOff = cacheOff
	// as repl.EvalStringWithOption sets a state up, except that State.Out and EvalOne's `out` are two
	// writers: what the program prints and what the REPL prints as the result are told apart.
	s := eval.NewState()
	s.NoReg = noReg
	if maxDepth > 0 {
		s.MaxDepth = maxDepth
	}
	sessionOut := &bytes.Buffer{}
	resultOut := &bytes.Buffer{}
	s.Out = sessionOut
	s.LogOut = sessionOut
	s.NoLog = true
	sb := &strings.Builder{}
	prevG := map[string]string{}
	for i, it := range items {
		if i > 0 {
			sb.WriteByte('/')
		}
		sessionOut.Reset()
		resultOut.Reset()
		cont, panicked, errs, _ := repl.EvalOne(context.Background(), s, it.text, resultOut, sessOptions(it.kind))
		if it.kind != 't' && len(errs) > 0 && strings.Contains(strings.Join(errs, " "), "context deadline exceeded") {
			return "", false
		}
		g := sessGlobals(s)
		gs := sessDelta(prevG, g)
		prevG = g
		fmt.Fprintf(sb, "o=%s;r=%s;e=%s;p=%s;c=%s;d=%d;t=%s;w=%s;n=%d;g=%s",
			hx(sessionOut.String()), hx(resultOut.String()), b2s(len(errs) > 0), b2s(panicked), b2s(cont),
			s.VerifDepth(), b2s(s.VerifAtRoot()), b2s(s.VerifOutIs(sessionOut)), s.VerifRootEnv().VerifNumReg(), gs)
	}
	return sb.String(), true
}

// the globals of the session's root scope (pre-seeded identifiers excluded), each value in the canonical dump syntax
func sessGlobals(s *eval.State) map[string]string {
	res := map[string]string{}
	for k, v := range s.VerifRootEnv().VerifStore() {
		if object.VerifIsExtraIdentifier(k) {
			continue
		}
		res[k] = valueString(v)
	}
	return res
}

func sessDelta(prev, cur map[string]string) string {
	keys := make([]string, 0, len(cur))
	for k, v := range cur {
		if pv, ok := prev[k]; !ok || pv != v {
			keys = append(keys, k)
		}
	}
	for k := range prev {
		if _, ok := cur[k]; !ok {
			keys = append(keys, k)
		}
	}
	if len(keys) == 0 {
		return "="
	}
	sort.Strings(keys)
	parts := make([]string, len(keys))
	for i, k := range keys {
		if v, ok := cur[k]; ok {
			parts[i] = k + "=" + v
		} else {
			parts[i] = k + "!"
		}
	}
	return strings.Join(parts, ",")
}

func sessionRun(input string) string {
	initExtensions()
	// the allocation guard (a recovered panic kind) compares requests with GOMEMLIMIT
	memLimitOnce.Do(func() { debug.SetMemoryLimit(256 << 20) })
	c, ok := parseSessionCase(input)
	if !ok {
		return "BAD"
	}
	sb := &strings.Builder{}
	for i, it := range c.runA {
		if i > 0 {
			sb.WriteByte('|')
		}
		if it.fail {
			sb.WriteByte('F')
			sb.WriteByte(it.kind)
		} else {
			sb.WriteByte('B')
		}
		sb.WriteString(sessAst(it))
	}
	baseItems := make([]sessItem, len(c.base))
	for i, t := range c.base {
		baseItems[i] = sessItem{kind: 'e', text: t}
	}
	for _, cfg := range []struct {
		name            string
		cacheOff, noReg bool
	}{{"A", false, false}, {"B", false, true}, {"C", true, false}, {"D", true, true}} {
		a, okA := sessRunHistory(c.runA, cfg.cacheOff, cfg.noReg, c.maxDepth)
		if !okA {
			eval.VerifCacheOff = false
			return "DEADLINE"
		}
		b, okB := sessRunHistory(baseItems, cfg.cacheOff, cfg.noReg, c.maxDepth)
		if !okB {
			eval.VerifCacheOff = false
			return "DEADLINE"
		}
		sb.WriteString(" @@ " + cfg.name + ":" + a + " ## " + b)
	}
	eval.VerifCacheOff = false
	return sb.String()
}

// ---------------------------------------------------------------- generators

type sessFail struct {
	kind byte
	text string
	// needs: what the base history must define for this input to fail without side effect:
	// "" nothing, "p" the prelude, "d" the prelude and a small MaxDepth, "m" the macro family
	needs string
}

// Prelude of every hand-written history: the functions and variables the failing inputs refer to.
// (Defining them is a side effect, so it belongs to the base history.)
//   - boom: unbounded recursion (depth overflow); deep(n): bounded recursion
//   - pure(n): cacheable function; say(x): prints inside a function
//   - i, j, k: integer globals.  With registers off a counted loop at top level writes the start value
//     to its (global) variable before the first iteration; the failing loops are written
//     `for i = i:i+N {..}` and fail in the first iteration, so that write stores the value the
//     variable already has and the input stays free of observable side effects in all configurations.
var sessPrelude = []string{
	`boom = func() { boom() }`,
	`func deep(n) { if n <= 0 { return 0 }; 1 + deep(n - 1) }`,
	`func pure(n) { n * 2 + 1 }`,
	`func say(x) { println("say", x); x }`,
	`i = 0; j = 0; k = 0`,
	`arr = [1, 2, 3]; m = {"a": 1, "b": 2}`,
	`mk = func(n) { () => { n = n + 1; n } }; ctr = mk(10)`,
}

// Side-effect-free failing inputs, every kind.  None writes a global, prints, or defines a macro
// before failing.
var sessFails = []sessFail{
	// language errors at top level
	{'e', `1 + "a"`, ""},
	{'e', `-"a"`, ""},
	{'e', `nosuchvar`, ""},
	{'e', `error("boom")`, ""},
	{'e', `first(1)`, ""},
	{'e', `1 / 0`, ""},
	{'e', `1 << -1`, ""},
	{'e', `arr[1] + "x"`, "p"},
	{'e', `if 1 { 2 }`, ""},
	{'e', `break`, ""},
	{'e', `pure(1, 2)`, "p"},
	{'e', `nosuchfunc(1)`, ""},
	// errors inside nested calls and loops
	{'e', `(() => { 1 + "a" })()`, ""},
	{'e', `(() => { (() => { (() => { -"a" })() })() })()`, ""},
	{'e', `(() => { x9 = 1; y9 = [x9, 2]; y9[0] + "a" })()`, ""},
	{'e', `(() => { for true { if pure(3) > 0 { return 1 + "a" } } })()`, "p"},
	{'e', `pure(pure(2)) + "a"`, "p"},
	{'e', `pure(nosuchvar)`, "p"},
	{'e', `deep(5) + "a"`, "p"},
	{'e', `(func(n) { if n == 0 { return 1 / 0 }; self(n - 1) })(6)`, ""},
	{'e', `for true { 1 + "a" }`, ""},
	{'e', `for 3 { 1 + "a" }`, ""},
	{'e', `for 2 { for 2 { for 2 { nosuchvar } } }`, ""},
	{'e', `1; 2; 1 + "a"`, ""},
	{'e', `if true { 1 + "a" } else { 2 }`, ""},
	{'e', `[1, 2, nosuchvar]`, ""},
	{'e', `{"a": 1 / 0}`, ""},
	{'e', `zz9 = 1 + "a"`, ""},
	{'e', `arr[10] = 1`, "p"},
	{'e', `arr[nosuchvar] = 1`, "p"},
	{'e', `boom = 1 + "a"`, "p"},
	{'e', `nosuchvar++`, ""},
	{'e', `println(1 + "a")`, ""},
	{'e', `print("x", -"a")`, ""},
	{'e', `say(1 + "a")`, "p"},
	{'e', `say(boom())`, "d"},
	{'e', `print("x", boom())`, "d"},
	{'e', `unquote(1)`, ""},
	{'e', `eval("1 +")`, ""},
	{'e', `eval("(() => { 1 + \"a\" })()")`, ""},
	{'e', `unjson("{")`, ""},
	{'e', `(func(a, b) { for w9 = 2 { a + b + w9 + "x" } })(1, 2)`, ""},
	{'e', `(func(a, b) { if a > 0 { return self(a - 1, b + 1) }; for w9 = 2 { [0] * (1 << 40) } })(3, 0)`, ""},
	{'e', `(() => { for u9 = 2 { for v9 = 2 { boom() } } })()`, "d"},
	// counted loops with a variable, nesting depth 1-3 (register release), top level and in functions
	{'e', `for i = i:i+3 { 1 + "a" }`, "p"},
	{'e', `for i = i:i+3 { for j = j:j+2 { 1 + "a" } }`, "p"},
	{'e', `for i = i:i+2 { for j = j:j+2 { for k = k:k+2 { -"a" } } }`, "p"},
	{'e', `for i = i:i+4 { nosuchvar }`, "p"},
	{'e', `(() => { for u9 = 3 { 1 + "a" } })()`, ""},
	{'e', `(() => { for u9 = 3 { for v9 = 2 { u9 + v9 + "x" } } })()`, ""},
	{'e', `(() => { for u9 = 2 { for v9 = 2 { for w9 = 2 { [u9, v9, w9] - 1 } } } })()`, ""},
	{'e', `(() => { for u9 = 3 { if u9 == 2 { return u9 + "x" } } })()`, ""},
	{'e', `for i = i:i+3 { (() => { for v9 = 2 { 1 + "a" } })() }`, "p"},
	{'e', `for i = i:i+2 { for j = j:j+2 { boom() } }`, "d"},
	// recovered panics: allocation guard (at top level, inside functions, inside loops)
	{'e', `[0] * (1 << 40)`, ""},
	{'e', `(() => { [0] * (1 << 40) })()`, ""},
	{'e', `(() => { (() => { "ab" * (1 << 50) })() })()`, ""},
	{'e', `for i = i:i+3 { [1, 2] * (1 << 45) }`, "p"},
	{'e', `(() => { for u9 = 2 { for v9 = 2 { [0] * (1 << 40) } } })()`, ""},
	{'e', `pure([0] * (1 << 40))`, "p"},
	// depth overflow (unbounded recursion defined in the base history, or anonymous via self)
	{'e', `boom()`, "d"},
	{'e', `(() => { boom() })()`, "d"},
	{'e', `(func() { self() })()`, "d"},
	{'e', `for 2 { boom() }`, "d"},
	{'e', `for i = i:i+2 { boom() }`, "d"},
	{'e', `pure(boom())`, "d"},
	{'e', `deep(100000)`, "d"},
	// depth overflow INSIDE a library function written in grol (seeded change C10-5: Reset walked the scope chain of the
	// frame the panic left instead of going back to the session's root), and language errors inside one.  The map has more
	// entries than the small MaxDepth of the "d" histories lets keys() walk; it is built in place so that no global is written.
	{'e', `keys((() => { r9 = {}; for n9 = 450 { r9[n9] = 1 }; r9 })())`, "d"},
	{'e', `(() => { keys((() => { r9 = {}; for n9 = 450 { r9[n9] = 1 }; r9 })()) })()`, "d"},
	{'e', `for i = i:i+2 { keys((() => { r9 = {}; for n9 = 450 { r9[n9] = 1 }; r9 })()) }`, "d"},
	{'e', `pure(len(keys((() => { r9 = {}; for n9 = 450 { r9[n9] = 1 }; r9 })())))`, "d"},
	{'e', `abs("a")`, ""},
	{'e', `log2("a")`, ""},
	{'e', `printf("%d", 1 + "a")`, ""},
	{'e', `keys(5)`, ""},
	// deadline
	{'t', `for true { }`, ""},
	{'t', `(() => { for true { } })()`, ""},
	{'t', `for true { for i = i:i+1 { } }`, "p"},
	{'t', `for true { pure(3) }`, "p"},
	{'t', `(() => { for true { for u9 = 3 { for v9 = 3 { pure(u9) } } } })()`, "p"},
	// failures during macro expansion and in expanded code (macros defined in the base history)
	{'e', `plus1(-"a")`, "m"},
	{'e', `plus1()`, "m"},
	{'e', `bad(2)`, "m"},
	{'e', `plus1(nosuchvar)`, "m"},
	{'e', `(() => { plus1([0] * (1 << 40)) })()`, "m"},
	// parse errors and incomplete input
	{'e', `1 +`, ""},
	{'e', `)`, ""},
	{'e', `x = = 2`, ""},
	{'e', `func (`, ""},
	{'e', `@`, ""},
	{'l', `if true {`, ""},
	{'l', `(1 +`, ""},
	{'l', `func foo(a) {`, ""},
	{'l', `[1, 2,`, ""},
}

func sessFailSpec(pos, mult int, f sessFail) string {
	return fmt.Sprintf("%d.%d.%c.%s", pos, mult, f.kind, hx(f.text))
}

// hand-written base histories (after the prelude): behaviours the known defects broke
var sessFamilies = [][]string{
	// print inside functions (State.Out), at top level, cached output replay
	{`say(1)`, `println("top")`, `say(1)`, `print("a", 1, [2]); 7`, `say("z") + "!"`},
	// loops after failed loops: counted loops nested up to the register limit
	{`for i = 3 { println(i) }`, `s = 0; for a = 4 { for b = 3 { s = s + a * b } }; s`,
		`t = 0; for a = 2 { for b = 2 { for c = 2 { for d = 2 { t = t + a + b + c + d } } } }; t`,
		`func lp(n) { r = 0; for q = n { for w = n { r = r + q * w } }; r }; lp(4)`, `i`},
	// recursion after a depth overflow
	{`deep(10)`, `func fact(n) { if n <= 1 { return 1 }; n * fact(n - 1) }; fact(10)`, `deep(20) + fact(5)`,
		`func fib(x) { if x <= 1 { return x }; fib(x - 1) + fib(x - 2) }; fib(15)`},
	// closures and state
	{`ctr()`, `ctr()`, `c2 = mk(0); c2() + ctr()`, `arr[1] = 20; arr`, `m.c = 3; m`, `ctr() + len(arr) + len(m)`},
	// scoping: a variable defined inside a function must not appear at top level; := at top level
	{`func setx() { x := 5; x }; setx()`, `x := 1; x`, `func getx() { x }; getx()`, `x = x + 1; getx()`},
	// memoization interplay: functions whose calls the failing inputs made before failing
	{`pure(3)`, `pure(1) + pure(2)`, `func pure(n) { n * 3 }`, `pure(3)`, `deep(5)`},
	// macros (the family the failing inputs marked "m" are used with)
	{`plus1 = macro(x) { quote(unquote(x) + 1) }`, `bad = macro(x) { 1 }`, `plus1(3)`, `say(plus1(plus1(1)))`, `plus1(len(arr)) + pure(2)`},
	// results of every printed kind
	{`nil`, `1.5`, `"str"`, `[1, "a", [2]]`, `{"k": [1]}`, `() => 1`, `1 + "a"`, `true`},
}

func isMacroFamily(fam []string) bool { return strings.Contains(fam[0], "macro(") }

func sessEmit(emit func(string), opts string, base []string, fails string) {
	emit(opts + ";" + hexJoin(base) + ";" + fails)
}

func sessionGen(tier string, r *rng, emit func(string)) {
	thorough := tier == "thorough"
	optsFor := func(f sessFail) string {
		if f.needs == "d" || strings.Contains(f.text, "self()") {
			// a small MaxDepth keeps the overflow cheap; varied so that the overflow happens at different nestings
			return fmt.Sprintf("d=%d", 200+r.intn(201))
		}
		return ""
	}
	// generated histories may contain unbounded recursion: a moderate MaxDepth keeps its overflow cheap
	genDepth := func() string { return fmt.Sprintf("d=%d", 500+r.intn(1000)) }
	// 1. hand-written families: every failing input x every position x multiplicity 1..3 (exhaustive)
	for _, fam := range sessFamilies {
		base := append(append([]string{}, sessPrelude...), fam...)
		first := len(sessPrelude) // failing inputs only after the prelude (they refer to it)
		for _, f := range sessFails {
			if f.needs == "m" && !isMacroFamily(fam) {
				continue
			}
			// thorough: every position x multiplicity 1..3; quick tier: one position (drawn per failing input) x
			// multiplicity 1 and one of 2, 3
			first := first
			if f.needs == "m" {
				first += 2 // after the macro definitions
			}
			only := first + r.intn(len(base)-first+1)
			for pos := first; pos <= len(base); pos++ {
				if !thorough && pos != only {
					continue
				}
				skip := 2 + r.intn(2)
				for mult := 1; mult <= 3; mult++ {
					if !thorough && mult == skip {
						continue
					}
					sessEmit(emit, optsFor(f), base, sessFailSpec(pos, mult, f))
				}
			}
		}
	}
	general := []sessFail{} // usable with any history that starts with the prelude
	for _, f := range sessFails {
		if f.needs != "m" {
			general = append(general, f)
		}
	}
	// 2. many failing inputs in a row (8+ failing loops: the register file has 8 slots), mixed kinds
	loops := []sessFail{}
	for _, f := range sessFails {
		if strings.Contains(f.text, "for ") && f.kind == 'e' && f.needs != "d" {
			loops = append(loops, f)
		}
	}
	for _, fam := range sessFamilies {
		base := append(append([]string{}, sessPrelude...), fam...)
		for rep := 0; rep < 3; rep++ {
			pos := len(sessPrelude) + r.intn(len(fam)+1)
			var specs []string
			n := 8 + r.intn(8)
			for k := 0; k < n; k++ {
				specs = append(specs, sessFailSpec(pos, 1+r.intn(2), loops[r.intn(len(loops))]))
			}
			sessEmit(emit, "", base, strings.Join(specs, ","))
		}
		// every failing kind once at every position
		for rep := 0; rep < 3; rep++ {
			var specs []string
			for pos := len(sessPrelude); pos <= len(base); pos++ {
				for k := 0; k < 3; k++ {
					specs = append(specs, sessFailSpec(pos, 1+r.intn(3), general[r.intn(len(general))]))
				}
			}
			sessEmit(emit, fmt.Sprintf("d=%d", 200+r.intn(201)), base, strings.Join(specs, ","))
		}
	}
	// 3. generated base histories (typed program generator of the eval suite, one input per statement)
	nShort, nLong := 25, 120
	if thorough {
		nShort, nLong = 200, 2000
	}
	standalone := []sessFail{}
	for _, f := range sessFails {
		if f.needs == "" {
			standalone = append(standalone, f)
		}
	}
	// 3a. short histories: every position x multiplicity 1..3, one failing input each (exhaustive in positions)
	for n := 0; n < nShort; n++ {
		base := genEvalProgram(r, 1+r.intn(3), false, false)
		f := standalone[r.intn(len(standalone))]
		withPrelude := r.intn(2) == 0
		if withPrelude {
			base = append(append([]string{}, sessPrelude...), base...)
			f = general[r.intn(len(general))]
		}
		first := 0
		if withPrelude {
			first = len(sessPrelude)
		}
		opts := optsFor(f)
		if opts == "" {
			opts = genDepth()
		}
		for pos := first; pos <= len(base); pos++ {
			for mult := 1; mult <= 3; mult++ {
				sessEmit(emit, opts, base, sessFailSpec(pos, mult, f))
			}
		}
	}
	// 3b. long histories: random positions, kinds and multiplicities
	for n := 0; n < nLong; n++ {
		base := genEvalProgram(r, 3+r.intn(9), false, false)
		pool := standalone
		first := 0
		if r.intn(3) != 0 {
			base = append(append([]string{}, sessPrelude...), base...)
			pool = general
			first = len(sessPrelude)
		}
		var specs []string
		opts := genDepth()
		for k := 1 + r.intn(6); k > 0; k-- {
			f := pool[r.intn(len(pool))]
			if o := optsFor(f); o != "" {
				opts = o
			}
			specs = append(specs, sessFailSpec(first+r.intn(len(base)-first+1), 1+r.intn(3), f))
		}
		sessEmit(emit, opts, base, strings.Join(specs, ","))
	}
}

// Additions to the `trie` suite (C20):
//
//   - the completion callback with the cursor INSIDE the line (`<words>;<line>;<cursor>`): C20 says tab
//     completion "only ever extends what the user typed"; the terminal hands the callback the whole line and
//     the cursor position and replaces the whole line by what comes back;
//   - sessions (`R;<hex input>|...;<query>[;<cursor>]`): the words are not given but recorded by the real
//     interpreter (eval.State.RegisterTrie, then object.record on every new top-level binding) while it
//     evaluates the inputs; the observation starts with the top-level store after RegisterTrie and after
//     every input, from which the driver recomputes the words with its model of `record`.
package main

import (
	"fmt"
	"sort"
	"strings"

	"grol.io/grol/eval"
	"grol.io/grol/object"
	"grol.io/grol/trie"
)

func trieStore(s *eval.State) string {
	store := s.VerifRootEnv().VerifStore()
	keys := make([]string, 0, len(store))
	for k := range store {
		keys = append(keys, k)
	}
	sort.Strings(keys)
	parts := make([]string, len(keys))
	for i, k := range keys {
		kind := "V"
		if store[k].Type() == object.FUNC {
			kind = "F"
		}
		parts[i] = hx(k) + ":" + kind
	}
	return strings.Join(parts, ",")
}

func trieSessionRun(input string) string {
	parts := strings.SplitN(input, ";", 4)
	if len(parts) < 3 {
		return "BAD"
	}
	initExtensions()
	s := eval.NewState()
	t := trie.NewTrie()
	s.RegisterTrie(t)
	stores := []string{trieStore(s)}
	for _, h := range strings.Split(parts[1], "|") {
		func() {
			defer func() {
				if r := recover(); r != nil {
					s.Reset()
				}
			}()
			_, _ = eval.EvalString(s, unhx(h), false)
		}()
		stores = append(stores, trieStore(s))
	}
	return "ids=" + strings.Join(stores, "|") + ";" + trieQuery(t, unhx(parts[2]), parts[3:])
}

func trieSessionGen(tier string, r *rng, emit func(string)) {
	thorough := tier == "thorough"
	// --- cursor inside the line: exhaustive small family, then random
	u := wordsUpTo("ab", 2, true)
	lines := wordsUpTo("ab", 3, true)
	seqs(u, 2, func(ws []string) {
		for _, l := range lines {
			for p := 0; p < len(l); p++ { // p == len(l) is the default of the other families
				emit(hxList(ws) + ";" + hx(l) + ";" + fmt.Sprint(p))
			}
		}
	})
	n := 4000
	if thorough {
		n = 60000
	}
	alphas := []string{"ab", "abc", "pri nt(", "a\x00\xff"}
	for i := 0; i < n; i++ {
		alpha := alphas[r.intn(len(alphas))]
		ws := make([]string, 1+r.intn(5))
		for j := range ws {
			ws[j] = randWord(r, alpha, 6)
		}
		p := ws[r.intn(len(ws))]
		line := p[:r.intn(len(p)+1)]
		cur := len(line)
		if r.intn(4) == 0 && cur > 0 {
			cur = r.intn(cur)
		}
		line += randWord(r, alpha+" =(", 5) // what is after the cursor
		emit(hxList(ws) + ";" + hx(line) + ";" + fmt.Sprint(cur))
	}
	// --- sessions
	names := []string{"a", "ab", "abc", "b", "ba", "abs", "PI2", "X", "infox", "i", "pr", "print2"}
	fresh := 0
	stmt := func() []string { // the inputs of one step: ONE top-level definition per input (the driver sees the store between inputs)
		nm := names[r.intn(len(names))]
		other := names[r.intn(len(names))]
		switch r.intn(16) {
		case 0, 1:
			return []string{nm + "=" + fmt.Sprint(r.intn(9))}
		case 2:
			return []string{nm + "=func(){" + fmt.Sprint(r.intn(9)) + "}"}
		case 3:
			return []string{"func " + nm + "(x){x}"}
		case 4:
			return []string{nm + "=x=>x+1"}
		case 5:
			return []string{"del(" + nm + ")"}
		case 6:
			return []string{nm + "=" + other} // copy (of a function, of a value, or an error: unknown identifier)
		case 7:
			return []string{nm + "=undefined_name+1"} // fails: nothing is defined
		case 8:
			return []string{nm + "=[1,2]", nm + "[0]=5"}
		case 9:
			return []string{nm + "={}", nm + ".k=1"}
		case 10:
			return []string{"for " + nm + "=0:3 {}"}
		case 11:
			return []string{nm + "=1", nm + "=func(){2}"} // created as a value, then updated to a function: recorded once
		case 12:
			return []string{"func(){" + nm + "=1}()"} // assigned inside a call: local, nothing recorded
		case 13:
			// `:=` always creates, so it records again when the name exists (observed: abs:=2 adds "abs " next to
			// "abs("); the driver's model works from the stores between inputs and cannot see that: fresh names only
			fresh++
			return []string{fmt.Sprintf("%sq%d:=2", nm, fresh)}
		case 14:
			return []string{nm + "++"}
		default:
			return []string{"(" + nm + ")=>1"} // a lambda with that parameter: no binding
		}
	}
	queries := func() (string, []string) {
		nm := names[r.intn(len(names))]
		q := []string{"", nm, nm + "(", nm + " ", nm[:r.intn(len(nm)+1)], "info", "in", "zz"}[r.intn(8)]
		if r.intn(5) == 0 && len(q) > 0 {
			return q + "xy", []string{fmt.Sprint(r.intn(len(q) + 1))}
		}
		return q, nil
	}
	ns := 1500
	if thorough {
		ns = 20000
	}
	for i := 0; i < ns; i++ {
		var ins []string
		for k := 1 + r.intn(6); k > 0; k-- {
			for _, in := range stmt() {
				ins = append(ins, hx(in))
			}
		}
		q, cur := queries()
		line := "R;" + strings.Join(ins, "|") + ";" + hx(q)
		if cur != nil {
			line += ";" + cur[0]
		}
		emit(line)
	}
}

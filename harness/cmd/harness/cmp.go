package main

// cmp suite (C12): the implementation's three-way comparison, equality and operators on pairs
// and triples of values.
//
//   V|<a>            obs: <wire of the value obtained by evaluating srcWire(a)> or "-" (no source)
//   P|<a>|<b>        obs: c=<cab>,<cba>,<caa>;e=<eab><eba><eaa'>;s=<12 ops>|-;mn=<v>|-|P;mx=<v>|-|P
//                    cxy = object.Cmp(x,y) (P = panic), exy = object.Equals(x,y) (0/1/P), a' = a second,
//                    independently built instance of a; ops = a<b a<=b a>b a>=b a==b a!=b b<a b<=a b>a b>=a
//                    b==a b!=a evaluated from grol source (0/1, P panic, E not a boolean);
//                    mn/mx = min(a,b)/max(a,b) from source.
//   T|<a>|<b>|<c>    obs: <cab>,<cbc>,<cac>;<eab><ebc><eac>

import (
	"fmt"
	"math"
	"sort"
	"strings"

	"grol.io/grol/eval"
	"grol.io/grol/object"
)

func init() { suites["cmp"] = suite{gen: cmpGen, run: cmpRun} }

func safeCmp(a, b object.Object) (res string) {
	defer func() {
		if r := recover(); r != nil {
			res = "P"
		}
	}()
	return fmt.Sprintf("%d", object.Cmp(a, b))
}

func safeEq(a, b object.Object) (res string) {
	defer func() {
		if r := recover(); r != nil {
			res = "P"
		}
	}()
	return b2s(object.Equals(a, b))
}

// evaluates code in a fresh state; a Go panic gives (nil, true)
func evalCatch(code string) (res object.Object, panicked bool) {
	defer func() {
		if r := recover(); r != nil {
			res, panicked = nil, true
		}
	}()
	initExtensions()
	s := eval.NewState()
	res, _ = eval.EvalString(s, code, false)
	return res, false
}

func boolChar(o object.Object, panicked bool) string {
	if panicked {
		return "P"
	}
	if b, ok := o.(object.Boolean); ok {
		return b2s(b.Value)
	}
	return "E"
}

var cmpOps = []string{"a<b", "a<=b", "a>b", "a>=b", "a==b", "a!=b", "b<a", "b<=a", "b>a", "b>=a", "b==a", "b!=a"}

func cmpRun(input string) string {
	parts := strings.Split(input, "|")
	switch parts[0] {
	case "V":
		src, ok := srcWire(parts[1])
		if !ok {
			return "-"
		}
		o, p := evalCatch(src)
		if p {
			return "P"
		}
		return toWire(o)
	case "P":
		a, b, a2 := buildWire(parts[1]), buildWire(parts[2]), buildWire(parts[1])
		var sb strings.Builder
		fmt.Fprintf(&sb, "c=%s,%s,%s;e=%s%s%s;s=", safeCmp(a, b), safeCmp(b, a), safeCmp(a, a), safeEq(a, b), safeEq(b, a), safeEq(a, a2))
		sa, oka := srcWire(parts[1])
		sbb, okb := srcWire(parts[2])
		if !oka || !okb {
			sb.WriteString("-;mn=-;mx=-")
			return sb.String()
		}
		pre := "a=" + sa + "\nb=" + sbb + "\n"
		all, p := evalCatch(pre + "[" + strings.Join(cmpOps, ",") + "]")
		done := false
		if !p {
			if arr, ok := all.(object.Array); ok && arr.Len() == len(cmpOps) {
				for _, e := range arr.Elements() {
					sb.WriteString(boolChar(e, false))
				}
				done = true
			}
		}
		if !done {
			for _, op := range cmpOps {
				o, p := evalCatch(pre + op)
				sb.WriteString(boolChar(o, p))
			}
		}
		for _, f := range []string{"min", "max"} {
			o, p := evalCatch(pre + f + "(a,b)")
			sb.WriteString(";" + f[:1] + f[2:] + "=")
			if p {
				sb.WriteString("P")
			} else {
				sb.WriteString(toWire(o))
			}
		}
		return sb.String()
	case "T":
		a, b, c := buildWire(parts[1]), buildWire(parts[2]), buildWire(parts[3])
		return fmt.Sprintf("%s,%s,%s;%s%s%s", safeCmp(a, b), safeCmp(b, c), safeCmp(a, c), safeEq(a, b), safeEq(b, c), safeEq(a, c))
	}
	return cmpExtRun(parts) // O (sort) and N (min/max of several values): cmp_sort.go
}

func wf(f float64) string  { return fmt.Sprintf("d%016x", math.Float64bits(f)) }
func wi(i int64) string    { return fmt.Sprintf("i%d", i) }
func ws(s string) string   { return "s" + hx(s) }
func wfn(s string) string  { return "F" + hx(s) }
func wq(s string) string   { return "Q" + hx(s) }
func wext(s string) string { return "X" + hx(s) }
func warr(e ...string) string {
	return "[" + strings.Join(e, ",") + "]"
}

// canonical wire of the map obtained by inserting the pairs in this order
// ("{}" if building it panics: a key the implementation cannot compare)
func wmap(kv ...string) (res string) {
	defer func() {
		if r := recover(); r != nil {
			res = "{}"
		}
	}()
	m := object.NewMapSize(len(kv) / 2)
	for i := 0; i+1 < len(kv); i += 2 {
		m = m.Set(buildWire(kv[i]), buildWire(kv[i+1]))
	}
	return toWire(m)
}

func cmpNumbers() []string {
	p53 := int64(1) << 53
	u := []string{
		wi(0), wi(1), wi(-1), wi(2), wi(p53 - 1), wi(p53), wi(p53 + 1), wi(p53 + 2), wi(p53 + 3), wi(-p53), wi(-p53 - 1), wi(-p53 + 1),
		wi(math.MaxInt64), wi(math.MaxInt64 - 1), wi(math.MinInt64), wi(math.MinInt64 + 1), wi(1 << 62), wi(math.MaxInt64 - 511), wi(math.MaxInt64 - 512),
		wi(math.MaxInt64 - 1023), wi(math.MinInt64 + 1024),
		wf(0), wf(math.Copysign(0, -1)), fmt.Sprintf("d%016x", runtimeNaNBits()), "d7ff8000000000001", "d7ff0000000000001", wf(math.Inf(1)), wf(math.Inf(-1)),
		wf(1), wf(-1), wf(2), wf(0.1), wf(0.5), wf(1.5), wf(-1.5), wf(-0.5), wf(float64(p53)), wf(float64(p53 + 2)), wf(float64(p53 - 1)), wf(-float64(p53)),
		wf(-float64(p53 + 2)), wf(9223372036854775808.0), wf(-9223372036854775808.0), wf(9223372036854775808.0 + 2048), wf(-9223372036854775808.0 - 2048),
		wf(9223372036854774784.0), wf(math.SmallestNonzeroFloat64), wf(-math.SmallestNonzeroFloat64), wf(math.Float64frombits(0x000fffffffffffff)),
		wf(math.MaxFloat64), wf(-math.MaxFloat64), wf(4611686018427387904.0), wf(4503599627370496.5), wf(4503599627370495.5),
	}
	return u
}

func cmpUniverse() []string {
	u := cmpNumbers()
	u = append(u, "n", "t", "f",
		ws(""), ws("a"), ws("b"), ws("ab"), ws("a\x00"), ws("\xff"), ws("\xfe\xff"), ws("\xc3\xa9"), ws("key"), ws("A"),
		"e"+hx("x"), "e-", "e"+hx("y"),
		wfn("x=>x"), wfn("y=>y"), wfn("(a,b)=>a+b"), wfn("()=>1"),
		wext("min"), wext("max"), wext("pow"),
		wq("quote(1)"), wq("quote(x + 1)"), wq("quote(2)"),
		"M-", "Ri1", "Rn", "g5", "g0", fmt.Sprintf("g%d", int64(1)<<53+1),
		warr(), warr(wi(1)), warr(wf(1)), warr(wi(2)), warr(wi(1), wi(2)), warr(wi(1), wi(3)), warr(wi(2), wi(1)), warr(warr()), warr(warr(wi(1))),
		warr(warr(), warr()), warr("n"), warr(ws("a")), warr(wi(1), wi(2), wi(3)), warr(fmt.Sprintf("d%016x", runtimeNaNBits())),
		warr(wi(1<<53+1)), warr(wf(float64(int64(1)<<53))), warr(wi(1<<53)),
		warr(wi(0), wi(1), wi(2), wi(3), wi(4), wi(5), wi(6), wi(7), wi(8)), warr(wi(0), wi(1), wi(2), wi(3), wi(4), wi(5), wi(6), wi(7), wi(9)),
		warr(wi(0), wi(1), wi(2), wi(3), wi(4), wi(5), wi(6), wi(7)), warr(wq("quote(1)")), warr("g5"),
		wmap(), wmap(wi(1), wi(2)), wmap(wi(1), wi(3)), wmap(wi(2), wi(1)), wmap(wf(1), wi(2)), wmap(ws("a"), wi(1)), wmap(ws("a"), wi(1), ws("b"), wi(2)),
		wmap(ws("b"), wi(2), ws("a"), wi(1), wi(1), wi(2)), wmap("n", "n"), wmap(warr(wi(1)), warr(wi(2))), wmap(wmap(wi(1), wi(2)), wi(3)),
		wmap(wi(1), wi(1), wi(2), wi(2), wi(3), wi(3), wi(4), wi(4), wi(5), wi(5)), wmap(wi(5), wi(6), wi(4), wi(4), wi(3), wi(3), wi(2), wi(2), wi(1), wi(1)),
		wmap(wi(1), wi(1), wi(2), wi(2), wi(3), wi(3), wi(4), wi(4)), wmap(wi(1), wmap()), wmap(wi(1<<53+1), wi(1)), wmap(wf(float64(int64(1)<<53)), wi(1)),
		wmap(wfn("x=>x"), wext("min")), wmap("t", "f", "f", "t"),
	)
	return u
}

// a random nested value made of universe atoms
func cmpRandomValue(r *rng, atoms []string, depth int) string {
	if depth == 0 || r.intn(3) == 0 {
		return atoms[r.intn(len(atoms))]
	}
	n := r.intn(4)
	if r.intn(2) == 0 {
		els := make([]string, n)
		for i := range els {
			els[i] = cmpRandomValue(r, atoms, depth-1)
		}
		return warr(els...)
	}
	kv := make([]string, 0, 2*n)
	for i := 0; i < n; i++ {
		kv = append(kv, cmpRandomValue(r, atoms, depth-1), cmpRandomValue(r, atoms, depth-1))
	}
	return wmap(kv...)
}

func isPlainData(w string) bool { return !strings.ContainsAny(w, "MR") }

func cmpGen(tier string, r *rng, emit func(string)) {
	initExtensions()
	thorough := tier == "thorough"
	u := cmpUniverse()
	for _, v := range u {
		emit("V|" + v)
	}
	for i, a := range u {
		for _, b := range u[i:] {
			emit("P|" + a + "|" + b)
		}
	}
	// random nested values
	var atoms []string
	for _, v := range u {
		if isPlainData(v) && len(v) < 24 {
			atoms = append(atoms, v)
		}
	}
	npool := 40
	if thorough {
		npool = 150
	}
	pool := make([]string, 0, npool)
	for len(pool) < npool {
		pool = append(pool, cmpRandomValue(r, atoms, 2+r.intn(2)))
	}
	for _, v := range pool {
		emit("V|" + v)
	}
	for i, a := range pool {
		for _, b := range pool[i:] {
			if thorough || r.intn(4) == 0 {
				emit("P|" + a + "|" + b)
			}
		}
		emit("P|" + a + "|" + u[r.intn(len(u))])
	}
	// triples
	nums := cmpNumbers()
	triple := func(a, b, c string) { emit("T|" + a + "|" + b + "|" + c) }
	if thorough {
		for _, a := range u {
			for _, b := range u {
				for _, c := range u {
					triple(a, b, c)
				}
			}
		}
	} else {
		for _, a := range nums {
			for _, b := range nums {
				for _, c := range nums {
					if r.intn(4) == 0 {
						triple(a, b, c)
					}
				}
			}
		}
		for i := 0; i < 40000; i++ {
			triple(u[r.intn(len(u))], u[r.intn(len(u))], u[r.intn(len(u))])
		}
	}
	all := append(append([]string{}, u...), pool...)
	// neighbours in the implementation's own order: all triples inside every window of 4 adjacent
	// values (equal and nearly equal values meet here far more often than in random triples)
	var sorted []string
	for _, v := range all {
		if isPlainData(v) {
			sorted = append(sorted, v)
		}
	}
	objs := map[string]object.Object{}
	for _, v := range sorted {
		objs[v] = buildWire(v)
	}
	sort.SliceStable(sorted, func(i, j int) bool { return safeCmp(objs[sorted[i]], objs[sorted[j]]) == "-1" })
	for i := 0; i+4 <= len(sorted); i++ {
		w := sorted[i : i+4]
		for _, a := range w {
			for _, b := range w {
				for _, c := range w {
					triple(a, b, c)
				}
			}
		}
	}
	nrand := 20000
	if thorough {
		nrand = 300000
	}
	for i := 0; i < nrand; i++ {
		triple(all[r.intn(len(all))], all[r.intn(len(all))], all[r.intn(len(all))])
	}
	cmpExtGen(tier, r, u, pool, emit) // sorting, min/max of several values: cmp_sort.go
}

// Additions to stream f of the `sanitize` suite (C17), same child processes and scratch tree:
//
//	f;<cfg>;exec;<hex name>    exec("touch", name)      "the process-execution functions do not exist" when IO is
//	f;<cfg>;run;<hex name>     run("touch", name)        restricted: an error and an untouched tree; unrestricted: the file appears
//	f;<cfg>;save0;-            save()                    no argument = ./.gr in every configuration that has save/load
//	f;<cfg>;load0;-            load()
package main

func sanitizeExtProg(op string) (string, bool) {
	switch op {
	case "exec":
		return `exec("touch", args[0])`, true
	case "run":
		return `run("touch", args[0])`, true
	case "save0":
		return "save()", true
	case "load0":
		return "load()", true
	}
	return "", false
}

func sanitizeExtGen(emit func(string)) {
	for _, c := range []string{"00", "01", "n", "10"} {
		for _, op := range []string{"exec", "run"} {
			for _, n := range []string{"pwn", "../pwn", "pwn.gr"} {
				if c == "10" && n == "../pwn" {
					n = "sub/pwn" // stay inside the scratch tree's current directory
				}
				emit("f;" + c + ";" + op + ";" + hx(n))
			}
		}
		emit("f;" + c + ";save0;-")
		emit("f;" + c + ";load0;-")
	}
}

package main

import (
	"fmt"
	"strings"
)

// C05 (third family): what the property's quantifier names and the first two families did not form:
// functions of 0..12 integer parameters whose bodies hold NESTED counted loops (parameters and loop variables
// compete for the 8 registers of one environment), loop bounds computed from parameters, outer loop variables
// and len(), return out of a loop nest at any depth, loop variables escaping in every position (index, slice
// bound, map key, variadic argument, extension argument, literal, closure argument, result), recursion from
// inside loops, condition loops over a mutated integer parameter, short lambdas, and long sessions of
// top-level loops (20..50) leaving through every exit.
func famRegs3(r *rng) []string {
	var res []string
	np := r.intn(13)
	ps := make([]string, np)
	args := make([]string, np)
	for i := range ps {
		ps[i] = fmt.Sprintf("p%d", i)
		if r.intn(6) == 0 {
			args[i] = pickS(r, `"s"`, "1.5", "[1,2]", "nil", "false") // not true: `for j = true` never ends and the deadline cuts configurations at different points
		} else {
			args[i] = itoa(r.intn(6))
		}
	}
	pv := func() string { // an integer valued operand: parameter, literal
		if np > 0 && r.intn(2) == 0 {
			return ps[r.intn(np)]
		}
		return itoa(1 + r.intn(4))
	}
	depth := 1 + r.intn(4)
	lv := func(d int) string { return fmt.Sprintf("%c", "ijkl"[d]) }
	use := func(d int) string { // the innermost statement: the loop variables escape somewhere
		v := lv(r.intn(d + 1))
		w := lv(r.intn(d + 1))
		return pickS(r,
			"acc = acc + ["+v+"]",
			"acc = acc + [["+v+", "+w+"]]",
			"m9["+v+"] = "+w+"; acc = acc + [len(m9)]",
			"m9 = m9 + {"+v+": ["+w+"]}",
			"acc = acc + [xs9["+v+"], xs9[-"+v+" - 1]]",
			"acc = acc + [len(xs9["+v+":]), len(xs9[0:"+w+"])]",
			"acc = acc + [vf9("+v+", "+w+", "+v+" + "+w+")]",
			"acc = acc + [max("+v+", "+w+"), min("+v+", 1), int("+v+")]",
			"acc = acc + [sprintf(\"%d-%v\", "+v+", "+w+")]",
			"acc = acc + [cl9("+v+")]",
			"acc = acc + [("+v+" << "+w+") + ("+v+" % ("+w+" + 1)) - "+v+" / ("+w+" + 1), -"+v+", ~"+w+"]",
			"acc = acc + ["+v+" == "+w+", "+v+" < "+w+", "+v+" * 1.5 > "+w+"]",
			"acc = acc + [\"s\" * "+v+", [0] * "+w+", "+v+":"+w+" + "+v+"]",
			"acc = acc + [if "+v+" > "+w+" {"+v+"} else {"+w+"}]",
			"print("+v+", "+w+", \"\")",
			"acc = acc + [catch(ck9("+v+")).err]",
			"xs9["+v+"] = "+w+" * 10")
	}
	exit := func(d int) string {
		v := lv(r.intn(d + 1))
		return pickS(r, "", "", "if "+v+" == 1 {break}", "if "+v+" == 1 {continue}", "if "+v+" == 1 {return [\"early\", "+v+", acc]}",
			"if "+v+" == 2 {error(\"boom\", "+v+")}", "if "+v+" == 1 {return "+v+"}", "ck9("+v+" + 2)")
	}
	body := use(depth-1) + "\n" + exit(depth-1)
	for d := depth - 1; d >= 0; d-- {
		var hdr string
		outer := pv()
		if d > 0 && r.intn(2) == 0 {
			outer = lv(r.intn(d))
		}
		switch r.intn(5) {
		case 0:
			hdr = fmt.Sprintf("for %s = %s", lv(d), pv())
		case 1:
			hdr = fmt.Sprintf("for %s = %s:%s + %d", lv(d), outer, outer, 1+r.intn(3))
		case 2:
			hdr = fmt.Sprintf("for %s = 0:len(xs9) - %d", lv(d), 3+r.intn(3))
		case 3:
			hdr = fmt.Sprintf("for %s := %d", lv(d), 2+r.intn(2))
		default:
			hdr = fmt.Sprintf("for %s = %d:%s + 2", lv(d), r.intn(2), outer)
		}
		body = hdr + " {\n" + body + "\n}"
		if d > 0 && r.intn(3) == 0 {
			body += "\n" + exit(d-1)
		}
	}
	res = append(res, svDef,
		"vf9 = func(a, ..){ [a, len(..)] }; cl9 = n => n * 2; ck9 = func(n){ if n > 3 { error(\"big\") }; n }",
		"func fr3("+strings.Join(ps, ", ")+") {\nacc = []; m9 = {}; xs9 = [5,6,7,8,9,10,11,12,13]\n"+body+"\n[\"end\", acc, m9, xs9, ["+strings.Join(ps, ", ")+"]]\n}")
	call := "fr3(" + strings.Join(args, ", ") + ")"
	res = append(res, "println(sv(catch("+call+")))", "println(sv(catch("+call+")))")
	// the same nest at top level (the loop variables are globals there), twice
	top := strings.ReplaceAll(body, "return", "break //")
	top = "acc = []; m9 = {}; xs9 = [5,6,7,8,9,10,11,12,13]; " + strings.Join(func() []string {
		var l []string
		for i, p := range ps {
			l = append(l, p+" = "+args[i])
		}
		return l
	}(), "; ") + "\n" + top
	res = append(res, top, "println(acc, m9, xs9)", "println(sv(catch(i)), sv(catch(j)), sv(catch(k)), sv(catch(l)))")
	// recursion from inside loops, condition loops over a mutated parameter, short lambdas
	res = append(res, pickS(r,
		fmt.Sprintf("func rc(n){ s = 1; for i = n { s = s + rc(i) }; s }; println(rc(%d), rc(%d))", 2+r.intn(5), 1+r.intn(3)),
		fmt.Sprintf("func wl(n, m){ c = 0; for n < m { n++; if n == 3 {continue}; c = c + n }; [n, m, c] }; println(wl(%d, %d), wl(5, 2))", r.intn(3), 4+r.intn(5)),
		fmt.Sprintf("tri = n => { t = 0; for i = n + 1 { t = t + i }; t }; println(tri(%d), tri(0), ((a, b) => { for k = a { b = b + k }; b })(%d, %d))", 1+r.intn(9), 1+r.intn(5), r.intn(9)),
		fmt.Sprintf("func cd(n){ for n > 0 { n-- ; for j = n { if j == 2 { return [n, j] } } }; n }; println(cd(%d), cd(1))", 3+r.intn(4)),
		fmt.Sprintf("func gcd(a, b){ for b != 0 { t = b; b = a %% b; a = t }; a }; println(gcd(%d, %d), gcd(17, 5))", 12+r.intn(40), 4+r.intn(20)),
		fmt.Sprintf("func dg(n){ r = []; for i = n { for j = i { for k = j { r = r + [i * 100 + j * 10 + k] } } }; r }; println(dg(%d))", 2+r.intn(4))))
	// "any loop variable name": names that are not read from the variable (repo fix d086181: self, info and the names of
	// extension functions were kept in registers, so the name meant the integer only with registers on)
	res = append(res, pickS(r,
		"for self = 3 { print(sv(catch(self))) }; println()",
		"func rs(self, max){ [sv(catch(self + 1)), 1] }; println(sv(catch(rs(1, 2))))",
		"rl = max => max + 1; println(sv(catch(rl(3))))",
		"for min = 2 { print(1) }; println(sv(catch(min(3, 4))))",
		"func ri(int){ int }; println(sv(catch(ri(3))), sv(catch(int(2.5))))",
		"func rn(a, self, b){ for j = b { a = a + j }; [a, b] }; println(rn(1, 2, 3))",
		"for abs = 2 { for max = 2 { print(1) } }; println(sv(catch(abs(-2))))",
		// the name of the function being run (repo fix 07c7aea)
		"func fo(){ for fo = 3 { print(len(sv(catch(fo + 1)))) }; 1 }; println(fo())",
		"func fp(n){ s = 0; for fp = n { s = s + 1 }; s }; println(fp(3), fp(2))",
		// quote() and eval() of the variable (repo fix 5c922e6)
		"for i = 2 { println(quote(i + 1)) }; func fq(n){ quote(n * 2) }; println(fq(3))",
		"func fe(n){ eval(\"n + 1\") }; println(sv(catch(fe(3)))); for i = 2 { print(sv(catch(eval(\"i * 2\")))) }; println()",
		// two parameters of one name: the last one wins (repo fix a353195)
		"func dp(a, a){ a }; println(dp(1, 2), ((x, y, x) => [x, y])(1, 2, 3))",
		"func dq(a, b, a, b){ a = a + b; [a, b] }; println(dq(1, 2, 3, 4), dq(1, \"s\", 3, 4), dq(1, 2, \"t\", 4))"))
	// a long session of top-level loops: every exit, more than 8 in a row, one input each or all in one
	nl := 20 + r.intn(31)
	var loops []string
	for i := 0; i < nl; i++ {
		v := pickS(r, "i", "j", "k", "t"+itoa(i%3))
		loops = append(loops, pickS(r,
			"for "+v+" = 3 { if "+v+" == 1 {break} }",
			"for "+v+" = 2:5 { if "+v+" == 3 {continue}; z9 = "+v+" }",
			"catch(for "+v+" = 3 { if "+v+" == 1 {error(\"e\")} })",
			"for "+v+" = 2 { for w = 2 { if w == 1 {break} } }",
			"(() => { for "+v+" = 4 { if "+v+" == 2 {return "+v+"} } })()",
			"for "+v+" = 3 { }",
			"catch(for "+v+" = 3 { for w = 3 { nosuch9 } })",
			"for "+v+" := 2 { z9 = "+v+" * 2 }"))
	}
	if r.intn(2) == 0 {
		res = append(res, strings.Join(loops, "\n"))
	} else {
		res = append(res, loops...)
	}
	res = append(res, "for a = 2 { for b = 2 { for c = 2 { for d = 2 { for e = 2 { for f = 2 { for g = 2 { for h = 2 { for i2 = 2 { if a + b + c + d + e + f + g + h + i2 == 9 { print(\"x\") } } } } } } } } } }; println()")
	return res
}

// C07: "a universal statement over operand kinds x operators x node shapes".  One session = one operator (or
// node shape) and one left operand kind, against EVERY right operand kind, each written three ways: as literals at
// top level, through global variables read from inside a function (the operands arrive as references), and with
// the integer operands held by loop registers.  Each expression is its own input (an error ends only that input).
var opKinds = []string{"nil", "true", "false", "0", "1", "-1", "63", "64", "9223372036854775807", "(-9223372036854775807 - 1)", "1.5", "-0.0", "NaN", "Inf",
	`""`, `"a"`, `"héllo"`, "[]", "[1,2]", `[nil,"a",[1]]`, "0:12", "{}", `{"a":1}`, "{1:2,3:4,5:6,7:8,9:10}", "func(){1}", "(a,b)=>a+b", "max", "catch(1/0)",
	"[1,2] * 5", `{"k":[1,2],"m":{}}`}

var opInfix = []string{"+", "-", "*", "/", "%", "&", "|", "^", "<<", ">>", "==", "!=", "<", "<=", ">", ">=", "&&", "||", ":"}

var opShapes = []string{
	"%L[%R]", "%L[%R:]", "%L[0:%R]", "%L[%R:%R]", "%L(%R)", "%L(%R, %R)", "if %L {%R} else {1}", "for %L {%R; break}", "for x9 = %L {%R}", "for x9 = %L:%R {1}",
	"for x9 = %R:%L {1}", "{%L: %R}", "[%L, %R] == [%R, %L]", "[%L] < [%R]", "v9 = %L; v9[%R] = 1; v9", "v9 = %L; v9[0] = %R; v9", "v9 = %L; v9.k = %R; v9",
	"v9 = %L; del(v9[%R]); v9", "v9 = %L; v9++; v9", "v9 = %L; --v9; v9", "-%L + %R", "!%L == %R", "~%L | %R", "+%L", "len(%L) + len(%R)", "first(%L) == first(%R)",
	"rest(%L) + rest(%R)", "print(%L, %R)", "println(%L)", "error(%L, %R)", "catch(%L)", "catch(%L).value + %R", "del(%L)", "func(a){a}(%L, %R)", "func(a, ..){[a, ..]}(%L, %R)",
	"func(){return %L}() == %R", "x9 = y9 = %L", "(x => x)(%L)(%R)", "%L.k", "%L.%R", "{%L: 1}[%R]", "[%L][%R]", "min(%L, %R)", "%L * %R * %L", "%L + %R + %L", "%L = %R", "%L := %R",
	"for x9 = [%L, %R] {x9}", "str9 = \"\" + %L", "%L && %R || %L", "unquote(%L)", "quote(%L) == quote(%R)",
	// a container stored inside itself (fatal stack overflow before repo fixes 95497ec / 11369d7)
	"v9 = %L; v9[0] = v9; v9 == v9", "v9 = %L; v9[v9] = %R; v9", "v9 = %L; v9.k = v9; v9", "v9 = %L; w9 = [v9]; v9[-1] = w9; v9 == w9",
	"v9 = %L; v9 = v9 + %R; p9 = v9 + 1; q9 = v9 + [p9]; [q9 == p9, q9]", "v9 = %L; v9[%R] = [v9, {1: v9}]; v9",
}

// shapes that write into the left operand: it is always a fresh literal (a global of the session reached by
// reference would be written in place when large - the open C06 classes - and change the following inputs)
func opShapeMutates(t string) bool {
	return strings.Contains(t, "v9[") || strings.Contains(t, "v9.") || strings.Contains(t, "v9++") || strings.Contains(t, "--v9") || strings.Contains(t, "v9 +")
}

func famOpKinds(r *rng) []string {
	var tmpl string
	if r.intn(3) == 0 {
		tmpl = opShapes[r.intn(len(opShapes))]
	} else {
		tmpl = "%L " + opInfix[r.intn(len(opInfix))] + " %R"
	}
	li := r.intn(len(opKinds))
	res := []string{}
	// globals holding every kind, and a function reading two of them by name
	var binds []string
	for i, k := range opKinds {
		binds = append(binds, fmt.Sprintf("k%d = %s", i, k))
	}
	res = append(res, strings.Join(binds, "\n"))
	sub := func(l, rr string) string {
		if opShapeMutates(tmpl) {
			l = "(" + opKinds[li] + ")"
		}
		return strings.ReplaceAll(strings.ReplaceAll(tmpl, "%L", l), "%R", rr)
	}
	form := r.intn(3)
	for ri := range opKinds {
		switch form {
		case 0:
			res = append(res, sub(opKinds[li], opKinds[ri]))
		case 1:
			res = append(res, fmt.Sprintf("(() => { %s })()", sub(fmt.Sprintf("k%d", li), fmt.Sprintf("k%d", ri))))
		default:
			// integer kinds become loop registers / integer parameters, the other kinds stay variables
			l, rr := fmt.Sprintf("k%d", li), fmt.Sprintf("k%d", ri)
			res = append(res, fmt.Sprintf("for a9 = 1:3 { for b9 = a9:65 { if b9 == 2 || b9 == 64 { %s } } }", sub(pickS(r, "a9", l), pickS(r, "b9", rr))),
				fmt.Sprintf("func(a9, b9){ %s }(%s, %s)", sub("a9", "b9"), l, rr))
		}
	}
	res = append(res, "println(\"still alive\")")
	return res
}

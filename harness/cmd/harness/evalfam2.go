package main

import "fmt"

// C04: "results depending on ... redefined functions ... are never served from the cache".  A caller that was
// called (and remembered) before one of the functions it depends on changes: redefined at top level, by another
// function, deleted and re-created, under each way of defining a function, directly or through wrappers and closures.
func famRedef(r *rng) []string {
	k := r.intn(4)
	c1, c2 := 1+r.intn(5), 6+r.intn(5)
	defG := func(c int) string {
		return pickS(r,
			fmt.Sprintf("g = func(x){x+%d}", c),
			fmt.Sprintf("func g(x){x+%d}", c),
			fmt.Sprintf("g = x => x+%d", c),
			fmt.Sprintf("g = func(x){println(\"g\", x); x*%d}", c))
	}
	var res []string
	res = append(res, defG(c1))
	call := fmt.Sprintf("f(%d)", k)
	switch r.intn(7) {
	case 0:
		res = append(res, "f = func(x){g(x)}")
	case 1:
		res = append(res, "func f(x){ g(x) + g(x+1) }")
	case 2: // two levels
		res = append(res, "w = func(x){g(x)}", "f = func(x){[x, w(x)]}")
	case 3: // recursion calling g at the base case
		res = append(res, "func f(n){ if n <= 0 {return g(n)}; f(n-1) }")
	case 4: // closure created in a function, calling g
		res = append(res, "mk = func(a){ func(x){ g(x) + a } }", "f = mk(100)")
	case 5: // the function is passed on as a value
		res = append(res, "ap = func(h, x){h(x)}", "f = func(x){ ap(g, x) }")
	default: // g used as a value, not called
		res = append(res, "f = func(x){ h = g; h(x) }")
	}
	res = append(res, "println("+call+")", "println("+call+")")
	switch r.intn(7) {
	case 0, 1:
		res = append(res, defG(c2))
	case 2: // redefined by a function, itself called twice with the same arguments
		res = append(res, fmt.Sprintf("redef = func(){ g = func(x){x+%d}; 0 }", c2), "redef()")
	case 3: // deleted and re-created
		res = append(res, "del(g)", defG(c2))
	case 4: // deleted: the caller now fails
		res = append(res, "del(g)")
	case 5: // no longer a function
		res = append(res, fmt.Sprintf("g = %d", c2))
	default: // a setter called twice with equal arguments, separated by a direct redefinition
		res = append(res, fmt.Sprintf("setg = func(c){ g = func(x){x*c}; c }", ), fmt.Sprintf("setg(%d)", c2), "println("+call+")",
			defG(c1), "println("+call+")", fmt.Sprintf("setg(%d)", c2))
	}
	res = append(res, "println("+call+")", "println("+call+")")
	if r.intn(2) == 0 { // and back to the first definition
		res = append(res, defG(c1), "println("+call+")")
	}
	res = append(res, call)
	return res
}

package main

import (
	"fmt"
	"strings"
)

// C04: "results depending on ... redefined functions ... are never served from the cache".  A caller that was
// called (and remembered) before one of the functions it depends on changes: redefined at top level, by another
// function, deleted and re-created, under each way of defining a function, directly or through wrappers and closures.
func famRedef(r *rng) []string {
	k := r.intn(4)
	c1, c2 := 1+r.intn(5), 6+r.intn(5)
	defG := func(c int) string {
		return pickS(r,
			fmt.Sprintf("g = func(x){x+%d}", c),
			fmt.Sprintf("func g(x){x+%d}", c),
			fmt.Sprintf("g = x => x+%d", c),
			fmt.Sprintf("g = func(x){println(\"g\", x); x*%d}", c))
	}
	var res []string
	res = append(res, defG(c1))
	call := fmt.Sprintf("f(%d)", k)
	switch r.intn(7) {
	case 0:
		res = append(res, "f = func(x){g(x)}")
	case 1:
		res = append(res, "func f(x){ g(x) + g(x+1) }")
	case 2: // two levels
		res = append(res, "w = func(x){g(x)}", "f = func(x){[x, w(x)]}")
	case 3: // recursion calling g at the base case
		res = append(res, "func f(n){ if n <= 0 {return g(n)}; f(n-1) }")
	case 4: // closure created in a function, calling g
		res = append(res, "mk = func(a){ func(x){ g(x) + a } }", "f = mk(100)")
	case 5: // the function is passed on as a value
		res = append(res, "ap = func(h, x){h(x)}", "f = func(x){ ap(g, x) }")
	default: // g used as a value, not called
		res = append(res, "f = func(x){ h = g; h(x) }")
	}
	res = append(res, "println("+call+")", "println("+call+")")
	switch r.intn(7) {
	case 0, 1:
		res = append(res, defG(c2))
	case 2: // redefined by a function, itself called twice with the same arguments; also AFTER the function has read g, so that
		// its own binding of g is a reference to the outer one (seeded change C04-8: the invalidation looked at the reference)
		res = append(res, pickS(r,
			fmt.Sprintf("redef = func(){ g = func(x){x+%d}; 0 }", c2),
			fmt.Sprintf("redef = func(){ old = g; g = func(x){x+%d}; 0 }", c2),
			fmt.Sprintf("redef = func(){ t = g(1); g = func(x){x+%d}; t - t }", c2),
			fmt.Sprintf("redef = func(){ if g != nil { g = func(x){x+%d} }; 0 }", c2),
			fmt.Sprintf("redef = func(){ h = () => { q = g; g = func(x){x+%d}; 0 }; h() }", c2)), "redef()")
	case 3: // deleted and re-created
		res = append(res, "del(g)", defG(c2))
	case 4: // deleted: the caller now fails
		res = append(res, "del(g)")
	case 5: // no longer a function
		res = append(res, fmt.Sprintf("g = %d", c2))
	default: // a setter called twice with equal arguments, separated by a direct redefinition
		res = append(res, fmt.Sprintf("setg = func(c){ g = func(x){x*c}; c }", ), fmt.Sprintf("setg(%d)", c2), "println("+call+")",
			defG(c1), "println("+call+")", fmt.Sprintf("setg(%d)", c2))
	}
	res = append(res, "println("+call+")", "println("+call+")")
	if r.intn(2) == 0 { // and back to the first definition
		res = append(res, defG(c1), "println("+call+")")
	}
	if r.intn(3) == 0 { // a call returning a closure over its own (mutable) environment, alone or inside a container
		n := 1 + r.intn(5)
		mk := pickS(r,
			"mk = func(n) { () => { n = n + 1; n } }",
			"mk = func(n) { [() => { n = n + 1; n }] }",
			"mk = func(n) { {\"next\": () => { n = n + 1; n }} }",
			"func mk(n) { c = 0; func() { c = c + n; c } }",
			"mk = func(n) { g2 = () => n * 2; g2 }",
			// inside LARGE containers (seeded change C04-7: the walk that looks for a function in the result skipped them)
			"mk = func(n) { [0, 1, 2, 3, 4, 5, 6, 7, () => { n = n + 1; n }] }",
			"mk = func(n) { {\"a\": 1, \"b\": 2, \"c\": 3, \"d\": 4, \"e\": 5, \"next\": () => { n = n + 1; n }} }",
			"mk = func(n) { [[0, 1, 2, 3, 4, 5, 6, 7, [() => { n = n + 1; n }]]] }")
		get := func(v string) string {
			switch {
			case strings.Contains(mk, "[[0"):
				return v + "[0][8][0]()"
			case strings.Contains(mk, "[0, 1"):
				return v + "[8]()"
			case strings.Contains(mk, "[()"):
				return v + "[0]()"
			case strings.Contains(mk, "next"):
				return v + ".next()"
			}
			return v + "()"
		}
		res = append(res, mk, fmt.Sprintf("c1 = mk(%d)", n), "println("+get("c1")+")", "println("+get("c1")+")",
			fmt.Sprintf("c2 = mk(%d)", n), "println("+get("c2")+")", "println("+get("c1")+")")
	}
	if r.intn(3) == 0 { // an error caught inside a function (a value, so cacheable by type) that is due to the bindings of the moment
		cf := pickS(r,
			"cf = func(){ c = catch(yq); if c.err { -1 } else { c.value } }", // (the wording of an error is no observation)
			"cf = func(){ catch(yq + 1).err }",
			"cf = func(n){ catch(yq(n)).err }",
			"cf = func(){ c = catch(yq[0]); [c.err, 1] }",
			"func cf(){ if catch(yq).err { \"undefined\" } else { \"defined\" } }")
		call := "cf()"
		if strings.Contains(cf, "func(n)") {
			call = "cf(3)"
		}
		res = append(res, cf, "println("+call+")", "println("+call+")",
			pickS(r, "yq = 1", "yq = func(n){ n * 2 }", "yq = [7, 8]"), "println("+call+")", "del(yq)", "println("+call+")")
	}
	if r.intn(3) == 0 { // a function with an all-caps parameter: binding it consults the outer constants of the moment (577ed27)
		pn := pickS(r, "N", "KQ", "B_1")
		a := 1 + r.intn(5)
		fn := pickS(r,
			fmt.Sprintf("cp = func(%s){ %s + 1 }", pn, pn),
			fmt.Sprintf("func cp(%s){ %s * 2 }", pn, pn),
			fmt.Sprintf("cp = func(x, %s){ x + %s }", pn, pn),
			fmt.Sprintf("cp = func(%s){ w2 = func(){ %s }; w2() }", pn, pn))
		call := fmt.Sprintf("cp(%d)", a)
		if strings.Contains(fn, "(x,") {
			call = fmt.Sprintf("cp(1, %d)", a)
		}
		obs := pickS(r, // (the wording of an error is no observation)
			"println(catch("+call+").err)",
			"if catch("+call+").err { println(\"refused\") } else { println(catch("+call+").value) }",
			"wp = func(){ catch("+call+").err }; println(wp()); println(wp())")
		other := a + 1 + r.intn(3)
		res = append(res, fn, obs, obs,
			fmt.Sprintf("%s = %d", pn, []int{a, other}[r.intn(2)]), obs, obs,
			"del("+pn+")", obs,
			fmt.Sprintf("%s = %d", pn, []int{a, other}[r.intn(2)]), obs, obs)
	}
	if r.intn(6) == 0 { // (eeea7a1) a recursive call sees a local function of an OUTER instance of the same function
		base := 1 + r.intn(3)
		res = append(res, fmt.Sprintf("gq = func(){%d}", base),
			pickS(r, fmt.Sprintf("func fq(n) { if n == 0 { return gq() }; gq := func(){%d}; fq(n-1) }", base+5),
				"func fq(n) { if n == 0 { return catch(gq()).err }; gq := 5; fq(n-1) }",
				"func fq(n) { if n == 0 { return catch(gq()).err }; gq := \"s\"; fq(n-1) }",
				fmt.Sprintf("fq = func(n) { if n == 0 { return gq() }; gq = func(){%d}; self(n-1) }", base+5)),
			"println(fq(0))", "println(fq(1))", "println(fq(0))")
	}
	if r.intn(4) == 0 { // a function drawing into an image (extension state) twice with the same arguments
		res = append(res, `image.new("a", 8, 8)`,
			`tri = func(x, c){ image.move_to("a", x, 1.); image.line_to("a", x + 4., 1.); image.line_to("a", x, 5.); image.close_path("a"); image.draw("a", c) }`,
			`tri(1., [255, 0, 0])`, `p1 = image.png("a")`, `image.new("a", 8, 8)`, `tri(1., [255, 0, 0])`, `println(p1 == image.png("a"))`)
	}
	res = append(res, call)
	return res
}

// C05 (second family): the ways out of a counted loop taken while OTHER register loops of the same environment are
// still running (an error swallowed by catch inside an enclosing loop, return from a function's loop nest), and
// every kind of assignment to a parameter / loop variable that the register rewrite has to refuse.
func famRegs2(r *rng) []string {
	var res []string
	// 1. nest of counted loops with a catch at a random level and an exit at the innermost one
	depth := 2 + r.intn(6)
	catchAt := 1 + r.intn(depth-1) // the loop at this level is wrapped in catch(...)
	exit := pickS(r, "error(\"boom\")", "if i0 == 1 {error(\"boom\")}", "1/0", "x0 = [1][5]", "if i0 == 0 {break}", "undefined_name")
	loop := "print(i0)\n" + exit
	for d := 0; d < depth; d++ {
		name := fmt.Sprintf("i%d", d)
		hdr := pickS(r, fmt.Sprintf("for %s = %d", name, 2+r.intn(2)), fmt.Sprintf("for %s = 0:%d", name, 2+r.intn(2)), fmt.Sprintf("for %s := %d", name, 2+r.intn(2)))
		loop = hdr + " {\n" + loop + "\n}"
		if d == catchAt-1 {
			loop = pickS(r, "catch("+loop+")", "c = catch("+loop+"); print(c.err)", "println(catch("+loop+").err)")
		}
	}
	res = append(res, pickS(r, loop, "lp = func(){ "+loop+" }; lp(); lp()", "func lp2(a, b){ "+loop+"; a + b }; println(lp2(1, 2)); println(lp2(1, 2))"))
	res = append(res, "println(\"after\")", "for k = 3 { for k2 = 2 { print(k, k2) } }; println()")
	// 2. assignments to the variable that may live in a register
	p := pickS(r, "n", "a", "i")
	val := pickS(r, `"s"`, "1.5", "["+p+"]", "{1:"+p+"}", "nil", "true", p+" * 2", p+" + 0.5", "func(){1}")
	asg := pickS(r,
		p+" := "+val,
		p+" = "+val,
		"if "+p+" > 0 { "+p+" := "+val+" }",
		"for "+p+" := 2 { print("+p+") }",
		"for "+p+" = 2 { print("+p+") }",
		"for "+p+" := 0:2 { print("+p+") }",
		"q = ("+p+" := "+val+")",
		p+" += 1",
		p+"++; "+p+" := "+val)
	res = append(res, "func fa("+p+", z){ "+asg+"; println("+p+"); ["+p+", z] }", "println(fa(3, 4))", "println(fa(3, 4))", "println(fa(\"x\", 4))")
	res = append(res, "for "+p+" = 2 { "+asg+"; println("+p+") }", "println("+p+")")
	// 3. a loop register written to an OUTER variable from inside a function as the first use of that name in the call
	// (the value stored must be the integer of that moment, not the live register), then loops that reuse the slot
	res = append(res, "idx = -1", "find = func(a, x){ for i = len(a) { if a[i] == x { idx = i } } }", // the loop goes on after the write
		"find([5, 7, 9, 11], 7)", "println(idx)",
		"hit = -1", "scan = func(a, x){ for i = len(a) { if a[i] == x { hit = i; break } }; t = 0; for j = 100 { t = t + j }; t }", // the slot is reused
		"println(scan([5, 7, 9, 11], 9), hit)",
		"last = func(a){ for k = len(a) { seen = k }; 0 }; seen = -1; last([1, 2, 3]); for m = 50 { m }; println(seen)")
	return res
}

// C05/C10: a Go-level panic (the depth guard) unwinding through counted loops whose variables live in registers, in a
// session that carries on: the loop's clean-up runs while the innermost call's scope is still current
func famRegsPanic(r *rng) []string {
	v := pickS(r, "i", "n", "k")
	at := r.intn(4)
	rec := pickS(r, "func rr(n){ rr(n+1) }", "func rr(){ rr() }", "rr = func(n){ 1 + rr(n+1) }")
	call := "rr(0)"
	if rec == "func rr(){ rr() }" {
		call = "rr()"
	}
	loop := "for " + v + " = 5 { if " + v + " == " + fmt.Sprint(at) + " { " + call + " } }"
	if r.intn(2) == 0 {
		loop = "for o = 2 { " + loop + " }"
	}
	return []string{rec, loop, "println(\"" + v + " is\", " + v + ")", "for " + v + " = 3 { print(" + v + ") }; println()",
		"func w(" + v + "){ for q = 2 { " + call + " }; " + v + " }", "w(4)", "println(w(1) == 1)", "for a = 2 { for b = 2 { for c = 2 { print(a, b, c) } } }; println()"}
}

package main

// mapops suite (C11): operation histories on grol maps, through the object.Map API (mode A) and
// through grol source (mode S).  Case syntax: see lean/Grol/MapSuite.lean.

import (
	"fmt"
	"os"
	"strconv"
	"strings"

	"grol.io/grol/eval"
	"grol.io/grol/object"
)

func init() { suites["mapops"] = suite{gen: mapGen, run: mapRun} }

// pairs of "{k:v,k:v}" in order (keys and values as wire texts)
func wirePairs(w string) []string { return wireChildren(w) }

func buildLiteral(pairs []string) object.Map {
	m := object.NewMapSize(len(pairs) / 2)
	for i := 0; i+1 < len(pairs); i += 2 {
		m = m.Set(buildWire(pairs[i]), buildWire(pairs[i+1]))
	}
	return m
}

func srcLiteral(pairs []string) string {
	var sb strings.Builder
	sb.WriteString("{")
	for i := 0; i+1 < len(pairs); i += 2 {
		if i > 0 {
			sb.WriteString(",")
		}
		k, _ := srcWire(pairs[i])
		v, _ := srcWire(pairs[i+1])
		sb.WriteString(k + ":" + v)
	}
	sb.WriteString("}")
	return sb.String()
}

func mapRep(o object.Object) string {
	switch o.(type) {
	case object.SmallMap:
		return "S"
	case *object.BigMap:
		return "B"
	default:
		return "?" + hx(fmt.Sprintf("%T", o))
	}
}

func errObs(o object.Object) string {
	return "len=0;rep=E;kv=;get=;pr=" + hx(o.Inspect()) + ";fst=;eq="
}

func reversedPairs(m object.Map) []string {
	els := object.VerifMapElements(m)
	var rev []string
	for i := len(els) - 2; i >= 0; i -= 2 {
		rev = append(rev, toWire(els[i]), toWire(els[i+1]))
	}
	return rev
}

// mapParent: the operand of a rest / range / `+` that produced the current map, with its value at that time.  The result of these
// operations is a NEW map: whatever happens to it later (update or delete of an existing key in place, for large maps) must not
// show through the operand (seeded change C11-5: BigMap.Rest/Range returned capacity-clipped sub-slices of the operand's storage).
type mapParent struct {
	m    object.Map
	wire string
}

// the observation of a history in which an operand changed: well-formed for the driver, equal to no map's observation
const mapAliasObs = "len=999999;rep=ALIAS-operand-of-rest-range-append-changed;kv=;get=;pr=;fst=;eq="

func parentsChanged(ps []mapParent) bool {
	for _, p := range ps {
		if toWire(p.m) != p.wire {
			return true
		}
	}
	return false
}

func mapRunAPI(keys []string, ops []string) string {
	var cur object.Object = object.NULL
	var parents []mapParent
	defer func() { parents = nil }()
	for _, op := range ops {
		if parentsChanged(parents) {
			return mapAliasObs
		}
		if pm, ok := cur.(object.Map); ok && (op[0] == 'R' || op[0] == 'G' || op[0] == 'A') {
			parents = append(parents, mapParent{pm, toWire(pm)})
		}
		if op[0] == 'L' {
			cur = buildLiteral(wirePairs(op[1:]))
			continue
		}
		m, ok := cur.(object.Map)
		if !ok {
			break
		}
		switch op[0] {
		case 'S':
			p := wirePairs(op[1:])
			cur = m.Set(buildWire(p[0]), buildWire(p[1]))
		case 'D':
			cur, _ = m.Delete(buildWire(op[1:]))
		case 'A':
			cur = m.Append(buildLiteral(wirePairs(op[1:])))
		case 'R':
			cur = object.Rest(m)
		case 'G':
			lh := strings.Split(op[1:], "-")
			lo, _ := strconv.ParseInt(lh[0], 10, 64)
			hi, _ := strconv.ParseInt(lh[1], 10, 64)
			cur = object.Range(m, lo, hi)
		}
	}
	if parentsChanged(parents) {
		return mapAliasObs
	}
	if cur.Type() == object.NIL {
		return "n"
	}
	m, ok := cur.(object.Map)
	if !ok {
		return errObs(cur)
	}
	gets := make([]string, len(keys))
	for i, k := range keys {
		v, found := m.Get(buildWire(k))
		if !found {
			v = object.NULL
		}
		gets[i] = toWire(v)
	}
	rebuilt := buildLiteral(reversedPairs(m))
	return fmt.Sprintf("len=%d;rep=%s;kv=%s;get=%s;pr=%s;fst=%s;eq=%s%s", m.Len(), mapRep(m), toWire(m), strings.Join(gets, "/"),
		hx(m.Inspect()), toWire(object.First(m)), b2s(object.Equals(m, rebuilt)), b2s(object.Equals(rebuilt, m)))
}

func mapRunSrc(keys []string, ops []string) string {
	initExtensions()
	s := eval.NewState()
	ev := func(code string) object.Object {
		res, _ := eval.EvalString(s, code, false)
		return res
	}
	ev("m=nil")
	np := 0
	var pwires []string
	srcParentsChanged := func() bool {
		for i, w := range pwires {
			if toWire(ev(fmt.Sprintf("p9_%d", i))) != w {
				return true
			}
		}
		return false
	}
	for _, op := range ops {
		var res object.Object
		if srcParentsChanged() {
			return mapAliasObs
		}
		if op[0] == 'R' || op[0] == 'G' || op[0] == 'A' {
			if pm, ok := ev("m").(object.Map); ok {
				ev(fmt.Sprintf("p9_%d=m", np)) // keep the operand under another name
				pwires = append(pwires, toWire(pm))
				np++
			}
		}
		switch op[0] {
		case 'L':
			res = ev("m=" + srcLiteral(wirePairs(op[1:])))
		case 'S':
			p := wirePairs(op[1:])
			k, _ := srcWire(p[0])
			v, _ := srcWire(p[1])
			res = ev("m[" + k + "]=" + v)
		case 'D':
			k, _ := srcWire(op[1:])
			res = ev("del(m[" + k + "])")
		case 'A':
			res = ev("m=m+" + srcLiteral(wirePairs(op[1:])))
		case 'R':
			res = ev("m=rest(m)")
		case 'G':
			lh := strings.Split(op[1:], "-")
			res = ev("m=m[" + lh[0] + ":" + lh[1] + "]")
		}
		if res != nil && res.Type() == object.ERROR {
			return errObs(res)
		}
		if ev("m").Type() == object.NIL {
			break
		}
	}
	if srcParentsChanged() {
		return mapAliasObs
	}
	cur := ev("m")
	if cur.Type() == object.NIL {
		return "n"
	}
	m, ok := cur.(object.Map)
	if !ok {
		return errObs(cur)
	}
	gets := make([]string, len(keys))
	for i, k := range keys {
		ks, _ := srcWire(k)
		gets[i] = toWire(ev("m[" + ks + "]"))
	}
	rev := srcLiteral(reversedPairs(m))
	return fmt.Sprintf("len=%s;rep=%s;kv=%s;get=%s;pr=%s;fst=%s;eq=%s%s", ev("len(m)").Inspect(), mapRep(m), toWire(m), strings.Join(gets, "/"),
		hx(m.Inspect()), toWire(ev("first(m)")), boolChar(ev("m=="+rev), false), boolChar(ev(rev+"==m"), false))
}

func mapRun(input string) string {
	parts := strings.Split(input, "|")
	if parts[0] == "K" { // the constant the model is instantiated with
		return strconv.Itoa(object.MaxSmallMap)
	}
	var keys, ops []string
	if parts[1] != "" {
		keys = strings.Split(parts[1], ";")
	}
	if parts[2] != "" {
		ops = strings.Split(parts[2], ";")
	}
	if parts[0] == "S" {
		return mapRunSrc(keys, ops)
	}
	if parts[0] == "I" { // source, with iteration / inequality observations and more operations: mapops_iter.go
		return mapRunIter(keys, ops)
	}
	return mapRunAPI(keys, ops)
}

// ---- generators

func litOp(kind string, pairs ...string) string {
	var sb strings.Builder
	sb.WriteString(kind + "{")
	for i := 0; i+1 < len(pairs); i += 2 {
		if i > 0 {
			sb.WriteString(",")
		}
		sb.WriteString(pairs[i] + ":" + pairs[i+1])
	}
	sb.WriteString("}")
	return sb.String()
}

type mapState struct {
	hist []string
	n    int // number of pairs
}

// state after a history (through the API): canonical key and length; ok=false if the variable is not a map any more
func mapStateOf(hist []string) (key string, n int, ok bool) {
	obs := mapRunAPI(nil, hist)
	if obs == "n" || strings.Contains(obs, "rep=E") || strings.Contains(obs, "rep=ALIAS") || !strings.HasPrefix(obs, "len=") {
		return obs, 0, false // (also the ALIAS observation: the case is emitted by the caller and the model disagrees)
	}
	f := strings.Split(obs, ";")
	n, _ = strconv.Atoi(f[0][4:])
	return f[1] + f[2], n, true
}

func mapOpsFrom(n int, keys, vals []string, rights [][]string) []string {
	var ops []string
	for _, k := range keys {
		for _, v := range vals {
			ops = append(ops, litOp("S", k, v))
		}
		ops = append(ops, "D"+k)
	}
	ops = append(ops, "R")
	seen := map[string]bool{}
	for _, lh := range [][2]int{{0, n}, {0, n - 1}, {1, n}, {1, n - 1}, {0, 0}, {0, 4}, {0, 5}, {n - 4, n}, {n - 5, n}, {2, n}, {n, n}} {
		if lh[0] < 0 || lh[1] < lh[0] || lh[1] > n {
			continue
		}
		op := fmt.Sprintf("G%d-%d", lh[0], lh[1])
		if !seen[op] {
			seen[op] = true
			ops = append(ops, op)
		}
	}
	for _, r := range rights {
		ops = append(ops, litOp("A", r...))
	}
	return ops
}

func mapGen(tier string, r *rng, emit func(string)) {
	initExtensions()
	thorough := tier == "thorough"
	keys := []string{wi(1), wf(1), wf(1.5), ws("a"), "t", "n", warr(wi(1))}
	vals := []string{wi(7), ws("v")}
	keyField := strings.Join(keys, ";")
	both := func(kf string, hist []string) {
		h := strings.Join(hist, ";")
		emit("A|" + kf + "|" + h)
		emit("S|" + kf + "|" + h)
	}
	rights := [][]string{
		{},
		{wi(1), ws("v")},
		{ws("a"), wi(7), "n", ws("v")},
		{wf(1), wi(7), "t", wi(7), warr(wi(1)), ws("v")},
		{wf(1.5), ws("v"), wi(1), wi(7), "n", wi(7), "t", ws("v")},
		{warr(wi(1)), wi(7), "n", wi(7), "t", wi(7), ws("a"), wi(7), wf(1.5), wi(7)},
		{warr(wi(1)), ws("v"), "n", ws("v"), "t", ws("v"), ws("a"), ws("v"), wf(1.5), ws("v"), wf(1), ws("v")},
	}
	// insertion-order independence of literals: every ordered selection of up to 3 keys, and all orders of two 5-key sets
	seqs(keys, 3, func(ks []string) {
		var p []string
		for i, k := range ks {
			p = append(p, k, vals[i%2])
		}
		both(keyField, []string{litOp("L", p...)})
	})
	for _, set := range [][]string{{keys[0], keys[2], keys[3], keys[4], keys[5]}, {keys[1], keys[2], keys[3], keys[5], keys[6]}} {
		seqs(set, 5, func(ks []string) {
			if len(ks) < 4 {
				return
			}
			var p []string
			for i, k := range ks {
				p = append(p, k, vals[i%2])
			}
			both(keyField, []string{litOp("L", p...)})
		})
	}
	// BFS of the reachable state space from the empty map and a few literals
	maxStates := 350
	if thorough {
		maxStates = 1 << 30
	}
	starts := [][]string{
		{litOp("L")},
		{litOp("L", keys[0], vals[0], keys[1], vals[1])},                                                                         // 1 then 1.0: same key
		{litOp("L", keys[6], vals[0], keys[5], vals[0], keys[4], vals[0], keys[3], vals[0], keys[2], vals[0])},                   // NewMapSize(5): big from the start
		{litOp("L", keys[0], vals[0], keys[1], vals[1], keys[1], vals[0], keys[0], vals[1], keys[2], vals[0])},                   // big with 2 pairs
		{litOp("L", keys[6], vals[0], keys[5], vals[0], keys[4], vals[0], keys[3], vals[0], keys[2], vals[0], keys[0], vals[0])}, // 6 pairs
	}
	seenState := map[string]bool{}
	var queue []mapState
	push := func(hist []string) {
		key, n, ok := mapStateOf(hist)
		if !ok || seenState[key] || len(seenState) >= maxStates {
			return
		}
		seenState[key] = true
		queue = append(queue, mapState{hist: append([]string{}, hist...), n: n})
	}
	for _, s := range starts {
		both(keyField, s)
		push(s)
	}
	for qi := 0; qi < len(queue); qi++ {
		st := queue[qi]
		for _, op := range mapOpsFrom(st.n, keys, vals, rights) {
			h := append(append([]string{}, st.hist...), op)
			both(keyField, h)
			push(h)
		}
	}
	fmt.Fprintf(os.Stderr, "mapops: BFS explored %d states (limit %d)\n", len(queue), maxStates)
	emit("K||")
	// long random histories over a 20-key universe; every prefix is a case
	k20 := []string{wi(0), wi(1), wi(2), wi(3), wi(-1), wf(0.5), wf(1), wf(2), wf(2.5), wf(-1.5), ws("a"), ws("b"), ws("ab"), ws(""), "t", "f", "n", warr(), warr(wi(1)), warr(wi(1), wi(2))}
	v20 := []string{wi(7), ws("v"), "n", warr(wi(1)), wf(0.5)}
	k20Field := strings.Join(k20, ";")
	nseq := 40
	if thorough {
		nseq = 400
	}
	for i := 0; i < nseq; i++ {
		var hist []string
		n := 0
		length := 20 + r.intn(40)
		if r.intn(3) == 0 {
			var p []string
			for j := r.intn(8); j > 0; j-- {
				p = append(p, k20[r.intn(len(k20))], v20[r.intn(len(v20))])
			}
			hist = append(hist, litOp("L", p...))
		} else {
			hist = append(hist, litOp("L"))
		}
		_, n, _ = mapStateOf(hist)
		both(k20Field, hist)
		for len(hist) < length {
			var op string
			switch x := r.intn(20); {
			case x < 9:
				op = litOp("S", k20[r.intn(len(k20))], v20[r.intn(len(v20))])
			case x < 14:
				op = "D" + k20[r.intn(len(k20))]
			case x < 16:
				var p []string
				for j := r.intn(7); j > 0; j-- {
					p = append(p, k20[r.intn(len(k20))], v20[r.intn(len(v20))])
				}
				op = litOp("A", p...)
			case x < 17:
				if n < 3 {
					continue
				}
				op = "R"
			default:
				if n < 2 {
					continue
				}
				lo := r.intn(3)
				hi := n - r.intn(3)
				if lo > hi {
					continue
				}
				op = fmt.Sprintf("G%d-%d", lo, hi)
			}
			hist = append(hist, op)
			var ok bool
			_, n, ok = mapStateOf(hist)
			both(k20Field, hist)
			if !ok {
				break
			}
		}
	}
	mapIterGen(tier, r, emit) // mode I: mapops_iter.go
}

package main

// Families added by the review of the property texts of C02/C03/C08 against the generators
// (format.go, parse.go): situations the texts name that no generated case exercised.
//
//   colonFamily      ":" is a binary operator like the others (range, slice bounds, map pairs) but was missing
//                    from gInfix: every ordered pair (":" , other operator) in parent/child position on either
//                    side, inside an index, a map literal and plain, with prefix operators and open-ended `n:`
//   paramFamily      parameter lists of func / named func / macro / lambda with every kind of token in every
//                    position (found: any token was taken as a parameter name, `func("a b"){}` printed
//                    `func(a b){}`; repaired by d623622: these are parse errors now, the valid neighbours stay)
//   dotFamily        every kind of node on either side of the dot index, of [ ] and of a call (found: `a. ..`
//                    printed `a...`; repaired by 0a803e5)
//   commentFamily    "comments in every statement position": a comment between two statements with every
//                    combination of separators (the two same-line flags), in every kind of block
//   nestedAdjacency  "which two constructs meet": statement pairs x separators inside blocks that are themselves
//                    inside expressions (call argument, array, map value, lambda body, else branch, for body)
//
// Everything is enumerated (no random choice) except the sampling of nestedAdjacency, which draws from the *rng.

import "strings"

var fam2Infix = append(append([]string{}, gInfix...), ":")

func colonFamily(emit func(string)) {
	for _, p := range fam2Infix {
		for _, q := range fam2Infix {
			if p != ":" && q != ":" {
				continue
			}
			for _, t := range []string{"a " + p + " (b " + q + " c)", "(a " + p + " b) " + q + " c", "a " + p + " b " + q + " c"} {
				emit(t)
				emit("x[" + t + "]")
				emit("{" + t + "}")
				emit("f(" + t + ")")
			}
		}
	}
	for _, u := range gPrefix {
		for _, t := range []string{u + "(a:b)", "(" + u + "a):b", "a:(" + u + "b)", "a:" + u + "b", u + "a:b"} {
			emit(t)
			emit("x[" + t + "]")
		}
		emit("x[" + u + "a:]")
		emit("x[(" + u + "a):]")
	}
	for _, s := range []string{
		"(a:b)[1]", "(a:b)(1)", "(a:b).c", "a:b[1]", "a:b.c", "(x=>x):b", "a:(x=>x)", "a:x=>x", "x=>x:b", "x=>(a:b)", "(x=>a):b",
		"a[x=>x:]", "a[(x=>x):]", "a[b:][c:]", "a[b:c][d:]", "a[(b:c):]", "a[b:(c:d)]", "[a:]", "[a:, b]", "[a, b:]", "f(a:]", "{a:b:c}", "{(a:b):c}", "{a:(b:c)}",
		"{a:[b:]}", "{[a:]:b}", "a[1:] = b", "if a:b {c}", "for a:b {c}", "for i = a:b:c {d}", "for i = (a:b) {d}", "return a:b",
		"a[-1:]", "a[:-1]", "a[b=c:]", "a[(b=c):]", "a[b:c=d]", "a[b||c:]", "a[b:c||d]", "a[b&&c:d&&e]", "a[b:c]++", "a[b++:c--]", "a[b:]\n[c:]", "a[b:] [c:]",
		"a[if b {c} else {d}:]", "a[func(){b}():]", "a[b:func(){c}]", "a[b.c:d.e]", "a[b[1]:c[2]]", "a[\"s\":`t`]", "a[1.5:.5]", "a[..:..]", "a[true:false]",
	} {
		emit(s)
	}
}

// tokens tried as parameter names
var fam2ParamTokens = []string{
	"a", "b", "..", "_x", "1", "1.5", `"s"`, `"a b"`, `""`, "`r`", "true", "if", "func", "len", "return", "macro", "break",
	"-", "+", "=", "=>", ".", ":", "(", ")", "()", "[", "{", "}", "a.b", "a b", "a=1", "-a", "a++",
	"// c\n", "/* c */", "a /* c */", "/* c */ a", "@", "\xff", "\xc3\xa9", "\x00", "\n", "",
}

func paramFamily(emit func(string)) {
	heads := []struct{ open, close string }{
		{"func(", "){a}"}, {"func f(", ") {a}"}, {"macro(", "){quote(a)}"}, {"x = func(", "){}; x(1,2)"},
		{"(", ") => a"}, {"(", ") => {a}"}, {"f((", ") => a)"},
	}
	for _, h := range heads {
		for _, t := range fam2ParamTokens {
			emit(h.open + t + h.close)
			emit(h.open + "a, " + t + h.close)
			emit(h.open + t + ", a" + h.close)
			emit(h.open + "a," + t + ",b" + h.close)
			emit(h.open + t + "," + t + h.close)
			emit(h.open + t + h.close + "\n" + h.open + "a" + h.close)
		}
		emit(h.open + "a,b,c,d,e,f,g,h" + h.close)
		emit(h.open + "a , b ,\n c" + h.close)
		emit(h.open + "a,,b" + h.close)
		emit(h.open + ",a" + h.close)
		emit(h.open + "a," + h.close)
		emit(h.open + "a b" + h.close)
	}
	// single parameter lambdas without parentheses
	for _, t := range fam2ParamTokens {
		emit(t + " => a")
		emit("f(" + t + " => a)")
		emit("x = " + t + " => {a}")
	}
}

var fam2Operands = []string{
	"a", `"b"`, "true", "1", "1.5", ".5", "2.", "(b)", "-b", "!b", "b++", "[1]", "{1:2}", "func(){b}", "x => x", "(x,y) => x", "if b {c}",
	"b.c", "b[1]", "b(1)", "len(b)", "..", "..++", "break", "b + c", "b = c", "b:c", "for b {c}", "macro(){b}", "return", "/* c */", "`r`", "0x1F", "1e3",
}

func dotFamily(all bool, emit func(string)) {
	ops := fam2Operands
	if !all {
		ops = ops[:24] // quick tier: the rarer operand kinds only in the thorough tier
	}
	for _, l := range ops {
		for _, r := range ops {
			emit(l + "." + r)
			emit("(" + l + ").(" + r + ")")
			emit("x = -" + l + "." + r + ".z(1) + 1")
			emit("(" + l + ")[" + r + "]")
			emit("(" + l + ")(" + r + ")")
			if all {
				emit("x = " + l + "." + r + ".z")
				emit(l + "." + r + "(1)")
				emit("-" + l + "." + r + " + 1")
				emit(l + " . " + r)
				emit(l + "." + r + "[1]")
				emit(l + "[" + r + "]")
				emit(l + "(" + r + ")")
			}
		}
		for _, t := range []string{"(1)", "[1]", ".a", "++", " ++", "\n(1)", "\n[1]", "\n.a", " (1)", " [1]", " .a", "; (1)", "; [1]"} {
			emit(l + t)
			emit("(" + l + ")" + t)
		}
	}
}

var fam2Blocks = []string{
	"%s", "func(){%s}", "func f(a){%s}", "if a {%s}", "if a {b} else {%s}", "if a {%s} else {b}", "if a {b} else if c {%s}", "for a {%s}", "for i = 0:3 {%s}",
	"x => {%s}", "(x,y) => {%s}", "macro(){%s}", "f(func(){%s})", "[func(){%s}]", "{1:func(){%s}}", "a = func(){%s}", "if a {if b {%s}}", "func(){func(){%s}}",
	"return func(){%s}", "f(x => {%s}, y => {%s})",
}

func inBlock(tpl, body string) string { return strings.ReplaceAll(tpl, "%s", body) }

func commentFamily(all bool, emit func(string)) {
	kinds := []string{"a", "a = 1", "if a {b}", "x => x", "func(){a}", "return a", "[a]", "{1:2}", "a++", "(a)", "// d\n", "/* d */"}
	comments := []string{"// c", "/* c */", "/* c\nd */"}
	sas := []string{"\n", " ", "; ", "\n\n", ""}
	blocks := fam2Blocks[1:12]
	if all {
		kinds = append(kinds, "f(a)", "\"s\"", "-a")
		comments = append(comments, "/**/", "//")
		sas = append(sas, " ;\n", "\t")
		blocks = fam2Blocks[1:]
	}
	for _, c := range comments {
		line := strings.HasPrefix(c, "//")
		for _, sa := range sas {
			sbs := []string{"\n", " ", "\n\n"}
			if all {
				sbs = append(sbs, "; ", "")
			}
			if line {
				sbs = []string{"\n", "\n\n"}
			}
			for _, sb := range sbs {
				for _, s1 := range kinds {
					if strings.HasSuffix(s1, "\n") && !strings.HasPrefix(sa, "\n") {
						continue
					}
					for _, s2 := range kinds {
						emit(s1 + sa + c + sb + s2)
					}
				}
				for _, s1 := range kinds[:3] {
					for _, b := range blocks {
						emit(inBlock(b, s1+sa+c+sb+"b"))
						emit(inBlock(b, c+sb+s1))
						if line {
							emit(inBlock(b, s1+sa+c+sb))
						} else {
							emit(inBlock(b, s1+sa+c))
						}
						emit(inBlock(b, sa+c+sb))
					}
				}
			}
		}
	}
}

func nestedAdjacency(r *rng, quick bool, emit func(string)) {
	atoms := []string{"a", "1", "1.5", ".5", "2.", "\"s\"", "true", "..", "[1]", "{1:2}", "(a)", "a++", "a.b", "a[1]", "a(1)", "len(a)", "x => x", "func(){a}", "if a {b}",
		"!a", "~a", "break", "a = 1", "return", "return a", "/* c */", "// c\n", "for a {b}", "macro(){a}", "(x,y)=>x", "1e3", "0x1F", "a[1:]", "x => {x}", "if a {b} else {c}"}
	seps := []string{"\n", "; ", " ", "", "\n\n", " ; ", "\t"}
	for _, a := range atoms {
		for _, b := range atoms {
			for _, s := range seps {
				if strings.HasSuffix(a, "\n") && !strings.HasPrefix(s, "\n") {
					continue
				}
				for _, blk := range fam2Blocks[1:] {
					if quick && r.intn(60) != 0 {
						continue
					}
					emit(inBlock(blk, a+s+b))
				}
				if !quick || r.intn(10) == 0 {
					emit(a + s + b + s + a)
				}
			}
		}
	}
}

// "programs of arbitrary nesting": the random generator stops at depth 3.  Homogeneous and mixed nests of every
// wrapping construct, 12 to 40 levels deep (printer indentation and precedence state, parser recursion).
var fam2Wrappers = []string{
	"(%s)", "[%s]", "{1:%s}", "{%s:1}", "f(%s)", "f(1, %s)", "x => %s", "x => {%s}", "(x, y) => {%s}", "func(){%s}", "func f(a){%s}", "if a {%s}", "if a {b} else {%s}",
	"if %s {a}", "for a {%s}", "for %s {a}", "-%s", "!%s", "a + %s", "%s + a", "a - (%s)", "%s[0]", "a[%s]", "a[%s:]", "a.(%s)", "(%s).a", "(%s)(1)", "return %s",
	"macro(){%s}", "len(%s)", "quote(%s)", "a = %s", "a && %s", "%s == 1", "// c\n%s", "%s /* c */", "if a {%s} else if b {%s} else {%s}",
}

func deepFamily(r *rng, emit func(string)) {
	wrap := func(w, body string) string { return strings.ReplaceAll(w, "%s", body) }
	for _, w := range fam2Wrappers {
		if strings.Count(w, "%s") > 1 {
			continue
		}
		s := "z"
		for d := 1; d <= 40; d++ {
			s = wrap(w, s)
			if d == 12 || d == 40 {
				emit(s)
			}
		}
	}
	for i := 0; i < 60; i++ {
		s := []string{"z", "1", "\"s\"", "z(1)", "[]", "{}"}[r.intn(6)]
		size := 0
		for d := 4 + r.intn(24); d > 0 && size < 4000; d-- {
			s = wrap(fam2Wrappers[r.intn(len(fam2Wrappers))], s)
			size = len(s)
		}
		emit(s)
	}
}

// "the full token alphabet": tokens that tokAlphabet (parse.go) lacks, in every ordered pair with every token of the
// union, with and without a separating space.
var fam2MoreTokens = []string{
	"!=", "<=", ">", ">=", ">>", "%", "false", "continue", "first", "rest", "print", "println", "log", "error", "catch", "unquote", "del",
	"`r`", "1e", "0x", "0b", ".5", "1.", "99999999999999999999", "\x00", "\xff", "\\", "'", "#", "$", "?", "`", "*/", "//", "_",
}

func tokenPairFamily(emit func(string)) {
	all := append(append([]string{}, tokAlphabet...), fam2MoreTokens...)
	isMore := map[string]bool{}
	for _, t := range fam2MoreTokens {
		isMore[t] = true
		emit(t)
	}
	for _, a := range all {
		for _, b := range all {
			if isMore[a] || isMore[b] {
				emit(a + " " + b)
				emit(a + b)
			}
		}
	}
	for _, a := range fam2MoreTokens {
		for _, tpl := range []string{"( _ )", "[ _ ]", "{ _ : _ }", "f( _ , _ )", "a _ b", "a = _", "if _ { _ }", "func( _ ){ _ }", "_ => _", "a . _", "a[ _ : _ ]", "return _", "- _"} {
			emit(strings.ReplaceAll(tpl, "_", a))
		}
	}
}

// formatGapFamilies: hooked into formatGen (format / format03 suites).
func formatGapFamilies(tier string, r *rng, emit func(string)) {
	src := func(s string) { emit(hx(s)) }
	colonFamily(src)
	paramFamily(src)
	dotFamily(tier == "thorough", src)
	commentFamily(tier == "thorough", src)
	nestedAdjacency(r, tier != "thorough", src)
	deepFamily(r, src)
}

// parseGapFamilies: the same texts for the totality check (parse suite), where most of paramFamily are
// error paths, plus every truncation of the parameter-list texts (nil children must be justified).
func parseGapFamilies(tier string, r *rng, emit func(string)) {
	src := func(s string) { emit(hx(s)) }
	colonFamily(src)
	paramFamily(func(s string) {
		src(s)
		if len(s) < 24 {
			for k := 1; k < len(s); k++ {
				src(s[:k])
			}
		}
	})
	if tier == "thorough" {
		dotFamily(true, src)
	}
	tokenPairFamily(src)
	deepFamily(r, src)
}

package main

import (
	"regexp"
	"strconv"
	"strings"

	"grol.io/grol/eval"
	"grol.io/grol/object"
	"grol.io/grol/lexer"
	"grol.io/grol/parser"
)

// The regrewrite suite (C05): the register OPTIMISATION itself, i.e. the decision whether an integer
// variable of a body (a parameter, the variable of a counted loop) lives in a register, and the rewritten body.
//
//	input: <noReg 0|1>;<registers already in use>;<hex name>:<isInt 0|1>,...;<hex text of the body>
//	obs:   <ast of the body> @@ <per name: k<kept>i<idx>>/... @@ <ast of the final body>      (or P / E)
//
// The real code is (*State).extendFunctionEnv itself, driven by the hook eval.VerifSetupRegisters: a function whose
// parameters are <registers in use> unused integer parameters followed by the candidates, with the body as its body;
// kept/idx are read back from the register count of the environment it returns, the final body is the one it returns.
// The model is Grol.RegRewrite.useRegisters.  A register node is dumped as (reg <hex name> <idx>); the number of
// replaced identifiers is the number of these nodes.  The same decision at the loop site (evalForInteger) is not
// reachable without running the loop: its eligibility expression is pinned as source text (Grol/Generated/RegFacts.lean)
// and its effect is what the eval suite compares.

func init() {
	suites["regrewrite"] = suite{gen: regRewriteGen, run: regRewriteRun}
}

func regRewriteRun(input string) string {
	initExtensions()
	parts := strings.Split(input, ";")
	if len(parts) != 4 {
		return "BAD"
	}
	noReg := parts[0] == "1"
	used, _ := strconv.Atoi(parts[1])
	var names []string
	var isInt []bool
	if parts[2] != "" {
		for _, ni := range strings.Split(parts[2], ",") {
			p := strings.Split(ni, ":") // <hex name>:<isInt>[:<isExt>] (isExt is for the model: the code looks the name up itself)
			if len(p) != 2 && len(p) != 3 {
				return "BAD"
			}
			names = append(names, unhx(p[0]))
			isInt = append(isInt, p[1] == "1")
		}
	}
	p := parser.New(lexer.New(unhx(parts[3])))
	body := p.ParseProgram()
	if len(p.Errors()) > 0 {
		return "P"
	}
	sb := &strings.Builder{}
	dumpNode(sb, body)
	before := sb.String()
	newBody, res, oerr := eval.VerifSetupRegisters(noReg, used, names, isInt, body)
	if oerr != nil {
		return "E" // the call itself is refused (a parameter named like an extension, a constant bound twice)
	}
	sb.WriteString(" @@ ")
	for i, r := range res {
		if i > 0 {
			sb.WriteByte('/')
		}
		sb.WriteString("k" + b2s(r.Kept) + "i" + strconv.Itoa(r.Idx))
	}
	sb.WriteString(" @@ ")
	dumpNode(sb, newBody)
	// the rewrite works on a copy: the body handed in must not have changed
	after := &strings.Builder{}
	dumpNode(after, body)
	if after.String() != before {
		return "MUTATED " + sb.String()
	}
	return sb.String()
}

// every node kind containing the name X (Y = another identifier derived from it), one statement each
var regShapes = []string{
	"X", "-X", "!X", "~X", "(X)", "X; X; X", "XY", "YX", "Y",
	"X + 1", "1 + X", "X * X", "X == 1 && X < 2 || Y", "X % 3 << 1",
	"[X, 1, X]", "[]", "[[X]]", "{X: 1}", "{1: X}", "{X: X, 2: X}", `{"X": 1}`, "{}",
	"m.X", "m.X.y", "m.y.X", "X.y", `m["X"]`, "m[X]", "X[0]", "a[X:]", "a[:X]", "a[1:X]", "a[X:X]", "m.X(3)", "m.y(X)", `m."X"`,
	"X(1)", "f(X)", "f(X, X)", "X(X)", "f()(X)", "f(1)",
	"if X > 1 { X } else { X + 1 }", "if true { 1 }", "if X { 1 } else if Y { X }",
	"for X = 3 { 1 }", "for X := 3 { 1 }", "for X = 0:3 { 1 }", "for X = [1,2] { 1 }",
	"for j = X { j + X }", "for j = 0:X { X }", "for j = X:9 { 1 }", "for X < 3 { 1 }", "for X { 1 }", "for 3 { X }",
	"for j = 3 { for k = 2 { X + j + k } }", "for j = 3 { for X = 2 { j } }", "for j = 2 { if j == X { break }; continue }",
	"return X", "return", "break", "continue",
	"len(X)", "first(X)", "rest(X)", "print(X)", "println(X, 1)", "println()", "log(X)", "error(X)", "catch(X)", "catch(X = 1)",
	"del(X)", "del(m.X)", "del(m[X])", "del(X.a)", "del(X[0])", "del(Y)", "quote(X)", "quote(unquote(X))",
	"X = 1", "X := 1", "y = X", "y := X", "X.a = 1", "X[0] = 1", "a[X] = 1", "m.X = 1", "m.y = X", "y = X = 2", "X = X + 1", "Y = X",
	"X++", "X--", "y++", "++X", "--X", "++y", "- -X", "-(-X)",
	"func(a){a}", "func(X){X}", "func(a){X}", "func f(){1}", "func X(){1}", "a => a + X", "(X) => X", "X => 1", "func(a, ..){X}",
	"func(a, X){1}", "() => 1", "f = func(){ X }; f()",
	"m1 = macro(a){quote(unquote(a) + X)}", "m2 = macro(X){quote(X)}", "m3 = macro(a, X){quote(1)}", "macro(){quote(X)}",
	`"X"`, "1.5", "true", "nil", "// X\nX", "/* X */ 1", "1 /* X */ + X", "9223372036854775807", "-9223372036854775808", "0x10",
	"self", "info", "info.X", "X.info",
	"quote(X)", "quote(1); X", "Y = quote(X + 1); X", "eval(\"X + 1\")", "eval(\"1\") + X", "e9 = eval; e9(\"X\") + X", "[eval][0](\"X\")", "eval", "unquote(X)",
	"if X == 0 { return 1 }; X * f(X - 1)",
	"s = 0; for j = X { s = s + j * X }; s",
	"a = [0,0,0]; a[X] = X; a",
	"println(X, [X], {X: X}, -X, X == 1)",
}

var identRe = regexp.MustCompile(`[A-Za-z_][A-Za-z0-9_]*`)

func regNames(r *rng, text string) string {
	// "max", "int", "min": names of registered extension functions (reserved names, like self and info: never a register)
	cands := []string{"x", "i", "n", "ab", "p0", "j", "k", "s", "a", "m", "f", "y", "N", "LIM", "A1", "", "self", "info", "é", "max", "int", "min", "self", "max"}
	if ids := identRe.FindAllString(text, -1); len(ids) > 0 {
		for k := 0; k < 4; k++ {
			cands = append(cands, ids[r.intn(len(ids))])
		}
	}
	n := 1
	switch r.intn(6) {
	case 0:
		n = 2
	case 1:
		n = 1 + r.intn(4)
	case 2:
		if r.intn(8) == 0 {
			n = 10 // more candidates than registers
		}
	}
	var l []string
	for i := 0; i < n; i++ {
		isInt := "1"
		if r.intn(8) == 0 {
			isInt = "0"
		}
		name := cands[r.intn(len(cands))]
		initExtensions()
		l = append(l, hx(name)+":"+isInt+":"+b2s(object.IsExtraFunction(name)))
	}
	return strings.Join(l, ",")
}

func regCase(r *rng, names, body string) string {
	noReg := "0"
	if r.intn(10) == 0 {
		noReg = "1"
	}
	used := 0
	switch r.intn(8) {
	case 0:
		used = r.intn(9)
	case 1:
		used = 7 + r.intn(2)
	}
	return noReg + ";" + strconv.Itoa(used) + ";" + names + ";" + hx(body)
}

func regRewriteGen(tier string, r *rng, emit func(string)) {
	subst := func(shape, x string) string {
		y := x + "q"
		s := strings.ReplaceAll(shape, "X", "\x00")
		s = strings.ReplaceAll(s, "Y", y)
		return strings.ReplaceAll(s, "\x00", x)
	}
	// 1. every shape alone, for an ordinary name, a constant name, and the empty name; default configuration
	for _, sh := range regShapes {
		for _, x := range []string{"x", "i", "N"} {
			emit("0;0;" + hx(x) + ":1;" + hx(subst(sh, x)))
		}
		emit("0;0;" + hx("") + ":1;" + hx(subst(sh, "x")))
		emit("1;0;" + hx("x") + ":1;" + hx(subst(sh, "x")))
		emit("0;8;" + hx("x") + ":1;" + hx(subst(sh, "x")))
		emit("0;7;" + hx("x") + ":1," + hx("y") + ":1;" + hx(subst(sh, "x")))
		emit("0;0;" + hx("x") + ":0," + hx("y") + ":1;" + hx(subst(sh, "x")))
	}
	n := 1500
	if tier == "thorough" {
		n = 40000
	}
	for i := 0; i < n; i++ {
		var body string
		switch r.intn(3) {
		case 0: // a few shapes, the same name
			x := pickS(r, "x", "i", "n", "ab")
			var l []string
			for k := 0; k < 1+r.intn(4); k++ {
				l = append(l, subst(regShapes[r.intn(len(regShapes))], x))
			}
			body = strings.Join(l, "\n")
			if r.intn(2) == 0 {
				emit(regCase(r, hx(x)+":1", body))
				continue
			}
		case 1: // a shape nested in another one
			x := pickS(r, "x", "i")
			inner := subst(regShapes[r.intn(len(regShapes))], x)
			body = pickS(r, "if c { "+inner+" }", "for j = 3 { "+inner+" }", "["+inner+"]", "f("+inner+")", "y = "+inner,
				"for j = 2 { for k = 2 { "+inner+" } }", "m3 = macro(a){ "+inner+" }", "return "+inner, "{1: "+inner+"}", "-("+inner+")")
			if r.intn(2) == 0 {
				emit(regCase(r, hx(x)+":1", body))
				continue
			}
		default: // bodies from the program generator
			body = strings.Join(genEvalProgram(r, 1+r.intn(6), r.intn(4) == 0, false), "\n")
		}
		emit(regCase(r, regNames(r, body), body))
	}
}

package main

import (
	"strings"
)

// consts suite, second family (gap analysis of C19): "Once an all-upper-case identifier is bound" - the first
// family binds every constant at TOP LEVEL.  Here the constant is a LOCAL of a function call: bound by `=`, by `:=`,
// as a parameter, or as a local of an enclosing function, and attacked from the same scope, from nested functions
// ("assignment from nested functions"), loops and closures, with every syntactic kind of attempt of the first family.
//
//	input 0   REF9 = <literal>                (a top-level constant holding the same value: the reference)
//	input 1   func lc9(){ N <bind> <literal>; <attempt>; N }       (and the other binding forms)
//	input 2,3 lc9()                           (the LOCAL PROBE: the statement demands an error or exactly REF9's value)
//	input 4   REF9
//
// The statement is in lean/Grol/Eval/ConstsSuite.lean (`isLocalProbe`).  constsGenExtra is the single hook.

var localBinds = []string{
	"func lc9(){ %N = %T; %A; %N }",
	"func lc9(){ %N := %T; %A; %N }",
	"func lc9(){ func(%N){ %A; %N }(%T) }",
	"lc9 = func(){ %N = %T; c9 = catch(func(){ %A }()); %N }",
	"func lc9(){ %N = %T; in9 = func(){ %A; %N }; r9 = catch(in9()); if r9.err { return %N }; r9.value }",
	"func lc9(){ %N = %T; for q9 = 2 { c9 = catch(func(){ %A }()) }; %N }",
	"func lc9(){ (%N => { c9 = catch(func(){ %A }()); %N })(%T) }",
	"func lc9(){ %N = %T; mk9 = func(){ func(){ %A; 0 } }; h9 = mk9(); c9 = catch(h9()); %N }",
}

func constsGenExtra(tier string, r *rng, emit func(string)) {
	thorough := tier == "thorough"
	names := []string{"LOC", "L_1", "Q"}
	caseOf := func(bind string, t constType, name, val string, atts []constAttempt) string {
		var parts []string
		for _, a := range atts {
			parts = append(parts, a.text(name, t, val))
		}
		def := strings.NewReplacer("%N", name, "%T", t.lit, "%A", strings.Join(parts, "; ")).Replace(bind)
		texts := []string{"REF9 = " + t.lit, def, "lc9()", "lc9()", "REF9"}
		hs := make([]string, len(texts))
		for i, s := range texts {
			hs[i] = hx(s)
		}
		return "C19;steps=200000;" + strings.Join(hs, "|")
	}
	var kinds []int
	for k, kd := range constKinds {
		if !kd.isDel {
			kinds = append(kinds, k)
		}
	}
	// every kind (all variants) x every binding form x every value type, in the direct context and one drawn context
	for _, t := range constTypes {
		for _, k := range kinds {
			for v := range constKinds[k].variants {
				for bi, b := range localBinds {
					if !thorough && (bi+k+v)%2 == 1 && r.intn(3) != 0 {
						continue
					}
					emit(caseOf(b, t, "LOC", constValues[(k+v+bi)%len(constValues)], []constAttempt{{k, v, 0}}))
					if thorough || r.intn(4) == 0 {
						emit(caseOf(b, t, names[r.intn(len(names))], constValues[r.intn(len(constValues))],
							[]constAttempt{{k, v, 1 + r.intn(len(constContexts)-1)}}))
					}
				}
			}
		}
	}
	// random sequences of 2..3 attempts
	n := 300
	if thorough {
		n = 6000
	}
	for i := 0; i < n; i++ {
		l := 2 + r.intn(2)
		atts := make([]constAttempt, l)
		for j := range atts {
			k := kinds[r.intn(len(kinds))]
			atts[j] = constAttempt{k, r.intn(len(constKinds[k].variants)), r.intn(len(constContexts))}
		}
		emit(caseOf(localBinds[r.intn(len(localBinds))], constTypes[r.intn(len(constTypes))], names[r.intn(len(names))],
			constValues[r.intn(len(constValues))], atts))
	}
}

// Suite `memory` (C09, arithmetic of the allocation guard and the depth counter).
//
//	g;<n>;<limit>           object.SizeOk(n) with the process memory limit set to <limit>
//	                        obs  <ok 0|1>;<free as returned>
//	e;<kind>;<a>;<b>        in-process evaluation of a growing operator with the memory limit pinned to 1 byte,
//	                        so FreeMemory() < 0 and the guard passes exactly the requests of at most 256 objects
//	                        kind = str ("x"*a bytes) * b | arr (0:a) * b | cat (0:a)+(0:b) | map {a keys}+{b keys} | rng a:b
//	                        obs  ok:<len> | err | guard | panic
//	c;<kind>;<a>;<b>        the same program in a child process with GOMEMLIMIT=64MiB, an address space limit and a
//	                        timeout; obs as above, or died (fatal runtime error, killed, timeout)
//	d;<n>;<need>;<m>        recursion of depth n whose deepest Eval nesting is need+1, run with MaxDepth = m
//	                        obs  ok;<depth after> | maxdepth;<depth at recovery>;<depth after Reset>
package main

import (
	"bytes"
	"context"
	"fmt"
	"math"
	"os"
	"os/exec"
	"runtime/debug"
	"strconv"
	"strings"
	"time"

	"fortio.org/log"
	"grol.io/grol/eval"
	"grol.io/grol/extensions"
	"grol.io/grol/object"
)

func init() {
	suites["memory"] = suite{gen: memoryGen, run: memoryRun}
	subcommands["child-mem"] = memoryChild
}

const memChildLimit = 64 << 20

var memInitDone bool

func memInit() {
	if !memInitDone {
		log.SetLogLevelQuiet(log.Error)
		_ = extensions.Init(nil)
		memInitDone = true
	}
}

func intLit(v int64) string {
	if v == math.MinInt64 {
		return "(-9223372036854775807-1)"
	}
	if v < 0 {
		return "(" + strconv.FormatInt(v, 10) + ")"
	}
	return strconv.FormatInt(v, 10)
}

func mapLit(from, n int64) string {
	var sb strings.Builder
	sb.WriteByte('{')
	for i := int64(0); i < n; i++ {
		if i > 0 {
			sb.WriteByte(',')
		}
		fmt.Fprintf(&sb, "%d:0", from+i)
	}
	sb.WriteByte('}')
	return sb.String()
}

// memProgram returns the program and the strings to bind to `args`.
func memProgram(kind string, a, b int64) (string, []string) {
	switch kind {
	case "str":
		return "b=" + intLit(b) + "\nargs[0]*b", []string{strings.Repeat("x", int(a))}
	case "arr":
		return "b=" + intLit(b) + "\n(0:" + intLit(a) + ")*b", nil
	case "cat":
		return "(0:" + intLit(a) + ")+(0:" + intLit(b) + ")", nil
	case "map":
		return mapLit(0, a) + "+" + mapLit(1000000, b), nil
	case "rng":
		return "l=" + intLit(a) + "\nr=" + intLit(b) + "\nl:r", nil
	}
	panic("bad kind " + kind)
}

// memEval evaluates the program and classifies the outcome.
func memEval(kind string, a, b int64) (obs string) {
	memInit()
	prog, args := memProgram(kind, a, b)
	s := eval.NewState()
	if args != nil {
		s.SetArgs(args)
	}
	defer func() {
		if r := recover(); r != nil {
			if str, ok := r.(string); ok && strings.HasPrefix(str, "would exceed memory") {
				obs = "guard"
			} else {
				obs = "panic"
			}
		}
	}()
	res, _ := eval.EvalString(s, prog, false)
	switch res.Type() {
	case object.ERROR:
		return "err"
	case object.STRING:
		return fmt.Sprintf("ok:%d", len(res.(object.String).Value))
	case object.ARRAY:
		return fmt.Sprintf("ok:%d", object.Len(res))
	case object.MAP:
		return fmt.Sprintf("ok:%d", res.(object.Map).Len())
	}
	return "other:" + res.Type().String()
}

func memoryChild(args []string) int {
	a, _ := strconv.ParseInt(args[1], 10, 64)
	b, _ := strconv.ParseInt(args[2], 10, 64)
	fmt.Println(memEval(args[0], a, b))
	return 0
}

// depth of recursion n: f(n) calls itself n times
func depthProgram(n int64) string {
	return "func f(n){if n<=0{return 0}\n1+f(n-1)}\nf(" + intLit(n) + ")"
}

func depthRun(n int64, m int) (string, int, int) {
	memInit()
	s := eval.NewState()
	s.MaxDepth = m
	kind := "ok"
	func() {
		defer func() {
			if r := recover(); r != nil {
				if str, ok := r.(string); ok && strings.HasPrefix(str, "max depth") {
					kind = "maxdepth"
				} else {
					kind = "panic"
				}
			}
		}()
		res, _ := eval.EvalString(s, depthProgram(n), false)
		if res.Type() == object.ERROR {
			kind = "err"
		}
	}()
	d1 := s.VerifDepth()
	s.Reset()
	return kind, d1, s.VerifDepth()
}

var depthNeed = map[int64]int{}

// smallest MaxDepth with which the recursion of depth n succeeds
func depthNeeded(n int64) int {
	if v, ok := depthNeed[n]; ok {
		return v
	}
	lo, hi := 0, 64
	for {
		if k, _, _ := depthRun(n, hi); k == "ok" {
			break
		}
		hi *= 2
	}
	for lo < hi {
		mid := (lo + hi) / 2
		if k, _, _ := depthRun(n, mid); k == "ok" {
			hi = mid
		} else {
			lo = mid + 1
		}
	}
	depthNeed[n] = lo
	return lo
}

func memoryRun(input string) string {
	p := strings.Split(input, ";")
	switch p[0] {
	case "g":
		n, _ := strconv.ParseInt(p[1], 10, 64)
		limit, _ := strconv.ParseInt(p[2], 10, 64)
		old := debug.SetMemoryLimit(limit)
		ok, free := object.SizeOk(int(n))
		debug.SetMemoryLimit(old)
		return b2s(ok) + ";" + strconv.FormatInt(free, 10)
	case "e":
		a, _ := strconv.ParseInt(p[2], 10, 64)
		b, _ := strconv.ParseInt(p[3], 10, 64)
		memInit()
		old := debug.SetMemoryLimit(1)
		defer debug.SetMemoryLimit(old)
		return memEval(p[1], a, b)
	case "c":
		ctx, cancel := context.WithTimeout(context.Background(), 20*time.Second)
		defer cancel()
		cmd := exec.CommandContext(ctx, "/bin/sh", "-c", "ulimit -v 3000000; exec \"$0\" \"$@\"", selfExe(), "child-mem", p[1], p[2], p[3])
		cmd.Env = append(os.Environ(), fmt.Sprintf("GOMEMLIMIT=%d", memChildLimit))
		var out bytes.Buffer
		cmd.Stdout = &out
		if err := cmd.Run(); err != nil {
			return "died"
		}
		return strings.TrimSpace(out.String())
	case "d":
		n, _ := strconv.ParseInt(p[1], 10, 64)
		m, _ := strconv.Atoi(p[3])
		k, d1, d2 := depthRun(n, m)
		if k == "ok" {
			return fmt.Sprintf("ok;%d", d1)
		}
		return fmt.Sprintf("%s;%d;%d", k, d1, d2)
	}
	return "BAD"
}

// boundary-biased int64
func biasedInt(r *rng) int64 {
	switch r.intn(10) {
	case 0:
		return int64(r.intn(600)) - 40
	case 1:
		return int64(1)<<uint(r.intn(63)) + int64(r.intn(5)) - 2
	case 2:
		return -(int64(1) << uint(r.intn(63))) + int64(r.intn(5)) - 2
	case 3:
		return math.MaxInt64 - int64(r.intn(3))
	case 4:
		return math.MinInt64 + int64(r.intn(3))
	case 5:
		return int64(r.next() >> uint(1+r.intn(63)))
	case 6:
		return (int64(1)<<uint(55+r.intn(8)) + int64(1)<<uint(r.intn(40))) // wraps when multiplied by 16
	case 7:
		return 256 + int64(r.intn(5)) - 2
	case 8:
		return int64(r.next())
	default:
		return int64(r.intn(5000))
	}
}

func memoryGen(tier string, r *rng, emit func(string)) {
	thorough := tier == "thorough"
	nG, nE, nD := 93000, 7000, 150
	if thorough {
		nG, nE, nD = 400000, 60000, 600
	}
	// --- the guard itself
	limits := []int64{1, 1 << 20, 1 << 26, 1 << 30, 1 << 40, 1 << 62, math.MaxInt64}
	for i := 0; i < nG; i++ {
		limit := limits[r.intn(len(limits))]
		n := biasedInt(r)
		if r.intn(4) == 0 { // around limit/16, where the byte size meets the budget
			n = limit/16 + int64(r.intn(200000)) - 100000
		}
		emit(fmt.Sprintf("g;%d;%d", n, limit))
	}
	// canary: on a tree without the overflow check, a repeat count whose product wraps makes the evaluator
	// loop and allocate without bound; such cases are then only run in (a few) bounded child processes
	big := int64(1) << 62
	overflowSafe := memoryRun(fmt.Sprintf("c;arr;4;%d", big)) != "died"
	overflows := func(a, b int64) bool {
		return a > 0 && b > 0 && b > math.MaxInt64/a
	}
	// --- the size computations at the call sites (free < 0: at most 256 objects pass)
	for i := 0; i < nE; i++ {
		switch r.intn(5) {
		case 0: // string * int: the guard counts bytes/16
			a := int64(r.intn(40))
			if r.intn(3) == 0 {
				a = int64(r.intn(4300))
			}
			b := biasedInt(r)
			if a > 0 && r.intn(2) == 0 {
				b = 4111/a + int64(r.intn(5)) - 2 // around the 256*16+15 byte boundary
			}
			if !overflowSafe && overflows(a, b) {
				continue
			}
			emit(fmt.Sprintf("e;str;%d;%d", a, b))
		case 1: // array * int
			a := int64(r.intn(257))
			b := biasedInt(r)
			if a > 0 && r.intn(2) == 0 {
				b = 256/a + int64(r.intn(5)) - 2
			}
			if a == 0 && (b > 1000) { // [] * huge: the Go level loop runs b times doing nothing (not polled: C09 time part)
				b = int64(r.intn(1000))
			}
			if !overflowSafe && overflows(a, b) {
				continue
			}
			emit(fmt.Sprintf("e;arr;%d;%d", a, b))
		case 2:
			emit(fmt.Sprintf("e;cat;%d;%d", r.intn(257), r.intn(257)))
		case 3:
			a, b := int64(r.intn(140)), int64(r.intn(140))
			if r.intn(3) == 0 {
				a, b = int64(r.intn(7)), int64(r.intn(7))
			}
			emit(fmt.Sprintf("e;map;%d;%d", a, b))
		default:
			l := biasedInt(r)
			rr := biasedInt(r)
			if r.intn(2) == 0 {
				rr = l + int64(r.intn(300)) - 20 // may wrap
			}
			emit(fmt.Sprintf("e;rng;%d;%d", l, rr))
		}
	}
	// --- real programs in bounded child processes, far from the budget boundary on either side
	for _, c := range [][3]interface{}{
		{"arr", 4, big}, {"arr", 2, big}, {"arr", 1, int64(1) << 60}, {"arr", 3, (int64(1) << 59) + 1<<20},
		{"str", 4, big}, {"str", 2, big + 1}, {"rng", 0, int64(1) << 60}, {"rng", int64(math.MinInt64), int64(math.MaxInt64)},
		{"arr", 4, 100000}, {"arr", 4, 100000000}, {"str", 2, 1000000}, {"str", 2, 4000000000},
		{"rng", 0, 500000}, {"rng", -5, 1000000000}, {"cat", 300000, 200000}, {"cat", 1000, 2000},
	} {
		emit(fmt.Sprintf("c;%s;%d;%d", c[0], c[1], c[2]))
	}
	// --- depth counter
	for i := 0; i < nD; i++ {
		n := int64(r.intn(40))
		need := depthNeeded(n)
		m := need + r.intn(7) - 3
		if r.intn(4) == 0 {
			m = 10 + r.intn(300)
		}
		if m < 1 {
			m = 1
		}
		emit(fmt.Sprintf("d;%d;%d;%d", n, need, m))
	}
}

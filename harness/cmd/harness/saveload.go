// Suite `saveload` (C14): a global environment is built on a fresh eval.State, written with
// SaveGlobals, and loaded into fresh states line by line (as repl.AutoLoad does) and as a whole
// (as load() does); the same is done through the real files by a child process.
//
//	input  max=<N>;<hex def>|<hex def>|...;<hex call>|<hex call>|...     (third field may be empty)
//	obs    G=<globals>;S=<hex of the saved bytes>;n=<count returned>;
//	       L=<errors>!<globals>!<second save: `=` when identical, else hex>;   (line by line)
//	       W=<errors>!<globals>!<second save>;                                  (whole file)
//	       M=<hex of the bytes saved with MaxValueLen=N, `=` when N is 0>;
//	       C=<r orig>^<r L>^<r W>|...      one triple per call, r = o=<hex>!v=<value>!e=<0|1>!p=<panic kind>
//	       X=<8 flags>  save("c14") bytes = S, load("c14") globals = W's, AutoSave bytes = S, AutoLoad globals = L's; then the
//	                    session goes on (every other user global deleted, the others set to 1) and is saved AGAIN to the same
//	                    files: c14.gr bytes = SaveGlobals' own bytes, load("c14") globals = those of evaluating these bytes
//	                    whole, .gr bytes = SaveGlobals' bytes, AutoLoad globals = those of evaluating these bytes line by line;
//	                    5 more flags: after each of 5 further steps of a session that change only the type of an element deep
//	                    inside a value (new value == old value), or a large array in place, AutoSave's .gr = SaveGlobals' bytes
//
// globals: `name=<value>` joined by `,`, sorted by name; a name with a leading `*` is one of the
// identifiers pre-seeded by extensions.Init.  value: n t f i<dec> d<16 hex bits>~<hex Inspect text>
// (dNaN~.. for every NaN) s<hex> a[v,..] m[k:v,..] (M[ for *BigMap) F<hex name|->~<hex cache key>~<0|1: defined inside a function call (Env is a call frame)>~<1|c|0: the printed
// form parses back to the same tree / up to comments / a = up to re-association of chains of one associative operator / not>
// X<ext> E Q ?<type>.
package main

import (
	"bufio"
	"bytes"
	"context"
	"fmt"
	"math"
	"os"
	"path/filepath"
	"regexp"
	"runtime/debug"
	"sort"
	"strconv"
	"strings"

	"fortio.org/log"
	"grol.io/grol/ast"
	"grol.io/grol/eval"
	"grol.io/grol/extensions"
	"grol.io/grol/lexer"
	"grol.io/grol/object"
	"grol.io/grol/parser"
	"grol.io/grol/repl"
)

func init() {
	suites["saveload"] = suite{gen: saveloadGen, run: saveloadRun}
	subcommands["child-saveload"] = saveloadChild
}

// ---- value dump ----

func slDump(sb *strings.Builder, o object.Object, root *object.Environment, depth int) {
	if o == nil {
		sb.WriteString("?nil")
		return
	}
	if depth > 100 {
		sb.WriteString("?deep")
		return
	}
	switch v := o.(type) {
	case object.Null:
		sb.WriteString("n")
	case object.Boolean:
		if v.Value {
			sb.WriteString("t")
		} else {
			sb.WriteString("f")
		}
	case object.Integer:
		sb.WriteString("i" + strconv.FormatInt(v.Value, 10))
	case *object.Register:
		sb.WriteString("i" + strconv.FormatInt(v.Int64(), 10))
	case object.Float:
		if math.IsNaN(v.Value) {
			sb.WriteString("dNaN~" + hx(v.Inspect()))
		} else {
			sb.WriteString(fmt.Sprintf("d%016x~%s", math.Float64bits(v.Value), hx(v.Inspect())))
		}
	case object.String:
		sb.WriteString("s" + hx(v.Value))
	case object.Error:
		sb.WriteString("E")
	case object.Function:
		name := "-"
		if v.Name != nil {
			name = hx(v.Name.Literal())
		}
		sb.WriteString("F" + name + "~" + hx(v.CacheKey) + "~" + b2s(v.Env != nil && v.Env != root && v.Env.Name() != "") + "~" + slReparse(v))
	case object.Extension:
		sb.WriteString("X" + v.Name)
	case object.Reference:
		slDump(sb, object.Value(v), root, depth+1)
	case object.Quote:
		sb.WriteString("Q")
	default:
		switch o.Type() {
		case object.ARRAY:
			sb.WriteString("a[")
			for i, e := range object.Elements(o) {
				if i > 0 {
					sb.WriteByte(',')
				}
				slDump(sb, e, root, depth+1)
			}
			sb.WriteString("]")
		case object.MAP:
			m := o.(object.Map)
			if _, big := o.(*object.BigMap); big {
				sb.WriteString("M[")
			} else {
				sb.WriteString("m[")
			}
			els := object.VerifMapElements(m)
			for i := 0; i+1 < len(els); i += 2 {
				if i > 0 {
					sb.WriteByte(',')
				}
				slDump(sb, els[i], root, depth+1)
				sb.WriteByte(':')
				slDump(sb, els[i+1], root, depth+1)
			}
			sb.WriteString("]")
		default:
			sb.WriteString("?" + o.Type().String())
		}
	}
}

// slFuncShape renders what the evaluator uses of a function: parameters, variadic flag, body.
func slFuncShape(params []ast.Node, variadic bool, body *ast.Statements) string {
	sb := &strings.Builder{}
	for _, p := range params {
		sb.WriteString(hx(p.Value().Literal()) + " ")
	}
	sb.WriteString(b2s(variadic) + " ")
	dumpNode(sb, body)
	return sb.String()
}

// slReparse: does the printed form of the function (the text SaveGlobals writes) parse back to the
// function's own tree?  1 = yes, c = yes up to comment nodes, 0 = no.  (The front end only: C02's domain.)
func slReparse(f object.Function) (res string) {
	defer func() {
		if r := recover(); r != nil {
			res = "0"
		}
	}()
	p := parser.New(lexer.New(f.Inspect()))
	prog := p.ParseProgram()
	if len(p.Errors()) > 0 || len(prog.Statements) != 1 {
		return "0"
	}
	fl, ok := prog.Statements[0].(*ast.FunctionLiteral)
	if !ok {
		return "0"
	}
	a := slFuncShape(f.Parameters, f.Variadic, f.Body)
	b := slFuncShape(fl.Parameters, fl.Variadic, fl.Body)
	if a == b {
		return "1"
	}
	strip := func(x string) string { return strings.ReplaceAll(x, " (cmt)", "") }
	if strip(a) == strip(b) {
		return "c"
	}
	if slFlattenAssoc(a) == slFlattenAssoc(b) { // a+(b+c) printed a+b+c: saveload_assoc.go
		return "a"
	}
	return "0"
}

func slGlobals(s *eval.State) string {
	root := s.VerifRootEnv()
	store := root.VerifStore()
	keys := make([]string, 0, len(store))
	for k := range store {
		keys = append(keys, k)
	}
	sort.Strings(keys)
	sb := &strings.Builder{}
	for i, k := range keys {
		if i > 0 {
			sb.WriteByte(',')
		}
		if object.VerifIsExtraIdentifier(k) {
			sb.WriteByte('*')
		}
		sb.WriteString(k + "=")
		slDump(sb, store[k], root, 0)
	}
	return sb.String()
}

// ---- running ----

func slNewState(maxLen int) (*eval.State, *bytes.Buffer) {
	s := eval.NewState()
	out := &bytes.Buffer{}
	s.Out = out
	s.LogOut = out
	s.NoLog = true
	s.MaxValueLen = maxLen
	return s, out
}

// one input evaluated like the REPL does (parse, macros, Eval under recover); the evaluation
// budget is counted in context polls so that the outcome does not depend on the wall clock
func slEval(s *eval.State, out *bytes.Buffer, text string) (res string) {
	start := out.Len()
	finish := func(v string, isErr bool, pk string) string {
		return fmt.Sprintf("o=%s!v=%s!e=%s!p=%s", hx(out.String()[start:]), v, b2s(isErr), pk)
	}
	defer func() {
		if r := recover(); r != nil {
			s.Reset()
			res = finish("-", false, panicKind(r))
		}
	}()
	s.Context = &countingCtx{Context: context.Background(), left: 200000}
	p := parser.New(lexer.New(text))
	var program ast.Node = p.ParseProgram()
	if len(p.Errors()) > 0 {
		return "P"
	}
	s.DefineMacros(program)
	if s.NumMacros() > 0 {
		program = s.ExpandMacros(program)
	}
	obj := s.Eval(program)
	return finish(valueString(obj), obj.Type() == object.ERROR, "-")
}

func slBuild(defs []string, maxLen int) (*eval.State, *bytes.Buffer) {
	s, out := slNewState(maxLen)
	for _, d := range defs {
		slEval(s, out, d)
	}
	return s, out
}

func slSave(s *eval.State) (string, int) {
	var buf bytes.Buffer
	n, err := s.SaveGlobals(&buf)
	if err != nil {
		return "ERR", -1
	}
	return buf.String(), n
}

func slEvalString(s *eval.State, code string) (failed bool) {
	defer func() {
		if r := recover(); r != nil {
			s.Reset()
			failed = true
		}
	}()
	s.Context = &countingCtx{Context: context.Background(), left: 200000}
	_, err := eval.EvalString(s, code, false)
	return err != nil
}

// repl.AutoLoad's loop on the saved bytes
func slLoadLines(saved string) (*eval.State, *bytes.Buffer, int) {
	s, out := slNewState(0)
	scanner := bufio.NewScanner(strings.NewReader(saved))
	scanner.Buffer(nil, math.MaxInt32)
	errs := 0
	for scanner.Scan() {
		if slEvalString(s, scanner.Text()) {
			errs++
		}
	}
	return s, out, errs
}

// loadFunc's evaluation of the whole file
func slLoadWhole(saved string) (*eval.State, *bytes.Buffer, int) {
	s, out := slNewState(0)
	errs := 0
	if slEvalString(s, saved) {
		errs = 1
	}
	return s, out, errs
}

func slSplit(field string) []string {
	if field == "" {
		return nil
	}
	var res []string
	for _, h := range strings.Split(field, "|") {
		res = append(res, unhx(h))
	}
	return res
}

func slParse(input string) (maxLen int, defs, calls []string, ok bool) {
	parts := strings.Split(input, ";")
	if len(parts) != 3 || !strings.HasPrefix(parts[0], "max=") {
		return 0, nil, nil, false
	}
	maxLen, _ = strconv.Atoi(parts[0][4:])
	return maxLen, slSplit(parts[1]), slSplit(parts[2]), true
}

func sameOr(a, ref string) string {
	if a == ref {
		return "="
	}
	return hx(a)
}

var slChild *lineChild

func saveloadRun(input string) string {
	initExtensions()
	// as in the eval suite: the allocation guard compares requests with GOMEMLIMIT
	memLimitOnce.Do(func() { debug.SetMemoryLimit(256 << 20) })
	maxLen, defs, calls, ok := slParse(input)
	if !ok {
		return "BAD"
	}
	s0, _ := slNewState(0)
	fresh := slGlobals(s0)
	s, out := slBuild(defs, 0)
	numSet := s.VerifRootEnv().NumSet()
	g := slGlobals(s)
	saved, n := slSave(s)
	sL, outL, errL := slLoadLines(saved)
	gL := slGlobals(sL)
	savedL, _ := slSave(sL)
	sW, outW, errW := slLoadWhole(saved)
	gW := slGlobals(sW)
	savedW, _ := slSave(sW)
	m := "="
	if maxLen > 0 {
		s.MaxValueLen = maxLen
		m2, _ := slSave(s)
		m = hx(m2)
		s.MaxValueLen = 0
	}
	var cs []string
	for _, c := range calls {
		cs = append(cs, slEval(s, out, c)+"^"+slEval(sL, outL, c)+"^"+slEval(sW, outW, c))
	}
	// the same through the real files, in a child process whose working directory is a scratch directory
	if slChild == nil {
		slChild = startLineChild(newScratch("saveload"), nil, "child-saveload")
	}
	x := "cccccccc"
	if ans, err := slChild.ask(input); err == nil {
		p := strings.Split(ans, ";")
		if len(p) == 5 {
			x = b2s(p[0] == hx(saved)) + b2s(p[1] == gW)
			if numSet == 0 {
				// repl.AutoSave skips the save when nothing was set: no file, nothing to load
				x += b2s(p[2] == "none") + b2s(p[3] == fresh)
			} else {
				x += b2s(p[2] == hx(saved)) + b2s(p[3] == gL)
			}
			x += p[4]
		}
	} else {
		slChild = nil
	}
	return fmt.Sprintf("G=%s;S=%s;n=%d;L=%d!%s!%s;W=%d!%s!%s;M=%s;C=%s;X=%s", g, hx(saved), n,
		errL, gL, sameOr(savedL, saved), errW, gW, sameOr(savedW, saved), m, strings.Join(cs, "|"), x)
}

// child: per request line (a case input): build the state, save("c14"), load("c14") into a fresh state,
// repl.AutoSave, repl.AutoLoad into a fresh state; answers <hex file>;<globals>;<hex .gr>;<globals>
func saveloadChild(_ []string) int {
	log.SetOutput(os.Stderr)
	log.SetLogLevelQuiet(log.Critical)
	if err := extensions.Init(&extensions.Config{HasLoad: true, HasSave: true}); err != nil {
		return 3
	}
	debug.SetMemoryLimit(256 << 20)
	in := bufio.NewReaderSize(os.Stdin, 1<<20)
	w := bufio.NewWriter(os.Stdout)
	for {
		line, err := in.ReadString('\n')
		if err != nil {
			return 0
		}
		fmt.Fprintln(w, saveloadChildCase(strings.TrimRight(line, "\n")))
		w.Flush()
	}
}

func saveloadChildCase(input string) (res string) {
	defer func() {
		if r := recover(); r != nil {
			res = "PANIC"
		}
	}()
	_, defs, _, ok := slParse(input)
	if !ok {
		return "BAD"
	}
	_ = os.Remove("c14.gr")
	_ = os.Remove(".gr")
	s, out := slBuild(defs, 0)
	slEval(s, out, `save("c14")`)
	f1 := readOpt("c14.gr")
	s2, out2 := slNewState(0)
	slEval(s2, out2, `load("c14")`)
	g2 := slGlobals(s2)
	s3, _ := slBuild(defs, 0)
	_ = repl.AutoSave(s3, repl.Options{AutoSave: true})
	f2 := readOpt(".gr")
	s4, _ := slNewState(0)
	_ = repl.AutoLoad(s4, repl.Options{AutoLoad: true})
	g4 := slGlobals(s4)
	// the session goes on and gets smaller, then is saved again over the same files
	shrink := slShrink(s)
	for _, st := range shrink {
		slEval(s, out, st)
		slEval(s3, out, st)
	}
	want, _ := slSave(s)
	slEval(s, out, `save("c14")`)
	f5 := readOpt("c14.gr")
	s6, out6 := slNewState(0)
	slEval(s6, out6, `load("c14")`)
	sW, _, _ := slLoadWhole(want)
	want3, _ := slSave(s3)
	_ = repl.AutoSave(s3, repl.Options{AutoSave: true})
	f7 := readOpt(".gr")
	s8, _ := slNewState(0)
	_ = repl.AutoLoad(s8, repl.Options{AutoLoad: true})
	sL, _, _ := slLoadLines(want3)
	second := b2s(f5 == hx(want)) + b2s(slGlobals(s6) == slGlobals(sW))
	if len(shrink) == 0 && f2 == "none" {
		// nothing was ever set: AutoSave never writes
		second += b2s(f7 == "none") + "1"
	} else {
		second += b2s(f7 == hx(want3)) + b2s(slGlobals(s8) == slGlobals(sL))
	}
	tmps, _ := filepath.Glob(".grol*.tmp")
	if len(tmps) > 0 { // a successful AutoSave leaves no temporary file behind
		second = "tttt"
		for _, t := range tmps {
			_ = os.Remove(t)
		}
	}
	// a session whose later steps change only the TYPE of an element deep inside a value (the new value compares
	// equal to the old one), or one element of a large array in place: every AutoSave still has to write the state
	_ = os.Remove(".gr")
	s9, out9 := slNewState(0)
	for _, st := range []string{`zq1 = [1, 2]`, `zq2 = {"a": [3, {"b": 4}]}`, `zq3 = [0, 1, 2, 3, 4, 5, 6, 7, 8, 9]`, `zq4 = 1`} {
		slEval(s9, out9, st)
	}
	_ = repl.AutoSave(s9, repl.Options{AutoSave: true})
	for _, st := range []string{`zq1 = [1.0, 2]`, `zq2 = {"a": [3, {"b": 4.0}]}`, `zq3[1] = 77`, `zq4 = 1.0`, `zq1 = [1.0, 2]`} {
		slEval(s9, out9, st)
		want9, _ := slSave(s9)
		_ = repl.AutoSave(s9, repl.Options{AutoSave: true})
		second += b2s(readOpt(".gr") == hx(want9))
	}
	return f1 + ";" + g2 + ";" + f2 + ";" + g4 + ";" + second
}

// slShrink: statements that make the saved form of the session shorter: every other user global is
// deleted, the others are set to 1 (constants refuse both; pre-seeded names are left alone)
func slShrink(s *eval.State) []string {
	store := s.VerifRootEnv().VerifStore()
	keys := make([]string, 0, len(store))
	for k := range store {
		if !object.VerifIsExtraIdentifier(k) {
			keys = append(keys, k)
		}
	}
	sort.Strings(keys)
	var res []string
	for i, k := range keys {
		if i%2 == 0 {
			res = append(res, "del("+k+")")
		} else {
			res = append(res, k+"=1")
		}
	}
	return res
}

// ---- generators ----

func slCase(maxLen int, defs, calls []string) string {
	hd := make([]string, len(defs))
	for i, d := range defs {
		hd[i] = hx(d)
	}
	hc := make([]string, len(calls))
	for i, c := range calls {
		hc[i] = hx(c)
	}
	return fmt.Sprintf("max=%d;%s;%s", maxLen, strings.Join(hd, "|"), strings.Join(hc, "|"))
}

// grol source of a string literal holding exactly these bytes
func slStrLit(b []byte) string {
	var sb strings.Builder
	sb.WriteByte('"')
	for _, c := range b {
		if c >= 'a' && c <= 'z' || c >= 'A' && c <= 'Z' || c >= '0' && c <= '9' || c == ' ' {
			sb.WriteByte(c)
		} else {
			fmt.Fprintf(&sb, `\x%02x`, c)
		}
	}
	sb.WriteByte('"')
	return sb.String()
}

var slInts = []string{"0", "1", "-1", "7", "42", "-42", "255", "65536", "2147483648", "-2147483649", "9007199254740993",
	"9223372036854775807", "-9223372036854775807", "-9223372036854775807-1", "4611686018427387904", "1000000000000000000"}

var slFloats = []string{"0.5", "1.5", "-2.25", "3.0", "-0.0", "0.0", "100.0", "-7.0", "4.9e-324", "1e308", "-1e308", "1.7976931348623157e308",
	"1.0/0", "-1.0/0", "0.0/0*1.0", "0.1", "1e21", "1e-7", "9007199254740992.0", "9223372036854775808.0", "-9223372036854775808.0",
	"1e15", "123456789.125", "2.5e-3", "1e22", "1e23", "0.30000000000000004", "5e-324*3"}

// integral floats of every digit count and both signs: Float.Inspect decides by the TEXT whether ".0" has to be
// appended for the value to read back as a float (the int64 boundary is 19 digits, 20 characters with the sign)
func init() {
	for k := 0; k <= 23; k++ {
		for _, m := range []string{"1", "-1", "1.5", "-1.5", "9.75", "-9.75", "-1.2345678901234568", "4", "-4", "-9.2", "9.2"} {
			if k == 0 && strings.Contains(m, ".") {
				continue
			}
			slFloats = append(slFloats, fmt.Sprintf("%se%d", m, k))
		}
	}
	slFloats = append(slFloats, "9223372036854774784.0", "-9223372036854774784.0", "9223372036854777856.0", "-9223372036854777856.0")
}

var slRunes = []string{"\u00e9", "\u00fc", "\u20ac", "\u65e5\u672c", "\U0001F600", "\u00a0", "\u200b", "\u2028", "\ufeff", "\U000e0001", "\u0085", "\ufffd", "\u00ad", "\u0378"}

func slRandBytes(r *rng, n int) []byte {
	b := make([]byte, n)
	for i := range b {
		switch r.intn(8) {
		case 0:
			b[i] = byte(r.intn(32))
		case 1:
			b[i] = []byte{7, 8, 11, 12, 9, 10, 13, 0, 27, 127}[r.intn(10)]
		case 2:
			b[i] = []byte{'"', '\\', '`', '\'', 'n', 'x', 'u'}[r.intn(7)]
		case 3:
			b[i] = byte(128 + r.intn(128))
		default:
			b[i] = byte(32 + r.intn(95))
		}
	}
	return b
}

// grol source of a double-quoted string literal holding these bytes RAW (only what the lexer needs is escaped)
func slRawLit(b []byte) string {
	var sb strings.Builder
	sb.WriteByte('"')
	for _, c := range b {
		switch {
		case c == '"' || c == '\\':
			sb.WriteByte('\\')
			sb.WriteByte(c)
		case c == 0 || c == '\n':
			fmt.Fprintf(&sb, `\x%02x`, c)
		default:
			sb.WriteByte(c)
		}
	}
	sb.WriteByte('"')
	return sb.String()
}

// expressions whose value is a string that is not valid UTF-8 and comes from no escape: slices in the
// middle of a character, halves glued with +, raw bytes in the source text
func slBrokenStr(r *rng) string {
	ru := slRunes[r.intn(len(slRunes))]
	lit := `"` + string(rune('a'+r.intn(26))) + ru + `"`
	n := 1 + len(ru)
	switch r.intn(5) {
	case 0: // cut inside the last character
		return fmt.Sprintf("%s[0:%d]", lit, 1+1+r.intn(len(ru)-1))
	case 1: // start inside the character
		return fmt.Sprintf("%s[%d:%d]", lit, 2, n)
	case 2: // halves of two characters glued together
		return fmt.Sprintf("%s[0:2]+%s[%d:%d]", lit, lit, n-1, n)
	case 3:
		return slRawLit(slRandBytes(r, 1+r.intn(8)))
	default:
		b := slRandBytes(r, 1+r.intn(6))
		for i := range b {
			if b[i] == '`' || b[i] == 0 || b[i] == '\r' {
				b[i] = byte(128 + r.intn(128))
			}
		}
		return "`" + string(b) + "`"
	}
}

func slRandStr(r *rng) string {
	if r.intn(4) == 0 {
		return slBrokenStr(r)
	}
	if r.intn(5) == 0 {
		var sb strings.Builder
		sb.WriteByte('"')
		for i, n := 0, 1+r.intn(3); i < n; i++ {
			sb.WriteString(slRunes[r.intn(len(slRunes))])
			if r.intn(2) == 0 {
				sb.WriteByte(byte('a' + r.intn(26)))
			}
		}
		sb.WriteByte('"')
		return sb.String()
	}
	return slStrLit(slRandBytes(r, r.intn(9)))
}

// a data expression: scalars of every type, arrays and maps around the small/big thresholds (8 / 4)
func slRandVal(r *rng, depth int, key bool) string {
	k := r.intn(10)
	if depth >= 3 && k >= 7 {
		k = r.intn(7)
	}
	switch k {
	case 0, 1:
		return slInts[r.intn(len(slInts))]
	case 2:
		return slFloats[r.intn(len(slFloats))]
	case 3, 4:
		return slRandStr(r)
	case 5:
		return []string{"true", "false"}[r.intn(2)]
	case 6:
		return "nil"
	case 7, 8:
		n := []int{0, 1, 2, 3, 7, 8, 9, 10}[r.intn(8)]
		parts := make([]string, n)
		for i := range parts {
			parts[i] = slRandVal(r, depth+1, false)
		}
		return "[" + strings.Join(parts, ",") + "]"
	default:
		n := []int{0, 1, 2, 3, 4, 5, 6}[r.intn(7)]
		parts := make([]string, n)
		for i := range parts {
			parts[i] = slRandVal(r, depth+1, true) + ":" + slRandVal(r, depth+1, false)
		}
		return "{" + strings.Join(parts, ",") + "}"
	}
}

func slArgs(r *rng, params []gtype) string {
	args := make([]string, len(params))
	for i, t := range params {
		switch t {
		case tInt:
			args[i] = []string{"0", "1", "2", "3", "5", "-1", "7", "10"}[r.intn(8)]
		case tFloat:
			args[i] = []string{"0.5", "1.5", "-2.25", "3.0"}[r.intn(4)]
		case tBool:
			args[i] = []string{"true", "false"}[r.intn(2)]
		case tStr:
			args[i] = strPool[r.intn(len(strPool))]
		case tArr:
			args[i] = []string{"[]", "[1]", "[1,2,3]", "[5,4,3,2,1,0,-1,-2,-3]"}[r.intn(4)]
		default:
			args[i] = "nil"
		}
	}
	return strings.Join(args, ", ")
}

var slUnbounded = regexp.MustCompile(`p\d+_0(\+\+| = | := )`)

// a program from the evaluator grammar (variables, named functions, lambdas) plus calls of its functions
func slProgram(r *rng) (defs, calls []string) {
	g := &pgen{r: r, loopVar: map[string]bool{}, bigOK: true}
	var fdefs []string
	n := 3 + r.intn(7)
	for i := 0; i < n; i++ {
		if g.chance(40) && len(g.funcs) < 5 {
			defs = append(defs, g.funcDef())
			fdefs = append(fdefs, defs[len(defs)-1])
		} else {
			g.depth = 0
			defs = append(defs, g.stmt())
		}
	}
	for i, f := range g.funcs {
		// a recursive function that also increments / reassigns the parameter it recurses on need not terminate
		if i < len(fdefs) && slUnbounded.MatchString(fdefs[i]) &&
			(strings.Contains(fdefs[i], "self(") || strings.Count(fdefs[i], f.name+"(") > 1) {
			continue
		}
		for k := 0; k < 3; k++ {
			calls = append(calls, f.name+"("+slArgs(r, f.params)+")")
		}
	}
	return defs, calls
}

func saveloadGen(tier string, r *rng, emit func(string)) {
	one := func(def string) { emit(slCase(0, []string{def}, nil)) }
	// 1. every scalar alone, and inside an array and a map (as key and as value)
	for _, v := range append(append([]string{"true", "false", "nil", `""`, `"a"`}, slInts...), slFloats...) {
		one("x=" + v)
		one("x=[" + v + "]")
		one("x={" + v + ":1}")
		one(`x={"k":` + v + "}")
	}
	one("x=[1.5,2.0]")
	// 2. strings: each byte alone, all 256 single-byte strings together, the 256-byte string, runes
	all := make([]byte, 256)
	var defs []string
	for b := 0; b < 256; b++ {
		all[b] = byte(b)
		one("x=" + slStrLit([]byte{byte(b)}))
		defs = append(defs, fmt.Sprintf("s%03d=%s", b, slStrLit([]byte{byte(b)})))
	}
	emit(slCase(0, defs, nil))
	one("x=" + slStrLit(all))
	one("x=[" + slStrLit(all) + "]")
	one("x={" + slStrLit(all) + ":" + slStrLit(all) + "}")
	for _, ru := range slRunes {
		one(`x="` + ru + `"`)
	}
	// invalid UTF-8 that comes from no escape: raw bytes in the source text, slices, concatenations
	for b := 128; b < 256; b++ {
		one("x=" + slRawLit([]byte{'h', byte(b)}))
	}
	one("x=" + slRawLit(all[1:]))
	one("x=[" + slRawLit(all[128:]) + "]")
	one("x={" + slRawLit(all[128:]) + ":" + slRawLit(all[128:192]) + "}")
	one("x=`h\xc3\xff\x80`")
	for _, ru := range slRunes {
		lit := `"h` + ru + `"`
		for k := 2; k < 1+len(ru); k++ {
			one(fmt.Sprintf("x=%s[0:%d]", lit, k))
			one(fmt.Sprintf("x=[%s[0:%d],%s[%d:%d]]", lit, k, lit, k, 1+len(ru)))
			one(fmt.Sprintf("x={%s[0:%d]:%s[%d:%d]}", lit, k, lit, k, 1+len(ru)))
			one(fmt.Sprintf("x=%s[0:%d]+%s[%d:%d]", lit, k, lit, 1+len(ru)-1, 1+len(ru)))
		}
	}
	emit(slCase(0, []string{"f=func(s){s+" + slRawLit([]byte{0xc3, 0xff}) + "}"}, []string{`f("a")`}))
	one(`x="x\x07y\x08\x0c\x0b"`)
	one("x=\"a\nb\"")
	one("x=`a\nb\\n\"c`")
	// 3. functions: named, lambda, bodies that need parentheses, variadic, closures, nested definitions
	fn := func(defs []string, calls ...string) { emit(slCase(0, defs, calls)) }
	fn([]string{"g=func(){10-(4-3)}"}, "g()")
	fn([]string{"func h(x,y){x-(y-1)}"}, "h(10,4)", "h(1,2)")
	fn([]string{"f=(a,b)=>a*(b+1)"}, "f(2,3)")
	fn([]string{"f=a=>-a"}, "f(2)", "f(-2)")
	fn([]string{"f=a=>{a;a+1}"}, "f(2)")
	fn([]string{"f=()=>{}"}, "f()")
	fn([]string{"f=func(a,..){len(..)+a}"}, "f(1)", "f(1,2,3)")
	fn([]string{"func fact(n){if n<=1{return 1} n*fact(n-1)}"}, "fact(5)", "fact(0)")
	fn([]string{"func fib(n){if n<=1{return n} self(n-1)+self(n-2)}"}, "fib(10)")
	fn([]string{"f=x=>y=>x+y"}, "f(1)(2)")
	fn([]string{"func f(a){b=a+1;c=b*2\nif c>4 {return \"big\"} else {println(c)}\n[a,b,c]}"}, "f(1)", "f(5)")
	fn([]string{`f=func(s){s+"\n\t\"q\""}`}, `f("a")`)
	fn([]string{`f=func(s){s+"\x07"}`}, `f("a")`)
	fn([]string{"f=func(x){x+2.0}"}, "f(1)")
	fn([]string{"f=func(x){for i:=0;i<3;i++{x=x+i}\nx}"}, "f(1)")
	fn([]string{"f=func(m){m.a+m[\"b\"]}"}, `f({"a":1,"b":2})`)
	fn([]string{"f=func(){/* c */ 1 // d\n}"}, "f()")
	fn([]string{"mk=func(n){()=>n+1}", "g=mk(5)"}, "g()")
	fn([]string{"mk=func(n){func inner(){n*2}}", "g=mk(5)"}, "g()")
	fn([]string{"a=[x=>x+1,func(){2}]"}, "a[0](1)", "a[1]()")
	fn([]string{"func f(){1}", "g=f"}, "g()", "f()")
	// an alias of a named function whose own name now holds something else (recorded class alias-of-named-function-rebinds-its-name)
	fn([]string{"func f(x){x+1}", "h=f", "f=3"}, "h(1)", "f")
	fn([]string{"func zf(x){x+1}", "h=zf", "zf=\"s\""}, "h(1)", "zf") // the alias is written BEFORE the name's own line: no finding
	fn([]string{"y=3", "f=func(){y=y+1;y}"}, "f()", "f()", "y")
	// 3b. operator x prefix-operator operand table (seeded change C14-5: the compact text of `a - --b` was saved as `a---b`, which
	// loads as `a-- - b`): the saved (compact) text of a function must behave like the function, for every pair of adjacent operators
	slOps := []string{"+", "-", "*", "<", "&", "^"}
	if tier == "thorough" {
		slOps = []string{"+", "-", "*", "/", "%", "<", ">", "<=", "==", "!=", "&&", "||", "&", "|", "^", "<<", ">>"}
	}
	for _, op := range slOps {
		for _, pre := range []string{"-", "+", "--", "++", "^", "!", "- -", "-(-", "- --"} {
			cl := ""
			if strings.HasSuffix(pre, "(-") {
				cl = ")"
			}
			fn([]string{"func f(a,b){a " + op + " " + pre + "b" + cl + "}", "g=(a,b)=>[" + pre + "a" + cl + " " + op + " b, a" + op + pre + "b" + cl + "]"}, "f(5,3)", "g(5,3)", "f(true,false)")
		}
	}
	// 4. constants and names shadowing pre-seeded identifiers
	fn([]string{"X=5", "Y_2=[1,2]", "PI2=PI*2"}, "X", "PI2")
	fn([]string{"abs=3"}, "abs")
	fn([]string{"abs=func(x){0-x}"}, "abs(3)")
	fn([]string{"Inf=5", "x=1.0/0", "y=-1.0/0"}, "x", "y")
	fn([]string{"NaN=\"a\"", "x=0.0/0*1.0"}, "x")
	fn([]string{"printf=1", "log2=x=>x", "str=2", "keys=nil"}, "log2(8)")
	fn([]string{"x=PI", "y=E", "z=[Inf,-Inf,NaN]"}, "z")
	fn([]string{"del(abs)", "del(nil)"}, "1")
	fn([]string{"nil2=nil", "null2=null"}, "nil2")
	// 5. MaxValueLen
	for _, m := range []int{1, 2, 3, 5, 8, 13, 14, 15, 16, 40} {
		emit(slCase(m, []string{`a="0123456789"`, "b=12345", "c=[1,2,3,4,5,6,7]", "d=x=>x+1", "func longname(a,b,c){a+b+c}", `e="\x07\x08"`, "f=1"}, nil))
	}
	// 6. a value printed on more than 64 KiB (bufio.Scanner's default token limit in AutoLoad)
	emit(slCase(0, []string{"m=\"a\"*70000", "z=1", "b=2"}, []string{"z", "len(m)"}))
	emit(slCase(0, []string{"m=[1]*33000", "z=1"}, []string{"z", "len(m)"}))
	// 7. random data environments
	nData, nProg := 300, 250
	if tier == "thorough" {
		nData, nProg = 6000, 5000
	}
	for i := 0; i < nData; i++ {
		nb := 1 + r.intn(10)
		defs := make([]string, nb)
		for j := range defs {
			name := fmt.Sprintf("v%d", j)
			switch r.intn(12) {
			case 0:
				name = fmt.Sprintf("K%d", j)
			case 1:
				name = []string{"abs", "Inf", "NaN", "log2", "keys", "str", "printf"}[r.intn(7)]
			}
			defs[j] = name + "=" + slRandVal(r, 0, false)
		}
		maxLen := 0
		if r.intn(4) == 0 {
			maxLen = 1 + r.intn(30)
		}
		emit(slCase(maxLen, defs, nil))
	}
	// 8. programs from the evaluator grammar, with calls of their functions
	for i := 0; i < nProg; i++ {
		defs, calls := slProgram(r)
		emit(slCase(0, defs, calls))
	}
	slExtGen(tier, r, emit) // globals holding extension functions: saveload_ext.go
}

package main

import (
	"fmt"
	"strings"
)

// The consts suite (property C19, "constants cannot be changed by any path").
//
// A case is a session in the eval suite's line format (run by evalRun under the four
// configurations): input 0 binds a constant N, then every mutation attempt is followed by an
// input holding just `N` (the read probe).  The statement (lean/Grol/Eval/ConstsSuite.lean)
// is evaluated on the dumps of the globals after every input and on the probes.
//
// Families
//   single   every attempt kind (all variants) x every context x every value type x {split, joined}
//   pairs    every ordered pair of syntactic kinds (canonical variant) on every value type
//   triples  every ordered triple of the core kinds on int / large array / large map (quick), of all
//            kinds on every type (thorough)
//   quads    (thorough) every ordered 4-sequence of the core kinds on int / large array / large map
//   random   sequences of 1..3 (quick) / 1..4 (thorough) attempts with random variant, context,
//            value type, constant name and input partition
//
// A kind is a syntactic way to write a binding; see constKinds.

func init() {
	suites["consts"] = suite{gen: constsGen, run: evalRun}
}

type constType struct {
	name string
	lit  string // literal bound to the constant
	same string // an expression evaluating to an equal value (for N = <same>)
	el   string // for containers: expression equal to the element at [0] / .k, else ""
	eqv  string // a literal that `==` the bound one but is not identical (an int element written as a float), else the same literal
}

// large array = above object.MaxSmallArray (8); large map = above object.MaxSmallMap (4)
var constTypes = []constType{
	{"int", "42", "42", "", "42"},
	{"float", "1.5", "1.5", "", "1.5"},
	{"bool", "true", "true", "", "true"},
	{"string", `"s"`, `"s"`, "", `"s"`},
	{"nil", "nil", "nil", "", "nil"},
	{"smallarr", "[1,2,3]", "[1,2,3]", "1", "[1.0,2,3]"},
	{"bigarr", "[1,2,3,4,5,6,7,8,9,10]", "[1,2,3,4,5,6,7,8,9,10]", "1", "[1,2,3,4,5,6,7,8,9,10.0]"},
	{"smallmap", `{0:1,"k":2}`, `{0:1,"k":2}`, "1", `{0:1,"k":2.0}`},
	{"bigmap", `{0:1,1:2,2:3,3:4,"a":5,"k":6}`, `{0:1,1:2,2:3,3:4,"a":5,"k":6}`, "1", `{0:1.0,1:2,2:3,3:4,"a":5,"k":6}`},
	{"func", "func(x){x+1}", "func(x){x+1}", "", "func(x){x+1}"},
	// representation x size mismatches (seeded change C19-5: a copy taken only when Len() > MaxSmallMap): a *BigMap holding FEW pairs
	// (a literal with a repeated key is sized by its pair count; a large map shrunk by del and copied by + {}), and a short slice of a large array
	{"bigrepmap", `{0:0,0:1,1:2,"a":5,"k":6}`, `{0:1,1:2,"a":5,"k":6}`, "1", `{0:1.0,1:2,"a":5,"k":6}`},
	{"shrunkmap", `func(){m9 = {0:1,1:2,2:3,3:4,"a":5,"k":6}; del(m9[2]); del(m9[3]); del(m9.a); m9 + {}}()`, `{0:1,1:2,"k":6}`, "1", `{0:1.0,1:2,"k":6}`},
	{"slicedarr", "[1,2,3,4,5,6,7,8,9,10][0:3]", "[1,2,3]", "1", "[1.0,2,3]"},
	{"nestedbig", "[[1,2,3,4,5,6,7,8,9,10],{0:1,1:2,2:3,3:4,4:5}]", "[[1,2,3,4,5,6,7,8,9,10],{0:1,1:2,2:3,3:4,4:5}]", "[1,2,3,4,5,6,7,8,9,10]", "[[1,2,3,4,5,6,7,8,9,10],{0:1,1:2,2:3,3:4,4:5.0}]"},
}

// constKind: one syntactic way of (trying to) write the binding N.  Variants use %N for the
// constant's name and %V for a fresh value; the first variant is the canonical one.
type constKind struct {
	name     string
	variants []string
	core     bool // member of the reduced set used for the longest exhaustive sequences
	isDel    bool // explicit del(N): allowed by the property, ends the history the statement speaks about
}

var constKinds = []constKind{
	{"assign", []string{"%N = %V", "%N = %V + 1", "%N = [%V]", `%N = {"z":%V}`, "%N = nil", `%N = "t"`, "%N = false", "%N = 2.5"}, true, false},
	{"define", []string{"%N := %V", "%N := [%V,%V]"}, true, false},
	{"postincr", []string{"%N++"}, true, false},
	{"postdecr", []string{"%N--"}, false, false},
	{"preincr", []string{"++%N"}, true, false},
	{"predecr", []string{"--%N"}, false, false},
	{"idxassign", []string{"%N[0] = %V", "%N[1] = %V", "%N[-1] = %V", "%N[0] = [%V]", "%N[9] = %V", "%N[4] = %V", `%N["k"] = %V`, `%N["new"] = %V`, "%N[0][0] = %V"}, true, false},
	{"dotassign", []string{"%N.k = %V", "%N.a = %V", "%N.new = %V"}, true, false},
	{"delidx", []string{"del(%N[0])", "del(%N[1])", `del(%N["k"])`, "del(%N[3])"}, true, false},
	{"deldot", []string{"del(%N.k)", "del(%N.a)"}, true, false},
	{"forint", []string{"for %N = 0:3 {1}", "for %N := 1:3 {1}", "for %N = 3 {1}", "for %N = 2 {%N}", "for %N = 5:7 {x9 = %N}"}, true, false},
	{"forlist", []string{"for %N = [7,8] {1}", `for %N = {"a":1} {1}`, `for %N = "ab" {1}`, "for %N = [7,8] {x9 = %N}", "for %N = [[1,2,3,4,5,6,7,8,9,0]] {1}"}, true, false},
	{"param", []string{"func f9(%N){%N}; f9(%V)", "func f9(a,%N){%N = a}; f9(%V,%V)", "func f9(%N){%N++}; f9(%V)", "func f9(%N){%N[0]=%V}; f9([%V])", "func f9(%N, ..){%N}; f9(%V, 1, 2)"}, true, false},
	{"lambdaparam", []string{"(%N => %N)(%V)", "func(%N){%N}(%V)", "((%N, b) => %N + b)(%V, %V)", "(%N => {%N = 0})(%V)"}, true, false},
	{"namedfunc", []string{"func %N(){1}", "func %N(x){x}"}, true, false},
	{"sameval", []string{"%N = %N", "%N := %N", "%N = %S", "%N[0] = %E", "%N.k = %N.k", "%N = %N + 0"}, true, false},
	{"cmpequal", []string{"%N = %Q", "%N := %Q", "func(){%N = %Q}()", "%N[1] = %N[1] * 1.0", "%N.k = %N.k * 1.0", "%N[0] = %N[0] * 1.0"}, false, false},
	{"selfop", []string{"%N = %N + 1", "%N = %N + [1]", `%N = %N + {"q":1}`, "%N = -%N", "%N = !%N", "%N = %N[1:]", "%N = rest(%N)"}, false, false},
	{"alias", []string{"b9 = %N; b9[0] = %V", "b9 = %N; b9.k = %V", "b9 = %N; del(b9.k)", "b9 = %N; del(b9[0])", "b9 = [%N]; c9 = b9[0]; c9[0] = %V", "func g9(x){x[0] = %V}; g9(%N)", "b9 = %N; b9[0][0] = %V", "b9 = %N[0]; b9[0] = %V", "b9 = %N + 0; c9 = %N + 1"}, true, false},
	{"del", []string{"del(%N)"}, false, true},
	{"delrebind", []string{"del(%N); %N = %V"}, false, true},
}

// contexts: where the attempt is written.  %A = the attempt.
var constContexts = []string{
	"%A",
	"func(){%A}()",
	"func h9(){%A}; h9()",
	"for 2 {%A}",
	"if true {%A}",
	"for 2 {func(){%A}()}",
	"func(){func(){%A}()}()",
	"() => {%A}", // defined, never called: must be harmless
	"x9 = [1].0; if x9 == 1 {for [1,2] {%A}}",
}

var constNames = []string{"FOO", "AB_1", "Z9", "K"}

var constValues = []string{"77", "7.5", `"v"`, "[5,6]", `{"z":0}`, "nil", "true", "[1,2,3,4,5,6,7,8,9,11]"}

type constAttempt struct {
	kind, variant, ctx int
}

func (a constAttempt) text(name string, t constType, val string) string {
	v := constKinds[a.kind].variants[a.variant]
	el := t.el
	if el == "" {
		el = "0"
	}
	r := strings.NewReplacer("%N", name, "%V", val, "%S", t.same, "%E", el, "%Q", t.eqv)
	return r.Replace(strings.Replace(constContexts[a.ctx], "%A", v, 1))
}

// constCase renders one session.  partition: 0 = every attempt its own input; 1 = binding and
// first attempt in one input; 2 = all attempts in one input (separated by newlines), one probe
// after; 3 = attempts wrapped as one function body called once.
func constCase(name string, t constType, val string, atts []constAttempt, partition int) string {
	bind := name + " = " + t.lit
	var texts []string
	switch partition {
	case 1:
		texts = append(texts, bind+"\n"+atts[0].text(name, t, val), name)
		for _, a := range atts[1:] {
			texts = append(texts, a.text(name, t, val), name)
		}
	case 2:
		texts = append(texts, bind)
		// errors end an input: join with catch-less newlines but also probe in between via println-free reads
		var parts []string
		for _, a := range atts {
			parts = append(parts, a.text(name, t, val))
		}
		texts = append(texts, strings.Join(parts, "\n"), name)
	case 3:
		texts = append(texts, bind)
		var parts []string
		for _, a := range atts {
			parts = append(parts, a.text(name, t, val))
		}
		texts = append(texts, "func w9(){"+strings.Join(parts, "\n")+"}", "w9()", name)
	default:
		texts = append(texts, bind)
		for _, a := range atts {
			texts = append(texts, a.text(name, t, val), name)
		}
	}
	hs := make([]string, len(texts))
	for i, s := range texts {
		hs[i] = hx(s)
	}
	return "C19;steps=200000;" + strings.Join(hs, "|")
}

func constsGen(tier string, r *rng, emit func(string)) {
	thorough := tier == "thorough"
	nk := len(constKinds)
	pickVal := func() string { return constValues[r.intn(len(constValues))] }
	pickName := func() string { return constNames[r.intn(len(constNames))] }

	// single: every variant x context x type x {split, joined with the binding}
	for ti, t := range constTypes {
		for k := range constKinds {
			for v := range constKinds[k].variants {
				for c := range constContexts {
					a := []constAttempt{{k, v, c}}
					emit(constCase("FOO", t, constValues[(ti+k+v+c)%len(constValues)], a, 0))
					if thorough || r.intn(3) == 0 {
						emit(constCase(pickName(), t, pickVal(), a, 1))
					}
				}
			}
		}
	}
	// pairs: every ordered pair of kinds (canonical variant at top level, plus one randomised rendering)
	for _, t := range constTypes {
		for k1 := 0; k1 < nk; k1++ {
			for k2 := 0; k2 < nk; k2++ {
				emit(constCase("FOO", t, "77", []constAttempt{{k1, 0, 0}, {k2, 0, 0}}, 0))
				a := []constAttempt{
					{k1, r.intn(len(constKinds[k1].variants)), r.intn(len(constContexts))},
					{k2, r.intn(len(constKinds[k2].variants)), r.intn(len(constContexts))},
				}
				emit(constCase(pickName(), t, pickVal(), a, r.intn(4)))
			}
		}
	}
	// triples: every ordered triple of kinds; the rendering (variant, context, partition) is drawn per triple
	triplesTypes := []int{0, 6, 8} // int, bigarr, bigmap
	if thorough {
		triplesTypes = nil
		for i := range constTypes {
			triplesTypes = append(triplesTypes, i)
		}
	}
	var tripleKinds []int // quick: the core kinds; thorough: every kind
	for k, kd := range constKinds {
		if thorough || kd.core {
			tripleKinds = append(tripleKinds, k)
		}
	}
	for _, ti := range triplesTypes {
		t := constTypes[ti]
		for _, k1 := range tripleKinds {
			for _, k2 := range tripleKinds {
				for _, k3 := range tripleKinds {
					ks := []int{k1, k2, k3}
					a := make([]constAttempt, 3)
					canonical := r.intn(2) == 0
					for i, k := range ks {
						if canonical {
							a[i] = constAttempt{k, 0, 0}
						} else {
							a[i] = constAttempt{k, r.intn(len(constKinds[k].variants)), r.intn(len(constContexts))}
						}
					}
					p := 0
					if !canonical {
						p = r.intn(4)
					}
					emit(constCase("FOO", t, pickVal(), a, p))
				}
			}
		}
	}
	if thorough {
		var core []int
		for k, kd := range constKinds {
			if kd.core {
				core = append(core, k)
			}
		}
		for _, ti := range []int{0, 6, 8} {
			t := constTypes[ti]
			var rec func(pre []constAttempt)
			rec = func(pre []constAttempt) {
				if len(pre) == 4 {
					emit(constCase("FOO", t, "77", pre, 0))
					return
				}
				for _, k := range core {
					rec(append(pre[:len(pre):len(pre)], constAttempt{k, 0, 0}))
				}
			}
			rec(nil)
		}
	}
	constsGenExtra(tier, r, emit) // constants that are locals of a function call (consts2.go)
	// random
	n, maxLen := 1500, 3
	if thorough {
		n, maxLen = 40000, 4
	}
	for i := 0; i < n; i++ {
		l := 1 + r.intn(maxLen)
		a := make([]constAttempt, l)
		for j := range a {
			k := r.intn(nk)
			a[j] = constAttempt{k, r.intn(len(constKinds[k].variants)), r.intn(len(constContexts))}
		}
		emit(constCase(pickName(), constTypes[r.intn(len(constTypes))], pickVal(), a, r.intn(4)))
	}
	_ = fmt.Sprint
}

package main

import (
	"fmt"
	"strconv"
	"strings"

	"grol.io/grol/repl"
	"grol.io/grol/trie"
)

func init() { suites["trie"] = suite{gen: trieGen, run: trieRun} }

// one case: insert ws in order into a fresh trie, then query q.
func trieRun(input string) string {
	if strings.HasPrefix(input, "R;") { // a session: the words are those the REPL records (trie_session.go)
		return trieSessionRun(input)
	}
	parts := strings.SplitN(input, ";", 3)
	var ws []string
	if parts[0] != "" {
		for _, h := range strings.Split(parts[0], ",") {
			ws = append(ws, unhx(h))
		}
	}
	q := unhx(parts[1])
	t := trie.NewTrie()
	for _, w := range ws {
		t.Insert(w)
	}
	return trieQuery(t, q, parts[2:])
}

// the observation of one query; cursor = optional field with the cursor position of the completion (default: end)
func trieQuery(t *trie.Trie, q string, cursor []string) string {
	at := len(q)
	if len(cursor) > 0 {
		at, _ = strconv.Atoi(cursor[0])
	}
	c := t.Contains(q)
	n, all := t.PrefixAll(q)
	ac := &repl.AutoComplete{Trie: t}
	line, pos, ok := repl.VerifAutoComplete(ac, q, at)
	acs := "none"
	if ok {
		acs = fmt.Sprintf("%s:%d", hx(line), pos)
	}
	return fmt.Sprintf("c=%s;n=%d;all=%s;ac=%s", b2s(c), n, hxList(all), acs)
}

func wordsUpTo(alpha string, maxLen int, withEmpty bool) []string {
	res := []string{}
	if withEmpty {
		res = append(res, "")
	}
	cur := []string{""}
	for l := 1; l <= maxLen; l++ {
		var next []string
		for _, p := range cur {
			for i := 0; i < len(alpha); i++ {
				next = append(next, p+alpha[i:i+1])
			}
		}
		res = append(res, next...)
		cur = next
	}
	return res
}

// all sequences without repetition of at most k words of u
func seqs(u []string, k int, f func([]string)) {
	var rec func(cur []string, used uint64)
	rec = func(cur []string, used uint64) {
		f(cur)
		if len(cur) == k {
			return
		}
		for i, w := range u {
			if used&(1<<uint(i)) != 0 {
				continue
			}
			rec(append(cur[:len(cur):len(cur)], w), used|1<<uint(i))
		}
	}
	rec(nil, 0)
}

func trieGen(tier string, r *rng, emit func(string)) {
	trieCase := func(ws []string, q string) { emit(hxList(ws) + ";" + hx(q)) }
	thorough := tier == "thorough"
	// exhaustive: ordered sequences of distinct words
	type fam struct {
		alpha        string
		wlen, k, qln int
	}
	fams := []fam{{"ab", 2, 4, 3}, {"a\x00\xff", 1, 3, 2}, {"a\xff", 2, 3, 3}}
	if thorough {
		fams = []fam{{"ab", 2, 5, 3}, {"a\x00\xff", 2, 3, 3}, {"ab\xff", 2, 3, 3}, {"ab", 3, 3, 4}}
	}
	for _, f := range fams {
		u := wordsUpTo(f.alpha, f.wlen, true)
		qs := wordsUpTo(f.alpha, f.qln, true)
		seqs(u, f.k, func(ws []string) {
			for _, q := range qs {
				trieCase(ws, q)
			}
		})
	}
	// all subsets of the words of length <= 3 over {a,b}, inserted in sorted and in reverse order
	u := wordsUpTo("ab", 3, false)
	qs := wordsUpTo("ab", 2, true)
	step := 7
	if thorough {
		step = 1
	}
	for mask := 0; mask < 1<<uint(len(u)); mask += step {
		var ws, rev []string
		for i, w := range u {
			if mask&(1<<uint(i)) != 0 {
				ws = append(ws, w)
				rev = append([]string{w}, rev...)
			}
		}
		q := qs[r.intn(len(qs))]
		trieCase(ws, q)
		trieCase(rev, q)
	}
	// random: longer words, repeated insertions, identifiers as the REPL records them
	n := 20000
	if thorough {
		n = 300000
	}
	alphas := []string{"ab", "abc", "a\x00\xff", "pri nt(", "\xfe\xff", "abcdefgh"}
	for i := 0; i < n; i++ {
		alpha := alphas[r.intn(len(alphas))]
		nw := r.intn(8)
		ws := make([]string, nw)
		for j := range ws {
			ws[j] = randWord(r, alpha, 6)
			if j > 0 && r.intn(4) == 0 { // prefix or extension of an earlier word
				p := ws[r.intn(j)]
				if r.intn(2) == 0 && len(p) > 0 {
					ws[j] = p[:r.intn(len(p)+1)]
				} else {
					ws[j] = p + randWord(r, alpha, 2)
				}
			}
		}
		q := randWord(r, alpha, 3)
		if nw > 0 && r.intn(2) == 0 {
			p := ws[r.intn(nw)]
			q = p[:r.intn(len(p)+1)]
		}
		trieCase(ws, q)
	}
	trieSessionGen(tier, r, emit) // cursor inside the line; the words a REPL session records (trie_session.go)
}

func randWord(r *rng, alpha string, maxLen int) string {
	l := r.intn(maxLen + 1)
	b := make([]byte, l)
	for i := range b {
		b[i] = alpha[r.intn(len(alpha))]
	}
	return string(b)
}

// Mode I of the `mapops` suite (C11): histories run through grol SOURCE with the operations and
// observations the other two modes do not have.
//
//	input  I|<identifier keys, ';' separated wire strings>|<op>;<op>;...
//	  ops of the other modes (L S D A R G) plus
//	    N<lo>:<hi> | N<lo>:   m = m[lo:hi] / m = m[lo:]  with negative (from the end) and out-of-range bounds
//	    T{k:v}                m.k = v      (k a string that is an identifier)
//	    E<k>                  del(m.k)
//	obs    n | E | ks=<keys(m)>;it=<[[k,v],..] collected by `for kv := m`>;fr=<the same by first/rest>;
//	       dg=<m.k for every identifier key>/..;ne=<for each perturbed copy p of m: m==p, p==m, m!=p>
//	  perturbed copies (built from literal text): first value replaced, last pair dropped (both only when m
//	  is not empty), one new key added: a map never equals any of them.
package main

import (
	"fmt"
	"strings"

	"grol.io/grol/eval"
	"grol.io/grol/object"
)

var mapFreshKey = ws("zz9") // in no universe of the generators

func mapRunIter(idKeys []string, ops []string) string {
	initExtensions()
	s := eval.NewState()
	ev := func(code string) object.Object {
		res, _ := eval.EvalString(s, code, false)
		return res
	}
	ev("m=nil")
	for _, op := range ops {
		var res object.Object
		switch op[0] {
		case 'L':
			res = ev("m=" + srcLiteral(wirePairs(op[1:])))
		case 'S':
			p := wirePairs(op[1:])
			k, _ := srcWire(p[0])
			v, _ := srcWire(p[1])
			res = ev("m[" + k + "]=" + v)
		case 'D':
			k, _ := srcWire(op[1:])
			res = ev("del(m[" + k + "])")
		case 'A':
			res = ev("m=m+" + srcLiteral(wirePairs(op[1:])))
		case 'R':
			res = ev("m=rest(m)")
		case 'G':
			lh := strings.Split(op[1:], "-")
			res = ev("m=m[" + lh[0] + ":" + lh[1] + "]")
		case 'N':
			res = ev("m=m[" + op[1:] + "]")
		case 'T':
			p := wirePairs(op[1:])
			v, _ := srcWire(p[1])
			res = ev("m." + unhx(p[0][1:]) + "=" + v)
		case 'E':
			res = ev("del(m." + unhx(op[2:]) + ")")
		}
		if res != nil && res.Type() == object.ERROR {
			return "E"
		}
		if ev("m").Type() == object.NIL {
			break
		}
	}
	cur := ev("m")
	if cur.Type() == object.NIL {
		return "n"
	}
	m, ok := cur.(object.Map)
	if !ok {
		return "E"
	}
	ks := toWire(ev("keys(m)"))
	it := toWire(ev("r=[]\nfor kv := m {r=r+[[kv.key,kv.value]]}\nr"))
	fr := toWire(ev("r=[]\nt=m\nfor len(t)>0 {f=first(t)\nr=r+[[f.key,f.value]]\nt=rest(t)}\nr"))
	dg := make([]string, len(idKeys))
	for i, k := range idKeys {
		dg[i] = toWire(ev("m." + unhx(k[1:])))
	}
	// perturbed copies
	els := object.VerifMapElements(m)
	pairs := make([]string, len(els))
	for i, e := range els {
		pairs[i] = toWire(e)
	}
	var perts [][]string
	if len(pairs) > 0 {
		p1 := append([]string{}, pairs...)
		p1[1] = mapFreshKey
		perts = append(perts, p1, append([]string{}, pairs[:len(pairs)-2]...))
	}
	perts = append(perts, append(append([]string{}, pairs...), mapFreshKey, "i1"))
	var ne strings.Builder
	for _, p := range perts {
		lit := srcLiteral(p)
		ne.WriteString(boolChar(ev("m=="+lit), false) + boolChar(ev(lit+"==m"), false) + boolChar(ev("m!="+lit), false))
	}
	return "ks=" + ks + ";it=" + it + ";fr=" + fr + ";dg=" + strings.Join(dg, "/") + ";ne=" + ne.String()
}

func mapIterGen(tier string, r *rng, emit func(string)) {
	thorough := tier == "thorough"
	ids := []string{ws("a"), ws("b"), ws("ab"), ws("k1"), ws("Z")}
	idField := strings.Join(ids, ";")
	p53 := int64(1) << 53
	// keys of every type of the property's list, with the numeric corner cases: 0 / 0.0 / -0.0 and 1 / 1.0 (one key each),
	// NaN, an integer beyond 2^53 next to the float it would round to, nested arrays, a map as key
	keys := append(append([]string{}, ids...), wi(0), wf(0), "d8000000000000000", wi(1), wf(1), wf(1.5), wi(-1),
		wi(p53+1), wf(float64(p53)), wi(p53), fmt.Sprintf("d%016x", runtimeNaNBits()), "t", "f", "n",
		warr(), warr(wi(1)), warr(wi(1), warr(wf(1))), wmap(wi(1), wi(2)), ws(""), ws("a b"))
	vals := []string{wi(7), ws("v"), "n", warr(wi(1)), wf(0.5), wmap(ws("a"), wi(1))}
	nseq := 60
	if thorough {
		nseq = 800
	}
	for i := 0; i < nseq; i++ {
		var hist []string
		if r.intn(2) == 0 {
			var p []string
			for j := r.intn(9); j > 0; j-- {
				p = append(p, keys[r.intn(len(keys))], vals[r.intn(len(vals))])
			}
			hist = append(hist, litOp("L", p...))
		} else {
			hist = append(hist, litOp("L"))
		}
		emit("I|" + idField + "|" + strings.Join(hist, ";"))
		for length := 8 + r.intn(30); len(hist) < length; {
			var op string
			switch x := r.intn(24); {
			case x < 9:
				op = litOp("S", keys[r.intn(len(keys))], vals[r.intn(len(vals))])
			case x < 12:
				op = litOp("T", ids[r.intn(len(ids))], vals[r.intn(len(vals))])
			case x < 15:
				op = "D" + keys[r.intn(len(keys))]
			case x < 17:
				op = "E" + ids[r.intn(len(ids))]
			case x < 19:
				var p []string
				for j := r.intn(7); j > 0; j-- {
					p = append(p, keys[r.intn(len(keys))], vals[r.intn(len(vals))])
				}
				op = litOp("A", p...)
			case x < 20:
				op = "R"
			default: // negative / open / out-of-range bounds; mostly keeping most of the map
				lo := []string{"0", "1", "-1", "-2", "-3", "-5", "-6", "-100", "2", "5"}[r.intn(10)]
				hi := []string{"", "", "-1", "-2", "100", "4", "5", "6", "-100", "0"}[r.intn(10)]
				op = "N" + lo + ":" + hi
			}
			hist = append(hist, op)
			line := "I|" + idField + "|" + strings.Join(hist, ";")
			emit(line)
			if o := mapRunIter(nil, hist); o == "n" || o == "E" { // the variable is not a map any more (the runners stop there)
				break
			}
		}
	}
}

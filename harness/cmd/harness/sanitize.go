// Suite `sanitize` (C17).
//
// Stream s (in-process): the real sanitizeFileName (through the verif hook) on one name under one
// IO configuration.
//
//	input   s;<u><e>;<hex name | none>       u = unrestricted, e = empty-only (0/1), none = no argument
//	obs     ok:<hex file name> | err | NONDET (two calls differ)
//
// Stream f (real file system): one child process per configuration (extensions.Init is once per
// process) evaluates save(name) / load(name) through repl.EvalStringWithOption with its working
// directory inside a scratch tree with sentinel files; the parent re-lists and hashes the tree
// after every call, reports what changed and puts the tree back.
//
//	input   f;<cfg>;<save|load|img>;<hex name>    cfg = 00 restricted, 01 empty-only, 10 unrestricted, n = load/save disabled
//	obs     r=<ok:<hex trimmed output> | err>;t=<C|M|D:<hex path relative to the scratch root>,... | ->
package main

import (
	"bufio"
	"context"
	"fmt"
	"os"
	"path/filepath"
	"strings"

	"fortio.org/log"
	"grol.io/grol/eval"
	"grol.io/grol/extensions"
	"grol.io/grol/repl"
)

func init() {
	suites["sanitize"] = suite{gen: sanitizeGen, run: sanitizeRun}
	subcommands["child-sanitize"] = sanitizeChild
}

// the 12-symbol alphabet of the property: lower case (g, r: so that ".gr" occurs), upper case,
// digit, underscore, dot, slash, backslash, NUL, space, tilde, a non-ASCII byte.
const sanitizeAlphabet = "grZ0_./\\\x00 ~\x80"

var sanitizeTree = map[string]string{ // relative to the scratch root; the child runs in cur/
	"secret.gr":         "104\n",
	"sib/secret.gr":     "105\n",
	"cur/ok.gr":         "101\n",
	"cur/.gr":           "102\n",
	"cur/sub/secret.gr": "103\n",
}

type sanitizeFS struct {
	root     string
	children map[string]*lineChild
	snap     map[string]string
}

var sanFS *sanitizeFS

func sanitizeSetup() *sanitizeFS {
	if sanFS != nil {
		return sanFS
	}
	root := newScratch("sanitize")
	for p, c := range sanitizeTree {
		full := filepath.Join(root, p)
		if err := os.MkdirAll(filepath.Dir(full), 0o755); err != nil {
			panic(err)
		}
		if err := os.WriteFile(full, []byte(c), 0o644); err != nil {
			panic(err)
		}
	}
	sanFS = &sanitizeFS{root: root, children: map[string]*lineChild{}, snap: treeSnapshot(root)}
	return sanFS
}

func (s *sanitizeFS) child(cfg string) *lineChild {
	if c, ok := s.children[cfg]; ok {
		return c
	}
	c := startLineChild(filepath.Join(s.root, "cur"), nil, "child-sanitize", cfg)
	s.children[cfg] = c
	return c
}

// restore puts the tree back to its initial contents.
func (s *sanitizeFS) restore(diff []string) {
	for _, d := range diff {
		kind, p := d[:1], d[2:]
		full := filepath.Join(s.root, p)
		switch kind {
		case "C":
			_ = os.RemoveAll(full)
		case "M", "D":
			if c, ok := sanitizeTree[p]; ok {
				_ = os.MkdirAll(filepath.Dir(full), 0o755)
				_ = os.WriteFile(full, []byte(c), 0o644)
			} else {
				_ = os.MkdirAll(full, 0o755)
			}
		}
	}
}

func sanitizeRun(input string) string {
	parts := strings.Split(input, ";")
	switch parts[0] {
	case "s":
		u, e := parts[1][0] == '1', parts[1][1] == '1'
		hasArg := parts[2] != "none"
		name := ""
		if hasArg {
			name = unhx(parts[2])
		}
		render := func() string {
			f, err := extensions.VerifSanitize(u, e, hasArg, name)
			if err != nil {
				return "err"
			}
			return "ok:" + hx(f)
		}
		r1 := render()
		if r2 := render(); r2 != r1 {
			return "NONDET"
		}
		return r1
	case "f":
		fs := sanitizeSetup()
		res, err := fs.child(parts[1]).ask(parts[2] + " " + parts[3])
		if err != nil {
			return "CHILD-DIED"
		}
		after := treeSnapshot(fs.root)
		diff := treeDiff(fs.snap, after)
		fs.restore(diff)
		t := "-"
		if len(diff) > 0 {
			enc := make([]string, len(diff))
			for i, d := range diff {
				enc[i] = d[:2] + hx(d[2:])
			}
			t = strings.Join(enc, ",")
		}
		return "r=" + res + ";t=" + t
	}
	return "BAD"
}

// child: one configuration, requests "<save|load> <hex name>" on stdin, answers "ok:<hex>" | "err".
func sanitizeChild(args []string) int {
	log.SetLogLevelQuiet(log.Error)
	cfg := args[0]
	c := extensions.Config{HasLoad: true, HasSave: true}
	switch cfg {
	case "00":
	case "01":
		c.LoadSaveEmptyOnly = true
	case "10":
		c.UnrestrictedIOs = true
	case "n":
		c.HasLoad, c.HasSave = false, false
	default:
		return 2
	}
	if err := extensions.Init(&c); err != nil {
		return 1
	}
	in := bufio.NewScanner(os.Stdin)
	out := bufio.NewWriter(os.Stdout)
	for in.Scan() {
		op, h, _ := strings.Cut(in.Text(), " ")
		name := unhx(h)
		o := repl.EvalStringOptions()
		o.PreInput = func(s *eval.State) { s.SetArgs([]string{name}) }
		prog := op + "(args[0])"
		if op == "img" { // image.save: the argument is the name of the image, the file name is fixed
			prog = "image.new(args[0],2,2)\nimage.save(args[0])"
		}
		if p, ok := sanitizeExtProg(op); ok { // exec / run / save() / load(): sanitize_ext.go
			prog = p
		}
		res, errs, _ := repl.EvalStringWithOption(context.Background(), o, prog)
		if len(errs) > 0 {
			fmt.Fprintln(out, "err")
		} else if op != "load" && op != "load0" {
			fmt.Fprintln(out, "ok:-")
		} else {
			fmt.Fprintln(out, "ok:"+hx(strings.TrimSpace(res)))
		}
		out.Flush()
	}
	return 0
}

func namesUpTo(alpha string, maxLen int, f func(string)) {
	var rec func(cur []byte)
	rec = func(cur []byte) {
		f(string(cur))
		if len(cur) == maxLen {
			return
		}
		for i := 0; i < len(alpha); i++ {
			rec(append(cur, alpha[i]))
		}
	}
	rec(make([]byte, 0, maxLen))
}

func sanitizeGen(tier string, r *rng, emit func(string)) {
	log.SetLogLevelQuiet(log.Error) // the unrestricted branch logs every name at Info level
	thorough := tier == "thorough"
	cfgs := []string{"00", "01", "10", "11"}
	// --- in-process, exhaustive
	for _, c := range cfgs {
		emit("s;" + c + ";none")
	}
	sLen := 4
	if thorough {
		sLen = 5
	}
	namesUpTo(sanitizeAlphabet, sLen, func(n string) {
		for _, c := range cfgs {
			emit("s;" + c + ";" + hx(n))
			emit("s;" + c + ";" + hx(n+".gr"))
		}
	})
	if thorough { // length 6: restricted configuration only
		namesUpTo(sanitizeAlphabet, 6, func(n string) {
			if len(n) == 6 {
				emit("s;00;" + hx(n))
			}
		})
	}
	// longer random names, biased to accepted ones and to embedded / repeated suffixes
	nRand := 20000
	if thorough {
		nRand = 200000
	}
	pieces := []string{".gr", "..", "/", "g", "r", "Z9_", "\\", "\x00", ".g", "gr", ".gr.gr", "~", " ", "\xc3\xa9", "abc", "."}
	randName := func() string {
		var sb strings.Builder
		for k := r.intn(6); k > 0; k-- {
			if r.intn(3) == 0 {
				sb.WriteString(pieces[r.intn(len(pieces))])
			} else {
				sb.WriteByte("abcxyzGRQ019_"[r.intn(13)])
			}
		}
		if r.intn(2) == 0 {
			sb.WriteString(".gr")
		}
		return sb.String()
	}
	for i := 0; i < nRand; i++ {
		emit("s;" + cfgs[r.intn(4)] + ";" + hx(randName()))
	}
	// multi-byte runes: a sanitiser looking at runes instead of bytes (or at a truncated rune) would accept
	// some of them; every 2-byte rune, and runes whose low code point byte is an identifier character
	for cp := 0x80; cp < 0x800; cp++ {
		emit("s;00;" + hx(string(rune(cp))))
		emit("s;01;" + hx("a"+string(rune(cp))+".gr"))
	}
	nRune := 3000
	if thorough {
		nRune = 60000
	}
	for i := 0; i < nRune; i++ {
		cp := 0x800 + r.intn(0x10FFFF-0x800)
		if r.intn(2) == 0 { // low byte in [A-Za-z0-9_]
			low := "abcxyzAZ019_"[r.intn(12)]
			cp = (cp &^ 0xff) | int(low)
		}
		if cp >= 0xD800 && cp < 0xE000 {
			continue
		}
		n := string(rune(cp))
		if r.intn(2) == 0 {
			n = "k" + n + "9"
		}
		emit("s;" + cfgs[r.intn(4)] + ";" + hx(n))
	}
	// --- real file system
	fLen := 3
	nF := 1500
	if thorough {
		fLen = 4
		nF = 20000
	}
	restricted := []string{"00", "01", "n"}
	namesUpTo(sanitizeAlphabet, fLen, func(n string) {
		for _, c := range restricted {
			for _, op := range []string{"save", "load"} {
				emit("f;" + c + ";" + op + ";" + hx(n))
				emit("f;" + c + ";" + op + ";" + hx(n+".gr"))
			}
		}
	})
	// names that aim at the sentinels and at existing files
	aimed := []string{"ok", "ok.gr", "", ".gr", "../secret", "../secret.gr", "../sib/secret.gr", "sub/secret", "sub/secret.gr",
		"./ok.gr", "ok.gr/", "/ok", "..", ".", "sub", "sub.gr", "secret", "..\\secret.gr", "ok\x00.gr", "ok.gr\x00", "~/ok.gr",
		"ok.gr.gr", "ok.gr.gr.gr", ".gr.gr", "OK", "Ok.gr", "ok .gr", " ok", "grol.png", "grol", "\x80ok", "\u2261", "\u0131.gr", "o\u2261k"}
	for _, n := range aimed {
		for _, c := range restricted {
			for _, op := range []string{"save", "load"} {
				emit("f;" + c + ";" + op + ";" + hx(n))
			}
		}
	}
	for _, n := range aimed { // image.save(name): always ./grol.png, whatever the configuration and the name
		for _, c := range []string{"00", "01", "n", "10"} {
			emit("f;" + c + ";img;" + hx(n))
		}
	}
	for i := 0; i < nF; i++ {
		n := randName()
		if r.intn(3) == 0 { // a name over the exhaustive alphabet, length 3..6
			b := make([]byte, 3+r.intn(4))
			for j := range b {
				b[j] = sanitizeAlphabet[r.intn(len(sanitizeAlphabet))]
			}
			n = string(b)
		}
		op := []string{"save", "load"}[r.intn(2)]
		emit("f;" + restricted[r.intn(3)] + ";" + op + ";" + hx(n))
	}
	// unrestricted: a fixed list of relative names (never absolute: those would leave the scratch tree);
	// shows that the sentinels are reachable when nothing confines the name
	for _, n := range []string{"a", "a.gr", "ok.gr", "ok", ".gr", "../esc.gr", "../secret.gr", "../sib/secret.gr", "../sib/esc",
		"sub/secret.gr", "sub/esc.gr", "./a.gr", "sub/../b.gr", "sub/./../../sib/x", "Z0_"} {
		for _, op := range []string{"save", "load"} {
			emit("f;10;" + op + ";" + hx(n))
		}
	}
	sanitizeExtGen(emit) // process execution, save() / load() without argument: sanitize_ext.go
}

package main

// Suite `lex` (property C16): the real lexer on one byte string in one mode.
//
// Case input:   <f|l>;<input hex>        f = file mode (lexer.NewBytes), l = line mode (lexer.NewLineMode)
//               T;-                      dump of the token tables (ties the model's tables to token.Init)
// Observation:  <rec>,<rec>,...;<line hex>:<col>:<lineno>
//   one <rec> per NextToken call, up to and including the first end marker plus 3 further calls:
//   <type>:<literal hex>:<Pos before>:<Pos after>:<HadWhitespace>:<HadNewline>:<pointer id>:<LastNewLine>:<line number>
//   pointer id = *token.Token identity numbered by first appearance in the case; the trailer is
//   CurrentLine() after the last call.

import (
	"fmt"
	"os"
	"path/filepath"
	"sort"
	"strconv"
	"strings"

	"grol.io/grol/lexer"
	"grol.io/grol/token"
)

func init() { suites["lex"] = suite{gen: lexGen, run: lexRun} }

func lexRun(input string) string {
	parts := strings.SplitN(input, ";", 2)
	if parts[0] == "T" {
		return lexTables()
	}
	if parts[0] == "2" { // lexfam2.go
		return lexRunTwo(parts[1])
	}
	src := unhx(parts[1])
	var l *lexer.Lexer
	marker := token.EOF
	if parts[0] == "l" {
		l = lexer.NewLineMode(src)
		marker = token.EOL
	} else {
		l = lexer.NewBytes(exactBytes(src))
	}
	ids := map[*token.Token]int{}
	var sb strings.Builder
	seen := -1
	limit := len(src) + 5
	for i := 0; i < limit; i++ {
		pb := l.Pos()
		tok := l.NextToken()
		if i > 0 {
			sb.WriteByte(',')
		}
		id, ok := ids[tok]
		if !ok {
			id = len(ids)
			ids[tok] = id
		}
		typ, lit := "nil", "-"
		if tok != nil {
			typ = strconv.Itoa(int(tok.Type()))
			lit = hx(tok.Literal())
		}
		_, _, lno := l.CurrentLine()
		sb.WriteString(typ)
		sb.WriteByte(':')
		sb.WriteString(lit)
		fmt.Fprintf(&sb, ":%d:%d:%s:%s:%d:%d:%d", pb, l.Pos(), b2s(l.HadWhitespace()), b2s(l.HadNewline()), id, l.LastNewLine(), lno)
		if seen < 0 && tok != nil && tok.Type() == marker {
			seen = i
		}
		if seen >= 0 && i == seen+3 {
			break
		}
	}
	line, col, lno := l.CurrentLine()
	fmt.Fprintf(&sb, ";%s:%d:%d", hx(line), col, lno)
	return sb.String()
}

// the tables built by token.Init, as far as the exported API shows them
func lexTables() string {
	var names, kw, c1, c2, id []string
	for i := 0; i <= int(token.EOF); i++ {
		t := token.Type(i)
		names = append(names, t.String())
		w := strings.ToLower(t.String())
		kw = append(kw, strconv.Itoa(int(token.LookupIdent(w).Type())))
	}
	for c := 0; c < 256; c++ {
		if t := token.ConstantTokenChar(byte(c)); t != nil {
			c1 = append(c1, fmt.Sprintf("%02x=%d=%s", c, int(t.Type()), hx(t.Literal())))
			// single character constants are not in the interning map
			id = append(id, b2s(token.ByType(t.Type()) == t))
		}
	}
	for a := 0; a < 256; a++ {
		for b := 0; b < 256; b++ {
			if t := token.ConstantTokenChar2(byte(a), byte(b)); t != nil {
				c2 = append(c2, fmt.Sprintf("%02x%02x=%d=%s", a, b, int(t.Type()), hx(t.Literal())))
				id = append(id, b2s(token.Intern(t.Type(), t.Literal()) == t && token.ByType(t.Type()) == t))
			}
		}
	}
	for i := 0; i <= int(token.EOF); i++ {
		w := strings.ToLower(token.Type(i).String())
		t := token.LookupIdent(w)
		if t.Type() != token.IDENT {
			id = append(id, b2s(token.Intern(t.Type(), w) == t && token.ByType(t.Type()) == t))
		}
	}
	return strings.Join(names, ",") + "|" + strings.Join(kw, ",") + "|" + strings.Join(c1, ",") + "|" +
		strings.Join(c2, ",") + "|" + strings.Join(id, "")
}

// the significant alphabet of the property text
const lexAlpha = "019aeExb_nuUfi.+-\"`\\/*=!:<>&|({ \n\t\r\x00\x80\xc2\xa0"

// bodies of string literals (source text between the quotes): escapes whose VALUE is 0, below and
// above 0x80, valid and invalid runes, octal-looking and unknown escapes, truncated escapes, a
// backslash at the very end, raw UTF-8 and raw invalid bytes
var escapeBodies = []string{
	`\x00`, `\u0000`, `\U00000000`, `\x7f`, `\x80`, `\xff`, `\xc3\xa9`, `\u00e9`, `\u2261`, `\U0001F600`, `\U00110000`, `\ud800`, `\uffff`,
	`\0`, `\00`, `\101`, `\q`, `\a`, `\b`, `\f`, `\v`, `\'`, "\\`", `\\`, `\"`, `\n\t\r`, `\x4`, `\xg1`, `\u12`, `\U0001F60`, `\x`, `\u`, `\U`, `\`,
	`a\x00b`, `a\u0000b`, `\x00\x00`, `\xff\xfe`, `\x41\u0042\U00000043`, `nul:\u0000:byte`,
	"é", "≡", "😀", "\xff", "\x80", "\xc3", "\xc3\x28", "\xed\xa0\x80", "\xf4\x90\x80\x80", "a\x00b", "",
}

var lexFragments = []string{
	"1e+", "1e", ".5.", ".5", "1.", "..", "0x1F", "0b101", "0x", "0b", "1_000", "1e5", "2.5e-3", "1E+9", ".e", "9.9.9",
	"\"", "`", "\\", "\\\"", "\\n", "\\t", "\\r", "\\x41", "\\u00e9", "\\U0001F600", "\\u", "\\x", "\\U",
	"\\x00", "\\u0000", "\\x7f", "\\x80", "\\xff", "\\U00110000", "\\0", "\\q", "é", "≡",
	"//", "/*", "*/", "/", "*", "\n", " ", "\t", "\r", "\x00", "\x80", "\xc2\xa0", "\xc2\x85", "\xe2\x80\xa8", "\xe3\x80\x80",
	"func", "if", "else", "return", "true", "false", "for", "len", "println", "macro", "quote", "unquote", "del", "iff", "If", "_x", "x1", "abc",
	"=", "==", "=>", ":=", "!=", "!", ":", "+", "++", "-", "--", "<", "<=", "<<", ">", ">=", ">>", "&", "&&", "|", "||", ".", "%", "^", "~",
	",", ";", "(", ")", "{", "}", "[", "]", "@", "$", "#", "?", "\xff", "\xe9",
}

func lexGen(tier string, r *rng, emit func(string)) {
	thorough := tier == "thorough"
	both := func(s string) {
		emit("f;" + hx(s))
		emit("l;" + hx(s))
	}
	emit("T;-")
	// witnesses of the defects seen by hand, and neighbours
	for _, s := range []string{"1e+ x", "1e", "1e+", "1.5e-", ".5e", ".5.", ".5.5", "1.5.", "a\x00b", "\x00a", "\"a\x00b\" c", "// c\x00d", "/* c\x00d */ e",
		"\"abc", "`abc", "\"\\", "\"\\x", "\"\\u12", "\"\\U0001F60", "/*", "/*/", "/**/", "//", "// x \t\r\n y", "//\xc2\xa0\n", "//a\xe2\x80\xa8",
		"0x", "0b", "0x1fG", "0b102", "1..3", "1.e5", "1_0._5e_1", "\x80", "\xff", "a\xc2\xa0b", "if iff _if if_ If"} {
		both(s)
	}
	// string literals: every escape form and raw byte class, alone, adjacent, unterminated, in both quote
	// styles (backquote strings take no escapes), see escapeBodies
	for _, q := range []string{"\"", "`"} {
		for i, b := range escapeBodies {
			lit := q + b + q
			both(lit)
			both(lit + "x")
			both("x" + lit)
			both("a = " + lit + " + 1")
			both(q + b)                                     // unterminated
			both(q + "ab" + b)                              // unterminated after some text
			both(q + b + "\n" + q)                          // a newline inside
			for j := i % 3; j < len(escapeBodies); j += 3 { // adjacent literals
				both(lit + q + escapeBodies[j] + q)
				both(q + b + escapeBodies[j] + q + " " + "`" + escapeBodies[j] + "`")
			}
		}
	}
	// exhaustive over the significant alphabet
	maxLen := 3
	if thorough {
		maxLen = 4
	}
	buf := make([]byte, 0, maxLen)
	var rec func(depth int)
	rec = func(depth int) {
		both(string(buf))
		if depth == maxLen {
			return
		}
		for i := 0; i < len(lexAlpha); i++ {
			buf = append(buf, lexAlpha[i])
			rec(depth + 1)
			buf = buf[:len(buf)-1]
		}
	}
	rec(0)
	// random longer strings
	n := 20000
	if thorough {
		n = 300000
	}
	for i := 0; i < n; i++ {
		var sb strings.Builder
		switch r.intn(4) {
		case 0: // significant alphabet
			for k := 5 + r.intn(20); k > 0; k-- {
				sb.WriteByte(lexAlpha[r.intn(len(lexAlpha))])
			}
		case 1, 2: // token soup
			for k := 2 + r.intn(14); k > 0; k-- {
				sb.WriteString(lexFragments[r.intn(len(lexFragments))])
				if r.intn(3) == 0 {
					sb.WriteByte(" \n\t"[r.intn(3)])
				}
			}
		default: // any bytes
			for k := 1 + r.intn(24); k > 0; k-- {
				sb.WriteByte(byte(r.intn(256)))
			}
		}
		s := sb.String()
		if r.intn(2) == 0 {
			emit("f;" + hx(s))
		} else {
			emit("l;" + hx(s))
		}
	}
	// long tokens, each occurring several times in one input (interning must not depend on the length):
	// strings, comments, numbers and identifiers of 10..5000 bytes
	nLong := 300
	if thorough {
		nLong = 3000
	}
	for i := 0; i < nLong; i++ {
		ln := []int{10, 33, 63, 64, 65, 66, 100, 127, 128, 129, 255, 256, 257, 1000, 1024, 4097}[r.intn(16)] + r.intn(3)
		body := strings.Repeat(string("abcXYZ019_"[r.intn(10)]), ln)
		var tok string
		switch r.intn(6) {
		case 0:
			tok = "\"" + body + "\""
		case 1:
			tok = "`" + body + "`"
		case 2:
			tok = "/* " + body + " */"
		case 3:
			tok = "// " + body + "\n"
		case 4:
			tok = strings.Repeat(string("0123456789"[1+r.intn(9)]), ln)
		default:
			tok = "id" + body
		}
		other := "\"" + strings.Repeat("q", ln) + "\""
		s := tok + " " + other + " " + tok + "\n" + tok + " x " + other
		if r.intn(2) == 0 {
			emit("f;" + hx(s))
		} else {
			emit("l;" + hx(s))
		}
	}
	// the repo's own programs: whole, truncated, and with byte mutations
	repo := os.Getenv("VERIF_REPO")
	if repo == "" {
		repo = "/repo"
	}
	var files []string
	for _, d := range []string{"examples", "tests"} {
		m, _ := filepath.Glob(filepath.Join(repo, d, "*.gr"))
		sort.Strings(m)
		files = append(files, m...)
	}
	perFile := 12
	if thorough {
		perFile = 150
	}
	for _, f := range files {
		data, err := os.ReadFile(f)
		if err != nil || len(data) == 0 {
			continue
		}
		src := string(data)
		both(src)
		for k := 0; k < perFile; k++ {
			// a window of the file, then a few mutations
			a := r.intn(len(src))
			b := a + 1 + r.intn(400)
			if b > len(src) {
				b = len(src)
			}
			w := []byte(src[a:b])
			for m := r.intn(4); m > 0 && len(w) > 0; m-- {
				p := r.intn(len(w))
				switch r.intn(4) {
				case 0:
					w[p] = lexAlpha[r.intn(len(lexAlpha))]
				case 1:
					w = append(w[:p], w[p+1:]...)
				case 2:
					w = append(w[:p], append([]byte{lexAlpha[r.intn(len(lexAlpha))]}, w[p:]...)...)
				default:
					w[p] = byte(r.intn(256))
				}
			}
			if r.intn(2) == 0 {
				emit("f;" + hx(string(w)))
			} else {
				emit("l;" + hx(string(w)))
			}
		}
	}
	lexGapFamilies(tier, r, emit) // lexfam2.go
}

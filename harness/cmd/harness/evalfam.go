package main

import (
	"fmt"
	"strings"
)

// Targeted families of the eval suite (sessions built from templates with random parameters).

func pickS(r *rng, l ...string) string { return l[r.intn(len(l))] }

// C04: define functions that depend on outer state in every indirect way, call, change the state, call again.
func famCache(r *rng) []string {
	g := fmt.Sprintf("g%d", r.intn(3))
	v1, v2 := 1+r.intn(9), 11+r.intn(9)
	k := r.intn(4)
	var defs []string
	reader := pickS(r,
		"rd = func(){"+g+"}",
		"rd = func(){"+g+" + 1}",
		"func rd(){ if "+g+" > 5 {\"big\"} else {\"small\"} }",
		"rd = () => "+g+" * 2",
		"rd = func(){ println(\"rd sees\", "+g+"); "+g+" }")
	defs = append(defs, g+" = "+fmt.Sprint(v1), reader)
	shape := r.intn(9)
	call := "f(" + fmt.Sprint(k) + ")"
	switch shape {
	case 0: // wrapper around the reader
		defs = append(defs, "f = func(n){ rd() }")
	case 1: // two levels of wrappers
		defs = append(defs, "w = func(){ rd() }", "f = func(n){ [n, w()] }")
	case 2: // recursion reading the global at the base case
		defs = append(defs, "func f(n){ if n <= 0 {return "+g+"}; f(n-1) }")
	case 3: // inner closure reading the global
		defs = append(defs, "f = func(n){ h = func(){ "+g+" + n }; h() }")
	case 4: // closure factory: closures sharing their text, capturing different values
		defs = append(defs, "mk = func(a){ func(){ a * 10 + "+fmt.Sprint(r.intn(3))+" } }", "c1 = mk("+fmt.Sprint(v1)+")", "c2 = mk("+fmt.Sprint(v2)+")",
			"f = func(n){ [c1(), c2()] }")
	case 5: // upper-case capture in a factory
		defs = append(defs, "mk = func(N){ () => N + 1 }", "c1 = mk("+fmt.Sprint(v1)+")", "c2 = mk("+fmt.Sprint(v2)+")", "f = func(n){ [c1(), c2(), n] }")
	case 6: // function printing: output must be replayed in place on a hit
		defs = append(defs, "f = func(n){ println(\"in f\", n); n * 2 }")
		call = "[f(" + fmt.Sprint(k) + "), f(" + fmt.Sprint(k) + ")]"
	case 7: // error first, success later
		defs = append(defs, "f = func(n){ if "+g+" < 10 { error(\"too small\") } else { n + "+g+" } }")
		call = "catch(f(" + fmt.Sprint(k) + ")).err"
	default: // write to outer state
		defs = append(defs, "cnt = 0", "f = func(n){ cnt = cnt + 1; cnt + n }")
	}
	var res []string
	res = append(res, defs...)
	res = append(res, "println("+call+")", "println("+call+")")
	res = append(res, pickS(r, g+" = "+fmt.Sprint(v2), g+"++", g+" = "+g+" + 10"))
	res = append(res, "println("+call+")", "println("+call+")")
	if r.intn(2) == 0 { // variadic arity collisions and many arguments
		res = append(res, "func tot(..){ if len(..) == 0 {return 0}; if len(..) == 1 {return first(..)}; first(..) + tot(rest(..)) }",
			"println(tot(1,2,3,4), tot(1,2,3,4,5), tot(1,2,3,4,5,6), tot(1,2,3,4))")
	}
	if r.intn(3) == 0 { // a delete that finds nothing still depends on outer state
		res = append(res, "func rm(){ del(gz) }", "println(rm())", "gz = 1", "println(rm())", "println(rm())", "gz = 2", "println(rm())")
	}
	if r.intn(4) == 0 { // an extension holding state of its own (images) behind a wrapper
		res = append(res, `image.new("a", 2, 2)`, `snap = func(n){ image.png(n) }`, `p1 = snap("a")`, `image.set("a", 0, 0, [255,0,0])`,
			`p2 = snap("a")`, `println(p1 == p2, len(p1) > 0)`)
	}
	if r.intn(3) == 0 { // non-deterministic extension must never be served from the cache
		res = append(res, "rf = func(n){ rand(1) + n }", "println(rf(1) == 1, rf(1) == 1)")
	}
	if r.intn(3) == 0 { // memoized recursion: named (hits at every level), bound by assignment (the nested frame finds the
		// caller's reference, which counts as a miss: never stored), through self; printing bodies replay their output
		n := 3 + r.intn(6)
		res = append(res, pickS(r,
			"func fb(n){ if n <= 1 {return n}; fb(n-1) + fb(n-2) }",
			"fb = func(n){ if n <= 1 {return n}; fb(n-1) + fb(n-2) }",
			"fb = func(n){ if n <= 1 {return n}; self(n-1) + self(n-2) }",
			"func fb(n){ print(n, \"\"); if n <= 1 {return n}; fb(n-1) + fb(n-2) }"),
			fmt.Sprintf("println(fb(%d), fb(%d), fb(%d))", n, n+1, n))
	}
	if r.intn(3) == 0 { // a memoized call whose callee is reached through a function-valued outer variable that is only READ,
		// and a call that writes an outer NON-function variable through a reference it first read (never stored)
		res = append(res, "hp = func(a){ a + 1 }", "cw = func(n){ hp(n) * 2 }", "println(cw(3), cw(3))",
			"tot2 = 0", "ad = func(n){ t = tot2; tot2 = t + n; tot2 }", "println(ad(2), ad(2), tot2)")
	}
	if r.intn(3) == 0 { // a call that WRITES an outer variable holding a function (fixed 0f2eeb4: such a call used to be stored and
		// a later hit skipped the write): by assignment of a function, of a plain value, by an inner named function, after
		// reading it, by del; called twice with equal arguments with the variable restored in between
		a := 1 + r.intn(5)
		defT := pickS(r, "tg = func(){1}", "func tg(){1}", "tg = () => 1")
		wr := pickS(r,
			"wr = func(x){ tg = func(){2}; x }",
			"wr = func(x){ tg = x; x }",
			"func wr(x){ func tg(){2}; x }",
			"wr = func(x){ h = tg; tg = func(){ h() + x }; x }",
			"wr = func(x){ del(tg); x }",
			"wr = func(x){ in = func(){ tg = func(){x} }; in(); x }")
		// never the wording of an error, neither printed nor left in a global
		obs := fmt.Sprintf("println(catch(tg()).err, catch(tg()).value == 1, catch(tg()).value == 2, catch(tg()).value == %d, catch(tg()).value == %d)", a, a+1)
		res = append(res, defT, wr, fmt.Sprintf("wr(%d)", a), obs, defT, fmt.Sprintf("wr(%d)", a), obs,
			fmt.Sprintf("tg = %d", a), fmt.Sprintf("wr(%d)", a), obs)
	}
	res = append(res, call)
	return res
}

// C05: integer parameters and counted loops in every shape the register optimisation cares about
func famRegs(r *rng) []string {
	n := 1 + r.intn(12)
	var ps, args []string
	for i := 0; i < n; i++ {
		ps = append(ps, fmt.Sprintf("p%d", i))
		if r.intn(5) == 0 {
			args = append(args, pickS(r, `"s"`, "1.5", "[1]", "true", "nil"))
		} else {
			args = append(args, fmt.Sprint(r.intn(20)-3))
		}
	}
	p := ps[r.intn(n)]
	body := []string{}
	for i := 0; i < 1+r.intn(3); i++ {
		body = append(body, pickS(r,
			p+" = "+p+" + 1",
			p+"++",
			"++"+p,
			p+" = \"str\"",
			"q = "+p+"; "+p+" = "+p+" * 2; println(q)",
			"a = [0,0,0]; a[1] = "+p+"; "+p+" = 9; println(a)",
			"m = {}; m["+p+"] = "+p+"; m.k = "+p+"; "+p+"--; println(m)",
			"m2 = {"+p+": "+p+"}; "+p+" = 0; println(m2)",
			"c = catch("+p+"); "+p+" = 5; println(c)",
			"h = func(){ "+p+" }; println(h())",
			"for "+p+" = 2 { print("+p+") }",
			"println("+p+" == "+ps[0]+", "+p+" + 0.5, -"+p+", ~"+p+")",
			"if "+p+" > 2 { return "+p+" }"))
	}
	body = append(body, "["+strings.Join(ps, ", ")+"]")
	var res []string
	res = append(res, "func fr("+strings.Join(ps, ", ")+") {\n"+strings.Join(body, "\n")+"\n}")
	res = append(res, "println(fr("+strings.Join(args, ", ")+"))")
	// counted loops: nesting, every exit, repeated at top level
	depth := 1 + r.intn(10)
	exit := pickS(r, "", "if i0 == 1 {break}", "if i0 == 1 {continue}", "if i0 == 1 {error(\"boom\")}", "x0 = 1")
	loop := "println(" + "i0" + ")\n" + exit
	for d := depth - 1; d >= 1; d-- {
		loop = fmt.Sprintf("for i%d = %d {\n%s\n}", d, 1+r.intn(2), strings.ReplaceAll(loop, "i0", fmt.Sprintf("i%d", depth-1)))
	}
	loop = fmt.Sprintf("for i%d = 0:%d {\n%s\n}", depth-1, 2+r.intn(2), loop)
	reps := 1 + r.intn(11)
	for i := 0; i < reps; i++ {
		res = append(res, pickS(r, loop, "catch("+loop+")", "lp = func(){ "+loop+" }; lp()"))
	}
	res = append(res, "println(\"after\")", "for k = 3 { for k2 = 2 { if k2 == 1 {break}; println(k, k2) } }")
	// loop variable coinciding with other bindings
	res = append(res, pickS(r,
		"j = 10; for j = 0:3 { print(j) }; println()",
		"func g2(j){ for j = 2 { print(j) }; j }; println(g2(7))",
		"func g3(n){ s = 0; for i = n { s = s + i }; s }; println(g3(5), g3(5))",
		"s = 0; for i = 0:4 { f2 = func(){ 1 }; s = s + f2() }; println(s)",
		"for i = 0:3 { i++; print(i) }; println()",
		"LIM = 3; func g4(LIM){ LIM }; println(catch(g4(5)).err)",
		"i = 100; fq = func(){ s = 0; for i = 4 { s = s + i }; s }; println(fq(), i)",
		"func g5(){ k = 7; h = func(){ for k = 1:3 { print(k) } }; h(); k }; println(g5())",
		"i = 100; fq2 = func(){ for i = 3 { print(i) }; i }; println(fq2() + i)",
		"n = 5; fq3 = func(n){ for n = 2 { print(n) }; n }; println(fq3(9), n)",
		"a = [10,20,30]; a[-1] = 3; a[-3] = 1; println(a, catch(a[-4] = 0).err)",
		"for i = 3 { del(i); println(1) }; func fd(a){ del(a); 1 }; println(fd(3))",
		"func fo(fo){ fo }; println(fo(1)); func go2(a,b,go2){ [a, go2] }; println(go2(1,2,3))",
		"m = {\"i\": 5}; for i = 2 { println(m.i, del(m.i), m) }"))
	return res
}

// C07: things that used to panic or are plausible panic sites
func famPanic(r *rng) []string {
	cands := []string{
		"-1:9223372036854775807", "(-9223372036854775807-1):9223372036854775807", "0:9223372036854775807", "9223372036854775807:-2", "len(-5:9223372036854775806)",
		"1/0", "1%0", "7 / (3-3)", "1 << -1", "1 >> -3", "-9223372036854775807 - 1 / -1", "(-9223372036854775807 - 1) / -1",
		"del([1])", "del(1)", "del(\"a\")", "del(x.y.z)", "x = [1]; del(x[0])",
		"\"abc\"[-10:2]", "[1,2,3][-10:2]", "[1,2,3][-10:-5]", "\"abc\"[-9:-7]", "[1,2,3][5:3]", "{1:2,3:4,5:6}[-10:-5]", "\"abc\"[2:1]", "5[0:1]",
		"[break] == [break]", "x = [continue]; x < x", "f = func(){ a = [if true {return 1}]; a == a }; f()",
		"x = 1; g = func(){del(x)}; f = func(){ println(x); g(); x }; f()",
		"y = 0; r = func(n){ if n == 0 { y; return func(){y} }; y := n; l := r(n-1); del(y); y; l }; l = r(120); l()",
		"max([])", "min([])", "sprintf([])", "regsub(\"a\",\"b\")", "max()", "join(1)", "split(\"a\")",
		"f = func(a,b,c,d,e,f2,g,h,i,j){ a+j }; f(1,2,3,4,5,6,7,8,9,10)",
		"for i=0:3 {break}; for i=0:3 {break}; for i=0:3 {break}; for i=0:3 {break}; for i=0:3 {break}; for i=0:3 {break}; for i=0:3 {break}; for i=0:3 {break}; for i=0:3 {break}; for i=0:3 {1}",
		"[] * 4611686018427387904", "\"\" * 4611686018427387904", "[1,2] * 4611686018427387904", "\"abcd\" * 4611686018427387904", "0:4611686018427387904",
		"quote(1) == quote(1)", "{quote(1): 2}", "m = {}; m[quote(x)] = 1; m",
		"self", "self()", "..", "f = func(..){ .. }; f(1, [2, 3])", "f = func(a, ..){ a }; f()",
		"x = func(){x}; x()()()()", "nil()", "1(2)", "\"a\"(1)", "[1](0)",
		"if 1 {2}", "for \"a\" {1}", "for nil {1}", "for x = 1.5 {1}", "for 1.5 {1}", "for -1 {1}", "for i = 5:2 {1}",
		"a = [1,2,3]; a[\"x\"] = 1", "a = [1,2,3]; a[5] = 1", "a = [1,2,3]; a[-4] = 1", "m = {}; m[[1]] = 2; m[m] = m; m",
		"len(1)", "first(1)", "rest(1.5)", "first(func(a,b){a})", "rest(func(a,b){a; b})", "len(nil)", "first(\"\")", "rest(\"\\xff\\xfe\")",
		"catch(1/0)", "catch(error(\"x\"))", "error()", "print()", "println()", "catch()",
		"x = 1; x.y = 2", "x = nil; x[0] = 1", "PI = 3", "PI++", "nil = 1", "abs = 2", "len = 3", "info.x = 1", "del(info)",
		"-\"a\"", "!1", "~1.5", "+[1]", "- -9223372036854775807 - 2", "9223372036854775807 + 1", "NaN == NaN", "{NaN: 1}", "[NaN] == [NaN]", "Inf - Inf < 1",
	}
	n := 1 + r.intn(4)
	var res []string
	for i := 0; i < n; i++ {
		res = append(res, cands[r.intn(len(cands))])
	}
	res = append(res, "m5={1:1,2:2,3:3,4:4,5:5}; for k=[1,2,3,4,5]{del(m5[k])}; println(len(m5), first(m5), rest(m5), m5)")
	res = append(res, "println(\"still alive\")")
	return res
}

// C07: every registered extension applied to argument tuples of every kind of value (the model declines
// extension calls; the statement "no Go panic" is evaluated on the implementation)
var extArgKinds = []string{"nil", "true", "false", "0", "-1", "1", "3", "9223372036854775807", "-9223372036854775807 - 1", "0.5", "-0.0", "NaN", "Inf", "-Inf",
	`""`, `"a"`, `"%d %s %v"`, `"\xff\xfe"`, `"[1,2"`, `"{\"a\":1}"`, `"a,b,c"`, `"(("`, "[]", "[1]", `[1,"a",nil]`, "1:20", "[[1,2],[3]]",
	"{}", `{"a":1}`, "{1:2,3:4,5:6,7:8,9:10}", "func(){1}", "(a,b)=>a+b", "catch(1/0)", "[NaN]", `{"k":[1,2]}`}

func famExt(r *rng, names []string) []string {
	skip := map[string]bool{"save": true, "load": true, "image.save": true, "sleep": true, "read": true, "exec": true, "run": true, "eof": true}
	var res []string
	for len(res) < 6 {
		n := names[r.intn(len(names))]
		if skip[n] {
			continue
		}
		k := r.intn(5)
		args := make([]string, k)
		for i := range args {
			args[i] = extArgKinds[r.intn(len(extArgKinds))]
		}
		if r.intn(2) == 0 {
			res = append(res, n+"("+strings.Join(args, ", ")+")")
		} else {
			// the same call from inside a function with the arguments held by outer variables (they arrive as references)
			var sb strings.Builder
			names := make([]string, k)
			for i := range args {
				names[i] = fmt.Sprintf("v%d", i)
				sb.WriteString(names[i] + " = " + args[i] + "; ")
			}
			res = append(res, sb.String()+"fw = func(){ "+n+"("+strings.Join(names, ", ")+") }; fw()")
		}
	}
	// image functions need an image first: a small dedicated sequence
	if r.intn(4) == 0 {
		res = append(res, `image.new("i", 4, 4)`, `image.set("i", `+extArgKinds[r.intn(len(extArgKinds))]+`, 1, [255,0,0])`,
			`image.draw("i", `+extArgKinds[r.intn(len(extArgKinds))]+`)`, `len(image.png("i"))`)
	}
	res = append(res, "println(\"still alive\")")
	return res
}

package main

import (
	"bytes"
	"context"
	"fmt"
	"sort"
	"strings"

	"grol.io/grol/ast"
	"grol.io/grol/eval"
	"grol.io/grol/lexer"
	"grol.io/grol/object"
	"grol.io/grol/parser"
)

// The macro suite (C13): one case = one session of inputs on one persistent eval.State, each input
// taken through the REAL parser, DefineMacros, ExpandMacros, printer and evaluator, plus the
// HAND-SUBSTITUTED session (built by the generator, which knows templates and arguments) in a
// fresh state.
//
//	input: <W|M>;<hex text>|<hex text>|...;<hex hand text>|...      (M: malformed stream, no hand session)
//	obs:   <rec> @@ <rec> ... ## <evalobs> @@ <evalobs> ...
//	rec:   P   (parse error)   or
//	       a=<tree>;d=<tree after DefineMacros | X<panic kind>>;n=<macros in the store>;x=<expanded tree | X<kind>>;
//	       pn=<hex normal print | !>;pc=<hex compact print | !>;rn=<0|1>;rc=<0|1>;q=<0|1>;ms=<store>;sm=<0|1>;ev=<evalobs | ->
//	rn/rc: the printed text parses back to the same tree; q: no output and no change of the globals during
//	ExpandMacros; ms: the store after DefineMacros (name=(macro …), sorted); sm: the store dumps identically
//	after ExpandMacros and after evaluation; evalobs as in the eval suite (o=;v=;e=;p=;g=).
// Trees are dumped without function cache keys.

func init() {
	suites["macro"] = suite{gen: macroGen, run: macroRun}
}

func dumpTree(n ast.Node) (res string) {
	defer func() {
		if r := recover(); r != nil {
			res = "X" + panicKind(r)
		}
	}()
	sb := &strings.Builder{}
	dumpNode(sb, n)
	return sb.String()
}

func macroStoreDump(s *eval.State) string {
	store := s.VerifMacroEnv().VerifStore()
	keys := make([]string, 0, len(store))
	for k := range store {
		keys = append(keys, k)
	}
	sort.Strings(keys)
	sb := &strings.Builder{}
	for i, k := range keys {
		if i > 0 {
			sb.WriteByte(',')
		}
		sb.WriteString(hx(k) + "=")
		switch m := store[k].(type) {
		case *object.Macro:
			sb.WriteString("(macro (params")
			for _, p := range m.Parameters {
				sb.WriteString(" " + hx(p.Value().Literal()))
			}
			sb.WriteString(") ")
			sb.WriteString(dumpTree(m.Body))
			sb.WriteByte(')')
		default:
			sb.WriteString("?" + store[k].Type().String())
		}
	}
	if sb.Len() == 0 {
		return "-"
	}
	return sb.String()
}

func printTree(n ast.Node, compact bool) (res string, ok bool) {
	defer func() {
		if r := recover(); r != nil {
			res, ok = "", false
		}
	}()
	ps := ast.NewPrintState()
	ps.Compact = compact
	return n.PrettyPrint(ps).String(), true
}

func reparseSame(text, dump string) string {
	p := parser.New(lexer.New(text))
	prog := p.ParseProgram()
	if len(p.Errors()) > 0 {
		return "0"
	}
	return b2s(dumpTree(prog) == dump)
}

func macroInput(s *eval.State, out *bytes.Buffer, text string) string {
	p := parser.New(lexer.New(text))
	var program ast.Node = p.ParseProgram()
	if len(p.Errors()) > 0 {
		return "P"
	}
	sb := &strings.Builder{}
	sb.WriteString("a=" + dumpTree(program))
	// repl.EvalOne installs the input's context before evalOne; the macro bodies run under it (counting
	// context: deterministic deadline), evaluation gets a fresh one below
	s.Context = &countingCtx{Context: context.Background(), left: 200000}
	// DefineMacros
	pk := ""
	func() {
		defer func() {
			if r := recover(); r != nil {
				pk = panicKind(r)
			}
		}()
		s.DefineMacros(program)
	}()
	n := s.NumMacros()
	ms := macroStoreDump(s)
	if pk != "" {
		fmt.Fprintf(sb, ";d=X%s;n=%d;x=X%s;pn=!;pc=!;rn=1;rc=1;q=1;ms=%s;sm=1;ev=-", pk, n, pk, ms)
		return sb.String()
	}
	fmt.Fprintf(sb, ";d=%s;n=%d", dumpTree(program), n)
	// ExpandMacros (only when macros exist, as evalOne does)
	outLen := out.Len()
	globals := dumpGlobals(s.VerifRootEnv().VerifStore())
	if n > 0 {
		func() {
			defer func() {
				if r := recover(); r != nil {
					pk = panicKind(r)
					s.Reset()
				}
			}()
			program = s.ExpandMacros(program)
		}()
	}
	quiet := out.Len() == outLen && dumpGlobals(s.VerifRootEnv().VerifStore()) == globals
	sameStore := macroStoreDump(s) == ms
	if pk != "" {
		fmt.Fprintf(sb, ";x=X%s;pn=!;pc=!;rn=1;rc=1;q=%s;ms=%s;sm=%s;ev=-", pk, b2s(quiet), ms, b2s(sameStore))
		return sb.String()
	}
	x := dumpTree(program)
	sb.WriteString(";x=" + x)
	for _, compact := range []bool{false, true} {
		key := ";pn="
		if compact {
			key = ";pc="
		}
		if t, ok := printTree(program, compact); ok {
			sb.WriteString(key + hx(t))
		} else {
			sb.WriteString(key + "!")
		}
	}
	for _, compact := range []bool{false, true} {
		key := ";rn="
		if compact {
			key = ";rc="
		}
		if t, ok := printTree(program, compact); ok {
			sb.WriteString(key + reparseSame(t, x))
		} else {
			sb.WriteString(key + "0")
		}
	}
	ev := macroEval(s, out, program)
	sameStore = sameStore && macroStoreDump(s) == ms
	fmt.Fprintf(sb, ";q=%s;ms=%s;sm=%s;ev=%s", b2s(quiet), ms, b2s(sameStore), ev)
	return sb.String()
}

// evaluation of an already expanded program: the tail of evalInput
func macroEval(s *eval.State, out *bytes.Buffer, program ast.Node) (res string) {
	start := out.Len()
	finish := func(v string, isErr bool, pk string) string {
		return fmt.Sprintf("o=%s;v=%s;e=%s;p=%s;g=%s", hx(out.String()[start:]), v, b2s(isErr), pk,
			dumpGlobals(s.VerifRootEnv().VerifStore()))
	}
	defer func() {
		if r := recover(); r != nil {
			s.Reset()
			res = finish("-", false, panicKind(r))
		}
	}()
	s.Context = &countingCtx{Context: context.Background(), left: 200000}
	obj := s.Eval(program)
	return finish(valueString(obj), obj.Type() == object.ERROR, "-")
}

func macroRun(input string) string {
	initExtensions()
	dumpCacheKeys = false
	defer func() { dumpCacheKeys = true }()
	parts := strings.Split(input, ";")
	if len(parts) != 3 {
		return "BAD"
	}
	o := evalOpts{steps: 200000}
	s, out := newSession(false, o)
	sb := &strings.Builder{}
	for i, h := range strings.Split(parts[1], "|") {
		if i > 0 {
			sb.WriteString(" @@ ")
		}
		sb.WriteString(macroInput(s, out, unhx(h)))
	}
	sb.WriteString(" ## ")
	if parts[0] == "W" {
		s2, out2 := newSession(false, o)
		for i, h := range strings.Split(parts[2], "|") {
			if i > 0 {
				sb.WriteString(" @@ ")
			}
			sb.WriteString(evalInput(s2, out2, unhx(h), o))
		}
	} else {
		sb.WriteString("-")
	}
	return sb.String()
}

// ---- generator ----

// A template is text with holes \x01<param>\x02; raw: unquote(<param>), hand: (<argument text>).
type mdef struct {
	name   string
	params []string
	tmpl   string
	stmt   bool // statement-like template: only called at statement level, hand text not parenthesised
	fn     bool // the template is a function value: call sites may call the expansion
	fnPar  map[string]bool
}

func hole(p string) string { return "\x01" + p + "\x02" }

func (m *mdef) raw() string {
	t := m.tmpl
	for _, p := range m.params {
		t = strings.ReplaceAll(t, hole(p), "unquote("+p+")")
	}
	return m.name + " = macro(" + strings.Join(m.params, ", ") + ") { quote(" + t + ") }"
}

func (m *mdef) hand(args []string) string {
	t := m.tmpl
	for i, p := range m.params {
		t = strings.ReplaceAll(t, hole(p), "("+args[i]+")")
	}
	if m.stmt {
		return t
	}
	return "(" + t + ")"
}

var macroParamPool = []string{"x", "y", "z", "w", "p"}

// genTmplExpr: an expression over the given leaves (each used exactly once, in random order).
func genTmplExpr(r *rng, leaves []string) string {
	if len(leaves) == 0 {
		return fmt.Sprint(r.intn(9))
	}
	if len(leaves) == 1 {
		l := leaves[0]
		switch r.intn(12) {
		case 0:
			return "-" + l
		case 1:
			return "id(" + l + ")"
		case 2:
			return "[" + l + ", 7][0]"
		case 3:
			return "func(q) { " + l + " + q }(1)"
		case 4:
			return "(q => q + " + l + ")(2)"
		case 5:
			return "{\"k\": " + l + "}[\"k\"]"
		default:
			return l
		}
	}
	k := 1 + r.intn(len(leaves)-1)
	a, b := genTmplExpr(r, leaves[:k]), genTmplExpr(r, leaves[k:])
	// every form is integer-valued when its leaves are
	switch r.intn(18) {
	case 0, 1:
		return a + " + " + b
	case 2, 3:
		return a + " - " + b
	case 4, 5:
		return a + " * " + b
	case 6:
		return a + " % " + b
	case 7:
		return "add(" + a + ", " + b + ")"
	case 8:
		return "if " + a + " < " + b + " { 1 } else { 2 }"
	case 9:
		return "len([" + a + ", " + b + "])"
	case 10:
		return "[10, 20, 30][" + a + " % 3] + " + b
	case 11:
		return "{\"u\": " + a + ", \"v\": " + b + "}.v"
	case 12:
		return "func() { " + a + "; " + b + " }()"
	case 13:
		return "if " + a + " == " + b + " { 3 } else { 4 }"
	case 14:
		return a + " / " + b
	case 15:
		return "[" + a + ", " + b + "][1]"
	case 16:
		return a + " | " + b
	default:
		return a + " << (" + b + " % 4)"
	}
}

func genMacroDef(r *rng, name string) *mdef {
	np := r.intn(5)
	m := &mdef{name: name, fnPar: map[string]bool{}}
	perm := append([]string{}, macroParamPool...)
	for i := len(perm) - 1; i > 0; i-- {
		j := r.intn(i + 1)
		perm[i], perm[j] = perm[j], perm[i]
	}
	m.params = perm[:np]
	var leaves []string
	for _, p := range m.params {
		for u := r.intn(4); u > 0; u-- {
			leaves = append(leaves, hole(p))
		}
	}
	for c := r.intn(3); c > 0; c-- {
		switch r.intn(3) {
		case 0:
			leaves = append(leaves, fmt.Sprint(1+r.intn(9)))
		case 1:
			leaves = append(leaves, "a")
		default:
			leaves = append(leaves, "b")
		}
	}
	for i := len(leaves) - 1; i > 0; i-- {
		j := r.intn(i + 1)
		leaves[i], leaves[j] = leaves[j], leaves[i]
	}
	switch k := r.intn(16); {
	case k == 0 && np > 0: // callee position
		p := m.params[0]
		m.fnPar[p] = true
		rest := []string{}
		for _, l := range leaves {
			if l != hole(p) {
				rest = append(rest, l)
			}
		}
		m.tmpl = hole(p) + "(" + genTmplExpr(r, rest) + ")"
	case k == 1: // the expansion is a function value
		m.fn = true
		m.tmpl = "func(q) { " + genTmplExpr(r, leaves) + " + q }"
	case k == 2:
		m.fn = true
		m.tmpl = "q => q * " + genTmplExpr(r, leaves)
	case k == 3: // statement templates
		m.stmt = true
		m.tmpl = "if " + genTmplExpr(r, leaves) + " != 0 { println(\"yes\") } else { println(\"no\") }"
	case k == 4:
		m.stmt = true
		m.tmpl = "for 2 { println(" + genTmplExpr(r, leaves) + ") }"
	case k == 5:
		m.stmt = true
		m.tmpl = "res = " + genTmplExpr(r, leaves)
	case k == 6:
		m.stmt = true
		m.tmpl = "for i = 0:2 { println(i, " + genTmplExpr(r, leaves) + ") }"
	default:
		m.tmpl = genTmplExpr(r, leaves)
	}
	return m
}

type callText struct{ raw, hand string }

func genMacroArg(r *rng, defs []*mdef, depth int, fnKind bool) callText {
	if fnKind {
		switch r.intn(3) {
		case 0:
			return callText{"id", "id"}
		case 1:
			return callText{"q => q + 1", "q => q + 1"}
		default:
			return callText{"func(v) { v * 2 }", "func(v) { v * 2 }"}
		}
	}
	k := r.intn(16)
	if depth > 2 && k >= 12 {
		k = r.intn(12)
	}
	var t string
	switch k {
	case 0, 1:
		t = fmt.Sprint(r.intn(20))
	case 2:
		t = "a"
	case 3:
		t = "b"
	case 4:
		t = fmt.Sprintf("%d + %d", 1+r.intn(5), 1+r.intn(5))
	case 5:
		t = fmt.Sprintf("a - %d", r.intn(4))
	case 6:
		switch r.intn(6) { // operators binding looser than anything in a template
		case 0:
			t = "b || a" // (type error at evaluation, on both sides)
		case 1:
			t = fmt.Sprintf("a < %d", r.intn(10))
		case 2:
			t = fmt.Sprintf("res = %d", r.intn(9))
		case 3:
			t = "a | 8"
		case 4:
			t = "b & 6"
		default:
			t = "1 << b"
		}
	case 7:
		t = "tick()"
	case 8:
		t = "cnt++"
	case 9:
		if r.intn(3) == 0 {
			t = "print(\"a\")"
		} else {
			t = "say(" + fmt.Sprint(r.intn(5)) + ")"
		}
	case 10:
		t = fmt.Sprintf("-%d", 1+r.intn(5))
	case 11:
		t = fmt.Sprintf("%d * a", 2+r.intn(3))
	default: // nested macro call as argument
		for try := 0; try < 4; try++ {
			m := defs[r.intn(len(defs))]
			if !m.stmt && !m.fn {
				return genMacroCall(r, defs, m, depth+1)
			}
		}
		t = "3 * a"
	}
	return callText{t, t}
}

func genMacroCall(r *rng, defs []*mdef, m *mdef, depth int) callText {
	raws := make([]string, len(m.params))
	hands := make([]string, len(m.params))
	for i, p := range m.params {
		a := genMacroArg(r, defs, depth, m.fnPar[p])
		raws[i], hands[i] = a.raw, a.hand
	}
	return callText{m.name + "(" + strings.Join(raws, ", ") + ")", m.hand(hands)}
}

// a use of some macro embedded in a host statement
func genMacroUse(r *rng, defs []*mdef, uniq *int) callText {
	m := defs[r.intn(len(defs))]
	c := genMacroCall(r, defs, m, 0)
	if m.stmt {
		switch r.intn(3) {
		case 0:
			*uniq++
			h := fmt.Sprintf("hs%d", *uniq)
			return callText{"func " + h + "() { " + c.raw + " }\n" + h + "()", "func " + h + "() { " + c.hand + " }\n" + h + "()"}
		default:
			return c
		}
	}
	if m.fn {
		a := fmt.Sprint(r.intn(5))
		switch r.intn(3) {
		case 0:
			return callText{"println(" + c.raw + "(" + a + "))", "println(" + c.hand + "(" + a + "))"}
		case 1:
			*uniq++
			f := fmt.Sprintf("fv%d", *uniq)
			return callText{f + " = " + c.raw + "\n" + f + "(" + a + ")", f + " = " + c.hand + "\n" + f + "(" + a + ")"}
		default:
			return callText{c.raw + "(" + a + ")", c.hand + "(" + a + ")"}
		}
	}
	wrap := func(pre, post string) callText { return callText{pre + c.raw + post, pre + c.hand + post} }
	switch r.intn(16) {
	case 0, 1:
		return c
	case 2:
		return wrap("println(", ")")
	case 3:
		return wrap("2 * ", "")
	case 4:
		return wrap("10 - ", "")
	case 5:
		return wrap("", " - 1")
	case 6:
		*uniq++
		h := fmt.Sprintf("h%d", *uniq)
		return wrap("func "+h+"(q) { ", " + q }\n"+h+"(2)")
	case 7:
		return wrap("for i = 0:3 { println(i, ", ") }")
	case 8:
		return wrap("for 2 { println(", ") }")
	case 9:
		c2 := genMacroCall(r, defs, m, 0)
		return callText{"[" + c.raw + ", " + c2.raw + "]", "[" + c.hand + ", " + c2.hand + "]"}
	case 10:
		return wrap("{\"k\": ", "}")
	case 11:
		return wrap("[1, 2, 3][", " % 3]")
	case 12:
		return wrap("if ", " > 2 { println(\"big\") } else { println(\"small\") }")
	case 13:
		*uniq++
		h := fmt.Sprintf("g%d", *uniq)
		return wrap("func "+h+"() { return ", " }\n"+h+"()")
	case 14:
		return wrap("(z => ", " + z)(1)")
	default:
		return wrap("v = ", "\nprintln(v)")
	}
}

const macroPrelude = "a = 7\nb = 3\ncnt = 0\nres = 0\nfunc add(u, v) { u + v }\nfunc id(u) { u }\nfunc tick() { cnt = cnt + 1; println(\"t\", cnt); cnt }\nfunc say(u) { print(\"s\", u); u }"

func genMacroSession(r *rng) string {
	nm := 1 + r.intn(3)
	var defs []*mdef
	for i := 0; i < nm; i++ {
		defs = append(defs, genMacroDef(r, fmt.Sprintf("m%d", i)))
	}
	uniq := 0
	var raws, hands []string
	// input 1: prelude and definitions (sometimes with uses after them in the same input)
	raw1 := []string{macroPrelude}
	hand1 := []string{macroPrelude}
	var known, pending []*mdef
	for i, d := range defs {
		if i > 0 && r.intn(4) == 0 {
			pending = append(pending, d) // defined in a later input
			continue
		}
		raw1 = append(raw1, d.raw())
		known = append(known, d)
	}
	if r.intn(3) == 0 {
		u := genMacroUse(r, known, &uniq)
		raw1 = append(raw1, u.raw)
		hand1 = append(hand1, u.hand)
	}
	raws = append(raws, strings.Join(raw1, "\n"))
	hands = append(hands, strings.Join(hand1, "\n"))
	for in := 1 + r.intn(3); in > 0; in-- {
		var rl, hl []string
		if len(pending) > 0 {
			rl = append(rl, pending[0].raw())
			known = append(known, pending[0])
			pending = pending[1:]
		}
		for u := 1 + r.intn(3); u > 0; u-- {
			c := genMacroUse(r, known, &uniq)
			rl = append(rl, c.raw)
			hl = append(hl, c.hand)
		}
		raws = append(raws, strings.Join(rl, "\n"))
		hands = append(hands, strings.Join(hl, "\n"))
	}
	return "W;" + hexJoin(raws) + ";" + hexJoin(hands)
}

func hexJoin(l []string) string {
	hs := make([]string, len(l))
	for i, t := range l {
		hs[i] = hx(t)
	}
	return strings.Join(hs, "|")
}

// sessions seen by hand / the malformed stream: every list is one session
var macroFixed = [][]string{
	{"m = macro(x) { quote(unquote(x) + unquote(x)) }", "m(print(\"a\"))"},
	{"m = macro(x) { quote(unquote(x) * 2) }\nm(1 + 2)", "m(m(2))", "2 * m(3 * 4)\n10 - m(3 - 4)"},
	{"m = macro(x) { quote(unquote(x) + 1) }\nk = macro(y) { quote(m(unquote(y))) }\nk(3)"},
	{"m = macro(x) { quote(unquote(x) + 1) }\n[m(1)(2), m(2)]"},
	{"m = macro(f) { quote(unquote(f)(3)) }\nfunc foo(x) { x + 1 }\nm(foo)"},
	{"m = macro(b) { quote(func(x) { unquote(b) }) }\nm(x + 1)(3)"},
	{"k = macro(x) { quote(unquote(x) + 1) }\nm = macro(k) { quote(unquote(k) * 2) }", "k(1)", "m(5)", "k(1)"},
	{"m = macro(max) { quote(unquote(max) * 2) }\nm(5)"},
	{"m = macro(x) { quote(unquote(3)) }\nm(1) + 1"},
	{"m = macro(x) { quote(unquote(true)) }\nm(1)"},
	{"m = macro(x) { quote(unquote(1 + 2)) }\nm(1)"},
	{"m = macro(x) { quote(unquote(-1)) }\nm(1)"},
	{"m = macro(x) { quote(unquote(\"s\")) }\nm(1)"},
	{"m = macro(x) { quote(unquote(y)) }\nm(1)"},
	{"m = macro(x) { 1 }\nm(1)"},
	{"m = macro(x) { x }\nm(1)"},
	{"m = macro() { }\nm()"},
	{"m = macro(x) { quote(unquote(x)) }\nm(1, 2)", "m()"},
	{"unquote(1)", "m = macro(x) { unquote(x) }\nm(1)"},
	{"nodef(1)", "m = macro() { quote(1) }", "nodef(1)"},
	{"m = macro(x) { quote(unquote(x) + 1) }\nm(1)", "m = macro(x) { quote(unquote(x) + 2) }\nm(1)", "m(1)"},
	{"M = macro() { quote(1) }\nM()", "M = macro() { quote(2) }\nM()", "M()"},
	{"a = 5", "a = macro() { quote(6) }", "a", "a()", "a = 7", "a()"},
	{"x := macro() { quote(1) }\nx()"},
	{"func f() { mm = macro() { quote(1) }\nmm() }\nf()"},
	{"id = z => z\nid(macro() { quote(1) })"},
	{"arr = [1]\narr[0] = macro() { quote(1) }"},
	{"mp = {}\nmp.k = macro() { quote(1) }"},
	{"max = macro() { quote(1) }\nmax(3, 4)"},
	{"info = macro() { quote(1) }\ninfo()"},
	{"m = macro(x) { quote(unquote()) }\nm(1)"},
	{"m = macro(x) { quote(unquote(x, x)) }\nm(1)"},
	{"m = macro(x) { quote(unquote(x), 2) }\nm(1)"},
	{"m = macro(x) { quote(1)\nquote(unquote(x)) }\nm(5)"},
	{"m = macro(x) { return quote(unquote(x)) }\nm(5)"},
	{"m = macro(x) { print(\"z\")\nquote(1) }\nm(2)"},
	{"m = macro(x, x) { quote(unquote(x)) }\nm(1, 2)"},
	{"m = macro(x) { quote(unquote(unquote(x))) }\nm(4)"},
	{"m = macro(x) { quote(quote(unquote(x))) }\nm(4)"},
	{"m = macro(x) { // c\nquote(unquote(x)) }\nm(4)"},
	{"m = macro(x) { quote(if unquote(x) { 1 }) }\nm(true)\nm(false)"},
	{"m = macro(x) { quote(for unquote(x) { println(1) }) }\nm(2)"},
	{"m = macro(x) { quote({unquote(x): unquote(x)}) }\nm(2)"},
	{"m = macro(x) { quote(unquote(x)[0]) }\nm([5, 6])\nm(\"ab\")"},
	{"m = macro(x) { quote(unquote(x).k) }\nm({\"k\": 3})"},
	{"m = macro(x) { quote(unquote(x)++) }\nm(1)"},
	{"c = 1\nm = macro(x) { quote(unquote(x)) }\nm(c++)\nc"},
	{"m = macro(x) { quote(return unquote(x)) }\nfunc f() { m(5)\n6 }\nf()"},
	{"m = macro(x) { quote(unquote(x) => unquote(x) + 1) }\nm(q)(4)"},
	{"m = macro(x) { quote(1) }\nm = 3\nm(1)"},
	{"fs = [x => x + 1, x => x + 2]\nfunc t() { for i = 0:2 { println(fs[i](10)) } }\nt()"},
	{"quote(unquote(\"a\"))"},
	{"quote(unquote(1 + 2) * unquote(true))"},
	{"m = macro(x) { quote(unquote((y => y + 1)(2))) }\nm(1)"},
	{"m = macro(x) { f = func(a) { println(\"in f\"); a * 2 }\nquote(unquote(f(4))) }\nm(2)"},
	{"m = macro(x) { quote(unquote(max(1, 2))) }\nm(1)"},
	{"m = macro(x) { quote(unquote([1, 2][0])) }\nm(1)"},
	{"m = macro(x) { quote(unquote(len(\"ab\")) + unquote(x)) }\nm(1)"},
	{"m = macro(x) { quote(unquote(1.5)) }\nm(1)"},
	{"m = macro(x) { quote(unquote([1])) }\nm(1)"},
	{"m = macro(x) { quote(unquote(if true { 4 } else { 5 })) }\nm(1)"},
	{"m = macro(x) { println(\"expanding\")\nquote(unquote(x)) }\nm(1)\nm(2)"},
	{"m = macro(x) { for true { }\nquote(1) }\nm(1)"},
	{"m = macro(x) { r = y => if y < 1 { 0 } else { 1 + r(y - 1) }\nquote(unquote(r(3))) }\nm(1)"},
}

func macroGen(tier string, r *rng, emit func(string)) {
	for _, sess := range macroFixed {
		emit("M;" + hexJoin(sess) + ";-")
	}
	n := 700
	if tier == "thorough" {
		n = 12000
	}
	for i := 0; i < n; i++ {
		emit(genMacroSession(r))
	}
	macroGapFamilies(tier, r, emit) // macrofam2.go
}

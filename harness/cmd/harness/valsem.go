package main

import (
	"strconv"
	"strings"
)

// The values suite (property C06, "arrays and maps are values: no aliasing, at any size").
//
// A case is a session in the eval suite's line format (run by evalRun under the four
// configurations): a history of bind / copy / mutate operations over the bindings a, b, c
// (plus m, x for nesting), one operation per input, so that all globals are observed after
// every step (the `g=` dump).  The statement (lean/Grol/Eval/ValuesSuite.lean) compares every
// observation with the value-semantic model.
//
// Families (n = number of elements / pairs of the literal first bound to a)
//   arr-core   every history of <= 4 (thorough <= 5) core array operations on n = 9, of <= 3 (thorough <= 4) on n = 8
//   arr-full   every history of <= 2 operations of the full array vocabulary on every n in {0,1,3,7,8,9,10,20};
//              `b = a` followed by every history of <= 2 on n in {8,9,10}; thorough: every history of <= 3 on n in {8,9,10}
//   map-core   every history of <= 4 (thorough <= 5) core map operations on n = 5, of <= 3 (thorough <= 4) on n = 4
//   map-full   as arr-full with n in {0,1,3,4,5,6,12}, {4,5,6} and {4,5,6}
//   map-plus   `+` on maps WITH A HISTORY: every history of <= 4 operations (n = 5; <= 3 on n = 4, <= 2 on n = 6; thorough one more) from
//              grow by index assignment, shrink by del, a + {existing key}, a + {smaller key, existing key}, a + {}, {} + a,
//              and writes / deletes through the result — the left operand is observed after every step
//   map-rest   rest / slices of maps with a history: every history of <= 4 operations (n = 5; <= 2 on n = 7; thorough one more) from
//              grow by two index assignments (spare capacity), r = rest(a), r = a[1:6] (more than 4 pairs: a BigMap), insert at the
//              front / in the middle of r, delete from r, overwrite in r, write to a afterwards — a AND r observed after every step
//   random     long histories (10..30 operations) over both vocabularies with the bindings permuted, literals of random
//              size rebound in the middle, growth and shrinking across both thresholds in both directions

func init() {
	suites["values"] = suite{gen: valuesGen, run: evalRun}
}

var arrSizes = []int{0, 1, 3, 7, 8, 9, 10, 20}
var mapSizes = []int{0, 1, 3, 4, 5, 6, 12}

func vsArrLit(n, base int) string {
	parts := make([]string, n)
	for i := range parts {
		parts[i] = strconv.Itoa(base + i)
	}
	return "[" + strings.Join(parts, ",") + "]"
}

// keys 0..n-2 and "k" (sorted order: integers before strings)
func vsMapLit(n, base int) string {
	parts := make([]string, 0, n)
	for i := 0; i < n-1; i++ {
		parts = append(parts, strconv.Itoa(i)+":"+strconv.Itoa(base+i))
	}
	if n > 0 {
		parts = append(parts, `"k":`+strconv.Itoa(base+n-1))
	}
	return "{" + strings.Join(parts, ",") + "}"
}

const valuesPrelude = `func f(x){x[0] = 9; x}; func fm(x){x.k = 9; x}`

// the first arrCore / mapCore entries are the core vocabulary
var arrOps = []string{
	"b = a",
	"b[0] = 99",
	"a[1] = 98",
	"b = b + 50",
	"b = a + 51",
	"c = a + 52",
	"c = b",
	"a = a + 10",
	// full vocabulary
	"b = a[1:]",
	"c[-1] = 97",
	"b = rest(a)",
	"c = [a, a]",
	`m = {"k": a}`,
	"b = f(a)",
	"f(a)",
	"b = b + [60,61]",
	"b = b[0:8]",
	"x = c[0]; x[0] = 5",
	"for e = a {b = b + e}",
	"func(){for i = 0:2 {b[i] = 70 + i}}()",
	"b = m.k; b[0] = 1",
	"func(){a[0] = 3}()",
	"c = a + []",
	"c = [] + a",
	"b = a[0:9]",
}

const arrCore = 8

var mapOps = []string{
	"b = a",
	"b.k = 99",
	"a[0] = 98",
	"del(b[0])",
	`b["n"] = 97`,
	"c = b",
	`b = a + {"z": 1}`,
	"del(a.k)",
	// full vocabulary
	"b = rest(a)",
	"b = a[1:]",
	"c = [a, a]",
	`m = {"k": a}`,
	"b = fm(a)",
	"fm(a)",
	`c["n2"] = 1`,
	"del(c.k)",
	"for e = a {del(b[e.key])}",
	"x = c[0]; x.k = 5",
	"b = m.k; b.k = 1",
	"func(){a.k = 3}()",
	"b = a[0:4]",
	"c = a + {}",
	"c = {} + a",
	"a[100] = 6",
	"b = a + {-1:0,1:100}",
	"b = a[1:6]",
	"b[100] = 1",
}

const mapCore = 8

// rest() and slices of maps with a history: the result owns its pairs (repo fix f3e622e), whatever spare capacity the
// source has; inserting into / deleting from the result must leave the source alone and vice versa
var mapRestOps = []string{
	"a[6] = 6; a[7] = 7",
	"r = rest(a)",
	"r = a[1:6]",
	"r[0] = 100",
	"r[100] = 1",
	"del(r[2])",
	"r[3] = 33",
	"a[2] = 22",
}

// `+` on maps with a history (spare capacity after growth by index assignment or after del), overlapping and
// smaller keys, empty operands, followed by writes through the result: the operands must not change
var mapPlusOps = []string{
	"a[100] = 6",
	"del(a[0])",
	"b = a + {0:100}",
	"b = a + {-1:0,1:100}",
	"b = a + {}",
	"b = {} + a",
	"b[1] = 33",
	"del(b[2])",
}

func valuesCase(texts []string) string {
	hs := make([]string, len(texts))
	for i, s := range texts {
		hs[i] = hx(s)
	}
	return "C06;steps=200000;" + strings.Join(hs, "|")
}

// all histories of exactly 1..maxLen operations from ops after the given first inputs
func valuesExhaustive(first []string, ops []string, maxLen int, emit func(string)) {
	var rec func(h []string)
	rec = func(h []string) {
		if len(h) > len(first) {
			emit(valuesCase(h))
		}
		if len(h)-len(first) == maxLen {
			return
		}
		for _, op := range ops {
			rec(append(h[:len(h):len(h)], op))
		}
	}
	rec(first)
}

func valuesGen(tier string, r *rng, emit func(string)) {
	thorough := tier == "thorough"
	coreLen := 4
	if thorough {
		coreLen = 5
	}
	// hand-picked witnesses of the three classes and of their small counterparts (always first)
	for _, h := range [][]string{
		{"a = " + vsArrLit(10, 1), "b = a", "b[0] = 99"},
		{"a = " + vsArrLit(8, 1), "b = a", "b[0] = 99"},
		{"a = " + vsMapLit(5, 1), "b = a", "b.k = 99"},
		{"a = " + vsMapLit(5, 1), "b = a", "del(b[0])"},
		{"a = " + vsMapLit(4, 1), "b = a", "b.k = 99", "del(b[0])"},
		{"a = " + vsArrLit(9, 1), "a = a + 10", "b = a + 11", "c = a + 12"},
		{"a = " + vsArrLit(7, 1), "a = a + 10", "b = a + 11", "c = a + 12"},
		{"a = " + vsArrLit(20, 1), "r = a[2:12]", "r = r + 99"},
		{"a = " + vsArrLit(9, 1), "a = a + 10", "r = rest(a)", "r = r + 99", "s = a[0:9]", "t = s + 77"},
		{"k = {1:1,2:2,3:3,4:4,5:5}", "k[6] = 6", "j = k + {1:100,0:0}"},
		{"m = {1:1,2:2,3:3,4:4,5:5}", "m[6] = 6", "m[7] = 7", "r = rest(m)", "r[0] = 100"},
		{"m = {1:1,2:2,3:3,4:4,5:5}", "m[6] = 6", "m[7] = 7", "r = m[1:6]", "r[0] = 100", "del(r[3])"},
		{"big = {1:1,2:2,3:3,4:4,5:5,6:6}", "acc = {}", "acc = acc + big", "acc[1] = 42", "del(acc[2])", "cp = big + {}", "cp[3] = 33"},
	} {
		emit(valuesCase(h))
	}
	valuesExhaustive([]string{"a = " + vsArrLit(9, 1)}, arrOps[:arrCore], coreLen, emit)
	valuesExhaustive([]string{"a = " + vsArrLit(8, 1)}, arrOps[:arrCore], coreLen-1, emit)
	for _, n := range arrSizes {
		valuesExhaustive([]string{valuesPrelude, "a = " + vsArrLit(n, 1)}, arrOps, 2, emit)
	}
	for _, n := range []int{8, 9, 10} {
		valuesExhaustive([]string{valuesPrelude, "a = " + vsArrLit(n, 1), "b = a"}, arrOps, 2, emit)
	}
	valuesExhaustive([]string{"a = " + vsMapLit(5, 1)}, mapOps[:mapCore], coreLen, emit)
	valuesExhaustive([]string{"a = " + vsMapLit(4, 1)}, mapOps[:mapCore], coreLen-1, emit)
	for _, n := range mapSizes {
		valuesExhaustive([]string{valuesPrelude, "a = " + vsMapLit(n, 1)}, mapOps, 2, emit)
	}
	for _, n := range []int{4, 5, 6} {
		valuesExhaustive([]string{valuesPrelude, "a = " + vsMapLit(n, 1), "b = a"}, mapOps, 2, emit)
	}
	plusLen := 4
	if thorough {
		plusLen = 5
	}
	valuesExhaustive([]string{"a = " + vsMapLit(5, 1)}, mapPlusOps, plusLen, emit)
	valuesExhaustive([]string{"a = " + vsMapLit(4, 1)}, mapPlusOps, plusLen-1, emit)
	valuesExhaustive([]string{"a = " + vsMapLit(6, 1)}, mapPlusOps, plusLen-2, emit)
	valuesExhaustive([]string{"a = " + vsMapLit(5, 1)}, mapRestOps, plusLen, emit)
	valuesExhaustive([]string{"a = " + vsMapLit(7, 1)}, mapRestOps, plusLen-2, emit)
	if thorough {
		for _, n := range []int{8, 9, 10} {
			valuesExhaustive([]string{valuesPrelude, "a = " + vsArrLit(n, 1)}, arrOps, 3, emit)
		}
		for _, n := range []int{4, 5, 6} {
			valuesExhaustive([]string{valuesPrelude, "a = " + vsMapLit(n, 1)}, mapOps, 3, emit)
		}
	}
	valuesGenExtra(tier, r, emit) // second vocabulary (valsem2.go)
	// random long histories
	nr := 300
	if thorough {
		nr = 3500
	}
	names := []string{"a", "b", "c"}
	for i := 0; i < nr; i++ {
		perm := []string{"a", "b", "c"}
		for j := 2; j > 0; j-- {
			k := r.intn(j + 1)
			perm[j], perm[k] = perm[k], perm[j]
		}
		ren := func(op string) string {
			// rename a, b, c as whole words (the vocabulary uses no other one-letter words but e, f, i, k, m, n, x, z)
			var sb strings.Builder
			for j := 0; j < len(op); j++ {
				ch := op[j]
				isWord := func(c byte) bool {
					return c == '_' || c >= '0' && c <= '9' || c >= 'a' && c <= 'z' || c >= 'A' && c <= 'Z'
				}
				if ch >= 'a' && ch <= 'c' && (j == 0 || !isWord(op[j-1]) && op[j-1] != '"' && op[j-1] != '.') && (j+1 == len(op) || !isWord(op[j+1])) {
					sb.WriteString(perm[ch-'a'])
				} else {
					sb.WriteByte(ch)
				}
			}
			return sb.String()
		}
		lit := func() string {
			if r.intn(2) == 0 {
				return vsArrLit(r.intn(21), 1+r.intn(5))
			}
			return vsMapLit(r.intn(13), 1+r.intn(5))
		}
		h := []string{valuesPrelude, "a = " + lit(), "b = " + lit(), "c = a"}
		l := 10 + r.intn(21)
		for j := 0; j < l; j++ {
			switch r.intn(12) {
			case 0:
				h = append(h, names[r.intn(3)]+" = "+lit())
			case 1:
				// grow or shrink across the thresholds
				v := names[r.intn(3)]
				if r.intn(2) == 0 {
					h = append(h, v+" = "+v+" + "+v)
				} else {
					h = append(h, v+" = "+v+"[0:"+strconv.Itoa(r.intn(10))+"]")
				}
			default:
				if r.intn(2) == 0 {
					h = append(h, ren(arrOps[r.intn(len(arrOps))]))
				} else {
					h = append(h, ren(mapOps[r.intn(len(mapOps))]))
				}
			}
		}
		emit(valuesCase(h))
	}
}

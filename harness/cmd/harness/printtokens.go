package main

// `printtokens` suite (C02): ties the token-level rendering of the printer (lean/Grol/PrintTokens.lean,
// the object of the round-trip theorem C02.roundtrip_partial) to the code.
//
// One case = one source text, file mode.  Observation: the F.* fields of the parse suite (stream of the
// real lexer, parse result, tree) and, when the parse is error-free, for each print mode
// m in {n, c, a, ca} (normal, compact, all-parens, compact+all-parens)
//   P.m = the REAL lexer's tokens of the REAL printer's output, each reduced to what an error-free parse
//         reads of it: type "." literal-hex "." flags, flags = 4*numclass + (1 if the token is `(` or `[` and
//         whitespace was skipped in front of it); the two end markers included; or PANIC.
// The driver recomputes P.m from the tree with `progToks` when the tree is in the fragment of the theorem
// (a disagreement is a D line), and evaluates the theorem's conclusion on the observed tokens.

import (
	"fmt"
	"strings"

	"grol.io/grol/token"
)

func init() {
	suites["printtokens"] = suite{gen: printTokensGen, run: printTokensRun}
}

func keyString(recs []tokRec) string {
	var b strings.Builder
	for i, r := range recs {
		if i > 0 {
			b.WriteByte(',')
		}
		fl := r.num * 4
		if r.ws && (r.typ == token.LPAREN || r.typ == token.LBRACKET) {
			fl |= 1
		}
		fmt.Fprintf(&b, "%d.%s.%d", int(r.typ), hx(r.lit), fl)
	}
	return b.String()
}

func printTokensRun(input string) string {
	src := unhx(input)
	o := &obsWriter{}
	r := observeParse(o, "F.", src, false, false)
	if r.panicked || r.errs > 0 || r.cont {
		return o.b.String()
	}
	for _, m := range printModes {
		txt := printReal(r.prog, m.compact, m.allParens)
		k := "P." + m.key[1:]
		if txt == "PANIC" {
			o.kv(k, "PANIC")
			continue
		}
		o.kv(k, keyString(lexAll(unhx(txt), false)))
	}
	return o.b.String()
}

// ---- generator directed at the fragment ----

var (
	ptIdents = []string{"a", "b", "c", "x", "foo", "n_1", "i"}
	ptInts   = []string{"0", "1", "42", "0x1F", "0b101", "1_000", "007"}
	ptFloats = []string{"1.5", ".5", "1e3", "2.", "3.14e-2", "99999999999999999999"}
	ptStrs   = []string{`"s"`, `""`, `"a b"`, `"a\"b"`, "`raw`", `"é"`, `"\n"`, `"-"`, `"("`}
	ptInfix  = []string{"+", "-", "*", "/", "%", "==", "!=", "<", "<=", ">", ">=", "<<", ">>", "||", "&&", "&", "|", "^", "=", ":=", ":"}
	ptPrefix = []string{"-", "!", "+", "~", "^", "++", "--"}
)

func ptAtom(r *rng) string {
	switch r.intn(12) {
	case 0, 1, 2, 3, 4, 5:
		return pick(r, ptIdents)
	case 6, 7:
		return pick(r, ptInts)
	case 8:
		return pick(r, ptFloats)
	case 9:
		return pick(r, ptStrs)
	default:
		return pick(r, []string{"true", "false"})
	}
}

func ptSp(r *rng) string {
	switch r.intn(4) {
	case 0:
		return ""
	default:
		return " "
	}
}

func ptList(r *rng, d, max int) string {
	n := r.intn(max + 1)
	parts := make([]string, n)
	for i := range parts {
		parts[i] = ptExpr(r, d-1)
	}
	return strings.Join(parts, ","+ptSp(r))
}

// expressions of the fragment, with redundant and necessary parentheses in the source
func ptExpr(r *rng, d int) string {
	if d <= 0 {
		return ptAtom(r)
	}
	switch r.intn(30) {
	case 0, 1:
		return ptAtom(r)
	case 2, 3, 4, 5, 6:
		return ptExpr(r, d-1) + " " + pick(r, ptInfix) + " " + ptExpr(r, d-1)
	case 7:
		return ptExpr(r, d-1) + pick(r, ptInfix) + ptExpr(r, d-1)
	case 8, 9:
		return "(" + ptExpr(r, d-1) + " " + pick(r, ptInfix) + " " + ptExpr(r, d-1) + ")"
	case 10, 11:
		return pick(r, ptPrefix) + ptExpr(r, d-1)
	case 12:
		return pick(r, ptPrefix) + "(" + ptExpr(r, d-1) + ")"
	case 13:
		return "(" + ptExpr(r, d-1) + ")"
	case 14, 15:
		return ptCallee(r, d) + "(" + ptList(r, d, 3) + ")"
	case 16:
		return ptCallee(r, d) + "[" + ptExpr(r, d-1) + "]"
	case 17:
		switch r.intn(4) {
		case 0:
			return ptCallee(r, d) + ".(" + ptExpr(r, d-1) + ")"
		case 1:
			return ptCallee(r, d) + "." + pick(r, ptStrs)
		default:
			return ptCallee(r, d) + "." + pick(r, ptIdents)
		}
	case 18:
		return "[" + ptList(r, d, 3) + "]"
	case 19:
		return "(" + ptExpr(r, d-1) + ")" + pick(r, []string{"(1)", "[0]", ".a", " + 1", " * 2", "(a, b)"})
	case 20:
		return pick(r, ptIdents) + pick(r, []string{"++", "--"})
	case 21:
		return pick(r, gBuiltin) + "(" + ptList(r, d, 2) + ")"
	case 22:
		name := ""
		if r.intn(3) == 0 {
			name = " " + pick(r, ptIdents)
		}
		return "func" + name + "(" + genParams(r) + ") " + ptBlock(r, d)
	case 23:
		s := "if " + ptExpr(r, d-1) + " " + ptBlock(r, d)
		switch r.intn(4) {
		case 0:
			s += " else " + ptBlock(r, d)
		case 1:
			s += " else if " + ptExpr(r, d-1) + " " + ptBlock(r, d) + " else " + ptBlock(r, d)
		case 2:
			s += " else if " + ptExpr(r, d-1) + " " + ptBlock(r, d)
		}
		return s
	case 24:
		return "for " + ptExpr(r, d-1) + " " + ptBlock(r, d)
	case 25:
		return pick(r, []string{"break", "continue", ".."})
	case 26:
		switch r.intn(5) {
		case 0:
			return pick(r, ptIdents) + " => " + ptExpr(r, d-1)
		case 1:
			return "(" + genParams(r) + ") => " + ptExpr(r, d-1)
		case 2:
			return "(" + genParams(r) + ") => " + ptBlock(r, d)
		case 3:
			return "(" + pick(r, ptIdents) + " => " + ptExpr(r, d-1) + ")" + pick(r, []string{"(1)", "", " + 1", "[0]"})
		default:
			return pick(r, ptIdents) + "=>" + ptBlock(r, d)
		}
	case 27:
		n := r.intn(4)
		parts := make([]string, n)
		for i := range parts {
			parts[i] = ptExpr(r, d-1) + pick(r, []string{":", ": ", " : "}) + ptExpr(r, d-1)
		}
		return "{" + strings.Join(parts, ", ") + "}"
	case 28:
		return "macro(" + genParams(r) + ") " + ptBlock(r, d)
	default:
		return ptCallee(r, d) + "[" + ptExpr(r, d-1) + ":]"
	}
}

func ptStmt(r *rng, d int) string {
	switch r.intn(8) {
	case 0:
		return "return " + ptExpr(r, d)
	default:
		return ptExpr(r, d)
	}
}

func ptBlock(r *rng, d int) string {
	n := r.intn(4)
	parts := make([]string, n)
	for i := range parts {
		parts[i] = ptStmt(r, d-1)
	}
	if n > 0 && r.intn(6) == 0 {
		parts[n-1] = "return"
	}
	sep := pick(r, []string{"\n", "; ", "\n\t"})
	if n == 0 {
		return "{}"
	}
	return "{" + pick(r, []string{"", " ", "\n"}) + strings.Join(parts, sep) + pick(r, []string{"", " ", "\n"}) + "}"
}

func ptCallee(r *rng, d int) string {
	switch r.intn(8) {
	case 0:
		return "(" + ptExpr(r, d-1) + ")"
	case 1:
		return pick(r, ptIdents) + "." + pick(r, ptIdents)
	case 2:
		return pick(r, ptIdents) + "[" + ptAtom(r) + "]"
	case 3:
		return pick(r, ptIdents) + "(" + ptAtom(r) + ")"
	default:
		return pick(r, ptIdents)
	}
}

func ptProgram(r *rng) string {
	n := 1 + r.intn(4)
	if r.intn(3) == 0 {
		n = 1
	}
	sep := pick(r, []string{"\n", "\n", "; ", ";", "\n\n"})
	parts := make([]string, n)
	for i := range parts {
		parts[i] = ptStmt(r, 1+r.intn(4))
	}
	s := strings.Join(parts, sep)
	if r.intn(2) == 0 {
		s += "\n"
	}
	return s
}

func printTokensGen(tier string, r *rng, emit func(string)) {
	thorough := tier == "thorough"
	src := func(s string) { emit(hx(s)) }
	// every ordered pair of operators in parent / child position (and the hand-picked cases of the format suite)
	pairFamily(src)
	for _, p := range ptInfix {
		for _, q := range ptInfix {
			src("a " + p + " (b " + q + " c) " + p + " d")
			src("f(a " + p + " b, c " + q + " d)")
			src("[a " + p + " b " + q + " c][a " + q + " b]")
			src("(a " + p + " b).c " + q + " d")
			src("a " + p + " b\nc " + q + " d")
			src("a " + p + " b\n(c " + q + " d)\n[e]")
		}
		for _, u := range ptPrefix {
			src("a " + p + " b\n" + u + "c")
			src(u + "a " + p + " b\n" + u + "(c " + p + " d)")
			src(u + "f(" + u + "a)[" + u + "b] " + p + " c")
			src(u + "a.b " + p + " " + u + "[c]")
		}
	}
	// statement adjacency inside the fragment
	stmts := []string{"a", "1", "1.5", "\"s\"", "true", "-a", "+1", "^a", "++a", "--a", "!a", "~a", "(a)", "(a + b) * c", "[a]", "[]", "a+b", "a = 1", "a = [1]",
		"f(a)", "f()", "a.b", "a[1]", "a[1:2]", "a.b(c)", "-a.b", "(-a)(b)", "a = -b", "a - -b"}
	for _, s1 := range stmts {
		for _, s2 := range stmts {
			for _, sep := range []string{"\n", "; ", " "} {
				src(s1 + sep + s2)
			}
			src(s1 + "\n" + s2 + "\n" + s1)
		}
	}
	// blocks: statement adjacency inside function bodies and conditionals, `return` with and without a value
	for _, s1 := range stmts {
		for _, s2 := range stmts {
			src("func(){" + s1 + "\n" + s2 + "}")
			src("if a {" + s1 + "; " + s2 + "} else {" + s2 + "\n" + s1 + "}")
		}
		src("func f(a, b){" + s1 + "\nreturn " + s1 + "}")
		src("func(a, ..){return " + s1 + "}(" + s1 + ")")
		src("for " + s1 + " {" + s1 + "\nreturn}")
		src("if " + s1 + " {" + s1 + "} else if " + s1 + " {" + s1 + "} else {" + s1 + "}")
		src("if " + s1 + " {" + s1 + "} else {if " + s1 + " {" + s1 + "}}")
		src("x = if " + s1 + " {" + s1 + "} else {" + s1 + "}\n" + s1)
		src("len(" + s1 + ") + first(" + s1 + ", " + s1 + ")")
		src(s1 + "\nreturn " + s1)
		src(s1 + "\nreturn")
		src("a++ + " + s1 + "\nb--\n" + s1)
		src("x => " + s1 + "\n" + s1)
		src("(a, b) => {" + s1 + "\n" + s1 + "}")
		src("() => " + s1)
		src("f(x => " + s1 + ", (a, ..) => {" + s1 + "})")
		src(s1 + "\n{" + s1 + ": " + s1 + ", \"k\": " + s1 + "}")
		src("m = {" + s1 + ": x => " + s1 + "}\n" + s1)
		src("macro(a){" + s1 + "}\n" + s1)
		src("a[" + s1 + ":]\n" + s1)
		src("a[" + s1 + ":][" + s1 + ":" + s1 + "]")
	}
	// `..` next to a dot: since e5e6eb7 the index `..` keeps its parentheses
	for _, s1 := range []string{"a.(..)", "a.(..++)", "(..).a", "(..).(..)", "a.(..).b", "a.(..)(1)", "..++", "a[..]", "f(..)", ".. + ..", "a.(..--) + b", "x = a.(..)\n(..).b"} {
		src(s1)
		src("f(" + s1 + ")")
		src("func(){" + s1 + "\n" + s1 + "}")
	}
	for _, p := range ptInfix {
		src("a " + p + " x => x " + p + " b")
		src("(x => x) " + p + " b")
		src("x => (y => y " + p + " b)")
		src("{a " + p + " b: c " + p + " d}")
		src("{(a: b) " + p + " c: d}")
		src("a[b " + p + " c:]")
	}
	n := 12000
	if thorough {
		n = 300000
	}
	for i := 0; i < n; i++ {
		src(ptProgram(r))
	}
	// programs of the general grammar (mostly outside the fragment: the driver must decline them)
	n = 1500
	if thorough {
		n = 30000
	}
	for i := 0; i < n; i++ {
		src(genProgram(r, 1+r.intn(3)))
	}
}

package main

// C13, family added by the review of the property text against macroGen: "templates built from the expression
// AND STATEMENT grammar ... all argument expressions".  The random generator builds integer-valued templates
// (+ - * % / | <<, calls, if, index, map, function literals); it never puts the unquote into a slice bound, an
// open-ended slice `x[1:]` (a node with a missing child for the tree rewriter), a dot index, a map KEY, an
// else-if chain, a `return` inside a function template, a logical / comparison / prefix operator, a builtin
// (len first rest println catch error del quote) or an assignment target, and its arguments are integers:
// never a string, an array, a map, a lambda, a function literal with a return, an if-expression or a slice.
// Every (template, argument) pair is one well-formed session (kind W): definitions, then the use as a
// statement, then the use as the right-hand side of an assignment — with the hand-substituted session.

import (
	"strings"
)

const macroPrelude2 = macroPrelude + "\narr = [10, 20, 30, 40]\nmp = {\"k\": 5, \"j\": 6}"

type tmpl2 struct {
	text   string // holes {x} {y}
	params int
}

var macroTemplates2 = []tmpl2{
	{"{x}[1:]", 1}, {"{x}[0:1]", 1}, {"arr[{x}:]", 1}, {"arr[{x}:{y}]", 2}, {"mp.k + {x}", 1}, {"{x}.k", 1}, {"{\"z\": {x}}", 1}, {"{{x}: 1}", 1},
	{"[{x}, {x}]", 1}, {"len({x})", 1}, {"if {x} { 1 } else if {y} { 2 } else { 3 }", 2}, {"func() { return {x} }()", 1},
	{"func() { if true { return {x} }\n 0 }()", 1}, {"(() => {x})()", 1}, {"!{x}", 1}, {"-{x}", 1}, {"{x} && {y}", 2}, {"{x} || {y}", 2},
	{"{x} == {y}", 2}, {"{x} < {y}", 2}, {"{x}(3)", 1}, {"id({x})(3)", 1}, {"first({x})", 1}, {"rest({x})", 1}, {"println({x}, {y})", 2},
	{"{x} + \"s\"", 1}, {"[1,2,3][{x}]", 1}, {"for i = 0:2 { {x} }", 1}, {"for {x} { {y} }", 2}, {"catch({x})", 1}, {"error({x})", 1},
	{"del({x})", 1}, {"quote({x})", 1}, {"(q => q)({x})", 1}, {"z = {x}", 1}, {"res = res + {x}", 1}, {"func(q) { q + {x} }", 1},
	{"[{x}][0:][0]", 1}, {"func() { {x}; {y} }()", 2}, {"if {x} { {y} }", 2},
}

var macroArgs2 = []string{
	"1", "a", "a - 1", "b || a", "res = 2", "tick()", "cnt++", "say(2)", "-2", "[3,4,5]", "arr", "x => x + 1", "if a > 1 { 2 } else { 3 }",
	"\"str\"", "mp", "arr[1:]", "{\"k\": 1}", "func(q) { return q * 2 }", "1 < 2", "!true", "a == 7 && b == 3",
}

func fill2(t string, vals []string) string {
	t = strings.ReplaceAll(t, "{x}", vals[0])
	if len(vals) > 1 {
		t = strings.ReplaceAll(t, "{y}", vals[1])
	}
	return t
}

func macroGapFamilies(tier string, r *rng, emit func(string)) {
	names := []string{"x", "y"}
	for _, t := range macroTemplates2 {
		ps := names[:t.params]
		unq := make([]string, len(ps))
		for i, p := range ps {
			unq[i] = "unquote(" + p + ")"
		}
		def := "m = macro(" + strings.Join(ps, ", ") + ") { quote(" + fill2(t.text, unq) + ") }"
		for _, a := range macroArgs2 {
			args := []string{a, "2"}[:t.params]
			par := make([]string, len(args))
			for i, v := range args {
				par[i] = "(" + v + ")"
			}
			call := "m(" + strings.Join(args, ", ") + ")"
			hand := "(" + fill2(t.text, par) + ")"
			raws := []string{macroPrelude2 + "\n" + def, call, "v = " + call + "\nprintln(v)"}
			hands := []string{macroPrelude2, hand, "v = " + hand + "\nprintln(v)"}
			emit("W;" + hexJoin(raws) + ";" + hexJoin(hands))
		}
	}
	// a macro REDEFINED IN A LATER INPUT of the session, with 0, 1 and 2 parameters, used before and after (seeded change C13-6: an
	// expansion cache for parameterless macros keyed by name survived the redefinition): "the definition is not altered by its
	// uses" x "across several inputs of a session"; with the hand-substituted session
	for _, rd := range []struct {
		ps         string
		t1, t2     string // templates over {x} {y}
		args       []string
	}{
		{"", "4 + 6", "9 * 2", nil},
		{"", "say(5)", "say(9) + 1", nil},
		{"", "[1, 2]", `{"k": 3}`, nil},
		{"x", "{x} + 1", "{x} * 10", []string{"3"}},
		{"x", "{x}", "-{x}", []string{"tick()"}},
		{"x, y", "{x} - {y}", "{y} - {x}", []string{"7", "2"}},
	} {
		var unq, par []string
		if rd.ps != "" {
			for i, p := range strings.Split(rd.ps, ", ") {
				unq = append(unq, "unquote("+p+")")
				par = append(par, "("+rd.args[i]+")")
			}
		}
		def1 := "m = macro(" + rd.ps + ") { quote(" + fill2(rd.t1, append(unq, "", "")) + ") }"
		def2 := "m = macro(" + rd.ps + ") { quote(" + fill2(rd.t2, append(unq, "", "")) + ") }"
		call := "m(" + strings.Join(rd.args, ", ") + ")"
		h1 := "(" + fill2(rd.t1, append(par, "", "")) + ")"
		h2 := "(" + fill2(rd.t2, append(par, "", "")) + ")"
		raws := []string{macroPrelude2 + "\n" + def1 + "\n" + call, call + "\nf = func() { " + call + " }\nf()", def2, call, "println(" + call + ", " + call + ")\nf = func() { " + call + " }\nf()"}
		hands := []string{macroPrelude2 + "\n" + h1, h1 + "\nf = func() { " + h1 + " }\nf()", "", h2, "println(" + h2 + ", " + h2 + ")\nf = func() { " + h2 + " }\nf()"}
		emit("W;" + hexJoin(raws) + ";" + hexJoin(hands))
		// the redefinition and a call in ONE later input (hoisted: the call uses the new definition)
		raws = []string{macroPrelude2 + "\n" + def1 + "\n" + call, def2 + "\n" + call, call}
		hands = []string{macroPrelude2 + "\n" + h1, h2, h2}
		emit("W;" + hexJoin(raws) + ";" + hexJoin(hands))
	}
	// a macro redefined inside ONE input (definitions are hoisted: both calls use the last definition; recorded
	// for C15 part 3 as macro-redefined-after-use-in-one-input), and used before its definition
	for _, sess := range [][]string{
		{"m = macro(x) { quote(unquote(x) + 1) }\nm(1)\nm = macro(x) { quote(unquote(x) + 2) }\nm(1)", "m(1)"},
		{"m(1)\nm = macro(x) { quote(unquote(x) + 1) }\nm(1)"},
		{"m = macro(x) { quote(unquote(x) * 2) }\nf = func(y) { m(y) }\nf(2)\nm = macro(x) { quote(unquote(x) * 3) }\nf(2)", "f(2)\nm(2)"},
	} {
		emit("M;" + hexJoin(sess) + ";-")
	}
}

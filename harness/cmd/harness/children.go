// Helpers for suites that run the real code in child processes (re-exec of this binary with a
// subcommand) inside scratch directories under the framework's work directory.
package main

import (
	"bufio"
	"crypto/sha256"
	"encoding/hex"
	"flag"
	"fmt"
	"io"
	"os"
	"os/exec"
	"path/filepath"
	"sort"
)

// workDir is the directory of the -out file (work/<property>/) or ./work.
func workDir() string {
	d := "work"
	if f := flag.Lookup("out"); f != nil && f.Value.String() != "" {
		d = filepath.Dir(f.Value.String())
	}
	abs, err := filepath.Abs(d)
	if err != nil {
		panic(err)
	}
	return abs
}

// newScratch creates an empty scratch directory under the work directory; it is removed by the
// cleanups (and any stale one of the same name is removed first).
func newScratch(name string) string {
	d := filepath.Join(workDir(), fmt.Sprintf("scratch-%s-%d", name, os.Getpid()))
	_ = os.RemoveAll(d)
	if err := os.MkdirAll(d, 0o755); err != nil {
		panic(err)
	}
	cleanups = append(cleanups, func() { _ = os.RemoveAll(d) })
	return d
}

func selfExe() string {
	exe, err := os.Executable()
	if err != nil {
		panic(err)
	}
	return exe
}

// lineChild is a child process answering one line per request line.
type lineChild struct {
	cmd *exec.Cmd
	in  io.WriteCloser
	out *bufio.Reader
}

func startLineChild(dir string, env []string, args ...string) *lineChild {
	cmd := exec.Command(selfExe(), args...)
	cmd.Dir = dir
	cmd.Env = append(os.Environ(), env...)
	cmd.Stderr = io.Discard
	in, err := cmd.StdinPipe()
	if err != nil {
		panic(err)
	}
	outp, err := cmd.StdoutPipe()
	if err != nil {
		panic(err)
	}
	if err := cmd.Start(); err != nil {
		panic(err)
	}
	c := &lineChild{cmd: cmd, in: in, out: bufio.NewReaderSize(outp, 1<<16)}
	cleanups = append(cleanups, c.stop)
	return c
}

func (c *lineChild) ask(req string) (string, error) {
	if _, err := io.WriteString(c.in, req+"\n"); err != nil {
		return "", err
	}
	l, err := c.out.ReadString('\n')
	if err != nil {
		return "", err
	}
	return l[:len(l)-1], nil
}

func (c *lineChild) stop() {
	_ = c.in.Close()
	_ = c.cmd.Process.Kill()
	_ = c.cmd.Wait()
}

// treeSnapshot lists every entry below root: relative path -> "d" for directories or the
// sha256 of the contents.
func treeSnapshot(root string) map[string]string {
	m := map[string]string{}
	_ = filepath.WalkDir(root, func(p string, d os.DirEntry, err error) error {
		if err != nil || p == root {
			return nil
		}
		rel, _ := filepath.Rel(root, p)
		rel = filepath.ToSlash(rel)
		if d.IsDir() {
			m[rel] = "d"
			return nil
		}
		data, err := os.ReadFile(p)
		if err != nil {
			m[rel] = "unreadable"
			return nil
		}
		h := sha256.Sum256(data)
		m[rel] = hex.EncodeToString(h[:8])
		return nil
	})
	return m
}

// treeDiff returns the sorted list of "C:<path>", "M:<path>", "D:<path>" between two snapshots.
func treeDiff(before, after map[string]string) []string {
	var res []string
	for p, h := range after {
		if old, ok := before[p]; !ok {
			res = append(res, "C:"+p)
		} else if old != h {
			res = append(res, "M:"+p)
		}
	}
	for p := range before {
		if _, ok := after[p]; !ok {
			res = append(res, "D:"+p)
		}
	}
	sort.Strings(res)
	return res
}
